package main

// C05 — "each emitted row yields at most one result that depends only on that row and the query",
// quantified over histories in which a column CHANGES ITS GO TYPE, and the order of one producer's
// results when the default overflow strategy (drop) loses rows.
//
//   T lines (typed histories): SELECT id, <1-2 items> FROM stream [WHERE id OP k]; every item goes to
//             the expression bridge (it is parenthesised or a call) and compares a column with an int
//             literal, a string literal or another column by == / != :
//               (c == L)  (c != L)  (L == c)  ((c == L))  (c + 1 == L+1)  (c * 2 == 2L)
//               (c == 'sK')  ('sK' != c)  (c == d)  coalesce(c == L, 0)  coalesce((c != 'sK'), 0)
//             The bridge keeps compiled programs in a PROCESS-WIDE cache keyed by the expression
//             text and compiles against the row at hand, so the column names and literals of every
//             case are unique in this process: the first row of the case is the first row ever
//             evaluated with these texts.  The 5-7 rows of a case carry the column as int, int64,
//             float64 (integral and fractional), a numeric-looking or other string, bool, NULL or
//             not at all, equal to the literal or not; which carrier comes first varies (int / string
//             first two thirds of the time: those are the ones expr-lang specialises == for).
//             Per row: used  = the row's EmitSync result on the stream that has seen the rows before it,
//                      async = what the synchronous sink of a second stream got for it (Emit, same order),
//                      fresh = the row alone on a fresh stream whose items are spelled with i+1 further
//                              pairs of parentheses, a spelling no other row of the process is evaluated
//                              with (a fresh STREAM alone still shares the program cache).
//             Judged by direct q row of the extracted model (history-free by C05_history_free; extra
//             parentheses do not change an item: C05_item_extra_parens) and by fresh = used = async
//             (clauses history_dependent, sync_async_differ).
//   D lines (single-producer order under the DROP strategy): a generated star-free query whose first
//             item is the row's id, DataChannelSize 1-4, overflow strategy drop (the default), a
//             synchronous sink that takes 30-120 us per result, ONE producer emitting 500/1500 rows as
//             fast as it can.  Rows may be lost (the dropped-input counter says how many); the ids the
//             sink got must be a subsequence of the emission order (extracted rc_check; theorem
//             C05_drop_keeps_order over Model/LossyFifo.v: a drop never reorders), and every delivered
//             result must be the model's (the X clauses).

import (
	"fmt"
	"math/big"
	"strings"
	"sync"
	"sync/atomic"
	"time"

	"github.com/rulego/streamsql"
	"github.com/rulego/streamsql/stream"
	"github.com/rulego/streamsql/types"
)

// ---------------------------------------------------------------- T: typed histories
var c05TSeq int64 // cases of this process: column names and literals are derived from it

type c05TVal struct {
	carrier string // int int64 float frac numstr str bool null absent
	v       any
}

func (x c05TVal) enc() (string, bool) {
	switch v := x.v.(type) {
	case nil:
		if x.carrier == "absent" {
			return "", false
		}
		return "N", true
	case int:
		return fmt.Sprintf("i%d/1", v), true
	case int64:
		return fmt.Sprintf("i%d/1", v), true
	case float64:
		return "f" + ratEnc(new(big.Rat).SetFloat64(v)), true
	case string:
		return "s" + hx(v), true
	case bool:
		return "b" + b01(v), true
	}
	return "N", true
}

// a value of column c for one row; lit = the int literal of the case, slit = its string literal
func c05TPick(r *RNG, carrier string, lit int64, slit string) c05TVal {
	n := lit
	if r.Intn(3) == 0 {
		n = lit + []int64{1, -1, 2}[r.Intn(3)]
	}
	switch carrier {
	case "int":
		return c05TVal{carrier, int(n)}
	case "int64":
		return c05TVal{carrier, n}
	case "float":
		return c05TVal{carrier, float64(n)}
	case "frac":
		return c05TVal{carrier, float64(n) + 0.5}
	case "numstr":
		return c05TVal{carrier, fmt.Sprint(n)}
	case "str":
		if r.Intn(3) != 0 {
			return c05TVal{carrier, slit}
		}
		return c05TVal{carrier, r.Pick([]string{"x", "", slit + "z", "U"})}
	case "bool":
		return c05TVal{carrier, r.Bool()}
	case "null":
		return c05TVal{carrier, nil}
	}
	return c05TVal{"absent", nil}
}

var c05TCarriers = []string{"int", "int", "int64", "float", "float", "frac", "numstr", "str", "str", "bool", "null", "absent"}

type c05TItem struct {
	e     *ex
	out   string
	cols  []string
	isStr bool
}

func c05Wrap(e *ex, k int) *ex {
	for i := 0; i < k; i++ {
		e = &ex{k: "par", l: e}
	}
	return e
}

func c05TypedHistories(tier string, r *RNG, o *Out) {
	nq := 36
	if tier == "thorough" {
		nq = 360
	}
	for qi := 0; qi < nq; qi++ {
		seq := atomic.AddInt64(&c05TSeq, 1)
		lit := 200000 + seq*16 + int64(r.Intn(6))
		slit := fmt.Sprintf("u%d", seq)
		colC, colD := fmt.Sprintf("rd%d", seq), fmt.Sprintf("wd%d", seq)
		eqop := func() string { return r.Pick([]string{"eq2", "eq2", "ne"}) }
		mkItem := func(i int) c05TItem {
			it := c05TItem{out: r.Pick([]string{"hit", "flag", "m"}) + fmt.Sprint(i), cols: []string{colC}}
			one := num(1, 1)
			switch r.Intn(11) {
			case 0, 1:
				it.e = c05Wrap(cmp(eqop(), col(colC), num(lit, 1)), 1)
			case 2:
				it.e = c05Wrap(cmp(eqop(), num(lit, 1), col(colC)), 1)
			case 3:
				it.e = c05Wrap(cmp(eqop(), col(colC), num(lit, 1)), 2)
			case 4:
				it.e = c05Wrap(cmp(eqop(), bin("add", col(colC), one), num(lit+1, 1)), 1)
			case 5:
				it.e = c05Wrap(cmp(eqop(), bin("mul", col(colC), num(2, 1)), num(2*lit, 1)), 1)
			case 6:
				it.e, it.isStr = c05Wrap(cmp(eqop(), col(colC), str(slit)), 1), true
			case 7:
				it.e, it.isStr = c05Wrap(cmp(eqop(), str(slit), col(colC)), 1), true
			case 8:
				it.e = c05Wrap(cmp(eqop(), col(colC), col(colD)), 1)
				it.cols = []string{colC, colD}
			case 9:
				it.e = &ex{k: "call", s: "coalesce", args: []*ex{cmp(eqop(), col(colC), num(lit, 1)), num(0, 1)}}
			default:
				it.e, it.isStr = &ex{k: "call", s: "coalesce", args: []*ex{c05Wrap(cmp(eqop(), col(colC), str(slit)), 1), num(0, 1)}}, true
			}
			return it
		}
		items := []c05TItem{mkItem(0)}
		if r.Intn(3) == 0 {
			items = append(items, mkItem(1))
		}
		usesD, strCase := false, items[0].isStr
		for _, it := range items {
			if len(it.cols) > 1 {
				usesD = true
			}
		}
		var where *ex
		if r.Intn(3) == 0 {
			where = cmp(r.Pick([]string{"ge", "ne", "lt", "gt"}), col("id"), num(int64(r.Intn(4)), 1))
		}
		build := func(extra int) (string, *query) {
			q := &query{items: []qitem{{kind: "col", src: "id", out: "id"}}, where: where}
			for _, it := range items {
				q.items = append(q.items, qitem{kind: "expr", t: &etop{e: c05Wrap(it.e, extra)}, out: it.out})
			}
			return q.sql(), q
		}
		sql, q := build(0)
		usedS := streamsql.New(streamsql.WithDiscardLog())
		if err := usedS.Execute(sql); err != nil {
			usedS.Stop()
			o.Count("typed/rejected")
			continue
		}
		asyncS := streamsql.New(streamsql.WithDiscardLog())
		_ = asyncS.Execute(sql)
		sink := newC05EncSink(func(m map[string]any) string { return resEnc(m, nil) })
		asyncS.AddSyncSink(sink.fn)
		// the carriers of the column along the history
		nrows := 5 + r.Intn(3)
		first := "int"
		switch x := r.Intn(9); {
		case x < 6:
			if strCase {
				first = "str"
			}
		case x == 6:
			first = "float"
		case x == 7:
			first = r.Pick([]string{"int64", "numstr", "null", "frac"})
		default:
			first = r.Pick([]string{"str", "int"})
		}
		o.Count("typed/queries")
		o.Count("typed/first_" + first)
		var hist []string
		var encs, fresh, usedRes []string
		want := 0
		for i := 0; i < nrows; i++ {
			carrier := first
			if i > 0 {
				carrier = c05TCarriers[r.Intn(len(c05TCarriers))]
			}
			vc := c05TPick(r, carrier, lit, slit)
			m := map[string]any{"id": i}
			cells := []string{hx("id") + fmt.Sprintf(":i%d/1", i)}
			tag := vc.carrier
			if e, ok := vc.enc(); ok {
				m[colC] = vc.v
				cells = append(cells, hx(colC)+":"+e)
			}
			if usesD {
				dc := "int"
				if i > 0 && r.Intn(3) == 0 {
					dc = r.Pick([]string{"float", "int64", "numstr", "null"})
				}
				vd := c05TPick(r, dc, lit, slit)
				if e, ok := vd.enc(); ok {
					m[colD] = vd.v
					cells = append(cells, hx(colD)+":"+e)
				}
				tag += "/" + vd.carrier
			}
			hist = append(hist, tag)
			encs = append(encs, strings.Join(cells, " "))
			get := func(s *streamsql.Streamsql) string {
				return guard(func() string { res, err := s.EmitSync(copyMap(m)); return resEnc(res, err) })
			}
			u := get(usedS)
			usedRes = append(usedRes, u)
			if strings.HasPrefix(u, "row") {
				want++
			}
			asyncS.Emit(copyMap(m))
			// no history at all: a spelling of the items that only this row is ever evaluated with
			fsql, _ := build(i + 1)
			f := streamsql.New(streamsql.WithDiscardLog())
			if f.Execute(fsql) != nil {
				fresh = append(fresh, "execerr")
			} else {
				fresh = append(fresh, get(f))
			}
			f.Stop()
			o.Count("typed/carrier_" + vc.carrier)
		}
		c05WaitCount(sink.total, want, 5*time.Second)
		time.Sleep(2 * time.Millisecond)
		usedS.Stop()
		asyncS.Stop()
		for i := 0; i < nrows; i++ {
			o.Line("C05 T %s # %s # %d %s # %s # %s # %s # %s", hx(sql), q.c06_enc(), i, strings.Join(hist[:i+1], ","), encs[i], usedRes[i], sink.outcome(i), fresh[i])
			o.Count("typed/rows")
		}
	}
}

// ---------------------------------------------------------------- D: order under the drop strategy
type c05SlowSink struct {
	mu    sync.Mutex
	got   []map[string]any
	pause time.Duration
}

func (k *c05SlowSink) fn(rs []map[string]any) {
	k.mu.Lock()
	for _, x := range rs {
		k.got = append(k.got, copyMap(x))
	}
	k.mu.Unlock()
	// a sink that takes some time per result (a socket write, an insert)
	if k.pause > 0 {
		time.Sleep(k.pause)
	}
}
func (k *c05SlowSink) n() int { k.mu.Lock(); defer k.mu.Unlock(); return len(k.got) }
func (k *c05SlowSink) seen(id int) bool {
	k.mu.Lock()
	defer k.mu.Unlock()
	for i := len(k.got) - 1; i >= 0; i-- {
		if c05ResID(k.got[i]) == id {
			return true
		}
	}
	return false
}
func (k *c05SlowSink) results() []map[string]any {
	k.mu.Lock()
	defer k.mu.Unlock()
	var out []map[string]any
	for _, x := range k.got {
		if c05ResID(x) != c05Sentinel {
			out = append(out, x)
		}
	}
	return out
}

func c05DropOrder(r *RNG, o *Out, n int) {
	q := c05IdQuery(r, nil)
	sql := q.sql()
	ref := streamsql.New(streamsql.WithDiscardLog())
	if err := ref.Execute(sql); err != nil {
		ref.Stop()
		o.Count("drop/rejected")
		return
	}
	defer ref.Stop()
	capN := 1 + r.Intn(4)
	var s *streamsql.Streamsql
	if r.Bool() {
		// the public short cut: default performance profile (overflow strategy drop), a tiny input buffer
		s = streamsql.New(streamsql.WithDiscardLog(), streamsql.WithBufferSizes(capN, 256, 10))
	} else {
		pc := types.DefaultPerformanceConfig()
		pc.BufferConfig.DataChannelSize = capN
		pc.OverflowConfig.Strategy = "drop"
		pc.OverflowConfig.AllowDataLoss = true
		s = streamsql.New(streamsql.WithDiscardLog(), streamsql.WithCustomPerformance(pc))
	}
	if err := s.Execute(sql); err != nil {
		s.Stop()
		o.Count("drop/rejected")
		return
	}
	sink := &c05SlowSink{pause: time.Duration(30*(1+r.Intn(4))) * time.Microsecond}
	s.AddSyncSink(sink.fn)
	pool := make([]rowT, 6)
	for i := range pool {
		pool[i] = c05PickRow(r, ref, i < 5)
	}
	var rows []rowT
	var maps []map[string]any
	for i := 0; i < n; i++ {
		row := c05WithID(pool[r.Intn(len(pool))], i)
		rows = append(rows, row)
		maps = append(maps, row.goMap())
	}
	for _, m := range maps { // ONE producer, strictly sequential
		s.Emit(m)
	}
	// quiet (nothing new at the sink for 40 ms), then a last row that the consumer can only reach after
	// everything that was accepted before it
	last, since := -1, time.Now()
	for i := 0; i < 3000 && time.Since(since) < 40*time.Millisecond; i++ {
		time.Sleep(2 * time.Millisecond)
		if c := sink.n(); c != last {
			last, since = c, time.Now()
		}
	}
	tail := c05PickRow(r, ref, true)
	if c05Passes(ref, tail) {
		s.Emit(c05WithID(tail, c05Sentinel).goMap())
		for i := 0; i < 1500 && !sink.seen(c05Sentinel); i++ {
			time.Sleep(2 * time.Millisecond)
		}
	}
	time.Sleep(5 * time.Millisecond)
	st := s.GetStats()
	c05StopWithin(s, 8*time.Second)
	got := sink.results()
	var sb strings.Builder
	fmt.Fprintf(&sb, "C05 D %s # %s # %d %d %d %d 0", hx(sql), q.c06_enc(), len(rows), st[stream.InputDroppedCount], capN, sink.pause/time.Microsecond)
	for _, row := range rows {
		sb.WriteString(" # " + row.c06_enc())
	}
	for _, res := range got {
		sb.WriteString(" # " + resEnc(res, nil))
	}
	o.Line("%s", sb.String())
	o.Count("drop/runs")
	if st[stream.InputDroppedCount] > 0 {
		o.Count("drop/runs_with_loss")
	}
	if int(st[stream.DataChanCap]) != capN {
		o.Count(fmt.Sprintf("drop/UNEXPECTED_capacity_%d_for_%d", st[stream.DataChanCap], capN))
	}
}

func c05Typed(tier string, seed uint64, o *Out) {
	c05TypedHistories(tier, NewRNG(seed*1000003+565), o)
	nDrop, nRows := 6, 500
	if tier == "thorough" {
		nDrop, nRows = 30, 1500
	}
	r := NewRNG(seed*1000003 + 575)
	for i := 0; i < nDrop; i++ {
		c05DropOrder(r, o, nRows)
	}
}
