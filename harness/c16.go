package main

// C16 — stream-table JOIN. Line kinds (first token after the property id):
//   E <S v | T n v...> # <hex of encodeKey(...)>              encoder, through the verif hook
//   P n v... # n v... # <0|1>                                  encodeKey(a) == encodeKey(b) on the real code
//   J <config> # <registrations> # <ops with observed results> public API: Execute / RegisterTable / UpsertTable /
//                                                              Delete / Emit / EmitSync
//     ops besides E / Y (Emit / EmitSync: row, result), U (UpsertTable: table, row, ok), D (Delete: table, key):
//       G <R|S> <table> <A | nkeys keys...> <nrows> rows... <ok>   the table is registered AGAIN (or, for a table left
//                                              unregistered, for the first time) between rows: R = RegisterTable,
//                                              S = RegisterTableSource(NewMemoryTableSource(...)); other rows, possibly
//                                              other key fields; replaces the source of that name
//       Z U <table> <row> | Z D <table> <key>  Upsert / Delete through the handle of a source that has been replaced
//   K <config> # <registrations> # <goroutine 1: ops with observed results> # ... # <probes after all returned>
//                                                              several goroutines writing key-disjoint parts of one table
//   C <versions> <with deletes 0|1> # <observed versions> # <final>   one writer, one reader, concurrently
// <config> = <FROM alias|-> <joins> { table I|L <alias|-> <pairs> { <left of => <right of => } } S <select list> <where>;
//            ON fields as written: "name" or "qualifier.name"; <where> in prefix notation: W0 | WE path hex | WN path |
//            WNN path | WGT path int | WA <where> <where> | WO <where> <where>, path = c:col | q:alias:col
// <registrations> = <n> { table <A | nkeys keys...> <nrows> rows... }   A: RegisterTable without key fields
//   G <n> # rows (key, expected group by the harness' own table) # groups   GROUP BY a joined column
//   W <config> # <registrations> # <N> <grouped 0|1> # <ops: E row D | U table row 1 | D table key> # <batches>
//       aggregates over joined columns, GROUP BY a joined column, CountingWindow(N); Upsert / Delete between
//       two rows of one window; <batches> = { B <nrows> { g c sv mx ms } } in the order of arrival; a row whose
//       Lookup never happened ends the line with "# L <index of the op>"
// Value tokens: N | I<decimal> | F<m>:<e> (the float m*2^e, m odd or 0) | S<hex> (S- = "") | B0 | B1 ;
// a missing map key is simply not listed. Maps: { k v k v } (keys sorted), nested for the alias bindings.

import (
	"encoding/hex"
	"fmt"
	"math"
	"runtime"
	"sort"
	"strconv"
	"strings"
	"sync"
	"time"

	"github.com/rulego/streamsql"
	"github.com/rulego/streamsql/stream"
)

func init() { runners["C16"] = runC16 }

func c16Tok(v any) string {
	switch x := v.(type) {
	case nil:
		return "N"
	case int:
		return "I" + strconv.FormatInt(int64(x), 10)
	case int64:
		return "I" + strconv.FormatInt(x, 10)
	case int32:
		return "I" + strconv.FormatInt(int64(x), 10)
	case uint:
		return "I" + strconv.FormatUint(uint64(x), 10)
	case uint64:
		return "I" + strconv.FormatUint(x, 10)
	case uint32:
		return "I" + strconv.FormatUint(uint64(x), 10)
	case float32:
		return c16Float(float64(x))
	case float64:
		return c16Float(x)
	case string:
		if x == "" {
			return "S-"
		}
		return "S" + hex.EncodeToString([]byte(x))
	case bool:
		if x {
			return "B1"
		}
		return "B0"
	case map[string]any:
		return c16Map(x)
	}
	return fmt.Sprintf("?%T", v)
}

func c16Float(f float64) string {
	if f == 0 {
		return "F0:0"
	}
	frac, exp := math.Frexp(f)
	m := int64(frac * (1 << 53))
	e := exp - 53
	for m%2 == 0 {
		m /= 2
		e++
	}
	return fmt.Sprintf("F%d:%d", m, e)
}

func c16Map(m map[string]any) string {
	keys := make([]string, 0, len(m))
	for k := range m {
		keys = append(keys, k)
	}
	sort.Strings(keys)
	var b strings.Builder
	b.WriteString("{")
	for _, k := range keys {
		b.WriteString(" " + k + " " + c16Tok(m[k]))
	}
	b.WriteString(" }")
	return b.String()
}

// a row as the flat token list "<n> f v f v ..." (fields sorted)
func c16Row(m map[string]any) string {
	keys := make([]string, 0, len(m))
	for k := range m {
		keys = append(keys, k)
	}
	sort.Strings(keys)
	var b strings.Builder
	b.WriteString(strconv.Itoa(len(keys)))
	for _, k := range keys {
		b.WriteString(" " + k + " " + c16Tok(m[k]))
	}
	return b.String()
}

func c16Tuple(vs []any) string {
	var b strings.Builder
	b.WriteString(strconv.Itoa(len(vs)))
	for _, v := range vs {
		b.WriteString(" " + c16Tok(v))
	}
	return b.String()
}

// ---- key value pools ----
// "tame": every float has a short exact decimal expansion (the model's printer and strconv agree literally)
var c16Ints = []any{1, int64(1), int32(1), uint(1), uint64(1), uint32(1), 0, -1, int64(-1), 2, int64(2), 10, 100, -120,
	int64(9007199254740992), int64(9007199254740993), int64(9007199254740994), uint64(9007199254740993),
	int64(math.MaxInt64), int64(math.MinInt64), uint64(math.MaxUint64), uint64(1) << 63, int64(math.MaxInt64 - 1),
	uint64(math.MaxUint64 - 1)}
var c16TameFloats = []any{1.0, float32(1.0), 0.0, math.Copysign(0, -1), -1.0, 2.0, 1.5, float32(1.5), -1.5, 0.5, 0.25, -0.375, 2.75, 10.0, 100.0, -120.0,
	9007199254740992.0, 9007199254740994.0, 9223372036854775808.0, 18446744073709551616.0, -9223372036854775808.0, 1e22, 1e300,
	1024.0009765625, 123456.78125}
var c16WildFloats = []any{0.1, 0.2, 0.30000000000000004, 1.1, math.Pi, 1e-7, 5e-324, math.MaxFloat64, 1.0000000000000002, float32(0.1), 1e21, 1e23, 123456789.123456789, -0.1}
var c16Strs = []any{"1", "1.0", "", "x", "y", "z", "x\x1fs:y", "y\x1fs:z", "s:x", "n:1", "<nil>", "x\x1f", "\x1fy", ":", "3:s:x", "1:", "0", "true", "d1", "d2",
	"x\x1f3:s:y", "a", "5:s:a", "\x1f", "nil", "b:true"}
var c16Others = []any{nil, true, false}

// pairs of tuples built to collide under separator-joined or naively concatenated encodings
var c16Adversarial = [][2][]any{
	{{"x", "y\x1fs:z"}, {"x\x1fs:y", "z"}},
	{{"x\x1fs:y", "z"}, {"x", "y\x1fs:z"}},
	{{"x", "y"}, {"x\x1fs:y"}},
	{{"x\x1f", "y"}, {"x", "\x1fy"}},
	{{"a", "5:s:a"}, {"a5:s:a"}},
	{{"3:s:x", "y"}, {"x", "y"}},
	{{1, "x"}, {1.0, "x"}},
	{{1, "x"}, {"1", "x"}},
	{{int64(9007199254740992), "k"}, {int64(9007199254740993), "k"}},
	{{9007199254740992.0, "k"}, {int64(9007199254740993), "k"}},
	{{9007199254740992.0, "k"}, {int64(9007199254740992), "k"}},
	{{uint64(1) << 63}, {9223372036854775808.0}},
	{{uint64(9223372036854776000)}, {9223372036854775808.0}},
	{{nil, "x"}, {"<nil>", "x"}},
	{{nil}, {nil}},
	{{true}, {"true"}},
	{{true}, {1}},
	{{0.0}, {math.Copysign(0, -1)}},
	{{0}, {math.Copysign(0, -1)}},
	{{"", ""}, {""}},
	{{}, {""}},
	{{"x", ""}, {"x"}},
	{{0.1}, {float32(0.1)}},
	{{0.1}, {"0.1"}},
	{{1.5}, {float32(1.5)}},
	{{1e22}, {1e22}},
}

func c16PickKey(rng *RNG, wild bool) any {
	switch r := rng.Intn(100); {
	case r < 30:
		return c16Ints[rng.Intn(len(c16Ints))]
	case r < 55:
		return c16TameFloats[rng.Intn(len(c16TameFloats))]
	case r < 62 && wild:
		return c16WildFloats[rng.Intn(len(c16WildFloats))]
	case r < 92:
		return c16Strs[rng.Intn(len(c16Strs))]
	default:
		return c16Others[rng.Intn(len(c16Others))]
	}
}

// a value numerically/textually related to v (same number in another type, the digits as a string, a neighbour)
func c16Related(rng *RNG, v any) any {
	var f float64
	isNum := true
	switch x := v.(type) {
	case int:
		f = float64(x)
	case int64:
		f = float64(x)
	case int32:
		f = float64(x)
	case uint:
		f = float64(x)
	case uint64:
		f = float64(x)
	case uint32:
		f = float64(x)
	case float64:
		f = x
	case float32:
		f = float64(x)
	default:
		isNum = false
	}
	if !isNum {
		if s, ok := v.(string); ok {
			switch rng.Intn(4) {
			case 0:
				return s + "\x1f"
			case 1:
				if n, err := strconv.ParseInt(s, 10, 64); err == nil {
					return n
				}
				return "s:" + s
			default:
				return s
			}
		}
		return v
	}
	switch rng.Intn(6) {
	case 0:
		return f
	case 1:
		if f == math.Trunc(f) && math.Abs(f) < 9e18 {
			return int64(f)
		}
		return f
	case 2:
		return strings.TrimPrefix(c16FmtNum(v), "n:")
	case 3:
		if f == math.Trunc(f) && math.Abs(f) < 9e18 {
			return int64(f) + 1
		}
		return f + 0.5
	case 4:
		if f >= 0 && f == math.Trunc(f) && f < 1.8e19 {
			return uint64(f)
		}
		return v
	default:
		return v
	}
}

func c16FmtNum(v any) string { return stream.VerifEncodeOne(v) }

func runC16(tier string, seed uint64, o *Out) error {
	rng := NewRNG(seed)
	thorough := tier == "thorough"
	var tame []any
	tame = append(tame, c16Ints...)
	tame = append(tame, c16TameFloats...)
	tame = append(tame, c16Strs...)
	tame = append(tame, c16Others...)
	// ---------------- (2) equality of encodings vs the property's key equality
	for _, p := range c16Adversarial {
		eq := stream.VerifEncodeKey(p[0]) == stream.VerifEncodeKey(p[1])
		o.Line("C16 P %s # %s # %s", c16Tuple(p[0]), c16Tuple(p[1]), b01(eq))
	}
	all := append(append([]any{}, tame...), c16WildFloats...)
	for _, a := range all { // all pairs of single pool values
		for _, b := range all {
			eq := stream.VerifEncodeKey([]any{a}) == stream.VerifEncodeKey([]any{b})
			o.Line("C16 P 1 %s # 1 %s # %s", c16Tok(a), c16Tok(b), b01(eq))
		}
	}
	o.Count("pairs_pool_x_pool")
	nP := 3000
	if thorough {
		nP = 80000
	}
	for i := 0; i < nP; i++ {
		n := 1 + rng.Intn(3)
		a := make([]any, n)
		for j := range a {
			a[j] = c16PickKey(rng, true)
		}
		b := make([]any, n)
		for j := range b {
			b[j] = c16Related(rng, a[j])
		}
		switch rng.Intn(8) {
		case 0: // move a boundary: merge two string components
			if n >= 2 {
				if s1, ok := a[0].(string); ok {
					if s2, ok := a[1].(string); ok {
						b = append([]any{s1 + "\x1fs:" + s2}, a[2:]...)
					}
				}
			}
		case 1:
			b = b[:n-1]
		}
		eq := stream.VerifEncodeKey(a) == stream.VerifEncodeKey(b)
		o.Line("C16 P %s # %s # %s", c16Tuple(a), c16Tuple(b), b01(eq))
	}
	o.Count("pairs_random_related")
	// ---------------- (3) public API histories
	nJ := 700
	if thorough {
		nJ = 12000
	}
	type res struct {
		line string
		err  error
		tag  []string
	}
	results := make([]res, nJ)
	seeds := make([]uint64, nJ)
	for i := range seeds {
		seeds[i] = rng.Next()
	}
	var wg sync.WaitGroup
	sem := make(chan struct{}, 12)
	for i := 0; i < nJ; i++ {
		i := i
		wg.Add(1)
		sem <- struct{}{}
		go func() {
			defer wg.Done()
			defer func() { <-sem }()
			l, tags, err := c16History(NewRNG(seeds[i]), i)
			results[i] = res{l, err, tags}
		}()
	}
	wg.Wait()
	for _, r := range results {
		if r.err != nil {
			return r.err
		}
		o.Line("%s", r.line)
		for _, t := range r.tag {
			o.Count(t)
		}
	}
	// ---------------- (3b) concurrent writers on key-disjoint parts of one table
	nK := 4
	if thorough {
		nK = 40
	}
	for i := 0; i < nK; i++ {
		l, tags, err := c16Writers(rng, thorough)
		if err != nil {
			return err
		}
		o.Line("%s", l)
		for _, t := range tags {
			o.Count(t)
		}
	}
	// ---------------- (4) concurrent writer / reader
	nC := 6
	if thorough {
		nC = 60
	}
	for i := 0; i < nC; i++ {
		l, err := c16Concurrent(rng, 40+rng.Intn(200), i%2 == 1)
		if err != nil {
			return err
		}
		o.Line("%s", l)
	}
	o.Count("concurrent_writer_reader")
	// ---------------- (5) GROUP BY on a joined column
	nG := 4
	if thorough {
		nG = 40
	}
	for i := 0; i < nG; i++ {
		l, err := c16GroupBy(rng)
		if err != nil {
			return err
		}
		o.Line("%s", l)
	}
	o.Count("group_by_joined_column")
	// ---------------- (5b) windowed aggregation over joined columns with table updates inside an open window
	nW := 60
	if thorough {
		nW = 1500
	}
	for i := 0; i < nW; i++ {
		l, tags, err := c16Window(rng)
		if err != nil {
			return err
		}
		o.Line("%s", l)
		for _, t := range tags {
			o.Count(t)
		}
	}
	// ---------------- (6) encoder through the hook: single values and tuples, literal comparison
	// (last: the driver prints only the first 200 non-ok verdicts, and the judged lines must come first)
	for _, v := range tame {
		o.Line("C16 E S %s # %s", c16Tok(v), hx(stream.VerifEncodeKey(v)))
		o.Line("C16 E T 1 %s # %s", c16Tok(v), hx(stream.VerifEncodeKey([]any{v})))
	}
	o.Count("encoder_single_pool")
	nE := 1500
	if thorough {
		nE = 40000
	}
	for i := 0; i < nE; i++ {
		n := rng.Intn(4)
		if rng.Intn(10) == 0 {
			n = rng.Intn(12) // long tuples: the length prefix gets two digits for long strings only; see strs below
		}
		vs := make([]any, n)
		for j := range vs {
			vs[j] = c16PickKey(rng, false)
			if rng.Intn(25) == 0 {
				vs[j] = strings.Repeat("ab\x1f", rng.Intn(60)) // component longer than 9 / 99 bytes
			}
			if rng.Intn(12) == 0 { // random dyadic with a short expansion
				vs[j] = float64(rng.Intn(4001)-2000) / float64(int(1)<<uint(rng.Intn(8)))
			}
			if rng.Intn(12) == 0 {
				vs[j] = int64(rng.Next())
			}
		}
		o.Line("C16 E T %s # %s", c16Tuple(vs), hx(stream.VerifEncodeKey(vs)))
	}
	o.Count("encoder_tuples")
	return nil
}

// ---- public API histories ----
type c16Join struct {
	table, alias string
	hasAlias     bool
	left         bool
	sfields      []string // stream side of ON
	tfields      []string // table side of ON
}

func c16KeyPool(rng *RNG) []any {
	// a small pool per case so that matches are frequent; always contains numerically equal variants
	n := 3 + rng.Intn(3)
	pool := make([]any, 0, 2*n)
	for i := 0; i < n; i++ {
		if rng.Intn(5) == 0 {
			p := c16Adversarial[rng.Intn(len(c16Adversarial))]
			for _, t := range p {
				pool = append(pool, t...)
			}
			continue
		}
		v := c16PickKey(rng, true)
		pool = append(pool, v)
		if rng.Bool() {
			pool = append(pool, c16Related(rng, v))
		}
	}
	if len(pool) == 0 {
		pool = append(pool, 1)
	}
	return pool
}

const c16Barrier = "BARRIER\x1f"

// the generated query: SQL text, the tokens of the configuration as written, the joins
type c16Cfg struct {
	sql      string
	cfgTok   string // <FROM alias|-> <joins> {...} S ... <where>
	srcAlias string
	joins    []c16Join
	swapped  bool
	tags     []string
	usesX    bool   // the WHERE reads the stream column x: every row carries an integer x
	fromSQL  string // "stream [alias] JOIN ... ON ..." (what follows FROM, without WHERE)
}

// the ON clause of one join as text. A table-side field is written alias.col (the alias is the table's own
// name when the JOIN has none) or bare; a stream-side field s.col (FROM alias) or bare; normally
// stream = table, with swap the two sides of one equality are exchanged (then at least one side carries
// its qualifier, so the meaning is decided).
func c16OnText(rng *RNG, j *c16Join, srcAlias string, swap bool) (sql string, toks []string, tags []string, swapped bool) {
	swapAt := -1
	if swap {
		swapAt = rng.Intn(len(j.sfields))
	}
	for p := range j.sfields {
		if p > 0 {
			sql += " AND "
		}
		l, sq := j.sfields[p], false
		if srcAlias != "" && rng.Bool() {
			l, sq = srcAlias+"."+l, true
		}
		r, tq := j.tfields[p], false
		if rng.Intn(3) != 0 {
			r, tq = j.alias+"."+r, true
		}
		if p == swapAt || (swap && rng.Intn(3) == 0) {
			if !sq && !tq {
				r, tq = j.alias+"."+r, true
			}
			l, r = r, l
			swapped = true
			tags = append(tags, "on_table_equals_stream")
		}
		switch {
		case tq && j.hasAlias:
			tags = append(tags, "on_table_field_by_alias")
		case tq:
			tags = append(tags, "on_table_field_by_table_name")
		default:
			tags = append(tags, "on_table_field_bare")
		}
		if sq {
			tags = append(tags, "on_stream_field_by_alias")
		} else {
			tags = append(tags, "on_stream_field_bare")
		}
		sql += l + " = " + r
		toks = append(toks, l, r)
	}
	return
}

// one WHERE condition of a generated query: SQL text, tokens (prefix notation: WE path hex | WN path | WNN path |
// WGT path int | WA w w | WO w w), whether the barrier row (every key column = the barrier string, x = 1000,
// matched table row tagged "barrier") satisfies it, whether it reads the stream column x
type c16Where struct {
	sql, tok string
	barrier  bool
	usesX    bool
	tags     []string
}

func c16GenWhere(rng *RNG, joins []c16Join, srcAlias string, depth int) c16Where {
	if depth < 2 && rng.Intn(100) < 45-20*depth {
		a := c16GenWhere(rng, joins, srcAlias, depth+1)
		b := c16GenWhere(rng, joins, srcAlias, depth+1)
		par := func(w c16Where) string {
			if strings.HasPrefix(w.tok, "WA ") || strings.HasPrefix(w.tok, "WO ") {
				return "(" + w.sql + ")"
			}
			return w.sql
		}
		w := c16Where{usesX: a.usesX || b.usesX, tags: append(append([]string{}, a.tags...), b.tags...)}
		if rng.Bool() {
			w.sql, w.tok, w.barrier = par(a)+" AND "+par(b), "WA "+a.tok+" "+b.tok, a.barrier && b.barrier
			w.tags = append(w.tags, "where_and")
		} else {
			w.sql, w.tok, w.barrier = par(a)+" OR "+par(b), "WO "+a.tok+" "+b.tok, a.barrier || b.barrier
			w.tags = append(w.tags, "where_or")
		}
		return w
	}
	if rng.Intn(5) < 2 { // a column of a joined table
		j := joins[rng.Intn(len(joins))]
		tags := []string{"where_on_joined_column"}
		switch rng.Intn(3) {
		case 0:
			return c16Where{sql: j.alias + ".tag = 'red'", tok: "WE q:" + j.alias + ":tag " + hx("red"), tags: tags}
		case 1:
			return c16Where{sql: j.alias + ".tag IS NULL", tok: "WN q:" + j.alias + ":tag", tags: tags}
		}
		return c16Where{sql: j.alias + ".tag IS NOT NULL", tok: "WNN q:" + j.alias + ":tag", barrier: true, tags: tags}
	}
	// a stream column, bare or qualified by the FROM alias
	col := c16StreamFields[rng.Intn(len(c16StreamFields))]
	kind := rng.Intn(4)
	if kind == 3 {
		col = "x"
	}
	text, path, tag := col, "c:"+col, "where_stream_column_bare"
	if srcAlias != "" && rng.Intn(3) != 0 {
		text, path, tag = srcAlias+"."+col, "q:"+srcAlias+":"+col, "where_stream_column_by_from_alias"
	}
	tags := []string{tag}
	switch kind {
	case 0:
		return c16Where{sql: text + " IS NULL", tok: "WN " + path, tags: tags}
	case 1:
		return c16Where{sql: text + " IS NOT NULL", tok: "WNN " + path, barrier: true, tags: tags}
	case 2:
		lit := []string{"x", "y", "z", "a", "d1", "d2"}[rng.Intn(6)]
		return c16Where{sql: text + " = '" + lit + "'", tok: "WE " + path + " " + hx(lit), tags: tags}
	}
	c := rng.Intn(100)
	return c16Where{sql: fmt.Sprintf("%s > %d", text, c), tok: fmt.Sprintf("WGT %s %d", path, c), barrier: true, usesX: true, tags: tags}
}

func c16GenConfig(rng *RNG, nj int, useWhere bool, barrierSafe bool, swap bool) *c16Cfg {
	var tags []string
	srcAlias := ""
	if rng.Bool() {
		srcAlias = "s"
	}
	joins := make([]c16Join, nj)
	sf := c16StreamFields
	for i := range joins {
		j := &joins[i]
		j.table = []string{"t1", "t2"}[i]
		j.alias = j.table
		if rng.Intn(3) != 0 {
			j.hasAlias = true
			j.alias = []string{"m", "n"}[i]
		}
		j.left = rng.Bool()
		np := 1
		if rng.Intn(5) < 2 {
			np = 2
		}
		perm := []int{0, 1, 2}
		for a := 2; a > 0; a-- {
			b := rng.Intn(a + 1)
			perm[a], perm[b] = perm[b], perm[a]
		}
		for p := 0; p < np; p++ {
			j.sfields = append(j.sfields, sf[perm[p]])
			j.tfields = append(j.tfields, []string{"a", "b"}[p])
		}
	}
	// SELECT list
	q := func(col string) (string, string) { // text in SQL, path token
		if srcAlias != "" && rng.Bool() {
			return srcAlias + "." + col, "q:" + srcAlias + ":" + col
		}
		return col, "c:" + col
	}
	selSQL, selTok := "*", "S 0"
	if rng.Bool() {
		var parts, toks []string
		t, p := q("id")
		parts = append(parts, t)
		toks = append(toks, "id "+p)
		if rng.Bool() {
			t, p = q(joins[0].sfields[0])
			parts = append(parts, t+" AS sk")
			toks = append(toks, "sk "+p)
		}
		for i, j := range joins {
			sfx := []string{"", "2"}[i]
			parts = append(parts, j.alias+".v AS mv"+sfx)
			toks = append(toks, "mv"+sfx+" q:"+j.alias+":v")
			if rng.Bool() {
				parts = append(parts, j.alias+".tag AS mtag"+sfx)
				toks = append(toks, "mtag"+sfx+" q:"+j.alias+":tag")
			}
			if rng.Intn(3) == 0 {
				parts = append(parts, j.alias+".a AS ma"+sfx)
				toks = append(toks, "ma"+sfx+" q:"+j.alias+":a")
			}
		}
		selSQL = strings.Join(parts, ", ")
		selTok = fmt.Sprintf("S %d %s", len(parts), strings.Join(toks, " "))
		tags = append(tags, "select_list")
	} else {
		tags = append(tags, "select_star")
	}
	// WHERE over the enriched row: table columns (alias.col), stream columns written bare or qualified by the
	// FROM alias, and AND / OR mixtures of them
	whereSQL, whereTok, usesX := "", "W0", false
	if useWhere && rng.Intn(10) < 7 {
		for try := 0; try < 12; try++ {
			w := c16GenWhere(rng, joins, srcAlias, 0)
			if barrierSafe && !w.barrier {
				continue
			}
			whereSQL, whereTok, usesX = " WHERE "+w.sql, w.tok, w.usesX
			tags = append(tags, w.tags...)
			break
		}
	}
	from := "stream"
	if srcAlias != "" {
		from += []string{" ", " AS "}[rng.Intn(2)] + srcAlias
	}
	fromSQL := from
	sql := "SELECT " + selSQL + " FROM " + from
	var cfgTok []string
	if srcAlias == "" {
		cfgTok = append(cfgTok, "-")
	} else {
		cfgTok = append(cfgTok, srcAlias)
	}
	cfgTok = append(cfgTok, strconv.Itoa(nj))
	swappedAny := false
	for i := range joins {
		j := &joins[i]
		kw := "JOIN"
		if j.left {
			kw = []string{"LEFT JOIN", "LEFT OUTER JOIN"}[rng.Intn(2)]
			tags = append(tags, "left")
		} else {
			if rng.Bool() {
				kw = "INNER JOIN"
			}
			tags = append(tags, "inner")
		}
		joinAt := len(sql)
		sql += " " + kw + " " + j.table
		aliasTok := "-"
		if j.hasAlias {
			sql += []string{" ", " AS "}[rng.Intn(2)] + j.alias
			aliasTok = j.alias
			tags = append(tags, "table_aliased")
		} else {
			tags = append(tags, "table_unaliased")
		}
		onSQL, onToks, onTags, sw := c16OnText(rng, j, srcAlias, swap)
		swappedAny = swappedAny || sw
		tags = append(tags, onTags...)
		sql += " ON " + onSQL
		fromSQL += sql[joinAt:]
		lr := "I"
		if j.left {
			lr = "L"
		}
		cfgTok = append(cfgTok, j.table, lr, aliasTok, strconv.Itoa(len(j.sfields)))
		cfgTok = append(cfgTok, onToks...)
		if len(j.sfields) == 2 {
			tags = append(tags, "composite_key")
		} else {
			tags = append(tags, "single_key")
		}
	}
	sql += whereSQL
	return &c16Cfg{sql: sql, cfgTok: strings.Join(cfgTok, " ") + " " + selTok + " " + whereTok,
		srcAlias: srcAlias, joins: joins, swapped: swappedAny, tags: tags, usesX: usesX, fromSQL: fromSQL}
}

var c16StreamFields = []string{"k1", "k2", "k3"}

func c16History(rng *RNG, idx int) (string, []string, error) {
	nj := 1
	if rng.Intn(5) == 0 {
		nj = 2
	}
	useEmit := rng.Intn(3) == 0
	// one history in 16 writes some ON equality as table = stream
	cfg := c16GenConfig(rng, nj, true, useEmit, rng.Intn(16) == 0)
	tags, joins, sql, sf := cfg.tags, cfg.joins, cfg.sql, c16StreamFields

	s := streamsql.New(streamsql.WithDiscardLog())
	defer s.Stop()
	if err := s.Execute(sql); err != nil {
		return c16SetupFailure("execute", sql, err), append(tags, "setup_rejected"), nil
	}
	var mu sync.Mutex
	got := map[int64]map[string]any{}
	s.AddSyncSink(func(rs []map[string]any) {
		mu.Lock()
		for _, r := range rs {
			got[c16ID(r["id"])] = r
		}
		mu.Unlock()
	})

	pool := c16KeyPool(rng)
	vctr := 0
	// re-registration family: in every second history tables are registered again between rows
	rereg := rng.Bool()
	curKeys := map[string][]string{} // the key fields the table of that name is indexed by right now
	for _, j := range joins {
		curKeys[j.table] = j.tfields
	}
	recent := map[string][]map[string]any{} // rows written to a table lately (registrations, upserts): probe targets
	remember := func(table string, r map[string]any) {
		l := append(recent[table], r)
		if len(l) > 6 {
			l = l[len(l)-6:]
		}
		recent[table] = l
	}
	mkTableRow := func(j c16Join) map[string]any {
		vctr++
		r := map[string]any{"v": vctr}
		cols := append([]string{}, j.tfields...)
		for _, f := range curKeys[j.table] { // after a registration with other key fields: those columns too
			dup := false
			for _, g := range cols {
				dup = dup || g == f
			}
			if !dup {
				cols = append(cols, f)
			}
		}
		for _, f := range cols {
			if rng.Intn(15) != 0 { // else: key column missing in the table row (reads as NULL)
				r[f] = pool[rng.Intn(len(pool))]
			}
		}
		switch rng.Intn(5) {
		case 0:
			r["tag"] = "red"
		case 1:
			r["tag"] = "blue"
		case 2:
			r["tag"] = nil
		case 3:
			r["tag"] = "red"
		}
		return r
	}
	// registrations
	skipSecond := nj == 2 && rng.Intn(12) == 0 // the second table is never registered: configuration error
	var regTok []string
	srcs := map[string]*stream.MemoryTableSource{}
	nreg := 0
	for i := range joins {
		if i == 1 && skipSecond {
			tags = append(tags, "unregistered_table")
			continue
		}
		nreg++
	}
	regTok = append(regTok, strconv.Itoa(nreg))
	for i, j := range joins {
		if i == 1 && skipSecond {
			continue
		}
		var rows []map[string]any
		for n := rng.Intn(4); n > 0; n-- {
			rows = append(rows, mkTableRow(j))
		}
		if useEmit { // the permanent row the barrier rows match
			vctr++
			br := map[string]any{"v": vctr, "tag": "barrier"}
			for _, f := range j.tfields {
				br[f] = c16Barrier
			}
			rows = append(rows, br)
		}
		var src *stream.MemoryTableSource
		var err error
		explicit := rng.Intn(3) == 0
		if explicit {
			src, err = s.RegisterTable(j.table, rows, j.tfields...)
			tags = append(tags, "key_fields_explicit")
		} else {
			src, err = s.RegisterTable(j.table, rows)
			tags = append(tags, "key_fields_derived_from_on")
		}
		if err != nil {
			return c16SetupFailure("register", sql, err), append(tags, "setup_rejected"), nil
		}
		srcs[j.table] = src
		regTok = append(regTok, c16RegKeys(j, explicit)...)
		regTok = append(regTok, strconv.Itoa(len(rows)))
		for _, r := range rows {
			regTok = append(regTok, c16Row(r))
			remember(j.table, r)
		}
	}
	// operations
	var opTok []string
	nops := 4 + rng.Intn(11)
	idctr := int64(0)
	mkStreamRow := func() map[string]any {
		idctr++
		r := map[string]any{"id": idctr}
		for _, f := range sf {
			if rng.Intn(12) != 0 {
				r[f] = pool[rng.Intn(len(pool))]
			}
		}
		if rereg && rng.Intn(3) == 0 { // aim at a row written lately (before or after a re-registration)
			j := joins[rng.Intn(nj)]
			if l := recent[j.table]; len(l) > 0 {
				tr := l[rng.Intn(len(l))]
				for p, f := range j.sfields {
					if v, ok := tr[j.tfields[p]]; ok {
						r[f] = v
					}
				}
			}
		}
		if rng.Intn(4) == 0 || cfg.usesX {
			r["x"] = rng.Intn(100)
		}
		if rng.Intn(40) == 0 { // a stream column named like the table alias is overwritten by the binding
			r[joins[0].alias] = "shadow"
		}
		return r
	}
	resTok := func(m map[string]any, err error) string {
		if err != nil {
			return "X"
		}
		if m == nil {
			return "D"
		}
		return "R " + c16Map(m)
	}
	arrived := func(id int64, wait time.Duration) (map[string]any, bool) {
		deadline := time.Now().Add(wait)
		for i := 0; ; i++ {
			mu.Lock()
			m, ok := got[id]
			mu.Unlock()
			if ok || time.Now().After(deadline) {
				return m, ok
			}
			if i < 200 {
				time.Sleep(50 * time.Microsecond)
			} else {
				time.Sleep(time.Millisecond)
			}
		}
	}
	// The barrier row (it matches the permanent barrier row of every table) is itself an operation of the
	// history: an Emit whose result is judged like any other. The wait is bounded and always ends in an
	// observation: if the row has not reached the sink in time, the same row goes through EmitSync (recorded
	// as well); only if that one is kept -- the asynchronous row is merely late -- the wait goes on.
	// Returns false when the barrier row was not delivered (the history ends there).
	barrier := func() bool {
		idctr++
		id := idctr
		r := map[string]any{"id": id}
		for _, f := range sf {
			r[f] = c16Barrier
		}
		if cfg.usesX {
			r["x"] = 1000
		}
		s.Emit(r)
		m, ok := arrived(id, 1500*time.Millisecond)
		var probe string
		if !ok {
			r2 := map[string]any{}
			for k, v := range r {
				r2[k] = v
			}
			pm, perr := s.EmitSync(r2)
			probe = resTok(pm, perr)
			if perr == nil && pm != nil {
				m, ok = arrived(id, 40*time.Second)
			} else {
				m, ok = arrived(id, 200*time.Millisecond)
			}
		}
		if ok {
			opTok = append(opTok, "E", c16Row(r), resTok(m, nil))
		} else {
			opTok = append(opTok, "E", c16Row(r), "D")
			tags = append(tags, "barrier_not_delivered")
		}
		if probe != "" {
			opTok = append(opTok, "Y", c16Row(r), probe)
		}
		return ok
	}
	oldSrcs := map[string][]*stream.MemoryTableSource{} // handles of replaced sources
	processed, reregs := 0, 0                           // rows processed so far, registrations made during the history
	// the table of join j is registered again (first time for a table left unregistered): other rows, now and
	// then other key fields, through RegisterTable or RegisterTableSource. Everything processed / upserted
	// afterwards must see the new source only.
	reregister := func(j c16Join) bool {
		keys := j.tfields
		other := rng.Intn(4) == 0
		if other {
			switch {
			case len(j.tfields) == 1:
				keys = []string{"b"} // same arity: the barrier row still matches
				if !useEmit && rng.Bool() {
					keys = []string{"a", "b"}
				}
			case useEmit || rng.Bool():
				keys = []string{"b", "a"}
			default:
				keys = []string{"a"}
			}
		}
		prev := curKeys[j.table]
		curKeys[j.table] = keys
		var rows []map[string]any
		for n := rng.Intn(4); n > 0; n-- {
			rows = append(rows, mkTableRow(j))
		}
		if l := recent[j.table]; len(l) > 0 && rng.Bool() { // a key of the old contents with a new row
			vctr++
			nr := map[string]any{"v": vctr}
			for k, v := range l[rng.Intn(len(l))] {
				if k != "v" && k != "tag" {
					nr[k] = v
				}
			}
			rows = append(rows, nr)
		}
		if useEmit {
			vctr++
			rows = append(rows, map[string]any{"v": vctr, "tag": "barrier", "a": c16Barrier, "b": c16Barrier})
		}
		via := "R"
		explicit := other || rng.Intn(3) == 0
		var src *stream.MemoryTableSource
		var err error
		switch {
		case rng.Intn(3) == 0:
			via, explicit = "S", true
			src = stream.NewMemoryTableSource(j.table, keys, rows)
			err = s.RegisterTableSource(src)
			tags = append(tags, "reregister_via_RegisterTableSource")
		case explicit:
			src, err = s.RegisterTable(j.table, rows, keys...)
			tags = append(tags, "reregister_via_RegisterTable")
		default:
			src, err = s.RegisterTable(j.table, rows)
			tags = append(tags, "reregister_via_RegisterTable")
		}
		opTok = append(opTok, "G", via, j.table)
		if explicit {
			opTok = append(opTok, strconv.Itoa(len(keys)))
			opTok = append(opTok, keys...)
		} else {
			opTok = append(opTok, "A")
		}
		opTok = append(opTok, strconv.Itoa(len(rows)))
		for _, r := range rows {
			opTok = append(opTok, c16Row(r))
		}
		opTok = append(opTok, b01(err == nil))
		if err != nil {
			curKeys[j.table] = prev
			return false
		}
		if old := srcs[j.table]; old != nil {
			oldSrcs[j.table] = append(oldSrcs[j.table], old)
			tags = append(tags, "op_reregister")
			if processed > 0 {
				tags = append(tags, "reregister_after_rows_processed")
			}
		} else {
			tags = append(tags, "late_first_registration")
		}
		if other {
			tags = append(tags, "reregister_other_key_fields")
		}
		srcs[j.table] = src
		for _, r := range rows {
			remember(j.table, r)
		}
		reregs++
		return true
	}
ops:
	for n := 0; n < nops; n++ {
		j := joins[rng.Intn(nj)]
		r := rng.Intn(100)
		if rereg {
			switch g := rng.Intn(100); {
			case g < 14 || (n == nops/2 && reregs == 0):
				reregister(j)
				continue
			case g < 22 && len(oldSrcs[j.table]) > 0:
				// a write through the handle of a replaced source: the store no longer holds it
				old := oldSrcs[j.table][rng.Intn(len(oldSrcs[j.table]))]
				if rng.Bool() {
					row := mkTableRow(j)
					if l := recent[j.table]; len(l) > 0 && rng.Bool() {
						for _, f := range old.KeyFields() {
							if v, ok := l[rng.Intn(len(l))][f]; ok {
								row[f] = v
							}
						}
					}
					old.Upsert(row)
					opTok = append(opTok, "Z", "U", j.table, c16Row(row))
				} else {
					key := make([]any, len(old.KeyFields()))
					for i, f := range old.KeyFields() {
						key[i] = pool[rng.Intn(len(pool))]
						if l := recent[j.table]; len(l) > 0 && rng.Bool() {
							if v, ok := l[rng.Intn(len(l))][f]; ok {
								key[i] = v
							}
						}
					}
					old.Delete(key)
					opTok = append(opTok, "Z", "D", j.table, "T", c16Tuple(key))
				}
				tags = append(tags, "op_detached_write")
				continue
			}
		}
		switch {
		case r < 35:
			row := mkTableRow(j)
			if l := recent[j.table]; rereg && len(l) > 0 && rng.Intn(3) == 0 { // replace a row written lately
				for _, f := range curKeys[j.table] {
					if v, ok := l[rng.Intn(len(l))][f]; ok {
						row[f] = v
					}
				}
			}
			err := s.UpsertTable(j.table, row)
			opTok = append(opTok, "U", j.table, c16Row(row), b01(err == nil))
			tags = append(tags, "op_upsert")
			if err == nil {
				remember(j.table, row)
				if reregs > 0 {
					tags = append(tags, "upsert_after_reregistration")
				}
			}
		case r < 50:
			src := srcs[j.table]
			if src == nil {
				continue
			}
			key := make([]any, len(curKeys[j.table]))
			for i := range key {
				key[i] = pool[rng.Intn(len(pool))]
			}
			if l := recent[j.table]; rereg && len(l) > 0 && rng.Intn(3) == 0 { // delete a row written lately
				for i, f := range curKeys[j.table] {
					if v, ok := l[rng.Intn(len(l))][f]; ok {
						key[i] = v
					}
				}
			}
			if len(key) == 1 && rng.Bool() {
				src.Delete(key[0])
				opTok = append(opTok, "D", j.table, "S", c16Tok(key[0]))
			} else {
				src.Delete(key)
				opTok = append(opTok, "D", j.table, "T", c16Tuple(key))
			}
			tags = append(tags, "op_delete")
		case r < 70 && useEmit && !skipSecond:
			row := mkStreamRow()
			id := idctr
			s.Emit(row)
			// the row precedes the barrier row: once that one is through, the row was processed (kept or
			// dropped). Without a delivered barrier only "kept" is an observation (dropped vs late is
			// unknown): the row is then left out and the history ends.
			pos := len(opTok)
			delivered := barrier()
			mu.Lock()
			m, seen := got[id]
			mu.Unlock()
			if delivered || seen {
				rowTok := []string{"E", c16Row(row), resTok(m, nil)}
				opTok = append(opTok[:pos], append(rowTok, opTok[pos:]...)...)
				tags = append(tags, "op_emit")
				processed++
				if reregs > 0 {
					tags = append(tags, "row_after_reregistration")
				}
			}
			if !delivered {
				break ops
			}
		default:
			row := mkStreamRow()
			m, err := s.EmitSync(row)
			opTok = append(opTok, "Y", c16Row(row), resTok(m, err))
			tags = append(tags, "op_emitsync")
			processed++
			if reregs > 0 {
				tags = append(tags, "row_after_reregistration")
			}
		}
	}
	line := fmt.Sprintf("C16 J %s # %s # %s", cfg.cfgTok, strings.Join(regTok, " "), strings.Join(opTok, " "))
	return line, tags, nil
}

// a valid generated query / registration was rejected: a judged observation, not a harness error
func c16SetupFailure(what, sql string, err error) string {
	return fmt.Sprintf("C16 X %s %s %s", what, hx(sql), hx(err.Error()))
}

// <table> <A | nkeys keys...>
func c16RegKeys(j c16Join, explicit bool) []string {
	if !explicit {
		return []string{j.table, "A"}
	}
	return append([]string{j.table, strconv.Itoa(len(j.tfields))}, j.tfields...)
}

func c16ID(v any) int64 {
	switch x := v.(type) {
	case int:
		return int64(x)
	case int64:
		return x
	case float64:
		return int64(x)
	}
	return -1
}

// Concurrent writers. 2-3 goroutines update ONE table at the same time, each only keys of its own (disjoint
// modulo the key equality: goroutine g owns the numbers 1000g+i in any numeric type and the strings
// "g<g>_<i>"), many rounds of UpsertTable / Delete / EmitSync-probe of its own keys; the table is
// pre-filled so that an update that copies or rebuilds the index is long enough to overlap with another.
// Every probe a goroutine makes is judged against its own sequence run alone on the model, and after all
// goroutines returned every key is probed and judged against the abstract table after all the writes
// (Props/C16.v C16_concurrent_writers: for EVERY interleaving of atomic operations what a key sees depends
// only on the writes to that key). A lost update / resurrected row is a chk verdict.
func c16Writers(rng *RNG, thorough bool) (string, []string, error) {
	cfg := c16GenConfig(rng, 1, false, false, false)
	tags := append([]string{"concurrent_writers"}, cfg.tags...)
	j := cfg.joins[0]
	s := streamsql.New(streamsql.WithDiscardLog())
	defer s.Stop()
	if err := s.Execute(cfg.sql); err != nil {
		return c16SetupFailure("execute", cfg.sql, err), append(tags, "setup_rejected"), nil
	}
	second := []any{1, "x", nil, 2.5} // second component of a composite key: shared between the goroutines
	// pre-fill
	nfill := 300 + rng.Intn(900)
	if thorough {
		nfill = 300 + rng.Intn(2500)
	}
	rows := make([]map[string]any, 0, nfill)
	for i := 0; i < nfill; i++ {
		r := map[string]any{"v": -i - 1}
		for p, f := range j.tfields {
			if p == 0 {
				r[f] = "f" + strconv.Itoa(i)
			} else {
				r[f] = second[i%len(second)]
			}
		}
		rows = append(rows, r)
	}
	explicit := rng.Intn(3) == 0
	var src *stream.MemoryTableSource
	var err error
	if explicit {
		src, err = s.RegisterTable(j.table, rows, j.tfields...)
	} else {
		src, err = s.RegisterTable(j.table, rows)
	}
	if err != nil {
		return c16SetupFailure("register", cfg.sql, err), append(tags, "setup_rejected"), nil
	}
	regTok := append([]string{"1"}, c16RegKeys(j, explicit)...)
	regTok = append(regTok, strconv.Itoa(len(rows)))
	for _, r := range rows {
		regTok = append(regTok, c16Row(r))
	}
	// the goroutines' programs, generated up front
	ng := 2 + rng.Intn(2)
	type cop struct {
		kind byte // 'U' 'D' 'Y'
		row  map[string]any
		key  any // Delete: a single value or a []any
		tok  string
	}
	ownKey := func(g, i int) any {
		n := 1000*(g+1) + i
		switch rng.Intn(8) {
		case 0:
			return n
		case 1:
			return int64(n)
		case 2:
			return float64(n)
		case 3:
			return uint32(n)
		case 4:
			return float32(n)
		case 5:
			return float64(n) + 0.5
		default:
			return "g" + strconv.Itoa(g) + "_" + strconv.Itoa(i)
		}
	}
	keyTuple := func(g, i int) []any {
		t := make([]any, len(j.tfields))
		t[0] = ownKey(g, i)
		for p := 1; p < len(t); p++ {
			t[p] = second[rng.Intn(len(second))]
		}
		return t
	}
	idctr := int64(0)
	streamRow := func(t []any) map[string]any {
		idctr++
		r := map[string]any{"id": idctr}
		for p, f := range j.sfields {
			r[f] = t[p]
		}
		return r
	}
	progs := make([][]cop, ng)
	nkeys := 3 + rng.Intn(4)
	for g := range progs {
		nops := 150 + rng.Intn(250)
		if thorough {
			nops = 300 + rng.Intn(900)
		}
		vctr := 0
		for n := 0; n < nops; n++ {
			t := keyTuple(g, rng.Intn(nkeys))
			switch r := rng.Intn(100); {
			case r < 40:
				vctr++
				row := map[string]any{"v": 1000000*(g+1) + vctr}
				for p, f := range j.tfields {
					row[f] = t[p]
				}
				if rng.Intn(3) == 0 {
					row["tag"] = []any{"red", "blue", nil}[rng.Intn(3)]
				}
				progs[g] = append(progs[g], cop{kind: 'U', row: row})
			case r < 70:
				if len(t) == 1 && rng.Bool() {
					progs[g] = append(progs[g], cop{kind: 'D', key: t[0], tok: "S " + c16Tok(t[0])})
				} else {
					progs[g] = append(progs[g], cop{kind: 'D', key: t, tok: "T " + c16Tuple(t)})
				}
			default:
				progs[g] = append(progs[g], cop{kind: 'Y', row: streamRow(t)})
			}
		}
	}
	resTok := func(m map[string]any, err error) string {
		if err != nil {
			return "X"
		}
		if m == nil {
			return "D"
		}
		return "R " + c16Map(m)
	}
	// run them at the same time (on a machine with few CPUs: still several OS threads, so that a writer can be
	// preempted inside an update)
	if runtime.GOMAXPROCS(0) < 4 {
		defer runtime.GOMAXPROCS(runtime.GOMAXPROCS(4))
	}
	outs := make([][]string, ng)
	start := make(chan struct{})
	var wg sync.WaitGroup
	for g := range progs {
		g := g
		wg.Add(1)
		go func() {
			defer wg.Done()
			<-start
			for _, op := range progs[g] {
				switch op.kind {
				case 'U':
					err := s.UpsertTable(j.table, op.row)
					outs[g] = append(outs[g], "U", j.table, c16Row(op.row), b01(err == nil))
				case 'D':
					src.Delete(op.key)
					outs[g] = append(outs[g], "D", j.table, op.tok)
				default:
					m, err := s.EmitSync(op.row)
					outs[g] = append(outs[g], "Y", c16Row(op.row), resTok(m, err))
				}
			}
		}()
	}
	close(start)
	wg.Wait()
	// after every update returned: every key of every goroutine (in two renderings), some pre-filled rows
	var fin []string
	probe := func(t []any) {
		r := streamRow(t)
		m, err := s.EmitSync(r)
		fin = append(fin, "Y", c16Row(r), resTok(m, err))
	}
	for g := 0; g < ng; g++ {
		for i := 0; i < nkeys; i++ {
			for rep := 0; rep < 6; rep++ {
				probe(keyTuple(g, i))
			}
		}
	}
	for n := 0; n < 12; n++ {
		i := rng.Intn(nfill + 5)
		t := make([]any, len(j.tfields))
		t[0] = "f" + strconv.Itoa(i)
		for p := 1; p < len(t); p++ {
			t[p] = second[i%len(second)]
		}
		probe(t)
	}
	secs := []string{cfg.cfgTok, strings.Join(regTok, " ")}
	for g := range outs {
		secs = append(secs, strings.Join(outs[g], " "))
	}
	secs = append(secs, strings.Join(fin, " "))
	tags = append(tags, fmt.Sprintf("concurrent_writers_%d_goroutines", ng))
	return "C16 K " + strings.Join(secs, " # "), tags, nil
}

// one writer (UpsertTable ver 1..n, optionally a Delete after every third), one reader (EmitSync), concurrently
func c16Concurrent(rng *RNG, n int, withDelete bool) (string, error) {
	s := streamsql.New(streamsql.WithDiscardLog())
	defer s.Stop()
	if err := s.Execute("SELECT id, m.v AS mv FROM stream JOIN t1 m ON k1 = m.a"); err != nil {
		return "", err
	}
	src, err := s.RegisterTable("t1", nil)
	if err != nil {
		return "", err
	}
	done := make(chan struct{})
	var final int64
	go func() {
		defer close(done)
		for v := 1; v <= n; v++ {
			_ = s.UpsertTable("t1", map[string]any{"a": 1, "v": v})
			final = int64(v)
			if withDelete && v%3 == 0 {
				src.Delete(1.0)
				final = 0
			}
		}
	}()
	var obs []string
	read := func() int64 {
		m, err := s.EmitSync(map[string]any{"id": 1, "k1": 1.0})
		if err != nil || m == nil {
			return 0
		}
		return c16ID(m["mv"])
	}
	running := true
	for running {
		select {
		case <-done:
			running = false
		default:
		}
		if len(obs) < 400 {
			obs = append(obs, strconv.FormatInt(read(), 10))
		} else {
			time.Sleep(10 * time.Microsecond)
		}
	}
	<-done
	last := read()
	wd := "0"
	if withDelete {
		wd = "1"
	}
	return fmt.Sprintf("C16 C %d %s %d # %s # %d", n, wd, final, strings.Join(obs, " "), last), nil
}

// GROUP BY a joined column over CountingWindow(n): the counts per group must be those of the rows' table rows
func c16GroupBy(rng *RNG) (string, error) {
	s := streamsql.New(streamsql.WithDiscardLog())
	defer s.Stop()
	n := 6 + rng.Intn(10)
	left := rng.Bool()
	kw := "JOIN"
	if left {
		kw = "LEFT JOIN"
	}
	sql := fmt.Sprintf("SELECT m.tag AS g, COUNT(*) AS c FROM stream %s t1 m ON k1 = m.a GROUP BY m.tag, CountingWindow(%d)", kw, n)
	if err := s.Execute(sql); err != nil {
		return "", fmt.Errorf("Execute(%q): %v", sql, err)
	}
	rows := []map[string]any{{"a": 1, "tag": "red"}, {"a": 2.0, "tag": "blue"}, {"a": "1", "tag": "green"}, {"a": int64(9007199254740993), "tag": "big"}}
	if _, err := s.RegisterTable("t1", rows); err != nil {
		return "", err
	}
	var mu sync.Mutex
	groups := map[string]int64{}
	batches := 0
	s.AddSyncSink(func(rs []map[string]any) {
		mu.Lock()
		batches++
		for _, r := range rs {
			groups[c16Tok(r["g"])] += c16ID(r["c"])
		}
		mu.Unlock()
	})
	keys := []any{1.0, 1, uint32(1), 2, "1", "2", int64(9007199254740993), int64(9007199254740992), 9007199254740992.0, nil, 3}
	var in []string
	// rows that reach the window: every row for LEFT, only matching rows for INNER; emit until n of them did
	reach := 0
	for reach < n {
		k := keys[rng.Intn(len(keys))]
		s.Emit(map[string]any{"k1": k})
		in = append(in, c16Tok(k))
		matched := false
		for _, r := range rows {
			if stream.VerifEncodeKey(r["a"]) == stream.VerifEncodeKey(k) {
				matched = true
			}
		}
		if left || matched {
			reach++
		}
	}
	waitQuiet(func() int { mu.Lock(); defer mu.Unlock(); return batches })
	mu.Lock()
	defer mu.Unlock()
	gk := make([]string, 0, len(groups))
	for g := range groups {
		gk = append(gk, g)
	}
	sort.Strings(gk)
	var gt []string
	for _, g := range gk {
		gt = append(gt, g, strconv.FormatInt(groups[g], 10))
	}
	lr := "I"
	if left {
		lr = "L"
	}
	var rt []string
	for _, r := range rows {
		rt = append(rt, c16Tok(r["a"]), c16Tok(r["tag"]))
	}
	return fmt.Sprintf("C16 G %s %d %s # %d %s # %s", lr, len(rows), strings.Join(rt, " "), len(in), strings.Join(in, " "), strings.Join(gt, " ")), nil
}

// c16SigTable delegates to an in-memory table and reports every finished Lookup, so that the harness knows a
// stream row has been enriched (processed) before it changes the table: the order of row processing and table
// updates is then the order of the line, without sleeps.
type c16SigTable struct {
	*stream.MemoryTableSource
	looked chan struct{}
}

func (t *c16SigTable) Lookup(key any) (map[string]any, bool) {
	row, ok := t.MemoryTableSource.Lookup(key)
	t.looked <- struct{}{}
	return row, ok
}

// Windowed family: SELECT [m.tag AS g,] COUNT(*), SUM(m.v), MAX(m.v), MAX(seq) FROM <generated FROM / JOIN>
// GROUP BY [m.tag,] CountingWindow(N). Rows are emitted one at a time, each awaited through the Lookup signal;
// between two rows of one window the table row the last row matched (or another one) is deleted, replaced, or
// deleted and created again. The rows of a window wait in the open window while the table changes: what the
// window reports must be what each row saw at ITS processing time (the per-row enrichment of the model).
// After the generated rows N filler rows (matching a permanent table row) push every earlier row out: the
// batch that contains a filler (MAX(seq) beyond the generated rows) is the last one to wait for.
func c16Window(rng *RNG) (string, []string, error) {
	cfg := c16GenConfig(rng, 1, false, false, false)
	tags := append([]string{"window_family"}, cfg.tags...)
	j := cfg.joins[0]
	n := 2 + rng.Intn(4)
	grouped := rng.Intn(4) != 0
	sel, grp := "", ""
	if grouped {
		sel, grp = j.alias+".tag AS g, ", j.alias+".tag, "
		tags = append(tags, "window_group_by_joined_column")
	} else {
		tags = append(tags, "window_no_group_column")
	}
	sql := fmt.Sprintf("SELECT %sCOUNT(*) AS c, SUM(%s.v) AS sv, MAX(%s.v) AS mx, MAX(seq) AS ms FROM %s GROUP BY %sCountingWindow(%d)",
		sel, j.alias, j.alias, cfg.fromSQL, grp, n)
	s := streamsql.New(streamsql.WithDiscardLog())
	defer s.Stop()
	if err := s.Execute(sql); err != nil {
		return c16SetupFailure("execute", sql, err), append(tags, "setup_rejected"), nil
	}
	pool := c16KeyPool(rng)
	if len(pool) > 4 {
		pool = pool[:4]
	}
	vctr := 0
	mkTableRow := func() map[string]any {
		vctr++
		r := map[string]any{"v": vctr}
		for _, f := range j.tfields {
			r[f] = pool[rng.Intn(len(pool))]
		}
		switch rng.Intn(5) {
		case 0, 1:
			r["tag"] = "red"
		case 2:
			r["tag"] = "blue"
		case 3:
			r["tag"] = nil
		}
		return r
	}
	var rows []map[string]any
	var recent []map[string]any
	for k := 1 + rng.Intn(3); k > 0; k-- {
		r := mkTableRow()
		rows = append(rows, r)
		recent = append(recent, r)
	}
	vctr++
	br := map[string]any{"v": vctr, "tag": "barrier"}
	for _, f := range j.tfields {
		br[f] = c16Barrier
	}
	rows = append(rows, br)
	// every row is written down BEFORE the implementation gets hold of the map
	regTok := []string{"1", j.table, strconv.Itoa(len(j.tfields))}
	regTok = append(regTok, j.tfields...)
	regTok = append(regTok, strconv.Itoa(len(rows)))
	for _, r := range rows {
		regTok = append(regTok, c16Row(r))
	}
	tbl := &c16SigTable{MemoryTableSource: stream.NewMemoryTableSource(j.table, j.tfields, rows), looked: make(chan struct{}, 256)}
	if err := s.RegisterTableSource(tbl); err != nil {
		return c16SetupFailure("register", sql, err), append(tags, "setup_rejected"), nil
	}
	var mu sync.Mutex
	var batches [][]map[string]any
	lastSeq := int64(-1) // the largest MAX(seq) seen so far
	s.AddSyncSink(func(rs []map[string]any) {
		mu.Lock()
		batches = append(batches, rs)
		for _, r := range rs {
			if q := c16ID(r["ms"]); q > lastSeq {
				lastSeq = q
			}
		}
		mu.Unlock()
	})
	var opTok []string
	nopsDone := 0
	seq := int64(0)
	missing := -1
	emit := func(row map[string]any) bool {
		seq++
		row["seq"] = seq
		opTok = append(opTok, "E", c16Row(row), "D")
		s.Emit(row)
		select {
		case <-tbl.looked:
			nopsDone++
			return true
		case <-time.After(30 * time.Second):
			missing = nopsDone
			return false
		}
	}
	nreal := 3 + rng.Intn(4*n)
	for i := 0; i < nreal && missing < 0; i++ {
		row := map[string]any{}
		for _, f := range c16StreamFields {
			if rng.Intn(15) != 0 {
				row[f] = pool[rng.Intn(len(pool))]
			}
		}
		if len(recent) > 0 && rng.Intn(10) < 7 { // aim at a row of the table
			tr := recent[rng.Intn(len(recent))]
			for p, f := range j.sfields {
				row[f] = tr[j.tfields[p]]
			}
		}
		if !emit(row) {
			break
		}
		if rng.Intn(10) < 6 {
			key := make([]any, len(j.sfields))
			for p, f := range j.sfields { // the key of the row just processed: the table row it matched, if any
				key[p] = row[f]
			}
			if rng.Intn(4) == 0 {
				for p := range key {
					key[p] = pool[rng.Intn(len(pool))]
				}
			}
			del := func() {
				if len(key) == 1 && rng.Bool() {
					opTok = append(opTok, "D", j.table, "S", c16Tok(key[0]))
					tbl.Delete(key[0])
				} else {
					opTok = append(opTok, "D", j.table, "T", c16Tuple(key))
					tbl.Delete(key)
				}
				nopsDone++
				tags = append(tags, "window_delete_between_rows")
			}
			ups := func() {
				r := mkTableRow()
				for p, f := range j.tfields {
					r[f] = key[p]
				}
				opTok = append(opTok, "U", j.table, c16Row(r), "1")
				tbl.Upsert(r)
				nopsDone++
				recent = append(recent, r)
				if len(recent) > 5 {
					recent = recent[1:]
				}
				tags = append(tags, "window_upsert_between_rows")
			}
			switch rng.Intn(5) {
			case 0, 1:
				del()
			case 2, 3:
				ups()
			default:
				del()
				ups()
			}
		}
	}
	real := seq
	for i := 0; i < n && missing < 0; i++ {
		row := map[string]any{}
		for _, f := range c16StreamFields {
			row[f] = c16Barrier
		}
		if !emit(row) {
			break
		}
	}
	if missing < 0 { // the window that holds the first filler closes every window with a generated row
		deadline := time.Now().Add(30 * time.Second)
		for {
			mu.Lock()
			done := lastSeq > real
			mu.Unlock()
			if done || time.Now().After(deadline) {
				break
			}
			time.Sleep(200 * time.Microsecond)
		}
	}
	mu.Lock()
	defer mu.Unlock()
	var bt []string
	for _, b := range batches {
		bt = append(bt, "B", strconv.Itoa(len(b)))
		for _, r := range b {
			g := "N"
			if grouped {
				g = c16Tok(r["g"])
			}
			bt = append(bt, g, c16Tok(r["c"]), c16Tok(r["sv"]), c16Tok(r["mx"]), c16Tok(r["ms"]))
		}
	}
	line := fmt.Sprintf("C16 W %s # %s # %d %s # %s # %s", cfg.cfgTok, strings.Join(regTok, " "), n, b01(grouped),
		strings.Join(opTok, " "), strings.Join(bt, " "))
	if missing >= 0 {
		line += fmt.Sprintf(" # L %d", missing)
	}
	return line, tags, nil
}
