package main

// C20, second file: two generated families added after seeded changes that the first file missed.
//
// (1) FRESH-PROCESS paired-vs-solo family over the process-wide FUNCTION REGISTRY (P lines, kinds
//     registry_*).  The registry holds one prototype object per function name; per-query aggregator
//     instances are made from it (New()/Clone()).  Whatever one instance binds (the optional parameter of
//     percentile(v, p) / nth_value(v, n), or anything else a function keeps in its receiver) must not
//     reach another instance.  A state left in the registry survives the end of an instance, so an
//     in-process "solo" run is not alone: here every solo run is a CHILD PROCESS of this harness
//     (runner "C20solo": one instance, its rows, nothing before it), and the paired run happens in the
//     parent, with everything the earlier cases did in this process still in place.  Forms: every
//     registered aggregate f as f(x) (default parameter) and f(x, c) (explicit parameter), same or
//     different function in the two instances; schedules: both instances created up front, B created
//     only after A has delivered results, B created while A is half way, inputs one-sided or interleaved.
//
// (2) UNNEST family of the caller-unchanged check (U/S/A lines, kinds unnest_*): unnest() over arrays of
//     objects / typed object slices / scalars / mixed / empty, next to 0-3 other projected columns (plain,
//     expression, nested, names that clash with element keys), optional WHERE.  The caller's row is
//     snapshotted deeply (identity-free) before Emit and compared after the results were delivered (U), and
//     again after every delivered row map has been overwritten by the harness (A): delivered rows must
//     not be the caller's own nested maps.

import (
	"encoding/hex"
	"encoding/json"
	"fmt"
	"os"
	"os/exec"
	"sort"
	"strconv"
	"strings"
	"time"

	"github.com/rulego/streamsql"
	"github.com/rulego/streamsql/functions"
)

func init() { runners["C20solo"] = runC20Solo }

// ---------------------------------------------------------------- (1) registry family
type c20FSpec struct {
	Kind  string `json:"kind"`
	SqlA  string `json:"a"`
	SqlB  string `json:"b"`
	Keyed bool   `json:"keyed"` // GROUP BY dev, CountingWindow(win)   (else GROUP BY CountingWindow(win))
	Win   int    `json:"win"`
	N     int    `json:"n"`
}

type c20SoloReq struct {
	Sql   string `json:"sql"`
	Seed  string `json:"seed"` // row seed, decimal
	Inst  int    `json:"inst"`
	N     int    `json:"n"`
	Win   int    `json:"win"`
	Keyed bool   `json:"keyed"`
	// typed-bridge family (c20c.go): Fam = "typed", rows from c20TRows(seed, inst, n, Typ, Cols)
	Fam  string   `json:"fam,omitempty"`
	Typ  string   `json:"typ,omitempty"`
	Cols []string `json:"cols,omitempty"`
	Sync bool     `json:"sync,omitempty"`
}

// rows of instance inst: a function of (seed, inst) only, so that parent and child build the same rows
func c20FRows(seed uint64, inst, n int) []map[string]any {
	rng := NewRNG((seed ^ uint64(inst+1)*0xA24BAED4963EE407) * 0x9FB21C651E98DF25)
	rows := make([]map[string]any, n)
	for i := range rows {
		// distinct dyadic values in random order: every order statistic / position gives another result
		x := float64(rng.Intn(64)*32+i) / 4
		rows[i] = map[string]any{"id": i, "dev": rng.Pick([]string{"a", "b"}), "x": x, "y": rng.Intn(9) + 1,
			"s": rng.Pick(c20Words)}
	}
	return rows
}

// result rows a counting window of size win delivers for these rows (waiting hint only)
func c20FExpect(rows []map[string]any, win int, keyed bool) int {
	if win <= 0 {
		return 0
	}
	if !keyed {
		return len(rows) / win
	}
	c := map[string]int{}
	for _, r := range rows {
		c[fmt.Sprint(r["dev"])]++
	}
	t := 0
	for _, v := range c {
		t += v / win
	}
	return t
}

type c20FInst struct {
	s     *streamsql.Streamsql
	coll  *c20Coll
	given []map[string]any
}

// one run of 1 or 2 instances.  ord: whose next row; lazy: an instance is created (New + Execute) right
// before its first row, after the instances that exist have delivered everything they owe.
func c20FRun(sqls []string, rows [][]map[string]any, ord []int, lazy bool, win int, keyed bool) ([]string, error) {
	n := len(sqls)
	ins := make([]*c20FInst, n)
	defer func() {
		for _, in := range ins {
			if in != nil {
				in.s.Stop()
			}
		}
	}()
	settle := func(in *c20FInst) {
		w := c20FExpect(in.given, win, keyed)
		waitFor(func() bool { return in.coll.n() >= w }, 3*time.Second)
	}
	open := func(i int) error {
		for _, in := range ins {
			if in != nil {
				settle(in)
			}
		}
		s, err := c20Open(sqls[i], false)
		if err != nil {
			return err
		}
		ins[i] = &c20FInst{s: s, coll: &c20Coll{}}
		s.AddSyncSink(ins[i].coll.sink)
		return nil
	}
	if !lazy {
		for i := range sqls {
			if err := open(i); err != nil {
				return nil, err
			}
		}
	}
	one := func(i int, r map[string]any) error {
		if ins[i] == nil {
			if err := open(i); err != nil {
				return err
			}
		}
		c := deepCopy(r).(map[string]any)
		ins[i].given = append(ins[i].given, c)
		ins[i].s.Emit(c)
		return nil
	}
	pos := make([]int, n)
	for _, w := range ord {
		if w < n && pos[w] < len(rows[w]) {
			if err := one(w, rows[w][pos[w]]); err != nil {
				return nil, err
			}
			pos[w]++
		}
	}
	for i := 0; i < n; i++ {
		for ; pos[i] < len(rows[i]); pos[i]++ {
			if err := one(i, rows[i][pos[i]]); err != nil {
				return nil, err
			}
		}
	}
	res := make([]string, n)
	for i, in := range ins {
		settle(in)
		// and nothing more comes: stable for 15 ms
		last, stable := -1, 0
		for t := 0; t < 400 && stable < 3; t++ {
			time.Sleep(5 * time.Millisecond)
			if c := in.coll.n(); c == last {
				stable++
			} else {
				last, stable = c, 0
			}
		}
		in.coll.mu.Lock()
		var bs []string
		for _, b := range in.coll.batch {
			bs = append(bs, encRowsSorted(b, "window_id"))
		}
		in.coll.mu.Unlock()
		sort.Strings(bs) // batches of different keys may be delivered in any order
		res[i] = "l[" + strings.Join(bs, ",") + "]"
	}
	return res, nil
}

// child process: `harness C20solo <hex(json c20SoloReq)> 0 <outfile>` - one instance, alone, in a process
// in which nothing else has happened
func runC20Solo(tier string, seed uint64, o *Out) error {
	b, err := hex.DecodeString(tier)
	if err != nil {
		return err
	}
	var rq c20SoloReq
	if err := json.Unmarshal(b, &rq); err != nil {
		return err
	}
	rs, err := strconv.ParseUint(rq.Seed, 10, 64)
	if err != nil {
		return err
	}
	if rq.Fam == "typed" {
		res, err := c20TRun([]string{rq.Sql}, [][]map[string]any{c20TRows(rs, rq.Inst, rq.N, rq.Typ, rq.Cols)}, nil, false, rq.Sync, rq.Win)
		if err != nil {
			return err
		}
		o.Line("%s", res[0])
		return nil
	}
	if rq.Fam == "unhash" { // unhashable-argument family (c20e.go): Typ = column-name suffix
		res, err := c20TRun([]string{rq.Sql}, [][]map[string]any{c20URows(rs, rq.Inst, rq.N, rq.Typ)}, nil, false, true, 0)
		if err != nil {
			return err
		}
		o.Line("%s", res[0])
		return nil
	}
	rows := c20FRows(rs, rq.Inst, rq.N)
	res, err := c20FRun([]string{rq.Sql}, [][]map[string]any{rows}, nil, false, rq.Win, rq.Keyed)
	if err != nil {
		return err
	}
	o.Line("%s", res[0])
	return nil
}

func c20SoloFresh(rq c20SoloReq) (string, error) {
	exe, err := os.Executable()
	if err != nil {
		return "", err
	}
	f, err := os.CreateTemp("", "c20solo*.txt")
	if err != nil {
		return "", err
	}
	f.Close()
	defer os.Remove(f.Name())
	b, _ := json.Marshal(rq)
	out, err := exec.Command(exe, "C20solo", hex.EncodeToString(b), "0", f.Name()).CombinedOutput()
	if err != nil {
		return "", fmt.Errorf("fresh-process solo run of %q: %v: %s", rq.Sql, err, out)
	}
	data, err := os.ReadFile(f.Name())
	if err != nil {
		return "", err
	}
	return strings.TrimSpace(string(data)), nil
}

func c20RunF(rng *RNG, p c20FSpec, mode string, o *Out) error {
	rs := rng.Next()
	rowsA, rowsB := c20FRows(rs, 0, p.N), c20FRows(rs, 1, p.N)
	ord := make([]int, 2*p.N)
	lazy := true
	switch mode {
	case "b_created_after_a_ran": // all of A's rows, A's results delivered, then B is created
		for i := range ord {
			ord[i] = 0
		}
	case "a_created_after_b_ran":
		for i := range ord {
			ord[i] = 1
		}
	case "created_midway": // one instance gets half of its rows, then the other is created; rest interleaved
		first := rng.Intn(2)
		for i := range ord {
			if i < p.N/2 {
				ord[i] = first
			} else {
				ord[i] = rng.Intn(2)
			}
		}
	default: // "upfront": both created before any row, inputs interleaved
		lazy = false
		for i := range ord {
			ord[i] = rng.Intn(2)
		}
	}
	type sr struct {
		s   string
		err error
	}
	ca, cb := make(chan sr, 1), make(chan sr, 1)
	go func() {
		s, err := c20SoloFresh(c20SoloReq{Sql: p.SqlA, Seed: strconv.FormatUint(rs, 10), Inst: 0, N: p.N, Win: p.Win, Keyed: p.Keyed})
		ca <- sr{s, err}
	}()
	go func() {
		s, err := c20SoloFresh(c20SoloReq{Sql: p.SqlB, Seed: strconv.FormatUint(rs, 10), Inst: 1, N: p.N, Win: p.Win, Keyed: p.Keyed})
		cb <- sr{s, err}
	}()
	soloA, soloB := <-ca, <-cb
	if soloA.err != nil {
		return soloA.err
	}
	if soloB.err != nil {
		return soloB.err
	}
	// the paired run: in this process, after everything the earlier cases did here
	paired, err := c20FRun([]string{p.SqlA, p.SqlB}, [][]map[string]any{rowsA, rowsB}, ord, lazy, p.Win, p.Keyed)
	if err != nil {
		return err
	}
	o.Line("C20 P %s %s %s %s %s %s %s %s", p.Kind, mode, hxs(p.SqlA), hxs(p.SqlB), soloA.s, paired[0], soloB.s, paired[1])
	o.Count("P_" + p.Kind)
	o.Count("P_registry_mode_" + mode)
	return nil
}

// names of the registered aggregate functions; param = those that declare an Init(args) of their own
func c20AggNames() (all []string, param []string) {
	for n, f := range functions.ListAll() {
		if _, ok := f.(functions.AggregatorFunction); !ok {
			continue
		}
		all = append(all, n)
		if _, ok := f.(functions.ParameterizedFunction); ok {
			param = append(param, n)
		}
	}
	sort.Strings(all)
	sort.Strings(param)
	return
}

var c20FParams = []string{"0.2", "0.5", "0", "2", "3", "4", "0.75"}

func c20FSql(calls []string, keyed bool, win int) string {
	var sel []string
	if keyed {
		sel = append(sel, "dev")
	}
	for i, c := range calls {
		sel = append(sel, fmt.Sprintf("%s AS p%d", c, i))
	}
	s := "SELECT " + strings.Join(sel, ", ") + " FROM stream GROUP BY "
	if keyed {
		s += "dev, "
	}
	return s + fmt.Sprintf("CountingWindow(%d)", win)
}

func c20FAccepts(sql string) bool {
	s, err := c20Open(sql, false)
	if err != nil {
		return false
	}
	s.Stop()
	return true
}

// the pair specs of one round.  Every aggregate with a parameter of its own gets all form pairs; every
// other registered aggregate (an extra argument is accepted by the parser for all of them) is sampled.
func c20FSpecs(rng *RNG, tier string) []c20FSpec {
	all, param := c20AggNames()
	isParam := map[string]bool{}
	for _, n := range param {
		isParam[n] = true
	}
	var ps []c20FSpec
	shape := func() (bool, int, int) {
		win := 3 + rng.Intn(4)
		keyed := rng.Intn(3) != 0
		n := win*2 + rng.Intn(win)
		if keyed {
			n = win*4 + rng.Intn(win)
		}
		return keyed, win, n
	}
	def := func(f string) string { return f + "(x)" }
	exp := func(f string) string { return f + "(x, " + rng.Pick(c20FParams) + ")" }
	add := func(kind string, ca, cb []string) {
		keyed, win, n := shape()
		sa, sb := c20FSql(ca, keyed, win), c20FSql(cb, keyed, win)
		if !c20FAccepts(sa) || !c20FAccepts(sb) {
			return
		}
		ps = append(ps, c20FSpec{kind, sa, sb, keyed, win, n})
	}
	for _, f := range param {
		add("registry_explicit_then_default", []string{exp(f)}, []string{def(f)})
		add("registry_default_then_explicit", []string{def(f)}, []string{exp(f)})
		add("registry_explicit_both", []string{exp(f)}, []string{exp(f)})
		add("registry_default_both", []string{def(f)}, []string{def(f)})
		// both forms inside one query next to a query with the default form
		add("registry_two_forms_in_one_query", []string{exp(f), def(f), exp(f)}, []string{def(f), exp(f)})
		g := rng.Pick(all)
		add("registry_other_function", []string{exp(f), def(g)}, []string{def(g), def(f)})
	}
	if len(param) >= 2 {
		for i := 0; i < 2; i++ {
			f, g := rng.Pick(param), rng.Pick(param)
			add("registry_param_cross", []string{exp(f), exp(g)}, []string{def(g), def(f)})
		}
	}
	// analytic functions (direct queries; lag(x, n), acc_sum(x, ...), latest(x, ...)): their prototypes
	// live in the same registry.  Win = 1, not keyed: one result row per input row.
	var analytic []string
	for n, f := range functions.ListAll() {
		if f.GetType() == functions.TypeAnalytical {
			analytic = append(analytic, n)
		}
	}
	sort.Strings(analytic)
	for _, f := range analytic {
		if tier != "thorough" && rng.Intn(2) != 0 {
			continue
		}
		sa := "SELECT id, " + f + "(x, " + rng.Pick([]string{"2", "3", "1"}) + ") AS p0, " + f + "(y) AS p1 FROM stream"
		sb := "SELECT id, " + f + "(x) AS p0 FROM stream"
		if !c20FAccepts(sa) || !c20FAccepts(sb) {
			continue
		}
		ps = append(ps, c20FSpec{"registry_analytic_explicit_then_default", sa, sb, false, 1, 6 + rng.Intn(5)})
	}
	nOther := 6
	if tier == "thorough" {
		nOther = len(all)
	}
	for i := 0; i < nOther; i++ {
		f := all[rng.Intn(len(all))]
		if tier == "thorough" {
			f = all[i]
		}
		if isParam[f] {
			continue
		}
		add("registry_plain_aggregate_extra_arg", []string{exp(f), def(f)}, []string{def(f)})
	}
	return ps
}

func c20RunRegistryFamily(rng *RNG, tier string, o *Out) error {
	modes := []string{"b_created_after_a_ran", "a_created_after_b_ran", "created_midway", "upfront"}
	rounds := 1
	if tier == "thorough" {
		rounds = 2
	}
	for r := 0; r < rounds; r++ {
		for _, p := range c20FSpecs(rng, tier) {
			for mi, m := range modes {
				// quick: the creation-after-run schedule of the pair as written always, the others sampled
				if tier != "thorough" && mi != 0 && rng.Intn(3) != 0 {
					continue
				}
				if err := c20RunF(rng, p, m, o); err != nil {
					return err
				}
			}
		}
	}
	return nil
}

// ---------------------------------------------------------------- (2) unnest family
func c20UnnestRow(rng *RNG, i int) map[string]any {
	obj := func(j int) map[string]any {
		m := map[string]any{"k": rng.Pick([]string{"x", "y", "z"}), "w": j,
			"sub": map[string]any{"z": []any{j, "q"}}}
		if rng.Intn(3) == 0 {
			m["id"] = 900 + j // clashes with a projected column of the row
		}
		if rng.Intn(4) == 0 {
			m["dev"] = "elem"
		}
		return m
	}
	no := 1 + rng.Intn(3)
	objs := make([]any, no)
	tobjs := make([]map[string]any, no)
	for j := 0; j < no; j++ {
		objs[j] = obj(j)
		tobjs[j] = obj(10 + j)
	}
	mixed := []any{obj(20), rng.Intn(5), "s", []any{1, map[string]any{"in": 1}}, obj(21), nil}
	return map[string]any{
		"id": i, "v": i * 10, "dev": []string{"a", "b", "Cc"}[rng.Intn(3)], "k": rng.Intn(4),
		"tags":  []any{"z", "a", rng.Intn(3)},
		"objs":  objs,
		"tobjs": tobjs,
		"mixed": mixed[:2+rng.Intn(5)],
		"empty": []any{},
		"nest":  map[string]any{"p": rng.Intn(5), "arr": []any{obj(30), obj(31)}, "r": map[string]any{"s": "t"}},
	}
}

type c20UnnestQ struct {
	kind  c20Kind
	arr   string
	where string
}

func c20UnnestKind(rng *RNG) c20UnnestQ {
	arr := rng.Pick([]string{"objs", "objs", "tobjs", "mixed", "tags", "objs", "empty", "mixed"})
	shape := map[string]string{"objs": "objects", "tobjs": "typed_objects", "mixed": "mixed", "tags": "scalars", "empty": "empty"}[arr]
	pool := []string{"id", "dev", "v * 2 AS w2", "upper(dev) AS e", "nest", "tags", "k", "k AS kk", "objs", "v"}
	var others []string
	seen := map[string]bool{}
	for n := rng.Intn(4); len(others) < n; {
		c := rng.Pick(pool)
		if !seen[c] {
			seen[c] = true
			others = append(others, c)
		}
	}
	un := "unnest(" + arr + ") AS u"
	sel := append([]string{}, others...)
	at := rng.Intn(len(sel) + 1)
	sel = append(sel[:at], append([]string{un}, sel[at:]...)...)
	tag := "alone"
	if len(others) > 0 {
		tag = fmt.Sprintf("with_%d_columns", len(others))
	}
	sql := "SELECT " + strings.Join(sel, ", ") + " FROM stream"
	where := ""
	switch rng.Intn(4) {
	case 0:
		where = "id >= 0"
	case 1:
		where = "v >= 10"
	}
	if where != "" {
		sql += " WHERE " + where
		tag += "_where"
	}
	return c20UnnestQ{c20Kind{"unnest_" + shape + "_" + tag, sql, true, false, false}, arr, where}
}

func (q c20UnnestQ) want(rows []map[string]any) int {
	t := 0
	for _, r := range rows {
		if q.where == "v >= 10" && toInt(r["v"]) < 10 {
			continue
		}
		switch a := r[q.arr].(type) {
		case []any:
			t += len(a)
		case []map[string]any:
			t += len(a)
		}
	}
	return t
}

func c20RunUnnestFamily(rng *RNG, tier string, o *Out) error {
	n := 40
	if tier == "thorough" {
		n = 400
	}
	ok := 0
	for i := 0; i < n; i++ {
		q := c20UnnestKind(rng)
		a, err := c20RunUG(rng, q.kind, "async", o, true, c20UnnestRow, q.want)
		if err != nil {
			return err
		}
		if a {
			ok++
			o.Count("U_unnest_family")
			if strings.Contains(q.kind.kind, "objects") && strings.Contains(q.kind.kind, "with_") {
				o.Count("U_unnest_objects_next_to_columns")
			}
		} else {
			o.Count("U_unnest_family_rejected_sql")
		}
		if i%4 == 0 { // EmitSync does not expand; it must leave the row alone all the same
			if _, err := c20RunUG(rng, q.kind, "sync", o, true, c20UnnestRow, nil); err != nil {
				return err
			}
		}
	}
	if ok < n/2 {
		return fmt.Errorf("unnest family: only %d of %d generated queries were accepted by the engine", ok, n)
	}
	return nil
}
