package main

// C11, two generator families added after the second seeded-change round.
//
// (Q) "a literal is data": string literals and back-quoted identifiers whose content mixes the OTHER two
// quote characters with `word(` / `word (` call shapes (unknown words, registered functions, aggregate
// names, keywords), closing and opening parentheses, clause words (LIMIT 5, ORDER BY x, GROUP BY, FROM t,
// HAVING, WITH, JOIN ...), commas, operators and comment-like text.  A literal of the lexer ends at the
// next occurrence of ITS OWN opening quote character (Model/Lexer.v: lexer_literal_opaque), so each of
// them is ONE token and the statement is of the documented grammar: rsql.Parse must accept it and the
// projected types.Config must equal the reference parser's skeleton under every layout / keyword casing
// (P lines, judged by the extracted parse_ref + cond_text).  The literals are generated, not listed: the
// family is a grammar over pieces, with a forced shape "own quote, text, foreign quote, text, word(, text"
// at every site a literal can be written (bare select item, call argument, CASE branch, WHERE comparison
// and LIKE pattern -- first, middle, last, inside parentheses --, HAVING, back-quoted select item / WHERE
// operand, two literals of different quote kinds in one condition).
//
// (U) totality on statements that MUST be answered with an error built from a position: an unknown
// function at every expression site (first / later select item, WHERE, HAVING, nested in a known call,
// inside CASE, several unknown calls in one statement = the combined-error path), in long compact
// arithmetic (`nosuchfn(a)+1+2+3+4+5+6+7+8`: the parser re-joins the tokens with blanks, so the
// expression text is longer than the source text it came from and positions computed from its length
// run below zero), in every layout incl. the minimal one, with short and long source names.  T lines:
// rsql.Parse under recover + 2 s limit.
import (
	"fmt"
	"sort"
	"strconv"
	"strings"
	"time"

	"github.com/rulego/streamsql/functions"
)

// callNamesIn: the registered functions of the kinds the parser looks for in raw expression text
// (A = analytic, G = aggregation or window; functions registry) whose name occurs in the statement;
// passed to the driver, which uses them only to LABEL a recorded finding (known_findings.d/C11.jsonl).
func callNamesIn(sql string) string {
	lo := strings.ToLower(sql)
	var ns []string
	add := func(tag string, t functions.FunctionType) {
		for _, f := range functions.GetByType(t) {
			if n := strings.ToLower(f.GetName()); n != "" && strings.Contains(lo, n) {
				ns = append(ns, tag+hx(n))
			}
		}
	}
	add("A", functions.TypeAnalytical)
	add("G", functions.TypeAggregation)
	add("G", functions.TypeWindow)
	if len(ns) == 0 {
		return "-"
	}
	sort.Strings(ns)
	return strings.Join(ns, " ")
}

// ---------------------------------------------------------------- (D) "a literal is data" differential
// neutralTwin: the same statement with the CONTENT of every string literal / back-quoted identifier of
// the select items, WHERE and HAVING replaced by a neutral word (same quote kind, equal literals stay
// equal, distinct ones stay distinct).  Window parameters and WITH option values are kept.
func neutralTwin(g *gStmt) (*gStmt, int) {
	m := map[string]string{}
	sub := func(l []lx) []lx {
		o := make([]lx, len(l))
		for i, x := range l {
			o[i] = x
			if !x.kw && len(x.s) >= 2 && (x.s[0] == '\'' || x.s[0] == '"' || x.s[0] == '`') {
				r, ok := m[x.s]
				if !ok {
					r = fmt.Sprintf("%cL%d%c", x.s[0], len(m), x.s[0])
					m[x.s] = r
				}
				o[i].s = r
			}
		}
		return o
	}
	t := *g
	t.items = make([]gItem, len(g.items))
	for i, it := range g.items {
		t.items[i] = gItem{expr: sub(it.expr), alias: it.alias}
	}
	t.where, t.having = sub(g.where), sub(g.having)
	return &t, len(m)
}

// shapeDigest: the part of types.Config that does not carry expression texts -- what KIND of query the
// statement is and how many of each clause element it has.  The content of a literal must not move it.
func shapeDigest(sql string) (outcome, msg, digest string) {
	out, cfg, cond, err := parseGuard(sql, 2*time.Second)
	if out != "ok" {
		m := "-"
		if err != nil {
			m = hx(firstLine(err.Error()))
		}
		return out, m, "-"
	}
	var sel []string
	for _, v := range cfg.SelectFields {
		// whether an item is a plain column, an expression or a post-aggregation expression may depend on
		// what its text looks like (a back-quoted name with blanks is not a plain column); which
		// aggregate / analytic functions the query computes may not
		if v != "expression" && v != "post_aggregation" {
			sel = append(sel, string(v))
		}
	}
	sort.Strings(sel)
	wt := cfg.WindowConfig.Type
	if wt == "" {
		wt = "-"
	}
	d := fmt.Sprintf("mode:%d,window:%s,wtype:%s,distinct:%s,limit:%d,group:%d,order:%d,joins:%d,where:%s,having:%s,fields:%d,simple:%d,aliases:%d,analytic:%d,whereAnalytic:%d,sel:%s,postagg:%d",
		int(cfg.Mode), b01(cfg.NeedWindow), wt, b01(cfg.Distinct), cfg.Limit, len(cfg.GroupFields), len(cfg.OrderBy), len(cfg.JoinConfigs),
		b01(cond != ""), b01(cfg.Having != ""), len(cfg.FieldOrder), len(cfg.SimpleFields), len(cfg.SelectAlias), len(cfg.AnalyticFields),
		len(cfg.WhereAnalyticCalls), strings.Join(sel, "+"), len(cfg.PostAggExpressions))
	return out, "-", strings.ReplaceAll(d, " ", "_")
}

// literalIsDataLine writes the D line of a generated statement (nothing when it has no literal).
func literalIsDataLine(rng *RNG, o *Out, g *gStmt) {
	t, n := neutralTwin(g)
	if n == 0 {
		return
	}
	style, casing := rng.Intn(6), rng.Intn(4)
	r1, r2 := *rng, *rng // the same layout choices for both texts
	a, b := render(&r1, g.lexemes(), style, casing), render(&r2, t.lexemes(), style, casing)
	rng.Next()
	o1, m1, d1 := shapeDigest(a)
	o2, _, d2 := shapeDigest(b)
	o.Line("C11 D %s %s %s %s %s %s %s # %s", hx(a), hx(b), o1, o2, m1, d1, d2, callNamesIn(a))
	o.Count("literal_is_data_pair")
}

var quoteChars = []byte{'\'', '"', '`'}

// words that may be followed by "(" inside a literal: unknown to every function registry, registered
// scalar functions, aggregates (extractHavingAggregates looks for them), keywords of the validator
var litCallWords = []string{"urgent", "nominal", "approx", "foo", "new", "beta", "call", "nosuchfn", "x", "f", "limit_fn", "back",
	"count", "sum", "avg", "max", "upper", "concat", "COUNT", "Sum", "lag", "latest", "had_changed", "acc_sum", "LAG", "TumblingWindow", "and", "IN", "case", "if", "cast", "order", "limit"}
var litWords = []string{"it", "s", "size", "5", "urgent", "hello", "n", "a", "b", "temp", "x1", "1.5", "-3", "%", "_", "é", "ok"}
var litClauseWords = []string{"LIMIT 5", "limit 1", "ORDER BY x", "order by a desc", "WHERE", "where a > 1", "FROM t", "from", " GROUP BY ", "group by a",
	"HAVING c > 1", "having", "SELECT", "select *", "AS c", "as", "WITH (TIMESTAMP='ts')", "JOIN t ON a = b", "left join", "DISTINCT", "AND", "or", "NOT", "IS NULL",
	"LIKE", "CASE WHEN", "END", "TumblingWindow('5s')", "SlidingWindow(\"10s\",\"2s\")", "CountingWindow(3)", "OVER (PARTITION BY d)", "MATCH_RECOGNIZE (", "DESC", "asc"}
var litPunct = []string{"(", ")", "((", "))", "()", ") (", ",", ", ", "=", "==", "!=", ">", "<=", "*", "(*)", "+", "-", "--", "/*", "*/", ".", ";", ":", "[0]", "{", "}", "|", "?", "#", "\\", "\\'", "  ", " ", "\t"}

// genTrickyLit returns a literal opened and closed by q.  forced: the content has the shape
// <text> <foreign quote> <text> <word> [blanks] ( <text>, the class of content a quote-blind scanner
// misreads; otherwise a free mix of the same pieces (any number of foreign quotes, possibly none).
func genTrickyLit(rng *RNG, q byte, forced bool) string {
	var others []string
	for _, c := range quoteChars {
		if c != q {
			others = append(others, string(c))
		}
	}
	piece := func() string {
		switch rng.Intn(12) {
		case 0, 1:
			return rng.Pick(others)
		case 2, 3:
			return rng.Pick(litCallWords) + rng.Pick([]string{"", "", " ", "  "}) + "("
		case 4, 5:
			return rng.Pick(litClauseWords)
		case 6, 7, 8:
			return rng.Pick(litPunct)
		default:
			return rng.Pick(litWords)
		}
	}
	text := func(n int) string {
		var sb strings.Builder
		for i := 0; i < n; i++ {
			p := piece()
			if sb.Len() > 0 && rng.Intn(3) > 0 {
				sb.WriteByte(' ')
			}
			sb.WriteString(p)
		}
		return sb.String()
	}
	var body string
	if forced {
		sp := func() string { return rng.Pick([]string{"", " "}) }
		body = text(rng.Intn(3)) + sp() + rng.Pick(others) + sp() + rng.Pick(litWords) + text(rng.Intn(2)) + " " +
			rng.Pick(litCallWords) + rng.Pick([]string{"", "", " ", "  "}) + "(" + text(rng.Intn(4))
		if rng.Bool() {
			body += ")"
		}
	} else {
		body = text(1 + rng.Intn(6))
	}
	// the literal's own quote character cannot occur inside it (the lexer has no escapes)
	body = strings.ReplaceAll(body, string(q), others[rng.Intn(2)])
	return string(q) + body + string(q)
}

// pickStr / pickQid: the literal pools of the grammar-driven families, one draw in three generated
func pickStr(rng *RNG) string {
	if rng.Intn(3) == 0 {
		return genTrickyLit(rng, quoteChars[rng.Intn(2)], rng.Bool())
	}
	return rng.Pick(strPool)
}
func pickQid(rng *RNG) string {
	if rng.Intn(3) == 0 {
		return genTrickyLit(rng, '`', rng.Bool())
	}
	return rng.Pick(qidPool)
}

const nQuoteSites = 12

// genQuoteStmt: a small statement of the skeleton grammar with a forced-shape literal at one site.
func genQuoteStmt(rng *RNG, site int) *gStmt {
	g := &gStmt{src: rng.Pick([]string{"stream", "t", "orders"})}
	str := func() string { return genTrickyLit(rng, quoteChars[rng.Intn(2)], true) }
	qid := func() string { return genTrickyLit(rng, '`', true) }
	fld := func() string { return rng.Pick(rowFields) }
	num := func() string { return strconv.Itoa(rng.Intn(30)) }
	plain := func() []lx {
		return []lx{V(fld()), V(rng.Pick([]string{">", "<", "=", "!=", ">="})), V(num())}
	}
	g.runnable = true
	g.items = []gItem{{expr: []lx{V("deviceId")}}}
	switch site {
	case 0: // bare literal as a select item
		g.items = append(g.items, gItem{expr: []lx{V(str())}, alias: "label"})
	case 1: // literal as an argument of a call
		g.items = append(g.items, gItem{expr: []lx{V("concat"), V("("), V(fld()), V(","), V(str()), V(")")}, alias: "label"})
		if rng.Bool() {
			g.items = append(g.items, gItem{expr: []lx{V("upper"), V("("), V(str()), V(")")}, alias: "u2"})
		}
	case 2: // CASE branches
		g.items = append(g.items, gItem{expr: []lx{K("CASE"), K("WHEN"), V(fld()), V(">"), V(num()), K("THEN"), V(str()), K("ELSE"), V(str()), K("END")}, alias: "lvl"})
	case 3: // WHERE comparison: first, middle or last atom
		atom := []lx{V(fld()), V(rng.Pick([]string{"=", "!=", "=="})), V(str())}
		switch rng.Intn(3) {
		case 0:
			g.where = append(append(atom, K("AND")), plain()...)
		case 1:
			g.where = append(append(append(append(plain(), K("OR")), atom...), K("AND")), plain()...)
		default:
			g.where = append(append(plain(), K(rng.Pick([]string{"AND", "OR"}))), atom...)
		}
	case 4: // LIKE pattern inside parentheses
		g.where = append(append(append(plain(), K("AND"), V("(")), V(fld()), K("LIKE"), V(str()), K("OR")), append(plain(), V(")"))...)
	case 5: // two literals of different quote kinds in one condition
		a, b := genTrickyLit(rng, '\'', true), genTrickyLit(rng, '"', true)
		if rng.Bool() {
			a, b = b, a
		}
		g.where = []lx{V(fld()), V("="), V(a), K(rng.Pick([]string{"AND", "OR"})), V(fld()), V("!="), V(b)}
	case 6: // literal in WHERE and in a select item, clauses after it
		g.items = append(g.items, gItem{expr: []lx{V(str())}, alias: "c"})
		g.where = []lx{V(fld()), V("="), V(str())}
	case 7, 8: // HAVING of an aggregate statement
		g.runnable = false
		g.items = []gItem{{expr: []lx{V("deviceId")}}, {expr: []lx{V(rng.Pick([]string{"count", "COUNT"})), V("("), V("*"), V(")")}, alias: "c"},
			{expr: []lx{V(rng.Pick([]string{"max", "avg", "min"})), V("("), V(fld()), V(")")}, alias: "m"}}
		g.group = []string{"deviceId"}
		if site == 7 {
			n := 1 + rng.Intn(5)
			g.winKind, g.winName = "C", "CountingWindow"
			g.winParams, g.winEnc = []string{strconv.Itoa(n)}, []string{"i" + strconv.Itoa(n)}
		} else {
			n := 1 + rng.Intn(9)
			g.winKind, g.winName = "T", "TumblingWindow"
			g.winParams, g.winEnc = []string{fmt.Sprintf("'%ds'", n)}, []string{durEnc(time.Duration(n) * time.Second)}
		}
		g.winPos = rng.Intn(2)
		atom := []lx{V(rng.Pick([]string{"m", "c"})), V(rng.Pick([]string{"=", "!="})), V(str())}
		if rng.Bool() {
			g.having = append(append(atom, K("AND")), V("c"), V(">"), V(num()))
		} else {
			g.having = append([]lx{V("c"), V(">="), V(num()), K("OR")}, atom...)
		}
		if rng.Bool() {
			g.where = []lx{V(fld()), V("!="), V(str())}
		}
	case 9: // back-quoted identifier as a select item
		g.runnable = false
		g.items = append(g.items, gItem{expr: []lx{V(qid())}, alias: "q"})
	case 10: // back-quoted identifier in WHERE
		g.runnable = false
		g.where = append([]lx{V(qid()), V(rng.Pick([]string{">", "=", "<"})), V(num()), K("AND")}, plain()...)
	default: // back-quoted identifier and literal together
		g.runnable = false
		g.items = append(g.items, gItem{expr: []lx{V("concat"), V("("), V(qid()), V(","), V(str()), V(")")}, alias: "both"})
		g.where = []lx{V(qid()), V("="), V(str())}
	}
	if rng.Intn(3) == 0 {
		col := "deviceId"
		if g.winKind != "" {
			col = "c"
		}
		g.order = []gKey{{col: col, desc: rng.Bool(), asc: rng.Intn(4) == 0}}
	}
	if rng.Intn(3) == 0 {
		g.limit = 1 + rng.Intn(20)
	}
	return g
}

// ---------------------------------------------------------------- (U) unknown functions, every shape
var unknownFnNames = []string{"nosuchfn", "nosuchfn", "foo", "my_udf_9", "Zzz", "f", "not_registered_function_with_a_long_name", "countx", "upperr"}

func c11UnknownFnInputs(rng *RNG, o *Out, tier string) []string {
	n := 160
	if tier == "thorough" {
		n = 2500
	}
	var out []string
	fn := func() string { return rng.Pick(unknownFnNames) }
	call := func() []lx {
		switch rng.Intn(6) {
		case 0:
			return []lx{V(fn()), V("("), V(")")}
		case 1:
			return []lx{V(fn()), V("("), V(rng.Pick(identPool)), V(","), V(strconv.Itoa(rng.Intn(9))), V(","), V(rng.Pick(strPool)), V(")")}
		case 2:
			return []lx{V(fn()), V("("), V(fn()), V("("), V(rng.Pick(identPool)), V(")"), V(")")}
		}
		return []lx{V(fn()), V("("), V(rng.Pick(rowFields)), V(")")}
	}
	chain := func(k int) []lx { // +1+2+...+k
		var l []lx
		for i := 1; i <= k; i++ {
			l = append(l, V(rng.Pick([]string{"+", "+", "-", "*", "/"})), V(strconv.Itoa(i)))
		}
		return l
	}
	expr := func() []lx {
		switch rng.Intn(8) {
		case 0:
			return call()
		case 1, 2: // long compact arithmetic after the call
			return append(call(), chain(1+rng.Intn(14))...)
		case 3: // ... before the call
			l := append([]lx{V("1")}, chain(1+rng.Intn(10))...)
			return append(append(l, V("+")), call()...)
		case 4: // nested in a known call
			return append(append([]lx{V(rng.Pick([]string{"upper", "abs", "concat", "sum", "count"})), V("(")}, append(call(), chain(rng.Intn(6))...)...), V(")"))
		case 5: // inside CASE
			return append(append([]lx{K("CASE"), K("WHEN")}, call()...), V(">"), V("1"), K("THEN"), V("1"), K("ELSE"), V("2"), K("END"))
		case 6: // two unknown calls in one expression
			return append(append(call(), V(rng.Pick([]string{"+", "-", "*"}))), append(call(), chain(rng.Intn(8))...)...)
		default: // parenthesised
			return append(append([]lx{V("("), V("(")}, append(call(), chain(1+rng.Intn(8))...)...), V(")"), V(")"))
		}
	}
	cond := func() []lx {
		l := append(expr(), V(rng.Pick([]string{">", "=", "!=", "<="})), V(strconv.Itoa(rng.Intn(9))))
		switch rng.Intn(4) {
		case 0:
			l = append(append([]lx{V("a"), V(">"), V("1"), K("AND")}, l...), K("OR"), V("b"), V("<"), V("2"))
		case 1:
			l = append(append([]lx{V("(")}, l...), V(")"))
		}
		return l
	}
	for i := 0; i < n; i++ {
		g := &gStmt{src: rng.Pick([]string{"t", "t", "s", "stream", "a_rather_long_source_name"})}
		site := i % 6
		switch site {
		case 0: // the first select item, as close to byte 0 as the grammar allows
			g.items = []gItem{{expr: expr()}}
		case 1: // first item with alias, more items after it
			g.items = []gItem{{expr: expr(), alias: "x"}, {expr: []lx{V("b")}}}
		case 2: // a later item (and possibly the first one too: combined error)
			g.items = []gItem{{expr: []lx{V("a")}}, {expr: expr(), alias: "y"}}
			if rng.Bool() {
				g.items = append([]gItem{{expr: expr(), alias: "w"}}, g.items...)
			}
		case 3: // WHERE
			g.items = []gItem{{expr: []lx{V(rng.Pick([]string{"a", "*"}))}}}
			g.where = cond()
		case 4: // HAVING (and WHERE) of an aggregate statement
			g.items = []gItem{{expr: []lx{V("a")}}, {expr: []lx{V("count"), V("("), V("*"), V(")")}, alias: "c"}}
			g.group = []string{"a"}
			g.winKind, g.winName, g.winParams, g.winPos = "T", "TumblingWindow", []string{"'5s'"}, rng.Intn(2)
			g.having = cond()
			if rng.Intn(3) == 0 {
				g.where = cond()
			}
		default: // everywhere
			g.items = []gItem{{expr: expr()}, {expr: expr(), alias: "z"}}
			g.where = cond()
			if rng.Bool() {
				g.order = []gKey{{col: "z", desc: rng.Bool()}}
				g.limit = 1 + rng.Intn(5)
			}
		}
		ls := g.lexemes()
		// minimal layout (no blank where none is needed) in lower and upper keyword case, plus a random layout
		out = append(out, render(rng, ls, 1, 1), render(rng, ls, 1, 0), render(rng, ls, rng.Intn(6), rng.Intn(4)))
		o.Count("total_unknown_function_statement")
	}
	// hand-written seeds of the family
	out = append(out, "select nosuchfn(a)+1+2+3+4+5+6+7+8 from t", "select f(a)*2 from t", "SELECT nosuchfn(a)+1+2+3+4+5+6+7+8+9+10+11+12 AS x FROM t WHERE g(b)+1+2+3+4>0",
		"select a from t where nosuchfn(a)+1+2+3+4+5+6+7+8>1", "select a,count(*) as c from t group by a,TumblingWindow('1s') having nosuchfn(c)+1+2+3+4+5+6+7+8>1",
		"select(nosuchfn(a))from t", "select nosuchfn()from t", "select\nnosuchfn(a)+1+2+3+4+5+6+7+8\nfrom t")
	return out
}
