package main

// C15 — two further families.
//
// K (classification): long runs (up to 13 rows of one partition) under OVERLAPPING DEFINE conditions,
// so that a run forks late (a row qualifies for two reachable variables at the 4th..13th row of a
// run), DEFINE conditions over the classification of the match so far (v > AVG(X.v), v > X.v,
// COUNT(X.v) <= k, ..) and MEASURES that expose the label of EVERY row of the reported match:
// each row carries a weight w = 2^(its index in its partition), SUM(X.w) is the set of rows
// labelled X; with ALL ROWS PER MATCH additionally CLASSIFIER() per row and all measures RUNNING.
// COUNT(X.v), SUM(X.v), MIN(X.id), MAX(X.id), X.id and CLASSIFIER() must agree with that labelling.
//
//	C15 K <O|A> <skip> <skipvar> <within> # <pattern> # <nv> {mask cmp akind avar ak}* #
//	    {part cls v ts}* # {part mn f l n cl {mask cnt sum min max last}*nv}*   (one per output row)
//
// akind: 0 none | 1 v > AVG(X.v) | 2 v < AVG(X.v) | 3 v > X.v | 4 v <= X.v | 5 COUNT(X.v) <= ak |
// 6 SUM(X.v) <= ak, X = variable avar. NULL (no row labelled X) is written -1.
//
// P (PERMUTE orders): PERMUTE of 3 or 4 variables, alone or inside a larger pattern, fed with EVERY
// arrival order of its variables, each order in its own partition (old line format, many partitions).
import (
	"fmt"
	"sort"
	"strings"
	"sync"

	"github.com/rulego/streamsql"
)

type c15kdef struct{ mask, cmp, akind, avar, ak int }

type c15kcase struct {
	pat     *c15pat
	nv      int
	defs    []c15kdef
	skip    string
	skipVar int
	within  int
	rows    []c15row
	allRows bool
	noPart  bool
	used    map[int]bool
	tag     string
}

func (d c15kdef) sql() string {
	s := c15def{d.mask, d.cmp}.sql()
	x := ""
	if d.akind > 0 {
		x = c15vars[d.avar]
	}
	a := ""
	switch d.akind {
	case 1:
		a = "v > AVG(" + x + ".v)"
	case 2:
		a = "v < AVG(" + x + ".v)"
	case 3:
		a = "v > " + x + ".v"
	case 4:
		a = "v <= " + x + ".v"
	case 5:
		a = fmt.Sprintf("COUNT(%s.v) <= %d", x, d.ak)
	case 6:
		a = fmt.Sprintf("SUM(%s.v) <= %d", x, d.ak)
	}
	if s != "" && a != "" {
		return s + " AND " + a
	}
	return s + a
}

func (c *c15kcase) sql() string {
	var sb strings.Builder
	sb.WriteString("SELECT * FROM stream MATCH_RECOGNIZE ( ")
	if !c.noPart {
		sb.WriteString("PARTITION BY p ")
	}
	sb.WriteString("ORDER BY ts MEASURES MATCH_NUMBER() AS mn, FIRST(id) AS f, LAST(id) AS l, COUNT(*) AS n, CLASSIFIER() AS cl")
	for i := 0; i < c.nv; i++ {
		if !c.used[i] {
			continue
		}
		x := c15vars[i]
		fmt.Fprintf(&sb, ", SUM(%s.w) AS m%s, COUNT(%s.v) AS c%s, SUM(%s.v) AS s%s, MIN(%s.id) AS i%s, MAX(%s.id) AS x%s, %s.id AS l%s",
			x, x, x, x, x, x, x, x, x, x, x, x)
	}
	if c.allRows {
		sb.WriteString(" ALL ROWS PER MATCH ")
	} else {
		sb.WriteString(" ONE ROW PER MATCH ")
	}
	switch c.skip {
	case "P":
		sb.WriteString("AFTER MATCH SKIP PAST LAST ROW ")
	case "N":
		sb.WriteString("AFTER MATCH SKIP TO NEXT ROW ")
	case "F":
		sb.WriteString("AFTER MATCH SKIP TO FIRST " + c15vars[c.skipVar] + " ")
	case "L":
		sb.WriteString("AFTER MATCH SKIP TO LAST " + c15vars[c.skipVar] + " ")
	case "V":
		sb.WriteString("AFTER MATCH SKIP TO " + c15vars[c.skipVar] + " ")
	}
	sb.WriteString("PATTERN (" + c.pat.sql(true) + ") ")
	if c.within > 0 {
		sb.WriteString(fmt.Sprintf("WITHIN %d NS ", c.within))
	}
	var ds []string
	for i, d := range c.defs {
		if s := d.sql(); s != "" {
			ds = append(ds, c15vars[i]+" AS "+s)
		}
	}
	if len(ds) > 0 {
		sb.WriteString("DEFINE " + strings.Join(ds, ", ") + " ")
	}
	sb.WriteString(")")
	return sb.String()
}

// -1 for NULL
func c15intNil(v any) (int, bool) {
	if v == nil {
		return -1, true
	}
	return c15int(v)
}

func (c *c15kcase) run() (string, error) {
	s := streamsql.New()
	q := c.sql()
	if err := s.Execute(q); err != nil {
		return "", fmt.Errorf("Execute(%s): %v", q, err)
	}
	var mu sync.Mutex
	var outs []string
	bad := ""
	s.AddSyncSink(func(rs []map[string]any) {
		mu.Lock()
		defer mu.Unlock()
		for _, r := range rs {
			mn, ok1 := c15int(r["mn"])
			f, ok2 := c15int(r["f"])
			l, ok3 := c15int(r["l"])
			n, ok4 := c15int(r["n"])
			if !(ok1 && ok2 && ok3 && ok4) || f < 1 || f > len(c.rows) {
				bad = fmt.Sprint(r)
				continue
			}
			cl := -1
			if sv, ok := r["cl"].(string); ok {
				for i, x := range c15vars {
					if x == sv {
						cl = i
					}
				}
			}
			var sb strings.Builder
			fmt.Fprintf(&sb, "%d %d %d %d %d %d", c.rows[f-1].part, mn, f, l, n, cl)
			for i := 0; i < c.nv; i++ {
				if !c.used[i] {
					sb.WriteString(" 0 0 0 -1 -1 -1")
					continue
				}
				x := c15vars[i]
				for _, k := range []string{"m", "c", "s", "i", "x", "l"} {
					v, ok := c15intNil(r[k+x])
					if !ok {
						bad = fmt.Sprint(r)
					}
					fmt.Fprintf(&sb, " %d", v)
				}
			}
			outs = append(outs, sb.String())
		}
	})
	st := s.Stream()
	st.VerifCepLiftGuards()
	idx := map[int]int{}
	for i, r := range c.rows {
		ev := r.event(i + 1)
		ev["w"] = 1 << idx[r.part]
		st.VerifCepFeed(ev)
		idx[r.part]++
	}
	s.Stop()
	mu.Lock()
	defer mu.Unlock()
	if bad != "" {
		return "", fmt.Errorf("unreadable output row %s for %s", bad, q)
	}
	return strings.Join(outs, " "), nil
}

func (c *c15kcase) line(out string) string {
	var sb strings.Builder
	w := c.within
	if w == 0 {
		w = 3600000000000
	}
	mode := "O"
	if c.allRows {
		mode = "A"
	}
	fmt.Fprintf(&sb, "C15 K %s %s %d %d # %s # %d", mode, c.skip, c.skipVar, w, c.pat.toks(), c.nv)
	for _, d := range c.defs {
		fmt.Fprintf(&sb, " %d %d %d %d %d", d.mask, d.cmp, d.akind, d.avar, d.ak)
	}
	sb.WriteString(" #")
	for _, r := range c.rows {
		sb.WriteString(" " + r.toks())
	}
	sb.WriteString(" #")
	if out != "" {
		sb.WriteString(" " + out)
	}
	return sb.String()
}

func (p *c15pat) rename(perm []int) *c15pat {
	q := &c15pat{kind: p.kind, v: p.v, mn: p.mn, mx: p.mx}
	if p.kind == 'L' {
		q.v = perm[p.v]
	}
	for _, k := range p.kids {
		q.kids = append(q.kids, k.rename(perm))
	}
	return q
}

// patterns whose runs fork when DEFINEs overlap; poly = the number of classifications of n rows is
// polynomial in n (long inputs are affordable)
func c15ktemplate(r *RNG) (*c15pat, int, bool) {
	A, B, C := c15lit(0), c15lit(1), c15lit(2)
	plus := func(p *c15pat) *c15pat { return c15rep(1, -1, p) }
	star := func(p *c15pat) *c15pat { return c15rep(0, -1, p) }
	opt := func(p *c15pat) *c15pat { return c15rep(0, 1, p) }
	switch r.Intn(14) {
	case 0, 1:
		return c15seq(plus(A), B), 2, true
	case 2:
		return c15seq(star(A), B), 2, true
	case 3:
		return c15seq(plus(A), plus(B)), 2, true
	case 4:
		return c15seq(plus(A), B, opt(C)), 3, true
	case 5:
		return c15seq(A, star(B), C), 3, true
	case 6:
		return c15seq(plus(A), c15alt(B, C)), 3, true
	case 7:
		return c15seq(c15rep(2, -1, A), B), 2, true
	case 8:
		return c15seq(plus(A), star(B), C), 3, true
	case 9:
		return c15seq(plus(A), B, plus(C)), 3, true
	case 10:
		return c15seq(plus(c15alt(A, B)), C), 3, false
	case 11:
		return plus(c15seq(A, opt(B))), 2, false
	case 12:
		return plus(c15seq(plus(A), B)), 2, false
	default:
		return c15seq(plus(A), B, plus(A)), 2, true
	}
}

func c15krandom(r *RNG, maxPer int) *c15kcase {
	c := &c15kcase{}
	poly := false
	if r.Intn(100) < 65 {
		var p *c15pat
		var k int
		p, k, poly = c15ktemplate(r)
		c.nv = r.Range(k, 4)
		perm := []int{0, 1, 2, 3}[:c.nv]
		for i := c.nv - 1; i > 0; i-- {
			j := r.Intn(i + 1)
			perm[i], perm[j] = perm[j], perm[i]
		}
		c.pat = p.rename(perm)
		c.tag = "K_template"
	} else {
		c.nv = r.Range(2, 4)
		for {
			c.pat = c15gen(r, r.Range(1, 2), c.nv)
			if c.pat.lits() <= 6 {
				break
			}
		}
		c.tag = "K_random_pattern"
	}
	c.used = map[int]bool{}
	c.pat.uses(c.used)
	var usedList []int
	for v := range c.used {
		usedList = append(usedList, v)
	}
	sort.Ints(usedList)
	// overlapping DEFINEs: dense class sets
	c.defs = make([]c15kdef, c.nv)
	for i := range c.defs {
		switch x := r.Intn(10); {
		case x == 0:
			c.defs[i].mask = 31
		default:
			m := 0
			for m == 0 {
				for b := 0; b < 5; b++ {
					if r.Intn(100) < 60 {
						m |= 1 << b
					}
				}
			}
			c.defs[i].mask = m
		}
		if r.Intn(8) == 0 {
			c.defs[i].cmp = 1 + r.Intn(2)
		}
	}
	if r.Intn(100) < 45 { // conditions over the classification
		n := r.Range(1, 2)
		for j := 0; j < n; j++ {
			i := usedList[r.Intn(len(usedList))]
			d := &c.defs[i]
			d.akind = r.Range(1, 6)
			d.avar = usedList[r.Intn(len(usedList))]
			if d.akind <= 4 && d.avar == i && len(usedList) > 1 && r.Intn(4) != 0 {
				for d.avar == i { // mostly a condition over ANOTHER variable's rows
					d.avar = usedList[r.Intn(len(usedList))]
				}
			}
			switch d.akind {
			case 5:
				d.ak = r.Range(1, 5)
			case 6:
				d.ak = r.Range(4, 30)
			}
		}
		c.tag += " K_define_over_classification"
	}
	switch x := r.Intn(100); {
	case x < 40:
		c.skip = "P"
	case x < 60:
		c.skip = "N"
	default:
		c.skip = []string{"F", "L", "V"}[r.Intn(3)]
		c.skipVar = usedList[r.Intn(len(usedList))]
	}
	if r.Intn(100) < 15 {
		c.within = r.Range(4, 12)
	}
	np := 1
	if r.Intn(100) < 40 {
		np = 2
	}
	if np == 1 && r.Intn(3) == 0 {
		c.noPart = true
	}
	c.allRows = r.Intn(2) == 0
	if !poly && maxPer > 10 {
		maxPer = 10
	}
	// classes accepted by >= 2 used variables are the most frequent, then those accepted by one
	var two, one []int
	for cl := 0; cl < 5; cl++ {
		k := 0
		for _, v := range usedList {
			if c.defs[v].mask&(1<<cl) != 0 {
				k++
			}
		}
		if k >= 2 {
			two = append(two, cl)
		}
		if k >= 1 {
			one = append(one, cl)
		}
	}
	per := make([]int, np)
	want := make([]int, np)
	for p := range want {
		want[p] = r.Range(4, maxPer)
	}
	ts := 1
	for {
		var open []int
		for p := range want {
			if per[p] < want[p] {
				open = append(open, p)
			}
		}
		if len(open) == 0 {
			break
		}
		p := open[r.Intn(len(open))]
		per[p]++
		cl := r.Intn(5)
		switch x := r.Intn(100); {
		case x < 60 && len(two) > 0:
			cl = two[r.Intn(len(two))]
		case x < 90 && len(one) > 0:
			cl = one[r.Intn(len(one))]
		}
		if c.within > 0 {
			ts += r.Intn(3)
		} else {
			ts += r.Intn(2)
		}
		c.rows = append(c.rows, c15row{part: p, cls: cl, v: r.Intn(10), ts: ts})
	}
	// a fifth of the cases: events without column c (absent key, now and then explicit nil) right
	// among the events whose class two variables accept; column v stays (the conditions over the
	// classification read it)
	if r.Intn(5) == 0 {
		for i := range c.rows {
			if r.Intn(100) < 25 {
				c.rows[i].nc = 1
				if r.Intn(5) == 0 {
					c.rows[i].nc = 2
				}
			}
		}
		c.tag += " K_rows_without_class_column"
	}
	c.tag += fmt.Sprintf(" K_skip_%s K_parts_%d", c.skip, np)
	if c.allRows {
		c.tag += " K_all_rows_per_match"
	} else {
		c.tag += " K_one_row_per_match"
	}
	return c
}

// documented scenarios of the class: a 12-row burst in which every row qualifies for A and for B
// (PATTERN A+ B), and B AS v > AVG(A.v) on 10 10 10 50 12 0
func c15kcorpus() []*c15kcase {
	var out []*c15kcase
	for _, all := range []bool{true, false} {
		c := &c15kcase{pat: c15seq(c15rep(1, -1, c15lit(0)), c15lit(1)), nv: 2, defs: []c15kdef{{mask: 3}, {mask: 1}},
			skip: "P", allRows: all, used: map[int]bool{0: true, 1: true}, tag: "K_corpus"}
		for i := 0; i < 12; i++ {
			c.rows = append(c.rows, c15row{part: 0, cls: 0, v: i % 10, ts: i + 1})
		}
		c.rows = append(c.rows, c15row{part: 0, cls: 4, v: 0, ts: 13})
		out = append(out, c)
		d := &c15kcase{pat: c15seq(c15rep(1, -1, c15lit(0)), c15lit(1)), nv: 2,
			defs: []c15kdef{{mask: 1}, {mask: 31, akind: 1, avar: 0}}, skip: "P", allRows: all,
			used: map[int]bool{0: true, 1: true}, tag: "K_corpus"}
		for i, v := range []int{1, 1, 1, 5, 2, 0} {
			cl := 0
			if v == 0 {
				cl = 4
			}
			d.rows = append(d.rows, c15row{part: 0, cls: cl, v: v, ts: i + 1})
		}
		out = append(out, d)
	}
	return out
}

// ---------------------------------------------------------------- PERMUTE over every arrival order
func c15perms(n int) [][]int {
	if n == 0 {
		return [][]int{{}}
	}
	var out [][]int
	var rec func(cur []int, used []bool)
	rec = func(cur []int, used []bool) {
		if len(cur) == n {
			out = append(out, append([]int(nil), cur...))
			return
		}
		for v := 0; v < n; v++ {
			if !used[v] {
				used[v] = true
				rec(append(cur, v), used)
				used[v] = false
			}
		}
	}
	rec(nil, make([]bool, n))
	return out
}

func c15permute(r *RNG, n int) *c15case {
	c := &c15case{nv: 4, tag: fmt.Sprintf("P_permute_%d", n)}
	vars := []int{0, 1, 2, 3}
	for i := 3; i > 0; i-- {
		j := r.Intn(i + 1)
		vars[i], vars[j] = vars[j], vars[i]
	}
	pm := &c15pat{kind: 'M'}
	for i := 0; i < n; i++ {
		pm.kids = append(pm.kids, c15lit(vars[i]))
	}
	extra := vars[3] // unused by the PERMUTE when n = 3; any variable when n = 4
	var pre, post []int
	shape := r.Intn(7)
	switch shape {
	case 0:
		c.pat = pm
	case 1:
		c.pat = c15seq(c15lit(extra), pm)
		pre = []int{extra}
	case 2:
		c.pat = c15seq(pm, c15lit(extra))
		post = []int{extra}
	case 3:
		c.pat = c15rep(1, -1, pm)
	case 4:
		c.pat = c15alt(pm, c15lit(extra))
	case 5:
		c.pat = c15seq(c15rep(0, 1, c15lit(extra)), pm, c15rep(0, 1, c15lit(extra)))
		if r.Bool() {
			pre = []int{extra}
		}
		if r.Bool() {
			post = []int{extra}
		}
	default:
		c.pat = c15rep(1, 2, pm)
	}
	c.tag += fmt.Sprintf(" P_shape_%d", shape)
	// exclusive DEFINEs: variable i <-> one class
	cls := []int{0, 1, 2, 3, 4}
	for i := 4; i > 0; i-- {
		j := r.Intn(i + 1)
		cls[i], cls[j] = cls[j], cls[i]
	}
	c.defs = make([]c15def, 4)
	for i := 0; i < 4; i++ {
		c.defs[i].mask = 1 << cls[i]
	}
	noise := cls[4]
	c.skip = []string{"P", "p", "N"}[r.Intn(3)]
	c.allRows = r.Intn(4) == 0
	orders := c15perms(n)
	// the rows of every partition, then a random interleaving that keeps each partition's order
	seqs := make([][]int, len(orders)) // classes
	for pi, o := range orders {
		var s []int
		if r.Intn(4) == 0 {
			s = append(s, noise)
		}
		for _, v := range pre {
			s = append(s, cls[v])
		}
		for _, k := range o {
			s = append(s, cls[vars[k]])
		}
		if (shape == 3 || shape == 6) && r.Bool() { // a second round in another order
			for _, k := range orders[r.Intn(len(orders))] {
				s = append(s, cls[vars[k]])
			}
		}
		for _, v := range post {
			s = append(s, cls[v])
		}
		if r.Intn(4) == 0 {
			s = append(s, noise)
		}
		seqs[pi] = s
	}
	at := make([]int, len(seqs))
	ts := 1
	for {
		var open []int
		for p := range seqs {
			if at[p] < len(seqs[p]) {
				open = append(open, p)
			}
		}
		if len(open) == 0 {
			break
		}
		p := open[r.Intn(len(open))]
		ts += r.Intn(2)
		c.rows = append(c.rows, c15row{part: p, cls: seqs[p][at[p]], v: r.Intn(5), ts: ts})
		at[p]++
	}
	return c
}

type c15runner interface {
	run() (string, error)
	line(string) string
}

func (c *c15case) tags() string  { return c.tag }
func (c *c15kcase) tags() string { return c.tag }
