package main

// C03 families GE / SE / ME / HE — events that carry no column at all ({}).
// The case lines are those of families G / S / M / H (c03.go, c03h.go); the only difference is how the harness builds
// the row of a missing cell ("m"): there it is a row that lacks the aggregated column but has others ({"id": 1},
// {"rid": 7}, {"rid": 7, "d": {}}), here it is the completely empty map. Such an event is still a row of the batch:
// count(*) counts it, every other aggregate skips it (its input is missing), and a batch made of such events only
// still yields one result row (count(*) = N, count(x) = 0, sum(x) = NULL ...) for the query without GROUP BY columns.
// The runs hold such events alone, in between rows with columns, at the start and the end of a batch, and as whole
// batches (first, in the middle, last, two in a row).
// SQL runs: the batch number of a result row is still read off max(rid) (rows with columns carry rid); a row whose
// lid is NULL belongs to a batch of empty events only and is matched with those batches in order (c3sqlRunB).

// c3sprinkleEmpty: one batch. A quarter of the batches become empty events only, the others get them at random
// places (a third of the cells), now and then exactly one (first / last cell).
func c3sprinkleEmpty(r *RNG, cells []c3val) []c3val {
	out := append([]c3val{}, cells...)
	if len(out) == 0 {
		return out
	}
	m := c3val{tok: "m", missing: true}
	switch k := r.Intn(8); {
	case k < 2: // the whole batch
		for i := range out {
			out[i] = m
		}
	case k == 2:
		out[0] = m
	case k == 3:
		out[len(out)-1] = m
	case k == 4: // everything but one row
		keep := r.Intn(len(out))
		for i := range out {
			if i != keep {
				out[i] = m
			}
		}
	default:
		for i := range out {
			if r.Intn(3) == 0 {
				out[i] = m
			}
		}
	}
	return out
}

// c3sprinkleEmptyBatches: the rows of a run of batches of n rows; at least one empty event in the run.
func c3sprinkleEmptyBatches(r *RNG, cells []c3val, n int) []c3val {
	var out []c3val
	for b := 0; b+n <= len(cells); b += n {
		out = append(out, c3sprinkleEmpty(r, cells[b:b+n])...)
	}
	any := false
	for _, c := range out {
		any = any || c.missing
	}
	if !any && len(out) > 0 {
		out[r.Intn(len(out))] = c3val{tok: "m", missing: true}
	}
	return out
}

func c3hasEmptyBatch(cells []c3val, n int) bool {
	for b := 0; b+n <= len(cells); b += n {
		all := true
		for _, c := range cells[b : b+n] {
			all = all && c.missing
		}
		if all {
			return true
		}
	}
	return false
}

// c3makeBare turns a job of family M into one of family ME: count(*) is usually in the list.
func c3makeBare(r *RNG, j *c3mjob) {
	j.bare = true
	has := false
	for _, c := range j.calls {
		has = has || c.agg == "count_star"
	}
	if !has && r.Intn(5) > 0 {
		j.calls = append(j.calls, c3call{agg: "count_star", param: "-", arg: c3arg{op: "id", den: 1}})
	}
	j.cells = c3sprinkleEmptyBatches(r, j.cells, j.n)
}

// c3mixedRowOf: the row maker of families M / H; bare: a missing cell is an event without any column.
func c3mixedRowOf(bare bool) func(i int, c c3val) map[string]any {
	if !bare {
		return c3mixedRow
	}
	return func(i int, c c3val) map[string]any {
		if c.missing {
			return map[string]any{}
		}
		return c3mixedRow(i, c)
	}
}
