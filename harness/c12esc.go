package main

// C12 — escaped string literals in the shortcut shapes (T / E / Q lines of c12.go).
// expr-lang unescapes a quoted literal: \\ \t \n ..., and the numeric forms \xHH, \ooo, \uHHHH, \u{H..},
// \UHHHHHHHH, each of which denotes a CODE POINT written as UTF-8 ('\xe9' = the two bytes of U+00E9, not
// the byte 0xE9 that Go's strconv.Unquote yields). The shortcut must not read such a literal in any other
// way (the code declines every literal with a backslash). The rows therefore carry, for the compared
// column, BOTH readings of the literal - the code-point reading and the byte reading -, the raw text
// between the quotes and neighbours of them, so that a shortcut that decodes the literal differently
// from the general evaluator answers differently from the parenthesised form on a concrete row.

import (
	"fmt"
	"sort"
	"strings"
	"sync"
	"unicode/utf8"
)

// one piece of a literal: its text between the quotes, the code-point reading, the byte reading
type c12Seg struct {
	text, code, raw string
	bad            bool // expr-lang does not compile a literal with this piece
}

func c12Rune(v uint32) string {
	if v > utf8.MaxRune || (v >= 0xD800 && v <= 0xDFFF) {
		return "\uFFFD"
	}
	return string(rune(v))
}

func c12HexCase(rng *RNG, s string) string {
	switch rng.Intn(3) {
	case 0:
		return strings.ToUpper(s)
	case 1:
		return strings.ToLower(s)
	}
	b := []byte(s)
	for i := range b {
		if rng.Bool() {
			b[i] = strings.ToUpper(string(b[i]))[0]
		}
	}
	return string(b)
}

func c12EscSeg(rng *RNG) c12Seg {
	byteVal := func() uint32 { // a byte value, mostly above ASCII
		switch rng.Intn(8) {
		case 0:
			return uint32(rng.Intn(128))
		case 1:
			return []uint32{0x80, 0xff, 0xe9, 0xa0, 0xc3, 0xbf, 0x7f, 0x00, 0x41, 0x27, 0x5c}[rng.Intn(11)]
		}
		return 128 + uint32(rng.Intn(128))
	}
	switch rng.Intn(12) {
	case 0, 1:
		t := []string{"a", "b", "caf", "Z", "\u00e9", " ", "0", "\u00ff", "~", "x41", "e9", "\u20ac"}[rng.Intn(12)]
		return c12Seg{text: t, code: t, raw: t}
	case 2:
		i := rng.Intn(8)
		return c12Seg{text: `\` + string(`\tnrabfv`[i]), code: string("\\\t\n\r\a\b\f\v"[i]), raw: string("\\\t\n\r\a\b\f\v"[i])}
	case 3, 4, 5:
		v := byteVal()
		return c12Seg{text: `\x` + c12HexCase(rng, fmt.Sprintf("%02x", v)), code: c12Rune(v), raw: string([]byte{byte(v)})}
	case 6, 7:
		v := byteVal()
		return c12Seg{text: fmt.Sprintf(`\%03o`, v), code: c12Rune(v), raw: string([]byte{byte(v)})}
	case 8:
		v := []uint32{0xe9, 0xff, 0x80, 0x41, 0x20ac, 0xd800, 0xdfff, 0xffff, 0xfffd, 0x7ff, 0x800, uint32(rng.Intn(0x10000))}[rng.Intn(12)]
		return c12Seg{text: `\u` + c12HexCase(rng, fmt.Sprintf("%04x", v)), code: c12Rune(v), raw: c12Rune(v)}
	case 9:
		v := []uint32{0xe9, 0x41, 0x1f600, 0x10ffff, 0xff, 0x80, 0xd800, uint32(rng.Intn(0x110000))}[rng.Intn(8)]
		f := []string{"%x", "%06x", "%X"}[rng.Intn(3)]
		return c12Seg{text: `\u{` + fmt.Sprintf(f, v) + `}`, code: c12Rune(v), raw: c12Rune(v)}
	case 10:
		v := []uint32{0xe9, 0x1f600, 0x10ffff, 0xff, 0x41, 0x80000041, 0xffffffe9, 0x800000ff, uint32(rng.Intn(0x110000))}[rng.Intn(9)]
		s := c12Rune(v)
		if v >= 0x80000000 { // negative as a rune: expr-lang writes byte(v)
			s = string([]byte{byte(v)})
		}
		return c12Seg{text: `\U` + c12HexCase(rng, fmt.Sprintf("%08x", v)), code: s, raw: s}
	}
	t := []string{`\q`, `\x4`, `\xg1`, `\x`, `\u12`, `\u{}`, `\u{110000}`, `\u{1234567}`, `\u{e9`, `\U00110000`, `\U0000e9`, `\8`, `\400`, `\477`, `\37`,
		`\?`, `\"`, "\\`", `\X41`, `\0`, `\08`, `\1`, `\e`, `\ `, `\x e9`}[rng.Intn(25)]
	return c12Seg{text: t, code: t, raw: t, bad: true}
}

type c12EscLit struct{ text, code, raw string }

func c12EscLitOf(segs ...c12Seg) c12EscLit {
	var l c12EscLit
	for _, s := range segs {
		l.text += s.text
		l.code += s.code
		l.raw += s.raw
	}
	return l
}

// the values of the compared column for one literal: both readings, the raw text, neighbours, other kinds
func c12EscVals(l c12EscLit) []any {
	ss := []string{l.code, l.raw, l.text, l.code + "a", l.raw + "\x00", "", "a"}
	if n := len(l.code); n > 0 {
		ss = append(ss, l.code[:n-1])
	}
	if n := len(l.raw); n > 0 {
		ss = append(ss, l.raw[:n-1]+"\xff")
	}
	seen := map[string]bool{}
	var vs []any
	for _, s := range ss {
		if !seen[s] {
			seen[s] = true
			vs = append(vs, s)
		}
	}
	return append(vs, nil, 5)
}

func runC12Esc(tier string, seed uint64, o *Out) error {
	rng := NewRNG(seed ^ 0xE5CA9ED11)
	emit := func(text string, rows []map[string]any) {
		o.Line("C12 T %s # %s", hx(text), c12Shape(text))
		c := c12Compile(text)
		if c.plain == nil && c.paren == nil {
			o.Line("C12 E %s%s # %s", hx(text), c12Row(rows[0]), c12Eval(c, rows[0]))
			o.Count("escape_compile_error")
			return
		}
		for _, row := range rows {
			o.Line("C12 E %s%s # %s", hx(text), c12Row(row), c12Eval(c, row))
		}
	}
	rowsOf := func(l c12EscLit, chain bool) []map[string]any {
		var rows []map[string]any
		for i, v := range c12EscVals(l) {
			row := map[string]any{"x": v}
			if chain {
				row["y"] = 1 + i%2
			}
			rows = append(rows, row)
			if chain && i < 2 { // both readings with both values of the other column
				rows = append(rows, map[string]any{"x": v, "y": 2 - i%2})
			}
		}
		if chain {
			rows = append(rows, map[string]any{"y": 1})
		} else {
			rows = append(rows, map[string]any{})
		}
		return rows
	}
	// (a) systematic: one numeric escape alone and behind a plain prefix, every operator spelling
	var sys []c12EscLit
	for _, v := range []uint32{0x80, 0x9f, 0xa0, 0xe9, 0xff, 0x7f, 0x41, 0x00} {
		b := string([]byte{byte(v)})
		for _, pre := range []string{"", "caf"} {
			p := c12Seg{text: pre, code: pre, raw: pre}
			sys = append(sys,
				c12EscLitOf(p, c12Seg{text: fmt.Sprintf(`\x%02x`, v), code: c12Rune(v), raw: b}),
				c12EscLitOf(p, c12Seg{text: fmt.Sprintf(`\%03o`, v), code: c12Rune(v), raw: b}))
		}
	}
	sys = append(sys,
		c12EscLitOf(c12Seg{text: `C:\\temp`, code: `C:\temp`, raw: `C:\temp`}),
		c12EscLitOf(c12Seg{text: `tab\there`, code: "tab\there", raw: "tab\there"}),
		c12EscLitOf(c12Seg{text: `\u00e9`, code: "\u00e9", raw: "\u00e9"}),
		c12EscLitOf(c12Seg{text: `\xC3\xA9`, code: "\u00c3\u00a9", raw: "\u00e9"}), // the bytes of é, each read as a code point
		c12EscLitOf(c12Seg{text: `\303\251`, code: "\u00c3\u00a9", raw: "\u00e9"}),
	)
	for _, l := range sys {
		for _, op := range c12Ops {
			emit("x "+op+" '"+l.text+"'", rowsOf(l, false))
		}
		emit("x == '"+l.text+"' && y == 1", rowsOf(l, true))
		emit("y == 1 || x != '"+l.text+"'", rowsOf(l, true))
		o.Count("escape_systematic")
	}
	// (b) random literals of 1-3 pieces, random layout, alone and inside a flat chain
	n := 220
	if tier == "thorough" {
		n = 4000
	}
	spaces := []string{"", " ", "  ", "\t"}
	sp := func() string { return spaces[rng.Intn(len(spaces))] }
	randLit := func() c12EscLit {
		k := 1 + rng.Intn(3)
		segs := make([]c12Seg, 0, k)
		for len(segs) < k {
			s := c12EscSeg(rng)
			if s.bad && rng.Intn(3) != 0 { // keep most literals compilable
				continue
			}
			if strings.Contains(s.text, "'") {
				continue
			}
			segs = append(segs, s)
		}
		return c12EscLitOf(segs...)
	}
	cmp := func(f string, l c12EscLit) string {
		op := c12Ops[rng.Intn(6)]
		if rng.Intn(12) == 0 {
			op = c12Ops[rng.Intn(8)]
		}
		return sp() + f + sp() + op + sp() + "'" + l.text + "'" + sp()
	}
	for i := 0; i < n; i++ {
		l := randLit()
		emit(cmp("x", l), rowsOf(l, false))
		var text string
		switch rng.Intn(5) {
		case 0:
			text = cmp("x", l) + "&&" + sp() + "y == 1"
		case 1:
			text = "y == 1" + sp() + "||" + cmp("x", l)
		case 2:
			text = "y != 1 &&" + cmp("x", l)
		case 3:
			text = cmp("x", l) + "||" + cmp("x", randLit())
		default:
			text = "y >= 2 ||" + cmp("x", l) + "|| y < 0"
		}
		emit(text, rowsOf(l, true))
		o.Count("escape_random")
	}
	// (c) the same through SQL: WHERE and HAVING, bare and parenthesised
	type sqlEsc struct {
		sql, model string
		l          c12EscLit
	}
	mk := func(op, mop string, l c12EscLit) sqlEsc {
		return sqlEsc{"x " + op + " '" + l.text + "'", "x " + mop + " '" + l.text + "'", l}
	}
	e9 := c12EscLit{`caf\xe9`, "caf\u00e9", "caf\xe9"}
	o377 := c12EscLit{`\377`, "\u00ff", "\xff"}
	x80 := c12EscLit{`a\x80`, "a\u0080", "a\x80"}
	tab := c12EscLit{`tab\there`, "tab\there", "tab\there"}
	u := c12EscLit{`\u00e9`, "\u00e9", "\u00e9"}
	sqls := []sqlEsc{mk("=", "==", e9), mk("!=", "!=", e9), mk(">=", ">=", e9), mk("<", "<", o377), mk("==", "==", o377), mk("<=", "<=", x80), mk("=", "==", tab), mk("==", "==", u)}
	{
		v := 128 + uint32(rng.Intn(128))
		l := c12EscLit{fmt.Sprintf(`k\x%02x`, v), "k" + c12Rune(v), "k" + string([]byte{byte(v)})}
		i := rng.Intn(4)
		sqls = append(sqls, mk([]string{"=", "!=", ">", "<="}[i], []string{"==", "!=", ">", "<="}[i], l))
		w := 128 + uint32(rng.Intn(128))
		l = c12EscLit{fmt.Sprintf(`\%03o`, w), c12Rune(w), string([]byte{byte(w)})}
		i = rng.Intn(4)
		sqls = append(sqls, mk([]string{"=", "<>", "<", ">="}[i], []string{"==", "!=", "<", ">="}[i], l))
	}
	var mu sync.Mutex
	var lines []string
	var wg sync.WaitGroup
	var firstErr error
	sem := make(chan struct{}, 12)
	for _, p := range sqls {
		p := p
		wg.Add(1)
		sem <- struct{}{}
		go func() {
			defer wg.Done()
			defer func() { <-sem }()
			ls, err := c12SQL(p.sql, p.model, c12EscVals(p.l))
			mu.Lock()
			lines = append(lines, ls...)
			if err != nil && firstErr == nil {
				firstErr = err
			}
			mu.Unlock()
		}()
	}
	wg.Wait()
	if firstErr != nil {
		return firstErr
	}
	sort.Strings(lines)
	for _, l := range lines {
		o.Line("%s", l)
	}
	o.Count(fmt.Sprintf("escape_sql_predicates_%d", len(sqls)))
	return nil
}
