package main

// C20, third file: two generated families added after seeded changes that the first two files missed.
//
// (1) NESTED-ARGUMENT FUNCTION family of the caller-unchanged check (U/S/A lines, kinds nestfn_*).  A
//     function argument that names a column is looked up in the row and handed to the function BY
//     REFERENCE (copyRow / the JOIN copy are shallow on purpose), so a function that reorders, filters,
//     sorts, appends to or writes into its slice / map argument does so inside the caller's memory.  The
//     registry is enumerated at run time; EVERY registered function (scalar, analytic, aggregate) is called
//     with every argument list of a shape table that fits its declared arity - first argument a nested
//     column ([]any with duplicates and the searched element in the middle, []any of numbers, typed
//     []string / []int, a list of objects, a map, a map holding a list, a JSON text), further arguments an
//     element that occurs / a second overlapping list / a key / an index - through EmitSync AND Emit (direct
//     path), sampled again nested inside another call, behind a JOIN and inside a window aggregate;
//     aggregates through counting windows.  Errors are ignored (a function may reject a shape).  Every
//     slice of the caller's row has SPARE CAPACITY filled with sentinels and the deep snapshot covers the
//     whole capacity, so an append into the caller's backing array is seen as well.
//
// (2) TYPED-BRIDGE paired family (P lines, kinds typed_bridge_*): two instances evaluate the SAME
//     expression text over DIFFERENTLY TYPED rows (strings in one, numbers in the other; both orders;
//     int vs float) at every site whose expression goes through the process-wide expression bridge:
//     argument of an analytic function, inner expression of a window aggregate, an analytic call inside
//     an arithmetic expression (wrapper text with placeholders), post-aggregation expression (placeholder
//     names are the same in every instance), expression group key, argument of a scalar function, CASE
//     condition, WHERE with an analytic call.  Column names are fresh per case, so the first evaluation
//     of the text in the whole process is the one the schedule chooses (the whole of one instance first,
//     the other created afterwards; or interleaved).  Each instance is compared with its solo run in a
//     FRESH CHILD PROCESS (runner C20solo), because a memo table the reset hook does not know about
//     survives any in-process "solo" run.
//     TYPE-SPECIALISED part (kinds typed_bridge_spec_*, c20TEqSpecs): the expression holds a construct
//     that expr-lang compiles to a type-specific form (== / != over two ints or two strings, x in
//     [literals]); the first instance feeds ints (or strings) and runs before the second, which feeds
//     float64 / another type, is created: the cached program FAILS at run time on every row of the
//     second instance, whose results must still be those of a fresh process.

import (
	"fmt"
	"os"
	"reflect"
	"sort"
	"strconv"
	"strings"
	"time"

	"github.com/expr-lang/expr/builtin"
	"github.com/rulego/streamsql"
	"github.com/rulego/streamsql/functions"
)

// ---------------------------------------------------------------- (1) nested-argument functions

const c20CapMark = "|cap|"

// spare: a []any with three unused slots behind its length, filled with sentinels
func c20Spare(xs ...any) []any {
	s := make([]any, len(xs), len(xs)+3)
	copy(s, xs)
	t := s[:cap(s)]
	for i := len(xs); i < cap(s); i++ {
		t[i] = "~spare" + strconv.Itoa(i-len(xs))
	}
	return s
}

// capView: a copy of v in which every slice is followed by a marker and the content of its spare
// capacity; enc(capView(v)) is the deep snapshot of everything the value's memory holds
func c20CapView(v any, d int) any {
	if v == nil || d > 24 {
		return v
	}
	switch x := v.(type) {
	case map[string]any:
		m := make(map[string]any, len(x))
		for k, vv := range x {
			m[k] = c20CapView(vv, d+1)
		}
		return m
	case string, int, int64, float64, bool:
		return v
	}
	rv := reflect.ValueOf(v)
	switch rv.Kind() {
	case reflect.Slice:
		if rv.IsNil() {
			return v
		}
		full := rv.Slice(0, rv.Cap())
		out := make([]any, 0, full.Len()+1)
		for i := 0; i < full.Len(); i++ {
			if i == rv.Len() {
				out = append(out, c20CapMark)
			}
			out = append(out, c20CapView(full.Index(i).Interface(), d+1))
		}
		return out
	case reflect.Map:
		if rv.Type().Key().Kind() != reflect.String {
			return v
		}
		m := make(map[string]any, rv.Len())
		it := rv.MapRange()
		for it.Next() {
			m[it.Key().String()] = c20CapView(it.Value().Interface(), d+1)
		}
		return m
	}
	return v
}

func c20Snap(r map[string]any) string { return enc(c20CapView(r, 0)) }

// the caller's row of this family.  'a' sits in the middle of tags, twice, and not at the end; nums is
// unsorted with a repeated element; every list has spare capacity
func c20NRow(rng *RNG, i int) map[string]any {
	strs := make([]string, 4, 6)
	copy(strs, []string{"b", "a", "c", "a"})
	copy(strs[:6][4:], []string{"~s0", "~s1"})
	ints := make([]int, 4, 6)
	copy(ints, []int{3, 1, 2, 1})
	copy(ints[:6][4:], []int{-7, -8})
	return map[string]any{
		"id": i, "v": i*10 + 10, "dev": []string{"a", "b", "Cc"}[rng.Intn(3)], "k": rng.Intn(3),
		"tags":  c20Spare("z", "a", "m", "a", "b", rng.Pick([]string{"y", "x", "w"})),
		"tags2": c20Spare("a", "q", "m", "q"),
		"nums":  c20Spare(3.0, 1.0, 2.0, 1.0, 5.0, float64(rng.Intn(3)+6)), // float64 as JSON-decoded rows carry (a numeric literal argument is a float64)
		"inums": c20Spare(3, 1, 2, 1, 5),
		"strs":  strs,
		"ints":  ints,
		"objs": c20Spare(map[string]any{"k": "x", "w": 2}, map[string]any{"k": "y", "w": 1},
			map[string]any{"k": "x", "w": 2}, map[string]any{"k": "a", "w": 0, "sub": c20Spare(2, 1)}),
		"nest": map[string]any{"p": rng.Intn(5), "a": "va", "arr": c20Spare("c", "a", "b", "a"),
			"q": c20Spare(3, 1, 2, map[string]any{"deep": c20Spare("x")}), "r": map[string]any{"s": "t"}},
		"js": `{"a":[3,1,2],"p":{"c":1},"k":"v"}`,
	}
}

// argument lists by arity (texts as they appear in SQL)
var c20NShapes = map[int][][]string{
	1: {{"tags"}, {"nums"}, {"inums"}, {"nest"}, {"objs"}, {"strs"}, {"ints"}, {"nest.arr"}, {"js"}, {"dev"}},
	2: {{"tags", "'a'"}, {"tags", "1"}, {"tags", "tags2"}, {"tags2", "tags"}, {"nums", "1"}, {"nums", "nums"},
		{"strs", "'a'"}, {"ints", "1"}, {"nest", "'p'"}, {"nest", "'a'"}, {"nest", "nest"}, {"objs", "'k'"},
		{"objs", "objs"}, {"js", "'$.a'"}, {"'a'", "tags"}, {"true", "tags"}, {"true", "nest"}, {"nest.arr", "'a'"}, {"tags", "tags"}, {"inums", "1"}},
	3: {{"tags", "'a'", "'b'"}, {"tags", "1", "2"}, {"nums", "1", "9"}, {"nest", "'p'", "1"}, {"true", "tags", "nest"},
		{"tags", "tags2", "nums"}, {"strs", "'a'", "'b'"}, {"tags", "2", "'_'"}},
}

type c20NFn struct {
	name     string
	agg      bool
	analytic bool
	min, max int
}

func c20NFns() []c20NFn {
	var fs []c20NFn
	for n, f := range functions.ListAll() {
		_, agg := f.(functions.AggregatorFunction)
		x := c20NFn{name: n, agg: agg || f.GetType() == functions.TypeAggregation || f.GetType() == functions.TypeWindow,
			analytic: f.GetType() == functions.TypeAnalytical, min: f.GetMinArgs(), max: f.GetMaxArgs()}
		if n == "expression" { // the internal carrier of post-aggregation expressions, not callable from SQL
			continue
		}
		fs = append(fs, x)
	}
	sort.Slice(fs, func(i, j int) bool { return fs[i].name < fs[j].name })
	return fs
}

func (f c20NFn) arities() []int {
	lo, hi := f.min, f.max
	if lo < 1 {
		lo = 1
	}
	if hi < 0 || hi > 3 {
		hi = 3
	}
	var as []int
	for a := lo; a <= hi; a++ {
		as = append(as, a)
	}
	return as
}

type c20NRes struct {
	accepted bool // the engine took the SQL and the first call did not fail
	results  int  // result rows seen
}

// one query of the family: rows through EmitSync ("sync") or Emit ("async": wait for `want` results, at
// most 300 ms - a late result can only hide a write, never invent one).  U lines use the capacity-wide
// snapshot; S and A lines as in c20RunUG.
func c20RunN(rng *RNG, kind, sql, mode string, join bool, nrows, want int, o *Out) c20NRes {
	s, err := c20Open(sql, join)
	if err != nil {
		return c20NRes{}
	}
	coll := &c20Coll{}
	s.AddSyncSink(coll.sink)
	type pr struct {
		m    map[string]any
		snap string
	}
	var rows []pr
	var syncRes []map[string]any
	res := c20NRes{accepted: true}
	for i := 0; i < nrows; i++ {
		r := c20NRow(rng, i)
		rows = append(rows, pr{r, c20Snap(r)})
		if mode == "sync" {
			out, err := c20SafeEmitSync(s, r)
			if err != nil {
				if i == 0 {
					res.accepted = false
				}
				continue
			}
			if out != nil {
				syncRes = append(syncRes, out)
				res.results++
			}
		} else {
			s.Emit(r)
		}
	}
	if mode != "sync" {
		waitFor(func() bool { return coll.n() >= want }, 300*time.Millisecond)
		time.Sleep(time.Millisecond)
		res.results = coll.n()
	}
	s.Stop()
	w := "r"
	if res.results > 0 {
		w = "w" // counted as non-trivial: the function ran on the nested argument and delivered a row
	}
	afterCall := make([]string, len(rows))
	for i, r := range rows {
		afterCall[i] = c20Snap(r.m)
		o.Line("C20 U %s %s %s %s %s %s", kind, mode, w, hxs(sql), r.snap, afterCall[i])
	}
	coll.mu.Lock()
	for i, r := range coll.rows {
		if i >= 4 {
			break
		}
		o.Line("C20 S %s %s %s %s", kind, hxs(sql), coll.snaps[i], enc(r))
	}
	poke := func(r map[string]any) {
		ks := make([]string, 0, len(r))
		for key := range r {
			ks = append(ks, key)
		}
		for _, key := range ks {
			r[key] = "__poked__"
		}
		r["__poke__"] = 1
	}
	for _, r := range coll.rows {
		poke(r)
	}
	coll.mu.Unlock()
	for _, r := range syncRes {
		poke(r)
	}
	// A: what overwriting the delivered rows did to the caller's rows (against their state after the call,
	// so that a write the U line reports is not reported a second time under another name)
	for i, r := range rows {
		o.Line("C20 A %s %s %s %s %s", kind, mode, hxs(sql), afterCall[i], c20Snap(r.m))
	}
	return res
}

func c20RunNestedFnFamily(rng *RNG, tier string, o *Out) error {
	fns := c20NFns()
	if len(fns) < 40 {
		return fmt.Errorf("nested-argument family: the registry lists only %d functions", len(fns))
	}
	thorough := tier == "thorough"
	called, accepted, delivered := 0, 0, 0
	fnsDelivered := map[string]bool{}
	for _, f := range fns {
		for _, ar := range f.arities() {
			for _, args := range c20NShapes[ar] {
				call := f.name + "(" + strings.Join(args, ",") + ")"
				kind := "nestfn_" + call
				called++
				if f.agg {
					// quick: arity 3 only where the function demands it, arity 2 with a nested first argument
					if !thorough && (ar == 3 && f.min < 3 || ar == 2 && (strings.HasPrefix(args[0], "'") || args[0] == args[1] || args[0] == "js" || args[0] == "tags2")) {
						continue
					}
					sql := "SELECT " + call + " AS r, count(*) AS c FROM stream GROUP BY CountingWindow(2)"
					r := c20RunN(rng, kind, sql, "async", false, 4, 2, o)
					if r.accepted {
						accepted++
					}
					if r.results > 0 {
						delivered++
						fnsDelivered[f.name] = true
						o.Count("U_nestfn_aggregate_window")
					}
					continue
				}
				sql := "SELECT id, " + call + " AS r FROM stream"
				r := c20RunN(rng, kind, sql, "sync", false, 2, 0, o)
				if !r.accepted {
					continue
				}
				accepted++
				if r.results == 0 {
					continue
				}
				delivered++
				fnsDelivered[f.name] = true
				o.Count("U_nestfn_sync")
				// Emit: every delivered sync case whose first argument is nested (quick: the others sampled)
				if thorough || args[0] != "dev" && args[0] != "js" && args[0] != "'a'" || rng.Intn(3) == 0 {
					c20RunN(rng, kind, sql, "async", false, 2, r.results, o)
					o.Count("U_nestfn_async")
				}
				// the same call elsewhere: nested in another call, behind a JOIN, inside a window aggregate
				if f.analytic {
					continue
				}
				pick := rng.Intn(12)
				if thorough {
					pick = rng.Intn(3)
				}
				switch pick {
				case 0:
					wr := rng.Pick([]string{"to_json", "is_null", "coalesce", "concat"})
					sqlw := "SELECT id, " + wr + "(" + call + ") AS r FROM stream"
					if c20RunN(rng, kind+"_in_"+wr, sqlw, "sync", false, 2, 0, o).results > 0 {
						o.Count("U_nestfn_nested_call")
					}
				case 1:
					sqlj := "SELECT id, " + call + " AS r, m.c AS c FROM stream JOIN meta m ON k = m.k"
					if c20RunN(rng, kind+"_join", sqlj, "sync", true, 2, 0, o).results > 0 {
						o.Count("U_nestfn_join")
					}
				case 2:
					ag := rng.Pick([]string{"last_value", "collect", "first_value"})
					sqlg := "SELECT " + ag + "(" + call + ") AS r FROM stream GROUP BY CountingWindow(2)"
					if c20RunN(rng, kind+"_in_"+ag, sqlg, "async", false, 4, 2, o).results > 0 {
						o.Count("U_nestfn_window")
					}
				}
			}
		}
	}
	o.Dist["U_nestfn_calls_generated"] = called
	o.Dist["U_nestfn_calls_accepted"] = accepted
	o.Dist["U_nestfn_calls_delivered"] = delivered
	o.Dist["U_nestfn_functions_delivered"] = len(fnsDelivered)
	if len(fnsDelivered) < len(fns)/2 {
		return fmt.Errorf("nested-argument family: only %d of %d registered functions delivered a row for any argument shape", len(fnsDelivered), len(fns))
	}
	return nil
}

// ---------------------------------------------------------------- (2) typed-bridge paired family
type c20TSpec struct {
	Kind string
	SqlA string
	SqlB string
	TypA string // "str" | "num" | "flt"
	TypB string
	Cols []string
	Sync bool // EmitSync (direct queries); else Emit + counting window of size Win
	Win  int
	N    int
}

var c20TWords = []string{"dev", "-01", "ab", "7", "12", "Zz", "q", "x y"}

// rows of one instance: a function of (seed, inst, typ, cols) only (parent and child build the same)
func c20TRows(seed uint64, inst, n int, typ string, cols []string) []map[string]any {
	rng := NewRNG((seed ^ uint64(inst+1)*0xC2B2AE3D27D4EB4F) * 0x9FB21C651E98DF25)
	rows := make([]map[string]any, n)
	for i := range rows {
		r := map[string]any{"id": i, "dev": rng.Pick([]string{"a", "b"})}
		for _, c := range cols {
			switch typ {
			case "str":
				r[c] = rng.Pick(c20TWords)
			case "flt":
				r[c] = float64(rng.Intn(160)+1) / 4
			// small domains of the type-specialised family (c20TEqSpecs): the literals 1..4 / 'ab', 'q', '1', '2'
			// of the expressions both occur and are missed
			case "sint":
				r[c] = rng.Intn(5) + 1
			case "sflt": // what a JSON decoder makes of small integers, and a few halves
				r[c] = float64(rng.Intn(5) + 1)
				if rng.Intn(5) == 0 {
					r[c] = float64(rng.Intn(10)+1) / 2
				}
			case "sstr":
				r[c] = rng.Pick([]string{"ab", "q", "1", "2", "Zz", "3"})
			default:
				r[c] = rng.Intn(40) + 1
			}
		}
		rows[i] = r
	}
	return rows
}

// one run of 1 or 2 instances of the family; sync: EmitSync, an instance is created right before its
// first row when lazy
func c20TRun(sqls []string, rows [][]map[string]any, ord []int, lazy, syncMode bool, win int) ([]string, error) {
	if !syncMode {
		return c20FRun(sqls, rows, ord, lazy, win, false)
	}
	n := len(sqls)
	ss := make([]*streamsql.Streamsql, n)
	outs := make([][]string, n)
	defer func() {
		for _, s := range ss {
			if s != nil {
				s.Stop()
			}
		}
	}()
	open := func(i int) error {
		s, err := c20Open(sqls[i], false)
		if err != nil {
			return err
		}
		ss[i] = s
		return nil
	}
	if !lazy {
		for i := range sqls {
			if err := open(i); err != nil {
				return nil, err
			}
		}
	}
	one := func(i int, r map[string]any) error {
		if ss[i] == nil {
			if err := open(i); err != nil {
				return err
			}
		}
		res, err := c20SafeEmitSync(ss[i], deepCopy(r).(map[string]any))
		switch {
		case err != nil:
			outs[i] = append(outs[i], "e")
		case res == nil:
			outs[i] = append(outs[i], "-")
		default:
			outs[i] = append(outs[i], enc(res))
		}
		return nil
	}
	pos := make([]int, n)
	for _, w := range ord {
		if w < n && pos[w] < len(rows[w]) {
			if err := one(w, rows[w][pos[w]]); err != nil {
				return nil, err
			}
			pos[w]++
		}
	}
	for i := 0; i < n; i++ {
		for ; pos[i] < len(rows[i]); pos[i]++ {
			if err := one(i, rows[i][pos[i]]); err != nil {
				return nil, err
			}
		}
	}
	res := make([]string, n)
	for i := range sqls {
		res[i] = "l[" + strings.Join(outs[i], ",") + "]"
	}
	return res, nil
}

func c20TAccepts(sql string) bool { return c20FAccepts(sql) }

// the specs of one round
func c20TSpecs(rng *RNG, tier string) []c20TSpec {
	var analytic1, aggs1 []string
	for n, f := range functions.ListAll() {
		if f.GetMinArgs() > 1 {
			continue
		}
		if _, p := f.(functions.ParameterizedFunction); p {
			continue
		}
		switch {
		case f.GetType() == functions.TypeAnalytical:
			analytic1 = append(analytic1, n)
		case f.GetType() == functions.TypeAggregation && n != "count" && n != "merge_agg":
			aggs1 = append(aggs1, n)
		}
	}
	sort.Strings(analytic1)
	sort.Strings(aggs1)
	keep := []string{"first_value", "last_value", "max", "min"} // aggregates that hand a string through
	serial := 0
	fresh := func() []string {
		serial++
		t := fmt.Sprintf("%c%d", 'f'+rune(rng.Intn(15)), serial)
		return []string{t + "u", t + "v", t + "w"}
	}
	// expression over the fresh columns; '+' is the operator whose meaning depends on the operand types
	expr := func(c []string) string {
		switch rng.Intn(8) {
		case 0:
			return c[1] + " + " + c[0]
		case 1:
			return c[0] + " + " + c[1] + " + " + c[2]
		case 2:
			return c[0] + "+" + c[1]
		case 3:
			return c[0] + " + " + c[1] + " * 2"
		default:
			return c[0] + " + " + c[1]
		}
	}
	var ps []c20TSpec
	add := func(site string, mk func(c []string) (string, bool, int)) {
		typs := [][2]string{{"str", "num"}, {"num", "str"}}
		if rng.Intn(3) == 0 {
			typs = append(typs, [][2]string{{"str", "flt"}, {"num", "flt"}, {"flt", "num"}, {"str", "str"}}[rng.Intn(4)])
		}
		for _, t := range typs {
			c := fresh()
			sql, syncMode, win := mk(c)
			if !c20TAccepts(sql) {
				continue
			}
			n := 5 + rng.Intn(3)
			if !syncMode && win > 1 {
				n = win*2 + rng.Intn(win)
			}
			ps = append(ps, c20TSpec{"typed_bridge_" + site + "_" + t[0] + "_" + t[1], sql, sql, t[0], t[1], c, syncMode, win, n})
		}
	}
	reps := 1
	if tier == "thorough" {
		reps = 4
	}
	for r := 0; r < reps; r++ {
		add("analytic_argument", func(c []string) (string, bool, int) {
			return "SELECT id, " + rng.Pick(analytic1) + "(" + expr(c) + ") AS r FROM stream", true, 1
		})
		add("analytic_argument", func(c []string) (string, bool, int) {
			return "SELECT id, " + rng.Pick(analytic1) + "(" + c[0] + " + " + c[1] + ") AS r, " + c[0] + " AS o FROM stream", true, 1
		})
		add("window_aggregate_expression", func(c []string) (string, bool, int) {
			w := 2 + rng.Intn(2)
			return "SELECT " + rng.Pick(aggs1) + "(" + expr(c) + ") AS r, count(*) AS c FROM stream GROUP BY CountingWindow(" + strconv.Itoa(w) + ")", false, w
		})
		add("window_aggregate_expression", func(c []string) (string, bool, int) {
			return "SELECT sum(" + c[0] + " + " + c[1] + ") AS r, collect(" + c[0] + " + " + c[1] + ") AS l FROM stream GROUP BY CountingWindow(2)", false, 2
		})
		add("analytic_wrapper", func(c []string) (string, bool, int) {
			f := rng.Pick([]string{"lag", "latest", "acc_sum", "acc_max"})
			if rng.Bool() {
				return "SELECT id, " + f + "(" + c[0] + ") + " + c[1] + " AS r FROM stream", true, 1
			}
			return "SELECT id, " + c[1] + " + " + f + "(" + c[0] + ") AS r FROM stream", true, 1
		})
		add("post_aggregation", func(c []string) (string, bool, int) {
			return "SELECT " + rng.Pick(keep) + "(" + c[0] + ") + " + rng.Pick(keep) + "(" + c[1] + ") AS r FROM stream GROUP BY CountingWindow(2)", false, 2
		})
		add("post_aggregation", func(c []string) (string, bool, int) {
			g1, g2 := rng.Pick(keep), rng.Pick(keep)
			return "SELECT " + g1 + "(" + c[0] + ") AS p, " + g1 + "(" + c[0] + ") + " + g2 + "(" + c[1] + ") + " + rng.Pick(keep) + "(" + c[2] + ") AS r FROM stream GROUP BY CountingWindow(3)", false, 3
		})
		add("group_key_expression", func(c []string) (string, bool, int) {
			e := c[0] + " + " + c[1]
			return "SELECT " + e + " AS g, count(*) AS c, last_value(id) AS lid FROM stream GROUP BY " + e + ", CountingWindow(1)", false, 1
		})
		add("scalar_argument", func(c []string) (string, bool, int) {
			t := rng.Pick([]string{"upper(%s)", "concat(%s, 'k')", "length(%s)", "coalesce(%s, 0)"})
			return "SELECT id, " + strings.ReplaceAll(t, "%s", expr(c)) + " AS r FROM stream", true, 1
		})
		add("case_condition", func(c []string) (string, bool, int) {
			return "SELECT id, CASE WHEN " + expr(c) + " > 25 THEN 1 ELSE 0 END AS r FROM stream", true, 1
		})
		add("where_analytic_wrapper", func(c []string) (string, bool, int) {
			return "SELECT id FROM stream WHERE lag(" + c[0] + ") + " + c[1] + " > 25", true, 1
		})
		add("projection", func(c []string) (string, bool, int) { // control: the per-stream fast path
			return "SELECT id, " + expr(c) + " AS r FROM stream", true, 1
		})
	}
	return ps
}

// TYPE-SPECIALISED constructs (kinds typed_bridge_spec_<site>_<typeA>_<typeB>): expr-lang compiles
// "a == b" / "a != b" over two ints to an int-only opcode (two strings: a string-only opcode) and
// "x in [int literals]" over an int x to a lookup in a map[int]struct{}; the static types are those of
// the VALUES of the row the text is first compiled against, and the compiled program is cached
// process-wide by the text alone.  Instance A feeds ints (or strings) and runs completely BEFORE instance
// B is created; B feeds another type of the same columns (float64 = what a JSON decoder produces,
// strings, ints).  A program specialised on A's rows fails at run time on B's rows; what B then reports
// must be what it reports in a fresh process.
var c20TEqGenerated, c20TEqAccepted int

func c20TEqSpecs(rng *RNG, tier string, serial0 int) []c20TSpec {
	serial := serial0
	fresh := func() []string {
		serial++
		t := fmt.Sprintf("%c%d", 'f'+rune(rng.Intn(15)), serial)
		return []string{t + "p", t + "q", t + "r"}
	}
	lit := func(typ string) string {
		if typ == "sstr" {
			return "'" + rng.Pick([]string{"ab", "q", "1", "2"}) + "'"
		}
		return strconv.Itoa(rng.Intn(4) + 1)
	}
	// a condition whose compiled form depends on the static type of the column(s): typ = type of A's rows
	cond := func(c []string, typ string) string {
		l1, l2, l3 := lit(typ), lit(typ), lit(typ)
		switch rng.Intn(9) {
		case 0:
			return c[0] + " != " + l1
		case 1:
			return c[0] + " in [" + l1 + ", " + l2 + "]"
		case 2:
			return c[0] + " in [" + l1 + ", " + l2 + ", " + l3 + "]"
		case 3:
			return c[0] + " == " + c[1]
		case 4:
			return c[0] + " != " + c[1]
		case 5:
			return l1 + " == " + c[0]
		case 6:
			return c[0] + " == " + l1 + " || " + c[1] + " == " + l2
		default:
			return c[0] + " == " + l1
		}
	}
	// registered scalar functions that share their name with an expr-lang builtin; quick: concat (F74) and
	// two others
	all := functions.ListAll()
	var shadowed []string
	for _, b := range builtin.Builtins {
		if f, ok := all[b.Name]; ok && f.GetMinArgs() >= 1 && f.GetType() != functions.TypeAggregation &&
			f.GetType() != functions.TypeAnalytical && f.GetType() != functions.TypeWindow {
			shadowed = append(shadowed, b.Name)
		}
	}
	sort.Strings(shadowed)
	if tier != "thorough" && len(shadowed) > 3 {
		pick := map[string]bool{"concat": all["concat"] != nil}
		for len(pick) < 3 {
			pick[rng.Pick(shadowed)] = true
		}
		var keep []string
		for _, f := range shadowed {
			if pick[f] {
				keep = append(keep, f)
			}
		}
		shadowed = keep
	}
	var ps []c20TSpec
	add := func(site string, mk func(c []string, typ string) (string, bool, int)) {
		typs := [][2]string{{"sint", "sflt"}}
		if site != "shadowed_builtin_call" {
			switch rng.Intn(4) {
			case 0:
				typs = append(typs, [2]string{"sint", "sstr"})
			case 1:
				typs = append(typs, [2]string{"sstr", "sint"})
			case 2:
				typs = append(typs, [2]string{"sstr", "sflt"})
			}
		}
		if tier == "thorough" {
			typs = [][2]string{{"sint", "sflt"}, {"sint", "sstr"}, {"sstr", "sint"}, {"sstr", "sflt"}, {"sflt", "sint"}}
		}
		for _, t := range typs {
			c := fresh()
			sql, syncMode, win := mk(c, t[0])
			c20TEqGenerated++
			if !c20TAccepts(sql) {
				if os.Getenv("VERIF_DEBUG") != "" {
					fmt.Fprintln(os.Stderr, "typed_bridge_spec rejected:", sql)
				}
				continue
			}
			c20TEqAccepted++
			n := 6 + rng.Intn(3)
			if !syncMode && win > 1 {
				n = win*2 + rng.Intn(win)
			}
			ps = append(ps, c20TSpec{"typed_bridge_spec_" + site + "_" + t[0] + "_" + t[1], sql, sql, t[0], t[1], c, syncMode, win, n})
		}
	}
	reps := 1
	if tier == "thorough" {
		reps = 4
	}
	for r := 0; r < reps; r++ {
		// argument (with an operator) of a scalar function in a select item
		add("function_argument", func(c []string, typ string) (string, bool, int) {
			return "SELECT id, case_when(" + cond(c, typ) + ", 'one', 'other') AS r FROM stream", true, 1
		})
		add("function_argument", func(c []string, typ string) (string, bool, int) {
			t := rng.Pick([]string{"case_when(%s, " + c[1] + ", 0)", "coalesce(%s, 'z')", "if_null(%s, 'z')", "to_json(%s)",
				"is_bool(%s)", "upper(case_when(%s, 'y', 'n'))", "greatest(case_when(%s, 7, 3), 5)"})
			return "SELECT id, " + strings.ReplaceAll(t, "%s", cond(c, typ)) + " AS r, " + c[0] + " AS o FROM stream", true, 1
		})
		// a call of a registered scalar function whose NAME is also an expr-lang builtin (concat, round, split,
		// upper, ...; computed from the two registries): the compiled program binds the name to the StreamSQL
		// function, the per-row env path the bridge retries on binds it to whatever expr-lang resolves there
		for _, f := range shadowed {
			f := f
			add("shadowed_builtin_call", func(c []string, typ string) (string, bool, int) {
				fn := all[f]
				first, more := "case_when("+cond(c, typ)+", 'a,b', ' c a ')", "'a'"
				if fn.GetType() == functions.TypeMath {
					first, more = "case_when("+cond(c, typ)+", 7, 5)", "3"
				}
				if f == "concat" && rng.Bool() {
					first = cond(c, typ)
				}
				call := f + "(" + first
				k := fn.GetMinArgs()
				if f == "concat" {
					k = 2
				}
				for i := 1; i < k; i++ {
					call += ", " + more
				}
				return "SELECT id, " + call + ") AS r FROM stream", true, 1
			})
		}
		// argument of an analytic function
		add("analytic_argument", func(c []string, typ string) (string, bool, int) {
			f := rng.Pick([]string{"lag", "latest", "had_changed", "acc_count"})
			return "SELECT id, " + f + "(" + cond(c, typ) + ") AS r FROM stream", true, 1
		})
		add("analytic_argument", func(c []string, typ string) (string, bool, int) {
			f := rng.Pick([]string{"lag", "latest", "acc_sum", "acc_max"})
			return "SELECT id, " + f + "(case_when(" + cond(c, typ) + ", 1, 0)) AS r FROM stream", true, 1
		})
		// an analytic call inside an expression (wrapper text with placeholders)
		add("analytic_wrapper", func(c []string, typ string) (string, bool, int) {
			f := rng.Pick([]string{"lag", "latest", "acc_max"})
			if rng.Bool() {
				return "SELECT id, case_when(" + f + "(" + c[0] + ") == " + lit(typ) + ", 'one', 'other') AS r FROM stream", true, 1
			}
			return "SELECT id, " + f + "(" + c[0] + ") == " + c[1] + " AS r FROM stream", true, 1
		})
		// inner expression of an aggregate in a counting window
		add("window_aggregate_expression", func(c []string, typ string) (string, bool, int) {
			w := 2 + rng.Intn(2)
			g := rng.Pick([]string{"sum", "max", "min", "avg", "last_value", "collect"})
			return "SELECT " + g + "(case_when(" + cond(c, typ) + ", 1, 0)) AS r, count(*) AS c FROM stream GROUP BY CountingWindow(" + strconv.Itoa(w) + ")", false, w
		})
		add("window_aggregate_expression", func(c []string, typ string) (string, bool, int) {
			g := rng.Pick([]string{"collect", "last_value", "first_value", "count"})
			return "SELECT " + g + "(" + cond(c, typ) + ") AS r, count(*) AS c FROM stream GROUP BY CountingWindow(2)", false, 2
		})
		// function-expression group key
		add("group_key_expression", func(c []string, typ string) (string, bool, int) {
			// (the parser accepts one-argument calls as group keys)
			e := strings.ReplaceAll(rng.Pick([]string{"to_json(%s)", "upper(to_json(%s))", "md5(to_json(%s))"}), "%s", cond(c, typ))
			return "SELECT " + e + " AS g, count(*) AS c, last_value(id) AS lid FROM stream GROUP BY " + e + ", CountingWindow(1)", false, 1
		})
		// post-aggregation expression
		add("post_aggregation", func(c []string, typ string) (string, bool, int) {
			g := rng.Pick([]string{"first_value", "last_value", "max", "min"})
			return "SELECT case_when(" + g + "(" + c[0] + ") == " + lit(typ) + ", 'one', 'other') AS r, count(*) AS c FROM stream GROUP BY CountingWindow(2)", false, 2
		})
		// WHERE through a function call
		add("where_function", func(c []string, typ string) (string, bool, int) {
			return "SELECT id, " + c[0] + " AS o FROM stream WHERE case_when(" + cond(c, typ) + ", 1, 0) == 1", true, 1
		})
		// controls: CASE expression, plain projection and plain WHERE (compiled per stream)
		add("case_condition", func(c []string, typ string) (string, bool, int) {
			return "SELECT id, CASE WHEN " + cond(c, typ) + " THEN 1 ELSE 0 END AS r FROM stream", true, 1
		})
		add("projection", func(c []string, typ string) (string, bool, int) {
			if rng.Bool() {
				return "SELECT id, " + c[0] + " AS o FROM stream WHERE " + cond(c, typ), true, 1
			}
			return "SELECT id, " + cond(c, typ) + " AS r FROM stream", true, 1
		})
	}
	return ps
}

type c20TFuture struct {
	s   string
	err error
}

func c20RunTypedBridgeFamily(rng *RNG, tier string, o *Out) error {
	specs := c20TSpecs(rng, tier)
	specs = append(specs, c20TEqSpecs(rng, tier, 1000)...)
	o.Dist["P_typed_bridge_spec_generated"] = c20TEqGenerated
	o.Dist["P_typed_bridge_spec_accepted"] = c20TEqAccepted
	type job struct {
		p      c20TSpec
		mode   string
		seed   uint64
		sa, sb chan c20TFuture
	}
	var jobs []*job
	for _, p := range specs {
		// the instance with the string rows runs first (the other is created afterwards) always; the other
		// one-sided order and a random interleaving are sampled
		first := "a_ran_before_b_was_created"
		second := "b_ran_before_a_was_created"
		if p.TypB == "str" && p.TypA != "str" {
			first, second = second, first
		}
		spec := strings.HasPrefix(p.Kind, "typed_bridge_spec_") // A (ints or strings) fills the cache first, always
		modes := []string{first}
		if tier == "thorough" || rng.Intn(3) == 0 && !spec {
			modes = append(modes, second)
		}
		if tier == "thorough" || rng.Intn(3) == 0 && !spec || spec && rng.Intn(6) == 0 {
			modes = append(modes, "interleaved_both_created_up_front")
		}
		for _, m := range modes {
			jobs = append(jobs, &job{p, m, rng.Next(), make(chan c20TFuture, 1), make(chan c20TFuture, 1)})
		}
	}
	// the solo runs: one fresh child process per instance, at most 6 at a time, while the parent does
	// the paired runs
	sem := make(chan struct{}, 6)
	solo := func(sql string, seed uint64, inst int, typ string, p c20TSpec, ch chan c20TFuture) {
		sem <- struct{}{}
		s, err := c20SoloFresh(c20SoloReq{Sql: sql, Seed: strconv.FormatUint(seed, 10), Inst: inst, N: p.N, Win: p.Win,
			Fam: "typed", Typ: typ, Cols: p.Cols, Sync: p.Sync})
		<-sem
		ch <- c20TFuture{s, err}
	}
	go func() {
		for _, j := range jobs {
			go solo(j.p.SqlA, j.seed, 0, j.p.TypA, j.p, j.sa)
			go solo(j.p.SqlB, j.seed, 1, j.p.TypB, j.p, j.sb)
		}
	}()
	for _, j := range jobs {
		p := j.p
		rowsA, rowsB := c20TRows(j.seed, 0, p.N, p.TypA, p.Cols), c20TRows(j.seed, 1, p.N, p.TypB, p.Cols)
		ord := make([]int, 2*p.N)
		lazy := true
		switch j.mode {
		case "a_ran_before_b_was_created":
			for i := range ord {
				ord[i] = 0
			}
		case "b_ran_before_a_was_created":
			for i := range ord {
				ord[i] = 1
			}
		default:
			lazy = false
			for i := range ord {
				ord[i] = rng.Intn(2)
			}
		}
		paired, err := c20TRun([]string{p.SqlA, p.SqlB}, [][]map[string]any{rowsA, rowsB}, ord, lazy, p.Sync, p.Win)
		if err != nil {
			return err
		}
		soloA, soloB := <-j.sa, <-j.sb
		if soloA.err != nil {
			return soloA.err
		}
		if soloB.err != nil {
			return soloB.err
		}
		o.Line("C20 P %s %s %s %s %s %s %s %s", p.Kind, j.mode, hxs(p.SqlA), hxs(p.SqlB), soloA.s, paired[0], soloB.s, paired[1])
		o.Count("P_" + p.Kind[:strings.LastIndex(p.Kind[:strings.LastIndex(p.Kind, "_")], "_")])
		o.Count("P_typed_bridge_mode_" + j.mode)
	}
	return nil
}
