package main

// C19, forced-schedule family "send between the expander's snapshot and its write lock".
//
// expandDataChannel reads cap/len of the channel under the read lock (model step IgXr), decides, and only
// later takes the write lock (IgXl) and migrates. In between other producers may still send on the old
// channel, and before the snapshot the consumer may have taken rows. The migration must move whatever is in
// the old channel when the lock is held, not what was measured. Schedule forced here (expand strategy,
// 2 producers, consumer parked in the sync sink between receives):
//
//   fill the channel; P0: Emit -> send fails -> CAS on s.expanding -> parked before the snapshot
//   consumer receives k rows                        (len = cap-k, still >= trigger threshold)
//   P0: snapshot (cap, cap-k), new capacity         -> parked before the write lock
//   P1: j whole Emit calls, j <= k+1                (the first k land on the old channel; the (k+1)-th finds it
//                                                    full, loses the CAS, retries three times and is dropped)
//   P0: write lock, migration, swap, its own send; then the consumer drains everything
//
// The line is an ordinary `C19 F` line: the extracted model replays the steps and the end state is judged by
// chk_C19 (conservation: processed + dropped + still queued = emitted; order; no duplicate).

import (
	"fmt"
	"time"

	"github.com/rulego/streamsql/stream"
)

func c19SendDuringExpansion(c c19Cfg, k, j int, o *Out) error {
	stream.VerifYieldReset(true)
	w, err := newC19World(c, true, 0)
	if err != nil {
		return err
	}
	defer w.close()
	var steps []string
	n0, n1 := 0, 0
	// first row: the idle consumer takes it and parks in the sink
	if ch, returned := w.emitWait(0, n0, c19Long); !returned {
		return w.unexpected(c, append(steps, "em 0"), "T3: Emit on the empty channel did not return", []chan struct{}{ch}, o)
	}
	n0++
	if !w.waitSink(c19Long) {
		return w.unexpected(c, append(steps, "E 0"), "T3: idle consumer did not pick up the first row", nil, o)
	}
	steps = append(steps, "E 0 ld rc")
	for i := 0; i < c.cap; i++ {
		if ch, returned := w.emitWait(i%2, map[bool]int{true: n0, false: n1}[i%2 == 0], c19Long); !returned {
			return w.unexpected(c, append(steps, fmt.Sprintf("em %d", i%2)), "T3: Emit with room in the channel did not return", []chan struct{}{ch}, o)
		}
		if i%2 == 0 {
			n0++
		} else {
			n1++
		}
		steps = append(steps, fmt.Sprintf("E %d", i%2))
	}
	steps = append(steps, w.obs())
	gS := stream.VerifYieldGate("expand_before_snapshot")
	gB := stream.VerifYieldGate("expand_before_lock")
	done := make(chan struct{})
	k0 := n0
	n0++
	go func() { w.emit(0, k0); close(done) }()
	if !gS.WaitArrived(c19Long) {
		return w.unexpected(c, append(steps, "em 0"), "T3: producer never reached expand_before_snapshot", []chan struct{}{done}, o)
	}
	steps = append(steps, "em 0 sd 0 xb 0")
	for i := 0; i < k; i++ {
		w.sinkTok <- struct{}{}
		if !w.waitSink(c19Long) {
			return w.unexpected(c, steps, "T3: consumer did not receive", []chan struct{}{done}, o)
		}
		steps = append(steps, "ld rc")
	}
	gS.Open()
	if !gB.WaitArrived(c19Long) {
		return w.unexpected(c, steps, "T3: producer never reached expand_before_lock", []chan struct{}{done}, o)
	}
	steps = append(steps, "xr 0")
	for i := 0; i < j; i++ {
		// lands on the old channel, or (channel full) loses the CAS, retries and is dropped
		if ch, returned := w.emitWait(1, n1, c19Long); !returned {
			return w.unexpected(c, append(steps, "em 1"), "T3: Emit during the expansion did not return", []chan struct{}{ch, done}, o)
		}
		n1++
		steps = append(steps, "E 1")
	}
	steps = append(steps, w.obs())
	gB.Open()
	select {
	case <-done:
	case <-time.After(c19Long):
		return w.unexpected(c, steps, "T3: expanding Emit did not return", []chan struct{}{done}, o)
	}
	steps = append(steps, "FIN 0", w.obs())
	// the consumer drains the current channel, one row per token
	for i := 0; i < 4*c.cap+16; i++ {
		if w.s.GetStats()[stream.DataChanLen] == 0 {
			break
		}
		w.sinkTok <- struct{}{}
		if !w.waitSink(c19Long) {
			return w.unexpected(c, steps, "T3: consumer stopped receiving while rows are queued", nil, o)
		}
	}
	steps = append(steps, "DRAIN")
	o.Line("C19 F %s # %s", c, w.final(steps))
	o.Count("forced/send-between-snapshot-and-lock")
	return nil
}

// all (cap, threshold, k, j) shapes with an expansion still triggered by the reduced length
func c19SendDuringExpansionFamily(tier string, rng *RNG, o *Out) error {
	type th struct{ n, d int }
	n := 0
	limit := 14
	if tier == "thorough" {
		limit = 1 << 30
	}
	for _, cp := range []int{2, 3, 4, 6} {
		for _, t := range []th{{1, 2}, {1, 4}} {
			for k := 1; k < cp; k++ {
				if (cp-k)*t.d < t.n*cp {
					continue // below the trigger threshold: no expansion (covered by the sequential scripts)
				}
				for j := 0; j <= k+1; j++ {
					if tier != "thorough" && rng.Intn(3) == 0 && !(k == 1 && j == 1) {
						continue
					}
					if n >= limit {
						return nil
					}
					n++
					c := c19Cfg{strat: 3, cap: cp, max: []int{64, cp + 1, 0}[rng.Intn(3)], minInc: 1 + rng.Intn(3),
						gnum: 3, gden: 2, tnum: t.n, tden: t.d}
					if err := c19SendDuringExpansion(c, k, j, o); err != nil {
						return err
					}
				}
			}
		}
	}
	return nil
}
