package main

import (
	"fmt"
	"strings"
	"sync"
	"time"

	"github.com/rulego/streamsql"
)

// idleCase: event time lags the wall clock (the window's end is already in the past), rows keep arriving
// for longer than IDLETIMEOUT without advancing the maximum timestamp, then the source goes idle.
// The window may fire only after the source has really been idle for IDLETIMEOUT.
func idleCase(sizeMs, oooMs, idleMs int64, nrows int, gapMs int64) (string, error) {
	ssql := streamsql.New(streamsql.WithDiscardLog())
	defer ssql.Stop()
	sql := fmt.Sprintf("SELECT count(*) AS c, window_end() AS we FROM stream GROUP BY TumblingWindow('%dms') WITH (TIMESTAMP='ts', TIMEUNIT='ms', MAXOUTOFORDERNESS='%dms', IDLETIMEOUT='%dms')", sizeMs, oooMs, idleMs)
	if err := ssql.Execute(sql); err != nil {
		return "", err
	}
	start := time.Now()
	wall := func() int64 { return time.Since(start).Milliseconds() }
	var mu sync.Mutex
	var dels []string
	ssql.AddSyncSink(func(rs []map[string]any) {
		mu.Lock()
		defer mu.Unlock()
		for _, r := range rs {
			c, _ := asInt(r["c"])
			we, _ := asInt(r["we"])
			dels = append(dels, fmt.Sprintf("%d %d %d", wall(), we/1000000, c))
		}
	})
	t0 := start.UnixMilli() - 3*sizeMs - 1000
	t0 = (t0/sizeMs)*sizeMs + sizeMs/2 // middle of a window that ended before the run started
	var emits []string
	for i := 0; i < nrows; i++ {
		ts := t0
		if i > 0 {
			ts = t0 - int64(i%3)*oooMs/4 // never advances the maximum, always within tolerance
		}
		emits = append(emits, fmt.Sprintf("%d %d", wall(), ts))
		ssql.Emit(map[string]any{"id": i, "ts": ts})
		time.Sleep(time.Duration(gapMs) * time.Millisecond)
	}
	time.Sleep(time.Duration(idleMs+900) * time.Millisecond)
	mu.Lock()
	defer mu.Unlock()
	return fmt.Sprintf("C02 I %d %d %d %d # %s # %s", sizeMs, oooMs, idleMs, nrows, strings.Join(emits, " "), strings.Join(dels, " ")), nil
}

func idleCases(o *Out, n int) error {
	type res struct {
		line string
		err  error
	}
	out := make([]res, n)
	var wg sync.WaitGroup
	for i := 0; i < n; i++ {
		i := i
		wg.Add(1)
		go func() {
			defer wg.Done()
			size := []int64{500, 1000, 2000}[i%3]
			out[i].line, out[i].err = idleCase(size, 200, 1000, 28+4*i, 55)
		}()
	}
	wg.Wait()
	for _, r := range out {
		if r.err != nil {
			return r.err
		}
		o.Line("%s", r.line)
		o.Count("idle-timeout sql-level")
	}
	return nil
}
