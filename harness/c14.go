package main

// C14 — analytic functions: sequential per partition, isolated across partitions.
//
// Line formats (tokens separated by blanks, sections by "#"):
//   C14 K <n> <val>*n <keyhex>                         partition key of the tuple (columns c0..c(n-1); "A" = column missing)
//   C14 Q <cap> # <field> # <where> # <rows> # <sync outs> # <async outs>
//     field  := <kind> P <n> <colhex>*n W <colhex|->
//     kind   := single <call> | wrapf <colhex> <call> | wrap2 <call> <call> | named <T|F> | cols <prefixhex> <aexp> <n> <colhex>*n
//     call   := <lag|latest|had|ccol|sum|count|avg|min|max> <nargs> <aexp>*nargs
//     aexp   := c<colhex> | n<int> | bT | bF | p<colhex>          (column, numeric literal, true/false, "col > 0")
//     where  := - | c <colhex> | a <field>
//     rows   := row (";" row)*      row := (<colhex>=<val>)*
//     val    := N | i<int> | d<int> (float64) | s<hex> | T | F
//     outs   := one token per row (sync; "x" = no result) / per delivered result (async):
//               N | i<int> | r<float> | s<hex> | T | F | M:<keyhex>=<val>,... (changed_cols, sorted)
import (
	"encoding/hex"
	"fmt"
	"math"
	"sort"
	"strconv"
	"strings"
	"sync"
	"time"

	"github.com/rulego/streamsql"
	"github.com/rulego/streamsql/stream"
)

func init() { runners["C14"] = runC14 }

type aval struct {
	k byte // N i d s T F, A = absent
	z int
	s string
}

func (v aval) tok() string {
	switch v.k {
	case 'i':
		return "i" + strconv.Itoa(v.z)
	case 'd':
		return "d" + strconv.Itoa(v.z)
	case 's':
		return "s" + hx(v.s)
	}
	return string(v.k)
}
func (v aval) goval() any {
	switch v.k {
	case 'i':
		return v.z
	case 'd':
		return float64(v.z)
	case 's':
		return v.s
	case 'T':
		return true
	case 'F':
		return false
	}
	return nil
}

type arow []struct {
	col string
	v   aval
}

func (r arow) gomap() map[string]any {
	m := make(map[string]any, len(r))
	for _, c := range r {
		m[c.col] = c.v.goval()
	}
	return m
}
func (r arow) tok() string {
	var sb []string
	for _, c := range r {
		sb = append(sb, hx(c.col)+"="+c.v.tok())
	}
	return strings.Join(sb, " ")
}

// observable of one result value
func outTok(v any) string {
	switch x := v.(type) {
	case nil:
		return "N"
	case bool:
		if x {
			return "T"
		}
		return "F"
	case int:
		return "i" + strconv.Itoa(x)
	case int64:
		return "i" + strconv.FormatInt(x, 10)
	case int32:
		return "i" + strconv.Itoa(int(x))
	case float64:
		if x == math.Trunc(x) && math.Abs(x) < 1e15 {
			return "i" + strconv.FormatInt(int64(x), 10)
		}
		return "r" + strconv.FormatFloat(x, 'g', -1, 64)
	case string:
		return "s" + hx(x)
	}
	return "E" + hx(fmt.Sprintf("%T", v))
}

// result row -> token ("a" alias, or the fanned-out changed_cols columns)
func resTok(res map[string]any, multi bool) string {
	if res == nil {
		return "x"
	}
	if !multi {
		return outTok(res["a"])
	}
	var ks []string
	for k := range res {
		if k != "k" {
			ks = append(ks, k)
		}
	}
	sort.Strings(ks)
	var parts []string
	for _, k := range ks {
		parts = append(parts, hex.EncodeToString([]byte(k))+"="+outTok(res[k]))
	}
	return "M:" + strings.Join(parts, ",")
}

type aexp struct {
	k   byte // c n b p
	col string
	z   int
	b   bool
}

func (e aexp) tok() string {
	switch e.k {
	case 'c':
		return "c" + hx(e.col)
	case 'n':
		return "n" + strconv.Itoa(e.z)
	case 'b':
		if e.b {
			return "bT"
		}
		return "bF"
	}
	return "p" + hx(e.col)
}
func (e aexp) sql() string {
	switch e.k {
	case 'c':
		return e.col
	case 'n':
		return strconv.Itoa(e.z)
	case 'b':
		if e.b {
			return "true"
		}
		return "false"
	}
	return e.col + " > 0"
}

type acall struct {
	fn   string // lag latest had ccol sum count avg min max
	args []aexp
}

var sqlName = map[string]string{"lag": "lag", "latest": "latest", "had": "had_changed", "ccol": "changed_col",
	"sum": "acc_sum", "count": "acc_count", "avg": "acc_avg", "min": "acc_min", "max": "acc_max"}

func (c acall) tok() string {
	s := fmt.Sprintf("%s %d", c.fn, len(c.args))
	for _, a := range c.args {
		s += " " + a.tok()
	}
	return s
}
func (c acall) sql() string {
	var as []string
	for _, a := range c.args {
		as = append(as, a.sql())
	}
	return sqlName[c.fn] + "(" + strings.Join(as, ", ") + ")"
}

type afield struct {
	kind   string // single wrapf wrap2 named cols
	wcol   string
	c1, c2 acall
	ign    bool
	prefix string
	ignx   aexp
	cols   []string
	part   []string
	when   string
}

func (f afield) tok() string {
	var s string
	switch f.kind {
	case "single":
		s = "single " + f.c1.tok()
	case "wrapf":
		s = "wrapf " + hx(f.wcol) + " " + f.c1.tok()
	case "wrap2":
		s = "wrap2 " + f.c1.tok() + " " + f.c2.tok()
	case "named":
		s = "named " + map[bool]string{true: "T", false: "F"}[f.ign]
	case "cols", "colsstar": // colsstar: changed_cols(prefix, ign, *) over rows whose (fixed) column set is f.cols
		s = fmt.Sprintf("cols %s %s %d", hx(f.prefix), f.ignx.tok(), len(f.cols))
		for _, c := range f.cols {
			s += " " + hx(c)
		}
	}
	s += fmt.Sprintf(" P %d", len(f.part))
	for _, c := range f.part {
		s += " " + hx(c)
	}
	if f.when == "" {
		s += " W -"
	} else {
		s += " W " + hx(f.when)
	}
	return s
}
func (f afield) over() string {
	if len(f.part) == 0 && f.when == "" {
		return ""
	}
	s := " OVER ("
	if len(f.part) > 0 {
		s += "PARTITION BY " + strings.Join(f.part, ", ")
	}
	if f.when != "" {
		if len(f.part) > 0 {
			s += " "
		}
		s += "WHEN " + f.when + " > 0"
	}
	return s + ")"
}
func (f afield) sql() string {
	switch f.kind {
	case "single":
		return f.c1.sql() + f.over()
	case "wrapf":
		return f.wcol + " - " + f.c1.sql() + f.over()
	case "wrap2":
		return f.c1.sql() + " - " + f.c2.sql() + f.over()
	case "named":
		return "had_changed(" + map[bool]string{true: "true", false: "false"}[f.ign] + ", *)" + f.over()
	case "colsstar":
		return "changed_cols('" + f.prefix + "', " + f.ignx.sql() + ", *)" + f.over()
	}
	return "changed_cols('" + f.prefix + "', " + f.ignx.sql() + ", " + strings.Join(f.cols, ", ") + ")" + f.over()
}

type aquery struct {
	f     afield
	wkind string // - c a
	wcol  string
	wf    afield
	cap   int // 0 = default
}

func (q aquery) sql() string {
	s := "SELECT k, " + q.f.sql()
	if q.f.kind != "cols" {
		s += " AS a"
	}
	s += " FROM stream"
	switch q.wkind {
	case "c":
		s += " WHERE " + q.wcol + " > 0"
	case "a":
		s += " WHERE " + q.wf.sql()
	}
	return s
}
func (q aquery) tok() string {
	capv := q.cap
	if capv == 0 {
		capv = 10000
	}
	w := "-"
	switch q.wkind {
	case "c":
		w = "c " + hx(q.wcol)
	case "a":
		w = "a " + q.wf.tok()
	}
	return fmt.Sprintf("%d # %s # %s", capv, q.f.tok(), w)
}

func c14Sync(q aquery, rows []arow) ([]string, error) {
	opts := []streamsql.Option{streamsql.WithDiscardLog()}
	if q.cap > 0 {
		opts = append(opts, streamsql.WithAnalyticMaxPartitions(q.cap))
	}
	s := streamsql.New(opts...)
	if err := s.Execute(q.sql()); err != nil {
		return nil, fmt.Errorf("%q: %v", q.sql(), err)
	}
	defer s.Stop()
	var out []string
	for _, r := range rows {
		res, err := s.EmitSync(r.gomap())
		if err != nil {
			out = append(out, "E"+hx(err.Error()))
			continue
		}
		out = append(out, resTok(res, q.f.kind == "cols"))
	}
	return out, nil
}

func c14Async(q aquery, rows []arow, expect int) ([]string, error) {
	opts := []streamsql.Option{streamsql.WithDiscardLog()}
	if q.cap > 0 {
		opts = append(opts, streamsql.WithAnalyticMaxPartitions(q.cap))
	}
	s := streamsql.New(opts...)
	if err := s.Execute(q.sql()); err != nil {
		return nil, fmt.Errorf("%q: %v", q.sql(), err)
	}
	var mu sync.Mutex
	var out []string
	s.AddSyncSink(func(rs []map[string]any) {
		mu.Lock()
		for _, r := range rs {
			out = append(out, resTok(r, q.f.kind == "cols"))
		}
		mu.Unlock()
	})
	for _, r := range rows {
		s.Emit(r.gomap())
	}
	n := func() int { mu.Lock(); defer mu.Unlock(); return len(out) }
	deadline := time.Now().Add(3 * time.Second)
	for n() < expect && time.Now().Before(deadline) {
		time.Sleep(200 * time.Microsecond)
	}
	// give a surplus result (one the synchronous path did not produce) the chance to show up
	time.Sleep(300 * time.Microsecond)
	if expect == 0 {
		time.Sleep(3 * time.Millisecond)
	}
	s.Stop()
	mu.Lock()
	defer mu.Unlock()
	return append([]string(nil), out...), nil
}

// ---------------------------------------------------------------- generators
func c14Val(rng *RNG) aval {
	switch x := rng.Intn(100); {
	case x < 14:
		return aval{k: 'N'}
	case x < 24:
		return aval{k: 'A'}
	case x < 30:
		return aval{k: 'd', z: rng.Range(-2, 6)}
	case x < 34:
		return aval{k: 's', s: rng.Pick([]string{"u", "v", "", "true"})}
	case x < 36:
		return aval{k: rng.Pick([]string{"T", "F"})[0]}
	}
	return aval{k: 'i', z: rng.Range(-3, 9)}
}

func c14Flag(rng *RNG, pTrue int) aval {
	switch x := rng.Intn(100); {
	case x < 4:
		return aval{k: 'N'}
	case x < 8:
		return aval{k: 'A'}
	case x < 8+pTrue:
		return aval{k: 'i', z: rng.Range(1, 2)}
	}
	return aval{k: 'i', z: rng.Range(-1, 0)}
}

var c14PartPool = []aval{{k: 's', s: "a"}, {k: 's', s: "b"}, {k: 's', s: "c"}, {k: 's', s: "d"}, {k: 's', s: "1"},
	{k: 'i', z: 1}, {k: 'd', z: 1}, {k: 'N'}, {k: 'A'}, {k: 'T'}, {k: 's', s: "a|6:string|b"}, {k: 's', s: "e"}, {k: 'i', z: 2}}

func c14Call(rng *RNG) acall {
	col := func() aexp { return aexp{k: 'c', col: rng.Pick([]string{"v", "v", "v", "w"})} }
	flag := func() aexp { return aexp{k: 'b', b: rng.Bool()} }
	switch rng.Intn(9) {
	case 0, 1:
		c := acall{fn: "lag", args: []aexp{col()}}
		n := rng.Intn(4)
		if n >= 1 {
			c.args = append(c.args, aexp{k: 'n', z: rng.Range(1, 3)})
		}
		if n >= 2 {
			c.args = append(c.args, aexp{k: 'n', z: []int{0, -1, 7}[rng.Intn(3)]})
		}
		if n >= 3 {
			c.args = append(c.args, flag())
		}
		return c
	case 2:
		c := acall{fn: "latest", args: []aexp{col()}}
		if rng.Bool() {
			c.args = append(c.args, aexp{k: 'n', z: rng.Range(-1, 1)})
		}
		return c
	case 3:
		c := acall{fn: "had", args: []aexp{flag(), {k: 'c', col: "v"}}}
		if rng.Bool() {
			c.args = append(c.args, aexp{k: 'c', col: "w"})
		}
		return c
	case 4:
		return acall{fn: "ccol", args: []aexp{flag(), col()}}
	}
	c := acall{fn: rng.Pick([]string{"sum", "count", "avg", "min", "max"}), args: []aexp{col()}}
	n := rng.Intn(5)
	if n >= 3 {
		c.args = append(c.args, aexp{k: 'p', col: "s"})
	}
	if n >= 4 {
		c.args = append(c.args, aexp{k: 'p', col: "r"})
	}
	return c
}

func c14Field(rng *RNG) afield {
	var f afield
	switch x := rng.Intn(100); {
	case x < 58:
		f.kind, f.c1 = "single", c14Call(rng)
	case x < 70:
		f.kind, f.wcol = "wrapf", rng.Pick([]string{"v", "w"})
		f.c1 = c14Call(rng)
		for f.c1.fn == "avg" || f.c1.fn == "had" {
			f.c1 = c14Call(rng)
		}
	case x < 80:
		f.kind = "wrap2"
		ks := []string{"sum", "count", "min", "max"}
		f.c1 = acall{fn: rng.Pick(ks), args: []aexp{{k: 'c', col: "v"}}}
		f.c2 = acall{fn: rng.Pick(ks), args: []aexp{{k: 'c', col: rng.Pick([]string{"v", "w"})}}}
		if rng.Intn(3) == 0 {
			f.c1.args = append(f.c1.args, aexp{k: 'p', col: "s"})
		}
	case x < 88:
		f.kind, f.ign = "named", rng.Bool()
	default:
		f.kind, f.prefix, f.ignx = "cols", rng.Pick([]string{"c_", "", "x"}), aexp{k: 'b', b: rng.Bool()}
		f.cols = [][]string{{"v"}, {"v", "w"}, {"w", "v", "g"}}[rng.Intn(3)]
	}
	switch rng.Intn(8) {
	case 0, 1:
	case 2:
		f.part = []string{"p", "q"}
	default:
		f.part = []string{"p"}
	}
	if rng.Intn(3) == 0 {
		f.when = "g"
	}
	return f
}

func c14Query(rng *RNG) aquery {
	q := aquery{f: c14Field(rng), wkind: "-"}
	switch rng.Intn(10) {
	case 0, 1:
		q.wkind, q.wcol = "c", "f"
	case 2, 3:
		q.wkind = "a"
		q.wf = afield{kind: "single", c1: acall{fn: "had", args: []aexp{{k: 'b', b: rng.Bool()}, {k: 'c', col: rng.Pick([]string{"v", "w"})}}}, part: q.f.part}
	}
	q.cap = []int{0, 0, 1, 2, 3, 5}[rng.Intn(6)]
	return q
}

func c14Rows(rng *RNG, q aquery) []arow {
	n := rng.Range(4, 40)
	nparts := rng.Range(1, 7)
	pool := make([]aval, nparts)
	for i := range pool {
		pool[i] = c14PartPool[rng.Intn(len(c14PartPool))]
	}
	rows := make([]arow, 0, n)
	add := func(r *arow, col string, v aval) {
		if v.k != 'A' {
			*r = append(*r, struct {
				col string
				v   aval
			}{col, v})
		}
	}
	named := q.f.kind == "named"
	for i := 0; i < n; i++ {
		var r arow
		add(&r, "k", aval{k: 'i', z: 1})
		add(&r, "p", pool[rng.Intn(nparts)])
		if rng.Intn(4) == 0 {
			add(&r, "q", aval{k: 's', s: rng.Pick([]string{"x", "y"})})
		}
		v := c14Val(rng)
		if i > 0 && rng.Intn(4) == 0 { // repeats
			for _, c := range rows[i-1] {
				if c.col == "v" {
					v = c.v
				}
			}
		}
		add(&r, "v", v)
		if named {
			// whole-row comparison: few columns with few values, so that "unchanged" happens
			add(&r, "w", aval{k: 'i', z: rng.Intn(2)})
		} else {
			add(&r, "w", c14Val(rng))
			add(&r, "g", c14Flag(rng, 60))
			add(&r, "s", c14Flag(rng, 25))
			add(&r, "r", c14Flag(rng, 12))
			add(&r, "f", c14Flag(rng, 65))
		}
		rows = append(rows, r)
	}
	if named {
		for i := range rows { // a row of a named case holds k, p, v, w only; p is dropped when not partitioned
			if len(q.f.part) == 0 {
				var r arow
				for _, c := range rows[i] {
					if c.col != "p" && c.col != "q" {
						r = append(r, c)
					}
				}
				rows[i] = r
			}
		}
	}
	return rows
}

// ---------------------------------------------------------------- eviction family
// Partitions ABOVE the cap with a WHEN clause and RETURNING partitions: cap from {1,2,3,5}, cap+1 .. cap+3
// distinct partition values visited mostly round-robin (so that a partition is evicted before it comes back),
// sometimes repeated (a gated-off row right after / before a counted one) or drawn at random, and a WHEN column
// that fails on about 45% of the rows.  A partition that returns after its eviction with a WHEN-false row must
// yield NULL (changed_cols: no columns) until its first WHEN-true row: the driver judges these histories with the
// specification of all histories (coq/Spec/AnalyticEpochSpec.v; verdict chk evicted_partition_replays_stale_result).
func c14EvictCap(rng *RNG) int { return []int{1, 2, 2, 3, 3, 5}[rng.Intn(6)] }

func c14SetCol(r arow, col string, v aval) arow {
	var out arow
	for _, c := range r {
		if c.col != col {
			out = append(out, c)
		}
	}
	if v.k != 'A' {
		out = append(out, struct {
			col string
			v   aval
		}{col, v})
	}
	return out
}

func c14EvictRows(rng *RNG, rows []arow, capv int) []arow {
	var cand []aval
	for _, v := range c14PartPool {
		if v.k != 'A' { // a missing column is the NULL partition: keep the values distinct as partitions
			cand = append(cand, v)
		}
	}
	for i := len(cand) - 1; i > 0; i-- {
		j := rng.Intn(i + 1)
		cand[i], cand[j] = cand[j], cand[i]
	}
	nparts := capv + 1 + rng.Intn(3)
	if nparts > len(cand) {
		nparts = len(cand)
	}
	pool := cand[:nparts]
	idx := rng.Intn(nparts)
	for len(rows) < 3*nparts { // long enough for every partition to come back
		rows = append(rows, rows[rng.Intn(len(rows))])
	}
	out := make([]arow, len(rows))
	for i, r := range rows {
		switch x := rng.Intn(100); {
		case x < 50:
			idx = (idx + 1) % nparts
		case x < 75:
		default:
			idx = rng.Intn(nparts)
		}
		var g aval
		switch x := rng.Intn(100); {
		case x < 55:
			g = aval{k: 'i', z: rng.Range(1, 2)}
		case x < 95:
			g = aval{k: 'i', z: rng.Range(-1, 0)}
		case x < 98:
			g = aval{k: 'N'}
		default:
			g = aval{k: 'A'}
		}
		r = c14SetCol(r, "p", pool[idx])
		if pool[idx].k == 'N' && rng.Intn(3) == 0 {
			r = c14SetCol(r, "p", aval{k: 'A'}) // the same partition, written as a missing column
		}
		out[i] = c14SetCol(r, "g", g)
	}
	return out
}

// one query + stream of the eviction family for the first family of lines (Q)
func c14EvictJob(rng *RNG) (aquery, []arow) {
	q := c14Query(rng)
	for q.f.kind == "named" {
		q = c14Query(rng)
	}
	q.f.part, q.f.when = []string{"p"}, "g"
	if q.wkind == "a" {
		q.wf.part = q.f.part
		if rng.Bool() {
			q.wf.when = "g"
		}
	}
	q.cap = c14EvictCap(rng)
	return q, c14EvictRows(rng, c14Rows(rng, q), q.cap)
}

func c14Keys(rng *RNG, o *Out, n int) {
	strs := []string{"", "a", "b", "a|b", "|", ":", "1", "12", "3:int", "int|1", "nil|", "a|6:string|b", "true", "x\x00y", "é"}
	for i := 0; i < n; i++ {
		w := rng.Intn(4)
		cols := make([]string, w)
		row := map[string]any{}
		toks := make([]string, w)
		for j := 0; j < w; j++ {
			cols[j] = "c" + strconv.Itoa(j)
			var v aval
			switch rng.Intn(8) {
			case 0:
				v = aval{k: 'N'}
			case 1:
				v = aval{k: 'A'}
			case 2, 3:
				v = aval{k: 's', s: strs[rng.Intn(len(strs))]}
				if rng.Intn(4) == 0 {
					v.s += strs[rng.Intn(len(strs))] + strconv.Itoa(rng.Intn(1000))
				}
			case 4:
				v = aval{k: 'd', z: rng.Range(-999999, 999999)}
				if rng.Bool() {
					v.z = rng.Range(-12, 12)
				}
			case 5:
				v = aval{k: rng.Pick([]string{"T", "F"})[0]}
			default:
				v = aval{k: 'i', z: rng.Range(-1200, 1200)}
				if rng.Intn(4) == 0 {
					v.z = int(rng.Next()>>1) - (1 << 62)
				}
			}
			toks[j] = v.tok()
			if v.k != 'A' {
				row[cols[j]] = v.goval()
			}
		}
		key := stream.VerifPartitionKey(cols, row)
		o.Line("C14 K %d %s %s", w, strings.Join(toks, " "), hx(key))
	}
	o.Count("partition_key_tuples")
	// float64 partition values outside the model's exact-decimal range: implementation-level
	// collision search - two different float64 values must never share a partition key, equal values must
	c14FloatKeyPairs(rng, o, n)
}

// c14FloatKeyPairs writes lines "C14 J <bits x> <bits y> <keys equal 0/1>".
func c14FloatKeyPairs(rng *RNG, o *Out, n int) {
	emit := func(x, y float64) {
		kx := stream.VerifPartitionKey([]string{"p"}, map[string]any{"p": x})
		ky := stream.VerifPartitionKey([]string{"p"}, map[string]any{"p": y})
		eq := 0
		if kx == ky {
			eq = 1
		}
		o.Line("C14 J %d %d %d", math.Float64bits(x), math.Float64bits(y), eq)
	}
	bases := []float64{16777216, 16777217, 100000001, 4294967297, 1099511627777, 9007199254740991, 0.1, 0.3, 1.5, 123456.789, 1e-7, 1e21, 1e300, 3.141592653589793}
	for _, b := range bases {
		emit(b, b)
		emit(b, math.Nextafter(b, math.Inf(1)))
		emit(b, math.Nextafter(b, math.Inf(-1)))
		emit(b, b*(1+1e-9))
		emit(-b, -b*(1+1e-12))
		if b >= 1 && b < 9e15 {
			emit(b, b+1)
			emit(b, b+2)
		}
	}
	for i := 0; i < n/4+50; i++ {
		x := math.Float64frombits(rng.Next())
		if math.IsNaN(x) || math.IsInf(x, 0) || x == 0 {
			continue
		}
		y := x
		switch rng.Intn(4) {
		case 0:
			y = math.Nextafter(x, math.Inf(1))
		case 1:
			y = math.Float64frombits(math.Float64bits(x) ^ (1 << uint(rng.Intn(30))))
		case 2:
			y = x * (1 + 1e-8)
		}
		if math.IsNaN(y) || math.IsInf(y, 0) || y == 0 {
			continue
		}
		emit(x, y)
	}
	o.Count("float_key_pairs")
}

func runC14(tier string, seed uint64, o *Out) error {
	// rng.go seeds with seed*gamma and steps by gamma: the stream of seed s+1 is the stream of seed s shifted by
	// one draw (the generated cases of seeds 1, 2, 3 were almost the same).  Spread the seeds first.
	rng := NewRNG(seed*0x2545F4914F6CDD1D + 0xC14)
	nk, nq := 3000, 1600
	if tier == "thorough" {
		nk, nq = 60000, 30000
	}
	type job struct {
		q    aquery
		rows []arow
	}
	jobs := make([]job, nq)
	evict := make([]bool, nq)
	for i := range jobs {
		if rng.Intn(100) < 15 {
			q, rows := c14EvictJob(rng)
			jobs[i], evict[i] = job{q, rows}, true
			continue
		}
		q := c14Query(rng)
		jobs[i] = job{q, c14Rows(rng, q)}
	}
	lines := make([]string, nq)
	var wg sync.WaitGroup
	var emu sync.Mutex
	var firstErr error
	sem := make(chan struct{}, 8)
	for i := range jobs {
		i := i
		wg.Add(1)
		sem <- struct{}{}
		go func() {
			defer wg.Done()
			defer func() { <-sem }()
			j := jobs[i]
			so, err := c14Sync(j.q, j.rows)
			var ao []string
			if err == nil {
				expect := 0
				for _, t := range so {
					if t != "x" {
						expect++
					}
				}
				ao, err = c14Async(j.q, j.rows, expect)
			}
			if err != nil {
				emu.Lock()
				if firstErr == nil {
					firstErr = err
				}
				emu.Unlock()
				return
			}
			var rt []string
			for _, r := range j.rows {
				rt = append(rt, r.tok())
			}
			lines[i] = fmt.Sprintf("C14 Q %s # %s # %s # %s", j.q.tok(), strings.Join(rt, " ; "), strings.Join(so, " "), strings.Join(ao, " "))
		}()
	}
	wg.Wait()
	if firstErr != nil {
		return firstErr
	}
	for i, l := range lines {
		o.Line("%s", l)
		q := jobs[i].q
		o.Count("field_" + q.f.kind)
		if q.f.kind == "single" || q.f.kind == "wrapf" {
			o.Count("fn_" + q.f.c1.fn)
		}
		o.Count("where_" + q.wkind)
		o.Count(fmt.Sprintf("cap_%d", q.cap))
		o.Count(fmt.Sprintf("partcols_%d", len(q.f.part)))
		if q.f.when != "" {
			o.Count("when")
		}
		if evict[i] {
			o.Count("evict_family")
		}
		if len(q.f.part) > 0 {
			seen := map[string]bool{}
			for _, r := range jobs[i].rows {
				seen[stream.VerifPartitionKey(q.f.part, r.gomap())] = true
			}
			capv := q.cap
			if capv == 0 {
				capv = 10000
			}
			if len(seen) > capv {
				o.Count("partitions_above_cap")
			} else {
				o.Count("partitions_within_cap")
			}
		}
		o.Count(fmt.Sprintf("rows_%d0s", len(jobs[i].rows)/10))
	}
	// second family: several select items, general wrappers, WHERE combining a column test and an analytic call
	if err := runC14M(tier, rng, o); err != nil {
		return err
	}
	// third family: PARTITION BY paths into nested rows (c14n.go)
	if err := runC14N(tier, rng, o); err != nil {
		return err
	}
	// key lines last: the driver reports only the first 200 bad lines, and the query lines are the ones the
	// declarative checker can turn into a concrete failing input
	c14Keys(rng, o, nk)
	return nil
}
