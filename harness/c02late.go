package main

import (
	"fmt"
	"sort"
	"strings"
	"sync"
	"time"

	"github.com/rulego/streamsql"
)

// SQL-level late updates (public API, real goroutines and timers): phase 1 feeds on-time events and pushes the
// watermark past them; after quiescence phase 2 feeds late events that fall into fired windows still inside
// ALLOWEDLATENESS, one at a time. Every result delivered in phase 2 must be a re-delivery of an earlier result of the
// same group: same window_id, window_start() and window_end(); its collected ids are the ids of that window's
// previous delivery plus the late event just fed (C02: "a re-delivery with the same window_id whose contents are the
// previous contents plus that event"). Judged here, on the implementation's own rows; line: C02 L <window> ok|viol ...
type lateRes struct {
	key, ws, we, c int64
	wid            string
	ids            []int64
}

func lateSQLCase(rng *RNG, kind int) (string, string) {
	size := []int64{1000, 2000}[rng.Intn(2)]
	var win string
	switch kind {
	case 0:
		win = fmt.Sprintf("TumblingWindow('%s')", durStr(size))
	case 1:
		win = fmt.Sprintf("SlidingWindow('%s','%s')", durStr(size), durStr(size/2))
	default:
		win = fmt.Sprintf("SessionWindow('%s')", durStr(size))
	}
	sql := fmt.Sprintf("SELECT k, collect(id) AS ids, count(*) AS c, window_start() AS ws, window_end() AS we FROM stream GROUP BY k, %s WITH (TIMESTAMP='ts', TIMEUNIT='ms', MAXOUTOFORDERNESS='0s', ALLOWEDLATENESS='600s')", win)
	s := streamsql.New(streamsql.WithDiscardLog())
	defer s.Stop()
	if err := s.Execute(sql); err != nil {
		return win, "viol execute " + err.Error()
	}
	var mu sync.Mutex
	var got []lateRes
	var malformed string
	s.AddSyncSink(func(rs []map[string]any) {
		mu.Lock()
		defer mu.Unlock()
		for _, r := range rs {
			k, ok1 := asInt(r["k"])
			ws, ok2 := asInt(r["ws"])
			we, ok3 := asInt(r["we"])
			c, ok4 := asInt(r["c"])
			l, ok5 := r["ids"].([]any)
			wid, ok6 := r["window_id"].(string)
			if !(ok1 && ok2 && ok3 && ok4 && ok5 && ok6) {
				malformed = fmt.Sprintf("malformed result %v", r)
				continue
			}
			x := lateRes{key: k, ws: ws, we: we, c: c, wid: wid}
			for _, v := range l {
				i, _ := asInt(v)
				x.ids = append(x.ids, i)
			}
			got = append(got, x)
		}
	})
	quiet := func() int {
		last, stable := -1, 0
		for i := 0; i < 80 && stable < 8; i++ {
			time.Sleep(100 * time.Millisecond)
			mu.Lock()
			n := len(got)
			mu.Unlock()
			if n == last {
				stable++
			} else {
				last, stable = n, 0
			}
		}
		return last
	}
	base := int64(1700000000000)
	id := int64(0)
	type ev struct{ id, ts, key int64 }
	var on []ev
	t := base
	for i := 0; i < 4+rng.Intn(6); i++ {
		t += int64(rng.Intn(int(size)/2) + 1)
		id++
		on = append(on, ev{id, t, int64(1 + rng.Intn(2))})
	}
	for _, e := range on {
		s.Emit(map[string]any{"id": e.id, "ts": e.ts, "k": e.key})
	}
	id++
	s.Emit(map[string]any{"id": id, "ts": t + 20*size, "k": int64(99)}) // watermark far past every window above
	n1 := quiet()
	mu.Lock()
	phase1 := append([]lateRes(nil), got...)
	mu.Unlock()
	if n1 == 0 {
		return win, "viol no result in phase 1"
	}
	// latest delivery per (key, window_id)
	latest := map[string]lateRes{}
	for _, r := range phase1 {
		latest[fmt.Sprintf("%d/%s", r.key, r.wid)] = r
	}
	var viol []string
	for j := 0; j < 1+rng.Intn(3); j++ {
		// a late event inside the span of an earlier on-time event of the same key
		e0 := on[rng.Intn(len(on))]
		id++
		lateID := id
		before := len(got)
		s.Emit(map[string]any{"id": lateID, "ts": e0.ts, "k": e0.key})
		quiet()
		mu.Lock()
		news := append([]lateRes(nil), got[before:]...)
		mu.Unlock()
		gained := false
		for _, r := range news {
			if r.key == e0.key {
				gained = true
			}
		}
		if !gained {
			viol = append(viol, fmt.Sprintf("late event id=%d ts=%d key=%d caused no re-delivery of its group", lateID, e0.ts-base, e0.key))
			continue
		}
		for _, r := range news {
			k := fmt.Sprintf("%d/%s", r.key, r.wid)
			prev, ok := latest[k]
			switch {
			case !ok:
				viol = append(viol, fmt.Sprintf("re-delivery with an unknown window_id %s key=%d", r.wid, r.key))
			case r.ws != prev.ws || r.we != prev.we:
				viol = append(viol, fmt.Sprintf("re-delivery of %s reports window_start/end %d/%d, first delivery %d/%d", r.wid, r.ws, r.we, prev.ws, prev.we))
			case r.wid != fmt.Sprintf("%d_%d", r.ws, r.we):
				viol = append(viol, fmt.Sprintf("window_id %s does not carry [%d,%d)", r.wid, r.ws, r.we))
			default:
				// the window is re-delivered as a whole: the group of the late event gains it, the other groups of
				// that window come again with their previous contents
				want := append([]int64(nil), prev.ids...)
				if r.key == e0.key {
					want = append(want, lateID)
				}
				a, b := append([]int64(nil), r.ids...), want
				sort.Slice(a, func(i, j int) bool { return a[i] < a[j] })
				sort.Slice(b, func(i, j int) bool { return b[i] < b[j] })
				if fmt.Sprint(a) != fmt.Sprint(b) || r.c != int64(len(want)) {
					viol = append(viol, fmt.Sprintf("re-delivery of %s key %d holds ids %v count %d, expected %v (late event id %d of key %d)", r.wid, r.key, r.ids, r.c, want, lateID, e0.key))
				}
			}
			latest[k] = r
		}
	}
	if malformed != "" {
		viol = append(viol, malformed)
	}
	if len(viol) > 0 {
		return win, "viol " + strings.Join(viol, "; ")
	}
	return win, "ok"
}

func lateSQLCases(o *Out, rng *RNG, ncases int) {
	type job struct{ win, res string }
	jobs := make([]job, ncases)
	seeds := make([]uint64, ncases)
	for i := range seeds {
		seeds[i] = rng.Next()
	}
	var wg sync.WaitGroup
	sem := make(chan struct{}, 12)
	for i := range jobs {
		i := i
		wg.Add(1)
		sem <- struct{}{}
		go func() {
			defer wg.Done()
			defer func() { <-sem }()
			jobs[i].win, jobs[i].res = lateSQLCase(&RNG{s: seeds[i]}, i%3)
		}()
	}
	wg.Wait()
	for _, j := range jobs {
		o.Line("C02 L %s %s", strings.ReplaceAll(j.win, " ", ""), j.res)
		o.Count("sql-level late update")
	}
}
