package main

import (
	"fmt"
	"strconv"
	"strings"
	"time"

	"github.com/rulego/streamsql/types"
	"github.com/rulego/streamsql/window"
)

// C02 M: the watermark has two writers - an accepted event (max timestamp - MAXOUTOFORDERNESS) and the idle-source
// advance of the ticker (wall clock - MAXOUTOFORDERNESS once no event arrived for IDLETIMEOUT). Stepped histories
// in which the source goes idle (hook VerifAgeSource makes the last event's wall-clock stamp older; the ticker and
// the events keep reading the real clock), the ticker advances the watermark, and the source resumes with events
// that are newer than every earlier event yet older than the advanced watermark.
//
// Line:  C02 M size ooo late idle base # ops # trace # W cur_0 cur_1 ...
//   ops as in the T lines plus "I d" (d ns pass without an event); the model's clock is base + the sum of the d's.
//   W: the current watermark read after every top-level operation ("-" = not set).
// A value derived from the wall clock (the events of these histories are stamped two hours before the harness started) is reported as
// (model clock - ooo): the microseconds the real clock moved on between two hook calls are not part of the history.

type monoWin interface {
	stepWin
	VerifAgeSource(time.Duration)
	VerifWatermark() ([3]int64, [3]bool, int)
}

func monoCases(o *Out, rng *RNG, n int) error {
	idle := int64(time.Hour)
	future := 0
	for i := 0; i < n; i++ {
		// windows of seconds at a present-day epoch: the fire loop of the real window walks every window between the
		// current slot and an idle-advanced watermark, so events stamped in 1970 would keep it busy for hours
		size := []int64{int64(time.Second), int64(10 * time.Second), int64(time.Minute)}[rng.Intn(3)]
		c := twCfg{size: size}
		c.ooo = []int64{0, size / 2, 2 * size}[rng.Intn(3)]
		c.late = []int64{0, 0, size, 3 * size}[rng.Intn(4)]
		var ops []wop
		id := int64(0)
		t := epochBase(size) + int64(rng.Intn(int(3*size)))
		add := func(ts int64) { id++; ops = append(ops, wop{kind: 'A', id: id, ts: ts}) }
		deliver := func(k int) {
			for j := 0; j < k; j++ {
				ops = append(ops, wop{kind: 'D', inj: [][]wop{}})
			}
		}
		phases := 1 + rng.Intn(2)
		for p := 0; p <= phases; p++ {
			// a burst of events, mostly advancing
			for j := 0; j < 2+rng.Intn(5); j++ {
				switch rng.Intn(5) {
				case 0:
					add(t - int64(rng.Intn(int(c.ooo)+1)))
				case 1:
					add(t - c.ooo - 1 - int64(rng.Intn(int(2*size))))
				default:
					t += 1 + int64(rng.Intn(int(size)))
					add(t)
				}
				if rng.Intn(3) == 0 {
					deliver(1 + rng.Intn(2))
				}
			}
			deliver(rng.Intn(3))
			if p == phases {
				break
			}
			// the source goes idle, the ticker runs, the pending watermarks are handled
			switch rng.Intn(4) {
			case 0: // not long enough: the ticker must not advance
				ops = append(ops, wop{kind: 'I', ts: idle / 2}, wop{kind: 'K'})
			default:
				ops = append(ops, wop{kind: 'I', ts: 2 * idle}, wop{kind: 'K'})
			}
			deliver(1 + rng.Intn(3))
		}
		if rng.Intn(2) == 0 {
			// an event ahead of the wall clock by a legal amount (20 h), then one beyond the 24 h guard (40 h): the
			// guard is measured against the wall clock, not against the largest timestamp accepted so far
			f := harnessBase + int64(20*time.Hour) + int64(rng.Intn(1000))*int64(time.Millisecond)
			add(f)
			deliver(1 + rng.Intn(2))
			add(harnessBase + int64(40*time.Hour) + int64(rng.Intn(1000))*int64(time.Millisecond))
			deliver(1)
			add(f + 1 + int64(rng.Intn(int(size))))
			add(f - c.ooo - 1 - int64(rng.Intn(int(size))))
			future++
		}
		deliver(3)
		cfg := types.WindowConfig{
			Type: "tumbling", Params: []any{time.Duration(c.size)}, TsProp: "ts", TimeUnit: time.Duration(1),
			MaxOutOfOrderness: time.Duration(c.ooo), AllowedLateness: time.Duration(c.late),
			IdleTimeout: time.Duration(idle), TimeCharacteristic: types.EventTime,
		}
		tw, err := window.VerifNewTumbling(cfg)
		if err != nil {
			return err
		}
		var w monoWin = tw
		virt := harnessBase
		// a wall-clock-derived watermark was computed by one particular tick: real clock at that tick - ooo. It is
		// reported as (model clock at that tick - ooo).
		type tickRec struct{ before, after, virt int64 }
		var ticks []tickRec
		canon := func(v int64) int64 {
			for _, tk := range ticks {
				if tk.before <= v+c.ooo && v+c.ooo <= tk.after {
					return tk.virt - c.ooo
				}
			}
			return v
		}
		var trace, curs, optoks []string
		for _, op := range ops {
			if op.kind == 'I' {
				w.VerifAgeSource(time.Duration(op.ts))
				virt += op.ts
				optoks = append(optoks, "I "+strconv.FormatInt(op.ts, 10))
			} else {
				tb := time.Now().UnixNano()
				s := runWin(w, []wop{op}, false)
				if op.kind == 'K' {
					ticks = append(ticks, tickRec{tb, time.Now().UnixNano(), virt})
				}
				if s == skipObs {
					trace = nil
					break
				}
				// canonicalise the delivered watermarks
				f := strings.Fields(s)
				for k := 0; k+1 < len(f); k++ {
					if f[k] == "db" {
						if v, err := strconv.ParseInt(f[k+1], 10, 64); err == nil {
							f[k+1] = strconv.FormatInt(canon(v), 10)
						}
					}
				}
				trace = append(trace, strings.Join(f, " "))
				optoks = append(optoks, op.String())
			}
			vals, set, _ := w.VerifWatermark()
			if set[1] {
				curs = append(curs, strconv.FormatInt(canon(vals[1]), 10))
			} else {
				curs = append(curs, "-")
			}
		}
		w.Stop()
		if trace == nil {
			continue
		}
		o.Line("C02 M %d %d %d %d %d # %s # %s # W %s", c.size, c.ooo, c.late, idle, harnessBase, strings.Join(optoks, " "), strings.Join(trace, " "), strings.Join(curs, " "))
		o.Count(fmt.Sprintf("watermark writers: idle advance then resumed events, late=%d", c.late/size))
	}
	o.Count(fmt.Sprintf("watermark writers: histories with an event 20 h ahead of the clock, then one 40 h ahead: %d", future))
	return nil
}
