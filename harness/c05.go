package main

// C05 — non-aggregate queries: stateless, ordered, row-wise filter + projection.
//   Q lines: a generated query (columns, aliases, string literals, *, expression items, optional WHERE)
//            on a generated row through EmitSync: fresh stream, the same stream after other rows
//            (history), a second fresh stream -> all three must agree; the model replays the line.
//   A lines: the same rows through Emit with a synchronous sink (single producer): the sink must see
//            exactly the non-filtered EmitSync results, in emission order.
//   N lines: nested paths / nested rows (not in the Gallina model): EmitSync = Emit+sink, history-free.
//   (further families: c05b.go X E, c05c.go P NQ, c05d.go R W, c05e.go S QI, c05f.go T D)

import (
	"fmt"
	"sort"
	"strings"
	"sync"

	"github.com/rulego/streamsql"
)

func init() { runners["C05"] = runC05 }

type qitem struct {
	kind     string // star col lit expr
	src, out string
	t        *etop
}
type query struct {
	items []qitem
	where *ex
}

func (q *query) sql() string {
	var parts []string
	for _, it := range q.items {
		switch it.kind {
		case "star":
			parts = append(parts, "*")
		case "col":
			if it.src == it.out {
				parts = append(parts, it.src)
			} else {
				parts = append(parts, it.src+" AS "+it.out)
			}
		case "lit":
			parts = append(parts, "'"+it.src+"' AS "+it.out)
		case "expr":
			parts = append(parts, renderTop(it.t)+" AS "+it.out)
		}
	}
	s := "SELECT " + strings.Join(parts, ", ") + " FROM stream"
	if q.where != nil {
		s += " WHERE " + c06Render(0, q.where)
	}
	return s
}
func (q *query) c06_enc() string {
	s := fmt.Sprintf("%d", len(q.items))
	for _, it := range q.items {
		switch it.kind {
		case "star":
			s += " star"
		case "col":
			s += " col " + hx(it.src) + " " + hx(it.out)
		case "lit":
			s += " lit " + hx(it.src) + " " + hx(it.out)
		case "expr":
			s += " x " + hx(it.out) + " " + encTop(it.t)
		}
	}
	if q.where != nil {
		s += " w1 " + c06_enc(q.where)
	} else {
		s += " w0"
	}
	return s
}

func genQuery(r *RNG) *query {
	q := &query{}
	g := sqlGen(r, false)
	n := 1 + r.Intn(4)
	used := map[string]bool{}
	outName := func(base string) string {
		for i := 0; ; i++ {
			nm := base
			if i > 0 {
				nm = fmt.Sprintf("%s%d", base, i)
			}
			if !used[nm] {
				used[nm] = true
				return nm
			}
		}
	}
	if r.Intn(6) == 0 {
		q.items = append(q.items, qitem{kind: "star"})
		n = r.Intn(2)
	}
	for i := 0; i < n; i++ {
		switch x := r.Intn(10); {
		case x < 3:
			c := r.Pick([]string{"a", "b", "c", "s", "t", "m"}) // m: never present
			if used[c] {
				continue
			}
			q.items = append(q.items, qitem{kind: "col", src: c, out: outName(c)})
		case x < 5:
			c := r.Pick([]string{"a", "b", "s", "m"})
			q.items = append(q.items, qitem{kind: "col", src: c, out: outName("x")})
		case x == 5:
			q.items = append(q.items, qitem{kind: "lit", src: r.Pick([]string{"k", "hello", ""}), out: outName("l")})
		default:
			var t *etop
			for {
				t = normTop(g.top(1 + r.Intn(3)))
				if !topHasNeg(t) && !(t.isCase && t.v != nil && t.v.k == "par") && !(!t.isCase && (t.e.k == "col" || t.e.k == "str" || t.e.k == "num")) {
					break
				}
			}
			q.items = append(q.items, qitem{kind: "expr", t: t, out: outName("e")})
		}
	}
	if len(q.items) == 0 {
		q.items = append(q.items, qitem{kind: "col", src: "a", out: "a"})
	}
	if r.Intn(3) != 0 {
		for {
			w := norm(g.boolE(1 + r.Intn(2)))
			if !hasNeg(w) {
				q.where = w
				break
			}
		}
	}
	return q
}

func resEnc(res map[string]any, err error) string {
	if err != nil {
		return "e"
	}
	if res == nil {
		return "none"
	}
	keys := make([]string, 0, len(res))
	for k := range res {
		keys = append(keys, k)
	}
	sort.Strings(keys)
	var out []string
	for _, k := range keys {
		out = append(out, hx(k)+"="+valEnc(res[k]))
	}
	if len(out) == 0 {
		return "row"
	}
	return "row " + strings.Join(out, " ")
}

func runC05(tier string, seed uint64, o *Out) error {
	r := NewRNG(seed)
	nq := 60
	if tier == "thorough" {
		nq = 600
	}
	for i := 0; i < nq; i++ {
		q := genQuery(r)
		sql := q.sql()
		s1 := streamsql.New(streamsql.WithDiscardLog())
		if err := s1.Execute(sql); err != nil {
			o.Count("query/rejected")
			s1.Stop()
			continue
		}
		o.Count("query/ok")
		var rows []rowT
		var syncRes []string
		for k := 0; k < 6; k++ {
			row := typedRow(r)
			m := row.goMap()
			get := func(s *streamsql.Streamsql) string {
				return guard(func() string { res, err := s.EmitSync(copyMap(m)); return resEnc(res, err) })
			}
			o1 := get(s1)
			for h := 0; h < 2; h++ {
				quietSync(s1, genRow(r, true).goMap())
			}
			o2 := get(s1)
			s2 := streamsql.New(streamsql.WithDiscardLog())
			o3 := "execerr"
			if err := s2.Execute(sql); err == nil {
				o3 = get(s2)
			}
			s2.Stop()
			if o1 != o2 || o1 != o3 {
				o.Line("C05 HD %s # %s # %s | %s | %s", hx(sql), row.c06_enc(), o1, o2, o3)
				o.Count("history/DEPENDENT")
				continue
			}
			o.Line("C05 Q %s # %s # %s # %s", hx(sql), q.c06_enc(), row.c06_enc(), o1)
			o.Count("rows/sync")
			rows = append(rows, row)
			syncRes = append(syncRes, o1)
		}
		s1.Stop()
		// asynchronous path, single producer, synchronous sink
		s3 := streamsql.New(streamsql.WithDiscardLog())
		if err := s3.Execute(sql); err != nil {
			continue
		}
		var mu sync.Mutex
		var got []string
		s3.AddSyncSink(func(rs []map[string]any) {
			mu.Lock()
			for _, x := range rs {
				got = append(got, resEnc(x, nil))
			}
			mu.Unlock()
		})
		for _, row := range rows {
			s3.Emit(row.goMap())
		}
		waitQuiet(func() int { mu.Lock(); defer mu.Unlock(); return len(got) })
		s3.Stop()
		var want []string
		for _, x := range syncRes {
			if x != "none" && x != "e" {
				want = append(want, x)
			}
		}
		mu.Lock()
		same := strings.Join(got, "|") == strings.Join(want, "|")
		mu.Unlock()
		if same {
			o.Line("C05 A %s %d %d same", hx(sql), len(rows), len(want))
		} else {
			o.Line("C05 A %s %d %d DIFF sink=%s sync=%s", hx(sql), len(rows), len(want), hx(strings.Join(got, "|")), hx(strings.Join(want, "|")))
		}
		o.Count("async/queries")
	}
	c05Nested(tier, r, o)
	// own generator state: the shared splitmix64 streams of neighbouring seeds are shifted copies of
	// each other and re-synchronise in rejection loops; a far-away state keeps the seeds independent
	c05NestedShapes(tier, NewRNG(seed*1000003+505), o)
	c05Concurrent(tier, NewRNG(seed*1000003+515), o)
	c05Paths(tier, seed, o)
	c05Output(tier, seed, o)
	c05Selected(tier, seed, o)
	c05Typed(tier, seed, o)
	return nil
}

// nested paths and nested rows: implementation-level only
func c05Nested(tier string, r *RNG, o *Out) {
	queries := []string{
		"SELECT d.x AS dx, d.y.z AS z, id FROM stream",
		"SELECT d.arr[0] AS first, d.arr[1].k AS k FROM stream WHERE id >= 0",
		"SELECT d AS whole, d.missing AS mm FROM stream",
		"SELECT * FROM stream WHERE d.x > 1",
		"SELECT d.x + 1 AS p FROM stream",
	}
	mk := func(i int) map[string]any {
		row := map[string]any{"id": i}
		switch i % 4 {
		case 0:
			row["d"] = map[string]any{"x": i, "y": map[string]any{"z": "deep"}, "arr": []any{1, map[string]any{"k": "v"}}}
		case 1:
			row["d"] = map[string]any{"x": 2.5, "arr": []any{}}
		case 2:
			row["d"] = nil
		}
		return row
	}
	for _, q := range queries {
		s1 := streamsql.New(streamsql.WithDiscardLog())
		if s1.Execute(q) != nil {
			s1.Stop()
			o.Count("nested/rejected")
			continue
		}
		s2 := streamsql.New(streamsql.WithDiscardLog())
		_ = s2.Execute(q)
		var mu sync.Mutex
		var got, want []string
		s2.AddSyncSink(func(rs []map[string]any) {
			mu.Lock()
			for _, x := range rs {
				got = append(got, fmt.Sprintf("%v", x))
			}
			mu.Unlock()
		})
		verdict := "same"
		for i := 0; i < 8; i++ {
			a := guard(func() string { res, err := s1.EmitSync(mk(i)); return fmt.Sprintf("%v %v", res, err != nil) })
			quietSync(s1, mk(i+1))
			b := guard(func() string { res, err := s1.EmitSync(mk(i)); return fmt.Sprintf("%v %v", res, err != nil) })
			if a != b {
				verdict = "history"
			}
			if strings.Contains(a, "PANIC") {
				verdict = "panic"
			}
			res, err := s1.EmitSync(mk(i))
			if err == nil && res != nil {
				want = append(want, fmt.Sprintf("%v", res))
			}
			s2.Emit(mk(i))
		}
		waitQuiet(func() int { mu.Lock(); defer mu.Unlock(); return len(got) })
		mu.Lock()
		if verdict == "same" && strings.Join(got, "|") != strings.Join(want, "|") {
			verdict = "async"
		}
		mu.Unlock()
		s1.Stop()
		s2.Stop()
		o.Line("C05 N %s %s", hx(q), verdict)
		o.Count("nested/" + verdict)
	}
}

// ---------------------------------------------------------------- NS lines: nested paths x row SHAPES
// A nested path with numeric brackets (d.items[1].x) is evaluated against rows whose shape at each
// position varies from row to row: array, map with numeric keys ({"0":..,"1":..}), map with names,
// scalar, NULL, absent.  Statelessness: the result of a row on a long-lived stream (after rows of
// other shapes) and through Emit + synchronous sink must equal the result of the same row on a FRESH
// stream.  Nested values have no Gallina model: this is an implementation-level differential whose
// reference is the real engine without history.
type nseg struct {
	name string // field name, or "" for a bracket
	idx  int
}

func c05Path(r *RNG) (string, []nseg) {
	root := r.Pick([]string{"d", "e", "meta"})
	names := []string{"x", "y", "items", "tags", "v"}
	var segs []nseg
	text := root
	n := 1 + r.Intn(3)
	hasBr := false
	for i := 0; i < n; i++ {
		if r.Intn(2) == 0 || (i == n-1 && !hasBr) {
			k := r.Intn(3)
			segs = append(segs, nseg{idx: k})
			text += fmt.Sprintf("[%d]", k)
			hasBr = true
		} else {
			nm := names[r.Intn(len(names))]
			segs = append(segs, nseg{name: nm})
			text += "." + nm
		}
	}
	return text, append([]nseg{{name: root}}, segs...)
}

func c05Leaf(r *RNG) any {
	switch r.Intn(5) {
	case 0:
		return nil
	case 1:
		return r.Intn(100)
	case 2:
		return float64(r.Intn(40)) + 0.5
	case 3:
		return r.Pick([]string{"a0", "b1", "t", ""})
	}
	return r.Bool()
}

// a value under which the remaining path segs may or may not resolve; the container kind at every
// position is drawn independently for every row
func c05Shape(r *RNG, segs []nseg) any {
	if len(segs) == 0 {
		if r.Intn(4) == 0 {
			return map[string]any{"x": c05Leaf(r)}
		}
		return c05Leaf(r)
	}
	sg := segs[0]
	if sg.name != "" {
		switch r.Intn(8) {
		case 0:
			return nil
		case 1:
			return c05Leaf(r)
		case 2:
			return map[string]any{"other": 1} // name missing
		}
		return map[string]any{sg.name: c05Shape(r, segs[1:]), "z": c05Leaf(r)}
	}
	switch x := r.Intn(10); {
	case x < 4: // array, possibly too short
		n := r.Intn(4)
		arr := make([]any, n)
		for i := range arr {
			if i == sg.idx {
				arr[i] = c05Shape(r, segs[1:])
			} else {
				arr[i] = c05Leaf(r)
			}
		}
		return arr
	case x < 8: // map with numeric keys (sparse list as some JSON encoders emit it)
		m := map[string]any{}
		for i := 0; i < 3; i++ {
			if r.Intn(4) != 0 {
				if i == sg.idx {
					m[fmt.Sprint(i)] = c05Shape(r, segs[1:])
				} else {
					m[fmt.Sprint(i)] = c05Leaf(r)
				}
			}
		}
		return m
	case x == 8:
		return nil
	}
	return c05Leaf(r)
}

func c05NestedShapes(tier string, r *RNG, o *Out) {
	nq := 30
	if tier == "thorough" {
		nq = 300
	}
	for qi := 0; qi < nq; qi++ {
		np := 1 + r.Intn(2)
		var items []string
		var paths [][]nseg
		for i := 0; i < np; i++ {
			t, segs := c05Path(r)
			items = append(items, fmt.Sprintf("%s AS p%d", t, i))
			paths = append(paths, segs)
		}
		q := "SELECT id, " + strings.Join(items, ", ") + " FROM stream"
		if r.Intn(3) == 0 {
			q += " WHERE id >= 0"
		}
		mkRow := func(i int) map[string]any {
			row := map[string]any{"id": i}
			for _, segs := range paths {
				if r.Intn(8) == 0 {
					continue // root absent
				}
				if v := c05Shape(r, segs[1:]); true {
					if old, ok := row[segs[0].name]; ok && r.Bool() {
						_ = old // two paths under one root: keep the first shape half of the time
					} else {
						row[segs[0].name] = v
					}
				}
			}
			return row
		}
		run := func(s *streamsql.Streamsql, row map[string]any) string {
			return guard(func() string { res, err := s.EmitSync(row); return fmt.Sprintf("%v %v", res, err != nil) })
		}
		used := streamsql.New(streamsql.WithDiscardLog())
		if used.Execute(q) != nil {
			used.Stop()
			o.Count("shapes/rejected")
			continue
		}
		async := streamsql.New(streamsql.WithDiscardLog())
		_ = async.Execute(q)
		var mu sync.Mutex
		var got []string
		async.AddSyncSink(func(rs []map[string]any) {
			mu.Lock()
			for _, x := range rs {
				got = append(got, fmt.Sprintf("%v false", x))
			}
			mu.Unlock()
		})
		const nrows = 8
		var rows []map[string]any
		var fresh, usedRes []string
		for i := 0; i < nrows; i++ {
			row := mkRow(i)
			rows = append(rows, row)
			f := streamsql.New(streamsql.WithDiscardLog())
			if f.Execute(q) != nil {
				f.Stop()
				fresh = append(fresh, "execerr")
			} else {
				fresh = append(fresh, run(f, row))
				f.Stop()
			}
			usedRes = append(usedRes, run(used, row))
			async.Emit(row)
		}
		waitQuiet(func() int { mu.Lock(); defer mu.Unlock(); return len(got) })
		used.Stop()
		async.Stop()
		mu.Lock()
		asyncRes := append([]string(nil), got...)
		mu.Unlock()
		for i := 0; i < nrows; i++ {
			a := "missing"
			if len(asyncRes) == nrows {
				a = asyncRes[i] // no WHERE filters a row here (id >= 0 holds), so positions correspond
			}
			o.Line("C05 NS %s # %d %s # fresh=%s used=%s async=%s", hx(q), i, hx(fmt.Sprintf("%v", rows[i])), hx(fresh[i]), hx(usedRes[i]), hx(a))
			o.Count("shapes/rows")
		}
	}
}
