package main

// C18, families W and B (see also c18.go).
//
//   C18 W <kind> <strategy> <path> <callers> <presinks> <adds> <rel> <delay> # <event trace>
//       a call is IN FLIGHT inside user code of the row path when sinks are registered and Stop is called:
//       path y = <callers> concurrent EmitSync calls, path e = an Emit whose row is being handled by the processor goroutine;
//       the row is parked in a user function of the WHERE clause (kinds direct, analytic), of the select list (proj) or in
//       the Lookup of a custom JOIN table source (join). presinks = sinks registered before the call begins (often none),
//       adds = sinks registered while it is parked (<a|s><beh>, as in S lines), then Stop is called from another goroutine,
//       and the parked call is released <delay> ms later (rel a) -- or just before Stop is called (rel b, control).
//       Afterwards Emit / EmitSync are tried once more. Same events and monitor as R: no sink invocation may begin or
//       end after Stop returned, whatever the sink lists contained when the call began.
//   C18 B <kind> <strategy> <how> <mode> # <event trace>
//       user code runs long on a pipeline goroutine while Stop (or a channel expansion) arrives. how: s = a harness-gated
//       AddSyncSink sink on the asynchronous Emit path, i = a gated AddSink sink with 1 worker and 1 queue slot, so that
//       the third result is run inline by submitSinkTask's overflow branch, y = a gated synchronous sink under EmitSync.
//       mode h: the sink stays blocked; Stop is called and must return within its grace period (5 s) plus a margin
//               (2.5 s); if it has not, the event so:<j> is recorded, the sink is released, and Stop gets 3 more seconds
//               (else `to`). Leaving through the grace (stop_grace_expired) is the expected verdict here, by design.
//       mode g / e: Stop is called while the sink is blocked; 30-60 ms later the sink is let go on, calls GetStats() /
//               Emit() on its own instance and returns; Stop must return (so / to as above, nothing else is accepted).
//       mode xg / xe (strategy expand): instead of Stop, a producer emits rows into a 2-slot channel so that
//               expandDataChannel runs while the sink is blocked; then the sink calls GetStats() / Emit() and returns;
//               producer and sink must finish (else `to`), then Stop.
//       extra event: so:<j> = Stop call j still running after grace + margin (Spec: EStopOver -> stop_over_grace).

import (
	"fmt"
	"runtime"
	"strconv"
	"strings"
	"sync"
	"sync/atomic"
	"time"

	"github.com/rulego/streamsql"
	"github.com/rulego/streamsql/functions"
	"github.com/rulego/streamsql/logger"
	"github.com/rulego/streamsql/types"
)

const (
	c18Grace       = 5000 * time.Millisecond // stream.defaultStopGrace
	c18GraceMargin = 2500 * time.Millisecond
)

// ---- parking a call inside user code of the row path

type c18Park struct {
	entered chan struct{}
	release chan struct{}
	once    sync.Once
}

func (p *c18Park) wait() {
	select {
	case p.entered <- struct{}{}:
	default:
	}
	<-p.release
}
func (p *c18Park) open() { p.once.Do(func() { close(p.release) }) }

var (
	c18Parks    sync.Map // gate id (int64) -> *c18Park
	c18ParkSeq  int64
	c18ParkOnce sync.Once
)

func newC18Park() (*c18Park, int64) {
	c18ParkOnce.Do(func() {
		_ = functions.RegisterCustomFunction("c18park", functions.TypeMath, "verif", "blocks while gate <arg> is closed", 1, 1,
			func(ctx *functions.FunctionContext, args []any) (any, error) {
				if f, err := strconv.ParseFloat(fmt.Sprint(args[0]), 64); err == nil {
					if p, ok := c18Parks.Load(int64(f)); ok {
						p.(*c18Park).wait()
					}
				}
				return args[0], nil
			})
	})
	id := atomic.AddInt64(&c18ParkSeq, 1)
	p := &c18Park{entered: make(chan struct{}, 64), release: make(chan struct{})}
	c18Parks.Store(id, p)
	return p, id
}

// c18Source is a custom JOIN table source whose Lookup parks.
type c18Source struct{ p *c18Park }

func (b *c18Source) Name() string { return "meta" }
func (b *c18Source) Init() error  { return nil }
func (b *c18Source) Close() error { return nil }
func (b *c18Source) Lookup(key any) (map[string]any, bool) {
	b.p.wait()
	return map[string]any{"loc": "plantA"}, true
}

var c18ParkKinds = map[string]string{
	"direct":   "SELECT id, v FROM stream WHERE c18park(g) >= 0",
	"analytic": "SELECT id, lag(v) AS pv FROM stream WHERE c18park(g) >= 0",
	"proj":     "SELECT id, c18park(g) AS pg FROM stream",
	"join":     "SELECT id, m.loc AS loc FROM stream JOIN meta m ON g = m.g",
}

func c18NewSQL(sql, strat string, chanSize, poolCap, workers int) (*streamsql.Streamsql, error) {
	c18Register()
	pc := types.DefaultPerformanceConfig()
	pc.BufferConfig.DataChannelSize = chanSize
	pc.BufferConfig.MaxBufferSize = chanSize * 4
	pc.OverflowConfig.Strategy = strat
	pc.OverflowConfig.AllowDataLoss = strat == "drop"
	pc.OverflowConfig.ExpansionConfig.MinIncrement = 2
	pc.OverflowConfig.ExpansionConfig.TriggerThreshold = 0.5
	pc.WorkerConfig.SinkPoolSize = poolCap
	pc.WorkerConfig.SinkWorkerCount = workers
	s := streamsql.New(streamsql.WithLogger(logger.NewDiscardLogger()), streamsql.WithCustomPerformance(pc))
	if err := s.Execute(sql); err != nil {
		return nil, fmt.Errorf("%s: %v", sql, err)
	}
	return s, nil
}

type c18Inflight struct {
	kind, strat string
	path        byte // 'y' EmitSync, 'e' Emit
	callers     int
	pre, adds   []string
	rel         byte // 'a' released after Stop was called, 'b' before
	delay       int  // ms
}

func genC18Inflight(rng *RNG, kind, strat string) c18Inflight {
	c := c18Inflight{kind: kind, strat: strat, path: "yye"[rng.Intn(3)], callers: 1 + rng.Intn(2), rel: "aaab"[rng.Intn(4)],
		delay: 10 + rng.Intn(50)}
	if c.path == 'e' {
		c.callers = 1
	}
	if rng.Intn(3) == 0 { // mostly NO sink when the call begins
		for i, n := 0, 1+rng.Intn(2); i < n; i++ {
			c.pre = append(c.pre, string("as"[rng.Intn(2)])+string("ppxg"[rng.Intn(4)]))
		}
	}
	for i, n := 0, 1+rng.Intn(2); i < n; i++ {
		c.adds = append(c.adds, string("ssa"[rng.Intn(3)])+string("pppxg"[rng.Intn(5)]))
	}
	return c
}

func runC18Inflight(c c18Inflight) (string, error) {
	base := runtime.NumGoroutine()
	park, gate := newC18Park()
	defer c18Parks.Delete(gate)
	defer park.open()
	s, err := c18NewSQL(c18ParkKinds[c.kind], c.strat, 16, 4, 2)
	if err != nil {
		return "", err
	}
	if c.kind == "join" {
		if err := s.RegisterTableSource(&c18Source{p: park}); err != nil {
			return "", err
		}
	}
	t := newC18Trace()
	for _, sk := range c.pre {
		t.addSink(s, sk[0] == 's', sk[1], 0)
	}
	row := func(id int) map[string]any {
		return map[string]any{"id": id, "v": id, "g": gate, "ts": time.Now().UnixMilli()}
	}
	var wg sync.WaitGroup
	for j := 0; j < c.callers; j++ {
		j := j
		wg.Add(1)
		go func() {
			defer wg.Done()
			if c.path == 'y' {
				t.emitSync(s, j+1, row(j+1))
			} else {
				s.Emit(row(j + 1))
			}
		}()
	}
	stuck := false
	for j := 0; j < c.callers && !stuck; j++ {
		select {
		case <-park.entered:
		case <-time.After(5 * time.Second):
			stuck = true // the row never reached the user code
		}
	}
	if !stuck {
		for _, sk := range c.adds {
			t.addSink(s, sk[0] == 's', sk[1], 0)
		}
		if c.rel == 'b' {
			park.open()
			time.Sleep(time.Duration(c.delay) * time.Millisecond)
		}
		wg.Add(1)
		go func() { defer wg.Done(); t.stop(s, 1) }()
		time.Sleep(time.Duration(c.delay) * time.Millisecond)
		park.open()
		stuck = !callWithin(8*time.Second, wg.Wait)
	}
	if stuck {
		t.add("to")
		park.open()
	} else {
		time.Sleep(15 * time.Millisecond) // an invocation that outlives Stop shows up as kb / ke after sr
		post := func() {
			s.Emit(row(90))
			t.emitSync(s, 91, row(91))
			s.Emit(row(92))
			time.Sleep(5 * time.Millisecond)
		}
		if !callWithin(8*time.Second, post) {
			t.add("to")
		}
	}
	t.add(fmt.Sprintf("gr:%d:%d", base, waitGoroutines(base, 2*time.Second)))
	t.mu.Lock()
	defer t.mu.Unlock()
	return fmt.Sprintf("C18 W %s %s %c %d %s %s %c %d # %s", c.kind, c.strat, c.path, c.callers, c18Join(c.pre), c18Join(c.adds),
		c.rel, c.delay, strings.Join(t.ev, " ")), nil
}

// ---- user code that runs long on a pipeline goroutine while Stop / an expansion arrives

type c18Blocked struct {
	kind, strat string
	how         byte   // 's', 'i', 'y'
	mode        string // h g e xg xe
	pause       int    // ms between Stop (or the producer) and letting the sink go on
}

func genC18Blocked(rng *RNG, strat string, mode string) c18Blocked {
	b := c18Blocked{strat: strat, mode: mode, pause: 30 + rng.Intn(30)}
	if mode[0] == 'x' {
		b.kind = []string{"direct", "analytic", "cepopen"}[rng.Intn(3)]
		b.how = 's'
		return b
	}
	b.kind = []string{"direct", "direct", "analytic", "cepopen", "counting1"}[rng.Intn(5)]
	b.how = "ssiy"[rng.Intn(4)]
	if b.how == 'y' && !c18IsDirect(b.kind) {
		b.how = 's'
	}
	if b.how == 'i' && b.kind == "cepopen" {
		b.how = 's'
	}
	return b
}

// openAll lets every invocation, present and future, pass the gate (idempotent).
func (g *c18Gate) openAll() {
	g.mu.Lock()
	if !g.open {
		g.open = true
		for _, ch := range g.entered {
			close(ch)
		}
	}
	g.mu.Unlock()
}

func runC18Blocked(b c18Blocked) (string, error) {
	// how i: the first result occupies the only worker, the second the only queue slot, the third is run inline
	workers, poolCap, chanSize, rows, want := 2, 4, 16, 1, int64(1)
	if b.how == 'i' {
		workers, poolCap, rows, want = 1, 1, 3, 2
	}
	if b.mode[0] == 'x' {
		chanSize = 2
	}
	s, err := c18New(b.kind, b.strat, chanSize, poolCap, workers, 0)
	if err != nil {
		return "", err
	}
	t := newC18Trace()
	g := &c18Gate{}
	t.cnt = append(t.cnt, 0)
	var acted int32
	gated := func(rows []map[string]any) {
		t.sinkBegin(0)
		defer t.sinkEnd()
		<-g.enter()
		if atomic.CompareAndSwapInt32(&acted, 0, 1) {
			switch b.mode {
			case "g", "xg":
				_ = s.GetStats()
			case "e", "xe":
				s.Emit(c18Row(77, -1)) // a row that produces no result
			}
		}
	}
	if b.how == 'i' {
		s.AddSink(gated)
	} else {
		if b.pause%2 == 0 {
			s.AddSink(t.mkSink(s, 'p', 0))
		}
		s.AddSyncSink(gated)
	}
	var wg sync.WaitGroup
	if b.how == 'y' {
		wg.Add(1)
		go func() { defer wg.Done(); t.emitSync(s, 1, c18Row(1, 1)) }()
	} else if b.kind == "cepopen" {
		for i, v := range []int{1, 2, -1} { // the third row closes and reports the match
			s.Emit(c18Row(i, v))
		}
	} else {
		for i := 0; i < rows; i++ {
			s.Emit(c18Row(i, i))
			time.Sleep(3 * time.Millisecond)
		}
	}
	// wait until the invocations we expect have begun (all of them are blocked at the gate)
	deadline := time.Now().Add(5 * time.Second)
	for atomic.LoadInt64(&t.begins) < want && time.Now().Before(deadline) {
		time.Sleep(2 * time.Millisecond)
	}
	settled := func(d time.Duration) bool { // every invocation that began has ended, and it stays so
		dl, stable := time.Now().Add(d), 0
		for time.Now().Before(dl) {
			if atomic.LoadInt64(&t.begins) == atomic.LoadInt64(&t.ends) {
				stable++
				if stable >= 5 {
					return true
				}
			} else {
				stable = 0
			}
			time.Sleep(3 * time.Millisecond)
		}
		return false
	}
	stuck := atomic.LoadInt64(&t.begins) < want
	if !stuck && b.mode[0] == 'x' {
		// a channel expansion arrives while the sink is blocked on the processor goroutine
		wg.Add(1)
		go func() {
			defer wg.Done()
			for i := 0; i < 5; i++ {
				s.Emit(c18Row(10+i, -1))
			}
		}()
		time.Sleep(time.Duration(b.pause) * time.Millisecond)
		g.openAll()
		if !callWithin(4*time.Second, wg.Wait) || !settled(4*time.Second) {
			stuck = true
		}
	}
	if stuck {
		t.add("to")
	} else {
		stopped := make(chan struct{})
		go func() { t.stop(s, 1); close(stopped) }()
		if b.mode != "h" && b.mode[0] != 'x' {
			time.Sleep(time.Duration(b.pause) * time.Millisecond)
			g.openAll()
		}
		select {
		case <-stopped:
		case <-time.After(c18Grace + c18GraceMargin):
			t.add("so:1")
			g.openAll()
			select {
			case <-stopped:
			case <-time.After(3 * time.Second):
				t.add("to")
			}
		}
	}
	g.openAll()
	callWithin(3*time.Second, wg.Wait)
	settled(2 * time.Second)
	t.add("gr:0:0")
	t.mu.Lock()
	defer t.mu.Unlock()
	return fmt.Sprintf("C18 B %s %s %c %s # %s", b.kind, b.strat, b.how, b.mode, strings.Join(t.ev, " ")), nil
}

// runC18Families runs family B (all cases at once: a case of mode h lasts a grace period) and then family W (one at a
// time, with goroutine accounting). Returns the number of cases in which a call did not return / Stop overran.
func runC18Families(tier string, rng *RNG, o *Out) (int, error) {
	strategies := []string{"drop", "block", "expand"}
	nH, nRe, nW := 2, 3, 2
	if tier == "thorough" {
		nH, nRe, nW = 6, 10, 10
	}
	if tier == "race" {
		nH, nRe, nW = 1, 2, 2
	}
	// family K (producers parked inside Emit while Stop runs, c18d.go) runs at the same time as family B
	waitParked := c18RunParked(tier, rng, o)
	// family D (a second Stop -- concurrent, re-entrant from the held sink, repeated -- while the first is in progress,
	// c18e.go) runs at the same time as well
	waitSecond := c18RunSecond(tier, rng, o)
	var bs []c18Blocked
	for _, st := range strategies {
		for i := 0; i < nH; i++ {
			bs = append(bs, genC18Blocked(rng, st, "h"))
		}
		for i := 0; i < nRe; i++ {
			bs = append(bs, genC18Blocked(rng, st, "ge"[rng.Intn(2):][:1]))
		}
	}
	for i := 0; i < 2*nRe; i++ {
		bs = append(bs, genC18Blocked(rng, "expand", []string{"xg", "xe"}[rng.Intn(2)]))
	}
	// every (how, mode h) combination that puts user code on the processor goroutine appears at least once
	bs = append(bs, c18Blocked{kind: "direct", strat: "drop", how: 's', mode: "h", pause: 30},
		c18Blocked{kind: "analytic", strat: "expand", how: 'i', mode: "h", pause: 31},
		c18Blocked{kind: "cepopen", strat: "block", how: 's', mode: "h", pause: 32})
	lines := make([]string, len(bs))
	errs := make([]error, len(bs))
	var wg sync.WaitGroup
	for i := range bs {
		i := i
		wg.Add(1)
		go func() { defer wg.Done(); lines[i], errs[i] = runC18Blocked(bs[i]) }()
	}
	wg.Wait()
	stuck := 0
	for i := range bs {
		if errs[i] != nil {
			return stuck, errs[i]
		}
		o.Line("%s", lines[i])
		o.Count("blocked_sink/" + bs[i].mode + "/" + string(bs[i].how))
		if c18IsStuck(lines[i]) || strings.Contains(lines[i], " so:") {
			stuck++
		}
	}
	if n, err := waitParked(); err != nil {
		return stuck, err
	} else {
		stuck += n
	}
	if n, err := waitSecond(); err != nil {
		return stuck, err
	} else {
		stuck += n
	}
	if stuck >= c18MaxStuck {
		return stuck, nil
	}
	time.Sleep(50 * time.Millisecond)
	for _, k := range []string{"direct", "analytic", "proj", "join"} {
		for _, st := range strategies {
			for i := 0; i < nW; i++ {
				c := genC18Inflight(rng, k, st)
				if i == 0 && st == "drop" {
					// per place where the call is parked, the plain shape of the family is always present: no sink when
					// the call begins, one synchronous sink registered while it is in flight, released after Stop began
					c.path, c.pre, c.adds, c.rel = "ye"[rng.Intn(2)], nil, []string{"sp"}, 'a'
					if c.path == 'e' {
						c.callers = 1
					}
				}
				l, err := runC18Inflight(c)
				if err != nil {
					return stuck, err
				}
				o.Line("%s", l)
				o.Count("inflight/" + k + "/" + string(c.path))
				if c18IsStuck(l) {
					stuck++
				}
				if stuck >= c18MaxStuck {
					return stuck, nil
				}
			}
		}
	}
	return stuck, nil
}
