package main

// C14, second family: queries with SEVERAL analytic select items (each with its own OVER clause), wrapper
// expressions over one or several analytic calls (+ - * over calls, bare columns, small literals), and a WHERE
// that combines a plain column test with an analytic call (bare had_changed, or <call> > z).
//
//   C14 M <cap> # <item> (& <item>)* # <where> # <rows> # <sync outs> # <async outs>
//     item   := <field>                                     (formats of c14.go) with the additional kind
//               expr <ncalls> <call>*ncalls <wexp> P ... W ...
//     wexp   := S<i> | C<colhex> | L<int> | + <wexp> <wexp> | - <wexp> <wexp> | * <wexp> <wexp>    (prefix form)
//     where  := <colhex|-> -                                (no analytic call; "- -" = no WHERE)
//             | <colhex|-> t <field>                        ([col > 0 AND] <bare call>)
//             | <colhex|-> g<int> <field>                   ([col > 0 AND] <call> > int)
//     outs   := one token per row: x | <item out>(/<item out>)*
import (
	"fmt"
	"sort"
	"strconv"
	"strings"
	"sync"
	"time"

	"github.com/rulego/streamsql"
	"github.com/rulego/streamsql/stream"
)

type wexp struct {
	k    byte // S C L + - *
	i    int
	col  string
	a, b *wexp
}

func (w *wexp) tok() string {
	switch w.k {
	case 'S':
		return "S" + strconv.Itoa(w.i)
	case 'C':
		return "C" + hx(w.col)
	case 'L':
		return "L" + strconv.Itoa(w.i)
	}
	return string(w.k) + " " + w.a.tok() + " " + w.b.tok()
}

// the SQL text: a Bin right operand, and a Bin left operand of a different operator, are parenthesised
func (w *wexp) sql(calls []acall) string {
	switch w.k {
	case 'S':
		return calls[w.i].sql()
	case 'C':
		return w.col
	case 'L':
		return strconv.Itoa(w.i)
	}
	l, r := w.a.sql(calls), w.b.sql(calls)
	if w.a.a != nil && w.a.k != w.k {
		l = "(" + l + ")"
	}
	if w.b.a != nil {
		r = "(" + r + ")"
	}
	return l + " " + string(w.k) + " " + r
}

// number the call leaves in print order (splitAnalyticExprMulti numbers the calls by position in the text)
func (w *wexp) number(next *int) {
	if w.a != nil {
		w.a.number(next)
		w.b.number(next)
		return
	}
	if w.k == 'S' {
		w.i = *next
		*next++
	}
}

type mitem struct {
	f     afield // kinds of c14.go; kind "expr" uses calls + w
	calls []acall
	w     *wexp
}

func (it mitem) tok() string {
	if it.f.kind != "expr" {
		return it.f.tok()
	}
	s := fmt.Sprintf("expr %d", len(it.calls))
	for _, c := range it.calls {
		s += " " + c.tok()
	}
	s += " " + it.w.tok()
	g := it.f
	g.kind = "none"
	return s + g.tok() // " P ... W ..."
}
func (it mitem) sql() string {
	if it.f.kind != "expr" {
		return it.f.sql()
	}
	return it.w.sql(it.calls) + it.f.over()
}

type mquery struct {
	items []mitem
	wcol  string // "" = none
	wtest string // "-" none, "t", "g<z>"
	wf    afield
	cap   int
}

func (q mquery) sql() string {
	s := "SELECT k"
	for i, it := range q.items {
		s += ", " + it.sql()
		if !isColsKind(it.f.kind) {
			s += " AS a" + strconv.Itoa(i)
		}
	}
	s += " FROM stream"
	var conds []string
	if q.wcol != "" {
		conds = append(conds, q.wcol+" > 0")
	}
	switch {
	case q.wtest == "t":
		conds = append(conds, q.wf.sql())
	case q.wtest != "-":
		conds = append(conds, q.wf.sql()+" > "+q.wtest[1:])
	}
	if len(conds) > 0 {
		s += " WHERE " + strings.Join(conds, " AND ")
	}
	return s
}
func (q mquery) tok() string {
	capv := q.cap
	if capv == 0 {
		capv = 10000
	}
	var its []string
	for _, it := range q.items {
		its = append(its, it.tok())
	}
	wc := "-"
	if q.wcol != "" {
		wc = hx(q.wcol)
	}
	w := wc + " -"
	if q.wtest != "-" {
		w = wc + " " + q.wtest + " " + q.wf.tok()
	}
	return fmt.Sprintf("%d # %s # %s", capv, strings.Join(its, " & "), w)
}

// one result row -> "<item out>/<item out>..."
func (q mquery) resTok(res map[string]any) string {
	if res == nil {
		return "x"
	}
	var parts []string
	for i, it := range q.items {
		if !isColsKind(it.f.kind) {
			parts = append(parts, outTok(res["a"+strconv.Itoa(i)]))
			continue
		}
		var ks []string
		for k := range res {
			if strings.HasPrefix(k, it.f.prefix) {
				ks = append(ks, k)
			}
		}
		sort.Strings(ks)
		var cells []string
		for _, k := range ks {
			cells = append(cells, hx(k)+"="+outTok(res[k]))
		}
		parts = append(parts, "M:"+strings.Join(cells, ","))
	}
	return strings.Join(parts, "/")
}

func (q mquery) open() (*streamsql.Streamsql, error) {
	opts := []streamsql.Option{streamsql.WithDiscardLog()}
	if q.cap > 0 {
		opts = append(opts, streamsql.WithAnalyticMaxPartitions(q.cap))
	}
	s := streamsql.New(opts...)
	if err := s.Execute(q.sql()); err != nil {
		return nil, fmt.Errorf("%q: %v", q.sql(), err)
	}
	return s, nil
}

func c14mSync(q mquery, rows []arow) ([]string, error) {
	s, err := q.open()
	if err != nil {
		return nil, err
	}
	defer s.Stop()
	var out []string
	for _, r := range rows {
		res, err := s.EmitSync(r.gomap())
		if err != nil {
			out = append(out, "E"+hx(err.Error()))
			continue
		}
		out = append(out, q.resTok(res))
	}
	return out, nil
}

func c14mAsync(q mquery, rows []arow, expect int) ([]string, error) {
	maps := make([]map[string]any, len(rows))
	for i, r := range rows {
		maps[i] = r.gomap()
	}
	return c14mAsyncMaps(q, maps, expect)
}

// c14mAsyncMaps emits the (fresh) row maps through Emit and collects what the synchronous sink receives
func c14mAsyncMaps(q mquery, rows []map[string]any, expect int) ([]string, error) {
	s, err := q.open()
	if err != nil {
		return nil, err
	}
	var mu sync.Mutex
	var out []string
	s.AddSyncSink(func(rs []map[string]any) {
		mu.Lock()
		for _, r := range rs {
			out = append(out, q.resTok(r))
		}
		mu.Unlock()
	})
	for _, r := range rows {
		s.Emit(r)
	}
	n := func() int { mu.Lock(); defer mu.Unlock(); return len(out) }
	deadline := time.Now().Add(3 * time.Second)
	for n() < expect && time.Now().Before(deadline) {
		time.Sleep(200 * time.Microsecond)
	}
	time.Sleep(300 * time.Microsecond)
	if expect == 0 {
		time.Sleep(3 * time.Millisecond)
	}
	s.Stop()
	mu.Lock()
	defer mu.Unlock()
	return append([]string(nil), out...), nil
}

// ---------------------------------------------------------------- generators
func c14Over(rng *RNG, f *afield) {
	switch rng.Intn(8) {
	case 0, 1:
	case 2:
		f.part = []string{"p", "q"}
	default:
		f.part = []string{"p"}
	}
	if rng.Intn(3) == 0 {
		f.when = "g"
	}
}

func c14WrapCall(rng *RNG) acall {
	for {
		c := c14Call(rng)
		if c.fn != "avg" { // a non-integer float operand is outside the model's integer arithmetic
			return c
		}
	}
}

func c14Wexp(rng *RNG) (*wexp, []acall) {
	var calls []acall
	leaf := func(forceCall bool) *wexp {
		x := rng.Intn(10)
		switch {
		case forceCall || x < 7:
			calls = append(calls, c14WrapCall(rng))
			return &wexp{k: 'S'}
		case x < 9:
			return &wexp{k: 'C', col: rng.Pick([]string{"v", "w"})}
		}
		return &wexp{k: 'L', i: rng.Intn(4)}
	}
	op := func() byte { return "+-*"[rng.Intn(3)] }
	var w *wexp
	switch x := rng.Intn(10); {
	case x < 5: // a op b
		first := rng.Bool()
		a := leaf(first)
		b := leaf(!first)
		w = &wexp{k: op(), a: a, b: b}
	case x < 8: // (a op b) op c : printed without parentheses when the operators are equal
		o1 := op()
		o2 := o1
		if rng.Intn(3) == 0 {
			o2 = op()
		}
		a := leaf(true)
		b := leaf(false)
		c := leaf(false)
		w = &wexp{k: o2, a: &wexp{k: o1, a: a, b: b}, b: c}
	default: // a op (b op c)
		a := leaf(false)
		b := leaf(true)
		c := leaf(false)
		w = &wexp{k: op(), a: a, b: &wexp{k: op(), a: b, b: c}}
	}
	n := 0
	w.number(&n)
	return w, calls
}

func c14Item(rng *RNG, allowCols bool) mitem {
	var it mitem
	x := rng.Intn(100)
	switch {
	case x < 50:
		it.f.kind = "expr"
		it.w, it.calls = c14Wexp(rng)
	case x < 62 && allowCols:
		it.f.kind, it.f.prefix, it.f.ignx = "cols", rng.Pick([]string{"c_", "x"}), aexp{k: 'b', b: rng.Bool()}
		it.f.cols = [][]string{{"v"}, {"v", "w"}, {"w", "v", "g"}}[rng.Intn(3)]
	case x < 70:
		it.f.kind, it.f.wcol, it.f.c1 = "wrapf", rng.Pick([]string{"v", "w"}), c14WrapCall(rng)
		for it.f.c1.fn == "had" {
			it.f.c1 = c14WrapCall(rng)
		}
	default:
		it.f.kind, it.f.c1 = "single", c14Call(rng)
	}
	c14Over(rng, &it.f)
	return it
}

func isColsKind(k string) bool { return k == "cols" || k == "colsstar" }

// ---------------------------------------------------------------- whole-row / alias-named family
// Queries with 2-3 analytic select items (and sometimes an analytic call in WHERE) in which one item - mostly the
// LAST one - reads more of the row than an ordinary column: had_changed(ign, *) (whole row by column name),
// changed_cols(prefix, ign, *) (every column of the row) or a call whose argument is an input column NAMED LIKE THE
// ALIAS of another item (a0, a1).  The other items are calls whose result keeps changing while the input rows
// repeat (lag right after a change, acc_sum / acc_count / latest / acc_max ...).  The rows have one fixed set of
// columns (k, p, v, w [, g] [, a<j>]) with few values and about half of the rows repeat the previous row of their
// partition, so "unchanged" is frequent.  The specification of every call reads the INPUT row: the results of
// the other calls of the query are outputs, never input columns.  changed_cols(.., *) is written on the case line
// as changed_cols over the (fixed) column set of the rows, which is its declarative reading.
func c14StarJob(rng *RNG) (mquery, []arow, string) {
	var q mquery
	q.wtest = "-"
	n := 2 + rng.Intn(2)
	sub := []string{"named", "named", "named", "colsstar", "colsstar", "alias", "alias"}[rng.Intn(7)]
	pos := n - 1
	if rng.Intn(5) == 0 {
		pos = 0
	}
	vcol := aexp{k: 'c', col: "v"}
	feed := func() mitem {
		var it mitem
		if rng.Intn(10) < 7 {
			var c acall
			switch rng.Intn(7) {
			case 0:
				c = acall{fn: "lag", args: []aexp{vcol}}
			case 1:
				c = acall{fn: "lag", args: []aexp{vcol, {k: 'n', z: rng.Range(1, 2)}, {k: 'n', z: 0}}}
			case 2, 3:
				c = acall{fn: "sum", args: []aexp{vcol}}
			case 4:
				c = acall{fn: "count", args: []aexp{vcol}}
			case 5:
				c = acall{fn: "latest", args: []aexp{vcol}}
			default:
				c = acall{fn: rng.Pick([]string{"max", "min"}), args: []aexp{vcol}}
			}
			it.f.kind, it.f.c1 = "single", c
			if rng.Intn(4) != 0 {
				it.f.part = []string{"p"}
			}
			if rng.Intn(5) == 0 {
				it.f.when = "g"
			}
			return it
		}
		it = c14Item(rng, false)
		if len(it.f.part) == 2 {
			it.f.part = []string{"p"}
		}
		return it
	}
	acol := ""
	for i := 0; i < n; i++ {
		if i != pos {
			q.items = append(q.items, feed())
			continue
		}
		var it mitem
		switch sub {
		case "named":
			it.f.kind, it.f.ign = "named", rng.Bool()
		case "colsstar":
			it.f.kind, it.f.prefix, it.f.ignx = "colsstar", "c_", aexp{k: 'b', b: rng.Bool()}
		default:
			j := rng.Intn(n - 1)
			if j >= pos {
				j++
			}
			acol = "a" + strconv.Itoa(j)
			ac := aexp{k: 'c', col: acol}
			flag := aexp{k: 'b', b: rng.Bool()}
			var c acall
			switch rng.Intn(7) {
			case 0:
				c = acall{fn: "lag", args: []aexp{ac}}
			case 1:
				c = acall{fn: "latest", args: []aexp{ac}}
			case 2:
				c = acall{fn: "had", args: []aexp{flag, ac}}
			case 3:
				c = acall{fn: "had", args: []aexp{flag, vcol, ac}}
			case 4:
				c = acall{fn: "ccol", args: []aexp{flag, ac}}
			case 5:
				c = acall{fn: "sum", args: []aexp{ac}}
			default:
				c = acall{fn: rng.Pick([]string{"max", "count"}), args: []aexp{ac}}
			}
			it.f.kind, it.f.c1 = "single", c
		}
		if rng.Intn(4) != 0 {
			it.f.part = []string{"p"}
		}
		if rng.Intn(6) == 0 {
			it.f.when = "g"
		}
		q.items = append(q.items, it)
	}
	switch x := rng.Intn(20); {
	case x < 13:
	case x < 17: // WHERE had_changed(ign, *) OVER (..): evaluated next to the select items, on the input row
		q.wtest = "t"
		q.wf = afield{kind: "named", ign: rng.Bool()}
		if rng.Intn(4) != 0 {
			q.wf.part = []string{"p"}
		}
	default:
		q.wtest = "g" + strconv.Itoa(rng.Intn(2))
		q.wf = afield{kind: "single", c1: acall{fn: rng.Pick([]string{"lag", "sum", "count"}), args: []aexp{vcol}}, part: []string{"p"}}
	}
	q.cap = []int{0, 0, 3, 5}[rng.Intn(4)]
	// rows: one fixed column set
	useG := q.wf.when == "g"
	for _, it := range q.items {
		if it.f.when == "g" {
			useG = true
		}
	}
	nparts := rng.Range(1, 3)
	if len(q.items[pos].f.part) == 0 && rng.Intn(3) != 0 {
		nparts = 1
	}
	var cand []aval
	for _, v := range c14PartPool {
		if v.k != 'A' {
			cand = append(cand, v)
		}
	}
	for i := len(cand) - 1; i > 0; i-- {
		j := rng.Intn(i + 1)
		cand[i], cand[j] = cand[j], cand[i]
	}
	pool := cand[:nparts]
	last := make([]arow, nparts)
	nrows := rng.Range(6, 30)
	rows := make([]arow, 0, nrows)
	small := func() aval {
		switch x := rng.Intn(20); {
		case x < 2:
			return aval{k: 'N'}
		case x < 3:
			return aval{k: 'd', z: rng.Range(1, 3)}
		}
		return aval{k: 'i', z: rng.Range(1, 4)}
	}
	cell := func(col string, v aval) struct {
		col string
		v   aval
	} {
		return struct {
			col string
			v   aval
		}{col, v}
	}
	for i := 0; i < nrows; i++ {
		pi := rng.Intn(nparts)
		if last[pi] != nil && rng.Intn(100) < 50 {
			rows = append(rows, last[pi]) // the previous row of the partition again
			continue
		}
		r := arow{cell("k", aval{k: 'i', z: 1}), cell("p", pool[pi]), cell("v", small()), cell("w", aval{k: 'i', z: rng.Intn(2)})}
		if useG {
			g := aval{k: 'i', z: 1}
			if rng.Intn(10) < 3 {
				g.z = 0
			}
			r = append(r, cell("g", g))
		}
		if acol != "" {
			r = append(r, cell(acol, aval{k: 'i', z: rng.Range(1, 3)}))
		}
		rows = append(rows, r)
		last[pi] = r
	}
	if sub == "colsstar" {
		var cs []string
		for _, c := range rows[0] {
			cs = append(cs, c.col)
		}
		sort.Strings(cs)
		q.items[pos].f.cols = cs
	}
	return q, rows, sub
}

func c14MQuery(rng *RNG) mquery {
	var q mquery
	n := []int{1, 1, 2, 2, 2, 3}[rng.Intn(6)]
	cols := false
	for i := 0; i < n; i++ {
		it := c14Item(rng, !cols)
		if it.f.kind == "cols" {
			cols = true
		}
		q.items = append(q.items, it)
	}
	q.wtest = "-"
	switch x := rng.Intn(20); {
	case x < 4:
	case x < 7:
		q.wcol = "f"
	default:
		if x >= 15 {
			q.wcol = "f"
		}
		col := rng.Pick([]string{"v", "w"})
		if rng.Intn(3) == 0 {
			q.wtest = "t"
			q.wf = afield{kind: "single", c1: acall{fn: "had", args: []aexp{{k: 'b', b: rng.Bool()}, {k: 'c', col: col}}}}
		} else {
			q.wtest = "g" + strconv.Itoa(rng.Intn(3))
			var c acall
			switch rng.Intn(5) {
			case 0, 1:
				c = acall{fn: "lag", args: []aexp{{k: 'c', col: col}}}
				if rng.Bool() {
					c.args = append(c.args, aexp{k: 'n', z: rng.Range(1, 2)})
				}
			case 2:
				c = acall{fn: "latest", args: []aexp{{k: 'c', col: col}}}
			case 3:
				c = acall{fn: "count", args: []aexp{{k: 'c', col: col}}}
			default:
				c = acall{fn: rng.Pick([]string{"sum", "max", "min"}), args: []aexp{{k: 'c', col: col}}}
			}
			q.wf = afield{kind: "single", c1: c}
		}
		c14Over(rng, &q.wf)
	}
	q.cap = []int{0, 0, 1, 2, 3, 5}[rng.Intn(6)]
	return q
}

func runC14M(tier string, rng *RNG, o *Out) error {
	nq := 900
	if tier == "thorough" {
		nq = 20000
	}
	type job struct {
		q    mquery
		rows []arow
	}
	jobs := make([]job, nq)
	evict := make([]bool, nq)
	star := make([]string, nq)
	for i := range jobs {
		q := c14MQuery(rng)
		rows := c14Rows(rng, aquery{})
		fam := rng.Intn(100)
		if fam >= 15 && fam < 33 {
			// whole-row / alias-named family (c14StarJob): a call's input is the INPUT row only
			q, rows, star[i] = c14StarJob(rng)
		}
		if fam < 15 {
			// eviction family (c14.go c14EvictRows): every item partitioned by p, most of them (and the WHERE call)
			// gated by WHEN g > 0, cap below the number of partitions, partitions that return after their eviction
			evict[i] = true
			q.cap = c14EvictCap(rng)
			for k := range q.items {
				q.items[k].f.part = []string{"p"}
				if k == 0 || rng.Intn(10) < 7 {
					q.items[k].f.when = "g"
				}
			}
			if q.wtest != "-" {
				q.wf.part = []string{"p"}
				if rng.Bool() {
					q.wf.when = "g"
				}
			}
			rows = c14EvictRows(rng, rows, q.cap)
		}
		jobs[i] = job{q, rows}
	}
	lines := make([]string, nq)
	var wg sync.WaitGroup
	var emu sync.Mutex
	var firstErr error
	sem := make(chan struct{}, 8)
	for i := range jobs {
		i := i
		wg.Add(1)
		sem <- struct{}{}
		go func() {
			defer wg.Done()
			defer func() { <-sem }()
			j := jobs[i]
			so, err := c14mSync(j.q, j.rows)
			var ao []string
			if err == nil {
				expect := 0
				for _, t := range so {
					if t != "x" {
						expect++
					}
				}
				ao, err = c14mAsync(j.q, j.rows, expect)
			}
			if err != nil {
				emu.Lock()
				if firstErr == nil {
					firstErr = err
				}
				emu.Unlock()
				return
			}
			var rt []string
			for _, r := range j.rows {
				rt = append(rt, r.tok())
			}
			lines[i] = fmt.Sprintf("C14 M %s # %s # %s # %s", j.q.tok(), strings.Join(rt, " ; "), strings.Join(so, " "), strings.Join(ao, " "))
		}()
	}
	wg.Wait()
	if firstErr != nil {
		return firstErr
	}
	for i, l := range lines {
		o.Line("%s", l)
		q := jobs[i].q
		o.Count(fmt.Sprintf("m_items_%d", len(q.items)))
		if evict[i] {
			o.Count("m_evict_family")
		}
		if star[i] != "" {
			o.Count("m_star_family")
			o.Count("m_star_" + star[i])
		}
		for _, it := range q.items {
			o.Count("m_item_" + it.f.kind)
			if it.f.kind == "expr" {
				o.Count(fmt.Sprintf("m_expr_calls_%d", len(it.calls)))
			}
			if len(it.f.part) > 0 {
				seen := map[string]bool{}
				for _, r := range jobs[i].rows {
					seen[stream.VerifPartitionKey(it.f.part, r.gomap())] = true
				}
				capv := q.cap
				if capv == 0 {
					capv = 10000
				}
				if len(seen) > capv {
					o.Count("m_item_partitions_above_cap")
				} else {
					o.Count("m_item_partitions_within_cap")
				}
			}
		}
		switch {
		case q.wtest == "-" && q.wcol == "":
			o.Count("m_where_none")
		case q.wtest == "-":
			o.Count("m_where_col")
		case q.wcol == "":
			o.Count("m_where_analytic")
		default:
			o.Count("m_where_col_and_analytic")
		}
	}
	return nil
}
