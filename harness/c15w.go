package main

// C15 — families W (wall-clock idle periods) and T (typed partition values).
//
// W: the query has a WITHIN clause, so the stream started by Execute runs the engine's WITHIN sweeper
// goroutine (interval WITHIN/2, at least 50 ms). REAL pauses longer than the sweep interval are put
// between events: after an event that reported a match (the partition is then usually idle: no
// partial run, no parked match) and at a random position (partial runs in flight). All timestamps are
// small sequence numbers (< 1e9), which the sweeper never expires by wall clock, so the reference is
// unchanged: the result is a function of the event sequence alone, and MATCH_NUMBER goes on counting
// 1, 2, 3 .. per partition for the whole life of the query, however long a partition stayed idle.
//
//	C15 W <pause>ms@<ids after which the harness slept, comma separated | -> <skip> .. (as the random family)
//
// T: exactly ONE PARTITION BY column whose values have different Go types but the same printed form
// (7 / "7" / 7.0 / int64(7), true / "true", absent or nil / ""), interleaved. Reference: values of
// different dynamic type are different partitions (an absent column and an explicit nil are the same
// NULL partition); a match is a run of rows of one partition, other partitions never matter,
// MATCH_NUMBER counts per partition.
//
//	C15 T <p0=type:value,p1=..> <skip> .. (as the random family; part = index into that list)
//
// Both are judged by chk_C15 and the reference matcher ref_part (ocaml/c15.ml strips the prefix).
import (
	"fmt"
	"strings"
	"time"
)

// c15absent marks "the partition column is absent from the event (or an explicit nil)"
type c15absent struct{}

func c15pdesc(vals []any) string {
	var parts []string
	for i, v := range vals {
		d := ""
		switch x := v.(type) {
		case c15absent:
			d = "absent|nil"
		case string:
			d = "string:'" + x + "'"
		default:
			d = fmt.Sprintf("%T:%v", v, v)
		}
		parts = append(parts, fmt.Sprintf("p%d=%s", i, d))
	}
	return strings.Join(parts, ",")
}

var c15confusable = [][]any{
	{7, "7", 7.0, int64(7)},
	{7, "7", 7.0},
	{0, "0", 0.0},
	{true, "true"},
	{false, "false"},
	{c15absent{}, ""},
	{1.5, "1.5"},
	{int64(12), "12", 12},
}

// family T
func c15typed(r *RNG, maxRows int) *c15case {
	var c *c15case
	np := 0
	for {
		c = c15random(r, maxRows)
		seen := map[int]bool{}
		for _, row := range c.rows {
			seen[row.part] = true
		}
		np = 0
		for p := range seen {
			if p+1 > np {
				np = p + 1
			}
		}
		if !c.noPart && len(seen) >= 2 && len(c.rows) >= 4 {
			break
		}
	}
	g := c15confusable[r.Intn(len(c15confusable))]
	vals := append([]any{}, g...)
	for i := len(vals) - 1; i > 0; i-- {
		j := r.Intn(i + 1)
		vals[i], vals[j] = vals[j], vals[i]
	}
	for len(vals) < np {
		vals = append(vals, "x") // a third, unrelated partition next to a pair
	}
	c.pvals = vals[:np]
	c.fam = "T " + c15pdesc(c.pvals) + " "
	c.nilSeed = r.Next()
	c.tag = "T_typed_partition_values T_" + strings.ReplaceAll(c.tag, " ", " T_")
	switch g[0].(type) {
	case int, int64, float64:
		c.tag += " T_number_vs_string"
	case bool:
		c.tag += " T_bool_vs_string"
	default:
		c.tag += " T_null_vs_empty_string"
	}
	return c
}

func c15tcorpus() []*c15case {
	ab := c15seq(c15lit(0), c15lit(1))
	mk := func(part []int, cls string) []c15row {
		var out []c15row
		for i := range part {
			out = append(out, c15row{part: part[i], cls: strings.IndexByte(c15classes, cls[i]), v: i % 3, ts: i + 1})
		}
		return out
	}
	var out []*c15case
	for _, g := range [][]any{{7, "7"}, {true, "true"}, {c15absent{}, ""}, {7, 7.0}} {
		// A of one partition, B of the other, B of the first; then a whole match of the other
		out = append(out, &c15case{pat: ab, nv: 2, defs: []c15def{{1, 0}, {2, 0}}, skip: "P",
			rows: mk([]int{0, 1, 0, 1, 1}, "abbab"), pvals: g, fam: "T " + c15pdesc(g) + " ", tag: "T_corpus"})
	}
	return out
}

// family W
func c15wallclock(r *RNG, maxRows int) *c15case {
	var c *c15case
	if r.Intn(2) == 0 {
		for {
			c = c15random(r, maxRows)
			if len(c.rows) >= 5 {
				break
			}
		}
	} else {
		// short patterns over two exclusive variables, rows mostly a / b: several matches per partition
		c = &c15case{nv: 2, defs: []c15def{{1, 0}, {2, 0}}}
		a, b := c15lit(0), c15lit(1)
		switch r.Intn(6) {
		case 0, 1:
			c.pat = c15seq(a, b)
		case 2:
			c.pat = c15seq(c15rep(1, -1, a), b)
		case 3:
			c.pat = c15rep(2, 2, a)
		case 4:
			c.pat = c15seq(a, c15rep(0, 1, b))
		default:
			c.pat = c15seq(a, c15alt(b, a))
		}
		c.skip = []string{"P", "p", "N", "L"}[r.Intn(4)]
		if c.skip == "L" {
			c.skipVar = r.Intn(2)
		}
		np := r.Range(1, 3)
		c.noPart = np == 1 && r.Intn(3) == 0
		c.allRows = r.Intn(4) == 0
		n := r.Range(8, maxRows)
		ts := 1
		per := make([]int, np)
		for i := 0; i < n; i++ {
			p := r.Intn(np)
			if per[p] >= 9 {
				continue
			}
			per[p]++
			cl := r.Intn(2)
			if r.Intn(100) < 12 {
				cl = 2 + r.Intn(3)
			}
			ts += r.Intn(2)
			c.rows = append(c.rows, c15row{part: p, cls: cl, v: r.Intn(5), ts: ts})
		}
		c.tag = fmt.Sprintf("def_exclusive skip_%s parts_%d template", c.skip, np)
		if c.allRows {
			c.tag += " all_rows_per_match"
		} else {
			c.tag += " one_row_per_match"
		}
	}
	// a WITHIN clause (the sweeper only runs with one): a few timestamp units (sweep interval 50 ms,
	// WITHIN still cuts runs by event time) or 100-200 ms (never reached by the small timestamps)
	if r.Intn(2) == 0 {
		if c.within == 0 {
			c.within = r.Range(3, 8)
		}
		c.pauseMs = 50 + 60
	} else {
		ms := []int{100, 150, 200}[r.Intn(3)]
		c.within = ms * 1000000
		c.withinText = fmt.Sprintf("WITHIN '%dms' ", ms)
		c.pauseMs = ms/2 + 60
	}
	c.pauseEmits = r.Range(1, 2)
	if r.Intn(2) == 0 {
		c.pauseAt = r.Range(1, len(c.rows)-1)
	}
	c.wall = true
	c.tag = "W_wallclock_idle W_" + strings.ReplaceAll(strings.ReplaceAll(c.tag, " within", ""), " ", " W_")
	if c.withinText != "" {
		c.tag += " W_within_100_200ms"
	} else {
		c.tag += " W_within_small"
	}
	return c
}

func c15wcorpus() []*c15case {
	mk := func(part []int, cls string) []c15row {
		var out []c15row
		for i := range part {
			out = append(out, c15row{part: part[i], cls: strings.IndexByte(c15classes, cls[i]), v: i % 3, ts: i + 1})
		}
		return out
	}
	// two partitions match, idle, the first matches again (twice): numbers 1, 1, 2, 3
	return []*c15case{
		{pat: c15seq(c15lit(0), c15lit(1)), nv: 2, defs: []c15def{{1, 0}, {2, 0}}, skip: "P",
			within: 100000000, withinText: "WITHIN '100ms' ", wall: true, pauseMs: 120, pauseEmits: 2,
			rows: mk([]int{0, 0, 1, 1, 0, 0, 0, 0}, "abababab"), tag: "W_corpus"},
		{pat: c15rep(1, -1, c15lit(0)), nv: 1, defs: []c15def{{1, 0}}, skip: "P", noPart: true,
			within: 4, wall: true, pauseMs: 110, pauseEmits: 2,
			rows: mk([]int{0, 0, 0, 0, 0, 0}, "abaaba"), tag: "W_corpus"},
	}
}

func (c *c15case) pause() { time.Sleep(time.Duration(c.pauseMs) * time.Millisecond) }
