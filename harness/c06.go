package main

// C06 — scalar expressions.  Generates well-typed (and a share of ill-typed) expressions over the
// columns {a,b,c,s,t}, renders them as text with exactly the parentheses the grammar needs, and
// runs the REAL code:
//   P lines: expr.VerifTokenize + expr.NewExpression (parser)       -> tokens and AST
//   V lines: Evaluate / EvaluateWithNull / EvaluateValueWithNull / EvaluateBool on generated rows,
//            each after several different row histories
//   B lines: functions.ExprBridge.EvaluateExpression (expr-lang path)
//   S / H lines: SELECT <expr> AS x / WHERE <expr> through streamsql EmitSync
//   D lines: differential runs for built-ins without a Gallina meaning
//   M lines: malformed / ill-typed text: error or NULL, never a panic
// The extracted Coq model replays every line (ocaml/c06.ml).

import (
	"encoding/hex"
	"fmt"
	"math"
	"math/big"
	"sort"
	"strings"

	"github.com/rulego/streamsql"
	"github.com/rulego/streamsql/expr"
	"github.com/rulego/streamsql/functions"
)

func init() { runners["C06"] = runC06 }

// ---------------------------------------------------------------- source expressions
type ex struct {
	k    string // num str col neg bin cmp and or call par
	op   string
	q    *big.Rat
	s    string
	l, r *ex
	args []*ex
}
type etop struct {
	isCase bool
	e      *ex
	v      *ex
	whens  [][2]*ex
	els    *ex
}

func num(n, d int64) *ex { return &ex{k: "num", q: big.NewRat(n, d)} }
func col(s string) *ex    { return &ex{k: "col", s: s} }
func str(s string) *ex    { return &ex{k: "str", s: s} }
func bin(op string, l, r *ex) *ex { return &ex{k: "bin", op: op, l: l, r: r} }
func cmp(op string, l, r *ex) *ex { return &ex{k: "cmp", op: op, l: l, r: r} }

var binText = map[string]string{"add": "+", "sub": "-", "mul": "*", "div": "/", "mod": "%", "pow": "^"}
var cmpText = map[string]string{"eq": "=", "eq2": "==", "ne": "!=", "ne2": "<>", "lt": "<", "le": "<=", "gt": ">", "ge": ">="}
var binName = map[string]string{"+": "add", "-": "sub", "*": "mul", "/": "div", "%": "mod", "^": "pow"}
var cmpName = map[string]string{"=": "eq", "==": "eq2", "!=": "ne", "<>": "ne2", "<": "lt", "<=": "le", ">": "gt", ">=": "ge"}

func level(e *ex) int {
	switch e.k {
	case "or":
		return 0
	case "and":
		return 1
	case "cmp":
		return 2
	case "bin":
		switch e.op {
		case "add", "sub":
			return 3
		case "mul", "div", "mod":
			return 4
		}
		return 5
	case "neg":
		return 6
	}
	return 7
}

func ratText(q *big.Rat) string {
	if q.IsInt() {
		return q.Num().String()
	}
	// dyadic: exact decimal
	for p := 1; p < 20; p++ {
		s := q.FloatString(p)
		if r, ok := new(big.Rat).SetString(s); ok && r.Cmp(q) == 0 {
			return s
		}
	}
	return q.FloatString(20)
}

// text with exactly the parentheses the precedence ladder needs (mirrors Model.ExprSyntax.pr)
func c06Render(p int, e *ex) string {
	var body string
	switch e.k {
	case "num":
		body = ratText(e.q)
	case "str":
		body = "'" + e.s + "'"
	case "col":
		body = e.s
	case "neg":
		body = "-" + c06Render(6, e.l)
	case "or":
		body = c06Render(0, e.l) + " OR " + c06Render(1, e.r)
	case "and":
		body = c06Render(1, e.l) + " AND " + c06Render(2, e.r)
	case "cmp":
		body = c06Render(3, e.l) + " " + cmpText[e.op] + " " + c06Render(3, e.r)
	case "bin":
		if e.op == "pow" {
			body = c06Render(6, e.l) + " ^ " + c06Render(5, e.r)
		} else {
			body = c06Render(level(e), e.l) + " " + binText[e.op] + " " + c06Render(level(e)+1, e.r)
		}
	case "call":
		var as []string
		for _, a := range e.args {
			as = append(as, c06Render(0, a))
		}
		body = e.s + "(" + strings.Join(as, ", ") + ")"
	case "par":
		body = "(" + c06Render(0, e.l) + ")"
	case "gate":
		// C05, overlap family: the identity function vgate registered by the harness (a scheduling point
		// inside the evaluation); its meaning, and its encoding for the model, is that of (operand)
		body = "vgate(" + c06Render(0, e.l) + ")"
	}
	if p <= level(e) {
		return body
	}
	return "(" + body + ")"
}

func renderTop(t *etop) string {
	if !t.isCase {
		return c06Render(0, t.e)
	}
	s := "CASE"
	if t.v != nil {
		s += " " + c06Render(0, t.v)
	}
	for _, w := range t.whens {
		s += " WHEN " + c06Render(0, w[0]) + " THEN " + c06Render(0, w[1])
	}
	if t.els != nil {
		s += " ELSE " + c06Render(0, t.els)
	}
	return s + " END"
}

func ratEnc(q *big.Rat) string { return q.Num().String() + "/" + q.Denom().String() }

// prefix encoding read by ocaml/c06.ml
func c06_enc(e *ex) string {
	switch e.k {
	case "num":
		return "n " + ratEnc(e.q)
	case "str":
		return "s " + hx(e.s)
	case "col":
		return "c " + hx(e.s)
	case "neg":
		return "neg " + c06_enc(e.l)
	case "or", "and":
		return e.k + " " + c06_enc(e.l) + " " + c06_enc(e.r)
	case "cmp":
		return "p " + e.op + " " + c06_enc(e.l) + " " + c06_enc(e.r)
	case "bin":
		return "b " + e.op + " " + c06_enc(e.l) + " " + c06_enc(e.r)
	case "par", "gate":
		return "par " + c06_enc(e.l)
	case "call":
		s := fmt.Sprintf("f %s %d", hx(e.s), len(e.args))
		for _, a := range e.args {
			s += " " + c06_enc(a)
		}
		return s
	}
	return "?"
}
func encTop(t *etop) string {
	if !t.isCase {
		return "E " + c06_enc(t.e)
	}
	s := "K"
	if t.v != nil {
		s += " v1 " + c06_enc(t.v)
	} else {
		s += " v0"
	}
	s += fmt.Sprintf(" %d", len(t.whens))
	for _, w := range t.whens {
		s += " " + c06_enc(w[0]) + " " + c06_enc(w[1])
	}
	if t.els != nil {
		s += " e1 " + c06_enc(t.els)
	} else {
		s += " e0"
	}
	return s
}

// leftmost token of the rendered operand is a negative literal: after a keyword the tokenizer would
// read the '-' as a binary minus (precededByValue sees a letter), so such operands get parentheses
func startsNeg(e *ex) bool {
	switch e.k {
	case "num":
		return e.q.Sign() < 0
	case "neg":
		return true // "-x" after a keyword is tokenized the same way ("-" "x"), harmless; but "-5"... keep simple
	case "or", "and", "cmp":
		return startsNeg(e.l)
	case "bin":
		return startsNeg(e.l)
	}
	return false
}
func guardKw(e *ex) *ex {
	if e != nil && startsNeg(e) {
		return &ex{k: "par", l: e}
	}
	return e
}

// normal form for text: no "neg" directly on a non-negative literal ("-5" is one number token), and no
// negative literal as the first token after AND / OR
func norm(e *ex) *ex {
	if e == nil {
		return nil
	}
	switch e.k {
	case "neg":
		e.l = norm(e.l)
		if e.l.k == "num" && e.l.q.Sign() >= 0 {
			return &ex{k: "num", q: new(big.Rat).Neg(e.l.q)}
		}
	case "or", "and":
		e.l = norm(e.l)
		e.r = guardKw(norm(e.r))
	case "cmp", "bin":
		e.l = norm(e.l)
		e.r = norm(e.r)
	case "par", "gate":
		e.l = norm(e.l)
	case "call":
		for i := range e.args {
			e.args[i] = norm(e.args[i])
		}
	}
	return e
}
func normTop(t *etop) *etop {
	if !t.isCase {
		t.e = norm(t.e)
		return t
	}
	t.v = guardKw(norm(t.v))
	for i := range t.whens {
		t.whens[i][0] = guardKw(norm(t.whens[i][0]))
		t.whens[i][1] = guardKw(norm(t.whens[i][1]))
	}
	t.els = guardKw(norm(t.els))
	return t
}

// ---------------------------------------------------------------- rows
type cell struct {
	kind string // N i f s b  (absent columns are simply not in the row)
	i    int64
	f    float64
	s    string
	b    bool
}
type rowT map[string]cell

func (r rowT) goMap() map[string]any {
	m := map[string]any{}
	for k, c := range r {
		switch c.kind {
		case "N":
			m[k] = nil
		case "i":
			m[k] = int(c.i)
		case "f":
			m[k] = c.f
		case "s":
			m[k] = c.s
		case "b":
			m[k] = c.b
		}
	}
	return m
}
func (r rowT) c06_enc() string {
	keys := make([]string, 0, len(r))
	for k := range r {
		keys = append(keys, k)
	}
	sort.Strings(keys)
	var out []string
	for _, k := range keys {
		c := r[k]
		v := "N"
		switch c.kind {
		case "i":
			v = fmt.Sprintf("i%d/1", c.i)
		case "f":
			v = "f" + ratEnc(new(big.Rat).SetFloat64(c.f))
		case "s":
			v = "s" + hx(c.s)
		case "b":
			v = "b" + b01(c.b)
		}
		out = append(out, hx(k)+":"+v)
	}
	if len(out) == 0 {
		return "-"
	}
	return strings.Join(out, " ")
}

var intPool = []int64{0, 1, 2, 3, 4, 5, -2, 7, 10}
var fltPool = []float64{0.5, 2.5, -1.5, 4, 0.25, 3, 0, 10.75}
var c06StrPool = []string{"ab", "", "b", "abc", "Ab", "x1", "zz", "true"}
var numStrPool = []string{"12", "2.5", "-3", "007"}

func genCell(r *RNG, numeric, text bool) (cell, bool) {
	// returns (cell, present)
	switch r.Intn(10) {
	case 0:
		return cell{}, false // absent
	case 1:
		return cell{kind: "N"}, true
	}
	if numeric {
		if r.Bool() {
			return cell{kind: "i", i: intPool[r.Intn(len(intPool))]}, true
		}
		return cell{kind: "f", f: fltPool[r.Intn(len(fltPool))]}, true
	}
	if text {
		if r.Intn(8) == 0 {
			return cell{kind: "s", s: numStrPool[r.Intn(len(numStrPool))]}, true
		}
		return cell{kind: "s", s: c06StrPool[r.Intn(len(c06StrPool))]}, true
	}
	return cell{kind: "b", b: r.Bool()}, true
}

// typed row: a,b numeric; s,t text; c bool.  illTyped: any column may hold any kind.
func genRow(r *RNG, illTyped bool) rowT {
	row := rowT{}
	for _, k := range []string{"a", "b", "c", "s", "t"} {
		numeric, text := k == "a" || k == "b", k == "s" || k == "t"
		if illTyped && r.Intn(3) == 0 {
			x := r.Intn(3)
			numeric, text = x == 0, x == 1
		}
		if c, ok := genCell(r, numeric, text); ok {
			row[k] = c
		}
	}
	return row
}

// ---------------------------------------------------------------- generators
var litPool = [][2]int64{{0, 1}, {1, 1}, {2, 1}, {3, 1}, {5, 1}, {-2, 1}, {1, 2}, {5, 2}, {-3, 2}, {1, 4}, {10, 1}}

type gen struct {
	r     *RNG
	funcs bool // allow built-in calls
	wild  bool // allow ill-typed combinations
	caret bool // allow ^ and % (the SQL lexer rejects them)
	ne2   bool // allow <> and ==
}

func (g *gen) lit() *ex { p := litPool[g.r.Intn(len(litPool))]; return num(p[0], p[1]) }
func (g *gen) numE(d int) *ex {
	r := g.r
	if d <= 0 || r.Intn(4) == 0 {
		switch r.Intn(5) {
		case 0, 1:
			return g.lit()
		case 2:
			if g.wild && r.Intn(4) == 0 {
				return col(r.Pick([]string{"s", "t", "c"}))
			}
			return col("b")
		default:
			return col("a")
		}
	}
	switch x := r.Intn(14); {
	case x < 3:
		return bin("add", g.numE(d-1), g.numE(d-1))
	case x < 5:
		return bin("sub", g.numE(d-1), g.numE(d-1))
	case x < 8:
		return bin("mul", g.numE(d-1), g.numE(d-1))
	case x == 8:
		// division: by a power of two (exact in float64), rarely by zero or by a column
		var dv *ex
		switch r.Intn(8) {
		case 0:
			dv = num(0, 1)
		case 1:
			dv = col("b")
		default:
			dv = [](*ex){num(2, 1), num(4, 1), num(1, 2), num(-2, 1)}[r.Intn(4)]
		}
		return bin("div", g.numE(d-1), dv)
	case x == 9:
		return &ex{k: "neg", l: g.numE(d - 1)}
	case x == 10:
		return &ex{k: "par", l: g.numE(d - 1)}
	case x == 11 && g.caret:
		if r.Bool() {
			return bin("pow", g.numE(d-1), num(int64(r.Intn(4)), 1))
		}
		return bin("mod", g.numE(d-1), [](*ex){num(2, 1), num(3, 1), num(1, 2), num(-2, 1), num(0, 1)}[r.Intn(5)])
	case x >= 12 && g.funcs:
		return g.numCall(d)
	}
	return bin("add", g.numE(d-1), g.lit())
}
func (g *gen) numCall(d int) *ex {
	r := g.r
	call := func(name string, args ...*ex) *ex { return &ex{k: "call", s: name, args: args} }
	switch r.Intn(9) {
	case 0:
		return call("abs", g.numE(d-1))
	case 1:
		return call("floor", g.numE(d-1))
	case 2:
		return call(r.Pick([]string{"ceil", "ceiling"}), g.numE(d-1))
	case 3:
		return call("round", g.numE(d-1))
	case 4:
		return call("sign", g.numE(d-1))
	case 5:
		return call("mod", g.numE(d-1), [](*ex){num(2, 1), num(3, 1), num(1, 2), num(0, 1)}[r.Intn(4)])
	case 6:
		return call("coalesce", col(r.Pick([]string{"a", "b"})), g.numE(d-1))
	case 7:
		return call("if_null", col(r.Pick([]string{"a", "b"})), g.lit())
	default:
		n := 2 + r.Intn(2)
		var as []*ex
		for i := 0; i < n; i++ {
			as = append(as, g.numE(d-1))
		}
		return call(r.Pick([]string{"greatest", "least"}), as...)
	}
}
func (g *gen) strE(d int) *ex {
	r := g.r
	if d <= 0 || !g.funcs || r.Intn(3) != 0 {
		switch r.Intn(4) {
		case 0:
			return str(c06StrPool[r.Intn(len(c06StrPool))])
		case 1:
			return col("t")
		default:
			return col("s")
		}
	}
	call := func(name string, args ...*ex) *ex { return &ex{k: "call", s: name, args: args} }
	switch r.Intn(3) {
	case 0:
		return call("upper", g.strE(d-1))
	case 1:
		return call("lower", g.strE(d-1))
	default:
		return call("concat", g.strE(d-1), g.strE(d-1))
	}
}
func (g *gen) cmpOp() string {
	ops := []string{"eq", "ne", "lt", "le", "gt", "ge"}
	if g.ne2 {
		ops = append(ops, "eq2", "ne2")
	}
	return g.r.Pick(ops)
}
func (g *gen) boolE(d int) *ex {
	r := g.r
	if d <= 0 || r.Intn(3) != 0 {
		switch x := r.Intn(10); {
		case x < 6:
			return cmp(g.cmpOp(), g.numE(d-1), g.numE(d-1))
		case x < 8:
			return cmp(g.cmpOp(), g.strE(d-1), g.strE(d-1))
		case x == 8 && g.wild:
			return cmp(g.cmpOp(), g.numE(d-1), g.strE(d-1))
		case x == 9 && g.funcs:
			return cmp(g.cmpOp(), &ex{k: "call", s: "length", args: []*ex{g.strE(d - 1)}}, g.lit())
		}
		return cmp(g.cmpOp(), col("a"), g.lit())
	}
	switch r.Intn(5) {
	case 0, 1:
		return &ex{k: "and", l: g.boolE(d - 1), r: g.boolE(d - 1)}
	case 2, 3:
		return &ex{k: "or", l: g.boolE(d - 1), r: g.boolE(d - 1)}
	default:
		return &ex{k: "par", l: g.boolE(d - 1)}
	}
}
func (g *gen) top(d int) *etop {
	r := g.r
	switch x := r.Intn(10); {
	case x < 4:
		return &etop{e: g.numE(d)}
	case x < 6:
		return &etop{e: g.boolE(d)}
	case x == 6:
		return &etop{e: g.strE(d)}
	case x < 9:
		// searched CASE
		t := &etop{isCase: true}
		n := 1 + r.Intn(3)
		strRes := r.Intn(3) == 0
		res := func() *ex {
			if strRes {
				return g.strE(d - 2)
			}
			return g.numE(d - 2)
		}
		for i := 0; i < n; i++ {
			t.whens = append(t.whens, [2]*ex{g.boolE(d - 2), res()})
		}
		if r.Intn(3) != 0 {
			t.els = res()
		}
		return t
	default:
		// simple CASE
		t := &etop{isCase: true}
		onStr := r.Intn(3) == 0
		if onStr {
			t.v = g.strE(0)
		} else {
			t.v = g.numE(d - 2)
		}
		n := 1 + r.Intn(3)
		for i := 0; i < n; i++ {
			var w *ex
			if onStr {
				w = str(c06StrPool[r.Intn(len(c06StrPool))])
			} else {
				w = g.lit()
			}
			t.whens = append(t.whens, [2]*ex{w, g.numE(d - 2)})
		}
		if r.Intn(3) != 0 {
			t.els = g.numE(d - 2)
		}
		return t
	}
}

// ---------------------------------------------------------------- observables
func ratOfFloat(f float64) string {
	if math.IsNaN(f) || math.IsInf(f, 0) {
		return "x"
	}
	return ratEnc(new(big.Rat).SetFloat64(f))
}
func valEnc(v any) string {
	switch x := v.(type) {
	case nil:
		return "N"
	case bool:
		return "b" + b01(x)
	case string:
		return "s" + hx(x)
	case int:
		return fmt.Sprintf("n%d/1", x)
	case int64:
		return fmt.Sprintf("n%d/1", x)
	case int32:
		return fmt.Sprintf("n%d/1", x)
	case float64:
		return "n" + ratOfFloat(x)
	case float32:
		return "n" + ratOfFloat(float64(x))
	}
	return "u" + hx(fmt.Sprintf("%T", v))
}

func canonTok(t string) string {
	up := strings.ToUpper(t)
	switch up {
	case "AND", "OR", "CASE", "WHEN", "THEN", "ELSE", "END":
		return strings.ToLower(up)
	}
	switch t {
	case "(":
		return "lp"
	case ")":
		return "rp"
	case ",":
		return "cm"
	}
	if n, ok := binName[t]; ok {
		return "o" + n
	}
	if n, ok := cmpName[t]; ok {
		return "c" + n
	}
	if len(t) >= 2 && t[0] == '\'' && t[len(t)-1] == '\'' {
		return "s" + hx(t[1:len(t)-1])
	}
	if len(t) > 0 && (t[0] >= '0' && t[0] <= '9' || t[0] == '-' || t[0] == '.') {
		if q, ok := new(big.Rat).SetString(t); ok {
			return "n" + ratEnc(q)
		}
	}
	return "i" + hx(t)
}

func dumpNode(n *expr.ExprNode) string {
	if n == nil {
		return "nil"
	}
	switch n.Type {
	case expr.TypeNumber:
		if q, ok := new(big.Rat).SetString(n.Value); ok {
			return "num " + ratEnc(q)
		}
		return "num ?"
	case expr.TypeString:
		v := n.Value
		if len(v) >= 2 {
			v = v[1 : len(v)-1]
		}
		return "str " + hx(v)
	case expr.TypeField:
		return "fld " + hx(n.Value)
	case expr.TypeParenthesis:
		return "par " + dumpNode(n.Left)
	case expr.TypeOperator:
		up := strings.ToUpper(n.Value)
		if up == "AND" || up == "OR" {
			return strings.ToLower(up) + " " + dumpNode(n.Left) + " " + dumpNode(n.Right)
		}
		if b, ok := binName[n.Value]; ok {
			return "bin " + b + " " + dumpNode(n.Left) + " " + dumpNode(n.Right)
		}
		if c, ok := cmpName[n.Value]; ok {
			return "cmp " + c + " " + dumpNode(n.Left) + " " + dumpNode(n.Right)
		}
		return "op? " + hx(n.Value)
	case expr.TypeFunction:
		s := fmt.Sprintf("fun %s %d", hx(n.Value), len(n.Args))
		for _, a := range n.Args {
			s += " " + dumpNode(a)
		}
		return s
	case expr.TypeCase:
		c := n.CaseExpr
		s := "case"
		if c.Value != nil {
			s += " v1 " + dumpNode(c.Value)
		} else {
			s += " v0"
		}
		s += fmt.Sprintf(" %d", len(c.WhenClauses))
		for _, w := range c.WhenClauses {
			s += " " + dumpNode(w.Condition) + " " + dumpNode(w.Result)
		}
		if c.ElseResult != nil {
			s += " e1 " + dumpNode(c.ElseResult)
		} else {
			s += " e0"
		}
		return s
	}
	return "?"
}

func guard(f func() string) (s string) {
	defer func() {
		if r := recover(); r != nil {
			s = "PANIC"
		}
	}()
	return f()
}

// the four entry points of a compiled expression on one row
func evalObs(e *expr.Expression, m map[string]any) string {
	return guard(func() string {
		var sb strings.Builder
		if f, err := e.Evaluate(m); err != nil {
			sb.WriteString("E:e")
		} else {
			sb.WriteString("E:" + ratOfFloat(f))
		}
		if f, isNull, err := e.EvaluateWithNull(m); err != nil {
			sb.WriteString(" W:e")
		} else if isNull {
			sb.WriteString(" W:N")
		} else {
			sb.WriteString(" W:" + ratOfFloat(f))
		}
		if v, isNull, err := e.EvaluateValueWithNull(m); err != nil {
			sb.WriteString(" U:e")
		} else {
			sb.WriteString(" U:" + valEnc(v) + ":" + b01(isNull))
		}
		if b, err := e.EvaluateBool(m); err != nil {
			sb.WriteString(" B:e")
		} else {
			sb.WriteString(" B:" + b01(b))
		}
		return sb.String()
	})
}

func bridgeObs(text string, m map[string]any) string {
	return guard(func() string {
		v, err := functions.GetExprBridge().EvaluateExpression(text, m)
		if err != nil {
			return "e"
		}
		return valEnc(v)
	})
}

func copyMap(m map[string]any) map[string]any {
	c := make(map[string]any, len(m))
	for k, v := range m {
		c[k] = v
	}
	return c
}

// ---------------------------------------------------------------- runner
func runC06(tier string, seed uint64, o *Out) error {
	r := NewRNG(seed)
	nExpr := 500
	if tier == "thorough" {
		nExpr = 6000
	}
	if err := c06Corpus(o); err != nil {
		return err
	}
	// --- parser + hand-written evaluators
	for i := 0; i < nExpr; i++ {
		g := &gen{r: r, funcs: i%3 != 0, wild: i%5 == 4, caret: true, ne2: true}
		t := normTop(g.top(1 + r.Intn(4)))
		c06Expr(o, r, t, g.wild)
	}
	if err := c06Bridge(tier, r, o); err != nil {
		return err
	}
	if err := c06SQL(tier, r, o); err != nil {
		return err
	}
	c06Diff(tier, r, o)
	c06Malformed(tier, r, o)
	c06CasePairs(tier, NewRNG(seed*1000003+606), o) // far-away generator state: independent across seeds
	c06Poisoned(tier, NewRNG(seed*1000003+707), o)
	c06Pads(tier, NewRNG(seed*1000003+808), o)
	c06Funcs(tier, NewRNG(seed*1000003+909), o)
	return nil
}

func c06Expr(o *Out, r *RNG, t *etop, wild bool) {
	text := renderTop(t)
	toks, terr := expr.VerifTokenize(text)
	e, err := expr.NewExpression(text)
	if terr != nil || err != nil || e == nil || expr.VerifUsesExprLang(e) {
		// the printed form of a generated expression must be accepted by the hand-written parser
		o.Line("C06 P %s # rejected # %s", hx(text), encTop(t))
		o.Count("parse/rejected")
		return
	}
	var ct []string
	for _, tk := range toks {
		ct = append(ct, canonTok(tk))
	}
	o.Line("C06 P %s # %s # %s # %s", hx(text), strings.Join(ct, " "), dumpNode(e.Root), encTop(t))
	o.Count("parse/ok")
	if t.isCase {
		o.Count("shape/case")
	} else {
		o.Count("shape/" + t.e.k)
	}
	// evaluation on 4 rows; each (expression,row) after three different histories:
	// fresh expression; same expression object after other rows; a second NewExpression after the
	// bridge caches saw rows of other types
	for k := 0; k < 4; k++ {
		row := genRow(r, wild && k%2 == 1)
		m := row.goMap()
		obs1 := evalObs(e, copyMap(m))
		for h := 0; h < 3; h++ {
			other := genRow(r, true).goMap()
			_ = evalObs(e, other)
			_ = bridgeObs(text, other)
		}
		obs2 := evalObs(e, copyMap(m))
		e2, _ := expr.NewExpression(text)
		obs3 := "none"
		if e2 != nil {
			obs3 = evalObs(e2, copyMap(m))
		}
		if obs1 != obs2 || obs1 != obs3 {
			o.Line("C06 HD %s # %s # %s | %s | %s", hx(text), row.c06_enc(), obs1, obs2, obs3)
			o.Count("history/DEPENDENT")
			continue
		}
		o.Line("C06 V %s # %s # %s # %s", hx(text), encTop(t), row.c06_enc(), obs1)
		o.Count("eval/rows")
	}
}

// hand-written boundary expressions (always run first)
func c06Corpus(o *Out) error {
	r := NewRNG(7)
	a, b := col("a"), col("b")
	list := []*etop{
		{e: bin("add", a, bin("mul", b, num(2, 1)))},
		{e: bin("mul", bin("add", a, b), num(2, 1))},
		{e: bin("sub", bin("sub", a, b), num(1, 1))},
		{e: bin("sub", a, bin("sub", b, num(1, 1)))},
		{e: bin("div", bin("div", a, num(2, 1)), num(2, 1))},
		{e: bin("pow", num(2, 1), bin("pow", num(3, 1), num(2, 1)))},
		{e: bin("pow", bin("pow", num(2, 1), num(3, 1)), num(2, 1))},
		{e: bin("pow", &ex{k: "neg", l: a}, num(2, 1))},
		{e: &ex{k: "neg", l: bin("pow", a, num(2, 1))}},
		{e: bin("sub", a, &ex{k: "neg", l: b})},
		{e: bin("sub", a, num(-5, 1))},
		{e: &ex{k: "or", l: cmp("gt", a, num(1, 1)), r: &ex{k: "and", l: cmp("lt", b, num(2, 1)), r: cmp("eq", col("s"), str("ab"))}}},
		{e: &ex{k: "and", l: &ex{k: "or", l: cmp("gt", a, num(1, 1)), r: cmp("lt", b, num(2, 1))}, r: cmp("eq", col("s"), str("ab"))}},
		{e: cmp("ne", a, num(5, 1))},
		{e: cmp("gt", bin("add", a, num(1, 1)), num(3, 1))},
		{e: cmp("lt", str("9"), str("10"))},
		{e: cmp("eq", col("t"), str("12.0"))},
		{isCase: true, whens: [][2]*ex{{cmp("gt", a, num(2, 1)), num(1, 1)}}, els: num(0, 1)},
		{isCase: true, whens: [][2]*ex{{cmp("gt", a, num(2, 1)), num(1, 1)}}},
		{isCase: true, whens: [][2]*ex{{cmp("gt", a, num(2, 1)), str("hi")}, {cmp("gt", b, num(2, 1)), str("mid")}}, els: str("lo")},
		{isCase: true, v: a, whens: [][2]*ex{{num(3, 1), num(10, 1)}, {num(5, 2), num(20, 1)}}, els: num(30, 1)},
		{isCase: true, v: col("s"), whens: [][2]*ex{{str("ab"), num(1, 1)}}},
		// identifiers that begin with the letters of a keyword operator (fixed finding F22)
		{e: bin("add", col("order_id"), num(1, 1))},
		{isCase: true, whens: [][2]*ex{{cmp("gt", col("is_ok"), num(0, 1)), col("origin")}}, els: col("android")},
	}
	for _, t := range list {
		c06Expr(o, r, normTop(t), false)
	}
	return nil
}

// placeholders filled in below (other files of this property keep the runner readable)
var _ = streamsql.New
var _ = hex.EncodeToString
