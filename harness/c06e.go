package main

// C06, fifth part.
//
// G lines (documented value of the built-ins that have a Gallina meaning in Model/ExprFuncs.v): math
// (abs sign floor ceil round[,p] mod power trunc bit*), strings (upper lower trim ltrim rtrim length concat
// substring replace startswith endswith indexof split lpad rpad), conversions (cast dec2hex hex2dec chr),
// conditionals (coalesce if_null null_if greatest least), type tests (is_*) and the array functions over
// arrays of scalars.  Arguments are generated in the documented domain and outside it (a text where a
// number is read, a number where an array is read, NULL, a negative precision, a wrong number of
// arguments ...).  Each call is evaluated standing alone, nested in other calls, and as a CASE result,
// through the hand-written engine (expr.Expression), the expr-lang bridge and a SELECT item
// (Execute + EmitSync); the extracted model (ysem_top) judges every single value.  A recovered panic is
// reported as such.

import (
	"fmt"
	"math/big"
	"sort"
	"strings"

	"github.com/rulego/streamsql"
	"github.com/rulego/streamsql/expr"
	"github.com/rulego/streamsql/functions"
)

func functionsBridgeEval(text string, m map[string]any) (any, error) {
	return functions.GetExprBridge().EvaluateExpression(text, m)
}

// ---------------------------------------------------------------- rows with array cells
type gcell struct {
	c   cell
	arr []cell
	isA bool
}
type growT map[string]gcell

func cellGo(c cell) any {
	switch c.kind {
	case "i":
		return int(c.i)
	case "f":
		return c.f
	case "s":
		return c.s
	case "b":
		return c.b
	}
	return nil
}
func cellEnc(c cell) string {
	switch c.kind {
	case "i":
		return fmt.Sprintf("i%d/1", c.i)
	case "f":
		return "f" + ratEnc(new(big.Rat).SetFloat64(c.f))
	case "s":
		return "s" + hx(c.s)
	case "b":
		return "b" + b01(c.b)
	}
	return "N"
}
func (r growT) goMap() map[string]any {
	m := map[string]any{}
	for k, g := range r {
		if g.isA {
			a := make([]any, 0, len(g.arr))
			for _, e := range g.arr {
				a = append(a, cellGo(e))
			}
			m[k] = a
		} else {
			m[k] = cellGo(g.c)
		}
	}
	return m
}
func (r growT) enc() string {
	keys := make([]string, 0, len(r))
	for k := range r {
		keys = append(keys, k)
	}
	sort.Strings(keys)
	var out []string
	for _, k := range keys {
		g := r[k]
		if g.isA {
			var es []string
			for _, e := range g.arr {
				es = append(es, cellEnc(e))
			}
			out = append(out, hx(k)+":A"+strings.Join(es, ","))
		} else {
			out = append(out, hx(k)+":"+cellEnc(g.c))
		}
	}
	return strings.Join(out, " ")
}

// observed value, arrays of scalars included
func gvalEnc(v any) string {
	switch x := v.(type) {
	case []any:
		es := make([]string, 0, len(x))
		for _, e := range x {
			es = append(es, valEnc(e))
		}
		return "A" + strings.Join(es, ",")
	case []string:
		es := make([]string, 0, len(x))
		for _, e := range x {
			es = append(es, valEnc(e))
		}
		return "A" + strings.Join(es, ",")
	}
	return valEnc(v)
}

var gStrPool = []string{"hello", "ab", "", "b", "abc", "Ab", "zz", "h w", "  x y\t", " pad ", "aXbXc", "a,b,,c", "12", "-3", "2.5", "ff", "1F", "true", "hello world", "abab", "\t\n z \r\n"}
var gLitStr = []string{"a", "b", "ab", "", "l", "X", ",", "zz", "x", "lo", "he", " ", "abc", "12", "-+", "ba"}
var gFlt = []float64{0.5, 2.5, -1.5, 4, 0.25, 3, 0, 10.75, -7, 1, 2, -0.75, 12, 255}
var gHexPool = []string{"ff", "FF", "-1f", "0", "7fff", "g1", "", "+a", "0x1f", "12", "deadbeef"}

func gScalarCell(r *RNG) cell {
	switch r.Intn(10) {
	case 0:
		return cell{kind: "N"}
	case 1:
		return cell{kind: "b", b: r.Bool()}
	case 2, 3, 4:
		return cell{kind: "s", s: r.Pick([]string{"x", "y", "ab", "", "12", "b"})}
	}
	return cell{kind: "f", f: gFlt[r.Intn(len(gFlt))]}
}
func gArray(r *RNG) gcell {
	n := r.Intn(7)
	g := gcell{isA: true}
	for i := 0; i < n; i++ {
		if i > 0 && r.Intn(3) == 0 {
			g.arr = append(g.arr, g.arr[r.Intn(i)]) // duplicates
		} else {
			g.arr = append(g.arr, gScalarCell(r))
		}
	}
	return g
}
func gRow(r *RNG) growT {
	row := growT{}
	row["a"] = gcell{c: cell{kind: "i", i: int64(r.Intn(12))}}
	row["b"] = gcell{c: cell{kind: "f", f: gFlt[r.Intn(len(gFlt))]}}
	row["m"] = gcell{c: cell{kind: "f", f: []float64{-7, -2, -0.5, -10.75, 3}[r.Intn(5)]}}
	row["c"] = gcell{c: cell{kind: "b", b: r.Bool()}}
	row["n"] = gcell{c: cell{kind: "N"}}
	for _, k := range []string{"s", "t"} {
		if r.Intn(12) == 0 {
			row[k] = gcell{c: cell{kind: "N"}}
		} else {
			row[k] = gcell{c: cell{kind: "s", s: gStrPool[r.Intn(len(gStrPool))]}}
		}
	}
	row["w"] = gcell{c: cell{kind: "s", s: r.Pick([]string{"a,b,,c", "x", "", ",", "ab,ab", "k=v,k2=v2,"})}}
	for _, k := range []string{"arr", "ar2"} {
		switch r.Intn(14) {
		case 0:
			row[k] = gcell{c: cell{kind: "s", s: "ab"}}
		case 1:
			row[k] = gcell{c: cell{kind: "N"}}
		default:
			row[k] = gArray(r)
		}
	}
	return row
}

// ---------------------------------------------------------------- calls
type ggen struct {
	r      *RNG
	tricky bool // integer literals / the int column where two values are compared with reflect.DeepEqual
	tv     int  // the value a tricky row holds in a (int), b (float64) and arr (float64 element)
}

func (g *ggen) pick(xs ...string) string { return xs[g.r.Intn(len(xs))] }
func (g *ggen) numLit() *ex {
	f := gFlt[g.r.Intn(len(gFlt))]
	q := new(big.Rat).SetFloat64(f)
	return &ex{k: "num", q: q}
}
func (g *ggen) intLit(lo, hi int) *ex { return num(int64(g.r.Range(lo, hi)), 1) }

func (g *ggen) strArg(d int) *ex {
	x := g.r.Intn(20)
	switch {
	case x < 7:
		return col(g.pick("s", "t", "s", "w"))
	case x < 11:
		return str(gLitStr[g.r.Intn(len(gLitStr))])
	case x < 12:
		return col("n")
	case x < 13:
		return col(g.pick("a", "b", "c"))
	case d > 0:
		return g.strCall(d - 1)
	}
	return col("s")
}
func (g *ggen) numArg(d int) *ex {
	x := g.r.Intn(20)
	switch {
	case x < 6:
		return col(g.pick("a", "b", "m", "b"))
	case x < 10:
		return g.numLit()
	case x < 11:
		return col("n")
	case x < 13:
		return col(g.pick("s", "t", "c"))
	case x < 14:
		return str(g.pick("12", "2.5", "-3", "x"))
	case d > 0:
		return g.numCall(d - 1)
	}
	return col("b")
}
func (g *ggen) arrArg(d int) *ex {
	x := g.r.Intn(20)
	switch {
	case x < 12:
		return col(g.pick("arr", "ar2"))
	case x < 13:
		return col(g.pick("s", "n", "a"))
	case d > 0:
		return g.arrCall(d - 1)
	}
	return col("arr")
}

// a value compared with reflect.DeepEqual / used as a map key: kept float64 / text / bool / NULL unless tricky
func (g *ggen) elemArg(d int) *ex {
	if g.tricky {
		if g.r.Bool() {
			return num(int64(g.tv), 1)
		}
		return col("a")
	}
	x := g.r.Intn(20)
	switch {
	case x < 5:
		return col("b")
	case x < 9:
		return str(g.pick("x", "y", "ab", "", "12", "b"))
	case x < 11:
		return num(int64(2*g.r.Intn(12)-11), 4) // k/4, never integral
	case x < 13:
		return col(g.pick("n", "c"))
	case x < 16:
		return col(g.pick("s", "t"))
	case d > 0 && x < 18:
		return c06Call(g.pick("abs", "floor", "ceil"), col("b"))
	case d > 0:
		return c06Call(g.pick("upper", "lower", "trim"), col("s"))
	}
	return col("b")
}
func (g *ggen) anyArg(d int) *ex {
	switch g.r.Intn(6) {
	case 0, 1:
		return g.strArg(d)
	case 2, 3:
		return g.numArg(d)
	case 4:
		return g.arrArg(d)
	}
	return col(g.pick("n", "c", "b", "s"))
}

var gUrlPool = []string{"a+b%26c", "%41%zz", "%4", "100%", "x%2Fy", "a%20b", "plain", "", "%e4%BD%a0", "k=v&x=1 2"}
var gHexStr = []string{"6869", "6G", "abc", "FF00", "", "4a4B", "20"}

func (g *ggen) strCall(d int) *ex {
	switch g.r.Intn(20) {
	case 16:
		return c06Call("url_encode", g.strArg(d))
	case 17:
		if g.r.Bool() {
			return c06Call("url_decode", str(gUrlPool[g.r.Intn(len(gUrlPool))]))
		}
		return c06Call("url_decode", g.strArg(d))
	case 18:
		return c06Call("encode", g.strArg(d), str(g.pick("hex", "url", "hex", "url", "base64", "rot13")))
	case 19:
		switch g.r.Intn(3) {
		case 0:
			return c06Call("decode", str(gHexStr[g.r.Intn(len(gHexStr))]), str("hex"))
		case 1:
			return c06Call("decode", str(gUrlPool[g.r.Intn(len(gUrlPool))]), str("url"))
		}
		return c06Call("decode", g.strArg(d), g.pick2(str(g.pick("hex", "url")), g.strArg(0)))
	case 0:
		return c06Call("upper", g.strArg(d))
	case 1:
		return c06Call("lower", g.strArg(d))
	case 2:
		return c06Call("trim", g.strArg(d))
	case 3:
		return c06Call("ltrim", g.strArg(d))
	case 4:
		return c06Call("rtrim", g.strArg(d))
	case 5, 6:
		if g.r.Bool() {
			return c06Call("substring", g.strArg(d), g.intLit(-7, 8))
		}
		if g.r.Intn(3) == 0 {
			// a negative start beyond the beginning of the string: clamped to 0, the length still counts from there
			return c06Call("substring", g.strArg(d), g.intLit(-12, -2), g.intLit(1, 7))
		}
		return c06Call("substring", g.strArg(d), g.posArg(), g.intLit(-1, 6))
	case 7, 8:
		return c06Call("replace", g.strArg(d), str(gLitStr[g.r.Intn(len(gLitStr))]), str(gLitStr[g.r.Intn(len(gLitStr))]))
	case 9:
		n := 1 + g.r.Intn(3)
		var as []*ex
		for i := 0; i < n; i++ {
			if g.r.Intn(4) == 0 {
				as = append(as, g.numArg(0))
			} else {
				as = append(as, g.strArg(d))
			}
		}
		return c06Call("concat", as...)
	case 10:
		return c06Call(g.pick("lpad", "rpad"), g.strArg(d), g.posArg(), str(g.pick("x", "ab", "", "-+*")))
	case 11:
		return c06Call("cast", g.anyArg(d), str("string"))
	case 12:
		return c06Call("dec2hex", g.numArg(d))
	case 13:
		return c06Call("chr", g.intLit(-1, 130))
	case 14:
		return c06Call("if_null", g.strArg(d), str("dflt"))
	}
	return c06Call("coalesce", col("n"), g.strArg(d), str("z"))
}
func (g *ggen) posArg() *ex {
	switch g.r.Intn(8) {
	case 0:
		return col("a")
	case 1:
		return col(g.pick("b", "s", "n"))
	case 2:
		return str(g.pick("2", "x"))
	}
	return g.intLit(-3, 9)
}
func (g *ggen) numCall(d int) *ex {
	switch g.r.Intn(22) {
	case 0:
		return c06Call(g.pick("abs", "sign", "floor", "ceil", "ceiling", "round"), g.numArg(d))
	case 1:
		return c06Call("round", g.numArg(d), g.pick2(g.intLit(0, 3), g.posArg()))
	case 2:
		return c06Call("mod", g.numArg(d), g.numArg(d))
	case 3, 4:
		return c06Call(g.pick("power", "pow"), g.numArg(d), g.intLit(-3, 6))
	case 5, 6:
		return c06Call("trunc", g.numArg(d), g.pick2(g.intLit(-1, 3), g.posArg()))
	case 7:
		return c06Call(g.pick("bitand", "bitor", "bitxor"), g.numArg(d), g.numArg(d))
	case 8:
		return c06Call("bitnot", g.numArg(d))
	case 9, 10:
		return c06Call("length", g.anyArg(d))
	case 11, 12:
		return c06Call("indexof", g.strArg(d), str(gLitStr[g.r.Intn(len(gLitStr))]))
	case 13:
		return c06Call("array_length", g.arrArg(d))
	case 14, 15:
		return c06Call("array_position", g.arrArg(d), g.elemArg(d))
	case 16:
		if g.r.Bool() {
			return c06Call("hex2dec", str(gHexPool[g.r.Intn(len(gHexPool))]))
		}
		return c06Call("hex2dec", g.strArg(d))
	case 17, 18:
		return c06Call("cast", g.anyArg(d), str(g.pick("int", "bigint", "int64", "int32", "float", "float64", "double")))
	case 19:
		n := 1 + g.r.Intn(3)
		var as []*ex
		for i := 0; i < n; i++ {
			as = append(as, col(g.pick("a", "b", "m")))
		}
		if g.r.Intn(4) == 0 {
			as = append(as, col("n"))
		}
		return c06Call(g.pick("greatest", "least"), as...)
	case 20:
		return c06Call("if_null", g.numArg(d), g.numLit())
	}
	return c06Call("coalesce", col("n"), g.numArg(d))
}
func (g *ggen) pick2(a, b *ex) *ex {
	if g.r.Intn(4) == 0 {
		return b
	}
	return a
}
func (g *ggen) arrCall(d int) *ex {
	switch g.r.Intn(10) {
	case 0, 1:
		return c06Call("split", g.strArg(d), str(g.pick(",", "b", "", "ab", "X", " ")))
	case 2, 3:
		return c06Call("array_distinct", g.arrArg(d))
	case 4, 5:
		return c06Call("array_remove", g.arrArg(d), g.elemArg(d))
	case 6:
		return c06Call("array_union", g.arrArg(d), g.arrArg(d))
	case 7:
		return c06Call("array_intersect", g.arrArg(d), g.arrArg(d))
	case 8:
		return c06Call("array_except", g.arrArg(d), g.arrArg(d))
	}
	return c06Call("coalesce", col("n"), g.arrArg(d))
}
func (g *ggen) boolCall(d int) *ex {
	switch g.r.Intn(8) {
	case 0, 1:
		return c06Call(g.pick("startswith", "endswith"), g.strArg(d), str(gLitStr[g.r.Intn(len(gLitStr))]))
	case 2, 3:
		return c06Call("array_contains", g.arrArg(d), g.elemArg(d))
	case 4:
		return c06Call("cast", g.anyArg(d), str(g.pick("bool", "boolean")))
	}
	return c06Call(g.pick("is_null", "is_not_null", "is_numeric", "is_string", "is_bool", "is_array", "is_object"), g.anyArg(d))
}
func (g *ggen) nullIf(d int) *ex {
	if g.tricky {
		if g.r.Bool() {
			return c06Call("null_if", col("b"), g.pick2(num(int64(g.tv), 1), col("a")))
		}
		return c06Call("null_if", col("a"), num(int64(g.tv), 1))
	}
	switch g.r.Intn(4) {
	case 0:
		return c06Call("null_if", col("b"), g.elemArg(d))
	case 1:
		return c06Call("null_if", col(g.pick("s", "t")), str(g.pick("hello", "ab", "", "b", "abc", "Ab", "zz", "h w", "12", "true")))
	case 2:
		return c06Call("null_if", col(g.pick("arr", "ar2")), col(g.pick("arr", "ar2")))
	}
	return c06Call("null_if", g.elemArg(d), g.elemArg(d))
}

// (call, kind of its value)
func (g *ggen) call(d int) (*ex, string) {
	switch x := g.r.Intn(20); {
	case x < 6:
		return g.strCall(d), "s"
	case x < 12:
		return g.numCall(d), "n"
	case x < 15:
		return g.arrCall(d), "a"
	case x < 18:
		return g.boolCall(d), "b"
	}
	return g.nullIf(d), "x"
}
func (g *ggen) wrap(e *ex, kind string) *ex {
	switch kind {
	case "s":
		switch g.r.Intn(4) {
		case 0:
			return c06Call("upper", e)
		case 1:
			return c06Call("concat", e, str("|"))
		case 2:
			return c06Call("length", e)
		}
		return c06Call("replace", e, str("a"), str("__"))
	case "n":
		switch g.r.Intn(3) {
		case 0:
			return c06Call("abs", e)
		case 1:
			return c06Call("concat", str("="), e)
		}
		return c06Call("is_numeric", e)
	case "a":
		switch g.r.Intn(3) {
		case 0:
			return c06Call("array_length", e)
		case 1:
			return c06Call("array_distinct", e)
		}
		return c06Call("length", e)
	case "b":
		if g.r.Bool() {
			return c06Call("concat", e, str("!"))
		}
		return c06Call("is_bool", e)
	}
	return c06Call("is_null", e)
}
func ruinArity(r *RNG, e *ex) *ex {
	c := &ex{k: "call", s: e.s, args: append([]*ex{}, e.args...)}
	if r.Bool() && len(c.args) > 0 {
		c.args = c.args[:len(c.args)-1]
	} else {
		c.args = append(c.args, str("x"))
		if c.s == "coalesce" || c.s == "concat" || c.s == "greatest" || c.s == "least" {
			c.args = nil // unbounded functions: the only wrong count is zero
		}
	}
	return c
}

func c06Funcs(tier string, r *RNG, o *Out) {
	n := 420
	if tier == "thorough" {
		n = 6000
	}
	for i := 0; i < n; i++ {
		g := &ggen{r: r, tricky: i%25 == 24, tv: r.Intn(5)}
		depth := 0
		if i%3 == 1 {
			depth = 1 + r.Intn(2)
		}
		c, kind := g.call(depth)
		var t *etop
		shape := "alone"
		switch {
		case i%25 == 24:
			shape = "alone"
			if r.Bool() {
				c = g.nullIf(0)
			} else {
				c = c06Call(g.pick("array_contains", "array_position", "array_remove"), col("arr"), g.elemArg(0))
			}
			t = &etop{e: c}
		case i%12 == 7:
			shape = "arity"
			t = &etop{e: ruinArity(r, c)}
		case i%3 == 1:
			shape = "nested"
			t = &etop{e: g.wrap(c, kind)}
		case i%7 == 3:
			shape = "case"
			c2, _ := g.call(0)
			t = &etop{isCase: true, whens: [][2]*ex{{cmp("ge", col("a"), num(int64(r.Intn(10)), 1)), c}}, els: c2}
		default:
			t = &etop{e: c}
		}
		t = normTop(t)
		text := renderTop(t)
		fname := c.s
		for k := 0; k < 2; k++ {
			row := gRow(r)
			if g.tricky {
				row["a"] = gcell{c: cell{kind: "i", i: int64(g.tv)}}
				row["b"] = gcell{c: cell{kind: "f", f: float64(g.tv)}}
				arr := gArray(r)
				arr.arr = append(arr.arr, cell{kind: "f", f: float64(g.tv)})
				if k == 1 {
					arr.arr = append([]cell{{kind: "s", s: "x"}}, arr.arr...)
				}
				row["arr"] = arr
			}
			m := row.goMap()
			hand := guard(func() string {
				e, err := expr.NewExpression(text)
				if err != nil || e == nil {
					return "noexpr"
				}
				v, isNull, err := e.EvaluateValueWithNull(copyMap(m))
				if err != nil {
					return "e"
				}
				if isNull {
					return "N"
				}
				return gvalEnc(v)
			})
			o.Line("C06 G hand %s %s %s # %s # %s # %s", shape, fname, hx(text), encTop(t), row.enc(), hand)
			if !t.isCase {
				br := guard(func() string {
					v, err := functionsBridgeEval(text, copyMap(m))
					if err != nil {
						return "e"
					}
					return gvalEnc(v)
				})
				o.Line("C06 G bridge %s %s %s # %s # %s # %s", shape, fname, hx(text), encTop(t), row.enc(), br)
			}
			sel := guard(func() string {
				s := streamsql.New(streamsql.WithDiscardLog())
				defer s.Stop()
				if err := s.Execute("SELECT " + text + " AS x FROM stream"); err != nil {
					return "rejected"
				}
				res, err := s.EmitSync(copyMap(m))
				if err != nil {
					return "e"
				}
				if res == nil {
					return "none"
				}
				v, ok := res["x"]
				if !ok {
					return "absent"
				}
				return gvalEnc(v)
			})
			o.Line("C06 G select %s %s %s # %s # %s # %s", shape, fname, hx(text), encTop(t), row.enc(), sel)
			o.Count("func/" + shape + "/" + fname)
		}
	}
}
