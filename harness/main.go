// Command harness drives the real rulego/streamsql code (built from /repo's working tree with
// -tags verif) on generated cases and writes one line per case: the input and the projected
// observable the implementation produced. The extracted Coq model replays the same lines.
package main

import (
	"bufio"
	"encoding/json"
	"fmt"
	"os"
	"sort"
	"strconv"
)

// Out collects case lines and the input distribution for the evidence file.
type Out struct {
	w     *bufio.Writer
	Lines int
	Dist  map[string]int
}

func (o *Out) Line(format string, a ...any) {
	fmt.Fprintf(o.w, format, a...)
	o.w.WriteByte('\n')
	o.Lines++
}
func (o *Out) Count(k string) { o.Dist[k]++ }

type runner func(tier string, seed uint64, o *Out) error

var runners = map[string]runner{}

func main() {
	if len(os.Args) < 5 {
		fmt.Fprintln(os.Stderr, "usage: harness <prop> <tier> <seed> <outfile>")
		os.Exit(2)
	}
	prop, tier := os.Args[1], os.Args[2]
	seed, _ := strconv.ParseUint(os.Args[3], 10, 64)
	r, ok := runners[prop]
	if !ok {
		fmt.Fprintln(os.Stderr, "unknown property", prop)
		os.Exit(2)
	}
	f, err := os.Create(os.Args[4])
	if err != nil {
		fmt.Fprintln(os.Stderr, err)
		os.Exit(2)
	}
	o := &Out{w: bufio.NewWriterSize(f, 1<<20), Dist: map[string]int{}}
	if err := r(tier, seed, o); err != nil {
		fmt.Fprintln(os.Stderr, "harness error:", err)
		os.Exit(3)
	}
	o.w.Flush()
	f.Close()
	keys := make([]string, 0, len(o.Dist))
	for k := range o.Dist {
		keys = append(keys, k)
	}
	sort.Strings(keys)
	m := map[string]any{"lines": o.Lines, "dist": o.Dist}
	b, _ := json.Marshal(m)
	fmt.Println(string(b))
}
