package main

import (
	"encoding/json"
	"fmt"
	"math"
	"sort"
	"strings"
	"sync"
	"time"

	"github.com/rulego/streamsql"
)

// ---- function-valued grouping keys ----------------------------------------------------------------
// GROUP BY upper(k1), CountingWindow(N): the KEY of the property is the VALUE of the expression. The
// counting window keys its buffers by row[<expression text>], a column that exists only because the ingest
// side evaluates the expression and writes it into the row BEFORE Window.Add (stream/processor_data.go
// processItem -> injectGroupKeyExprs); the aggregator groups the cut batch by the same column. If the
// window does not see the value (evaluated too late, under another name, not at all) every row lands in the
// NULL buffer, the cuts fall every N rows of the whole stream and the aggregator splits them again.
//
// The family: 1-3 grouping items, each a plain column or a scalar expression over one or two raw columns
// (string functions, numeric functions, arithmetic around / inside a call, nested calls); at least one item
// is an expression. A case has 2-4 key classes; every row draws its class and then, per item, a fresh
// SPELLING of the raw value(s) that the expression maps to the class's value ("aa", "Aa", "aA" for
// upper(k) = "AA"; 3 and -3 for abs(k); 12 and 17 for floor(k / 10)), so equal keys never look alike on the
// wire and the rows of the classes are interleaved at random (runs not aligned to multiples of N).
//
//	F <tag> <hex of the SQL text> <hex of the emitted rows (JSON)> <N> <ncols> <nrows> {id v..} # {v.. count first last nids ids..}
//
// {id v..}: v = the VALUE of the grouping item on that row (what the property calls the key); judged like an
// S line: chk_C09_sql against the values, then equality with the model's batch sequence (cw_run keyed by
// the values). The two hex fields make the replay line a complete description of the input.
//
// Sub-family *-2arg: expressions whose call has two arguments (concat(k1, k1b)).

type fnKind struct {
	name  string
	expr  func(c, d string) string // SQL text over the raw columns c (and d)
	two   bool                     // reads a second raw column
	multi bool                     // a call with two arguments (comma inside the parentheses)
	// draw: for key class `base` (0..3) a fresh spelling of the raw value(s) and the expression's value
	draw func(rng *RNG, base int) (c, d any, v gval)
}

func fnS(s string) gval  { return gval{kind: 's', s: s} }
func fnI(i int64) gval   { return gval{kind: 'i', i: i} }
func fnNum(rng *RNG, z int64) any {
	switch rng.Intn(3) {
	case 0:
		return float64(z)
	case 1:
		return z
	}
	return int(z)
}

// randCase: a random upper / lower spelling of an ASCII (or Latin-1 letter) text
func randCase(rng *RNG, s string) string {
	var sb strings.Builder
	for _, r := range s {
		if rng.Bool() {
			sb.WriteString(strings.ToUpper(string(r)))
		} else {
			sb.WriteString(strings.ToLower(string(r)))
		}
	}
	return sb.String()
}

var fnBases = []string{"aa", "bb", "a|b", "ab"}

var fnKinds = []fnKind{
	{name: "col", expr: func(c, d string) string { return c },
		draw: func(rng *RNG, base int) (any, any, gval) {
			s := []string{"x", "y", "x|y", ""}[base]
			return s, nil, fnS(s)
		}},
	{name: "upper", expr: func(c, d string) string { return "upper(" + c + ")" },
		draw: func(rng *RNG, base int) (any, any, gval) {
			raw := randCase(rng, fnBases[base])
			return raw, nil, fnS(strings.ToUpper(raw))
		}},
	{name: "lower", expr: func(c, d string) string { return "lower(" + c + ")" },
		draw: func(rng *RNG, base int) (any, any, gval) {
			raw := randCase(rng, fnBases[base])
			return raw, nil, fnS(strings.ToLower(raw))
		}},
	{name: "upper-trim", expr: func(c, d string) string { return "upper(trim(" + c + "))" },
		draw: func(rng *RNG, base int) (any, any, gval) {
			core := randCase(rng, fnBases[base])
			raw := strings.Repeat(" ", rng.Intn(3)) + core + strings.Repeat(" ", rng.Intn(3))
			return raw, nil, fnS(strings.ToUpper(core))
		}},
	{name: "length", expr: func(c, d string) string { return "length(" + c + ")" },
		draw: func(rng *RNG, base int) (any, any, gval) {
			l := base + 1
			var sb strings.Builder
			for i := 0; i < l; i++ {
				sb.WriteByte("abcxyz"[rng.Intn(6)])
			}
			return sb.String(), nil, fnI(int64(l))
		}},
	{name: "abs", expr: func(c, d string) string { return "abs(" + c + ")" },
		draw: func(rng *RNG, base int) (any, any, gval) {
			z := int64(base)
			if rng.Bool() {
				z = -z
			}
			return fnNum(rng, z), nil, fnI(int64(base))
		}},
	{name: "floor-div", expr: func(c, d string) string { return "floor(" + c + " / 10)" },
		draw: func(rng *RNG, base int) (any, any, gval) {
			decade := int64(base) - 1 // -1, 0, 1, 2
			z := decade*10 + int64(rng.Intn(10))
			return fnNum(rng, z), nil, fnI(int64(math.Floor(float64(z) / 10)))
		}},
	{name: "sign", expr: func(c, d string) string { return "sign(" + c + ")" },
		draw: func(rng *RNG, base int) (any, any, gval) {
			switch base % 3 {
			case 0:
				return fnNum(rng, int64(1+rng.Intn(9))), nil, fnI(1)
			case 1:
				return fnNum(rng, -int64(1+rng.Intn(9))), nil, fnI(-1)
			}
			return fnNum(rng, 0), nil, fnI(0)
		}},
	{name: "abs-times", expr: func(c, d string) string { return "abs(" + c + ") * 2" },
		draw: func(rng *RNG, base int) (any, any, gval) {
			z := int64(base)
			if rng.Bool() {
				z = -z
			}
			return fnNum(rng, z), nil, fnI(2 * int64(base))
		}},
	{name: "abs-plus", expr: func(c, d string) string { return "abs(" + c + ") + 1" },
		draw: func(rng *RNG, base int) (any, any, gval) {
			z := int64(base)
			if rng.Bool() {
				z = -z
			}
			return fnNum(rng, z), nil, fnI(int64(base) + 1)
		}},
	{name: "sqrt-square", expr: func(c, d string) string { return "sqrt(" + c + " * " + c + ")" },
		draw: func(rng *RNG, base int) (any, any, gval) {
			z := int64(base)
			if rng.Bool() {
				z = -z
			}
			return fnNum(rng, z), nil, fnI(int64(base))
		}},
	{name: "abs-sum", two: true, expr: func(c, d string) string { return "abs(" + c + " + " + d + ")" },
		draw: func(rng *RNG, base int) (any, any, gval) {
			s := int64(base) // c + d = +-base
			if rng.Bool() {
				s = -s
			}
			c := int64(rng.Intn(9)) - 4
			return fnNum(rng, c), fnNum(rng, s-c), fnI(int64(base))
		}},
	{name: "length-sum", two: true, expr: func(c, d string) string { return "length(" + c + ") + length(" + d + ")" },
		draw: func(rng *RNG, base int) (any, any, gval) {
			total := base + 2
			l1 := 1 + rng.Intn(total-1)
			return strings.Repeat("p", l1), strings.Repeat("q", total-l1), fnI(int64(total))
		}},
	{name: "floor-sum", two: true, expr: func(c, d string) string { return "floor(" + c + " / 10) + floor(" + d + " / 10)" },
		draw: func(rng *RNG, base int) (any, any, gval) {
			dc := int64(rng.Intn(4)) - 1
			dd := int64(base) - 1 - dc
			c, d := dc*10+int64(rng.Intn(10)), dd*10+int64(rng.Intn(10))
			return fnNum(rng, c), fnNum(rng, d), fnI(int64(math.Floor(float64(c)/10) + math.Floor(float64(d)/10)))
		}},
	{name: "concat2", two: true, multi: true, expr: func(c, d string) string { return "concat(" + c + ", " + d + ")" },
		draw: func(rng *RNG, base int) (any, any, gval) {
			whole := []string{"abcd", "wxyz", "ab|d", "abyz"}[base]
			cut := rng.Intn(len(whole) + 1)
			return whole[:cut], whole[cut:], fnS(whole)
		}},
}

// c09SQLRun: rows through the public API (synchronous sink, results of one delivery ordered by first id); gap(i) =
// idle time before row i is emitted; done(results so far) ends the wait (bounded by maxWait, then a short grace
// period so that surplus results are seen).
func c09SQLRun(opts []streamsql.Option, sql string, maps []map[string]any, gap func(i int) time.Duration,
	ncols int, done func([]gresult) bool, maxWait time.Duration, outNames ...string) ([]gresult, error) {
	s := streamsql.New(opts...)
	defer s.Stop()
	if err := s.Execute(sql); err != nil {
		return nil, fmt.Errorf("%s: %w", sql, err)
	}
	var mu sync.Mutex
	var out []gresult
	s.AddSyncSink(func(res []map[string]any) {
		batch := make([]gresult, 0, len(res))
		for _, r := range res {
			m := make(map[string]any, len(r))
			for k, v := range r {
				m[k] = v
			}
			for _, name := range outNames {
				if v, ok := m[name]; ok {
					m[name] = normNum(v)
				}
			}
			batch = append(batch, parseResult(m, ncols, outNames...))
		}
		sort.SliceStable(batch, func(i, j int) bool {
			a, b := int64(-1), int64(-1)
			if len(batch[i].ids) > 0 {
				a = batch[i].ids[0]
			}
			if len(batch[j].ids) > 0 {
				b = batch[j].ids[0]
			}
			return a < b
		})
		mu.Lock()
		out = append(out, batch...)
		mu.Unlock()
	})
	for i, m := range maps {
		if gap != nil {
			if d := gap(i); d > 0 {
				time.Sleep(d)
			}
		}
		s.Emit(m)
	}
	lim := waitLimit(maxWait)
	deadline := time.Now().Add(lim)
	for {
		mu.Lock()
		ok := done(out)
		mu.Unlock()
		if ok {
			break
		}
		if time.Now().After(deadline) {
			chargeWait(lim)
			break
		}
		time.Sleep(200 * time.Microsecond)
	}
	time.Sleep(3 * time.Millisecond)
	mu.Lock()
	defer mu.Unlock()
	return append([]gresult(nil), out...), nil
}

func jsonHex(maps []map[string]any) string {
	b, err := json.Marshal(maps)
	if err != nil {
		return hexTok("?" + err.Error())
	}
	return hexTok(string(b))
}

func fnKeyCaseC09(rng *RNG, o *Out, multi bool) error {
	n := []int{2, 2, 3, 3, 4, 7, 1}[rng.Intn(7)]
	ncols := []int{1, 1, 1, 2, 2, 3}[rng.Intn(6)]
	kinds := make([]fnKind, ncols)
	pick := func(want func(k fnKind) bool) fnKind {
		for {
			k := fnKinds[rng.Intn(len(fnKinds))]
			if want(k) {
				return k
			}
		}
	}
	for j := range kinds {
		kinds[j] = pick(func(k fnKind) bool { return !k.multi })
	}
	// at least one expression item (in the 2-argument sub-family: one call with two arguments)
	forced := rng.Intn(ncols)
	if multi {
		kinds[forced] = pick(func(k fnKind) bool { return k.multi })
	} else if kinds[forced].name == "col" {
		kinds[forced] = pick(func(k fnKind) bool { return !k.multi && k.name != "col" })
	}
	exprs, names := make([]string, ncols), make([]string, ncols)
	var selItems []string
	for j, k := range kinds {
		exprs[j] = k.expr(colName(j), colName(j)+"b")
		names[j] = fmt.Sprintf("g%d", j+1)
		selItems = append(selItems, exprs[j]+" AS "+names[j])
	}
	gb := strings.Join(exprs, ", ")
	sql := fmt.Sprintf("SELECT %s, count(*) AS c, collect(id) AS ids, first_value(id) AS fi, last_value(id) AS la FROM stream GROUP BY %s, CountingWindow(%d)",
		strings.Join(selItems, ", "), gb, n)

	// 2-4 key classes: per item the base that the class's rows spell
	classes := make([][]int, 2+rng.Intn(3))
	for c := range classes {
		classes[c] = make([]int, ncols)
		for j := range classes[c] {
			classes[c][j] = rng.Intn(4)
		}
	}
	l := n + 1 + rng.Intn(6*n)
	if rng.Intn(4) == 0 {
		l = n * (2 + rng.Intn(5))
	}
	if l > 60 {
		l = 60
	}
	rows := make([]grow, l)
	maps := make([]map[string]any, l)
	for i := range rows {
		cl := classes[rng.Intn(len(classes))]
		m := map[string]any{"id": int64(i + 1)}
		vals := make([]gval, ncols)
		for j, k := range kinds {
			c, d, v := k.draw(rng, cl[j])
			m[colName(j)] = c
			if k.two {
				m[colName(j)+"b"] = d
			}
			vals[j] = v
		}
		rows[i] = grow{id: int64(i + 1), vals: vals}
		maps[i] = m
	}
	want := expectedBatches(rows, n)
	res, err := c09SQLRun(nil, sql, maps, nil, ncols, func(r []gresult) bool { return len(r) >= want }, 3*time.Second, names...)
	if err != nil {
		return err
	}
	tag := "sql-fnkey"
	if multi {
		tag = "sql-fnkey-2arg"
	}
	o.Line("C09 F %s %s %s %d %d %d %s # %s", tag, hexTok(sql), jsonHex(maps), n, ncols, len(rows), rowsTok(rows), resultsTok(res, true))
	var ks []string
	for _, k := range kinds {
		ks = append(ks, k.name)
	}
	o.Count(tag)
	for _, k := range ks {
		o.Count("sql-fnkey item " + k)
	}
	return nil
}

func fnKeyFamily(tier string, seed uint64, o *Out) error {
	rng := NewRNG(seed)
	rng.s = rng.Next() ^ 0xC09F0C7E1
	nFn, nMulti := 150, 8
	if tier == "thorough" {
		nFn, nMulti = 3000, 100
	}
	for i := 0; i < nFn; i++ {
		if err := fnKeyCaseC09(rng, o, false); err != nil {
			return err
		}
	}
	for i := 0; i < nMulti; i++ {
		if err := fnKeyCaseC09(rng, o, true); err != nil {
			return err
		}
	}
	return nil
}
