package main

// C19, family "nil rows in the backlog".
//
// Emit(nil) is legal: a nil map is buffered, migrated by expandDataChannel, received by the consumer, processed
// (SELECT id FROM stream gives the sink a row whose id is nil) and counted like any other row. The model
// (Model/Ingest.v) never looks at the payload of a row: a nil row is an ordinary row (conservation counts it, the
// migration moves it, it keeps its place in the FIFO). What the implementation must not do is read a meaning into
// the VALUE of a row: a received nil taken for "channel drained" / "nothing received" loses that row and, in the
// migration loop, every row buffered behind it.
//
// The family re-runs the forced schedules and the concurrent runs of the other families with nil rows at random
// positions of what is emitted, so that nil rows sit in the backlog when an expansion migrates it, when a sender
// is blocked, when a row is dropped, when the consumer is parked:
//
//   * expansion vs. parked consumer (c19ExpandVsConsumer): the consumer is parked holding its reference, the
//     channel (capacity 2-5) is filled with rows of which a random non-empty subset is nil (first / middle / last
//     position of the backlog all occur), the next Emit (itself nil in a quarter of the cases) expands and is parked
//     inside the migration loop after 1-3 migrated rows;
//   * sequential scripts (c19Sequential: whole Emit calls and single receives with the consumer parked in the sink;
//     all strategies, ceilings, thresholds, blocked senders) where 10-50 % of the rows are nil;
//   * send between the expander's snapshot and its write lock (c19SendDuringExpansion) and the expander losing the
//     race for the new slots (c19ExpanderLosesRace) with 30-50 % nil rows;
//   * concurrent runs (expand strategy, small buffers, slow consumer; also drop / block) where 5-30 % of every
//     producer's Emit calls carry nil.
//
// Identity of a nil row: the sink cannot tell nil rows apart (it records id -1). Forced lines list the ids the nil
// rows stand for (5th section, emission order); the driver gives the j-th processed nil row the identity the model
// has at that position if that is an emitted nil row not yet used, otherwise the earliest emitted nil row not yet
// used (an identity only matters for the exact comparison with the model; conservation, duplicates and counters
// do not depend on it; a nil row the sink sees beyond the emitted ones becomes an unknown row). Concurrent lines
// book the nil rows on a virtual producer (the last entry of <rows per producer>), numbered by position.

import (
	"fmt"
	"time"
)

// which Emit calls of the next world carry a nil map (nil: none); read by newC19WorldLog
var c19NilPick func(p, k int) bool

// percentage of nil rows among the Emit calls of the next concurrent run (0: none); read by c19Concurrent
var c19NilPct int

func c19NilHash(salt uint64, pct int) func(p, k int) bool {
	return func(p, k int) bool {
		return NewRNG(salt^(uint64(p+1)<<40)^uint64(k)).Intn(100) < pct
	}
}

func c19NilRowsFamily(tier string, rng *RNG, o *Out) error {
	defer func() { c19NilPick, c19NilPct = nil, 0 }()
	nT2, nSeq, nT3, nT4, nConc := 6, 30, 3, 3, 8
	if tier == "thorough" {
		nT2, nSeq, nT3, nT4, nConc = 40, 400, 20, 20, 80
	}
	// expansion with the consumer parked and the migrator parked inside the loop
	for i := 0; i < nT2; i++ {
		cp := 2 + rng.Intn(4)
		mask := make([]bool, cp+1)
		switch i % 3 { // the position the run is about; more nil rows at random
		case 0:
			mask[0] = true // head of the backlog
		case 1:
			mask[cp-1] = true // last buffered row
		default:
			mask[rng.Intn(cp)] = true
		}
		for k := 0; k < cp; k++ {
			if rng.Intn(4) == 0 {
				mask[k] = true
			}
		}
		mask[cp] = rng.Intn(4) == 0 // the row whose Emit expands
		c19NilPick = func(p, k int) bool { return k < len(mask) && mask[k] }
		c := c19Cfg{strat: 3, cap: cp, max: []int{64, 0, cp + 1, 2 * cp}[rng.Intn(4)], minInc: 1 + rng.Intn(3),
			gnum: 3, gden: 2, tnum: 4, tden: 5}
		if err := c19ExpandVsConsumer(c, 1+rng.Intn(3), o); err != nil {
			return err
		}
		o.Count("nil-rows/expand-vs-consumer")
	}
	// sequential scripts
	for i := 0; i < nSeq; i++ {
		c := c19RandCfg(rng, []int{3, 3, 3, 3, 0, 1, 2}[rng.Intn(7)])
		if c.strat == 3 && i%2 == 0 {
			// room to grow, a threshold a full buffer always reaches: the backlog is migrated again and again
			c.cap, c.max, c.minInc = 1+rng.Intn(4), []int{0, 64, 12}[rng.Intn(3)], 1+rng.Intn(3)
			c.tnum, c.tden = []int{4, 1, 1}[i/2%3], []int{5, 2, 1}[i/2%3]
		}
		pct := []int{10, 25, 50}[rng.Intn(3)]
		c19NilPick = c19NilHash(rng.Next(), pct)
		pE := 0
		if i%2 == 0 {
			pE = 75 + rng.Intn(20)
		}
		if err := c19Sequential(c, rng, 10+rng.Intn(30), pE, o); err != nil {
			return err
		}
		o.Count(fmt.Sprintf("nil-rows/seq/%s/%d%%", c.kind(), pct))
	}
	// another producer sends between the expander's snapshot and its write lock
	for i := 0; i < nT3; i++ {
		cp := []int{2, 3, 4, 6}[rng.Intn(4)]
		k := 1 + rng.Intn(cp/2)
		j := rng.Intn(k + 2)
		c19NilPick = c19NilHash(rng.Next(), 30+rng.Intn(21))
		c := c19Cfg{strat: 3, cap: cp, max: []int{64, cp + 1, 0}[rng.Intn(3)], minInc: 1 + rng.Intn(3), gnum: 3, gden: 2, tnum: 1, tden: 4}
		if err := c19SendDuringExpansion(c, k, j, o); err != nil {
			return err
		}
		o.Count("nil-rows/send-between-snapshot-and-lock")
	}
	// the other producers take the new slots before the expander's own send
	for i := 0; i < nT4; i++ {
		cp := 1 + rng.Intn(3)
		c19NilPick = c19NilHash(rng.Next(), 30+rng.Intn(21))
		c := c19Cfg{strat: 3, cap: cp, max: []int{0, 64}[rng.Intn(2)], minInc: 1 + rng.Intn(2), gnum: 4097, gden: 4096, tnum: 4, tden: 5}
		if err := c19ExpanderLosesRace(c, 2+rng.Intn(2), rng.Intn(2), 1+rng.Intn(3), o); err != nil {
			return err
		}
		o.Count("nil-rows/expander-loses-race")
	}
	// concurrent runs
	c19NilPick = nil
	for i := 0; i < nConc; i++ {
		c := c19RandCfg(rng, []int{3, 3, 3, 0, 1, 4}[i%6])
		if c.strat == 3 {
			c.cap, c.max, c.minInc = 1+rng.Intn(3), []int{0, 64, 1000}[rng.Intn(3)], 1+rng.Intn(3)
			c.tnum, c.tden = 4, 5
		}
		P := 1 + rng.Intn(4)
		ns := make([]int, P)
		for p := range ns {
			ns[p] = 20 + rng.Intn(50)
		}
		delay := []time.Duration{20, 100, 200}[rng.Intn(3)] * time.Microsecond
		c19NilPct = []int{5, 15, 30}[rng.Intn(3)]
		if err := c19Concurrent(c, ns, make([]int, P), delay, rng, fmt.Sprintf("nil-rows/concurrent/%s/cap%d/P%d", c.kind(), c.cap, P), o); err != nil {
			return err
		}
		c19NilPct = 0
	}
	return nil
}
