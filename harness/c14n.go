package main

// C14, third family: PARTITION BY keys that are PATHS into nested event rows (PARTITION BY meta.site, a.b.c),
// on rows that also carry a top-level column named like the path's leaf ("decoy": constant, drawn from the very
// pool of the nested values, or mirroring the nested value), rows whose path leads nowhere (container missing /
// nil / a scalar / a map without the leaf / intermediate level missing), NULL leaves, a column literally named
// like the key, and plain columns next to the paths.
//
//   C14 N <cap> # <item> (& <item>)* # <where> # <nrows> # <sync outs> # <async outs>      (items / where: c14m.go,
//                                                                 the P lists of the fields hold the path keys)
//     nrows  := nrow (";" nrow)*       nrow := ncell*       ncell := <colhex>=<val> | <colhex>={ ncell* }
//   C14 P <n> <keyhex>*n # <nrow> # <partition key hex>       stream.VerifPartitionKey(keys, row)
import (
	"fmt"
	"strings"
	"sync"

	"github.com/rulego/streamsql/stream"
)

type ncell struct {
	col  string
	leaf bool
	v    aval
	m    []ncell
}

type nrow []ncell

func ncellsMap(cs []ncell) map[string]any {
	m := make(map[string]any, len(cs))
	for _, c := range cs {
		if c.leaf {
			m[c.col] = c.v.goval()
		} else {
			m[c.col] = ncellsMap(c.m)
		}
	}
	return m
}
func (r nrow) gomap() map[string]any { return ncellsMap(r) }

func ncellsTok(cs []ncell) string {
	var sb []string
	for _, c := range cs {
		if c.leaf {
			sb = append(sb, hx(c.col)+"="+c.v.tok())
		} else {
			sb = append(sb, hx(c.col)+"={")
			if len(c.m) > 0 {
				sb = append(sb, ncellsTok(c.m))
			}
			sb = append(sb, "}")
		}
	}
	return strings.Join(sb, " ")
}
func (r nrow) tok() string { return ncellsTok(r) }

// the path keys of the family; every prefix container is used by one key only
var c14Paths = []string{"meta.site", "a.b.c", "dev.id", "meta.loc.zone", "x.p"}

// values found at a path: strings, and the typed look-alikes 1 / 1.0 / "1", NULL, a bool
var c14PathVals = []aval{{k: 's', s: "A"}, {k: 's', s: "B"}, {k: 's', s: "C"}, {k: 's', s: "gw"}, {k: 'i', z: 1},
	{k: 'd', z: 1}, {k: 's', s: "1"}, {k: 'N'}, {k: 'T'}, {k: 's', s: "D"}, {k: 'i', z: 2}}

// setPath binds v at path segs inside cells (creating the maps)
func setPath(cells []ncell, segs []string, v aval) []ncell {
	if len(segs) == 1 {
		return append(cells, ncell{col: segs[0], leaf: true, v: v})
	}
	for i := range cells {
		if cells[i].col == segs[0] && !cells[i].leaf {
			cells[i].m = setPath(cells[i].m, segs[1:], v)
			return cells
		}
	}
	return append(cells, ncell{col: segs[0], m: setPath(nil, segs[1:], v)})
}

type npathGen struct {
	key   string
	segs  []string
	pool  []aval // the values of this query's partitions
	decoy int    // 0 none, 1 constant, 2 drawn from the pool (all values, not only this query's), 3 mirrors the nested value
	// noFallback: a row whose path leads nowhere carries no decoy (such rows are judged by the declarative
	// specification alone; with a decoy they show the known suffix-fallback deviation)
	noFallback bool
}

func c14PathGen(rng *RNG, key string) npathGen {
	g := npathGen{key: key, segs: strings.Split(key, ".")}
	n := rng.Range(1, 5)
	for i := 0; i < n; i++ {
		g.pool = append(g.pool, c14PathVals[rng.Intn(len(c14PathVals))])
	}
	switch x := rng.Intn(20); {
	case x < 2:
		g.decoy = 0
	case x < 8:
		g.decoy = 1
	case x < 18:
		g.decoy = 2
	default:
		g.decoy = 3
	}
	g.noFallback = rng.Intn(10) < 6
	return g
}

// cells of one row for one path key
func (g npathGen) cells(rng *RNG, r nrow) nrow {
	leafName := g.segs[len(g.segs)-1]
	v := g.pool[rng.Intn(len(g.pool))]
	resolved := true
	switch x := rng.Intn(100); {
	case x < 76: // the path leads to v (NULL included)
		r = setPath(r, g.segs, v)
	case x < 82: // container missing
		resolved = false
	case x < 86: // container is NULL
		r = append(r, ncell{col: g.segs[0], leaf: true, v: aval{k: 'N'}})
		resolved = false
	case x < 89: // container is a scalar
		r = append(r, ncell{col: g.segs[0], leaf: true, v: aval{k: 's', s: "A"}})
		resolved = false
	case x < 95: // the map exists, the leaf does not (a sibling does)
		r = setPath(r, append(append([]string{}, g.segs[:len(g.segs)-1]...), "other"), aval{k: 's', s: "B"})
		resolved = false
	case x < 97 && len(g.segs) > 2: // an intermediate level is a scalar
		r = setPath(r, g.segs[:2], aval{k: 'i', z: 1})
		resolved = false
	default: // a column literally named like the key wins over the path
		r = setPath(r, g.segs, v)
		r = append(r, ncell{col: g.key, leaf: true, v: g.pool[rng.Intn(len(g.pool))]})
	}
	// the decoy: a top-level column named like the leaf (x.p: the plain column p, when the row has one, is it)
	if !resolved && g.noFallback {
		r = dropTop(r, leafName)
	} else if !hasTop(r, leafName) && rng.Intn(8) != 0 {
		switch g.decoy {
		case 1:
			r = append(r, ncell{col: leafName, leaf: true, v: aval{k: 's', s: "gw"}})
		case 2:
			r = append(r, ncell{col: leafName, leaf: true, v: c14PathVals[rng.Intn(len(c14PathVals))]})
		case 3:
			if resolved {
				r = append(r, ncell{col: leafName, leaf: true, v: v})
			}
		}
	}
	// an unrelated top-level map named like an inner segment (a.b.c: a top-level b = {c: ...})
	if len(g.segs) > 2 && rng.Intn(5) == 0 {
		r = append(r, ncell{col: g.segs[1], m: []ncell{{col: leafName, leaf: true, v: aval{k: 's', s: "Z"}}}})
	}
	return r
}

func hasTop(r nrow, name string) bool {
	for _, c := range r {
		if c.col == name {
			return true
		}
	}
	return false
}

func dropTop(r nrow, name string) nrow {
	var out nrow
	for _, c := range r {
		if c.col != name {
			out = append(out, c)
		}
	}
	return out
}

// c14NPart draws the PARTITION BY list of one field from the query's path keys (and the plain column p)
func c14NPart(rng *RNG, keys []string) []string {
	k := keys[rng.Intn(len(keys))]
	switch x := rng.Intn(20); {
	case x < 13:
		return []string{k}
	case x < 15:
		return []string{k, "p"}
	case x < 17:
		return []string{"p", k}
	case x < 18 && len(keys) > 1:
		return []string{keys[0], keys[1]}
	case x < 19:
		return []string{"p"}
	}
	return nil
}

type njob struct {
	q    mquery
	rows []nrow
	gens []npathGen
}

func c14NJob(rng *RNG) njob {
	q := c14MQuery(rng)
	nk := 1
	if rng.Intn(4) == 0 {
		nk = 2
	}
	var keys []string
	first := rng.Intn(len(c14Paths))
	for i := 0; i < nk; i++ {
		k := c14Paths[(first+i*2)%len(c14Paths)]
		if k == "meta.loc.zone" && len(keys) > 0 && keys[0] == "meta.site" {
			k = "dev.id" // one key per container
		}
		if k == "meta.site" && len(keys) > 0 && keys[0] == "meta.loc.zone" {
			k = "dev.id"
		}
		keys = append(keys, k)
	}
	for i := range q.items {
		q.items[i].f.part = c14NPart(rng, keys)
	}
	if q.wtest != "-" {
		q.wf.part = c14NPart(rng, keys)
	}
	// at least the first item is partitioned by a path
	if len(q.items[0].f.part) == 0 || (len(q.items[0].f.part) == 1 && q.items[0].f.part[0] == "p") {
		q.items[0].f.part = []string{keys[0]}
	}
	q.cap = []int{0, 0, 0, 2, 3, 5, 1}[rng.Intn(7)]
	gens := make([]npathGen, len(keys))
	for i, k := range keys {
		gens[i] = c14PathGen(rng, k)
	}
	flat := c14Rows(rng, aquery{})
	rows := make([]nrow, len(flat))
	for i, fr := range flat {
		var r nrow
		for _, c := range fr {
			r = append(r, ncell{col: c.col, leaf: true, v: c.v})
		}
		for _, g := range gens {
			r = g.cells(rng, r)
		}
		rows[i] = r
	}
	return njob{q: q, rows: rows, gens: gens}
}

// the row types of c14m.go's runners, on nested rows
func c14nRun(j njob) (string, error) {
	q := j.q
	s, err := q.open()
	if err != nil {
		return "", err
	}
	var so []string
	for _, r := range j.rows {
		res, err := s.EmitSync(r.gomap())
		if err != nil {
			so = append(so, "E"+hx(err.Error()))
			continue
		}
		so = append(so, q.resTok(res))
	}
	s.Stop()
	expect := 0
	for _, t := range so {
		if t != "x" {
			expect++
		}
	}
	maps := make([]map[string]any, len(j.rows))
	for i, r := range j.rows {
		maps[i] = r.gomap()
	}
	ao, err := c14mAsyncMaps(q, maps, expect)
	if err != nil {
		return "", err
	}
	var rt []string
	for _, r := range j.rows {
		rt = append(rt, r.tok())
	}
	return fmt.Sprintf("C14 N %s # %s # %s # %s", q.tok(), strings.Join(rt, " ; "), strings.Join(so, " "), strings.Join(ao, " ")), nil
}

func runC14N(tier string, rng *RNG, o *Out) error {
	nq, np := 700, 2500
	if tier == "thorough" {
		nq, np = 15000, 50000
	}
	jobs := make([]njob, nq)
	for i := range jobs {
		jobs[i] = c14NJob(rng)
	}
	lines := make([]string, nq)
	var wg sync.WaitGroup
	var emu sync.Mutex
	var firstErr error
	sem := make(chan struct{}, 8)
	for i := range jobs {
		i := i
		wg.Add(1)
		sem <- struct{}{}
		go func() {
			defer wg.Done()
			defer func() { <-sem }()
			l, err := c14nRun(jobs[i])
			if err != nil {
				emu.Lock()
				if firstErr == nil {
					firstErr = err
				}
				emu.Unlock()
				return
			}
			lines[i] = l
		}()
	}
	wg.Wait()
	if firstErr != nil {
		return firstErr
	}
	for i, l := range lines {
		o.Line("%s", l)
		j := jobs[i]
		o.Count(fmt.Sprintf("n_items_%d", len(j.q.items)))
		o.Count(fmt.Sprintf("n_pathkeys_%d", len(j.gens)))
		for _, g := range j.gens {
			o.Count(fmt.Sprintf("n_path_depth_%d", len(g.segs)))
			o.Count(fmt.Sprintf("n_decoy_%d", g.decoy))
			if g.noFallback {
				o.Count("n_no_fallback_rows")
			} else {
				o.Count("n_with_fallback_rows")
			}
		}
		if j.q.wtest != "-" {
			o.Count("n_where_analytic")
		}
		for _, it := range j.q.items {
			if len(it.f.part) == 0 {
				continue
			}
			seen := map[string]bool{}
			for _, r := range j.rows {
				seen[stream.VerifPartitionKey(it.f.part, r.gomap())] = true
			}
			capv := j.q.cap
			if capv == 0 {
				capv = 10000
			}
			if len(seen) > capv {
				o.Count("n_item_partitions_above_cap")
			} else {
				o.Count("n_item_partitions_within_cap")
			}
		}
	}
	// key level: the partition key of one nested row for 1-3 keys (paths and plain columns)
	for i := 0; i < np; i++ {
		nk := rng.Range(1, 3)
		var keys []string
		var r nrow
		used := map[string]bool{}
		for len(keys) < nk {
			var k string
			if rng.Intn(5) == 0 {
				k = "p"
			} else {
				k = c14Paths[rng.Intn(len(c14Paths))]
			}
			cont := strings.Split(k, ".")[0]
			if used[cont] {
				continue
			}
			used[cont] = true
			keys = append(keys, k)
			if k == "p" {
				if v := c14PartPool[rng.Intn(len(c14PartPool))]; v.k != 'A' && !hasTop(r, "p") {
					r = append(r, ncell{col: "p", leaf: true, v: v})
				}
				continue
			}
			g := c14PathGen(rng, k)
			g.noFallback = rng.Intn(10) < 7
			r = g.cells(rng, r)
		}
		var kt []string
		for _, k := range keys {
			kt = append(kt, hx(k))
		}
		key := stream.VerifPartitionKey(keys, r.gomap())
		o.Line("C14 P %d %s # %s # %s", len(keys), strings.Join(kt, " "), r.tok(), hx(key))
	}
	o.Count("partition_path_keys")
	return nil
}
