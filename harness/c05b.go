package main

// C05, second part: the two clauses that need more than one goroutine at a time.
//
// X lines — single-producer order while the input buffer is EXPANDED (overflow strategy `expand`, a
//   tiny buffer).  expandDataChannel moves the buffered rows to a larger channel under the write lock;
//   the consumer must not receive from the channel it knew before while that happens.
//     forced: the harness owns the schedule (verifYield gates of the repository's verif build + a gated
//             synchronous sink): row 0 is inside the sink, rows 1..cap fill the buffer, the Emit of row
//             cap+1 expands and is parked after it has migrated m rows (write lock held); then the
//             consumer is let out of the sink.  Afterwards everything runs freely and more rows follow.
//     free:   one producer emits a few hundred rows as fast as it can into a buffer of 1-4 slots
//             (dozens of expansions under real scheduling).
//   Every row carries a column id that the query selects; the sink sequence is judged by the model:
//   it must be the delivered (map (direct q) rows) of Model/Direct.v, in emission order
//   (Props/C05.v C05_expand_keeps_order); clause producer_order.
//
// E lines — "a result depends only on that row and the query", quantified over BOTH API paths at the
//   same time: ONE producer alternates Emit (evaluated by the processing goroutine) and EmitSync
//   (evaluated on the caller's goroutine), so two evaluations of the same WHERE / the same select
//   items overlap.  The WHERE always misses the flat `field OP literal` fast path (parentheses,
//   arithmetic, a call), i.e. it runs on the general predicate evaluator.
//     forced: the WHERE calls vgate(x), an identity function the harness registers through the public
//             functions.RegisterCustomFunction; when armed it parks the evaluation that reached it.
//             The consumer's evaluation of an Emit row is parked INSIDE the predicate, the producer
//             then runs 1-3 EmitSync rows through the same query, and releases it.
//     free:   2500 Emit/EmitSync pairs per query, rows drawn from a pool of 8, real scheduling.
//   Each observed result (EmitSync return value; what the sink got for the row, or nothing) is compared
//   with the model's decision for that row (direct q row) and with the row's result on a stream that
//   evaluates one row at a time; clause overlap_dependent.  The id column is normalised to 0 in the
//   line (the model is evaluated once per distinct row).

import (
	"fmt"
	"sort"
	"strings"
	"sync"
	"sync/atomic"
	"time"

	"github.com/rulego/streamsql"
	"github.com/rulego/streamsql/functions"
	"github.com/rulego/streamsql/stream"
	"github.com/rulego/streamsql/types"
)

// ---------------------------------------------------------------- shared helpers

// a generated query without * whose first item is the row's id
func c05IdQuery(r *RNG, where *ex) *query {
	for {
		q := genQuery(r)
		star := false
		for _, it := range q.items {
			if it.kind == "star" {
				star = true
			}
		}
		if star {
			continue
		}
		q.items = append([]qitem{{kind: "col", src: "id", out: "id"}}, q.items...)
		if where != nil {
			q.where = where
		}
		return q
	}
}

func c05WithID(row rowT, id int) rowT {
	c := rowT{}
	for k, v := range row {
		c[k] = v
	}
	c["id"] = cell{kind: "i", i: int64(id)}
	return c
}

func c05ResID(res map[string]any) int {
	switch v := res["id"].(type) {
	case int:
		return v
	case int64:
		return int(v)
	case float64:
		return int(v)
	}
	return -1
}

// the result with its id set to 0 (see the header)
func c05Norm(res map[string]any) string {
	if res == nil {
		return "none"
	}
	c := copyMap(res)
	if _, ok := c["id"]; ok {
		c["id"] = 0
	}
	return resEnc(c, nil)
}

// a row the reference stream lets through (when wantPass), within a few tries
func c05PickRow(r *RNG, ref *streamsql.Streamsql, wantPass bool) rowT {
	var row rowT
	for try := 0; try < 25; try++ {
		row = typedRow(r)
		if !wantPass {
			return row
		}
		res, err := ref.EmitSync(c05WithID(row, 0).goMap())
		if err == nil && res != nil {
			return row
		}
	}
	return row
}

type c05Sink struct {
	mu    sync.Mutex
	got   []map[string]any
	gated int32
	in    chan struct{}
	tok   chan struct{}
}

func newC05Sink() *c05Sink {
	return &c05Sink{in: make(chan struct{}, 1<<16), tok: make(chan struct{}, 1<<16)}
}
func (k *c05Sink) fn(rs []map[string]any) {
	for _, x := range rs {
		k.mu.Lock()
		k.got = append(k.got, copyMap(x))
		k.mu.Unlock()
		if atomic.LoadInt32(&k.gated) == 1 {
			k.in <- struct{}{}
			<-k.tok
		}
	}
}
func (k *c05Sink) n() int { k.mu.Lock(); defer k.mu.Unlock(); return len(k.got) }
func (k *c05Sink) waitIn(d time.Duration) bool {
	t := time.NewTimer(d)
	defer t.Stop()
	select {
	case <-k.in:
		return true
	case <-t.C:
		return false
	}
}
func (k *c05Sink) ungate() {
	atomic.StoreInt32(&k.gated, 0)
	for i := 0; i < 64; i++ {
		select {
		case k.tok <- struct{}{}:
		default:
		}
	}
}
func (k *c05Sink) results() []map[string]any {
	k.mu.Lock()
	defer k.mu.Unlock()
	var out []map[string]any
	for _, x := range k.got {
		if c05ResID(x) != c05Sentinel {
			out = append(out, x)
		}
	}
	return out
}

func c05ExpandStream(sql string, capN, minInc int) (*streamsql.Streamsql, error) {
	pc := types.DefaultPerformanceConfig()
	pc.BufferConfig.DataChannelSize = capN
	pc.BufferConfig.MaxBufferSize = 1 << 20
	pc.OverflowConfig.Strategy = "expand"
	pc.OverflowConfig.AllowDataLoss = true
	pc.OverflowConfig.ExpansionConfig.GrowthFactor = 1.5
	pc.OverflowConfig.ExpansionConfig.MinIncrement = minInc
	pc.OverflowConfig.ExpansionConfig.TriggerThreshold = 0.8
	s := streamsql.New(streamsql.WithDiscardLog(), streamsql.WithCustomPerformance(pc))
	if err := s.Execute(sql); err != nil {
		s.Stop()
		return nil, err
	}
	return s, nil
}

func c05StopWithin(s *streamsql.Streamsql, d time.Duration) {
	done := make(chan struct{})
	go func() { s.Stop(); close(done) }()
	select {
	case <-done:
	case <-time.After(d):
	}
}

func c05XLine(o *Out, mode, sql string, q *query, rows []rowT, dropped int64, capN, m int, early bool, got []map[string]any) {
	var sb strings.Builder
	fmt.Fprintf(&sb, "C05 X %s %s # %s # %d %d %d %d %s", mode, hx(sql), q.c06_enc(), len(rows), dropped, capN, m, b01(early))
	for _, row := range rows {
		sb.WriteString(" # " + row.c06_enc())
	}
	for _, res := range got {
		sb.WriteString(" # " + resEnc(res, nil))
	}
	o.Line("%s", sb.String())
}

// end of a run: a last row that the reference stream lets through is emitted with the sentinel id; one
// consumer takes the rows in order, so once its result is at the sink every earlier row has been
// handled (waitQuiet alone could mistake a stalled consumer on a loaded machine for the end)
const c05Sentinel = 1 << 20

func c05Drain(r *RNG, s, ref *streamsql.Streamsql, seen func(id int) bool, count func() int) {
	row := c05PickRow(r, ref, true)
	if res, err := ref.EmitSync(c05WithID(row, 0).goMap()); err == nil && res != nil {
		s.Emit(c05WithID(row, c05Sentinel).goMap())
		for i := 0; i < 1000 && !seen(c05Sentinel); i++ {
			time.Sleep(10 * time.Millisecond)
		}
	}
	waitQuiet(count)
}
func (k *c05Sink) seen(id int) bool {
	k.mu.Lock()
	defer k.mu.Unlock()
	for i := len(k.got) - 1; i >= 0; i-- {
		if c05ResID(k.got[i]) == id {
			return true
		}
	}
	return false
}
func (k *c05IdSink) seen(id int) bool { k.mu.Lock(); defer k.mu.Unlock(); return k.cnt[id] > 0 }

const c05Long = 3 * time.Second
const c05Short = 120 * time.Millisecond

// ---------------------------------------------------------------- X forced
func c05ExpandForced(r *RNG, o *Out) {
	q := c05IdQuery(r, nil)
	sql := q.sql()
	ref := streamsql.New(streamsql.WithDiscardLog())
	if err := ref.Execute(sql); err != nil {
		ref.Stop()
		o.Count("expand/rejected")
		return
	}
	defer ref.Stop()
	capN := 2 + r.Intn(4)
	m := 1 + r.Intn(capN-1) // rows migrated when the consumer is let out of the sink (at least one stays behind)
	total := capN + 2 + r.Intn(5)
	var rows []rowT
	for i := 0; i < total; i++ {
		// the rows that are buffered during the expansion are visible at the sink
		rows = append(rows, c05WithID(c05PickRow(r, ref, i <= capN || r.Intn(3) != 0), i))
	}
	if res, err := ref.EmitSync(rows[0].goMap()); err != nil || res == nil {
		o.Count("expand/unsat")
		return
	}
	stream.VerifYieldReset(true)
	defer stream.VerifYieldReset(false)
	s, err := c05ExpandStream(sql, capN, 1+r.Intn(3))
	if err != nil {
		o.Count("expand/rejected")
		return
	}
	sink := newC05Sink()
	sink.gated = 1
	s.AddSyncSink(sink.fn)
	early := false
	ok := func() bool {
		s.Emit(rows[0].goMap())
		if !sink.waitIn(c05Long) {
			return false
		}
		for k := 1; k <= capN; k++ {
			s.Emit(rows[k].goMap())
		}
		gM := stream.VerifYieldGate("expand_migrated_one")
		done := make(chan struct{})
		go func() { s.Emit(rows[capN+1].goMap()); close(done) }()
		if !gM.WaitArrived(c05Long) {
			return false
		}
		for j := 1; j < m; j++ {
			gM.Release()
			if !gM.WaitArrived(c05Long) {
				return false
			}
		}
		// the migrator is parked inside its loop, m rows moved, the write lock held: let the consumer go on
		sink.tok <- struct{}{}
		early = sink.waitIn(c05Short) // the consumer must not get at a row before the swap
		sink.ungate()
		gM.Open()
		select {
		case <-done:
		case <-time.After(c05Long):
			return false
		}
		for k := capN + 2; k < total; k++ {
			s.Emit(rows[k].goMap())
		}
		return true
	}()
	sink.ungate()
	stream.VerifYieldReset(false)
	if ok {
		c05Drain(r, s, ref, sink.seen, sink.n)
	}
	dropped := s.GetStats()[stream.InputDroppedCount]
	c05StopWithin(s, 8*time.Second)
	if !ok {
		o.Count("expand/schedule-not-reached")
		return
	}
	c05XLine(o, "forced", sql, q, rows, dropped, capN, m, early, sink.results())
	o.Count("expand/forced")
}

// ---------------------------------------------------------------- X free
func c05ExpandFree(r *RNG, o *Out, n int) {
	q := c05IdQuery(r, nil)
	sql := q.sql()
	ref := streamsql.New(streamsql.WithDiscardLog())
	if err := ref.Execute(sql); err != nil {
		ref.Stop()
		o.Count("expand/rejected")
		return
	}
	defer ref.Stop()
	capN := 1 + r.Intn(4)
	s, err := c05ExpandStream(sql, capN, 1+r.Intn(3))
	if err != nil {
		o.Count("expand/rejected")
		return
	}
	sink := newC05Sink()
	s.AddSyncSink(sink.fn)
	pool := make([]rowT, 6)
	for i := range pool {
		pool[i] = c05PickRow(r, ref, i < 4)
	}
	var rows []rowT
	var maps []map[string]any
	for i := 0; i < n; i++ {
		row := c05WithID(pool[r.Intn(len(pool))], i)
		rows = append(rows, row)
		maps = append(maps, row.goMap())
	}
	for _, m := range maps {
		s.Emit(m)
	}
	c05Drain(r, s, ref, sink.seen, sink.n)
	st := s.GetStats()
	c05StopWithin(s, 8*time.Second)
	c05XLine(o, "free", sql, q, rows, st[stream.InputDroppedCount], capN, 0, false, sink.results())
	o.Count("expand/free")
	if int(st[stream.DataChanCap]) > capN {
		o.Count("expand/free-expanded")
	}
}

// ---------------------------------------------------------------- E: the gate function
var c05Gate struct {
	once    sync.Once
	armed   int32
	arrived chan struct{}
	release chan struct{}
	err     error
}

func c05GateInit() error {
	c05Gate.once.Do(func() {
		c05Gate.arrived = make(chan struct{}, 16)
		c05Gate.release = make(chan struct{}, 16)
		c05Gate.err = functions.RegisterCustomFunction("vgate", functions.TypeCustom, "verif", "identity; a scheduling point of the harness", 1, 1,
			func(ctx *functions.FunctionContext, args []any) (any, error) {
				if atomic.CompareAndSwapInt32(&c05Gate.armed, 1, 0) {
					c05Gate.arrived <- struct{}{}
					<-c05Gate.release
				}
				return args[0], nil
			})
	})
	return c05Gate.err
}

// a WHERE that always runs on the general evaluator
func c05SlowWhere(r *RNG, gate bool) *ex {
	g := sqlGen(r, false)
	body := func() *ex {
		for {
			w := norm(g.boolE(1 + r.Intn(2)))
			if !hasNeg(w) {
				return w
			}
		}
	}
	first := &ex{k: "par", l: body()}
	if gate {
		p := litPool[r.Intn(len(litPool))]
		if p[0] < 0 {
			p[0] = -p[0]
		}
		c := r.Pick([]string{"a", "b"})
		first = cmp(r.Pick([]string{"gt", "ge", "lt", "le", "ne"}), &ex{k: "gate", l: col(c)}, num(p[0], p[1]))
	}
	k := "and"
	if r.Bool() {
		k = "or"
	}
	return &ex{k: k, l: first, r: &ex{k: "par", l: body()}}
}

type c05Seen struct {
	seq  string
	conc map[string]map[string]int // path -> outcome -> count
}

func c05ELine(o *Out, mode, path, sql string, q *query, row rowT, seq, conc string, count int) {
	o.Line("C05 E %s %s %d %s # %s # %s # %s # %s", mode, path, count, hx(sql), q.c06_enc(), c05WithID(row, 0).c06_enc(), seq, conc)
}

func c05BlockStream(sql string) (*streamsql.Streamsql, error) {
	s := streamsql.New(streamsql.WithDiscardLog(), streamsql.WithOverflowStrategy("block", 5*time.Second))
	if err := s.Execute(sql); err != nil {
		s.Stop()
		return nil, err
	}
	return s, nil
}

type c05IdSink struct {
	mu  sync.Mutex
	n   int
	cnt map[int]int
	res map[int]string
}

func newC05IdSink() *c05IdSink { return &c05IdSink{cnt: map[int]int{}, res: map[int]string{}} }
func (k *c05IdSink) fn(rs []map[string]any) {
	k.mu.Lock()
	for _, x := range rs {
		id := c05ResID(x)
		k.cnt[id]++
		k.res[id] = c05Norm(x)
		k.n++
	}
	k.mu.Unlock()
}
func (k *c05IdSink) total() int { k.mu.Lock(); defer k.mu.Unlock(); return k.n }
func (k *c05IdSink) outcome(id int) string {
	k.mu.Lock()
	defer k.mu.Unlock()
	switch c := k.cnt[id]; {
	case c == 0:
		return "none"
	case c > 1:
		return "dup"
	}
	return k.res[id]
}

// ---------------------------------------------------------------- E forced
func c05OverlapForced(r *RNG, o *Out) {
	if err := c05GateInit(); err != nil {
		o.Count("overlap/no-gate-function")
		return
	}
	q := c05IdQuery(r, c05SlowWhere(r, true))
	sql := q.sql()
	ref, err := c05BlockStream(sql)
	if err != nil {
		o.Count("overlap/rejected")
		return
	}
	defer ref.Stop()
	s, err := c05BlockStream(sql)
	if err != nil {
		o.Count("overlap/rejected")
		return
	}
	sink := newC05IdSink()
	s.AddSyncSink(sink.fn)
	type ev struct {
		row  rowT
		id   int
		path string
		conc string
	}
	var evs []*ev
	id := 0
	parkedOK := true
	for step := 0; step < 4 && parkedOK; step++ {
		e := &ev{row: c05PickRow(r, ref, r.Intn(4) != 0), id: id, path: "emit"}
		id++
		atomic.StoreInt32(&c05Gate.armed, 1)
		s.Emit(c05WithID(e.row, e.id).goMap())
		select {
		case <-c05Gate.arrived:
		case <-time.After(c05Long):
			atomic.StoreInt32(&c05Gate.armed, 0)
			parkedOK = false
		}
		evs = append(evs, e)
		if !parkedOK {
			break
		}
		// the consumer is inside the predicate of e.row: the same producer goes on with EmitSync
		for j, nj := 0, 1+r.Intn(3); j < nj; j++ {
			y := &ev{row: c05PickRow(r, ref, r.Bool()), id: id, path: "emitsync"}
			id++
			m := c05WithID(y.row, y.id).goMap()
			y.conc = guard(func() string {
				res, err := s.EmitSync(m)
				if err != nil {
					return "e"
				}
				return c05Norm(res)
			})
			evs = append(evs, y)
		}
		c05Gate.release <- struct{}{}
		// the next step's Emit parks only after the consumer has finished this row (one consumer, FIFO)
	}
	c05Drain(r, s, ref, sink.seen, sink.total)
	c05StopWithin(s, 8*time.Second)
	if !parkedOK {
		o.Count("overlap/consumer-did-not-reach-the-gate")
	}
	for _, e := range evs {
		seq := guard(func() string {
			res, err := ref.EmitSync(c05WithID(e.row, 0).goMap())
			if err != nil {
				return "e"
			}
			return c05Norm(res)
		})
		if e.path == "emit" {
			c05ELine(o, "forced", "emit", sql, q, e.row, seq, sink.outcome(e.id), 1)
		} else {
			c05ELine(o, "forced", "emitsync", sql, q, e.row, seq, e.conc, 1)
			if e.conc != "PANIC" && e.conc != "e" {
				c05ELine(o, "forced", "emitsync_sink", sql, q, e.row, seq, sink.outcome(e.id), 1)
			}
		}
	}
	o.Count("overlap/forced")
}

// ---------------------------------------------------------------- E free
func c05OverlapFree(r *RNG, o *Out, pairs int) {
	q := c05IdQuery(r, c05SlowWhere(r, false))
	sql := q.sql()
	ref, err := c05BlockStream(sql)
	if err != nil {
		o.Count("overlap/rejected")
		return
	}
	defer ref.Stop()
	s, err := c05BlockStream(sql)
	if err != nil {
		o.Count("overlap/rejected")
		return
	}
	sink := newC05IdSink()
	s.AddSyncSink(sink.fn)
	const np = 8
	pool := make([]rowT, np)
	seen := make([]c05Seen, np)
	for i := range pool {
		pool[i] = c05PickRow(r, ref, i%2 == 0)
		seen[i].seq = guard(func() string {
			res, err := ref.EmitSync(c05WithID(pool[i], 0).goMap())
			if err != nil {
				return "e"
			}
			return c05Norm(res)
		})
		seen[i].conc = map[string]map[string]int{"emit": {}, "emitsync": {}, "emitsync_sink": {}}
	}
	type rec struct {
		pi, id int
		path   string
	}
	var recs []rec
	id := 0
	for k := 0; k < pairs; k++ {
		a, b := r.Intn(np), r.Intn(np)
		s.Emit(c05WithID(pool[a], id).goMap())
		recs = append(recs, rec{a, id, "emit"})
		id++
		m := c05WithID(pool[b], id).goMap()
		out := guard(func() string {
			res, err := s.EmitSync(m)
			if err != nil {
				return "e"
			}
			return c05Norm(res)
		})
		seen[b].conc["emitsync"][out]++
		if out != "PANIC" && out != "e" {
			recs = append(recs, rec{b, id, "emitsync_sink"})
		}
		id++
	}
	c05Drain(r, s, ref, sink.seen, sink.total)
	c05StopWithin(s, 8*time.Second)
	for _, x := range recs {
		seen[x.pi].conc[x.path][sink.outcome(x.id)]++
	}
	for i := range pool {
		for _, path := range []string{"emit", "emitsync", "emitsync_sink"} {
			var outs []string
			for k := range seen[i].conc[path] {
				outs = append(outs, k)
			}
			sort.Strings(outs)
			for _, k := range outs {
				c05ELine(o, "free", path, sql, q, pool[i], seen[i].seq, k, seen[i].conc[path][k])
			}
		}
	}
	o.Count("overlap/free")
}

func c05Concurrent(tier string, r *RNG, o *Out) {
	nForced, nFree, nRows, nOF, nOFree, pairs := 14, 4, 300, 10, 5, 2500
	if tier == "thorough" {
		nForced, nFree, nRows, nOF, nOFree, pairs = 80, 20, 1000, 60, 30, 10000
	}
	for i := 0; i < nForced; i++ {
		c05ExpandForced(r, o)
	}
	for i := 0; i < nFree; i++ {
		c05ExpandFree(r, o, nRows)
	}
	for i := 0; i < nOF; i++ {
		c05OverlapForced(r, o)
	}
	for i := 0; i < nOFree; i++ {
		c05OverlapFree(r, o, pairs)
	}
}
