package main

import (
	"sync"
	"strings"
	"fmt"
	"time"

	"github.com/rulego/streamsql/types"
	"github.com/rulego/streamsql/window"
)

func init() { runners["C10"] = runC10 }

type nwCfg struct{ timeout, ooo, late int64 }

func newSession(c nwCfg) (stepWin, error) {
	cfg := types.WindowConfig{
		Type: "session", Params: []any{time.Duration(c.timeout)}, TsProp: "ts", TimeUnit: time.Duration(tsCarrier.unit),
		MaxOutOfOrderness: time.Duration(c.ooo), AllowedLateness: time.Duration(c.late),
		TimeCharacteristic: types.EventTime, GroupByKeys: []string{"k"},
	}
	return window.VerifNewSession(cfg)
}

func sessionLine(o *Out, prop string, c nwCfg, ops []wop, tag string) error {
	w, err := newSession(c)
	if err != nil {
		return err
	}
	obs := runWin(w, ops, true)
	o.Line("%s N %d %d %d %d # %s # %s", prop, c.timeout, c.ooo, c.late, harnessBase, opsString(ops), obs)
	o.Count(tag)
	return nil
}

// genSessionOps: per-key timestamp sequences with gaps just below / at / above the timeout, dense
// bursts, out-of-order rows within tolerance, deliveries at every position (with Adds placed between
// the receipt of a watermark and its handling).
func genSessionOps(rng *RNG, c nwCfg, n int, nkeys int, farFuture bool) []wop {
	var ops []wop
	id := int64(0)
	last := make([]int64, nkeys)
	t := int64(1000)
	for k := range last {
		last[k] = t + int64(rng.Intn(int(c.timeout)+1))
	}
	maxTs := t
	// one history in three uses the NULL group (90: nil / missing) and the empty string (91) as keys
	keyNames := []string{"1", "2", "3"}
	if rng.Intn(5) == 0 {
		// float64 keys equal as float32
		keyNames = [][]string{{"92", "93", "94"}, {"93", "92", "1"}, {"92", "2", "93"}}[rng.Intn(3)]
	} else if rng.Intn(3) == 0 {
		// 95 / 96 / 97: the texts `\N`, `|`, `\|` (the encoder's NULL marker and separator as legal key values)
		keyNames = [][]string{{"90", "2", "3"}, {"90", "91", "3"}, {"1", "90", "91"}, {"90", "95", "91"}, {"95", "90", "96"}, {"96", "97", "95"}}[rng.Intn(6)]
		if nkeys == 1 {
			keyNames = []string{[]string{"90", "91", "95"}[rng.Intn(3)]}
		}
	}
	mkAdd := func() wop {
		id++
		k := rng.Intn(nkeys)
		var ts int64
		switch rng.Intn(10) {
		case 0:
			ts = last[k] + c.timeout - 1
		case 1:
			ts = last[k] + c.timeout
		case 2:
			ts = last[k] + c.timeout + 1
		case 3:
			ts = last[k] + 3*c.timeout + int64(rng.Intn(int(c.timeout)+1))
		case 4: // out of order within tolerance
			ts = maxTs - int64(rng.Intn(int(c.ooo)+1))
		case 6: // late and well before the key's latest session (not absorbable by it)
			ts = last[k] - c.ooo - 1 - c.timeout*int64(1+rng.Intn(4)) - int64(rng.Intn(int(c.timeout)+1))
		case 5: // late
			ts = maxTs - c.ooo - 1 - int64(rng.Intn(int(2*c.timeout)+1))
		default:
			ts = last[k] + int64(rng.Intn(int(c.timeout)/2+2))
		}
		if ts < 0 {
			ts = 0
		}
		if farFuture && rng.Intn(25) == 0 {
			ts = harnessBase + int64(100*time.Hour) + int64(rng.Intn(1000))
		} else {
			if ts > last[k] {
				last[k] = ts
			}
			if ts > maxTs {
				maxTs = ts
			}
		}
		o := wop{kind: 'A', id: id, ts: ts, key: keyNames[k]}
		if rng.Intn(40) == 0 {
			o.kind = 'N'
		}
		return o
	}
	for len(ops) < n {
		switch r := rng.Intn(20); {
		case r < 13:
			ops = append(ops, mkAdd())
		case r < 18:
			d := wop{kind: 'D', inj: [][]wop{}}
			if rng.Intn(3) == 0 {
				for j := rng.Intn(3) + 1; j > 0; j-- {
					d.pre = append(d.pre, mkAdd())
				}
			}
			ops = append(ops, d)
		case r < 19:
			ops = append(ops, wop{kind: 'K'})
		default:
			for j := rng.Intn(6) + 2; j > 0; j-- {
				ops = append(ops, mkAdd())
			}
		}
	}
	ops = append(ops, wop{kind: 'X'})
	id++
	// push the watermark far ahead with a row of a key used nowhere else, then drain
	ops = append(ops, wop{kind: 'A', id: id, ts: maxTs + c.ooo + c.late + 5*c.timeout, key: "99"}, wop{kind: 'X'})
	return ops
}

// sessionRace: real concurrency between the ingest goroutine and the expiry step (the stepping hooks
// are called from two goroutines). With many open sessions the expiry scan takes a while; a row of a
// key that is being expired arrives meanwhile. Whatever the interleaving, a session may only be
// delivered by the expiry step of a watermark >= its end. Line: C10 R <attempt> (wmk end)*
func sessionRace(o *Out, attempts int) error {
	for a := 0; a < attempts; a++ {
		w, err := newSession(nwCfg{timeout: int64(2 * time.Second), ooo: 0, late: 0})
		if err != nil {
			return err
		}
		var mu sync.Mutex
		curW := int64(-1)
		var pairs []string
		w.SetCallback(func(rows []types.Row) {
			if len(rows) == 0 || rows[0].Slot == nil {
				return
			}
			mu.Lock()
			pairs = append(pairs, fmt.Sprintf("%d %d", curW, rows[0].Slot.End.UnixNano()))
			mu.Unlock()
		})
		t0 := int64(1000 * time.Second)
		w.Add(map[string]any{"id": int64(1), "ts": t0, "k": "T"})
		nfill := 30000
		for i := 0; i < nfill; i++ {
			w.Add(map[string]any{"id": int64(10 + i), "ts": t0, "k": fmt.Sprintf("f%d", i)})
		}
		for w.VerifDeliverOne(nil) {
		}
		w.Add(map[string]any{"id": int64(2), "ts": t0 + int64(20*time.Second), "k": "W"})
		done := make(chan struct{})
		go func() {
			w.VerifDeliverOne(func(wmk int64) { mu.Lock(); curW = wmk; mu.Unlock() })
			close(done)
		}()
		time.Sleep(time.Duration(a*300) * time.Microsecond)
		w.Add(map[string]any{"id": int64(3), "ts": t0 + int64(25*time.Second), "k": "T"})
		<-done
		w.VerifDrain()
		w.Stop()
		mu.Lock()
		// only the sessions of key T and W matter for the verdict; keep the line short
		var keep []string
		for _, p := range pairs {
			var wm, e int64
			fmt.Sscanf(p, "%d %d", &wm, &e)
			if e != t0+int64(2*time.Second) || len(keep) < 2 {
				keep = append(keep, p)
			}
		}
		mu.Unlock()
		o.Line("C10 R %d %s", a, strings.Join(keep, " "))
		o.Count("concurrent expiry vs ingest")
	}
	return nil
}

func runC10(tier string, seed uint64, o *Out) error {
	rng := NewRNG(seed ^ 0xC10)
	ncases := 1500
	if tier == "thorough" {
		ncases = 30000
	}
	// corpus: the recorded findings (gap not split, start not earliest, speed dependence)
	gap := []wop{{kind: 'A', id: 1, ts: 10000, key: "1"}, {kind: 'A', id: 2, ts: 10100, key: "1"}, {kind: 'A', id: 3, ts: 15000, key: "1"}, {kind: 'X'},
		{kind: 'A', id: 4, ts: 30000, key: "99"}, {kind: 'X'}}
	if err := sessionLine(o, "C10", nwCfg{1000, 0, 0}, gap, "corpus"); err != nil {
		return err
	}
	gapSplit := []wop{{kind: 'A', id: 1, ts: 10000, key: "1"}, {kind: 'A', id: 2, ts: 10100, key: "1"}, {kind: 'A', id: 5, ts: 12000, key: "2"}, {kind: 'X'},
		{kind: 'A', id: 3, ts: 15000, key: "1"}, {kind: 'X'}, {kind: 'A', id: 4, ts: 30000, key: "99"}, {kind: 'X'}}
	if err := sessionLine(o, "C10", nwCfg{1000, 0, 0}, gapSplit, "corpus"); err != nil {
		return err
	}
	early := []wop{{kind: 'A', id: 1, ts: 10400, key: "1"}, {kind: 'A', id: 2, ts: 10100, key: "1"}, {kind: 'X'}, {kind: 'A', id: 3, ts: 30000, key: "99"}, {kind: 'X'}}
	if err := sessionLine(o, "C10", nwCfg{1000, 500, 0}, early, "corpus"); err != nil {
		return err
	}
	ff := []wop{{kind: 'A', id: 1, ts: 1000, key: "1"}, {kind: 'A', id: 2, ts: 1100, key: "1"}, {kind: 'A', id: 3, ts: harnessBase + int64(100*time.Hour), key: "1"},
		{kind: 'A', id: 4, ts: 60000, key: "2"}, {kind: 'X'}, {kind: 'A', id: 5, ts: 90000, key: "99"}, {kind: 'X'}}
	if err := sessionLine(o, "C10", nwCfg{1000, 0, 0}, ff, "corpus"); err != nil {
		return err
	}
	// late rows of a key before the start of its retained fired session: not absorbed (consecutive timestamps of a
	// reported session differ by at most the timeout; window_start is the earliest timestamp)
	cross := []wop{{kind: 'A', id: 1, ts: 1000, key: "1"}, {kind: 'A', id: 2, ts: 1005, key: "2"}, {kind: 'A', id: 3, ts: 1100, key: "3"}, {kind: 'X'},
		{kind: 'A', id: 4, ts: 1003, key: "2"}, {kind: 'A', id: 5, ts: 900, key: "1"}, {kind: 'A', id: 6, ts: 1007, key: "2"}, {kind: 'X'}}
	if err := sessionLine(o, "C10", nwCfg{10, 0, 500}, cross, "corpus"); err != nil {
		return err
	}
	for i := 0; i < ncases; i++ {
		c := nwCfg{timeout: []int64{2, 10, 1000, int64(time.Second)}[rng.Intn(4)]}
		c.ooo = []int64{0, c.timeout / 2, 3 * c.timeout}[rng.Intn(3)]
		c.late = []int64{0, 0, c.timeout, 5 * c.timeout}[rng.Intn(4)] // late rows absorbed by a fired session of their key
		n := 5 + rng.Intn(36)
		unit, farOK := pickTsCarrier(rng)
		if c.timeout >= int64(time.Second) { // keep scaled timestamps far from the int64 limit
			unit, farOK = 1, true
			resetTsCarrier()
		}
		far := farOK && rng.Intn(5) == 0
		ops := genSessionOps(rng, c, n, 1+rng.Intn(3), far)
		if i%25 == 3 {
			ops = overflowThenQuiet(rng, c.timeout, []string{"1", "2", "3"})
		}
		scaleOps(ops, unit)
		tag := fmt.Sprintf("timeout=%d", c.timeout)
		if tsCarrier.kind != 0 || unit != 1 {
			tag = fmt.Sprintf("timestamp carried as kind %d unit %d", tsCarrier.kind, unit)
		}
		if !far && unit != 1 && rng.Intn(3) > 0 {
			shiftOps(ops, epochBase(unit))
			tag += ", present-day epoch"
		}
		err := sessionLine(o, "C10", nwCfg{c.timeout * unit, c.ooo * unit, c.late * unit}, ops, tag)
		resetTsCarrier()
		if err != nil {
			return err
		}
	}
	nrace := 6
	if tier == "thorough" {
		nrace = 30
	}
	if err := sessionRace(o, nrace); err != nil {
		return err
	}
	nsql := 12
	if tier == "thorough" {
		nsql = 120
	}
	if err := sessionSQLCases(o, rng, nsql); err != nil {
		return err
	}
	return nil
}
