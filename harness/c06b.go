package main

// C06, second part: expr-lang bridge (B), SQL level (H = WHERE, S = SELECT item), differential runs
// for built-ins without a Gallina meaning (D) and the malformed stream (M).

import (
	"fmt"
	"strings"

	"github.com/rulego/streamsql"
	"github.com/rulego/streamsql/expr"
	"github.com/rulego/streamsql/functions"
)

// expressions of the SQL surface: no ^ % <> and no detached unary minus (the SQL lexer rejects / re-spaces them)
func sqlGen(r *RNG, funcs bool) *gen { return &gen{r: r, funcs: funcs, wild: false, caret: false, ne2: false} }

func hasNeg(e *ex) bool {
	if e == nil {
		return false
	}
	if e.k == "neg" {
		return true
	}
	if hasNeg(e.l) || hasNeg(e.r) {
		return true
	}
	for _, a := range e.args {
		if hasNeg(a) {
			return true
		}
	}
	return false
}
func topHasNeg(t *etop) bool {
	if hasNeg(t.e) || hasNeg(t.v) || hasNeg(t.els) {
		return true
	}
	for _, w := range t.whens {
		if hasNeg(w[0]) || hasNeg(w[1]) {
			return true
		}
	}
	return false
}

// typed rows only: a,b numeric, s,t non-numeric text, c bool (plus NULL / absent)
func typedRow(r *RNG) rowT {
	for {
		row := genRow(r, false)
		ok := true
		for _, k := range []string{"s", "t"} {
			if c, in := row[k]; in && c.kind == "s" {
				for _, ns := range numStrPool {
					if c.s == ns {
						ok = false
					}
				}
			}
		}
		if ok {
			return row
		}
	}
}

func c06Bridge(tier string, r *RNG, o *Out) error {
	n := 150
	if tier == "thorough" {
		n = 2000
	}
	for i := 0; i < n; i++ {
		g := sqlGen(r, false)
		var t *etop
		if i%2 == 0 {
			t = &etop{e: g.numE(1 + r.Intn(3))}
		} else {
			t = &etop{e: g.boolE(1 + r.Intn(3))}
		}
		t = normTop(t)
		text := strings.NewReplacer(" AND ", " && ", " OR ", " || ", " = ", " == ").Replace(renderTop(t))
		for k := 0; k < 3; k++ {
			row := typedRow(r)
			m := row.goMap()
			o1 := bridgeObs(text, copyMap(m))
			for h := 0; h < 2; h++ {
				_ = bridgeObs(text, genRow(r, true).goMap())
			}
			o2 := bridgeObs(text, copyMap(m))
			if o1 != o2 {
				o.Line("C06 HD %s # %s # %s | %s", hx(text), row.c06_enc(), o1, o2)
				o.Count("history/DEPENDENT")
				continue
			}
			o.Line("C06 B %s # %s # %s # %s", hx(text), encTop(t), row.c06_enc(), o1)
			o.Count("bridge/rows")
		}
	}
	return nil
}

func sqlValue(res map[string]any, err error, key string) string {
	if err != nil {
		return "e"
	}
	if res == nil {
		return "none"
	}
	v, ok := res[key]
	if !ok {
		return "absent"
	}
	return valEnc(v)
}

func c06SQL(tier string, r *RNG, o *Out) error {
	n := 120
	if tier == "thorough" {
		n = 1500
	}
	for i := 0; i < n; i++ {
		g := sqlGen(r, false)
		isWhere := i%2 == 0
		var t *etop
		if isWhere {
			t = &etop{e: g.boolE(1 + r.Intn(3))}
		} else {
			t = g.top(1 + r.Intn(3))
		}
		t = normTop(t)
		if topHasNeg(t) || (t.isCase && t.v != nil && t.v.k == "par") {
			continue // "- a" is re-spaced by the SQL lexer; "CASE (x)" is read as a call
		}
		text := renderTop(t)
		var q string
		if isWhere {
			q = "SELECT b FROM stream WHERE " + text
		} else {
			q = "SELECT " + text + " AS x FROM stream"
		}
		s1 := streamsql.New(streamsql.WithDiscardLog())
		if err := s1.Execute(q); err != nil {
			o.Count("sql/rejected")
			s1.Stop()
			continue
		}
		for k := 0; k < 4; k++ {
			row := typedRow(r)
			m := row.goMap()
			get := func(s *streamsql.Streamsql) string {
				return guard(func() string {
					res, err := s.EmitSync(copyMap(m))
					if isWhere {
						if err != nil {
							return "e"
						}
						return b01(res != nil)
					}
					return sqlValue(res, err, "x")
				})
			}
			o1 := get(s1)
			for h := 0; h < 2; h++ {
				quietSync(s1, genRow(r, true).goMap())
			}
			o2 := get(s1)
			s2 := streamsql.New(streamsql.WithDiscardLog())
			o3 := "execerr"
			if err := s2.Execute(q); err == nil {
				o3 = get(s2)
			}
			s2.Stop()
			if o1 != o2 || o1 != o3 {
				o.Line("C06 HD %s # %s # %s | %s | %s", hx(q), row.c06_enc(), o1, o2, o3)
				o.Count("history/DEPENDENT")
				continue
			}
			if isWhere {
				o.Line("C06 H %s # %s # %s # %s", hx(text), encTop(t), row.c06_enc(), o1)
				o.Count("sql/where")
			} else {
				o.Line("C06 S %s # %s # %s # %s", hx(text), encTop(t), row.c06_enc(), o1)
				o.Count("sql/select")
			}
		}
		s1.Stop()
	}
	return nil
}

// built-ins without a Gallina meaning: same value from every path and after every history, no panic.
// paths: functions.Get(name).Execute, expr.NewExpression(...).EvaluateValueWithNull, the bridge, SELECT.
func c06Diff(tier string, r *RNG, o *Out) {
	calls := []string{
		"sqrt(a)", "sqrt(b)", "exp(a)", "ln(a)", "log10(b)", "sin(a)", "cos(b)", "power(a, 2)", "power(a, b)",
		"md5(s)", "sha1(s)", "sha256(s)", "sha512(t)", "trim(s)", "ltrim(s)", "rtrim(t)", "replace(s, 'a', 'x')",
		"substring(s, 1, 2)", "startswith(s, 'a')", "endswith(s, 'b')", "indexof(s, 'b')", "lpad(s, 5, 'x')",
		"json_valid(s)", "to_json(a)", "is_null(a)", "is_not_null(a)", "is_numeric(a)", "is_string(s)", "is_bool(c)",
		"hex2dec(s)", "dec2hex(a)", "url_encode(s)", "chr(a)", "trunc(a, 1)", "atan2(a, b)", "bitand(a, b)",
		"year(s)", "date_format(s, 'yyyy')", "array_length(s)", "json_extract(s, '$.a')",
		// multi-character pads / needles / separators, lengths that are not multiples of the pad
		"lpad(s, 7, 'xy')", "rpad(s, 6, 'abc')", "rpad(t, 4, '-+*')", "lpad(t, 3)", "replace(s, 'ab', 'xyz')",
		"replace(t, 'zz', '')", "substring(s, 1)", "indexof(s, 'bc')", "startswith(s, 'ab')", "endswith(t, 'zz')",
		"concat_ws('--', s, t)", "split(s, 'b')", "trunc(b, 0)", "round(a, 1)",
	}
	rows := 6
	if tier == "thorough" {
		rows = 40
	}
	for _, c := range calls {
		q := "SELECT " + c + " AS x FROM stream"
		s := streamsql.New(streamsql.WithDiscardLog())
		okSQL := s.Execute(q) == nil
		e, _ := expr.NewExpression(c)
		for k := 0; k < rows; k++ {
			row := genRow(r, k%2 == 1)
			m := row.goMap()
			hand := func() string {
				if e == nil {
					return "noexpr"
				}
				return guard(func() string {
					v, isNull, err := e.EvaluateValueWithNull(copyMap(m))
					if err != nil {
						return "e"
					}
					if isNull {
						return "N"
					}
					return valEnc(v)
				})
			}
			sql := func() string {
				if !okSQL {
					return "norun"
				}
				return guard(func() string { res, err := s.EmitSync(copyMap(m)); return sqlValue(res, err, "x") })
			}
			h1, b1, s1 := hand(), bridgeObs(c, copyMap(m)), sql()
			for h := 0; h < 2; h++ {
				other := genRow(r, true).goMap()
				_ = bridgeObs(c, other)
				if okSQL {
					quietSync(s, other)
				}
			}
			h2, b2, s2 := hand(), bridgeObs(c, copyMap(m)), sql()
			verdict := "same"
			if h1 != h2 || b1 != b2 || s1 != s2 {
				verdict = "history"
			} else if strings.Contains(h1+b1+s1, "PANIC") {
				verdict = "panic"
			} else {
				// an error on one path is NULL on the SQL path; values must agree where both produced one
				norm := func(x string) string {
					if x == "e" || x == "N" {
						return "N"
					}
					return x
				}
				// only two VALUES that differ count (an error on one path is not a different value)
				differ := func(x, y string) bool { return norm(x) != "N" && norm(y) != "N" && x != "norun" && y != "norun" && x != "noexpr" && y != "noexpr" && x != y }
				if differ(b1, s1) || differ(h1, b1) || differ(h1, s1) {
					verdict = "paths"
					// does the call mention a column that the row lacks?
					for _, cn := range []string{"a", "b", "c", "s", "t"} {
						if _, in := row[cn]; !in && (strings.Contains(c, "("+cn+",") || strings.Contains(c, "("+cn+")") || strings.Contains(c, ", "+cn+")")) {
							verdict = "paths_missing_arg"
						}
					}
				}
			}
			o.Line("C06 D %s # %s # %s hand=%s bridge=%s sql=%s", hx(c), row.c06_enc(), verdict, h1, b1, s1)
			o.Count("diff/" + verdict)
		}
		s.Stop()
	}
}

// malformed / ill-typed text: error or NULL, never a panic, same outcome after other rows
func c06Malformed(tier string, r *RNG, o *Out) {
	n := 200
	if tier == "thorough" {
		n = 3000
	}
	frags := []string{"a", "b", "s", "1", "2.5", "'x'", "+", "-", "*", "/", "(", ")", ",", "AND", "OR", "NOT", "CASE", "WHEN",
		"THEN", "ELSE", "END", ">", "<=", "==", "!=", "abs", "upper", "coalesce", "IS", "NULL", "LIKE", "%", "^", "..", "`a`", "\"q\"", "$", "[0]", "a.b", "1e3", "-", "''"}
	for i := 0; i < n; i++ {
		k := 1 + r.Intn(7)
		var parts []string
		for j := 0; j < k; j++ {
			parts = append(parts, frags[r.Intn(len(frags))])
		}
		sep := " "
		if r.Intn(4) == 0 {
			sep = ""
		}
		text := strings.Join(parts, sep)
		row := genRow(r, true).goMap()
		run := func() string {
			return guard(func() string {
				out := "new:"
				e, err := expr.NewExpression(text)
				if err != nil || e == nil {
					out += "err"
				} else {
					out += "ok " + evalObs(e, copyMap(row))
				}
				out += " bridge:" + bridgeObs(text, copyMap(row))
				return out
			})
		}
		o1 := run()
		_ = bridgeObs(text, genRow(r, true).goMap())
		o2 := run()
		verdict := "ok"
		if strings.Contains(o1, "PANIC") || strings.Contains(o2, "PANIC") {
			verdict = "panic"
		} else if o1 != o2 {
			verdict = "history"
		}
		// SQL level
		sqlv := guard(func() string {
			s := streamsql.New(streamsql.WithDiscardLog())
			defer s.Stop()
			if err := s.Execute("SELECT " + text + " AS x FROM stream WHERE b >= 0 OR " + text); err != nil {
				return "rejected"
			}
			_, err := s.EmitSync(copyMap(row))
			if err != nil {
				return "err"
			}
			return "ran"
		})
		if sqlv == "PANIC" {
			verdict = "panic"
		}
		o.Line("C06 M %s %s %s", hx(text), verdict, sqlv)
		o.Count("malformed/" + verdict)
	}
}

var _ = functions.Get
var _ = fmt.Sprintf
