package main

// C06, second part: expr-lang bridge, SQL level, differential and malformed streams.

func c06Bridge(tier string, r *RNG, o *Out) error { return nil }
func c06SQL(tier string, r *RNG, o *Out) error    { return nil }
func c06Diff(tier string, r *RNG, o *Out)         {}
func c06Malformed(tier string, r *RNG, o *Out)    {}
