package main

import (
	"fmt"
	"sort"
	"strconv"
	"strings"
	"sync"
	"time"

	"github.com/rulego/streamsql"
	"github.com/rulego/streamsql/functions"
)

// ---- a batch that fails half-way ------------------------------------------------------------------
// The consumer of the counting window (stream/processor_data.go processWindowBatchSafe -> processWindowBatch)
// adds the N rows of a batch to ONE aggregator that lives across batches, reads the results and resets it.
// When a user function inside an aggregate argument PANICS on row j of a batch, the panic is recovered per
// batch; rows 1..j-1 (and part of row j) are already in the aggregator. "The i-th result of a key aggregates
// exactly that key's rows": whatever the code does with the failed batch, no row of it may show up in the
// result of ANOTHER batch (of the same or any other key), and every batch after it must be reported as usual.
//
// The family: SQL with a registered user scalar function inside an aggregate argument (sum(f(v)),
// sum(f(v) + 1), max(f(v)), sum(abs(f(v)))) placed anywhere in the SELECT list; f panics on "poisoned" rows
// (1-3 per case, anywhere in their batch) and returns an error on a few others (an error is no panic: the
// field skips the row, the row still counts); 0-3 grouping columns from the C04 pools, 1-4 key tuples
// interleaved, N in {1,2,3,4,7}, 3-9 batches, followed by a sentinel batch of a fresh key (so that something
// always follows a failed batch).
//
//	P <tag> <hex SQL> <form> <N> <ncols> <nrows> {id v..} # {poisoned ids} # {error ids} # {value of v per row} # {..as S..} # {s per result}
//
// Judged (ocaml/c09.ml) by chk_C09_sql when no poisoned row lies in a cut batch, else by chk_C09_lossy_sql
// (every result exactly one N-block of its tuple, blocks in order, none twice, none merged or cut); then
// results = the model's batches (cw_run) without the batches that hold a poisoned row (what the unchanged
// code does: the failed batch is lost as a whole), and s = the aggregate over exactly the result's own rows.

const c09PanicFn = "c09p_checked"

const (
	c09Poison = -7.0 // f panics
	c09ErrVal = -0.5 // f returns an error
)

func c09PanicRegister() error {
	return functions.RegisterCustomFunction(c09PanicFn, functions.TypeCustom, "verif", "panics on the poison value", 1, 1,
		func(ctx *functions.FunctionContext, args []any) (any, error) {
			var f float64
			switch t := args[0].(type) {
			case float64:
				f = t
			case int:
				f = float64(t)
			case int64:
				f = float64(t)
			default:
				return nil, fmt.Errorf("number expected, got %T", args[0])
			}
			if f == c09Poison {
				panic("c09 panic family: poisoned row")
			}
			if f == c09ErrVal {
				return nil, fmt.Errorf("c09 panic family: bad reading")
			}
			return f, nil
		})
}

type presult struct {
	g gresult
	s string
}

func c09PanicRun(sql string, maps []map[string]any, ncols int, done func([]presult) bool, maxWait time.Duration) ([]presult, error) {
	s := streamsql.New(streamsql.WithDiscardLog())
	defer s.Stop()
	if err := s.Execute(sql); err != nil {
		return nil, fmt.Errorf("%s: %w", sql, err)
	}
	var mu sync.Mutex
	var out []presult
	s.AddSyncSink(func(res []map[string]any) {
		batch := make([]presult, 0, len(res))
		for _, r := range res {
			tok := "m"
			if v, ok := r["s"]; ok {
				tok = anyTok(normNum(v))
			}
			batch = append(batch, presult{g: parseResult(r, ncols), s: tok})
		}
		sort.SliceStable(batch, func(i, j int) bool {
			a, b := int64(-1), int64(-1)
			if len(batch[i].g.ids) > 0 {
				a = batch[i].g.ids[0]
			}
			if len(batch[j].g.ids) > 0 {
				b = batch[j].g.ids[0]
			}
			return a < b
		})
		mu.Lock()
		out = append(out, batch...)
		mu.Unlock()
	})
	for _, m := range maps {
		s.Emit(m)
	}
	lim := waitLimit(maxWait)
	deadline := time.Now().Add(lim)
	for {
		mu.Lock()
		ok := done(out)
		mu.Unlock()
		if ok {
			break
		}
		if time.Now().After(deadline) {
			chargeWait(lim)
			break
		}
		time.Sleep(200 * time.Microsecond)
	}
	time.Sleep(3 * time.Millisecond)
	mu.Lock()
	defer mu.Unlock()
	return append([]presult(nil), out...), nil
}

var c09PanicForms = []struct{ name, expr string }{
	{"sum", "sum(" + c09PanicFn + "(v))"},
	{"sum", "SUM(" + c09PanicFn + "(v))"},
	{"sum1", "sum(" + c09PanicFn + "(v) + 1)"},
	{"max", "max(" + c09PanicFn + "(v))"},
	{"sum", "sum(abs(" + c09PanicFn + "(v)))"},
}

func panicCaseC09(rng *RNG, o *Out, corpus int) error {
	n := []int{2, 2, 3, 3, 4, 7, 1}[rng.Intn(7)]
	ncols := []int{0, 1, 1, 1, 2, 2, 3}[rng.Intn(7)]
	form := c09PanicForms[rng.Intn(len(c09PanicForms))]
	nt := 1 + rng.Intn(4)
	pool := genTuples(rng, ncols, false)
	if len(pool) > nt {
		pool = pool[:nt]
	}
	l := n*(3+rng.Intn(7)) + rng.Intn(n)
	if l > 70 {
		l = 70
	}
	rows := genRows(rng, pool, l, 1)
	if corpus > 0 { // the shape of the reviewers' demo: A A A | A A* A | B B B | A A A, N = 3 (and N = 2, one key)
		S := func(s string) gval { return gval{kind: 's', s: s} }
		n, ncols, form = 3, 1, c09PanicForms[0]
		rows = nil
		keys := "AAAAAABBBAAA"
		if corpus == 2 {
			n, keys = 2, "AAAAAAAA"
		}
		for i := range keys {
			rows = append(rows, grow{id: int64(i + 1), vals: []gval{S(keys[i : i+1])}})
		}
		l = len(rows)
	}
	vals := make([]int64, l)
	carrier := make([]int, l)
	for i := range vals {
		vals[i] = int64(1 + rng.Intn(50))
		carrier[i] = rng.Intn(3)
	}
	poisoned, failing := map[int]bool{}, map[int]bool{}
	np := 1 + rng.Intn(3)
	if rng.Intn(10) == 0 {
		np = 0
	}
	if corpus > 0 {
		poisoned[4] = true
	} else {
		for k := 0; k < np; k++ {
			poisoned[rng.Intn(l)] = true
		}
		for k := rng.Intn(3); k > 0; k-- {
			if i := rng.Intn(l); !poisoned[i] {
				failing[i] = true
			}
		}
	}
	maps := make([]map[string]any, 0, l+n)
	for i, r := range rows {
		m := r.toMap()
		switch {
		case poisoned[i]:
			m["v"] = c09Poison
		case failing[i]:
			m["v"] = c09ErrVal
		case carrier[i] == 0:
			m["v"] = float64(vals[i])
		case carrier[i] == 1:
			m["v"] = vals[i]
		default:
			m["v"] = int(vals[i])
		}
		maps = append(maps, m)
	}
	// SELECT list: the grouping columns, then the four observers and the failing aggregate in a drawn order
	items := []string{"count(*) AS c", "collect(id) AS ids", "first_value(id) AS fi", "last_value(id) AS la"}
	at := rng.Intn(len(items) + 1)
	items = append(items[:at], append([]string{form.expr + " AS s"}, items[at:]...)...)
	sel := strings.Join(items, ", ")
	gb := ""
	if ncols > 0 {
		sel = groupCols(ncols) + ", " + sel
		gb = groupCols(ncols) + ", "
	}
	sql := fmt.Sprintf("SELECT %s FROM stream GROUP BY %sCountingWindow(%d)", sel, gb, n)

	var res []presult
	var err error
	if ncols > 0 {
		for _, m := range sentinelRows(n, ncols) {
			m["v"] = float64(1)
			maps = append(maps, m)
		}
		res, err = c09PanicRun(sql, maps, ncols, func(r []presult) bool {
			for _, p := range r {
				if isSentinel(p.g) {
					return true
				}
			}
			return false
		}, 3*time.Second)
	} else {
		want := 0
		for b := 0; (b+1)*n <= l; b++ {
			clean := true
			for i := b * n; i < (b+1)*n; i++ {
				if poisoned[i] {
					clean = false
				}
			}
			if clean {
				want++
			}
		}
		res, err = c09PanicRun(sql, maps, ncols, func(r []presult) bool { return len(r) >= want }, 3*time.Second)
	}
	if err != nil {
		return err
	}
	var gs []gresult
	var sums []string
	for _, p := range res {
		if isSentinel(p.g) {
			continue
		}
		gs = append(gs, p.g)
		sums = append(sums, p.s)
	}
	idsTok := func(set map[int]bool) string {
		var l []int
		for i := range set {
			l = append(l, i)
		}
		sort.Ints(l)
		parts := make([]string, len(l))
		for k, i := range l {
			parts[k] = strconv.FormatInt(rows[i].id, 10)
		}
		return strings.Join(parts, " ")
	}
	vparts := make([]string, l)
	for i := range vals {
		vparts[i] = strconv.FormatInt(vals[i], 10)
	}
	tag := "sql-batch-panic"
	if corpus > 0 {
		tag = "sql-batch-panic-corpus"
	}
	o.Line("C09 P %s %s %s %d %d %d %s # %s # %s # %s # %s # %s", tag, hexTok(sql), form.name, n, ncols, len(rows), rowsTok(rows),
		idsTok(poisoned), idsTok(failing), strings.Join(vparts, " "), resultsTok(gs, true), strings.Join(sums, " "))
	o.Count(tag)
	o.Count(fmt.Sprintf("sql-batch-panic N=%d cols=%d poisoned=%d", n, ncols, len(poisoned)))
	return nil
}

func panicFamily(tier string, seed uint64, o *Out) error {
	if err := c09PanicRegister(); err != nil {
		return err
	}
	defer functions.Unregister(c09PanicFn)
	rng := NewRNG(seed)
	rng.s = rng.Next() ^ 0xC09BA7C4
	for c := 1; c <= 2; c++ {
		if err := panicCaseC09(rng, o, c); err != nil {
			return err
		}
	}
	nCases := 150
	if tier == "thorough" {
		nCases = 3000
	}
	for i := 0; i < nCases; i++ {
		if err := panicCaseC09(rng, o, 0); err != nil {
			return err
		}
	}
	return nil
}
