package main

import (
	"fmt"
	"sort"
	"strconv"
	"strings"
	"time"

	"github.com/rulego/streamsql/types"
)

// stepWin is the stepping interface the verif hooks give to every time window.
type stepWin interface {
	Add(any)
	VerifDeliverOne(func(int64)) bool
	VerifTick()
	VerifDrain() [][]types.Row
	SetCallback(func([]types.Row))
	Trigger()
	Stop()
}

// wop is one operation of a window history.
//   'A' add row (id, ts[, key])   'N' add row without usable timestamp
//   'D' deliver one watermark; inj[k] = adds performed after the (k+1)-th firing, while the
//       trigger code has released its lock
//   'K' watermark tick   'T' processing-time Trigger()
type wop struct {
	kind byte
	id   int64
	ts   int64
	key  string
	inj  [][]wop
	pre  []wop // 'D' only: Adds performed after the watermark was received, before it is handled
	nest bool  // top-level 'A' only: one watermark delivery runs inside the row's late-update callback (the window
	// lock is released there), or right after the Add when there is no late update: the model's "A then D"
	lateCase bool // generator bookkeeping: the row was generated late beyond tolerance
}

// skipObs: the history cannot be compared step by step (several late updates around a nested delivery)
const skipObs = "SKIP"

func (o wop) String() string {
	switch o.kind {
	case 'A':
		if o.key != "" {
			return fmt.Sprintf("A %d %d %s", o.id, o.ts, o.key)
		}
		if o.nest {
			return fmt.Sprintf("A %d %d D 0", o.id, o.ts)
		}
		return fmt.Sprintf("A %d %d", o.id, o.ts)
	case 'N':
		return fmt.Sprintf("N %d", o.id)
	case 'S':
		return fmt.Sprintf("A %d %d T", o.id, o.ts)
	case 'D':
		var sb strings.Builder
		if len(o.pre) > 0 {
			fmt.Fprintf(&sb, "E %d", len(o.pre))
			for _, a := range o.pre {
				sb.WriteString(" " + a.String())
			}
			sb.WriteString(" ")
		}
		fmt.Fprintf(&sb, "D %d", len(o.inj))
		for _, l := range o.inj {
			fmt.Fprintf(&sb, " %d", len(l))
			for _, a := range l {
				sb.WriteString(" " + a.String())
			}
		}
		return sb.String()
	}
	return string(o.kind)
}

func opsString(ops []wop) string {
	parts := make([]string, len(ops))
	for i, o := range ops {
		parts[i] = o.String()
	}
	return strings.Join(parts, " ")
}

// tsCarrier: how the timestamp of a generated row is carried (factory.go extractTimestamp accepts the whole numeric
// family, numeric strings and time.Time, scaled by TIMEUNIT). The model always sees nanoseconds; unit > 1 means the
// row holds ts/unit and the window is configured with that TimeUnit (timestamps of such a history are multiples of it).
var tsCarrier = struct {
	kind int   // 0 int64, 1 int, 2 float64, 3 decimal string, 4 time.Time
	unit int64 // 1, 1e3, 1e6, 1e9
}{0, 1}

func carriedTs(ts int64) any {
	v := ts / tsCarrier.unit
	switch tsCarrier.kind {
	case 1:
		return int(v)
	case 2:
		return float64(v)
	case 3:
		return strconv.FormatInt(v, 10)
	case 4:
		return time.Unix(0, ts)
	}
	return v
}

// pickTsCarrier chooses the carrier of the next history: three out of four histories keep int64 nanoseconds.
// It returns the factor by which the history and its configuration must be scaled, and whether far-future
// timestamps may be generated (not when they would lose precision or overflow after scaling).
func pickTsCarrier(rng *RNG) (unit int64, farOK bool) {
	tsCarrier.kind, tsCarrier.unit = 0, 1
	if rng.Intn(4) != 0 {
		return 1, true
	}
	tsCarrier.kind = rng.Intn(5)
	if tsCarrier.kind != 4 && rng.Intn(2) == 0 {
		tsCarrier.unit = []int64{1000, 1000000, 1000000000}[rng.Intn(3)]
	}
	return tsCarrier.unit, tsCarrier.kind != 2 && tsCarrier.unit == 1
}

func resetTsCarrier() { tsCarrier.kind, tsCarrier.unit = 0, 1 }

// scaleOps multiplies every timestamp of a history (timestamps of a scaled history are multiples of the unit)
func scaleOps(ops []wop, unit int64) {
	if unit == 1 {
		return
	}
	for i := range ops {
		ops[i].ts *= unit
		scaleOps(ops[i].pre, unit)
		for _, l := range ops[i].inj {
			scaleOps(l, unit)
		}
	}
}

// shiftOps moves a (scaled) history to a present-day epoch: every timestamp gets the same offset, a multiple of
// `grid` (the scaled window size or slide, so rows on an interval boundary stay on one) close to two hours before the
// harness started. Carried as float64 milliseconds / microseconds / seconds such a timestamp is still exact, but its
// nanosecond value is above 2^53: a conversion that multiplies in floating point rounds it.
func shiftOps(ops []wop, base int64) {
	for i := range ops {
		if ops[i].kind == 'A' {
			ops[i].ts += base
		}
		shiftOps(ops[i].pre, base)
		for _, l := range ops[i].inj {
			shiftOps(l, base)
		}
	}
}

// jumpOps inserts a long pause in event time: every row generated after row `from` (ids follow generation order,
// also inside injection lists) is `delta` later.
func jumpOps(ops []wop, from, delta int64) {
	for i := range ops {
		if ops[i].kind == 'A' && ops[i].id > from && ops[i].ts < harnessBase {
			ops[i].ts += delta
		}
		jumpOps(ops[i].pre, from, delta)
		for _, l := range ops[i].inj {
			jumpOps(l, from, delta)
		}
	}
}

func epochBase(grid int64) int64 {
	b := harnessBase - int64(2*time.Hour)
	return b / grid * grid
}

func mkWinRow(o wop, keyed bool) map[string]any {
	m := map[string]any{"id": o.id}
	if o.kind == 'A' {
		m["ts"] = carriedTs(o.ts)
	}
	if keyed {
		// key tokens 90 / 91 stand for the NULL group (explicit nil or missing column, alternating) and for the empty
		// string: NULL forms its own group, apart from "" (the model sees two ordinary distinct keys)
		switch o.key {
		case "90":
			if o.id%2 == 0 {
				m["k"] = nil
			}
		case "91":
			m["k"] = ""
		case "95", "96", "97":
			// texts that collide with the key encoder's own marks unless it escapes them: the NULL marker, the
			// separator, an escaped separator (a single-column key must be escaped like any other)
			m["k"] = winMarkKeys[o.key]
		case "92", "93", "94":
			// numeric keys that differ only beyond float32 precision (every JSON number is a float64)
			m["k"] = winNumKeys[o.key]
		default:
			m["k"] = o.key
		}
	}
	return m
}

// parkRow supplies its own timestamp through the public types.RowEvent hook and parks inside it, which puts the
// producer exactly between "timestamp resolved" and "row inserted" (processing-time 'S' op).
type parkRow struct {
	id, ts          int64
	entered, resume chan struct{}
}

func (r *parkRow) GetTimestamp() time.Time {
	close(r.entered)
	<-r.resume
	return time.Unix(0, r.ts)
}

func rowID(r types.Row) int64 {
	if p, ok := r.Data.(*parkRow); ok {
		return p.id
	}
	if m, ok := r.Data.(map[string]any); ok {
		if v, ok := m["id"].(int64); ok {
			return v
		}
	}
	return -1
}

func rowKey(r types.Row) string {
	if m, ok := r.Data.(map[string]any); ok {
		v, present := m["k"]
		if !present || v == nil {
			return "90"
		}
		if s, ok := v.(string); ok {
			if s == "" {
				return "91"
			}
			for tok, x := range winMarkKeys {
				if x == s {
					return tok
				}
			}
			return s
		}
		if f, ok := v.(float64); ok {
			for tok, x := range winNumKeys {
				if x == f {
					return tok
				}
			}
			return fmt.Sprintf("num:%v", f)
		}
	}
	return "90"
}

var winMarkKeys = map[string]string{"95": `\N`, "96": `|`, "97": `\|`}

var winNumKeys = map[string]float64{"92": 1700000001, "93": 1700000002, "94": 16777217.5}

// runWin executes ops on the real window and returns the trace of observable events in
// execution order: "a id ts" / "n id" adds, "k" tick or processing-time trigger, "db w" a
// watermark w is received by the trigger code, "d0" nothing to receive, "de" its handling is
// finished, "b [key] start end n id.." a batch handed to the callback.
func runWin(w stepWin, ops []wop, keyed bool) string {
	var sb strings.Builder
	var inj [][]wop
	fire := 0
	injecting := false
	var held []string // keyed windows: batches of one delivery, printed sorted (Go map order must not matter)
	holding := false
	nestArmed, nestCount, skipped := false, 0, false
	nestedDeliver := func() {
		inj = [][]wop{}
		if w.VerifDeliverOne(func(wmk int64) { fmt.Fprintf(&sb, " db %d", wmk) }) {
			sb.WriteString(" de")
		} else {
			sb.WriteString(" d0")
		}
		inj = nil
	}
	doAdd := func(a wop) {
		if a.kind == 'A' {
			if keyed {
				fmt.Fprintf(&sb, " a %d %d %s", a.id, a.ts, a.key)
			} else {
				fmt.Fprintf(&sb, " a %d %d", a.id, a.ts)
			}
		} else {
			fmt.Fprintf(&sb, " n %d", a.id)
		}
		w.Add(mkWinRow(a, keyed))
	}
	w.SetCallback(func(rows []types.Row) {
		if len(rows) == 0 {
			return
		}
		var s, e int64
		if rows[0].Slot != nil && rows[0].Slot.Start != nil {
			s, e = rows[0].Slot.Start.UnixNano(), rows[0].Slot.End.UnixNano()
		}
		// every row of a batch carries the batch's interval (window_start()/window_end() of the emitted result are
		// taken from the rows): a row that disagrees with the first one decides what is reported
		for _, r := range rows[1:] {
			var rs, re int64
			if r.Slot != nil && r.Slot.Start != nil && r.Slot.End != nil {
				rs, re = r.Slot.Start.UnixNano(), r.Slot.End.UnixNano()
			}
			if rs != s || re != e {
				s, e = rs, re
				break
			}
		}
		var bb strings.Builder
		if keyed {
			fmt.Fprintf(&bb, " b %s %d %d %d", rowKey(rows[0]), s, e, len(rows))
		} else {
			fmt.Fprintf(&bb, " b %d %d %d", s, e, len(rows))
		}
		for _, r := range rows {
			fmt.Fprintf(&bb, " %d", rowID(r))
		}
		if holding {
			held = append(held, bb.String())
		} else {
			sb.WriteString(bb.String())
		}
		if nestArmed {
			nestCount++
			if nestCount == 1 {
				nestArmed = false
				nestedDeliver()
				nestArmed = true
			} else {
				skipped = true
			}
			return
		}
		if inj != nil && !injecting {
			k := fire
			fire++
			if k < len(inj) {
				injecting = true
				for _, a := range inj[k] {
					doAdd(a)
				}
				injecting = false
			}
		}
	})
	for _, o := range ops {
		switch o.kind {
		case 'A', 'N':
			if o.nest && !keyed {
				nestArmed, nestCount = true, 0
				doAdd(o)
				nestArmed = false
				if nestCount == 0 {
					nestedDeliver()
				}
			} else {
				doAdd(o)
			}
		case 'D':
			inj, fire = o.inj, 0
			if inj == nil {
				inj = [][]wop{}
			}
			pre := o.pre
			ok := w.VerifDeliverOne(func(wmk int64) {
				fmt.Fprintf(&sb, " db %d", wmk)
				saved := inj
				inj = nil
				for _, a := range pre {
					doAdd(a)
				}
				inj = saved
				holding = keyed
			})
			holding = false
			sort.Strings(held)
			for _, h := range held {
				sb.WriteString(h)
			}
			held = nil
			if ok {
				sb.WriteString(" de")
			} else {
				sb.WriteString(" d0")
			}
			inj = nil
		case 'X': // drain: deliver until the watermark channel is empty
			inj = [][]wop{}
			for w.VerifDeliverOne(func(wmk int64) { fmt.Fprintf(&sb, " db %d", wmk); holding = keyed }) {
				holding = false
				sort.Strings(held)
				for _, h := range held {
					sb.WriteString(h)
				}
				held = nil
				sb.WriteString(" de")
			}
			sb.WriteString(" d0")
			inj = nil
		case 'K':
			sb.WriteString(" k")
			w.VerifTick()
		case 'T':
			sb.WriteString(" k")
			w.Trigger()
		case 'S': // Add whose timestamp is resolved, then the ticker fires before Add returns: Add and Trigger are
			// atomic w.r.t. each other, so the only admissible outcomes are "a k" (Trigger waited) -- the model's
			row := &parkRow{id: o.id, ts: o.ts, entered: make(chan struct{}), resume: make(chan struct{})}
			addDone, trigDone := make(chan struct{}), make(chan struct{})
			go func() { w.Add(row); close(addDone) }()
			<-row.entered
			mark := sb.Len()
			go func() { w.Trigger(); close(trigDone) }()
			overtook := false
			select {
			case <-trigDone:
				overtook = true
			case <-time.After(25 * time.Millisecond):
			}
			close(row.resume)
			<-addDone
			<-trigDone
			all := sb.String()
			sb.Reset()
			if overtook {
				sb.WriteString(all[:mark] + " k" + all[mark:] + fmt.Sprintf(" a %d %d", o.id, o.ts))
			} else {
				sb.WriteString(all[:mark] + fmt.Sprintf(" a %d %d k", o.id, o.ts) + all[mark:])
			}
		}
		w.VerifDrain()
	}
	w.Stop()
	if skipped {
		return skipObs
	}
	return strings.TrimSpace(sb.String())
}

var harnessBase = time.Now().UnixNano()

// overflowThenQuiet: a burst of more than 100 rows with increasing timestamps and no delivery in between (the sends
// beyond the watermark channel's capacity are skipped), then the source goes quiet: drain, one tick, drain. The tick
// must re-deliver the skipped watermark, so the tail windows still come out (Spec/QuietSpec.v).
func overflowThenQuiet(rng *RNG, period int64, keys []string) []wop {
	var ops []wop
	t := int64(2000) + int64(rng.Intn(int(period)+1))
	n := 105 + rng.Intn(40)
	for j := 1; j <= n; j++ {
		t += 1 + int64(rng.Intn(int(period)))
		o := wop{kind: 'A', id: int64(j), ts: t}
		if len(keys) > 0 {
			o.key = keys[rng.Intn(len(keys))]
		}
		ops = append(ops, o)
	}
	if rng.Intn(2) == 0 { // part of the backlog is handled before the source goes quiet
		for j := rng.Intn(60); j > 0; j-- {
			ops = append(ops, wop{kind: 'D', inj: [][]wop{}})
		}
	}
	return append(ops, wop{kind: 'X'}, wop{kind: 'K'}, wop{kind: 'X'})
}
