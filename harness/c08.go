package main

import (
	"fmt"
	"time"

	"github.com/rulego/streamsql/types"
	"github.com/rulego/streamsql/window"
)

func init() { runners["C08"] = runC08 }

type swCfg struct{ size, slide, ooo, late int64 }

func newSliding(c swCfg) (stepWin, error) {
	cfg := types.WindowConfig{
		Type: "sliding", Params: []any{time.Duration(c.size), time.Duration(c.slide)}, TsProp: "ts", TimeUnit: time.Duration(tsCarrier.unit),
		MaxOutOfOrderness: time.Duration(c.ooo), AllowedLateness: time.Duration(c.late),
		TimeCharacteristic: types.EventTime,
	}
	return window.VerifNewSliding(cfg)
}

func slidingLine(o *Out, prop string, c swCfg, ops []wop, tag string) error {
	w, err := newSliding(c)
	if err != nil {
		return err
	}
	obs := runWin(w, ops, false)
	if obs == skipObs {
		o.Count("not compared: several late updates around a nested delivery")
		return nil
	}
	o.Line("%s S %d %d %d %d %d # %s # %s", prop, c.size, c.slide, c.ooo, c.late, harnessBase, opsString(ops), obs)
	o.Count(tag)
	return nil
}

func runC08(tier string, seed uint64, o *Out) error {
	rng := NewRNG(seed ^ 0xC08)
	ncases := 1500
	if tier == "thorough" {
		ncases = 30000
	}
	// corpus: an on-time row older than the first slot; a late row inside two fired windows
	early := []wop{{kind: 'A', id: 1, ts: 1012}, {kind: 'A', id: 2, ts: 1003}, {kind: 'A', id: 3, ts: 1014}, {kind: 'A', id: 4, ts: 1060}, {kind: 'X'}}
	if err := slidingLine(o, "C08", swCfg{10, 5, 20, 0}, early, "corpus"); err != nil {
		return err
	}
	lateTwo := []wop{{kind: 'A', id: 1, ts: 1012}, {kind: 'A', id: 2, ts: 1017}, {kind: 'A', id: 3, ts: 1040}, {kind: 'X'}, {kind: 'A', id: 4, ts: 1018}, {kind: 'A', id: 5, ts: 1019}, {kind: 'X'}}
	if err := slidingLine(o, "C08", swCfg{10, 5, 0, 30}, lateTwo, "corpus"); err != nil {
		return err
	}
	// a late row arriving while the firing callback runs (registration order), and a late row that
	// is in the current slot and in an open fired window
	raceReg := []wop{{kind: 'A', id: 1, ts: 1012}, {kind: 'A', id: 2, ts: 1017}, {kind: 'A', id: 3, ts: 1040},
		{kind: 'D', inj: [][]wop{}}, {kind: 'D', inj: [][]wop{}}, {kind: 'D', inj: [][]wop{{{kind: 'A', id: 4, ts: 1011}}}}, {kind: 'X'}}
	if err := slidingLine(o, "C08", swCfg{10, 5, 0, 30}, raceReg, "corpus"); err != nil {
		return err
	}
	both := []wop{{kind: 'A', id: 1, ts: 1012}, {kind: 'A', id: 2, ts: 1017}, {kind: 'A', id: 3, ts: 1021}, {kind: 'X'}, {kind: 'A', id: 4, ts: 1016}, {kind: 'X'}}
	if err := slidingLine(o, "C08", swCfg{10, 5, 0, 30}, both, "corpus"); err != nil {
		return err
	}
	// a late row whose late update is being delivered (window lock released) while the trigger code fires the next
	// due interval: the younger on-time row must stay in the buffer for its intervals
	lateDuring := []wop{{kind: 'A', id: 1, ts: 500}, {kind: 'A', id: 2, ts: 1500}, {kind: 'A', id: 3, ts: 2500}, {kind: 'X'},
		{kind: 'A', id: 4, ts: 3200}, {kind: 'A', id: 5, ts: 700, nest: true}, {kind: 'A', id: 6, ts: 6500}, {kind: 'X'}}
	if err := slidingLine(o, "C08", swCfg{2000, 1000, 0, 10000}, lateDuring, "corpus"); err != nil {
		return err
	}
	pairs := [][2]int64{{10, 5}, {10, 3}, {10, 10}, {5, 10}, {7, 2}, {1000, 250}}
	// one watermark passes several slides of a sparse history; a row ingested during its first firing lies in the
	// already advanced current slot, behind the watermark, and no older buffered row shares its later intervals
	duringPass := []wop{{kind: 'A', id: 1, ts: 1001}, {kind: 'X'}, {kind: 'A', id: 2, ts: 1031},
		{kind: 'D', inj: [][]wop{{{kind: 'A', id: 3, ts: 1012}}}}, {kind: 'X'}, {kind: 'A', id: 4, ts: 1060}, {kind: 'X'}}
	if err := slidingLine(o, "C08", swCfg{10, 5, 0, 0}, duringPass, "corpus"); err != nil {
		return err
	}
	nsparse := 200
	if tier == "thorough" {
		nsparse = 4000
	}
	for i := 0; i < nsparse; i++ {
		p := pairs[rng.Intn(len(pairs))]
		c := swCfg{size: p[0], slide: p[1]}
		c.ooo = []int64{0, 0, c.size / 2, 3 * c.size}[rng.Intn(4)]
		c.late = []int64{0, 0, c.slide, 3 * c.size}[rng.Intn(4)]
		if err := slidingLine(o, "C08", c, genSparsePass(rng, c), "sparse history, one watermark passes several slides, rows ingested during its firings"); err != nil {
			return err
		}
	}
	nestLate = true
	defer func() { nestLate = false }()
	for i := 0; i < ncases; i++ {
		p := pairs[rng.Intn(len(pairs))]
		c := swCfg{size: p[0], slide: p[1]}
		c.ooo = []int64{0, c.size / 2, 3 * c.size}[rng.Intn(3)]
		c.late = []int64{0, 0, c.slide, 3 * c.size}[rng.Intn(4)] // late rows re-deliver open fired intervals
		n := 5 + rng.Intn(36)
		unit, farOK := pickTsCarrier(rng)
		far := farOK && rng.Intn(5) == 0
		ops := genTimeOps(rng, c.slide, c.ooo, n, nil, far)
		if i%25 == 3 {
			ops = overflowThenQuiet(rng, c.slide, nil)
		} else if i%9 == 4 {
			// a pause of several thousand slides in the middle of the history
			jumpOps(ops, int64(n/3), c.slide*int64(4100+rng.Intn(40000)))
			o.Count("long pause in event time (> 4096 slides)")
		}
		scaleOps(ops, unit)
		tag := fmt.Sprintf("size=%d slide=%d", c.size, c.slide)
		if tsCarrier.kind != 0 || unit != 1 {
			tag = fmt.Sprintf("timestamp carried as kind %d unit %d", tsCarrier.kind, unit)
		}
		if !far && unit != 1 && rng.Intn(3) > 0 {
			shiftOps(ops, epochBase(c.slide*unit))
			tag += ", present-day epoch"
		}
		err := slidingLine(o, "C08", swCfg{c.size * unit, c.slide * unit, c.ooo * unit, c.late * unit}, ops, tag)
		resetTsCarrier()
		if err != nil {
			return err
		}
	}
	// SQL level: public API, real goroutines and timers; judged by the quiescent checker
	nsql := 16
	if tier == "thorough" {
		nsql = 160
	}
	if err := winSQLCases(o, "C08", rng, nsql, true); err != nil {
		return err
	}
	return nil
}

// genSparsePass: a sparse stepped history in which ONE watermark passes several slides. A few rows lie in the first
// interval [a, a+size) (mostly in its first slide, so the firing evicts them), the channel is drained, then a far row
// moves the watermark over k further slides. During that single delivery rows are ingested after the first (and
// sometimes the second) firing: mostly inside the already advanced current slot (kept by the late-row policy although
// behind the watermark), sometimes before it (dropped), on its edges, or ahead of the watermark. Mostly no row that was
// buffered when the pass started shares the later intervals with them. Repeated for a second pass further on.
func genSparsePass(rng *RNG, c swCfg) []wop {
	var ops []wop
	id := int64(0)
	add := func(ts int64) wop {
		id++
		if ts < 0 {
			ts = 0
		}
		return wop{kind: 'A', id: id, ts: ts}
	}
	a := (int64(1000)/c.slide + int64(rng.Intn(4))) * c.slide
	maxTs := int64(0)
	for pass := 0; pass < 1+rng.Intn(2); pass++ {
		// rows of the first interval of this pass
		for j := 1 + rng.Intn(3); j > 0; j-- {
			ts := a + int64(rng.Intn(int(c.slide)))
			if c.slide > c.size {
				ts = a + int64(rng.Intn(int(c.size)))
			}
			if rng.Intn(6) == 0 { // an older buffered row that does share later intervals
				ts = a + int64(rng.Intn(int(c.size)))
			}
			if ts < maxTs-c.ooo { // keep them on time
				ts = maxTs
			}
			if ts > maxTs {
				maxTs = ts
			}
			ops = append(ops, add(ts))
		}
		ops = append(ops, wop{kind: 'X'})
		k := int64(2 + rng.Intn(5))
		far := a + c.size + c.ooo + k*c.slide + int64(rng.Intn(int(c.slide)))
		if far > maxTs {
			maxTs = far
		}
		ops = append(ops, add(far))
		d := wop{kind: 'D', inj: [][]wop{}}
		nl := 1 + rng.Intn(2)
		if rng.Intn(5) == 0 {
			d.inj = append(d.inj, nil) // nothing after the first firing, rows after the second one
			nl = 2
		}
		for l := len(d.inj); l < nl; l++ {
			slot := a + int64(l+1)*c.slide // current slot after the (l+1)-th firing of a sparse pass
			var lst []wop
			for j := 1 + rng.Intn(2); j > 0; j-- {
				var ts int64
				switch rng.Intn(8) {
				case 0: // first instant of the slot
					ts = slot
				case 1: // last instant of the slot
					ts = slot + c.size - 1
				case 2: // just outside (dropped, or ahead)
					ts = slot - 1 + int64(rng.Intn(2))*(c.size+1)
				case 3: // anywhere up to the far row
					ts = a + int64(rng.Intn(int(far-a)+1))
				default:
					ts = slot + int64(rng.Intn(int(c.size)))
				}
				lst = append(lst, add(ts))
			}
			d.inj = append(d.inj, lst)
		}
		ops = append(ops, d, wop{kind: 'X'})
		a = (far/c.slide + 1 + int64(rng.Intn(3))) * c.slide
		if c.ooo > 0 {
			a += (c.ooo/c.slide + 1) * c.slide
		}
	}
	ops = append(ops, add(maxTs+c.ooo+5*c.size+5*c.slide), wop{kind: 'X'})
	return ops
}
