package main

import (
	"fmt"
	"time"

	"github.com/rulego/streamsql/types"
	"github.com/rulego/streamsql/window"
)

func init() { runners["C01"] = runC01 }

type twCfg struct{ size, ooo, late int64 }

// nestLate: late rows of generated histories run one watermark delivery inside their late-update callback
var nestLate = false

// genTimeOps generates one history for an event-time window whose windows have the given period.
func genTimeOps(rng *RNG, period, ooo int64, n int, keys []string, farFuture bool) []wop {
	var ops []wop
	id := int64(0)
	t := int64(1000) + int64(rng.Intn(int(3*period)+1))
	first := true
	maxTs := t
	mkAdd := func() wop {
		id++
		var ts int64
		late := false
		switch rng.Intn(12) {
		case 0: // exactly on a boundary
			ts = (t/period + int64(rng.Intn(3))) * period
		case 1: // just before a boundary
			ts = (t/period+1)*period - 1
		case 2: // duplicate of the maximum so far
			ts = maxTs
		case 3: // out of order within tolerance
			ts = maxTs - int64(rng.Intn(int(ooo)+1))
		case 4: // late beyond tolerance
			ts = maxTs - ooo - 1 - int64(rng.Intn(int(2*period)+1))
			late = true
		case 5: // jump ahead several windows
			t += period * int64(rng.Intn(4)+1)
			ts = t
		default:
			t += int64(rng.Intn(int(period)/2 + 2))
			ts = t
		}
		if first {
			first = false
		} else if rng.Intn(40) == 0 && id <= 4 { // earlier than the first one seen, still on time
			ts = maxTs - int64(rng.Intn(int(ooo)+1)) - int64(rng.Intn(2))*period
		}
		if ts < 0 {
			ts = 0
		}
		if farFuture && rng.Intn(30) == 0 {
			ts = harnessBase + int64(100*time.Hour) + int64(rng.Intn(1000))
		} else if ts > maxTs {
			maxTs = ts
		}
		o := wop{kind: 'A', id: id, ts: ts, lateCase: late}
		if len(keys) > 0 {
			o.key = keys[rng.Intn(len(keys))]
		}
		if rng.Intn(40) == 0 {
			o.kind = 'N'
		}
		return o
	}
	for len(ops) < n {
		switch r := rng.Intn(20); {
		case r < 13:
			a := mkAdd()
			if nestLate && a.kind == 'A' && a.lateCase && len(keys) == 0 && rng.Intn(2) == 0 {
				a.nest = true
			}
			ops = append(ops, a)
		case r < 18:
			d := wop{kind: 'D', inj: [][]wop{}}
			if rng.Intn(3) == 0 {
				k := rng.Intn(3) + 1
				for i := 0; i < k; i++ {
					var l []wop
					for j := rng.Intn(3); j > 0; j-- {
						l = append(l, mkAdd())
					}
					d.inj = append(d.inj, l)
				}
			}
			ops = append(ops, d)
		case r < 19:
			ops = append(ops, wop{kind: 'K'})
		default: // burst
			for j := rng.Intn(6) + 2; j > 0; j-- {
				ops = append(ops, mkAdd())
			}
		}
	}
	// drain: deliver everything that is pending, then push the watermark far ahead and deliver again
	ops = append(ops, wop{kind: 'X'})
	id++
	fin := wop{kind: 'A', id: id, ts: maxTs + ooo + 5*period}
	if len(keys) > 0 {
		fin.key = keys[0]
	}
	ops = append(ops, fin, wop{kind: 'X'})
	return ops
}

func newTumbling(c twCfg, eventTime bool) (stepWin, error) {
	cfg := types.WindowConfig{
		Type: "tumbling", Params: []any{time.Duration(c.size)}, TsProp: "ts", TimeUnit: time.Duration(tsCarrier.unit),
		MaxOutOfOrderness: time.Duration(c.ooo), AllowedLateness: time.Duration(c.late),
	}
	if eventTime {
		cfg.TimeCharacteristic = types.EventTime
	}
	return window.VerifNewTumbling(cfg)
}

func runC01(tier string, seed uint64, o *Out) error {
	rng := NewRNG(seed)
	ncases := 1500
	if tier == "thorough" {
		ncases = 40000
	}
	sizes := []int64{1, 7, 10, 1000, int64(time.Second)}
	emit := func(c twCfg, ops []wop, tag string) error {
		w, err := newTumbling(c, true)
		if err != nil {
			return err
		}
		obs := runWin(w, ops, false)
		if obs == skipObs {
			o.Count("not compared: several late updates around a nested delivery")
			return nil
		}
		o.Line("C01 E %d %d %d %d # %s # %s", c.size, c.ooo, c.late, harnessBase, opsString(ops), obs)
		o.Count(tag)
		return nil
	}
	// corpus: the witness of the repaired first-slot defect (F1) and the channel-overflow burst
	f1 := []wop{{kind: 'A', id: 1, ts: 10500}, {kind: 'A', id: 2, ts: 9200}, {kind: 'A', id: 3, ts: 10600}, {kind: 'A', id: 4, ts: 20000}}
	for i := 0; i < 6; i++ {
		f1 = append(f1, wop{kind: 'D', inj: [][]wop{}})
	}
	if err := emit(twCfg{1000, 2000, 0}, f1, "corpus"); err != nil {
		return err
	}
	var burst []wop
	for i := int64(1); i <= 130; i++ {
		burst = append(burst, wop{kind: 'A', id: i, ts: 1000 + i*10})
	}
	for i := 0; i < 135; i++ {
		burst = append(burst, wop{kind: 'D', inj: [][]wop{}})
	}
	burst = append(burst, wop{kind: 'K'}, wop{kind: 'D', inj: [][]wop{}}, wop{kind: 'A', id: 200, ts: 5000}, wop{kind: 'D', inj: [][]wop{}}, wop{kind: 'D', inj: [][]wop{}})
	if err := emit(twCfg{10, 5, 0}, burst, "corpus"); err != nil {
		return err
	}
	for i := 0; i < ncases; i++ {
		size := sizes[rng.Intn(len(sizes))]
		c := twCfg{size: size}
		c.ooo = []int64{0, size / 2, 3 * size}[rng.Intn(3)]
		c.late = []int64{0, 0, size, 3 * size}[rng.Intn(4)]
		n := 5 + rng.Intn(36)
		unit, farOK := pickTsCarrier(rng)
		if size >= int64(time.Millisecond) { // keep scaled timestamps far from the int64 limit and from "far future"
			if unit != 1 {
				farOK = tsCarrier.kind != 2
			}
			unit, tsCarrier.unit = 1, 1
		}
		far := farOK && rng.Intn(4) == 0
		ops := genTimeOps(rng, size, c.ooo, n, nil, far)
		if i%25 == 3 {
			ops = overflowThenQuiet(rng, size, nil)
		} else if size >= int64(time.Second) && i%3 == 1 {
			// a replay of historical data with a pause of more than a day in event time (far behind the wall clock)
			jumpOps(ops, int64(n/3), int64(25*time.Hour)+int64(rng.Intn(40))*int64(time.Hour))
			o.Count("pause of more than 24 h in event time (replay)")
		}
		scaleOps(ops, unit)
		c = twCfg{c.size * unit, c.ooo * unit, c.late * unit}
		tag := fmt.Sprintf("event size=%d", size)
		if tsCarrier.kind != 0 || unit != 1 {
			tag = fmt.Sprintf("event, timestamp carried as kind %d unit %d", tsCarrier.kind, unit)
		}
		if !far && unit != 1 && rng.Intn(3) > 0 {
			shiftOps(ops, epochBase(c.size))
			tag += ", present-day epoch"
		}
		err := emit(c, ops, tag)
		resetTsCarrier()
		if err != nil {
			return err
		}
	}
	// processing time: Add carries the wall clock in the ts field; Trigger() is the ticker
	for i := 0; i < ncases/5; i++ {
		size := sizes[rng.Intn(len(sizes))]
		w, err := newTumbling(twCfg{size: size}, false)
		if err != nil {
			return err
		}
		var ops []wop
		t := int64(1000) + int64(rng.Intn(int(2*size)))
		slotEnd := (t/size + 1) * size
		id := int64(0)
		nS := 0
		for len(ops) < 5+rng.Intn(25) {
			if i%8 == 0 && id > 0 && nS < 2 && rng.Intn(5) == 0 && t < slotEnd {
				// the row's clock reading lies in the current slot; the ticker fires before Add has returned
				nS++
				id++
				ops = append(ops, wop{kind: 'S', id: id, ts: t})
				t = slotEnd + int64(rng.Intn(int(size)/2+1))
				slotEnd += size
			} else if rng.Intn(4) == 0 && id > 0 {
				if t < slotEnd { // the ticker fires no earlier than the slot's end
					t = slotEnd + int64(rng.Intn(int(size)/2+1))
				}
				ops = append(ops, wop{kind: 'T'})
				slotEnd += size
			} else {
				id++
				t += int64(rng.Intn(int(size)/2 + 2))
				ops = append(ops, wop{kind: 'A', id: id, ts: t})
				if id == 1 { // the first row opens the slot that contains its clock reading
					slotEnd = (t/size + 1) * size
				}
			}
		}
		obs := runWin(w, ops, false)
		o.Line("C01 P %d # %s # %s", size, opsString(ops), obs)
		o.Count("processing-time")
	}
	// SQL level: public API, real goroutines and timers; judged by the quiescent checker
	nsql := 16
	if tier == "thorough" {
		nsql = 160
	}
	if err := winSQLCases(o, "C01", rng, nsql, false); err != nil {
		return err
	}
	npt := 8
	if tier == "thorough" {
		npt = 48
	}
	ptSQLCases(o, rng, npt)
	return nil
}
