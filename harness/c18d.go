package main

// C18, family K (see also c18.go, c18b.go): producers PARKED inside Emit on a full data channel while Stop runs.
//
//   C18 K <kind> <strategy> <bt> <chan> <how> <producers> <mode> <parked> # <event trace>
//       "Concurrent Emit and Stop never deadlock, for every overflow strategy." The consumer of the data channel (the
//       processor goroutine) is held inside user code -- how s = a harness-gated AddSyncSink sink, i = a gated AddSink
//       sink run inline by submitSinkTask's overflow branch (1 worker, 1 queue slot, third result), w = a user function
//       of the WHERE clause (c18park) -- so nothing drains the channel any more. <chan> further rows (1-3) fill the data
//       channel, each of these Emit calls has to return at once. Then <producers> goroutines call Emit once each:
//       under strategy block they park inside Emit -- bt = OverflowConfig.BlockTimeout in ms: 0 or negative = pure
//       backpressure (no timer at all), 10000 = a timer that does not fire during the case, 2 = one that does; under
//       drop / expand they give up after their short retries (controls).
//       mode p: 20-40 ms later Stop is called from another goroutine WHILE THE CONSUMER IS STILL HELD: the only thing that
//               can release a parked producer is the shutdown signal.
//       mode r: the held sink is let go on and calls Emit on its own instance (a sink that re-emits): under backpressure
//               the processor goroutine parks itself inside Emit on the channel only it could drain; then Stop is called.
//       <parked> = how many of the producers were still inside Emit when Stop was called.
//       Every Emit that was in progress when Stop was called has to return within 2 s of that call (on the unchanged
//       code: within microseconds of close(done)); for each one that has not, the event eo:<j> is recorded (j = 1.. the
//       producer, 0 = the Emit made by the sink in mode r) = Spec EEmitOver -> emit_blocked_after_stop. Only then the
//       consumer is released; Stop has to return (through the join in mode p; so / to as in family B), and an Emit made
//       after Stop returned has to return as well (else to). The driver replays the scenario on the extracted model
//       (processor held after it took the first row, the fill rows, the producers until none can move, Stop up to its
//       join, then every parked producer alone through its done branch) and requires what the model shows: every producer
//       returns (Props C18_emit_released_by_stop), and, where no timer can fire, that all producers were parked.

import (
	"fmt"
	"strings"
	"sync"
	"sync/atomic"
	"time"

	"github.com/rulego/streamsql"
	"github.com/rulego/streamsql/logger"
	"github.com/rulego/streamsql/types"
)

const c18EmitBound = 2 * time.Second // patience for an Emit in progress after Stop was called

type c18Parked struct {
	kind, strat string
	bt          int // BlockTimeout in ms (<= 0: pure backpressure)
	chanSize    int
	how         byte // 's', 'i', 'w'
	nprod       int
	mode        byte // 'p', 'r'
	pause       int  // ms
}

func c18NewCfg(sql, strat string, chanSize, poolCap, workers int, bt time.Duration) (*streamsql.Streamsql, error) {
	c18Register()
	pc := types.DefaultPerformanceConfig()
	pc.BufferConfig.DataChannelSize = chanSize
	pc.BufferConfig.MaxBufferSize = chanSize * 4
	pc.OverflowConfig.Strategy = strat
	pc.OverflowConfig.BlockTimeout = bt
	pc.OverflowConfig.AllowDataLoss = strat == "drop"
	pc.OverflowConfig.ExpansionConfig.MinIncrement = 2
	pc.OverflowConfig.ExpansionConfig.TriggerThreshold = 0.5
	pc.WorkerConfig.SinkPoolSize = poolCap
	pc.WorkerConfig.SinkWorkerCount = workers
	s := streamsql.New(streamsql.WithLogger(logger.NewDiscardLogger()), streamsql.WithCustomPerformance(pc))
	if err := s.Execute(sql); err != nil {
		return nil, fmt.Errorf("%s: %v", sql, err)
	}
	return s, nil
}

func genC18Parked(rng *RNG, strat string) c18Parked {
	k := c18Parked{strat: strat, chanSize: 1 + rng.Intn(3), nprod: 1 + rng.Intn(4), mode: "ppr"[rng.Intn(3)], pause: 20 + rng.Intn(20)}
	if strat == "block" {
		k.bt = []int{0, 0, 0, 0, -5, -5, 10000, 10000, 2}[rng.Intn(9)]
	}
	k.how = "sssiw"[rng.Intn(5)]
	switch k.how {
	case 's':
		k.kind = []string{"direct", "direct", "analytic", "cepopen"}[rng.Intn(4)]
	default:
		k.kind = []string{"direct", "analytic"}[rng.Intn(2)]
	}
	if k.how == 'w' {
		k.mode = 'p' // the parked user function is not a sink: nothing to re-emit from
	}
	if k.mode == 'r' {
		k.nprod = rng.Intn(3)
	}
	return k
}

func runC18Parked(k c18Parked) (string, error) {
	workers, poolCap, want := 2, 4, int64(1)
	if k.how == 'i' {
		workers, poolCap, want = 1, 1, 2
	}
	sql := c18Kinds[k.kind]
	var park *c18Park
	var gate int64
	if k.how == 'w' {
		park, gate = newC18Park()
		defer c18Parks.Delete(gate)
		defer park.open()
		sql = c18ParkKinds[k.kind]
	}
	s, err := c18NewCfg(sql, k.strat, k.chanSize, poolCap, workers, time.Duration(k.bt)*time.Millisecond)
	if err != nil {
		return "", err
	}
	row := func(id, v int) map[string]any {
		return map[string]any{"id": id, "v": v, "g": gate, "ts": time.Now().UnixMilli()}
	}
	t := newC18Trace()
	g := &c18Gate{}
	t.cnt = append(t.cnt, 0)
	var reemitted int32
	sinkEmitDone := make(chan struct{})
	gated := func(rows []map[string]any) {
		t.sinkBegin(0)
		defer t.sinkEnd()
		<-g.enter()
		if k.mode == 'r' && atomic.CompareAndSwapInt32(&reemitted, 0, 1) {
			s.Emit(row(70, -1)) // the sink re-emits: under backpressure it parks on the channel its own goroutine drains
			close(sinkEmitDone)
		}
	}
	switch k.how {
	case 'i':
		s.AddSink(gated)
	case 's':
		if k.pause%2 == 0 {
			s.AddSink(t.mkSink(s, 'p', 0))
		}
		s.AddSyncSink(gated)
	case 'w':
		s.AddSyncSink(t.mkSink(s, 'p', 0))
	}
	// emits one row and waits until the processor has taken it out of the channel
	feed := func(id, v int) bool {
		if !callWithin(3*time.Second, func() { s.Emit(row(id, v)) }) {
			return false
		}
		for dl := time.Now().Add(3 * time.Second); time.Now().Before(dl); time.Sleep(time.Millisecond) {
			if s.GetStats()["data_chan_len"] == 0 {
				return true
			}
		}
		return false
	}
	// (1) hold the consumer of the data channel inside user code
	held := true
	switch {
	case k.how == 'w':
		held = callWithin(3*time.Second, func() { s.Emit(row(1, 1)) })
		if held {
			select {
			case <-park.entered:
			case <-time.After(5 * time.Second):
				held = false
			}
		}
	case k.kind == "cepopen":
		for i, v := range []int{1, 2, -1} { // the third row closes and reports the match
			held = held && feed(i, v)
		}
	case k.how == 'i':
		// result 1 is taken by the only worker (wait until its invocation began), result 2 fills the only queue slot,
		// result 3 is run inline by the processor goroutine
		held = feed(0, 0)
		for dl := time.Now().Add(5 * time.Second); held && atomic.LoadInt64(&t.begins) < 1 && time.Now().Before(dl); {
			time.Sleep(time.Millisecond)
		}
		held = held && atomic.LoadInt64(&t.begins) >= 1 && feed(1, 1) && feed(2, 2)
	default:
		held = feed(1, 1)
	}
	if held && k.how != 'w' {
		dl := time.Now().Add(5 * time.Second)
		for atomic.LoadInt64(&t.begins) < want && time.Now().Before(dl) {
			time.Sleep(2 * time.Millisecond)
		}
		held = atomic.LoadInt64(&t.begins) >= want
	}
	release := func() {
		g.openAll()
		if park != nil {
			park.open()
		}
	}
	parked := 0
	finish := func() (string, error) {
		release()
		t.add("gr:0:0")
		t.mu.Lock()
		defer t.mu.Unlock()
		return fmt.Sprintf("C18 K %s %s %d %d %c %d %c %d # %s", k.kind, k.strat, k.bt, k.chanSize, k.how, k.nprod, k.mode, parked,
			strings.Join(t.ev, " ")), nil
	}
	if !held {
		t.add("to")
		return finish()
	}
	// (2) fill the data channel: nobody drains it, and each of these rows still fits
	for i := 0; i < k.chanSize; i++ {
		if !callWithin(3*time.Second, func() { s.Emit(row(10+i, -1)) }) {
			t.add("to")
			return finish()
		}
	}
	// (3) the producers
	ret := make([]chan struct{}, k.nprod)
	for j := range ret {
		j := j
		ret[j] = make(chan struct{})
		go func() { s.Emit(row(20+j, -1)); close(ret[j]) }()
	}
	isDone := func(ch chan struct{}) bool {
		select {
		case <-ch:
			return true
		default:
			return false
		}
	}
	if k.mode == 'r' {
		time.Sleep(5 * time.Millisecond)
		g.openAll() // the sink goes on and re-emits
	}
	time.Sleep(time.Duration(k.pause) * time.Millisecond)
	for j := range ret {
		if !isDone(ret[j]) {
			parked++
		}
	}
	// (4) Stop from another goroutine, the consumer still held (mode p) / parked in its own Emit (mode r)
	stopped := make(chan struct{})
	t0 := time.Now()
	go func() { t.stop(s, 1); close(stopped) }()
	for dl := time.Now().Add(time.Second); time.Now().Before(dl); time.Sleep(200 * time.Microsecond) {
		t.mu.Lock() // the Stop call has begun (sb:1 is recorded just before s.Stop())
		begun := len(t.ev) > 0 && t.ev[len(t.ev)-1] == "sb:1"
		t.mu.Unlock()
		if begun {
			break
		}
	}
	time.Sleep(time.Millisecond)
	waitFor := func(ch chan struct{}) bool {
		d := time.Until(t0.Add(c18EmitBound))
		if d < 0 {
			d = 0
		}
		select {
		case <-ch:
			return true
		case <-time.After(d):
			return isDone(ch)
		}
	}
	var over []string
	if k.mode == 'r' && !waitFor(sinkEmitDone) {
		over = append(over, "eo:0")
	}
	for j := range ret {
		if !waitFor(ret[j]) {
			over = append(over, fmt.Sprintf("eo:%d", j+1))
		}
	}
	for _, e := range over {
		t.add(e)
	}
	// (5) only now the consumer is released; Stop has to return
	release()
	select {
	case <-stopped:
	case <-time.After(c18Grace + c18GraceMargin):
		t.add("so:1")
		select {
		case <-stopped:
		case <-time.After(3 * time.Second):
			t.add("to")
			return finish()
		}
	}
	time.Sleep(10 * time.Millisecond) // an invocation that outlives Stop shows up as kb / ke after sr
	// (6) Emit after Stop returns at once
	if !callWithin(3*time.Second, func() { s.Emit(row(90, 1)) }) {
		t.add("to")
	}
	return finish()
}

// runC18ParkedFamily runs the cases of family K all at once (a case with a producer that is not released lasts
// c18EmitBound, in mode r a grace period). Returns lines, counters and the number of cases with eo / to / so.
func runC18ParkedCases(tier string, rng *RNG) []c18Parked {
	n := 4
	if tier == "thorough" {
		n = 16
	}
	if tier == "race" {
		n = 2
	}
	var ks []c18Parked
	for _, st := range []string{"drop", "block", "block", "block", "expand"} {
		for i := 0; i < n; i++ {
			ks = append(ks, genC18Parked(rng, st))
		}
	}
	// the plain shapes of the family are always present: pure backpressure (0 and negative), a 1-slot channel, a stuck
	// synchronous sink, producers parked, Stop; the same with a timer that does not fire; the sink that re-emits
	ks = append(ks,
		c18Parked{kind: "direct", strat: "block", bt: 0, chanSize: 1, how: 's', nprod: 1, mode: 'p', pause: 30},
		c18Parked{kind: "analytic", strat: "block", bt: -5, chanSize: 2, how: 'i', nprod: 3, mode: 'p', pause: 25},
		c18Parked{kind: "direct", strat: "block", bt: 0, chanSize: 1, how: 'w', nprod: 2, mode: 'p', pause: 21},
		c18Parked{kind: "cepopen", strat: "block", bt: 10000, chanSize: 1, how: 's', nprod: 2, mode: 'p', pause: 31},
		c18Parked{kind: "direct", strat: "block", bt: 0, chanSize: 1, how: 's', nprod: 0, mode: 'r', pause: 33},
		c18Parked{kind: "analytic", strat: "block", bt: -5, chanSize: 2, how: 's', nprod: 2, mode: 'r', pause: 22})
	return ks
}

// c18RunParked starts the cases; the returned function waits for them and writes their lines.
func c18RunParked(tier string, rng *RNG, o *Out) func() (int, error) {
	ks := runC18ParkedCases(tier, rng)
	lines := make([]string, len(ks))
	errs := make([]error, len(ks))
	var wg sync.WaitGroup
	for i := range ks {
		i := i
		wg.Add(1)
		go func() { defer wg.Done(); lines[i], errs[i] = runC18Parked(ks[i]) }()
	}
	return func() (int, error) {
		wg.Wait()
		stuck := 0
		for i := range ks {
			if errs[i] != nil {
				return stuck, errs[i]
			}
			o.Line("%s", lines[i])
			o.Count("parked_producer/" + ks[i].strat + "/" + string(ks[i].mode) + "/" + string(ks[i].how))
			if c18IsStuck(lines[i]) || strings.Contains(lines[i], " so:") || strings.Contains(lines[i], " eo:") {
				stuck++
			}
		}
		return stuck, nil
	}
}
