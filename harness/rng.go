package main

// splitmix64: every random choice of a run derives from one state seeded by VERIF_SEED.
type RNG struct{ s uint64 }

func NewRNG(seed uint64) *RNG { return &RNG{s: seed*0x9E3779B97F4A7C15 + 0x1234567} }
func (r *RNG) Next() uint64 {
	r.s += 0x9E3779B97F4A7C15
	z := r.s
	z = (z ^ (z >> 30)) * 0xBF58476D1CE4E5B9
	z = (z ^ (z >> 27)) * 0x94D049BB133111EB
	return z ^ (z >> 31)
}
func (r *RNG) Intn(n int) int       { return int(r.Next() % uint64(n)) }
func (r *RNG) Bool() bool           { return r.Next()&1 == 1 }
func (r *RNG) Pick(xs []string) string { return xs[r.Intn(len(xs))] }
func (r *RNG) Range(lo, hi int) int { return lo + r.Intn(hi-lo+1) }
