package main

// C03 — aggregate functions equal their mathematical definition on the rows of the batch.
// Families of case lines (all values are exact: ints, dyadic float64s printed as exact
// rationals, byte strings as hex):
//   C03 D <agg> <param> # <values> # <result>              one aggregator object: New/Add*/Result
//   C03 P <agg> <param> # <values> # <result> # <result on a shuffled copy>
//   C03 G <k> (<agg> <mode> <param>)*k # <cells batch 1> # ... # <k results batch 1> # ...
//                                                          aggregator.GroupAggregator: Add*/GetResults/Reset per batch
//   C03 S <shape> <N> <k> (<agg> <param>)*k # <cells of all rows> # <k results batch 1> # ...
//                                                          SQL, GROUP BY CountingWindow(N), one query instance
//   C03 M <N> <k> (<agg> <param> <arg>)*k # <cells of all rows> # <k results batch 1> # ...
//                                                          SQL select list whose aggregate calls have DIFFERENT arguments
//                                                          over the same column (x and its nested twin d.x):
//                                                          <arg> = <x|dx>:<id|add|sub|mul>:<num/den>:<i|d>:<cl|lc>
//   C03 H ... / C03 A ...                                  SQL whose batches may leave without a row (HAVING rejects the
//                                                          batch; the analytic step suppresses an unchanged window): c03h.go
import (
	"encoding/hex"
	"fmt"
	"math/big"
	"sort"
	"strconv"
	"strings"
	"sync"
	"time"

	"github.com/rulego/streamsql"
	"github.com/rulego/streamsql/aggregator"
	"github.com/rulego/streamsql/functions"
)

func init() { runners["C03"] = runC03 }

type c3val struct {
	tok     string
	v       any
	missing bool
}

func c3rat(f float64) string {
	r := new(big.Rat).SetFloat64(f)
	if r == nil {
		return "e"
	}
	return "f" + r.Num().String() + "/" + r.Denom().String()
}

func c3str(s string) string {
	if s == "" {
		return "s-"
	}
	return "s" + hex.EncodeToString([]byte(s))
}

// c3enc prints a result (or a value inside a result) of the real code.
func c3enc(v any) string {
	switch x := v.(type) {
	case nil:
		return "n"
	case int:
		return fmt.Sprintf("i%d", x)
	case int64:
		return fmt.Sprintf("i%d", x)
	case float64:
		return c3rat(x)
	case string:
		return c3str(x)
	case bool:
		if x {
			return "bt"
		}
		return "bf"
	case []any:
		parts := []string{"["}
		for _, e := range x {
			parts = append(parts, c3enc(e))
		}
		parts = append(parts, "]")
		return strings.Join(parts, " ")
	}
	return "e"
}

var c3numStrings = []string{"5", "-3", "0", "2.50", "-0.250", "+7", "12", "1.0", ".5", "3."}
var c3badStrings = []string{"abc", "", "x1", "1x", "--1", "1.2.3", " 1", "1 ", "-", ".", "+", "1,5", "true", "<nil>"}

// genVal: mode 0 = any value (ints, dyadic floats, NULL, strings, bools), mode 1 = numbers and NULL only.
func c3genVal(r *RNG, mode int, allowMissing bool) c3val {
	k := r.Intn(100)
	switch {
	case k < 34:
		n := r.Range(-12, 12)
		if r.Intn(6) == 0 {
			n = r.Range(-1000, 1000)
		}
		return c3val{tok: fmt.Sprintf("i%d", n), v: n}
	case k < 62:
		num := r.Range(-96, 96)
		sh := r.Range(1, 3)
		f := float64(num) / float64(int(1)<<sh)
		return c3val{tok: c3rat(f), v: f}
	case k < 74:
		return c3val{tok: "n", v: nil}
	case k < 82 && allowMissing:
		return c3val{tok: "m", missing: true}
	case k < 82:
		return c3val{tok: "i3", v: 3}
	}
	if mode == 1 {
		n := r.Range(-5, 5)
		return c3val{tok: fmt.Sprintf("i%d", n), v: n}
	}
	switch r.Intn(4) {
	case 0:
		s := r.Pick(c3numStrings)
		return c3val{tok: c3str(s), v: s}
	case 1:
		s := r.Pick(c3badStrings)
		return c3val{tok: c3str(s), v: s}
	case 2:
		b := r.Bool()
		if b {
			return c3val{tok: "bt", v: true}
		}
		return c3val{tok: "bf", v: false}
	}
	n := r.Range(-3, 3) // repeats
	return c3val{tok: fmt.Sprintf("i%d", n), v: n}
}

func c3genVals(r *RNG, n, mode int, allowMissing bool) []c3val {
	out := make([]c3val, n)
	style := r.Intn(5)
	for i := range out {
		switch style {
		case 0: // few distinct values, many repeats
			n := r.Range(-2, 2)
			out[i] = c3val{tok: fmt.Sprintf("i%d", n), v: n}
			if r.Intn(4) == 0 {
				out[i] = c3genVal(r, mode, allowMissing)
			}
		case 1: // mostly NULL / missing
			if r.Intn(3) > 0 {
				out[i] = c3val{tok: "n", v: nil}
				if allowMissing && r.Bool() {
					out[i] = c3val{tok: "m", missing: true}
				}
			} else {
				out[i] = c3genVal(r, mode, allowMissing)
			}
		default:
			out[i] = c3genVal(r, mode, allowMissing)
		}
	}
	return out
}

func c3toks(vs []c3val) string {
	parts := make([]string, len(vs))
	for i, v := range vs {
		parts[i] = v.tok
	}
	return strings.Join(parts, " ")
}

var c3aggs = []string{"sum", "avg", "min", "max", "count", "stddev", "stddevs", "var", "vars", "median", "percentile",
	"first_value", "last_value", "nth_value", "collect", "deduplicate", "merge_agg"}
var c3welford = []string{"w_stddev", "w_stddevs", "w_var", "w_vars"}
var c3varFamily = []string{"stddev", "stddevs", "var", "vars", "stddev", "stddevs", "var", "vars", "w_stddev", "w_stddevs", "w_var", "w_vars"}
var c3pcts = [][2]int{{0, 1}, {1, 4}, {1, 2}, {3, 4}, {1, 1}, {1, 8}, {7, 8}}

type c3adder interface {
	Add(value any)
	Result() any
}

type c3legacy struct {
	a aggregator.AggregatorFunction
}

func (l c3legacy) Add(v any)   { l.a.Add(v) }
func (l c3legacy) Result() any { return l.a.Result() }

// c3param picks the parameter token of an aggregator ("-" = none).
func c3param(r *RNG, agg string) string {
	switch agg {
	case "percentile":
		p := c3pcts[r.Intn(len(c3pcts))]
		return fmt.Sprintf("%d/%d", p[0], p[1])
	case "nth_value":
		return fmt.Sprint(r.Range(1, 4))
	}
	return "-"
}

func c3paramVal(agg, param string) any {
	switch agg {
	case "percentile":
		var a, b int
		fmt.Sscanf(param, "%d/%d", &a, &b)
		return float64(a) / float64(b)
	case "nth_value":
		var n int
		fmt.Sscanf(param, "%d", &n)
		return n
	}
	return nil
}

func c3new(agg, param string) (c3adder, error) {
	switch agg {
	case "w_stddev":
		return functions.NewStdDevFunction().New(), nil
	case "w_stddevs":
		return functions.NewStdDevSFunction().New(), nil
	case "w_var":
		return functions.NewVarFunction().New(), nil
	case "w_vars":
		return functions.NewVarSFunction().New(), nil
	case "percentile", "nth_value":
		a, err := functions.CreateParameterizedAggregator(agg, []any{"x", c3paramVal(agg, param)})
		if err != nil {
			return nil, err
		}
		return a, nil
	}
	a := aggregator.CreateBuiltinAggregator(aggregator.AggregateType(agg))
	if a == nil {
		return nil, fmt.Errorf("no aggregator %s", agg)
	}
	return c3legacy{a.New()}, nil
}

func c3direct(agg, param string, vals []c3val) (string, error) {
	a, err := c3new(agg, param)
	if err != nil {
		return "", err
	}
	for _, v := range vals {
		a.Add(v.v)
	}
	return c3enc(a.Result()), nil
}

func runC03(tier string, seed uint64, o *Out) error {
	// NewRNG(seed) starts at seed*step + c and every draw advances by the same step, so the streams of seeds
	// s and s+1 are one draw apart and the case generators fall into lockstep after a few cases. Seed the
	// generator of this property from a hashed draw instead: different seeds, unrelated streams.
	rng := NewRNG(NewRNG(seed).Next())
	nD, nP, nG, nS := 2500, 600, 500, 90
	nDo, nPo, nGo := 600, 150, 120 // large-offset values (c03big.go); a quarter of the S and M jobs use them too
	nGe, nSe, nMe := 200, 36, 36   // runs with events without any column (c03e.go)
	if tier == "thorough" {
		nD, nP, nG, nS = 60000, 15000, 12000, 900
		nDo, nPo, nGo = 12000, 3000, 2400
		nGe, nSe, nMe = 4000, 300, 300
	}
	all := append(append([]string{}, c3aggs...), c3welford...)
	// (0) boundary family: every aggregator on the empty list, one value, one NULL, all equal
	for _, agg := range all {
		for _, vs := range [][]c3val{{}, {{tok: "n"}}, {{tok: "i7", v: 7}}, {{tok: "i2", v: 2}, {tok: "i2", v: 2}, {tok: "i2", v: 2}},
			{{tok: "i1", v: 1}, {tok: "i2", v: 2}, {tok: "i3", v: 3}}, {{tok: "i1", v: 1}, {tok: "i2", v: 2}, {tok: "i3", v: 3}, {tok: "i4", v: 4}}} {
			param := c3param(rng, agg)
			res, err := c3direct(agg, param, vs)
			if err != nil {
				return err
			}
			o.Line("C03 D %s %s # %s # %s", agg, param, c3toks(vs), res)
		}
	}
	o.Count("direct_boundary")
	// (1) one aggregator object, raw values of every type
	for i := 0; i < nD; i++ {
		agg := all[rng.Intn(len(all))]
		param := c3param(rng, agg)
		n := rng.Intn(13)
		if rng.Intn(8) == 0 {
			n = rng.Range(13, 40)
		}
		vals := c3genVals(rng, n, rng.Intn(2), false)
		res, err := c3direct(agg, param, vals)
		if err != nil {
			return err
		}
		o.Line("C03 D %s %s # %s # %s", agg, param, c3toks(vals), res)
		o.Count("direct_" + agg)
	}
	// (1b) one aggregator object over large-offset values (c03big.go): counters, epoch milliseconds, negative offsets
	for i := 0; i < nDo; i++ {
		agg := all[rng.Intn(len(all))]
		if rng.Intn(3) == 0 { // the variance family is where magnitude against spread matters most
			agg = c3varFamily[rng.Intn(len(c3varFamily))]
		}
		param := c3param(rng, agg)
		n := rng.Range(1, 12)
		if rng.Intn(10) == 0 {
			n = rng.Range(13, 40)
		}
		vals := c3genOffsetVals(rng, n, c3offDirect(agg, n))
		res, err := c3direct(agg, param, vals)
		if err != nil {
			return err
		}
		o.Line("C03 D %s %s # %s # %s", agg, param, c3toks(vals), res)
		o.Count("direct_offset_" + agg)
	}
	// (2) permutation: same multiset, shuffled
	for i := 0; i < nP+nPo; i++ {
		agg := all[rng.Intn(len(all))]
		param := c3param(rng, agg)
		var vals []c3val
		if i >= nP {
			n := rng.Range(2, 14)
			vals = c3genOffsetVals(rng, n, c3offDirect(agg, n))
			o.Count("permuted_offset")
		} else {
			vals = c3genVals(rng, rng.Range(2, 14), rng.Intn(2), false)
		}
		sh := append([]c3val{}, vals...)
		for j := len(sh) - 1; j > 0; j-- {
			k := rng.Intn(j + 1)
			sh[j], sh[k] = sh[k], sh[j]
		}
		r1, err := c3direct(agg, param, vals)
		if err != nil {
			return err
		}
		r2, _ := c3direct(agg, param, sh)
		o.Line("C03 P %s %s # %s # %s # %s", agg, param, c3toks(vals), r1, r2)
	}
	o.Count("permuted")
	// (3) GroupAggregator: front end of Add, several batches with Reset in between
	for i := 0; i < nG+nGo; i++ {
		if err := c3group(rng, o, i >= nG, false); err != nil {
			return err
		}
	}
	// (3e) the same with events that carry no column at all ({}): c03e.go
	for i := 0; i < nGe; i++ {
		if err := c3group(rng, o, i%5 == 4, true); err != nil {
			return err
		}
	}
	// (4) SQL with CountingWindow(N)
	type job struct {
		shape  string
		n      int
		aggs   [][2]string
		cells  []c3val
		result string
		err    error
		offset bool
		bare   bool // missing cells are events without any column (c03e.go)
	}
	jobs := make([]*job, nS+nSe)
	shapes := []string{"col", "col", "nest", "add1", "mul2"}
	for i := range jobs {
		j := &job{shape: shapes[rng.Intn(len(shapes))], n: rng.Range(1, 6)}
		k := rng.Range(2, 6)
		perm := rng.Intn(len(c3aggs))
		for a := 0; a < k; a++ {
			agg := c3aggs[(perm+a*5)%len(c3aggs)]
			j.aggs = append(j.aggs, [2]string{agg, c3param(rng, agg)})
		}
		j.bare = i >= nS
		if rng.Intn(3) == 0 || (j.bare && rng.Intn(5) > 0) {
			j.aggs = append(j.aggs, [2]string{"count_star", "-"})
		}
		nb := rng.Range(2, 5)
		mode := 0
		if j.shape == "add1" || j.shape == "mul2" {
			mode = 1
		}
		j.cells = c3genVals(rng, nb*j.n, mode, true)
		if rng.Intn(4) == 0 { // large-offset values, every batch around its own base; x + 1, x * 2 stay exact
			floats := true
			for _, a := range j.aggs {
				floats = floats && !c3rendersInput(a[0])
			}
			j.cells = nil
			for b := 0; b < nb; b++ {
				j.cells = append(j.cells, c3genOffsetVals(rng, j.n, c3offOpt{maxInt: 5e14, maxFrac: 6e13, floats: floats, strs: mode == 0, missing: true, ordinary: true})...)
			}
			j.offset = true
		}
		if mode == 1 { // arithmetic is C06's subject: numbers, NULL and missing only
			for c := range j.cells {
				switch j.cells[c].v.(type) {
				case string, bool:
					j.cells[c] = c3val{tok: "i1", v: 1}
				}
			}
		}
		if j.bare {
			j.cells = c3sprinkleEmptyBatches(rng, j.cells, j.n)
		}
		jobs[i] = j
	}
	var wg sync.WaitGroup
	sem := make(chan struct{}, 12)
	for _, j := range jobs {
		j := j
		wg.Add(1)
		sem <- struct{}{}
		go func() {
			defer wg.Done()
			defer func() { <-sem }()
			j.result, j.err = c3sql(j.shape, j.n, j.aggs, j.cells, j.bare)
		}()
	}
	wg.Wait()
	for _, j := range jobs {
		if j.err != nil {
			return j.err
		}
		var spec []string
		for _, a := range j.aggs {
			spec = append(spec, a[0], a[1])
		}
		fam := "S"
		if j.bare {
			fam = "SE"
			o.Count("sql_empty_events")
			if c3hasEmptyBatch(j.cells, j.n) {
				o.Count("sql_batch_of_empty_events_only")
			}
		}
		o.Line("C03 %s %s %d %d %s # %s # %s", fam, j.shape, j.n, len(j.aggs), strings.Join(spec, " "), c3toks(j.cells), j.result)
		o.Count("sql_" + j.shape)
		if j.offset {
			o.Count("sql_offset")
		}
	}
	// (5) SQL select lists whose calls have different arguments over the same column
	nM := 110
	if tier == "thorough" {
		nM = 1100
	}
	mjobs := make([]*c3mjob, nM+nMe)
	for i := range mjobs {
		mjobs[i] = c3genMixed(rng)
		if i >= nM {
			c3makeBare(rng, mjobs[i])
		}
	}
	for _, j := range mjobs {
		j := j
		wg.Add(1)
		sem <- struct{}{}
		go func() {
			defer wg.Done()
			defer func() { <-sem }()
			j.result, j.err = c3sqlRunB(j.query(), j.n, len(j.calls), j.cells, c3mixedRowOf(j.bare), false, j.bare)
		}()
	}
	wg.Wait()
	for _, j := range mjobs {
		if j.err != nil {
			return j.err
		}
		var spec []string
		for _, c := range j.calls {
			spec = append(spec, c.agg, c.param, c.arg.tok())
		}
		fam := "M"
		if j.bare {
			fam = "ME"
			o.Count("sqlmix_empty_events")
			if c3hasEmptyBatch(j.cells, j.n) {
				o.Count("sqlmix_batch_of_empty_events_only")
			}
		}
		o.Line("C03 %s %d %d %s # %s # %s", fam, j.n, len(j.calls), strings.Join(spec, " "), c3toks(j.cells), j.result)
		o.Count("sqlmix_" + j.family)
		if j.offset {
			o.Count("sqlmix_offset")
		}
		if j.dottedSameCol >= 2 {
			o.Count("sqlmix_two_dotted_args_same_column")
		}
	}
	// (6) SQL with a HAVING clause: some batches of the run are rejected entirely, later ones pass (c03h.go)
	return c3having(rng, tier, o)
}

// ---- family M: one select list, every aggregate call with its own argument over the same column ----

// c3arg is the argument of one aggregate call: <col> <op> <lit> (or <lit> <op> <col>), col = x or the nested d.x,
// lit an integer or a decimal literal (dyadic, so float64 arithmetic is exact).
type c3arg struct {
	nested   bool
	op       string // id add sub mul
	num, den int    // the literal
	dec      bool   // written with a decimal point
	litFirst bool
}

func (a c3arg) col() string {
	if a.nested {
		return "d.x"
	}
	return "x"
}

func (a c3arg) lit() string {
	if !a.dec {
		return strconv.Itoa(a.num / a.den)
	}
	s := strconv.FormatFloat(float64(a.num)/float64(a.den), 'f', -1, 64)
	if !strings.Contains(s, ".") {
		s += ".0"
	}
	return s
}

func (a c3arg) sql() string {
	sym := map[string]string{"add": "+", "sub": "-", "mul": "*"}[a.op]
	switch {
	case a.op == "id":
		return a.col()
	case a.litFirst:
		return a.lit() + " " + sym + " " + a.col()
	}
	return a.col() + " " + sym + " " + a.lit()
}

func (a c3arg) tok() string {
	c, f, ord := "x", "i", "cl"
	if a.nested {
		c = "dx"
	}
	if a.dec {
		f = "d"
	}
	if a.litFirst {
		ord = "lc"
	}
	return fmt.Sprintf("%s:%s:%d/%d:%s:%s", c, a.op, a.num, a.den, f, ord)
}

// dotted: the argument's text contains '.', the engine's test for "has nested fields"
func (a c3arg) dotted() bool { return a.nested || (a.op != "id" && a.dec) }

type c3call struct {
	agg, param string
	arg        c3arg
}

type c3mjob struct {
	family string
	n      int
	calls  []c3call
	cells  []c3val
	result string
	err    error
	// the largest number of calls with pairwise different dotted arguments over one column
	dottedSameCol int
	offset        bool // large-offset rows (c03big.go)
	bare          bool // missing cells are events without any column (c03e.go)
}

// c3offMixed: the pool for the rows of a select list of family M / H: arguments <col> op k with k <= 10 written as an
// integer or with up to two fraction bits, batches of at most 6 rows: 6 * 10 * max|x| * 2^(fraction bits of the value +
// 2) must stay below 2^53.
func c3offMixed(calls []c3call) c3offOpt {
	floats := true
	for _, c := range calls {
		floats = floats && !c3rendersInput(c.agg)
	}
	return c3offOpt{maxInt: 3e13, maxFrac: 4e12, floats: floats, missing: true, ordinary: true}
}

var c3intLits = [][2]int{{1, 1}, {2, 1}, {3, 1}, {10, 1}}
var c3decLits = [][2]int{{1, 2}, {3, 2}, {5, 2}, {1, 4}, {2, 1}, {7, 4}}

func c3genArg(r *RNG, nested bool) c3arg {
	a := c3arg{nested: nested, op: []string{"id", "add", "add", "sub", "sub", "mul", "mul", "mul"}[r.Intn(8)], num: 0, den: 1}
	if a.op == "id" {
		return a
	}
	l := c3intLits[r.Intn(len(c3intLits))]
	if r.Bool() {
		l = c3decLits[r.Intn(len(c3decLits))]
		a.dec = true
	}
	a.num, a.den = l[0], l[1]
	if a.op != "sub" && r.Intn(4) == 0 {
		a.litFirst = true
	}
	return a
}

func c3genMixed(r *RNG) *c3mjob {
	j := &c3mjob{family: []string{"flat", "nested", "nested", "mixed"}[r.Intn(4)], n: r.Range(1, 6)}
	k := r.Range(2, 6)
	perm := r.Intn(len(c3aggs))
	sameAgg := r.Intn(3) == 0 // sum(d.x * 2), sum(d.x + 1): one aggregate, several arguments
	for c := 0; c < k; c++ {
		agg := c3aggs[(perm+c*5)%len(c3aggs)]
		if sameAgg {
			agg = c3aggs[perm]
		}
		nested := j.family == "nested" || (j.family == "mixed" && r.Bool())
		j.calls = append(j.calls, c3call{agg: agg, param: c3param(r, agg), arg: c3genArg(r, nested)})
	}
	if r.Intn(3) == 0 {
		j.calls = append(j.calls, c3call{agg: "count_star", param: "-", arg: c3arg{op: "id", den: 1}})
	}
	for _, nested := range []bool{false, true} {
		seen := map[string]bool{}
		for _, c := range j.calls {
			if c.agg != "count_star" && c.arg.nested == nested && c.arg.dotted() {
				seen[c.arg.sql()] = true
			}
		}
		if len(seen) > j.dottedSameCol {
			j.dottedSameCol = len(seen)
		}
	}
	nb := r.Range(2, 4)
	j.cells = c3genVals(r, nb*j.n, 1, true)
	if r.Intn(4) == 0 {
		j.cells = nil
		for b := 0; b < nb; b++ {
			j.cells = append(j.cells, c3genOffsetVals(r, j.n, c3offMixed(j.calls))...)
		}
		j.offset = true
	}
	for c := range j.cells { // arithmetic is C06's subject: numbers, NULL and missing only
		switch j.cells[c].v.(type) {
		case string, bool:
			j.cells[c] = c3val{tok: "i1", v: 1}
		}
	}
	return j
}

func (j *c3mjob) query() string {
	var sel []string
	for i, c := range j.calls {
		switch c.agg {
		case "count_star":
			sel = append(sel, fmt.Sprintf("count(*) AS a%d", i))
		case "percentile":
			sel = append(sel, fmt.Sprintf("percentile(%s, %v) AS a%d", c.arg.sql(), c3paramVal(c.agg, c.param), i))
		case "nth_value":
			sel = append(sel, fmt.Sprintf("nth_value(%s, %s) AS a%d", c.arg.sql(), c.param, i))
		default:
			sel = append(sel, fmt.Sprintf("%s(%s) AS a%d", c.agg, c.arg.sql(), i))
		}
	}
	return "SELECT " + strings.Join(sel, ", ") + ", max(rid) AS lid FROM stream GROUP BY CountingWindow(" + fmt.Sprint(j.n) + ")"
}

// c3mixedRow: the cell is the value of column x AND of the nested d.x; a missing cell has neither
// (d absent or an empty object, alternating).
func c3mixedRow(i int, c c3val) map[string]any {
	row := map[string]any{"rid": i}
	if c.missing {
		if i%2 == 0 {
			row["d"] = map[string]any{}
		}
		return row
	}
	row["x"] = c.v
	row["d"] = map[string]any{"x": c.v}
	return row
}

// c3group drives aggregator.GroupAggregator directly. mode c: the field reads column x;
// mode e: an expression evaluator is registered for the field (cell "m" = evaluation error).
func c3group(rng *RNG, o *Out, offset bool, bare bool) error {
	names := []string{"sum", "avg", "min", "max", "count", "stddev", "stddevs", "var", "vars", "median",
		"first_value", "last_value", "nth_value", "collect", "deduplicate", "merge_agg", "count_star"}
	k := rng.Range(1, 5)
	type fld struct{ agg, mode, alias string }
	var flds []fld
	var afs []aggregator.AggregationField
	perm := rng.Intn(len(names))
	for a := 0; a < k; a++ {
		agg := names[(perm+a*3)%len(names)]
		if bare && a == 0 && rng.Intn(4) > 0 { // count(*) is the aggregate that tells a row without columns from no row
			agg = "count_star"
		}
		mode := "c"
		if agg != "count_star" && rng.Intn(3) == 0 {
			mode = "e"
		}
		alias := fmt.Sprintf("a%d", a)
		flds = append(flds, fld{agg, mode, alias})
		in, ty := "x", aggregator.AggregateType(agg)
		if agg == "count_star" {
			in, ty = "*", aggregator.Count
		}
		afs = append(afs, aggregator.AggregationField{InputField: in, AggregateType: ty, OutputAlias: alias})
	}
	ga := aggregator.NewGroupAggregator(nil, afs)
	for _, f := range flds {
		if f.mode == "e" {
			ga.RegisterExpression(f.alias, "x", []string{"x"}, func(data any) (any, error) {
				m := data.(map[string]any)
				v, ok := m["x"]
				if !ok {
					return nil, fmt.Errorf("evaluation error")
				}
				return v, nil
			})
		}
	}
	nb := rng.Range(1, 4)
	var cellsOut, resOut []string
	for b := 0; b < nb; b++ {
		n := rng.Intn(9)
		var cells []c3val
		if offset { // every batch of the run around its own large base (c03big.go)
			floats := true
			for _, f := range flds {
				floats = floats && !c3rendersInput(f.agg)
			}
			cells = c3genOffsetVals(rng, n, c3offOpt{maxInt: 1e15, maxFrac: 1e14, floats: floats, strs: true, missing: true, ordinary: true})
		} else {
			cells = c3genVals(rng, n, rng.Intn(2), true)
		}
		if bare {
			cells = c3sprinkleEmpty(rng, cells)
		}
		for _, c := range cells {
			row := map[string]any{"id": 1}
			if !c.missing {
				row["x"] = c.v
			} else if bare {
				row = map[string]any{} // an event without any column: still a row of the batch
			}
			if err := ga.Add(row); err != nil {
				return err
			}
		}
		res, err := ga.GetResults()
		if err != nil {
			return err
		}
		ga.Reset()
		cellsOut = append(cellsOut, c3toks(cells))
		if len(res) == 0 {
			resOut = append(resOut, "E")
		} else if len(res) > 1 {
			resOut = append(resOut, "e")
		} else {
			var parts []string
			for _, f := range flds {
				parts = append(parts, c3enc(res[0][f.alias]))
			}
			resOut = append(resOut, strings.Join(parts, " "))
		}
	}
	var spec []string
	for _, f := range flds {
		spec = append(spec, f.agg, f.mode, "-")
	}
	fam := "G"
	if bare {
		fam = "GE"
		o.Count("group_empty_events")
		for _, c := range cellsOut {
			if c != "" && strings.Trim(c, "m ") == "" {
				o.Count("group_batch_of_empty_events_only")
				break
			}
		}
	}
	o.Line("C03 %s %d %s # %s # %s", fam, k, strings.Join(spec, " "), strings.Join(cellsOut, " # "), strings.Join(resOut, " # "))
	o.Count("group_batches_" + fmt.Sprint(nb))
	if offset {
		o.Count("group_offset")
	}
	return nil
}

func c3sql(shape string, n int, aggs [][2]string, cells []c3val, bare bool) (string, error) {
	arg := map[string]string{"col": "x", "nest": "n.v", "add1": "x + 1", "mul2": "x * 2"}[shape]
	var sel []string
	for i, a := range aggs {
		switch a[0] {
		case "count_star":
			sel = append(sel, fmt.Sprintf("count(*) AS a%d", i))
		case "percentile":
			sel = append(sel, fmt.Sprintf("percentile(%s, %v) AS a%d", arg, c3paramVal(a[0], a[1]), i))
		case "nth_value":
			sel = append(sel, fmt.Sprintf("nth_value(%s, %s) AS a%d", arg, a[1], i))
		default:
			sel = append(sel, fmt.Sprintf("%s(%s) AS a%d", a[0], arg, i))
		}
	}
	q := "SELECT " + strings.Join(sel, ", ") + ", max(rid) AS lid FROM stream GROUP BY CountingWindow(" + fmt.Sprint(n) + ")"
	return c3sqlRunB(q, n, len(aggs), cells, func(i int, c c3val) map[string]any {
		if bare && c.missing {
			return map[string]any{}
		}
		row := map[string]any{"rid": i}
		if shape == "nest" {
			if c.missing {
				if i%2 == 0 {
					row["n"] = map[string]any{}
				}
			} else {
				row["n"] = map[string]any{"v": c.v}
			}
		} else if !c.missing {
			row["x"] = c.v
		}
		return row
	}, false, bare)
}

// c3sqlRun runs one query instance over the rows of the cells (CountingWindow(n): batch b = rows b*n .. b*n+n-1)
// and prints, per batch, the k columns a0..a(k-1).
func c3sqlRun(q string, n, k int, cells []c3val, mkRow func(i int, c c3val) map[string]any) (string, error) {
	return c3sqlRunW(q, n, k, cells, mkRow, false)
}

// c3sqlRunW: sparse = batches may legitimately deliver nothing (HAVING). The output cannot tell then when the run is
// over, so the wait first reads the counting window's own statistics (every full batch sent and taken by the
// consumer) and only then waits for the sinks to fall quiet; a missing batch is printed as E and is no error.
func c3sqlRunW(q string, n, k int, cells []c3val, mkRow func(i int, c c3val) map[string]any, sparse bool) (string, error) {
	return c3sqlRunB(q, n, k, cells, mkRow, sparse, false)
}

// c3sqlRunB: bare = the missing cells of the run are events without any column ({}: no rid either). max(rid) then is
// the largest rid of the batch's rows that carry columns (any row of the batch, not only the last), and NULL for a
// batch of such events only: the rows that come with a NULL lid are matched, in order of arrival, with the batches
// whose cells are all missing (one processing goroutine, synchronous sink; such batches are all alike - count(*) = N,
// nothing else - so a HAVING clause delivers all of them or none).
func c3sqlRunB(q string, n, k int, cells []c3val, mkRow func(i int, c c3val) map[string]any, sparse bool, bare bool) (string, error) {
	var emptyBatches []int
	if bare {
		for b := 0; b+1 <= len(cells)/n; b++ {
			all := true
			for _, c := range cells[b*n : b*n+n] {
				all = all && c.missing
			}
			if all {
				emptyBatches = append(emptyBatches, b)
			}
		}
	}
	s := streamsql.New(streamsql.WithDiscardLog())
	if err := s.Execute(q); err != nil {
		s.Stop()
		return "", fmt.Errorf("%s: %v", q, err)
	}
	var mu sync.Mutex
	got := map[int]string{}
	extra := 0
	s.AddSyncSink(func(rs []map[string]any) {
		mu.Lock()
		defer mu.Unlock()
		for _, r := range rs {
			lid := toInt(r["lid"])
			var parts []string
			for i := 0; i < k; i++ {
				parts = append(parts, c3enc(r[fmt.Sprintf("a%d", i)]))
			}
			if bare {
				b := -1
				if r["lid"] == nil {
					if len(emptyBatches) > 0 {
						b, emptyBatches = emptyBatches[0], emptyBatches[1:]
					}
				} else if lid >= 0 && lid < len(cells) && !cells[lid].missing {
					b = lid / n
				}
				if _, dup := got[b]; dup || b < 0 {
					extra++
					continue
				}
				got[b] = strings.Join(parts, " ")
				continue
			}
			if _, dup := got[lid/n]; dup || (lid+1)%n != 0 {
				extra++
			}
			got[lid/n] = strings.Join(parts, " ")
		}
	})
	for i, c := range cells {
		s.Emit(mkRow(i, c))
	}
	nb := len(cells) / n
	if sparse {
		for i := 0; i < 500; i++ {
			st := s.GetStats()
			if st["sentCount"] >= int64(nb) && st["bufferUsed"] == 0 && st["data_chan_len"] == 0 {
				break
			}
			time.Sleep(10 * time.Millisecond)
		}
	}
	waitQuiet(func() int { mu.Lock(); defer mu.Unlock(); return len(got) })
	s.Stop()
	mu.Lock()
	defer mu.Unlock()
	keys := make([]int, 0, len(got))
	for k := range got {
		keys = append(keys, k)
	}
	sort.Ints(keys)
	var out []string
	for b := 0; b < nb; b++ {
		if r, ok := got[b]; ok {
			out = append(out, r)
		} else {
			out = append(out, "E")
		}
	}
	// bare: a batch without a row is printed as E above and judged as such (the definition says which row is missing)
	if extra > 0 || (len(got) != nb && !sparse && !bare) {
		out = append(out, fmt.Sprintf("e%d", extra))
	}
	return strings.Join(out, " # "), nil
}
