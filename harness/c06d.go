package main

// C06, fourth part.
//
// PH lines (poisoned history): "the value does not depend on rows evaluated before", for the SELECT
// items / WHERE conditions that have a FAST PATH (quote-free, parenthesis-free arithmetic, comparisons,
// AND/OR chains: stream/processor_field.go compiledExprFastPath, condition.go fast compare) and a
// fallback evaluator behind it.  One long-lived stream sees, in this order: an ordinary row, rows that
// make the fast evaluator FAIL (non-numeric text or a bool in arithmetic, an absent column in a
// comparison), then probe rows on which the evaluators behind the fast path are known to differ
// (NULL operand, numeric-looking text, int/float mixes).  Every row is also evaluated on a FRESH
// stream: the two results must be equal (clause history_dependent), and the value is judged by the
// model / the reference semantics exactly like an S / H line.
//
// F lines (documented value of a built-in, never a panic): lpad / rpad with argument pools that
// contain multi-character pads, the empty pad, no pad, and lengths whose gap is smaller than the pad,
// a multiple of it, and not a multiple of it; each call standing alone, nested in another call and as
// a CASE result, through the hand-written engine (expr.Expression), the expr-lang bridge and a SELECT
// item (EmitSync).  A panic is recovered here and reported as such; the value is judged by the
// reference semantics (Model/Sem.v sem_top over Model/ExprEval.v pad_value).

import (
	"fmt"

	"github.com/rulego/streamsql"
	"github.com/rulego/streamsql/expr"
)

// ---------------------------------------------------------------- PH

// a cell of any kind for the operand columns of a fast-path expression
func c06AnyCell(r *RNG, bias int) (cell, bool) {
	// bias 0: ordinary numeric; 1: poison (fails in the hand-written engine); 2: probe mix
	switch bias {
	case 0:
		if r.Bool() {
			return cell{kind: "i", i: intPool[r.Intn(len(intPool))]}, true
		}
		return cell{kind: "f", f: fltPool[r.Intn(len(fltPool))]}, true
	case 1:
		switch r.Intn(4) {
		case 0:
			return cell{}, false // absent
		case 1:
			return cell{kind: "b", b: r.Bool()}, true
		default:
			return cell{kind: "s", s: r.Pick([]string{"abc", "x1", "", "zz", "1e", "--2"})}, true
		}
	}
	switch x := r.Intn(20); {
	case x < 4:
		return cell{kind: "N"}, true
	case x < 6:
		return cell{}, false
	case x < 10:
		return cell{kind: "s", s: numStrPool[r.Intn(len(numStrPool))]}, true
	case x < 12:
		return cell{kind: "s", s: r.Pick([]string{"abc", "x1", ""})}, true
	case x < 13:
		return cell{kind: "b", b: r.Bool()}, true
	case x < 17:
		return cell{kind: "i", i: intPool[r.Intn(len(intPool))]}, true
	}
	return cell{kind: "f", f: fltPool[r.Intn(len(fltPool))]}, true
}

func c06HistRow(r *RNG, bias int) rowT {
	row := rowT{}
	for _, k := range []string{"a", "b"} {
		b := bias
		if bias == 1 && k == "b" && r.Bool() {
			b = 0 // one poisoned operand is enough
		}
		if c, ok := c06AnyCell(r, b); ok {
			row[k] = c
		}
	}
	// the other columns as in a typed row
	for _, k := range []string{"c", "s", "t"} {
		if c, ok := genCell(r, false, k != "c"); ok {
			if c.kind == "s" {
				c.s = c06StrPool[r.Intn(len(c06StrPool))]
			}
			row[k] = c
		}
	}
	return row
}

// parenthesis-free, quote-free expressions: sums of products over a, b and literals; comparisons of
// them; AND / OR chains of comparisons.  The tree is left-nested so that the printer adds no parentheses.
func c06FlatNum(r *RNG) *ex {
	atom := func(first bool) *ex {
		switch r.Intn(5) {
		case 0, 1:
			return col("a")
		case 2:
			return col("b")
		}
		p := litPool[r.Intn(len(litPool))]
		if p[0] < 0 && !first {
			return num(-p[0], p[1]) // "a - -2" is re-spaced by the SQL lexer
		}
		if p[0] < 0 {
			return num(-p[0], p[1])
		}
		return num(p[0], p[1])
	}
	term := func(first bool) *ex {
		t := atom(first)
		if t.k == "num" && first {
			t = col(r.Pick([]string{"a", "b"})) // a fast-path item starts with a column
		}
		for r.Intn(3) == 0 {
			if r.Intn(4) == 0 {
				t = bin("div", t, [](*ex){num(2, 1), num(4, 1)}[r.Intn(2)])
			} else {
				t = bin("mul", t, atom(false))
			}
		}
		return t
	}
	e := term(true)
	n := 1 + r.Intn(3)
	for i := 0; i < n; i++ {
		op := "add"
		if r.Intn(3) == 0 {
			op = "sub"
		}
		e = bin(op, e, term(false))
	}
	return e
}
func c06FlatCmp(r *RNG) *ex {
	ops := []string{"eq", "ne", "lt", "le", "gt", "ge"}
	l := c06FlatNum(r)
	if r.Intn(3) == 0 {
		l = col(r.Pick([]string{"a", "b"}))
	}
	var rr *ex
	if r.Bool() {
		p := litPool[r.Intn(len(litPool))]
		if p[0] < 0 {
			p[0] = -p[0]
		}
		rr = num(p[0], p[1])
	} else {
		rr = c06FlatNum(r)
	}
	return cmp(r.Pick(ops), l, rr)
}
func c06FlatBool(r *RNG) *ex {
	e := c06FlatCmp(r)
	for r.Intn(3) == 0 {
		k := "and"
		if r.Bool() {
			k = "or"
		}
		e = &ex{k: k, l: e, r: c06FlatCmp(r)}
	}
	return e
}

// a + b, b + a + 1, a + 2 + b ...: columns and non-negative literals joined by + only
func c06PlusAtom(r *RNG, first bool) *ex {
	if first || r.Intn(3) != 0 {
		return col(r.Pick([]string{"a", "b"}))
	}
	p := litPool[r.Intn(len(litPool))]
	if p[0] < 0 {
		p[0] = -p[0]
	}
	return num(p[0], p[1])
}
func c06PlusChain(r *RNG) *ex {
	e := c06PlusAtom(r, true)
	n := 1 + r.Intn(3)
	for i := 0; i < n; i++ {
		e = bin("add", e, c06PlusAtom(r, false))
	}
	return e
}

func c06Poisoned(tier string, r *RNG, o *Out) {
	n := 80
	if tier == "thorough" {
		n = 800
	}
	for i := 0; i < n; i++ {
		// shapes: the evaluators behind the fast path disagree on chains of + (the bridge may read them as
		// text concatenation) and on comparisons with a NULL operand (expr-lang: nil != 5), so these get
		// the larger share
		isWhere := i%8 == 7
		var t *etop
		switch i % 8 {
		case 7:
			t = &etop{e: c06FlatBool(r)}
		case 6, 5:
			t = &etop{e: c06FlatCmp(r)}
		case 4:
			t = &etop{e: cmp(r.Pick([]string{"ne", "eq", "ne", "lt", "ge"}), col(r.Pick([]string{"a", "b"})), c06PlusAtom(r, false))}
		case 3:
			t = &etop{e: c06FlatNum(r)}
		default:
			t = &etop{e: c06PlusChain(r)}
		}
		t = normTop(t)
		text := renderTop(t)
		var q string
		kind := "S"
		if isWhere {
			q = "SELECT b FROM stream WHERE " + text
			kind = "H"
		} else {
			q = "SELECT " + text + " AS x FROM stream"
		}
		used := streamsql.New(streamsql.WithDiscardLog())
		if err := used.Execute(q); err != nil {
			o.Count("poisoned/rejected")
			used.Stop()
			continue
		}
		get := func(s *streamsql.Streamsql, m map[string]any) string {
			return guard(func() string {
				res, err := s.EmitSync(copyMap(m))
				if isWhere {
					if err != nil {
						return "e"
					}
					return b01(res != nil)
				}
				return sqlValue(res, err, "x")
			})
		}
		const nrows = 9
		for k := 0; k < nrows; k++ {
			bias := 2
			switch {
			case k == 0:
				bias = 0
			case k == 1 || k == 2 || (k == 5 && r.Bool()):
				bias = 1
			}
			row := c06HistRow(r, bias)
			m := row.goMap()
			u := get(used, m)
			f := "execerr"
			fresh := streamsql.New(streamsql.WithDiscardLog())
			if err := fresh.Execute(q); err == nil {
				f = get(fresh, m)
			}
			fresh.Stop()
			o.Line("C06 PH %s %d %s # %s # %s # %s %s", kind, k, hx(text), encTop(t), row.c06_enc(), f, u)
			o.Count(fmt.Sprintf("poisoned/%s/bias%d", kind, bias))
		}
		used.Stop()
	}
}

// ---------------------------------------------------------------- F

var c06PadPool = []string{"x", "ab", "abc", "-+", "xyzw", " ", "", "0"}
var c06PadStr = []string{"hello", "ab", "", "b", "abc", "Ab", "zz", "h w"}

func c06PadCall(r *RNG) *ex {
	name := "lpad"
	if r.Bool() {
		name = "rpad"
	}
	var s *ex
	switch r.Intn(4) {
	case 0:
		s = str(c06PadStr[r.Intn(len(c06PadStr))])
	case 1:
		s = col("t")
	default:
		s = col("s")
	}
	var n *ex
	if r.Intn(6) == 0 {
		n = col("a")
	} else {
		n = num(int64(r.Intn(13)), 1)
	}
	args := []*ex{s, n}
	switch r.Intn(8) {
	case 0: // default pad
	case 1:
		args = append(args, col("t"))
	default:
		args = append(args, str(c06PadPool[r.Intn(len(c06PadPool))]))
	}
	return &ex{k: "call", s: name, args: args}
}

func c06PadRow(r *RNG) rowT {
	row := rowT{}
	row["a"] = cell{kind: "i", i: int64(r.Intn(12))}
	row["b"] = cell{kind: "i", i: intPool[r.Intn(len(intPool))]}
	for _, k := range []string{"s", "t"} {
		if r.Intn(10) == 0 {
			row[k] = cell{kind: "N"}
		} else {
			row[k] = cell{kind: "s", s: c06PadStr[r.Intn(len(c06PadStr))]}
		}
	}
	if r.Intn(6) == 0 {
		row["s"] = cell{kind: "s", s: "hé"} // two bytes for one character: lengths are bytes
	}
	return row
}

func c06Pads(tier string, r *RNG, o *Out) {
	n := 90
	if tier == "thorough" {
		n = 900
	}
	for i := 0; i < n; i++ {
		c := c06PadCall(r)
		var t *etop
		shape := "alone"
		switch i % 4 {
		case 1:
			shape = "nested"
			switch r.Intn(3) {
			case 0:
				t = &etop{e: c06Call("upper", c)}
			case 1:
				t = &etop{e: c06Call("concat", c, str("|"))}
			default:
				t = &etop{e: c06Call("length", c)}
			}
		case 2:
			shape = "case"
			t = &etop{isCase: true, whens: [][2]*ex{{cmp("ge", col("a"), num(int64(r.Intn(6)), 1)), c}}, els: c06PadCall(r)}
		default:
			t = &etop{e: c}
		}
		t = normTop(t)
		text := renderTop(t)
		for k := 0; k < 3; k++ {
			row := c06PadRow(r)
			m := row.goMap()
			// (1) hand-written engine
			hand := guard(func() string {
				e, err := expr.NewExpression(text)
				if err != nil || e == nil {
					return "noexpr"
				}
				v, isNull, err := e.EvaluateValueWithNull(copyMap(m))
				if err != nil {
					return "e"
				}
				if isNull {
					return "N"
				}
				return valEnc(v)
			})
			o.Line("C06 F hand %s %s # %s # %s # %s", shape, hx(text), encTop(t), row.c06_enc(), hand)
			// (2) the bridge (no CASE in expr-lang)
			if !t.isCase {
				o.Line("C06 F bridge %s %s # %s # %s # %s", shape, hx(text), encTop(t), row.c06_enc(), bridgeObs(text, copyMap(m)))
			}
			// (3) SELECT item
			sel := guard(func() string {
				s := streamsql.New(streamsql.WithDiscardLog())
				defer s.Stop()
				if err := s.Execute("SELECT " + text + " AS x FROM stream"); err != nil {
					return "rejected"
				}
				res, err := s.EmitSync(copyMap(m))
				return sqlValue(res, err, "x")
			})
			o.Line("C06 F select %s %s # %s # %s # %s", shape, hx(text), encTop(t), row.c06_enc(), sel)
			o.Count("pad/" + shape)
		}
	}
}

// a history row: its result is not looked at, and a panic on it must not end the run
func quietSync(s *streamsql.Streamsql, m map[string]any) {
	defer func() { _ = recover() }()
	_, _ = s.EmitSync(m)
}
