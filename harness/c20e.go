package main

// C20, fifth file: the UNHASHABLE-ARGUMENT part of the function-registry paired family (P lines, kinds
// registry_unhashable_*).
//
// "Two instances in the same process each produce exactly the results they produce when run alone."  The
// scalar functions are objects of the process-wide registry, shared by all instances; whatever a function
// keeps between two calls (a scratch object, a pooled helper, a memo) is shared as well.  Helpers of the
// array / set functions treat hashable elements (numbers, strings) and UNHASHABLE ones (arrays, maps:
// compared with reflect.DeepEqual, kept in a fallback list) on two code paths, and the ordinary rows of
// the other families only reach the first.  Here:
//
//   * the registry is enumerated at run time; EVERY registered scalar function is called with every argument
//     list of a shape table that fits its declared arity (1-3): an array of arrays (coordinate pairs, one of
//     them twice), a second overlapping array of arrays, an array of maps, a mixed array (pairs, maps,
//     scalars), a single pair / map as the searched element, a map holding such arrays, indexes and keys;
//     calls the engine rejects or answers with an error / NULL for these arguments are dropped (pre-filter
//     in this process), the accepted ones are packed 8 per query: SELECT id, f1(..) AS p0, f2(..) AS p1 ..;
//   * instance A and instance B run the SAME calls over rows drawn from ONE small pool of elements, so
//     that B's arrays hold elements equal to those A has processed (even packs: B reads columns of another
//     name, i.e. another SQL text; odd packs: the same SQL text);
//   * solo = a fresh CHILD PROCESS per instance (runner C20solo) in which nothing else ever ran; paired =
//     in this process, through EmitSync on one goroutine (a sync.Pool hands the same object back), A
//     completely before B is created, and again with both created up front and the rows alternating;
//   * a pack whose paired output differs from the solo output is taken apart: every call of it is run
//     again on its own (two fresh solo processes per instance: a call whose two solo runs differ is not
//     deterministic and is dropped), and the single-call lines are what the checker sees - the verdict
//     names the function.  The extracted clause instance_interference judges every line.
//
// Implementation-level differential: the functions' treatment of slice / map arguments is not in the model.

import (
	"fmt"
	"os"
	"strconv"
	"strings"
)

var c20UPairs = [][2]int{{1, 2}, {3, 4}, {9, 9}, {5, 6}}

func c20UPair(rng *RNG, ints bool) any {
	p := c20UPairs[rng.Intn(len(c20UPairs))]
	if ints {
		return []any{p[0], p[1]}
	}
	return []any{float64(p[0]), float64(p[1])}
}

func c20UMap(rng *RNG) any {
	switch rng.Intn(4) {
	case 0:
		return map[string]any{"k": "x", "w": 1.0}
	case 1:
		return map[string]any{"k": "y", "w": 2.0}
	case 2:
		return map[string]any{"p": []any{1.0, 2.0}}
	}
	return map[string]any{"k": "x"}
}

// rows of instance inst: a function of (seed, inst, n, sfx) only (parent and child build the same rows).
// Column names end in sfx.  The numeric kind of the pairs (int / float64) is one per seed, the same for
// both instances: equal elements in A and B.
func c20URows(seed uint64, inst, n int, sfx string) []map[string]any {
	rng := NewRNG((seed ^ uint64(inst+1)*0xD6E8FEB86659FD93) * 0x9FB21C651E98DF25)
	ints := seed&4 != 0
	rows := make([]map[string]any, n)
	for i := range rows {
		var ua, ub, um, ux []any
		for j, k := 0, 2+rng.Intn(2); j < k; j++ {
			ua = append(ua, c20UPair(rng, ints))
		}
		ua = append(ua, ua[0]) // one element twice
		if rng.Intn(2) == 0 {
			ua = append(ua, c20UPair(rng, ints))
		}
		for j, k := 0, 2+rng.Intn(2); j < k; j++ {
			ub = append(ub, c20UPair(rng, ints))
		}
		for j, k := 0, 2+rng.Intn(2); j < k; j++ {
			um = append(um, c20UMap(rng))
		}
		um = append(um, um[0])
		ux = []any{c20UPair(rng, ints), c20UMap(rng), "s", 7.0, c20UPair(rng, ints), c20UMap(rng), "s"}
		rows[i] = map[string]any{
			"id":       i,
			"ua" + sfx: ua, "ub" + sfx: ub, "um" + sfx: um, "ux" + sfx: ux,
			"ue" + sfx: c20UPair(rng, ints), "uo" + sfx: c20UMap(rng),
			"un" + sfx: map[string]any{"a": []any{c20UPair(rng, ints), c20UPair(rng, ints)}, "m": c20UMap(rng)},
		}
	}
	return rows
}

// argument lists by arity; $x = column ux<sfx>
var c20UShapes = map[int][][]string{
	1: {{"$a"}, {"$m"}, {"$x"}, {"$e"}, {"$o"}, {"$n"}},
	2: {{"$a", "$b"}, {"$a", "$e"}, {"$m", "$o"}, {"$m", "$a"}, {"$x", "$e"}, {"$x", "$m"}, {"$a", "1"}, {"$e", "$a"},
		{"$a", "$a"}, {"$o", "'k'"}, {"$n", "'a'"}, {"$b", "$a"}},
	3: {{"$a", "$e", "$o"}, {"$a", "$b", "$m"}, {"$a", "1", "2"}, {"$a", "$e", "$e"}, {"$x", "$o", "$e"}},
}

// how many leading shapes of an arity are always used in the quick tier (the rest is sampled)
var c20UAlways = map[int]int{1: 2, 2: 3, 3: 1}

func c20UCall(fn string, shape []string, sfx string) string {
	args := make([]string, len(shape))
	for i, a := range shape {
		if strings.HasPrefix(a, "$") {
			a = "u" + a[1:] + sfx
		}
		args[i] = a
	}
	return fn + "(" + strings.Join(args, ", ") + ")"
}

type c20UCallT struct {
	fn    string
	shape []string
}

func c20USql(calls []c20UCallT, sfx string) string {
	sel := []string{"id"}
	for i, c := range calls {
		sel = append(sel, fmt.Sprintf("%s AS p%d", c20UCall(c.fn, c.shape, sfx), i))
	}
	return "SELECT " + strings.Join(sel, ", ") + " FROM stream"
}

// the engine takes the query and answers the sample row without an error, every p column present and
// not NULL
func c20UAccepts(calls []c20UCallT, sample map[string]any) bool {
	s, err := c20Open(c20USql(calls, "0"), false)
	if err != nil {
		return false
	}
	defer s.Stop()
	res, err := c20SafeEmitSync(s, deepCopy(sample).(map[string]any))
	if err != nil || res == nil {
		return false
	}
	for i := range calls {
		if v, ok := res[fmt.Sprintf("p%d", i)]; !ok || v == nil {
			return false
		}
	}
	return true
}

const c20UN = 4 // rows per instance

func c20USolo(sql string, seed uint64, inst int, sfx string) (string, error) {
	return c20SoloFresh(c20SoloReq{Sql: sql, Seed: strconv.FormatUint(seed, 10), Inst: inst, N: c20UN, Fam: "unhash", Typ: sfx, Sync: true})
}

type c20UOut struct {
	mode         string
	soloA, soloB string
	pairA, pairB string
}

func (u c20UOut) same() bool { return u.soloA == u.pairA && u.soloB == u.pairB }

// the paired runs of one pack of calls (in this process) next to given solo results
func c20UPaired(rng *RNG, calls []c20UCallT, seed uint64, sfxB string, soloA, soloB string) ([]c20UOut, error) {
	sa, sb := c20USql(calls, "0"), c20USql(calls, sfxB)
	rowsA, rowsB := c20URows(seed, 0, c20UN, "0"), c20URows(seed, 1, c20UN, sfxB)
	var outs []c20UOut
	for _, mode := range []string{"a_ran_before_b_was_created", "alternating_both_created_up_front"} {
		ord := make([]int, 2*c20UN)
		lazy := true
		if mode != "a_ran_before_b_was_created" {
			lazy = false
			for i := range ord {
				ord[i] = i % 2
			}
		}
		paired, err := c20TRun([]string{sa, sb}, [][]map[string]any{rowsA, rowsB}, ord, lazy, true, 0)
		if err != nil {
			return nil, err
		}
		outs = append(outs, c20UOut{mode, soloA, soloB, paired[0], paired[1]})
	}
	return outs, nil
}

func c20RunUnhashableFamily(rng *RNG, tier string, o *Out) error {
	var scalars []c20NFn
	for _, f := range c20NFns() {
		if !f.agg && !f.analytic {
			scalars = append(scalars, f)
		}
	}
	if len(scalars) < 30 {
		return fmt.Errorf("unhashable-argument family: the registry lists only %d scalar functions", len(scalars))
	}
	sample := c20URows(rng.Next(), 0, 1, "0")[0]
	// (1) the calls the engine answers for these arguments
	var calls []c20UCallT
	fnsIn := map[string]bool{}
	tried := 0
	for _, f := range scalars {
		for _, ar := range f.arities() {
			for si, sh := range c20UShapes[ar] {
				if tier != "thorough" && si >= c20UAlways[ar] && rng.Intn(2) != 0 {
					continue
				}
				tried++
				c := c20UCallT{f.name, sh}
				if c20UAccepts([]c20UCallT{c}, sample) {
					calls = append(calls, c)
					fnsIn[f.name] = true
					o.Count("P_registry_unhashable_call_accepted")
				}
			}
		}
	}
	o.Dist["P_registry_unhashable_calls_tried"] = tried
	o.Dist["P_registry_unhashable_functions_answering"] = len(fnsIn)
	if os.Getenv("VERIF_C20_TIMING") != "" {
		fmt.Fprintf(os.Stderr, "c20 unhashable family: %d scalar functions, %d calls tried, %d accepted, %d functions answer\n", len(scalars), tried, len(calls), len(fnsIn))
	}
	if len(fnsIn) < 12 || len(calls) < 40 {
		return fmt.Errorf("unhashable-argument family lost its coverage: %d of %d calls accepted, %d of %d scalar functions answer arrays of arrays / maps", len(calls), tried, len(fnsIn), len(scalars))
	}
	// (2) packs of 8 calls (shuffled, so that a pack mixes functions)
	for i := len(calls) - 1; i > 0; i-- {
		j := rng.Intn(i + 1)
		calls[i], calls[j] = calls[j], calls[i]
	}
	type pack struct {
		calls  []c20UCallT
		seed   uint64
		sfxB   string
		sa, sb chan c20TFuture
	}
	var packs []*pack
	for i := 0; i < len(calls); i += 8 {
		e := i + 8
		if e > len(calls) {
			e = len(calls)
		}
		p := &pack{calls: calls[i:e], seed: rng.Next(), sfxB: "1", sa: make(chan c20TFuture, 1), sb: make(chan c20TFuture, 1)}
		if len(packs)%2 == 1 {
			p.sfxB = "0" // the same SQL text in both instances
		}
		if !c20UAccepts(p.calls, sample) {
			o.Count("P_registry_unhashable_pack_rejected")
			continue
		}
		packs = append(packs, p)
	}
	sem := make(chan struct{}, 6)
	solo := func(sql string, seed uint64, inst int, sfx string, ch chan c20TFuture) {
		sem <- struct{}{}
		s, err := c20USolo(sql, seed, inst, sfx)
		<-sem
		ch <- c20TFuture{s, err}
	}
	go func() {
		for _, p := range packs {
			go solo(c20USql(p.calls, "0"), p.seed, 0, "0", p.sa)
			go solo(c20USql(p.calls, p.sfxB), p.seed, 1, p.sfxB, p.sb)
		}
	}()
	line := func(kind string, cs []c20UCallT, sfxB string, u c20UOut) {
		o.Line("C20 P %s %s %s %s %s %s %s %s", kind, u.mode, hxs(c20USql(cs, "0")), hxs(c20USql(cs, sfxB)), u.soloA, u.pairA, u.soloB, u.pairB)
		o.Count("P_registry_unhashable")
		o.Count("P_registry_unhashable_mode_" + u.mode)
	}
	for _, p := range packs {
		soloA, soloB := <-p.sa, <-p.sb
		if soloA.err != nil {
			return soloA.err
		}
		if soloB.err != nil {
			return soloB.err
		}
		outs, err := c20UPaired(rng, p.calls, p.seed, p.sfxB, soloA.s, soloB.s)
		if err != nil {
			return err
		}
		kind := "registry_unhashable_pack_other_columns"
		if p.sfxB == "0" {
			kind = "registry_unhashable_pack_same_sql"
		}
		allSame := true
		for _, u := range outs {
			allSame = allSame && u.same()
		}
		if allSame {
			for _, u := range outs {
				line(kind, p.calls, p.sfxB, u)
			}
			continue
		}
		// (3) take the pack apart: which call answers differently next to another instance
		for _, c := range p.calls {
			one := []c20UCallT{c}
			var s [4]string
			for k := 0; k < 4; k++ { // two fresh solo processes per instance
				sfx := "0"
				if k%2 == 1 {
					sfx = p.sfxB
				}
				r, err := c20USolo(c20USql(one, sfx), p.seed, k%2, sfx)
				if err != nil {
					return err
				}
				s[k] = r
			}
			if s[0] != s[2] || s[1] != s[3] {
				o.Count("P_registry_unhashable_not_deterministic_dropped")
				continue
			}
			outs1, err := c20UPaired(rng, one, p.seed, p.sfxB, s[0], s[1])
			if err != nil {
				return err
			}
			k1 := "registry_unhashable_" + c.fn + "_" + strings.NewReplacer("$", "", "'", "").Replace(strings.Join(c.shape, "_"))
			for _, u := range outs1 {
				line(k1, one, p.sfxB, u)
			}
		}
	}
	return nil
}
