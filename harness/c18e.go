package main

// C18, family D (a SECOND Stop while the first Stop is in progress; see also c18.go, c18b.go).
//
//   C18 D <kind> <strategy> <how> <mode> <pause> # <event trace>
//       a sink is held by the harness on a goroutine the lifecycle counter tracks (how s = AddSyncSink sink on the
//       asynchronous Emit path = the processor goroutine, a = AddSink sink on a worker of the sink pool, y = a synchronous
//       sink under EmitSync = the caller's goroutine). Stop call 1 is made from another goroutine and the harness waits
//       until that call has WON the compare-and-swap on `stopped` (probe: EmitSync of a filtered row is refused with
//       "stream is stopped" on the direct kinds; on the others the goroutine of call 1 is seen inside waitLifecycle);
//       if the probe does not succeed within 3 s the case ends with the token np and is trivial. Then, <pause> ms later,
//       mode c: Stop call 2 from a third goroutine while the sink is STILL held (concurrent second Stop); then the sink
//               is released, and Stop call 3 is made by the owner after call 1 returned (repeated Stop);
//       mode r: the sink goes on and calls Stop itself (call 2, re-entrant: the caller is a goroutine the first Stop is
//               joining), returns; Stop call 3 by the owner after call 1 returned;
//       mode n: the sink stays held beyond the grace period: call 1 leaves through its grace (expected here, as in
//               family B mode h), then Stop call 2 is made by the owner (repeated Stop, e.g. a deferred Stop or a second
//               Destroy) while the sink is STILL held; only then the sink is released.
//       Every Stop call that is not the first one is a no-op and must return at once: if it is still running 2 s after it
//       began, the event sx:<j> is recorded (Spec: EStopAgainOver -> second_stop_blocked). The harness never waits for
//       such a call without a bound: it runs on its own goroutine (or on the sink's) and is abandoned.
//       Call 1 is bounded as in family B (so:1 after grace + margin, then to).

import (
	"fmt"
	"regexp"
	"runtime"
	"strings"
	"sync"
	"sync/atomic"
	"time"

	"github.com/rulego/streamsql"
)

const c18SecondStopBound = 2 * time.Second

// stopWatched is stop with a watchdog: sx:<j> is recorded when the call has not returned within the bound.
func (t *c18Trace) stopWatched(s *streamsql.Streamsql, j int, bound time.Duration) {
	done := make(chan struct{})
	go func() {
		select {
		case <-done:
		case <-time.After(bound):
			t.add(fmt.Sprintf("sx:%d", j))
		}
	}()
	t.stop(s, j)
	close(done)
}

// c18InJoin reports whether goroutine g is inside (*Stream).waitLifecycle, i.e. a Stop call that won the CAS.
func c18InJoin(g uint64) bool {
	buf := make([]byte, 1<<20)
	n := runtime.Stack(buf, true)
	dump := string(buf[:n])
	head := fmt.Sprintf("goroutine %d [", g)
	i := strings.Index(dump, head)
	if i != 0 {
		if i = strings.Index(dump, "\n"+head); i < 0 {
			return false
		}
	}
	rest := dump[i+1:]
	if k := strings.Index(rest, "\n\n"); k >= 0 {
		rest = rest[:k]
	}
	return strings.Contains(rest, ".waitLifecycle")
}

type c18Second struct {
	kind, strat string
	how         byte // 's', 'a', 'y'
	mode        byte // 'c', 'r', 'n'
	pause       int  // ms
}

func genC18Second(rng *RNG, strat string, mode byte) c18Second {
	c := c18Second{strat: strat, mode: mode, pause: 5 + rng.Intn(40)}
	c.kind = []string{"direct", "direct", "analytic", "cepopen", "counting1"}[rng.Intn(5)]
	c.how = "ssay"[rng.Intn(4)]
	if c.how == 'y' && !c18IsDirect(c.kind) {
		c.how = 's'
	}
	return c
}

var c18SxRe = regexp.MustCompile(` sx:\d+`)

func runC18Second(c c18Second) (string, error) {
	s, err := c18New(c.kind, c.strat, 16, 4, 2, 0)
	if err != nil {
		return "", err
	}
	t := newC18Trace()
	g := &c18Gate{}
	t.cnt = append(t.cnt, 0)
	var first, reenter int32
	gated := func(rows []map[string]any) {
		t.sinkBegin(0)
		defer t.sinkEnd()
		if !atomic.CompareAndSwapInt32(&first, 0, 1) {
			return // only the first invocation is the held one
		}
		<-g.enter()
		if atomic.LoadInt32(&reenter) == 1 {
			t.stopWatched(s, 2, c18SecondStopBound) // re-entrant second Stop, on a goroutine the first Stop is joining
		}
	}
	switch c.how {
	case 'a':
		s.AddSink(gated)
	default:
		s.AddSyncSink(gated)
	}
	var wg sync.WaitGroup
	if c.how == 'y' {
		wg.Add(1)
		go func() { defer wg.Done(); t.emitSync(s, 1, c18Row(1, 1)) }()
	} else if c.kind == "cepopen" {
		for i, v := range []int{1, 2, -1} { // the third row closes and reports the match
			s.Emit(c18Row(i, v))
		}
	} else {
		s.Emit(c18Row(1, 1))
	}
	deadline := time.Now().Add(5 * time.Second)
	for atomic.LoadInt64(&t.begins) < 1 && time.Now().Before(deadline) {
		time.Sleep(2 * time.Millisecond)
	}
	finish := func() (string, error) {
		g.openAll()
		callWithin(3*time.Second, wg.Wait)
		t.add("gr:0:0")
		t.mu.Lock()
		defer t.mu.Unlock()
		return fmt.Sprintf("C18 D %s %s %c %c %d # %s", c.kind, c.strat, c.how, c.mode, c.pause, strings.Join(t.ev, " ")), nil
	}
	if atomic.LoadInt64(&t.begins) < 1 {
		t.add("to") // the row never reached the sink
		return finish()
	}
	// Stop call 1, and the probe that it has won the CAS
	stopped := make(chan struct{})
	var g1 uint64
	go func() { atomic.StoreUint64(&g1, gid()); t.stop(s, 1); close(stopped) }()
	won := false
	for dl := time.Now().Add(3 * time.Second); !won && time.Now().Before(dl); {
		time.Sleep(2 * time.Millisecond)
		if c18IsDirect(c.kind) {
			// filtered by WHERE: no sink runs if it is admitted. The probe itself must not hang the harness: an
			// EmitSync that waits behind the Stop in progress is abandoned and the case is not judged (np)
			var err error
			if !callWithin(500*time.Millisecond, func() { _, err = s.EmitSync(c18Row(2, -1)) }) {
				t.add("pb")
				break
			}
			won = err != nil && strings.Contains(err.Error(), "stopped")
		} else if id := atomic.LoadUint64(&g1); id != 0 {
			won = c18InJoin(id)
		}
	}
	waitFirst := func() {
		select {
		case <-stopped:
		case <-time.After(c18Grace + c18GraceMargin):
			t.add("so:1")
			g.openAll()
			select {
			case <-stopped:
			case <-time.After(3 * time.Second):
				t.add("to")
			}
		}
	}
	if !won {
		t.add("np")
		g.openAll()
		waitFirst()
		return finish()
	}
	time.Sleep(time.Duration(c.pause) * time.Millisecond)
	// a later Stop call on its own goroutine; waits for it at most bound + 0.5 s, then abandons it
	later := func(j int) {
		callWithin(c18SecondStopBound+500*time.Millisecond, func() { t.stopWatched(s, j, c18SecondStopBound) })
	}
	switch c.mode {
	case 'c':
		later(2) // concurrent second Stop, the sink is still held
		g.openAll()
		waitFirst()
		later(3)
	case 'r':
		atomic.StoreInt32(&reenter, 1)
		g.openAll()
		waitFirst()
		later(3)
	case 'n':
		select { // the sink stays held: call 1 can only leave through its grace
		case <-stopped:
		case <-time.After(c18Grace + c18GraceMargin):
			t.add("so:1")
		}
		later(2)
		g.openAll()
		select {
		case <-stopped:
		case <-time.After(3 * time.Second):
			t.add("to")
		}
	}
	time.Sleep(10 * time.Millisecond)
	return finish()
}

// c18RunSecond starts family D (all cases at once, next to families B and K: a case of mode n lasts a grace period) and
// returns a function that waits for the cases, writes their lines and returns how many ended with a blocked call.
func c18RunSecond(tier string, rng *RNG, o *Out) func() (int, error) {
	nC, nR, nN := 2, 2, 1
	if tier == "thorough" {
		nC, nR, nN = 8, 8, 3
	}
	if tier == "race" {
		nC, nR, nN = 1, 1, 0
	}
	var cs []c18Second
	for _, st := range []string{"drop", "block", "expand"} {
		for i := 0; i < nC; i++ {
			cs = append(cs, genC18Second(rng, st, 'c'))
		}
		for i := 0; i < nR; i++ {
			cs = append(cs, genC18Second(rng, st, 'r'))
		}
		for i := 0; i < nN; i++ {
			cs = append(cs, genC18Second(rng, st, 'n'))
		}
	}
	// the plain shapes are always present: every (how, mode) of a direct query
	for _, m := range "crn" {
		for _, h := range "say" {
			if tier == "race" && m == 'n' {
				continue
			}
			cs = append(cs, c18Second{kind: "direct", strat: "block", how: byte(h), mode: byte(m), pause: 20})
		}
	}
	cs = append(cs, c18Second{kind: "cepopen", strat: "drop", how: 's', mode: 'r', pause: 15},
		c18Second{kind: "counting1", strat: "expand", how: 'a', mode: 'c', pause: 15})
	lines := make([]string, len(cs))
	errs := make([]error, len(cs))
	var wg sync.WaitGroup
	for i := range cs {
		i := i
		wg.Add(1)
		go func() { defer wg.Done(); lines[i], errs[i] = runC18Second(cs[i]) }()
	}
	return func() (int, error) {
		wg.Wait()
		stuck := 0
		for i := range cs {
			if errs[i] != nil {
				return stuck, errs[i]
			}
			o.Line("%s", lines[i])
			o.Count("second_stop/" + string(cs[i].mode) + "/" + string(cs[i].how))
			if c18IsStuck(lines[i]) || strings.Contains(lines[i], " so:") || c18SxRe.MatchString(lines[i]) {
				stuck++
			}
		}
		return stuck, nil
	}
}
