package main

// C19 — every emitted row is processed exactly once or counted as dropped; block never drops; expansion
// stays below MaxBufferSize; a producer's rows are processed in emission order.
//
// Two kinds of case lines (the real Stream, public API, real goroutines, SELECT id FROM stream + sync sink):
//
//   C19 F <cfg> # <steps> # <dropped emitted cap len> # <processed ids>
//       a FORCED schedule: the harness owns the schedule (consumer parked in the sync sink or at a
//       verifYield gate, producers run one at a time or are parked at verifYield gates inside
//       safeSendToDataChan / expandDataChannel). <steps> are the atomic steps of Model/Ingest.v the
//       harness forced (em sd gr cs to xb xr xl mg sw ld rc tk + producer index), the macro `E p`
//       (producer p performs one whole Emit with nothing else running), `X <step>` (the step was
//       attempted and observed to be blocked) and `= len cap dropped nproc` (stats observed there).
//       The extracted model replays the steps and must reach the same observations.
//   C19 R <cfg> # <rows per producer> # <dropped input_count cap> # <processed ids>
//       a RANDOM concurrent run (1-8 producers, consumer speeds); only the end state is judged,
//       by the extracted checker chk_C19.
//   Rows emitted as nil maps (c19d.go): an F line lists the ids they stand for in a 5th section (the sink records
//   such a row as -1, the driver resolves it); an R line books them on a virtual last producer, by position
//   (5th section `nil-rows-are-producer P`).
//
// <cfg> = strat cap max minInc gnum gden tnum tden bto   (strat 0 drop, 1 block, 3 expand; growth factor
//         gnum/gden and trigger threshold tnum/tden are dyadic or exactly comparable; bto = OverflowConfig.
//         BlockTimeout in nanoseconds, zero, negative or positive: which of them mean "no timeout" is decided by
//         the extracted model (ig_strat_of), not here)
//
// Nothing the implementation does makes a run fail: where a forced schedule sees something it does not expect
// (a call that has to block returns, a wait times out ...) it writes the step `U <what>`, stops forcing, lets the
// instance run freely until nothing moves and writes the line; the model replay then reports the disagreement
// and the extracted checker judges the end state (block_never_drops, conservation, ...).

import (
	"fmt"
	"strings"
	"sync"
	"sync/atomic"
	"time"

	"github.com/rulego/streamsql"
	"github.com/rulego/streamsql/stream"
	"github.com/rulego/streamsql/types"
)

func init() { runners["C19"] = runC19 }

type c19Cfg struct {
	strat                  int
	cap, max, minInc       int
	gnum, gden, tnum, tden int
	bto                    int64 // OverflowConfig.BlockTimeout, nanoseconds (block strategy)
}

func (c c19Cfg) String() string {
	return fmt.Sprintf("%d %d %d %d %d %d %d %d %d", c.strat, c.cap, c.max, c.minInc, c.gnum, c.gden, c.tnum, c.tden, c.bto)
}

// tag of the timeout class for the input distribution
func (c c19Cfg) kind() string {
	if c.strat != 1 {
		return fmt.Sprintf("strat%d", c.strat)
	}
	switch {
	case c.bto == 0:
		return "block/to=0"
	case c.bto < 0:
		return "block/to<0"
	case c.bto < int64(time.Millisecond):
		return "block/to-small"
	}
	return "block/to-ms"
}

const c19BlockTimeout = 3 * time.Millisecond

// BlockTimeout values: the documented "no timeout" value 0, negative durations (accepted by the configuration,
// block for ever as well), and positive ones down to a single nanosecond
var c19NoTimeouts = []int64{0, 0, 0, -1, -1000, -int64(time.Second), -(1 << 40)}
var c19SmallTimeouts = []int64{1, 1000, 50000, 400000, int64(time.Millisecond)}

type c19World struct {
	s        *streamsql.Streamsql
	mu       sync.Mutex
	proc     []int
	gateSink int32
	sinkIn   chan int
	sinkTok  chan struct{}
	delay    time.Duration
	lg       *c19GateLog // optional: a logger that parks the goroutine writing a chosen debug line (c19c.go)
	// nil rows (c19d.go): nilPick says which Emit calls carry a nil map instead of {"id": ...}; nilIDs = the ids
	// those rows stand for, in emission order. The sink sees such a row without an id (recorded as -1).
	nilPick func(p, k int) bool
	nilIDs  []int
}

func c19ID(p, k int) int { return p*100000 + k }

func newC19World(c c19Cfg, gateSink bool, delay time.Duration) (*c19World, error) {
	return newC19WorldLog(c, gateSink, delay, nil)
}

func newC19WorldLog(c c19Cfg, gateSink bool, delay time.Duration, lg *c19GateLog) (*c19World, error) {
	pc := types.DefaultPerformanceConfig()
	pc.BufferConfig.DataChannelSize = c.cap
	pc.BufferConfig.ResultChannelSize = 4096
	pc.BufferConfig.MaxBufferSize = c.max
	switch c.strat {
	case 0:
		pc.OverflowConfig.Strategy = "drop"
	case 1:
		pc.OverflowConfig.Strategy = "block"
		pc.OverflowConfig.BlockTimeout = time.Duration(c.bto)
	case 3:
		pc.OverflowConfig.Strategy = "expand"
	}
	pc.OverflowConfig.AllowDataLoss = c.strat != 1 || c.bto > 0
	pc.OverflowConfig.ExpansionConfig.GrowthFactor = float64(c.gnum) / float64(c.gden)
	pc.OverflowConfig.ExpansionConfig.MinIncrement = c.minInc
	pc.OverflowConfig.ExpansionConfig.TriggerThreshold = float64(c.tnum) / float64(c.tden)
	w := &c19World{sinkIn: make(chan int, 1<<16), sinkTok: make(chan struct{}, 1<<16), delay: delay, lg: lg, nilPick: c19NilPick}
	if gateSink {
		w.gateSink = 1
	}
	if lg != nil {
		w.s = streamsql.New(streamsql.WithDiscardLog(), streamsql.WithLogger(lg), streamsql.WithCustomPerformance(pc))
	} else {
		w.s = streamsql.New(streamsql.WithDiscardLog(), streamsql.WithCustomPerformance(pc))
	}
	if err := w.s.Execute("SELECT id FROM stream"); err != nil {
		return nil, err
	}
	w.s.AddSyncSink(func(rs []map[string]interface{}) {
		for _, r := range rs {
			id := -1
			switch v := r["id"].(type) {
			case int:
				id = v
			case int64:
				id = int(v)
			case float64:
				id = int(v)
			}
			w.mu.Lock()
			w.proc = append(w.proc, id)
			w.mu.Unlock()
			if atomic.LoadInt32(&w.gateSink) == 1 {
				w.sinkIn <- id
				<-w.sinkTok
			} else if w.delay > 0 {
				time.Sleep(w.delay)
			}
		}
	})
	return w, nil
}

func (w *c19World) emit(p, k int) {
	if w.nilPick != nil && w.nilPick(p, k) {
		// a nil map is a legal row: Emit(nil) is buffered, migrated, processed and counted like any other row
		w.mu.Lock()
		w.nilIDs = append(w.nilIDs, c19ID(p, k))
		w.mu.Unlock()
		w.s.Emit(nil)
		return
	}
	w.s.Emit(map[string]interface{}{"id": c19ID(p, k)})
}

// emitWait performs one Emit on its own goroutine and waits up to d for it to return (false: still running)
func (w *c19World) emitWait(p, k int, d time.Duration) (chan struct{}, bool) {
	ch := make(chan struct{})
	go func() { w.emit(p, k); close(ch) }()
	select {
	case <-ch:
		return ch, true
	case <-time.After(d):
		return ch, false
	}
}
func (w *c19World) nproc() int {
	w.mu.Lock()
	defer w.mu.Unlock()
	return len(w.proc)
}
func (w *c19World) processed() []int {
	w.mu.Lock()
	defer w.mu.Unlock()
	return append([]int(nil), w.proc...)
}
func (w *c19World) waitSink(d time.Duration) bool {
	t := time.NewTimer(d)
	defer t.Stop()
	select {
	case <-w.sinkIn:
		return true
	case <-t.C:
		return false
	}
}
func (w *c19World) obs() string {
	st := w.s.GetStats()
	return fmt.Sprintf("= %d %d %d %d", st[stream.DataChanLen], st[stream.DataChanCap], st[stream.InputDroppedCount], w.nproc())
}
func (w *c19World) final(steps []string) string {
	st := w.s.GetStats()
	ids := w.processed()
	var sb strings.Builder
	for _, id := range ids {
		fmt.Fprintf(&sb, " %d", id)
	}
	// the rows emitted as nil maps (5th section): the sink cannot tell them apart (processed id -1), the driver
	// gives the j-th processed nil row the identity of an emitted nil row not yet accounted for
	w.mu.Lock()
	if len(w.nilIDs) > 0 {
		sb.WriteString(" #")
		for _, id := range w.nilIDs {
			fmt.Fprintf(&sb, " %d", id)
		}
	}
	w.mu.Unlock()
	return fmt.Sprintf("%s # %d %d %d %d #%s", strings.Join(steps, " "), st[stream.InputDroppedCount], st[stream.InputCount],
		st[stream.DataChanCap], st[stream.DataChanLen], sb.String())
}
func (w *c19World) close() {
	atomic.StoreInt32(&w.gateSink, 0)
	for i := 0; i < 4096; i++ {
		select {
		case w.sinkTok <- struct{}{}:
		default:
		}
	}
	stream.VerifYieldReset(false)
	if w.lg != nil {
		w.lg.Open()
	}
	done := make(chan struct{})
	go func() { w.s.Stop(); close(done) }()
	select {
	case <-done:
	case <-time.After(8 * time.Second):
	}
}

// unexpected: the implementation did something no forced schedule allows. The observation becomes part of the
// case line (`U what`), every gate and the sink are opened, the Emit calls still running (pending) get time to
// return, the instance runs until nothing moves, and the line is written: the verdict is the checker's.
func (w *c19World) unexpected(c c19Cfg, steps []string, what string, pending []chan struct{}, o *Out) error {
	steps = append(steps, "U", strings.ReplaceAll(strings.ReplaceAll(what, " ", "_"), "#", "_"))
	stream.VerifYieldReset(false)
	if w.lg != nil {
		w.lg.Open()
	}
	atomic.StoreInt32(&w.gateSink, 0)
	for i := 0; i < 4096; i++ {
		select {
		case w.sinkTok <- struct{}{}:
		default:
		}
	}
	for _, ch := range pending {
		select {
		case <-ch:
		case <-time.After(c19Long):
		}
	}
	last, lastChange := "", time.Now()
	for deadline := time.Now().Add(2 * c19Long); time.Now().Before(deadline); {
		st := w.s.GetStats()
		cur := fmt.Sprintf("%d %d %d", w.nproc(), st[stream.DataChanLen], st[stream.InputDroppedCount])
		if cur != last {
			last, lastChange = cur, time.Now()
		} else if time.Since(lastChange) > c19Short {
			break
		}
		time.Sleep(time.Millisecond)
	}
	o.Line("C19 F %s # %s", c, w.final(steps))
	o.Count("unexpected/" + strings.SplitN(what, ":", 2)[0])
	return nil
}

const c19Long = 3 * time.Second         // something that must happen
const c19Short = 120 * time.Millisecond // something expected not to happen (blocked)

// ---------------------------------------------------------------------------------------------
// T1: sequential scripts. The consumer is parked inside the sync sink (or blocked on the empty
// channel), producers perform whole Emit calls one after the other. pE > 0 fixes the percentage of
// Emit operations (high values keep the buffer full: backpressure scripts).
func c19Sequential(c c19Cfg, rng *RNG, nops int, pE int, o *Out) error {
	stream.VerifYieldReset(false)
	w, err := newC19World(c, true, 0)
	if err != nil {
		return err
	}
	defer w.close()
	var steps []string
	nextK := map[int]int{}
	inSink := false
	P := 1 + rng.Intn(3)
	if pE <= 0 {
		pE = 50 + rng.Intn(45) // percentage of emits
	}
	// block strategy: a sender blocked on the full channel (FIFO wake-up not assumed: at most one)
	var blockedCh chan struct{}
	blockedP := -1
	pending := func() []chan struct{} {
		if blockedCh != nil {
			return []chan struct{}{blockedCh}
		}
		return nil
	}
	sawFull := false
	for i := 0; i < nops || blockedP >= 0; i++ {
		st := w.s.GetStats()
		full := st[stream.DataChanLen] >= st[stream.DataChanCap]
		if i < nops && rng.Intn(100) < pE && blockedP < 0 {
			p := rng.Intn(P)
			k := nextK[p]
			nextK[p]++
			if c.strat == 1 && full && inSink {
				// block strategy, no room, consumer parked: whether the call blocks (no timeout) or returns
				// (a timer fired) is OBSERVED and written down; the model decides whether that was allowed
				sawFull = true
				wait := c19Short / 4
				if c.bto > 0 {
					wait = time.Duration(c.bto) + c19Long // a timer is armed: it has to fire
				}
				steps = append(steps, fmt.Sprintf("em %d gr %d", p, p))
				ch, returned := w.emitWait(p, k, wait)
				if returned {
					steps = append(steps, fmt.Sprintf("FIN %d", p), w.obs())
				} else {
					blockedCh, blockedP = ch, p
					steps = append(steps, fmt.Sprintf("X cs %d X to %d", p, p))
				}
				continue
			}
			if full {
				sawFull = true
			}
			if ch, returned := w.emitWait(p, k, c19Long+time.Duration(maxI64(c.bto, 0))); !returned {
				return w.unexpected(c, append(steps, fmt.Sprintf("em %d", p)), "T1: Emit did not return", []chan struct{}{ch}, o)
			}
			steps = append(steps, fmt.Sprintf("E %d", p))
			if !inSink {
				if !w.waitSink(c19Long) {
					return w.unexpected(c, steps, "T1: idle consumer did not pick up the row", nil, o)
				}
				inSink = true
				steps = append(steps, "ld rc")
			}
		} else if inSink {
			had := st[stream.DataChanLen] > 0
			w.sinkTok <- struct{}{}
			if had {
				if !w.waitSink(c19Long) {
					return w.unexpected(c, steps, "T1: consumer did not receive although len>0", pending(), o)
				}
				steps = append(steps, "ld rc")
				if blockedP >= 0 {
					select {
					case <-blockedCh:
					case <-time.After(c19Long):
						return w.unexpected(c, steps, "T1: blocked sender not released by a receive", pending(), o)
					}
					steps = append(steps, fmt.Sprintf("cs %d", blockedP))
					blockedP, blockedCh = -1, nil
				}
			} else {
				inSink = false
				time.Sleep(200 * time.Microsecond)
			}
		} else {
			continue
		}
		steps = append(steps, w.obs())
	}
	o.Line("C19 F %s # %s", c, w.final(steps))
	o.Count(fmt.Sprintf("seq/%s/cap%d", c.kind(), c.cap))
	if sawFull {
		o.Count(fmt.Sprintf("seq-emit-on-full-buffer/%s", c.kind()))
	}
	return nil
}

func maxI64(a, b int64) int64 {
	if a > b {
		return a
	}
	return b
}

// ---------------------------------------------------------------------------------------------
// T2: the consumer holds a channel reference (parked between loading it and the select) while a
// producer expands the channel and is parked in the middle of the migration (candidate F14).
// The script is adaptive: it records which of the attempted steps were blocked.
func c19ExpandVsConsumer(c c19Cfg, m int, o *Out) error {
	stream.VerifYieldReset(true)
	gC := stream.VerifYieldGate("consumer_loaded")
	w, err := newC19World(c, true, 0)
	if err != nil {
		return err
	}
	defer w.close()
	var steps []string
	if !gC.WaitArrived(c19Long) {
		return w.unexpected(c, steps, "T2: consumer never reached consumer_loaded", nil, o)
	}
	steps = append(steps, "ld")
	k := 0
	for ; k < c.cap; k++ {
		if ch, returned := w.emitWait(0, k, c19Long); !returned {
			return w.unexpected(c, append(steps, "em 0"), "T2: Emit with room in the channel did not return", []chan struct{}{ch}, o)
		}
		steps = append(steps, "E 0")
	}
	steps = append(steps, w.obs())
	gM := stream.VerifYieldGate("expand_migrated_one")
	gB := stream.VerifYieldGate("expand_before_lock")
	done := make(chan struct{})
	go func() { w.emit(0, k); close(done) }()
	if !gB.WaitArrived(c19Long) {
		return w.unexpected(c, append(steps, "em 0"), "T2: producer never reached expand_before_lock", []chan struct{}{done}, o)
	}
	steps = append(steps, "em 0 sd 0 xb 0 xr 0")
	gB.Open()
	consumerReleased, consumerInSink := false, false
	if gM.WaitArrived(c19Short) {
		steps = append(steps, "xl 0 mg 0")
	} else {
		// the write lock is not available while the consumer holds its reference (and the read lock)
		steps = append(steps, "X xl 0")
		gC.Release()
		consumerReleased = true
		// the consumer's select either receives a row or takes a pending tick; both release the lock
		if w.waitSink(c19Short) {
			steps = append(steps, "rc")
			consumerInSink = true
		} else {
			steps = append(steps, "tk")
		}
		if !gM.WaitArrived(c19Long) {
			return w.unexpected(c, steps, "T2: expander did not get the lock after the consumer released it", []chan struct{}{done}, o)
		}
		steps = append(steps, "xl 0 mg 0")
	}
	inOld := c.cap // rows in the old channel when the migration started
	if consumerInSink {
		inOld--
	}
	for migrated := 1; migrated < m && migrated < inOld; migrated++ {
		gM.Release()
		if !gM.WaitArrived(c19Long) {
			return w.unexpected(c, steps, "T2: migrator did not come back to the gate", []chan struct{}{done}, o)
		}
		steps = append(steps, "mg 0")
	}
	// now the migrator is parked inside the loop, holding the write lock
	if !consumerReleased {
		gC.Release() // consumer: select on the reference it loaded before the expansion
		if w.waitSink(c19Short) {
			steps = append(steps, "rc")
		} else {
			steps = append(steps, "tk")
		}
	} else {
		if consumerInSink {
			w.sinkTok <- struct{}{} // consumer leaves the sink and tries to load the reference again
		}
		if gC.WaitArrived(c19Short) {
			steps = append(steps, "ld")
			gC.Release()
			if w.waitSink(c19Short) {
				steps = append(steps, "rc")
			} else {
				steps = append(steps, "tk")
			}
		} else {
			steps = append(steps, "X ld")
		}
	}
	gC.Open()
	gM.Open()
	select {
	case <-done:
	case <-time.After(c19Long):
		return w.unexpected(c, steps, "T2: expanding Emit did not return", []chan struct{}{done}, o)
	}
	steps = append(steps, "FIN 0") // producer 0 runs alone until its Emit returns
	// drain: consumer alone
	for i := 0; i < 4*c.cap+8; i++ {
		if w.nproc() >= k+1 {
			break
		}
		select {
		case w.sinkTok <- struct{}{}:
		default:
		}
		w.waitSink(c19Short)
	}
	steps = append(steps, "DRAIN")
	atomic.StoreInt32(&w.gateSink, 0)
	w.sinkTok <- struct{}{}
	time.Sleep(2 * time.Millisecond)
	o.Line("C19 F %s # %s", c, w.final(steps))
	o.Count("forced/expand-vs-consumer")
	return nil
}

// ---------------------------------------------------------------------------------------------
// T5: random concurrent runs, end state only.
func c19Random(c c19Cfg, rng *RNG, o *Out) error {
	delays := []time.Duration{0, 0, 20 * time.Microsecond, 200 * time.Microsecond}
	delay := delays[rng.Intn(len(delays))]
	P := 1 + rng.Intn(8)
	ns := make([]int, P)
	pauses := make([]int, P)
	for p := range ns {
		ns[p] = 5 + rng.Intn(60)
		pauses[p] = rng.Intn(4) // 0: none
	}
	return c19Concurrent(c, ns, pauses, delay, rng, fmt.Sprintf("random/%s/cap%d/P%d", c.kind(), c.cap, P), o)
}

// T6: backpressure. Block strategy, BlockTimeout zero / negative / small positive, a tiny buffer and a
// consumer that is slower than the producers (the sync sink sleeps per row), producers emitting without a
// pause: nearly every Emit finds the buffer full. Without a timeout (the model says which values those are)
// nothing may be dropped; with one, every row is processed or counted.
func c19Backpressure(c c19Cfg, rng *RNG, o *Out) error {
	delay := []time.Duration{100, 250, 500}[rng.Intn(3)] * time.Microsecond
	P := 1 + rng.Intn(3)
	ns := make([]int, P)
	for p := range ns {
		ns[p] = 15 + rng.Intn(30)
	}
	return c19Concurrent(c, ns, make([]int, P), delay, rng, fmt.Sprintf("backpressure/%s/cap%d/P%d", c.kind(), c.cap, P), o)
}

func c19Concurrent(c c19Cfg, ns []int, pauses []int, delay time.Duration, rng *RNG, tag string, o *Out) error {
	stream.VerifYieldReset(false)
	w, err := newC19World(c, false, delay)
	if err != nil {
		return err
	}
	P := len(ns)
	// nil rows (c19d.go): nilPct % of every producer's Emit calls carry a nil map. The sink cannot tell whose they
	// are, so they are booked on a virtual producer P (issued[P] = nil rows emitted; the j-th nil row the sink
	// sees is (P, j)); the ids of producer p number its other rows.
	nilPct := c19NilPct
	issued := make([]int64, P+1) // Emit calls actually made (a producer that hangs stops short of ns[p])
	var wg sync.WaitGroup
	total := 0
	for p := 0; p < P; p++ {
		total += ns[p]
		pause := pauses[p]
		seed := rng.Next()
		wg.Add(1)
		go func(p, n int) {
			defer wg.Done()
			r := NewRNG(seed)
			nr := NewRNG(seed ^ 0x9e3779b97f4a7c15)
			for i, k := 0, 0; i < n; i++ {
				if nilPct > 0 && nr.Intn(100) < nilPct {
					atomic.AddInt64(&issued[P], 1)
					w.s.Emit(nil)
				} else {
					atomic.AddInt64(&issued[p], 1)
					w.emit(p, k)
					k++
				}
				if pause > 0 && r.Intn(pause+1) == 0 {
					time.Sleep(time.Duration(r.Intn(150)) * time.Microsecond)
				}
			}
		}(p, ns[p])
	}
	fin := make(chan struct{})
	go func() { wg.Wait(); close(fin) }()
	hung := false
	select {
	case <-fin:
	case <-time.After(20 * time.Second):
		// an Emit call that never returns: the rows issued so far are judged (the one in flight is neither
		// processed nor counted: conservation)
		hung = true
	}
	// quiescence: everything accounted for, or nothing moves for 400 ms
	deadline := time.Now().Add(10 * time.Second)
	last, lastChange := -1, time.Now()
	for time.Now().Before(deadline) {
		st := w.s.GetStats()
		n := w.nproc()
		if int64(n)+st[stream.InputDroppedCount] >= int64(total) && st[stream.DataChanLen] == 0 {
			break
		}
		if n != last {
			last, lastChange = n, time.Now()
		} else if time.Since(lastChange) > 400*time.Millisecond {
			break
		}
		time.Sleep(200 * time.Microsecond)
	}
	time.Sleep(300 * time.Microsecond)
	st := w.s.GetStats()
	var sb strings.Builder
	nilSeen := 0
	for _, id := range w.processed() {
		if id == -1 && nilPct > 0 {
			id = c19ID(P, nilSeen)
			nilSeen++
		}
		fmt.Fprintf(&sb, " %d", id)
	}
	var nsb strings.Builder
	for p := range ns {
		fmt.Fprintf(&nsb, " %d", atomic.LoadInt64(&issued[p]))
	}
	if nilPct > 0 {
		fmt.Fprintf(&nsb, " %d", atomic.LoadInt64(&issued[P]))
		fmt.Fprintf(&sb, " # nil-rows-are-producer %d", P)
	}
	o.Line("C19 R %s #%s # %d %d %d #%s", c, nsb.String(), st[stream.InputDroppedCount], st[stream.InputCount], st[stream.DataChanCap], sb.String())
	o.Count(tag)
	if hung {
		o.Count("unexpected/producers did not finish")
	}
	w.close()
	return nil
}

func c19RandCfg(rng *RNG, strat int) c19Cfg {
	caps := []int{1, 2, 16, 3, 5}
	c := c19Cfg{strat: strat, cap: caps[rng.Intn(len(caps))], gnum: 3, gden: 2, tnum: 4, tden: 5, minInc: 1000, max: 10000}
	switch strat {
	case 1: // block, no timeout: zero or negative
		c.bto = c19NoTimeouts[rng.Intn(len(c19NoTimeouts))]
	case 2: // block with a timeout of a few milliseconds (long enough for the forced scripts to be deterministic)
		c.strat, c.bto = 1, int64(c19BlockTimeout)
	case 4: // block with a small positive timeout (concurrent runs only: the timer races with the send)
		c.strat, c.bto = 1, c19SmallTimeouts[rng.Intn(len(c19SmallTimeouts))]
	}
	if strat == 3 {
		g := [][2]int{{3, 2}, {2, 1}, {5, 4}, {1, 1}, {0, 1}, {4, 1}}[rng.Intn(6)]
		c.gnum, c.gden = g[0], g[1]
		t := [][2]int{{4, 5}, {1, 2}, {1, 1}, {0, 1}, {1, 4}, {3, 4}}[rng.Intn(6)]
		c.tnum, c.tden = t[0], t[1]
		c.minInc = []int{1, 2, 3, 8, 0}[rng.Intn(5)]
		if c.minInc == 0 && rng.Intn(2) == 0 {
			c.minInc = 1
		}
		c.max = []int{0, c.cap, c.cap + 1, c.cap + 3, 2 * c.cap, 4 * c.cap, 40, 7}[rng.Intn(8)]
	}
	return c
}

func runC19(tier string, seed uint64, o *Out) error {
	rng := NewRNG(seed)
	nSeq, nRand, nForced, nBack := 140, 50, 8, 15
	if tier == "thorough" {
		nSeq, nRand, nForced, nBack = 1500, 500, 40, 120
	}
	// forced expansion-vs-consumer schedules
	for i := 0; i < nForced; i++ {
		c := c19Cfg{strat: 3, cap: 2 + i%4, max: 64, minInc: 1 + i%3, gnum: 3, gden: 2, tnum: 4, tden: 5}
		if err := c19ExpandVsConsumer(c, 1+i%3, o); err != nil {
			return err
		}
	}
	// forced: another producer sends between the expander's len/cap snapshot and its write lock
	if err := c19SendDuringExpansionFamily(tier, NewRNG(seed+77), o); err != nil {
		return err
	}
	// forced: the other producers take the slots an expansion has added before the expander's own second send
	if err := c19ExpanderLosesRaceFamily(tier, NewRNG(seed+78), o); err != nil {
		return err
	}
	// nil rows (Emit(nil)) at random positions of the backlog: forced schedules and concurrent runs (c19d.go)
	if err := c19NilRowsFamily(tier, NewRNG(seed+80), o); err != nil {
		return err
	}
	for i := 0; i < nSeq; i++ {
		c := c19RandCfg(rng, []int{0, 1, 2, 3, 3, 3}[rng.Intn(6)])
		if err := c19Sequential(c, rng, 10+rng.Intn(40), 0, o); err != nil {
			return err
		}
	}
	// backpressure scripts: block strategy, every class of BlockTimeout, a small buffer kept full
	for i := 0; i < nBack; i++ {
		c := c19RandCfg(rng, []int{1, 1, 1, 2}[i%4])
		c.cap = 1 + i%3
		if i < len(c19NoTimeouts) {
			c.strat, c.bto = 1, c19NoTimeouts[i] // every value at least once
		}
		if err := c19Sequential(c, rng, 12+rng.Intn(12), 85, o); err != nil {
			return err
		}
	}
	for i := 0; i < nRand; i++ {
		c := c19RandCfg(rng, []int{0, 1, 2, 3, 3, 4}[rng.Intn(6)])
		if err := c19Random(c, rng, o); err != nil {
			return err
		}
	}
	// crowd runs: 8 producers, buffer 1-2, one or two slots added per expansion
	nCrowd, crowdRows := 3, 120
	if tier == "thorough" {
		nCrowd, crowdRows = 24, 250
	}
	crng := NewRNG(seed + 79)
	for i := 0; i < nCrowd; i++ {
		if err := c19Crowd(crng, crowdRows, o); err != nil {
			return err
		}
	}
	// backpressure runs: slow consumer, full buffer, block strategy with zero / negative / small positive timeouts
	for i := 0; i < nBack; i++ {
		c := c19RandCfg(rng, []int{1, 1, 4}[i%3])
		c.cap = 1 + rng.Intn(3)
		if i < len(c19NoTimeouts) {
			c.strat, c.bto = 1, c19NoTimeouts[i]
		}
		if err := c19Backpressure(c, rng, o); err != nil {
			return err
		}
	}
	return nil
}
