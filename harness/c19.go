package main

// C19 — every emitted row is processed exactly once or counted as dropped; block never drops; expansion
// stays below MaxBufferSize; a producer's rows are processed in emission order.
//
// Two kinds of case lines (the real Stream, public API, real goroutines, SELECT id FROM stream + sync sink):
//
//   C19 F <cfg> # <steps> # <dropped emitted cap len> # <processed ids>
//       a FORCED schedule: the harness owns the schedule (consumer parked in the sync sink or at a
//       verifYield gate, producers run one at a time or are parked at verifYield gates inside
//       safeSendToDataChan / expandDataChannel). <steps> are the atomic steps of Model/Ingest.v the
//       harness forced (em sd gr cs to xb xr xl mg sw ld rc tk + producer index), the macro `E p`
//       (producer p performs one whole Emit with nothing else running), `X <step>` (the step was
//       attempted and observed to be blocked) and `= len cap dropped nproc` (stats observed there).
//       The extracted model replays the steps and must reach the same observations.
//   C19 R <cfg> # <rows per producer> # <dropped input_count cap> # <processed ids>
//       a RANDOM concurrent run (1-8 producers, consumer speeds); only the end state is judged,
//       by the extracted checker chk_C19.
//
// <cfg> = strat cap max minInc gnum gden tnum tden   (strat 0 drop, 1 block, 2 block+timeout, 3 expand;
//         growth factor gnum/gden and trigger threshold tnum/tden are dyadic or exactly comparable)

import (
	"fmt"
	"strings"
	"sync"
	"sync/atomic"
	"time"

	"github.com/rulego/streamsql"
	"github.com/rulego/streamsql/stream"
	"github.com/rulego/streamsql/types"
)

func init() { runners["C19"] = runC19 }

type c19Cfg struct {
	strat                  int
	cap, max, minInc       int
	gnum, gden, tnum, tden int
}

func (c c19Cfg) String() string {
	return fmt.Sprintf("%d %d %d %d %d %d %d %d", c.strat, c.cap, c.max, c.minInc, c.gnum, c.gden, c.tnum, c.tden)
}

const c19BlockTimeout = 3 * time.Millisecond

type c19World struct {
	s        *streamsql.Streamsql
	mu       sync.Mutex
	proc     []int
	gateSink int32
	sinkIn   chan int
	sinkTok  chan struct{}
	delay    time.Duration
}

func c19ID(p, k int) int { return p*100000 + k }

func newC19World(c c19Cfg, gateSink bool, delay time.Duration) (*c19World, error) {
	pc := types.DefaultPerformanceConfig()
	pc.BufferConfig.DataChannelSize = c.cap
	pc.BufferConfig.ResultChannelSize = 4096
	pc.BufferConfig.MaxBufferSize = c.max
	switch c.strat {
	case 0:
		pc.OverflowConfig.Strategy = "drop"
	case 1:
		pc.OverflowConfig.Strategy = "block"
		pc.OverflowConfig.BlockTimeout = 0
	case 2:
		pc.OverflowConfig.Strategy = "block"
		pc.OverflowConfig.BlockTimeout = c19BlockTimeout
	case 3:
		pc.OverflowConfig.Strategy = "expand"
	}
	pc.OverflowConfig.AllowDataLoss = c.strat != 1
	pc.OverflowConfig.ExpansionConfig.GrowthFactor = float64(c.gnum) / float64(c.gden)
	pc.OverflowConfig.ExpansionConfig.MinIncrement = c.minInc
	pc.OverflowConfig.ExpansionConfig.TriggerThreshold = float64(c.tnum) / float64(c.tden)
	w := &c19World{sinkIn: make(chan int, 1<<16), sinkTok: make(chan struct{}, 1<<16), delay: delay}
	if gateSink {
		w.gateSink = 1
	}
	w.s = streamsql.New(streamsql.WithDiscardLog(), streamsql.WithCustomPerformance(pc))
	if err := w.s.Execute("SELECT id FROM stream"); err != nil {
		return nil, err
	}
	w.s.AddSyncSink(func(rs []map[string]interface{}) {
		for _, r := range rs {
			id := -1
			switch v := r["id"].(type) {
			case int:
				id = v
			case int64:
				id = int(v)
			case float64:
				id = int(v)
			}
			w.mu.Lock()
			w.proc = append(w.proc, id)
			w.mu.Unlock()
			if atomic.LoadInt32(&w.gateSink) == 1 {
				w.sinkIn <- id
				<-w.sinkTok
			} else if w.delay > 0 {
				time.Sleep(w.delay)
			}
		}
	})
	return w, nil
}

func (w *c19World) emit(p, k int) { w.s.Emit(map[string]interface{}{"id": c19ID(p, k)}) }
func (w *c19World) nproc() int {
	w.mu.Lock()
	defer w.mu.Unlock()
	return len(w.proc)
}
func (w *c19World) processed() []int {
	w.mu.Lock()
	defer w.mu.Unlock()
	return append([]int(nil), w.proc...)
}
func (w *c19World) waitSink(d time.Duration) bool {
	t := time.NewTimer(d)
	defer t.Stop()
	select {
	case <-w.sinkIn:
		return true
	case <-t.C:
		return false
	}
}
func (w *c19World) obs() string {
	st := w.s.GetStats()
	return fmt.Sprintf("= %d %d %d %d", st[stream.DataChanLen], st[stream.DataChanCap], st[stream.InputDroppedCount], w.nproc())
}
func (w *c19World) final(steps []string) string {
	st := w.s.GetStats()
	ids := w.processed()
	var sb strings.Builder
	for _, id := range ids {
		fmt.Fprintf(&sb, " %d", id)
	}
	return fmt.Sprintf("%s # %d %d %d %d #%s", strings.Join(steps, " "), st[stream.InputDroppedCount], st[stream.InputCount],
		st[stream.DataChanCap], st[stream.DataChanLen], sb.String())
}
func (w *c19World) close() {
	atomic.StoreInt32(&w.gateSink, 0)
	for i := 0; i < 4096; i++ {
		select {
		case w.sinkTok <- struct{}{}:
		default:
		}
	}
	stream.VerifYieldReset(false)
	done := make(chan struct{})
	go func() { w.s.Stop(); close(done) }()
	select {
	case <-done:
	case <-time.After(8 * time.Second):
	}
}

const c19Long = 3 * time.Second   // something that must happen
const c19Short = 120 * time.Millisecond // something expected not to happen (blocked)

// ---------------------------------------------------------------------------------------------
// T1: sequential scripts. The consumer is parked inside the sync sink (or blocked on the empty
// channel), producers perform whole Emit calls one after the other.
func c19Sequential(c c19Cfg, rng *RNG, nops int, o *Out) error {
	stream.VerifYieldReset(false)
	w, err := newC19World(c, true, 0)
	if err != nil {
		return err
	}
	defer w.close()
	var steps []string
	nextK := map[int]int{}
	inSink := false
	P := 1 + rng.Intn(3)
	pE := 50 + rng.Intn(45) // percentage of emits
	var blocked []chan struct{} // block strategy: senders blocked on the full channel (FIFO wake-up not assumed: at most one)
	blockedP := -1
	for i := 0; i < nops || blockedP >= 0; i++ {
		st := w.s.GetStats()
		full := st[stream.DataChanLen] >= st[stream.DataChanCap]
		if i < nops && rng.Intn(100) < pE && blockedP < 0 {
			p := rng.Intn(P)
			if c.strat == 1 && full && inSink {
				// would block for ever: start it asynchronously and observe that it is blocked
				ch := make(chan struct{})
				k := nextK[p]
				nextK[p]++
				go func() { w.emit(p, k); close(ch) }()
				select {
				case <-ch:
					return fmt.Errorf("C19 T1: block strategy returned although the channel is full")
				case <-time.After(c19Short / 4):
				}
				blocked = append(blocked, ch)
				blockedP = p
				steps = append(steps, fmt.Sprintf("em %d gr %d X cs %d", p, p, p))
				continue
			}
			w.emit(p, nextK[p])
			nextK[p]++
			steps = append(steps, fmt.Sprintf("E %d", p))
			if !inSink {
				if !w.waitSink(c19Long) {
					return fmt.Errorf("C19 T1: idle consumer did not pick up the row")
				}
				inSink = true
				steps = append(steps, "ld rc")
			}
		} else if inSink {
			had := st[stream.DataChanLen] > 0
			w.sinkTok <- struct{}{}
			if had {
				if !w.waitSink(c19Long) {
					return fmt.Errorf("C19 T1: consumer did not receive although len>0")
				}
				steps = append(steps, "ld rc")
				if blockedP >= 0 {
					select {
					case <-blocked[len(blocked)-1]:
					case <-time.After(c19Long):
						return fmt.Errorf("C19 T1: blocked sender not released by a receive")
					}
					steps = append(steps, fmt.Sprintf("cs %d", blockedP))
					blockedP = -1
				}
			} else {
				inSink = false
				time.Sleep(200 * time.Microsecond)
			}
		} else {
			continue
		}
		steps = append(steps, w.obs())
	}
	o.Line("C19 F %s # %s", c, w.final(steps))
	o.Count(fmt.Sprintf("seq/strat%d/cap%d", c.strat, c.cap))
	return nil
}

// ---------------------------------------------------------------------------------------------
// T2: the consumer holds a channel reference (parked between loading it and the select) while a
// producer expands the channel and is parked in the middle of the migration (candidate F14).
// The script is adaptive: it records which of the attempted steps were blocked.
func c19ExpandVsConsumer(c c19Cfg, m int, o *Out) error {
	stream.VerifYieldReset(true)
	gC := stream.VerifYieldGate("consumer_loaded")
	w, err := newC19World(c, true, 0)
	if err != nil {
		return err
	}
	defer w.close()
	var steps []string
	if !gC.WaitArrived(c19Long) {
		return fmt.Errorf("C19 T2: consumer never reached consumer_loaded")
	}
	steps = append(steps, "ld")
	k := 0
	for ; k < c.cap; k++ {
		w.emit(0, k)
		steps = append(steps, "E 0")
	}
	steps = append(steps, w.obs())
	gM := stream.VerifYieldGate("expand_migrated_one")
	gB := stream.VerifYieldGate("expand_before_lock")
	done := make(chan struct{})
	go func() { w.emit(0, k); close(done) }()
	if !gB.WaitArrived(c19Long) {
		return fmt.Errorf("C19 T2: producer never reached expand_before_lock (cfg %s)", c)
	}
	steps = append(steps, "em 0 sd 0 xb 0 xr 0")
	gB.Open()
	consumerReleased, consumerInSink := false, false
	if gM.WaitArrived(c19Short) {
		steps = append(steps, "xl 0 mg 0")
	} else {
		// the write lock is not available while the consumer holds its reference (and the read lock)
		steps = append(steps, "X xl 0")
		gC.Release()
		consumerReleased = true
		// the consumer's select either receives a row or takes a pending tick; both release the lock
		if w.waitSink(c19Short) {
			steps = append(steps, "rc")
			consumerInSink = true
		} else {
			steps = append(steps, "tk")
		}
		if !gM.WaitArrived(c19Long) {
			return fmt.Errorf("C19 T2: expander did not get the lock after the consumer released it")
		}
		steps = append(steps, "xl 0 mg 0")
	}
	inOld := c.cap // rows in the old channel when the migration started
	if consumerInSink {
		inOld--
	}
	for migrated := 1; migrated < m && migrated < inOld; migrated++ {
		gM.Release()
		if !gM.WaitArrived(c19Long) {
			return fmt.Errorf("C19 T2: migrator did not come back to the gate")
		}
		steps = append(steps, "mg 0")
	}
	// now the migrator is parked inside the loop, holding the write lock
	if !consumerReleased {
		gC.Release() // consumer: select on the reference it loaded before the expansion
		if w.waitSink(c19Short) {
			steps = append(steps, "rc")
		} else {
			steps = append(steps, "tk")
		}
	} else {
		if consumerInSink {
			w.sinkTok <- struct{}{} // consumer leaves the sink and tries to load the reference again
		}
		if gC.WaitArrived(c19Short) {
			steps = append(steps, "ld")
			gC.Release()
			if w.waitSink(c19Short) {
				steps = append(steps, "rc")
			} else {
				steps = append(steps, "tk")
			}
		} else {
			steps = append(steps, "X ld")
		}
	}
	gC.Open()
	gM.Open()
	select {
	case <-done:
	case <-time.After(c19Long):
		return fmt.Errorf("C19 T2: expanding Emit did not return")
	}
	steps = append(steps, "FIN 0") // producer 0 runs alone until its Emit returns
	// drain: consumer alone
	for i := 0; i < 4*c.cap+8; i++ {
		if w.nproc() >= k+1 {
			break
		}
		select {
		case w.sinkTok <- struct{}{}:
		default:
		}
		w.waitSink(c19Short)
	}
	steps = append(steps, "DRAIN")
	atomic.StoreInt32(&w.gateSink, 0)
	w.sinkTok <- struct{}{}
	time.Sleep(2 * time.Millisecond)
	o.Line("C19 F %s # %s", c, w.final(steps))
	o.Count("forced/expand-vs-consumer")
	return nil
}

// ---------------------------------------------------------------------------------------------
// T5: random concurrent runs, end state only.
func c19Random(c c19Cfg, rng *RNG, o *Out) error {
	stream.VerifYieldReset(false)
	delays := []time.Duration{0, 0, 20 * time.Microsecond, 200 * time.Microsecond}
	delay := delays[rng.Intn(len(delays))]
	w, err := newC19World(c, false, delay)
	if err != nil {
		return err
	}
	P := 1 + rng.Intn(8)
	ns := make([]int, P)
	var wg sync.WaitGroup
	total := 0
	for p := 0; p < P; p++ {
		ns[p] = 5 + rng.Intn(60)
		total += ns[p]
		pause := rng.Intn(4) // 0: none
		seed := rng.Next()
		wg.Add(1)
		go func(p, n int) {
			defer wg.Done()
			r := NewRNG(seed)
			for k := 0; k < n; k++ {
				w.emit(p, k)
				if pause > 0 && r.Intn(pause+1) == 0 {
					time.Sleep(time.Duration(r.Intn(150)) * time.Microsecond)
				}
			}
		}(p, ns[p])
	}
	fin := make(chan struct{})
	go func() { wg.Wait(); close(fin) }()
	select {
	case <-fin:
	case <-time.After(20 * time.Second):
		return fmt.Errorf("C19 random: producers did not finish (cfg %s)", c)
	}
	// quiescence: everything accounted for, or nothing moves for 400 ms
	deadline := time.Now().Add(10 * time.Second)
	last, lastChange := -1, time.Now()
	for time.Now().Before(deadline) {
		st := w.s.GetStats()
		n := w.nproc()
		if int64(n)+st[stream.InputDroppedCount] >= int64(total) && st[stream.DataChanLen] == 0 {
			break
		}
		if n != last {
			last, lastChange = n, time.Now()
		} else if time.Since(lastChange) > 400*time.Millisecond {
			break
		}
		time.Sleep(200 * time.Microsecond)
	}
	time.Sleep(300 * time.Microsecond)
	st := w.s.GetStats()
	var sb strings.Builder
	for _, id := range w.processed() {
		fmt.Fprintf(&sb, " %d", id)
	}
	var nsb strings.Builder
	for _, n := range ns {
		fmt.Fprintf(&nsb, " %d", n)
	}
	o.Line("C19 R %s #%s # %d %d %d #%s", c, nsb.String(), st[stream.InputDroppedCount], st[stream.InputCount], st[stream.DataChanCap], sb.String())
	o.Count(fmt.Sprintf("random/strat%d/cap%d/P%d", c.strat, c.cap, P))
	w.close()
	return nil
}

func c19RandCfg(rng *RNG, strat int) c19Cfg {
	caps := []int{1, 2, 16, 3, 5}
	c := c19Cfg{strat: strat, cap: caps[rng.Intn(len(caps))], gnum: 3, gden: 2, tnum: 4, tden: 5, minInc: 1000, max: 10000}
	if strat == 3 {
		g := [][2]int{{3, 2}, {2, 1}, {5, 4}, {1, 1}, {0, 1}, {4, 1}}[rng.Intn(6)]
		c.gnum, c.gden = g[0], g[1]
		t := [][2]int{{4, 5}, {1, 2}, {1, 1}, {0, 1}, {1, 4}, {3, 4}}[rng.Intn(6)]
		c.tnum, c.tden = t[0], t[1]
		c.minInc = []int{1, 2, 3, 8, 0}[rng.Intn(5)]
		if c.minInc == 0 && rng.Intn(2) == 0 {
			c.minInc = 1
		}
		c.max = []int{0, c.cap, c.cap + 1, c.cap + 3, 2 * c.cap, 4 * c.cap, 40, 7}[rng.Intn(8)]
	}
	return c
}

func runC19(tier string, seed uint64, o *Out) error {
	rng := NewRNG(seed)
	nSeq, nRand, nForced := 140, 50, 8
	if tier == "thorough" {
		nSeq, nRand, nForced = 1500, 500, 40
	}
	// forced expansion-vs-consumer schedules
	for i := 0; i < nForced; i++ {
		c := c19Cfg{strat: 3, cap: 2 + i%4, max: 64, minInc: 1 + i%3, gnum: 3, gden: 2, tnum: 4, tden: 5}
		if err := c19ExpandVsConsumer(c, 1+i%3, o); err != nil {
			return err
		}
	}
	// forced: another producer sends between the expander's len/cap snapshot and its write lock
	if err := c19SendDuringExpansionFamily(tier, NewRNG(seed+77), o); err != nil {
		return err
	}
	for i := 0; i < nSeq; i++ {
		c := c19RandCfg(rng, []int{0, 1, 2, 3, 3, 3}[rng.Intn(6)])
		if err := c19Sequential(c, rng, 10+rng.Intn(40), o); err != nil {
			return err
		}
	}
	for i := 0; i < nRand; i++ {
		c := c19RandCfg(rng, []int{0, 1, 2, 3, 3}[rng.Intn(5)])
		if err := c19Random(c, rng, o); err != nil {
			return err
		}
	}
	return nil
}
