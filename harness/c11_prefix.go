package main

// C11, totality family "a statement while it is being typed": EVERY byte-prefix of well-formed
// statements that together use every clause kind of the grammar (also the kinds the statement
// skeleton of Model/Stmt.v does not cover: MATCH_RECOGNIZE with all its sub-clauses, OVER(...),
// GLOBAL WINDOW ... TRIGGER WHEN, array/nested access), with back-quoted identifiers, string
// literals and numbers at every identifier / value position.  A cut leaves a degenerate last token at
// every parser site in turn: a lone opening quote or back-quote, half a keyword, half a number, an
// open parenthesis.  Prefixes are taken as they are, followed by a blank, followed by a newline, and
// -- at the cuts that fall on a token boundary -- followed by one dangling lexeme (a lone quote,
// bracket, operator, or keyword).  Judged by the T clause (parse_total): rsql.Parse under recover with a
// 2 s limit must return a configuration or an error.  The Go parser is not modelled, so this is an
// implementation-level test; the lexer model is compared on every such input as well (L lines).
//
//   C11 F <hex sql as written> <hex sql with lower-case keywords> <outcome 1> <outcome 2> <same structure 0/1>
//         <written clause kinds> <clause kinds in Config 1> <clause kinds in Config 2>
// The complete statements themselves must be accepted, in upper and in lower keyword case, with the
// same structure (differential between the two spellings on the real parser: statement AST + Config
// digest); this keeps the family honest (prefixes of a rejected statement would explore nothing).
import (
	"encoding/json"
	"fmt"
	"sort"
	"strings"
	"time"

	"github.com/rulego/streamsql/rsql"
)

// a complete statement and the clause kinds it writes: execution mode (0 direct, 1 window, 2 CEP =
// MATCH_RECOGNIZE recognised), number of JOINs, WHERE present, number of analytic (OVER) calls
type c11Full struct {
	sql      string
	mode     int
	joins    int
	where    bool
	analytic int
}

var c11FullStatements = []c11Full{
	{"SELECT * FROM stream MATCH_RECOGNIZE (PARTITION BY `device id`, `region` ORDER BY `ts` MEASURES A.v AS `first v`, B.v AS `last v` ONE ROW PER MATCH AFTER MATCH SKIP PAST LAST ROW PATTERN (A B+ C? (D | E){2,3}) WITHIN 5 SECONDS DEFINE `A` AS v > 0, B AS v < 0, C AS `x y` = 'p (q)', D AS v >= 1, E AS v != 2)", 2, 0, false, 0},
	{"SELECT * FROM stream MATCH_RECOGNIZE (ORDER BY ts ALL ROWS PER MATCH AFTER MATCH SKIP TO FIRST `A` PATTERN (A B) SUBSET S = (`A`, B), T = (`B`) WITHIN '500ms' DEFINE `A` AS v > 0)", 2, 0, false, 0},
	{"SELECT * FROM stream MATCH_RECOGNIZE (ORDER BY ts ASC, `seq` AFTER MATCH SKIP TO LAST `B` PATTERN (A B* {- C -} PERMUTE(D, E)) DEFINE A AS v > 0)", 2, 0, false, 0},
	{"SELECT * FROM stream MATCH_RECOGNIZE (ORDER BY `ts` AFTER MATCH SKIP TO NEXT ROW PATTERN (A B) DEFINE A AS v > 0) WHERE `m` > 1", 2, 0, true, 0},
	{"SELECT * FROM stream MATCH_RECOGNIZE (ORDER BY `ts` AFTER MATCH SKIP TO `A` PATTERN (A{2} | B) DEFINE `A` AS v > 0)", 2, 0, false, 0},
	{"SELECT DISTINCT `a b` AS `x`, upper(`n`) AS u, 'lit (x)' AS l, CASE WHEN `a b` > 1 THEN 'hi' ELSE \"lo\" END AS lvl FROM stream AS s LEFT OUTER JOIN meta AS m ON s.k = m.k AND `j` = m.j INNER JOIN t2 q ON `id` = q.id WHERE `a b` > -1 AND n LIKE '%x' OR NOT (n IS NOT NULL) ORDER BY `x` DESC, u ASC LIMIT 3", 0, 2, true, 0},
	{"SELECT `g`, avg(`v`) AS `a`, count(*) AS c FROM stream GROUP BY `g`, upper(`h`), TumblingWindow('5s') HAVING `a` > 1 AND c != 'count(*)' WITH (TIMESTAMP='ts', TIMEUNIT='ms', MAXOUTOFORDERNESS='2s', ALLOWEDLATENESS='1s', IDLETIMEOUT='5s') ORDER BY `a` DESC LIMIT 10", 1, 0, false, 0},
	{"SELECT k, sum(v) AS s FROM stream GROUP BY k, SlidingWindow('10s', '2s') HAVING s >= 0", 1, 0, false, 0},
	{"SELECT k, count(*) AS c FROM stream GROUP BY k, CountingWindow(3) WITH (STATETTL='24h')", 1, 0, false, 0},
	{"SELECT k, max(v) AS m FROM stream GROUP BY SessionWindow('5m'), k", 1, 0, false, 0},
	{"SELECT `d`, lag(`v`, 1) OVER (PARTITION BY `d`, e WHEN had_changed(true, `s`)) AS p, v - lag(v) OVER (PARTITION BY d) AS dv FROM stream WHERE lag(`v`) OVER (PARTITION BY `d`) > 1", 0, 0, true, 3},
	{"SELECT deviceId, COUNT(*) AS c, MAX(`t`) AS m FROM stream GROUP BY deviceId, GLOBAL WINDOW TRIGGER WHEN COUNT(*) >= 1000 AND MAX(`t`) > 50 HAVING c > 1 LIMIT 5", 1, 0, false, 0},
	{"SELECT a[0] AS f, b.c[1].d AS g, `m`.x AS h, -1.5 AS neg FROM stream WHERE a[0] = 1 AND b.c != \"q\"", 0, 0, true, 0},
}

// words whose case is irrelevant wherever they occur outside quotes in the statements above
var c11CaseWords = map[string]bool{"SELECT": true, "DISTINCT": true, "FROM": true, "AS": true, "WHERE": true, "GROUP": true, "BY": true,
	"HAVING": true, "WITH": true, "ORDER": true, "LIMIT": true, "AND": true, "OR": true, "NOT": true, "IS": true, "NULL": true, "LIKE": true,
	"CASE": true, "WHEN": true, "THEN": true, "ELSE": true, "END": true, "LEFT": true, "OUTER": true, "INNER": true, "JOIN": true, "ON": true,
	"DESC": true, "ASC": true, "MATCH_RECOGNIZE": true, "PARTITION": true, "MEASURES": true, "ONE": true, "ALL": true, "ROW": true, "ROWS": true,
	"PER": true, "MATCH": true, "AFTER": true, "SKIP": true, "PAST": true, "LAST": true, "FIRST": true, "NEXT": true, "TO": true, "PATTERN": true,
	"SUBSET": true, "WITHIN": true, "SECONDS": true, "DEFINE": true, "OVER": true, "GLOBAL": true, "WINDOW": true, "TRIGGER": true,
	"TIMESTAMP": true, "TIMEUNIT": true, "MAXOUTOFORDERNESS": true, "ALLOWEDLATENESS": true, "IDLETIMEOUT": true, "STATETTL": true,
	"TUMBLINGWINDOW": true, "SLIDINGWINDOW": true, "COUNTINGWINDOW": true, "SESSIONWINDOW": true}

// lowerKeywords lower-cases the case-insensitive words outside quotes / back-quotes.
func lowerKeywords(s string) string {
	var sb strings.Builder
	i := 0
	for i < len(s) {
		c := s[i]
		if c == '\'' || c == '"' || c == '`' {
			j := i + 1
			for j < len(s) && s[j] != c {
				j++
			}
			if j < len(s) {
				j++
			}
			sb.WriteString(s[i:j])
			i = j
			continue
		}
		if c >= 'a' && c <= 'z' || c >= 'A' && c <= 'Z' || c == '_' {
			j := i
			for j < len(s) && (s[j] >= 'a' && s[j] <= 'z' || s[j] >= 'A' && s[j] <= 'Z' || s[j] == '_' || s[j] >= '0' && s[j] <= '9') {
				j++
			}
			w := s[i:j]
			// a word glued to a dot is part of a path (A.v, b.c), not a keyword
			glued := (i > 0 && s[i-1] == '.') || (j < len(s) && s[j] == '.')
			if c11CaseWords[strings.ToUpper(w)] && !glued {
				w = strings.ToLower(w)
			}
			sb.WriteString(w)
			i = j
			continue
		}
		sb.WriteByte(c)
		i++
	}
	return sb.String()
}

// structure digest of a parse: the clause-carrying part of types.Config, letter case folded (the two
// texts compared differ only in the case of keywords, which expression texts keep as written)
func c11Digest(sql string) (string, string, string) {
	out, cfg, cond, _ := parseGuard(sql, 2*time.Second)
	if out != "ok" {
		return out, "", "-"
	}
	mode := int(cfg.Mode)
	if (cfg.MatchRecognize != nil) != (mode == 2) {
		mode = 9
	}
	sum := fmt.Sprintf("m%d,j%d,w%s,a%d", mode, len(cfg.JoinConfigs), b01(cond != ""), len(cfg.AnalyticFields)+len(cfg.WhereAnalyticCalls))
	wc := cfg.WindowConfig
	d, _ := json.Marshal([]any{cfg.FieldOrder, cfg.SimpleFields, len(cfg.SelectAlias), cfg.SelectFields, len(cfg.FieldAlias), cfg.GroupFields, cfg.Having,
		cfg.OrderBy, cfg.Limit, cfg.Distinct, cfg.NeedWindow, cfg.Mode, cfg.JoinConfigs, cfg.SourceAlias, cfg.MatchRecognize, cfg.AnalyticFields,
		cfg.WhereAnalyticCalls, cond, wc.Type, fmt.Sprint(wc.Params), wc.TsProp, wc.TimeUnit, wc.MaxOutOfOrderness, wc.AllowedLateness,
		wc.IdleTimeout, wc.CountStateTTL, wc.TriggerCondition, wc.GroupByKeys})
	return out, foldMaps(strings.ToLower(string(d)), cfg.SelectAlias, cfg.FieldAlias), sum
}

// maps are marshalled with sorted keys; sorting happens before the case folding, so the alias maps
// (keyed by expression text) are appended in a case-folded, sorted form and compared that way
func foldMaps(d string, ms ...map[string]string) string {
	for _, m := range ms {
		var kv []string
		for k, v := range m {
			kv = append(kv, strings.ToLower(k+"="+v))
		}
		sort.Strings(kv)
		d += "|" + strings.Join(kv, ";")
	}
	return d
}

var c11Dangling = []string{"`", "'", "\"", "(", ")", ",", ".", "-", "=", "!", "<", "*", "[", "]", "{", "}", "|", "?", "``", "''", "`x", "'x", "AS", "BY", "`\x00", "1.", "\x00"}

func isTokenBoundary(s string, i int) bool {
	if i == 0 || i == len(s) {
		return true
	}
	a, b := s[i-1], s[i]
	return a == ' ' || b == ' ' || !(isIdentCh(a) && isIdentCh(b)) && a != '\'' && a != '`' && a != '"'
}

// prefixFamily returns the totality inputs derived from one well-formed statement.
func prefixFamily(o *Out, sql string, tails bool, dangle bool) []string {
	var out []string
	inQuote := byte(0)
	for i := 0; i <= len(sql); i++ {
		p := sql[:i]
		out = append(out, p)
		o.Count("total_prefix_every_byte")
		if tails {
			out = append(out, p+" ", p+"\n")
		}
		if dangle && inQuote == 0 && isTokenBoundary(sql, i) {
			for _, d := range c11Dangling {
				sep := ""
				if i > 0 && needSep(sql[i-1:i], d) {
					sep = " "
				}
				out = append(out, p+sep+d)
				o.Count("total_prefix_dangling_lexeme")
			}
		}
		if i < len(sql) {
			c := sql[i]
			if inQuote == 0 && (c == '\'' || c == '"' || c == '`') {
				inQuote = c
			} else if inQuote == c {
				inQuote = 0
			}
		}
	}
	return out
}

// c11PrefixInputs: the complete statements (F lines) and their prefix families (returned, run as T lines).
func c11PrefixInputs(rng *RNG, o *Out, tier string, generated []string) []string {
	var inputs []string
	for _, f := range c11FullStatements {
		sql := f.sql
		lo := lowerKeywords(sql)
		o1, d1, s1 := c11Digest(sql)
		o2, d2, s2 := c11Digest(lo)
		exp := fmt.Sprintf("m%d,j%d,w%s,a%d", f.mode, f.joins, b01(f.where), f.analytic)
		o.Line("C11 F %s %s %s %s %s %s %s %s", hx(sql), hx(lo), o1, o2, b01(d1 == d2), exp, s1, s2)
		o.Count("full_statement_all_clause_kinds")
		inputs = append(inputs, prefixFamily(o, sql, true, true)...)
		inputs = append(inputs, prefixFamily(o, lo, false, false)...)
	}
	// the same for generated statements of the skeleton grammar, under a random layout
	n := 12
	if tier == "thorough" {
		n = 150
	}
	for i := 0; i < n && len(generated) > 0; i++ {
		inputs = append(inputs, prefixFamily(o, generated[rng.Intn(len(generated))], false, i%3 == 0)...)
		o.Count("total_prefix_of_generated_statement")
	}
	return inputs
}

var _ = rsql.Parse
