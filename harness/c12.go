package main

// C12 — predicate fast paths decide exactly as the general evaluator.
// Line formats (texts and strings are hex, "-" = empty):
//   C12 T <text> # <kind> { <field> <op> N <float> | <field> <op> S <str> }*
//        what tryFastCompound/tryFastCompare compiled (kind 0 none, 1 single, 2 AND chain, 3 OR chain)
//   C12 E <text> { <field>=<value> }* # <plain> <paren> <fast>
//        plain = NewExprCondition(text).Evaluate(row), paren = NewExprCondition("("+text+")").Evaluate(row)
//        (1/0, E = does not compile), fast = answer of the shortcut alone (t/f, - = declined or absent)
//   C12 Q <site> <text> { <field>=<value> }* # <plain> <paren>
//        the same predicate through SQL (site where|having): row accepted 1/0, with and without parentheses
//   C12 K <form> <text> { <field>=<value> }* # <seq> <ntrue> <nfalse> <npanic>
//        one compiled predicate evaluated by 4-8 goroutines at once (see c12k.go)
// Values: n (nil) | i:<kind 0..9>:<decimal> | d:<float> (float64) | f:<float> (float32, widened) |
//         s:<hex> | b:0|1 | o (any other Go type).  Floats: nan | +inf | -inf | <mantissa>:<exponent> (m*2^e, exact).

import (
	"fmt"
	"math"
	"sort"
	"strings"
	"sync"
	"time"

	"github.com/rulego/streamsql"
	"github.com/rulego/streamsql/condition"
)

func init() { runners["C12"] = runC12 }

func c12Flt(x float64) string {
	switch {
	case math.IsNaN(x):
		return "nan"
	case math.IsInf(x, 1):
		return "+inf"
	case math.IsInf(x, -1):
		return "-inf"
	case x == 0:
		return "0:0"
	}
	fr, ex := math.Frexp(x)
	m := int64(fr * (1 << 53)) // exact: |fr| in [1/2,1) has 53 significant bits
	e := ex - 53
	for m%2 == 0 {
		m /= 2
		e++
	}
	return fmt.Sprintf("%d:%d", m, e)
}

func c12Val(v any) string {
	switch x := v.(type) {
	case nil:
		return "n"
	case int:
		return fmt.Sprintf("i:0:%d", x)
	case int8:
		return fmt.Sprintf("i:1:%d", x)
	case int16:
		return fmt.Sprintf("i:2:%d", x)
	case int32:
		return fmt.Sprintf("i:3:%d", x)
	case int64:
		return fmt.Sprintf("i:4:%d", x)
	case uint:
		return fmt.Sprintf("i:5:%d", x)
	case uint8:
		return fmt.Sprintf("i:6:%d", x)
	case uint16:
		return fmt.Sprintf("i:7:%d", x)
	case uint32:
		return fmt.Sprintf("i:8:%d", x)
	case uint64:
		return fmt.Sprintf("i:9:%d", x)
	case float64:
		return "d:" + c12Flt(x)
	case float32:
		return "f:" + c12Flt(float64(x))
	case string:
		return "s:" + hx(x)
	case bool:
		return "b:" + b01(x)
	}
	return "o"
}

func c12Row(row map[string]any) string {
	keys := make([]string, 0, len(row))
	for k := range row {
		keys = append(keys, k)
	}
	sort.Strings(keys)
	var sb strings.Builder
	for _, k := range keys {
		sb.WriteString(" " + hx(k) + "=" + c12Val(row[k]))
	}
	return sb.String()
}

var c12OpName = map[string]string{">": "gt", ">=": "ge", "<": "lt", "<=": "le", "==": "eq2", "=": "eq1", "!=": "ne", "<>": "ne2"}

func c12Shape(text string) string {
	kind, parts := condition.VerifFastShape(text)
	var sb strings.Builder
	fmt.Fprintf(&sb, "%d", kind)
	for _, p := range parts {
		if p.IsString {
			fmt.Fprintf(&sb, " %s %s S %s", hx(p.Field), c12OpName[p.Op], hx(p.StrLit))
		} else {
			fmt.Fprintf(&sb, " %s %s N %s", hx(p.Field), c12OpName[p.Op], c12Flt(p.NumLit))
		}
	}
	return sb.String()
}

type c12Cond struct {
	plain, paren condition.Condition
}

func c12Compile(text string) c12Cond {
	var c c12Cond
	if p, err := condition.NewExprCondition(text); err == nil {
		c.plain = p
	}
	if p, err := condition.NewExprCondition("(" + text + ")"); err == nil {
		c.paren = p
	}
	return c
}

func c12Eval(c c12Cond, row map[string]any) string {
	ev := func(cd condition.Condition) (s string) {
		if cd == nil {
			return "E"
		}
		defer func() {
			if r := recover(); r != nil {
				s = "P"
			}
		}()
		return b01(cd.Evaluate(row))
	}
	fast := "-"
	if c.plain != nil {
		if r, ok := condition.VerifFastEval(c.plain, row); ok {
			fast = "f"
			if r {
				fast = "t"
			}
		}
	}
	return ev(c.plain) + " " + ev(c.paren) + " " + fast
}

func c12Values() []any {
	const p53 = int64(1) << 53
	vs := []any{
		nil, true, false, []int{1}, time.Duration(5), map[string]any{"a": 1}, struct{}{},
		"", "a", "b", "ab", "5", "5.0", "a\\b", "a\\\\b", "a\nb", "a\\nb", "a\rb", "a\r\nb", "\xff", "\xef\xbf\xbd", "a&&b", "a||b", "a(b", "A", "\xc3\xa9", "a\"b", "a\tb", "a\\tb", "\xe9", "caf\xe9", "caf\xc3\xa9",
		0.0, math.Copysign(0, -1), 0.5, 1.5, -1.5, 5.0, -5.0, 0.1, 4.999999999999999, 5.000000000000001, float64(p53), float64(p53) + 2, -float64(p53), float64(p53) - 1,
		9223372036854775808.0, 18446744073709551616.0, 1e300, -1e300, math.SmallestNonzeroFloat64, math.MaxFloat64, math.NaN(), math.Inf(1), math.Inf(-1),
		0.30000000000000004, 123456789.12345679, 1e-6,
		float32(0), float32(0.5), float32(1.5), float32(-1.5), float32(5), float32(0.1), float32(16777216), float32(math.Inf(1)), float32(math.NaN()), float32(3.4e38),
	}
	for _, z := range []int64{0, 1, -1, 4, 5, 6, -5, 7, 8, 10, 127, -128, 255, 32767, -32768, 65535, 2147483647, -2147483648, 4294967295,
		p53 - 1, p53, p53 + 1, p53 + 2, p53 + 3, -p53, -p53 - 1, -p53 - 2, -p53 + 1, math.MaxInt64, math.MaxInt64 - 1, math.MinInt64, math.MinInt64 + 1, 1 << 62, 123456789} {
		vs = append(vs, int64(z))
		if z == int64(int(z)) {
			vs = append(vs, int(z))
		}
		if z >= math.MinInt8 && z <= math.MaxInt8 {
			vs = append(vs, int8(z))
		}
		if z >= math.MinInt16 && z <= math.MaxInt16 {
			vs = append(vs, int16(z))
		}
		if z >= math.MinInt32 && z <= math.MaxInt32 {
			vs = append(vs, int32(z))
		}
		if z >= 0 {
			vs = append(vs, uint64(z), uint(z))
			if z <= math.MaxUint8 {
				vs = append(vs, uint8(z))
			}
			if z <= math.MaxUint16 {
				vs = append(vs, uint16(z))
			}
			if z <= math.MaxUint32 {
				vs = append(vs, uint32(z))
			}
		}
	}
	for _, u := range []uint64{1 << 63, 1<<63 + 1, 1<<63 + 1024, math.MaxUint64, math.MaxUint64 - 1, 1<<64 - 1<<10, 1<<63 - 1} {
		vs = append(vs, u, uint(u))
	}
	return vs
}

func c12Lits() []string {
	return []string{
		"0", "-0", "1", "5", "-5", "007", "010", "4", "6", "255", "-128", "2147483647", "4294967295", "4294967296",
		"9007199254740991", "9007199254740992", "9007199254740993", "9007199254740994", "9007199254740995",
		"-9007199254740991", "-9007199254740992", "-9007199254740993", "-9007199254740994",
		"9223372036854775807", "9223372036854775806", "-9223372036854775807", "9223372036854775808", "-9223372036854775808",
		"18446744073709551615", "123456789012345678901234567890",
		"0.5", "1.5", "-1.5", "5.0", "5.00", "-5.0", "0.0", "-0.0", "0.1", "0.30000000000000004", "0.3", "4.999999999999999", "5.000000000000001", "5.0000000000000001",
		"9007199254740992.0", "9007199254740993.0", "9007199254740992.5", "9007199254740994.0", "9223372036854775808.0", "18446744073709551616.0", "-9223372036854775808.0",
		"123456789.123456789", "0.000001", "16777216.0", "0.100000001490116119384765625",
		"0.000000000000000000000000000000000000000000000000000000000000000000000000000000001",
		"100000000000000000000000000000.0",
		"''", "'a'", "'b'", "'ab'", "'5'", "'A'", "'a\\\\b'", "'a\\nb'", "'a\\tb'", "'a\\qb'", "'a\\'", "'a\"b'", "'a\\\"b'", "'\xff'", "'\xef\xbf\xbd'", "'\xc3\xa9'", "'a\rb'", "'a\r\nb'", "'a\nb'",
		"'a&&b'", "'a||b'", "'a(b'", "'a b'", "' a'", "'\\x41'", "'\\u0041'", "'a\tb'",
		"'\\xe9'", "'\\351'", "'caf\\xe9'", // numeric escapes above ASCII: the code point (UTF-8), not the byte (see c12esc.go)
	}
}

var c12Ops = []string{">", ">=", "<", "<=", "==", "!=", "=", "<>"}

func runC12(tier string, seed uint64, o *Out) error {
	rng := NewRNG(seed)
	vals := c12Values()
	lits := c12Lits()
	emitE := func(text string, c c12Cond, row map[string]any) {
		o.Line("C12 E %s%s # %s", hx(text), c12Row(row), c12Eval(c, row))
	}
	// (1) systematic: x OP lit for every operator and literal of the pool, against every value of the pool,
	//     plus the missing column and a row whose other columns are irrelevant
	for _, op := range c12Ops {
		for _, lit := range lits {
			text := "x " + op + " " + lit
			o.Line("C12 T %s # %s", hx(text), c12Shape(text))
			c := c12Compile(text)
			if c.plain == nil && c.paren == nil { // does not compile: one line is enough
				emitE(text, c, map[string]any{"x": 5})
				o.Count("compile_error")
				continue
			}
			emitE(text, c, map[string]any{})
			emitE(text, c, map[string]any{"y": 5})
			for _, v := range vals {
				emitE(text, c, map[string]any{"x": v})
			}
			o.Count("single_op_" + c12OpName[op])
		}
	}
	// (2) layout variants and near-misses of the two shapes: what the recognisers compile, and the decision
	spaces := []string{"", " ", "  ", "\t", " \t ", "\n", "\r", "\f"}
	sp := func() string { return spaces[rng.Intn(len(spaces))] }
	fields := []string{"x", "y", "z", "_f1", "X9_", "nil", "true", "false", "_"}
	someRows := func() []map[string]any {
		var rows []map[string]any
		for i := 0; i < 6; i++ {
			row := map[string]any{}
			for _, f := range fields {
				if rng.Intn(4) != 0 {
					row[f] = vals[rng.Intn(len(vals))]
				}
			}
			rows = append(rows, row)
		}
		return rows
	}
	near := []string{
		"x >= 5.", "x == .5", "x => 5", "x =< 5", "x == 'a'b'", "x == 5 &&", "&& x == 5", "x == 5 &&& y == 1", "x == 5 & y == 1", "x==5&&y==1", "x==5||y==1",
		"x == 5 && y == 1 || z == 2", "(x == 5)", "x == 'a(b'", "x == 'a)b' && y == 1", "x == 'a && b'", "x == 'a' && y == 'b&&c'", "x == 'a || b' || y == 1", "x == 5\n", "\tx\t==\t5",
		"x == 5 and y == 1", "x == 5 or y == 1", "not x == 5", "x == 5 && y == 1 && z == 'q'", "x == +5", "x == 1e5", "x == 0x10", "x == 1_000", "x.y == 5", "x == y",
		"5 == x", "x == true", "x == nil", "nil == 5", "nil != 5", "nil == 'a'", "true == 5", "x in [1,2]", "x == - 5", "x == --5", "x == 5 5", "x y == 5", "x == \"a\"", "x == 'a' 'b'",
		"x == 'a' && x != 'a'", "x > 1 && x < 10", "x < 1 || x > 10", "x > 1 && x < 'a'", "x == 4 && x > 'a'", "x == 5 || x > 'a'", "x == 4 || x > 'a'", "x > 'a' || x == 5", "x > 'a' && x == 5",
		"x == 5 && nil == 1", "nil == 1 || x == 5", "x == 5 &&  && y == 1", "x == 5 || || y == 1", "x == 5 &&\n y == 1", "x == 5\t||\ty == 1", "x > 1 && y > 1 && z > 1 && _f1 > 1",
		"x == 9007199254740993 && y == 1", "x == 1 || y == 9007199254740993", "x == 'a\\\\b' && y == 1", "x == 'a\rb' || y == 1", "", " ", "x", "x ==", "== 5", "x == ''", "x<'b'", "x>=-1.5",
		"x != 5 && y != 5", "x != 'a' || y != 'a'", "x = 5 && y = 1", "x <> 5 || y <> 1", "x == 5 && (y == 1)", "x == 5 && !(y == 1)", "x == 5 ?? y", "x == 5; y == 1", "x == 5 && y == 1;",
	}
	for _, text := range near {
		o.Line("C12 T %s # %s", hx(text), c12Shape(text))
		c := c12Compile(text)
		for _, row := range someRows() {
			emitE(text, c, row)
		}
		for _, v := range []any{5, "a", nil, int64(1<<53 + 1), 1.5, "a\\b", "a\nb"} {
			emitE(text, c, map[string]any{"x": v, "y": 1, "z": "q", "nil": 1})
		}
		o.Count("near_miss_or_layout")
	}
	// (3) random single comparisons and flat chains with random layout, random rows
	nrand := 2500
	if tier == "thorough" {
		nrand = 40000
	}
	cmpText := func() string {
		f := fields[rng.Intn(4)]
		if rng.Intn(40) == 0 {
			f = fields[rng.Intn(len(fields))]
		}
		op := c12Ops[rng.Intn(6)]
		if rng.Intn(30) == 0 {
			op = c12Ops[rng.Intn(8)]
		}
		return sp() + f + sp() + op + sp() + lits[rng.Intn(len(lits))] + sp()
	}
	for i := 0; i < nrand; i++ {
		n := 1 + rng.Intn(4)
		join := "&&"
		if rng.Bool() {
			join = "||"
		}
		var sb strings.Builder
		for j := 0; j < n; j++ {
			if j > 0 {
				jj := join
				if rng.Intn(25) == 0 { // mixed logic: no fast path
					jj = "||"
				}
				sb.WriteString(jj)
			}
			sb.WriteString(cmpText())
		}
		text := sb.String()
		o.Line("C12 T %s # %s", hx(text), c12Shape(text))
		c := c12Compile(text)
		for _, row := range someRows() {
			emitE(text, c, row)
		}
		o.Count(fmt.Sprintf("random_chain_len_%d", n))
	}
	// (4) call sites through SQL: WHERE (EmitSync) and HAVING (CountingWindow(1))
	type sqlPred struct{ sql, model string }
	preds := []sqlPred{
		{"x > 5", "x > 5"}, {"x >= 5", "x >= 5"}, {"x < 5", "x < 5"}, {"x <= 5", "x <= 5"}, {"x == 5", "x == 5"}, {"x != 5", "x != 5"},
		{"x == 9007199254740993", "x == 9007199254740993"}, {"x > 9007199254740992", "x > 9007199254740992"}, {"x >= -1.5", "x >= -1.5"}, {"x < 0.5", "x < 0.5"},
		{"x == 'a'", "x == 'a'"}, {"x != 'a'", "x != 'a'"}, {"x < 'b'", "x < 'b'"}, {"x == 'a\\\\b'", "x == 'a\\\\b'"},
		{"x > 1 AND x < 10", "x > 1 && x < 10"}, {"x < 1 OR x > 4", "x < 1 || x > 4"}, {"x > 1 AND x < 'b'", "x > 1 && x < 'b'"}, {"x == 4 OR x > 'a'", "x == 4 || x > 'a'"},
		{"x >= 5 AND x <= 9007199254740993", "x >= 5 && x <= 9007199254740993"}, {"x != 5 AND x != 6 AND x != 7", "x != 5 && x != 6 && x != 7"},
	}
	for i := 0; i < 6; i++ {
		op := c12Ops[rng.Intn(6)]
		lit := lits[rng.Intn(60)]
		if strings.HasPrefix(lit, "0") && len(lit) > 1 && !strings.Contains(lit, ".") { // leading zeros are C11's subject
			lit = "7"
		}
		if len(lit) > 25 {
			lit = "2.5"
		}
		preds = append(preds, sqlPred{"x " + op + " " + lit, "x " + op + " " + lit})
	}
	sqlVals := []any{nil, 4, 5, 6, int64(1<<53 + 1), int64(1 << 53), uint64(math.MaxUint64), 1.5, -1.5, math.NaN(), "a", "b", "a\\b", "a\\\\b", true, int8(5), float32(5), uint16(7)}
	var mu sync.Mutex
	var lines []string
	var wg sync.WaitGroup
	var firstErr error
	sem := make(chan struct{}, 12)
	for _, p := range preds {
		p := p
		wg.Add(1)
		sem <- struct{}{}
		go func() {
			defer wg.Done()
			defer func() { <-sem }()
			ls, err := c12SQL(p.sql, p.model, sqlVals)
			mu.Lock()
			lines = append(lines, ls...)
			if err != nil && firstErr == nil {
				firstErr = err
			}
			mu.Unlock()
		}()
	}
	wg.Wait()
	if firstErr != nil {
		return firstErr
	}
	sort.Strings(lines)
	for _, l := range lines {
		o.Line("%s", l)
	}
	o.Count(fmt.Sprintf("sql_predicates_%d", len(preds)))
	// (4b) comparisons written literal-first, rows around the literal (harness/c12lf.go)
	if err := runC12LF(tier, seed, o); err != nil {
		return err
	}
	// (5) escaped string literals against rows holding both readings of the literal (harness/c12esc.go)
	if err := runC12Esc(tier, seed, o); err != nil {
		return err
	}
	// (6) one compiled predicate evaluated by several goroutines at once (harness/c12k.go)
	return runC12K(tier, seed, rng, o)
}

// c12SQL runs one predicate at the WHERE and HAVING call sites, bare and parenthesised.
func c12SQL(sqlPred, model string, vals []any) ([]string, error) {
	var out []string
	sentinelPred := model
	rowOf := func(i int, v any, present bool) map[string]any {
		m := map[string]any{"id": i}
		if present {
			m["x"] = v
		}
		return m
	}
	type in struct {
		v       any
		present bool
	}
	ins := []in{{nil, false}}
	for _, v := range vals {
		ins = append(ins, in{v, true})
	}
	where := func(pred string) ([]string, error) {
		s := streamsql.New(streamsql.WithDiscardLog())
		defer s.Stop()
		if err := s.Execute("SELECT id FROM stream WHERE " + pred); err != nil {
			r := make([]string, len(ins))
			for i := range r {
				r[i] = "E"
			}
			return r, nil
		}
		var r []string
		for i, x := range ins {
			res, err := s.EmitSync(rowOf(i, x.v, x.present))
			v := "0"
			if err != nil {
				v = "e"
			} else if res != nil && len(res) > 0 {
				v = "1"
			}
			r = append(r, v)
		}
		return r, nil
	}
	having := func(pred string) ([]string, error) {
		s := streamsql.New(streamsql.WithDiscardLog())
		defer s.Stop()
		if err := s.Execute("SELECT last_value(x) AS x, last_value(id) AS lid FROM stream GROUP BY CountingWindow(1) HAVING " + pred); err != nil {
			r := make([]string, len(ins))
			for i := range r {
				r[i] = "E"
			}
			return r, nil
		}
		var mu sync.Mutex
		seen := map[int]bool{}
		s.AddSyncSink(func(rs []map[string]any) {
			mu.Lock()
			for _, r := range rs {
				seen[toInt(r["lid"])] = true
			}
			mu.Unlock()
		})
		for i, x := range ins {
			s.Emit(rowOf(i, x.v, x.present))
		}
		// a final row that the predicate accepts (when the pool has one) marks the end of the FIFO:
		// wait for it first, so that a loaded machine does not cut the observation short
		if c, err := condition.NewExprCondition("(" + sentinelPred + ")"); err == nil {
			for _, v := range vals {
				if c.Evaluate(map[string]any{"x": v}) {
					s.Emit(rowOf(len(ins), v, true))
					for k := 0; k < 500; k++ {
						mu.Lock()
						done := seen[len(ins)]
						mu.Unlock()
						if done {
							break
						}
						time.Sleep(10 * time.Millisecond)
					}
					break
				}
			}
		}
		waitQuiet(func() int { mu.Lock(); defer mu.Unlock(); return len(seen) })
		var r []string
		mu.Lock()
		for i := range ins {
			r = append(r, b01(seen[i]))
		}
		mu.Unlock()
		return r, nil
	}
	for _, site := range []string{"where", "having"} {
		f := where
		if site == "having" {
			f = having
		}
		a, err := f(sqlPred)
		if err != nil {
			return nil, err
		}
		b, err := f("(" + sqlPred + ")")
		if err != nil {
			return nil, err
		}
		for i, x := range ins {
			row := map[string]any{}
			if x.present {
				row["x"] = x.v
			}
			out = append(out, fmt.Sprintf("C12 Q %s %s%s # %s %s", site, hx(model), c12Row(row), a[i], b[i]))
		}
	}
	return out, nil
}
