package main

// C11 -- SQL parser: total, layout-insensitive, faithful.
// Line kinds written for the OCaml driver (extracted Coq lexer model, reference parser, checkers):
//   C11 E <TokenType constants in a fixed name order>
//   C11 L <hex input> <eof pos | -1> <n> {<type> <hex value> <pos>}*        real Lexer.NextToken stream
//   C11 P <hex sql> # <expected skeleton> # <projection of types.Config | ERR hexmsg> # <A|G + hex name of the registered
//         analytic / aggregate functions occurring in the text, or ->   (only labels a recorded finding, see ocaml/c11.ml)
//   C11 D <hex sql> <hex sql, literal contents neutral> <outcome 1> <outcome 2> <hex error 1|-> <shape 1> <shape 2> # <names as in P>
//   C11 R <hex sql layout 1> <hex sql layout 2> <results equal 0/1> <number of result rows> <detail>
//   C11 T <hex input> <ok|err|panic|timeout>                               rsql.Parse under recover + 2 s limit
//   C11 F ...                                                              see c11_prefix.go
import (
	"encoding/hex"
	"fmt"
	"reflect"
	"sort"
	"strconv"
	"strings"
	"sync"
	"time"

	"github.com/rulego/streamsql"
	"github.com/rulego/streamsql/logger"
	"github.com/rulego/streamsql/rsql"
	"github.com/rulego/streamsql/types"
)

func init() { runners["C11"] = runC11 }

// ---------------------------------------------------------------- statements as lexeme lists
type lx struct {
	s  string
	kw bool // keyword or keyword-like word whose case is irrelevant
}

func K(s string) lx { return lx{s, true} }
func V(s string) lx { return lx{s, false} }

type gItem struct {
	expr  []lx
	alias string
}
type gJoin struct {
	left         bool
	table, alias string
	on           [][2]string
}
type gKey struct {
	col  string
	desc bool
	asc  bool // written explicitly
}
type gOpt struct {
	code int
	name string
	lit  string // literal as written, with quotes
	enc  string // canonical value
}
type gStmt struct {
	distinct   bool
	items      []gItem
	src, alias string
	bareAlias  bool
	joins      []gJoin
	where      []lx
	group      []string
	winKind    string // "", T S C E
	winName    string
	winParams  []string // literals as written
	winEnc     []string
	winPos     int // position of the window among the group items
	having     []lx
	with       []gOpt
	order      []gKey
	limit      int
	runnable   bool
}

func lxText(l []lx) string {
	p := make([]string, len(l))
	for i, x := range l {
		p[i] = x.s
	}
	return strings.Join(p, " ")
}

func (g *gStmt) lexemes() []lx {
	var o []lx
	o = append(o, K("SELECT"))
	if g.distinct {
		o = append(o, K("DISTINCT"))
	}
	for i, it := range g.items {
		if i > 0 {
			o = append(o, V(","))
		}
		o = append(o, it.expr...)
		if it.alias != "" {
			o = append(o, K("AS"), V(it.alias))
		}
	}
	o = append(o, K("FROM"), V(g.src))
	if g.alias != "" {
		if !g.bareAlias {
			o = append(o, K("AS"))
		}
		o = append(o, V(g.alias))
	}
	for _, j := range g.joins {
		if j.left {
			o = append(o, K("LEFT"))
		}
		o = append(o, K("JOIN"), V(j.table))
		if j.alias != "" {
			o = append(o, K("AS"), V(j.alias))
		}
		o = append(o, K("ON"))
		for i, p := range j.on {
			if i > 0 {
				o = append(o, K("AND"))
			}
			o = append(o, V(p[0]), V("="), V(p[1]))
		}
	}
	if len(g.where) > 0 {
		o = append(o, K("WHERE"))
		o = append(o, g.where...)
	}
	if len(g.group) > 0 || g.winKind != "" {
		o = append(o, K("GROUP"), K("BY"))
		n := 0
		emitWin := func() {
			if n > 0 {
				o = append(o, V(","))
			}
			n++
			o = append(o, K(g.winName), V("("))
			for i, p := range g.winParams {
				if i > 0 {
					o = append(o, V(","))
				}
				o = append(o, V(p))
			}
			o = append(o, V(")"))
		}
		for i, c := range g.group {
			if g.winKind != "" && g.winPos == i {
				emitWin()
			}
			if n > 0 {
				o = append(o, V(","))
			}
			n++
			o = append(o, V(c))
		}
		if g.winKind != "" && g.winPos >= len(g.group) {
			emitWin()
		}
	}
	if len(g.having) > 0 {
		o = append(o, K("HAVING"))
		o = append(o, g.having...)
	}
	if len(g.with) > 0 {
		o = append(o, K("WITH"), V("("))
		for i, w := range g.with {
			if i > 0 {
				o = append(o, V(","))
			}
			o = append(o, K(w.name), V("="), V(w.lit))
		}
		o = append(o, V(")"))
	}
	if len(g.order) > 0 {
		o = append(o, K("ORDER"), K("BY"))
		for i, k := range g.order {
			if i > 0 {
				o = append(o, V(","))
			}
			o = append(o, V(k.col))
			if k.desc {
				o = append(o, K("DESC"))
			} else if k.asc {
				o = append(o, K("ASC"))
			}
		}
	}
	if g.limit > 0 {
		o = append(o, K("LIMIT"), V(strconv.Itoa(g.limit)))
	}
	return o
}

func hxo(s string) string { // optional string: "-" = absent
	if s == "" {
		return "-"
	}
	return hex.EncodeToString([]byte(s))
}

// expected skeleton of the written statement
func (g *gStmt) encode() string {
	var f []string
	f = append(f, "D="+b01(g.distinct))
	for _, it := range g.items {
		f = append(f, "I="+hxo(lxText(it.expr))+","+hxo(it.alias))
	}
	f = append(f, "S="+hxo(g.src)+","+hxo(g.alias))
	for _, j := range g.joins {
		t := "I"
		if j.left {
			t = "L"
		}
		var ps []string
		al := j.alias
		if al == "" {
			al = j.table
		}
		strip := func(x string) string {
			if i := strings.IndexByte(x, '.'); i >= 0 && (x[:i] == g.alias || x[:i] == al) {
				return x[i+1:]
			}
			return x
		}
		for _, p := range j.on {
			ps = append(ps, hxo(strip(p[0]))+"="+hxo(strip(p[1])))
		}
		f = append(f, "J="+t+","+hxo(j.table)+","+hxo(al)+","+strings.Join(ps, ";"))
	}
	f = append(f, "W="+hxo(lxText(g.where)))
	for _, c := range g.group {
		f = append(f, "G="+hxo(c))
	}
	if g.winKind != "" {
		f = append(f, "N="+g.winKind+","+strings.Join(g.winEnc, ";"))
	}
	f = append(f, "H="+hxo(lxText(g.having)))
	ws := append([]gOpt(nil), g.with...)
	sort.Slice(ws, func(i, j int) bool { return ws[i].code < ws[j].code })
	for _, w := range ws {
		f = append(f, fmt.Sprintf("O=%d,%s", w.code, w.enc))
	}
	for _, k := range g.order {
		d := "A"
		if k.desc {
			d = "D"
		}
		f = append(f, "K="+hxo(k.col)+","+d)
	}
	if g.limit > 0 {
		f = append(f, "L="+strconv.Itoa(g.limit))
	}
	return strings.Join(f, " ")
}

// ---------------------------------------------------------------- projection of types.Config
func durEnc(d time.Duration) string { return "d" + strconv.FormatInt(int64(d), 10) }

func projectConfig(cfg *types.Config, cond string) string {
	var f []string
	f = append(f, "D="+b01(cfg.Distinct))
	rev := map[string]string{}
	for e, a := range cfg.SelectAlias {
		rev[a] = e
	}
	for _, name := range cfg.FieldOrder {
		if e, ok := rev[name]; ok {
			f = append(f, "I="+hxo(e)+","+hxo(name))
		} else {
			f = append(f, "I="+hxo(name)+",-")
		}
	}
	f = append(f, "S=-,"+hxo(cfg.SourceAlias)) // the source name itself is not kept in types.Config
	for _, j := range cfg.JoinConfigs {
		t := "I"
		if j.JoinType == "LEFT" {
			t = "L"
		} else if j.JoinType != "INNER" {
			t = "X" + hxo(j.JoinType)
		}
		var ps []string
		for _, p := range j.OnPairs {
			ps = append(ps, hxo(p.StreamField)+"="+hxo(p.TableField))
		}
		f = append(f, "J="+t+","+hxo(j.Table)+","+hxo(j.Alias)+","+strings.Join(ps, ";"))
	}
	f = append(f, "W="+hxo(cond))
	for _, c := range cfg.GroupFields {
		f = append(f, "G="+hxo(c))
	}
	if cfg.NeedWindow {
		k := map[string]string{"tumbling": "T", "sliding": "S", "counting": "C", "session": "E", "global": "G"}[cfg.WindowConfig.Type]
		var ps []string
		for _, p := range cfg.WindowConfig.Params {
			switch v := p.(type) {
			case time.Duration:
				ps = append(ps, durEnc(v))
			case int:
				ps = append(ps, "i"+strconv.Itoa(v))
			case int64:
				ps = append(ps, "i"+strconv.FormatInt(v, 10))
			case string:
				ps = append(ps, "s"+hxo(v))
			default:
				ps = append(ps, fmt.Sprintf("x%T", p))
			}
		}
		f = append(f, "N="+k+","+strings.Join(ps, ";"))
	}
	f = append(f, "H="+hxo(cfg.Having))
	wc := cfg.WindowConfig
	if wc.TsProp != "" {
		f = append(f, "O=34,"+hxo(wc.TsProp))
	}
	if wc.TimeUnit != 0 {
		f = append(f, "O=35,"+durEnc(wc.TimeUnit))
	}
	if wc.MaxOutOfOrderness != 0 {
		f = append(f, "O=36,"+durEnc(wc.MaxOutOfOrderness))
	}
	if wc.AllowedLateness != 0 {
		f = append(f, "O=37,"+durEnc(wc.AllowedLateness))
	}
	if wc.IdleTimeout != 0 {
		f = append(f, "O=38,"+durEnc(wc.IdleTimeout))
	}
	if wc.CountStateTTL != 0 {
		f = append(f, "O=39,"+durEnc(wc.CountStateTTL))
	}
	for _, k := range cfg.OrderBy {
		d := "A"
		if k.Direction == types.SortDesc {
			d = "D"
		}
		f = append(f, "K="+hxo(k.Expression)+","+d)
	}
	if cfg.Limit > 0 {
		f = append(f, "L="+strconv.Itoa(cfg.Limit))
	}
	return strings.Join(f, " ")
}

// ---------------------------------------------------------------- layouts and keyword casings
func isIdentCh(c byte) bool {
	return c >= 'a' && c <= 'z' || c >= 'A' && c <= 'Z' || c == '_' || c >= '0' && c <= '9' || c == '.'
}

// needSep: would the two lexemes be read differently when written without whitespace between them?
func needSep(a, b string) bool {
	if a == "" || b == "" {
		return false
	}
	la, fb := a[len(a)-1], b[0]
	if a[0] == '\'' || a[0] == '"' || a[0] == '`' {
		return false
	}
	if isIdentCh(la) && isIdentCh(fb) {
		return true
	}
	if (a == "=" || a == "<" || a == ">" || a == "!") && fb == '=' {
		return true
	}
	if a == "-" && fb >= '0' && fb <= '9' {
		return true
	}
	return false
}

func recase(rng *RNG, s string, mode int) string {
	switch mode {
	case 0:
		return strings.ToUpper(s)
	case 1:
		return strings.ToLower(s)
	case 2:
		return strings.ToUpper(s[:1]) + strings.ToLower(s[1:])
	default:
		b := []byte(s)
		for i := range b {
			if rng.Bool() {
				b[i] = strings.ToLower(string(b[i]))[0]
			} else {
				b[i] = strings.ToUpper(string(b[i]))[0]
			}
		}
		return string(b)
	}
}

var wsPool = []string{" ", "  ", "\t", "\n", "\r\n", " \n\t ", "\n\n", "   \t", "\n    "}

// render writes the lexemes under a layout style and a keyword casing mode.
// style 0: single spaces; 1: minimal (no whitespace where two lexemes cannot merge); 2: one clause per
// line, indented; 3: random whitespace strings, also where none is needed; 4: like 3 with leading and
// trailing whitespace; 5: every gap a line break.
func render(rng *RNG, ls []lx, style, casing int) string {
	var sb strings.Builder
	if style == 4 {
		sb.WriteString(rng.Pick(wsPool))
	}
	clause := map[string]bool{"FROM": true, "WHERE": true, "GROUP": true, "HAVING": true, "WITH": true, "ORDER": true, "LIMIT": true, "JOIN": true, "LEFT": true}
	prev := ""
	for i, l := range ls {
		s := l.s
		if l.kw {
			s = recase(rng, s, casing)
		}
		if i > 0 {
			gap := ""
			need := needSep(prev, s)
			switch style {
			case 0:
				gap = " "
			case 1:
				if need {
					gap = " "
				}
			case 2:
				if l.kw && clause[strings.ToUpper(l.s)] && !(strings.ToUpper(l.s) == "JOIN" && strings.ToUpper(ls[i-1].s) == "LEFT") {
					gap = "\n  "
				} else if need || (l.s != "," && l.s != ")" && prev != "(") {
					gap = " "
				}
			case 5:
				gap = "\n"
			default:
				if need || rng.Intn(3) > 0 {
					gap = rng.Pick(wsPool)
				}
			}
			sb.WriteString(gap)
		}
		sb.WriteString(s)
		prev = s
	}
	if style == 4 {
		sb.WriteString(rng.Pick(wsPool))
	}
	return sb.String()
}

// ---------------------------------------------------------------- statement generator
var identPool = []string{"a", "b", "temp", "deviceId", "order_id", "limit_value", "from_x", "whereabouts",
	"grouping", "selected", "x1", "_y", "having_fun", "by_pass", "t.limit", "m.order", "user.group", "within", "ordering", "dist"}
var strPool = []string{"'LIMIT 5'", "'ORDER BY x'", "\"WHERE\"", "'FROM t'", "' GROUP BY '", "\"it's\"", "'say \"hi\"'",
	"'x%'", "'a,b'", "'(('", "'SELECT'", "'limit'", "''", "'having c > 1'", "'with (x)'", "'a = b AS c'", "'temp (C)'", "'f(x)'", "\"n(a,b)\"", "'count(*)'", "'x) FROM t WHERE (y'"}
var qidPool = []string{"`order`", "`limit`", "`from`", "`where`", "`group by`", "`select`", "`a b`", "`f(x)`"}
var rowFields = []string{"a", "b", "temp", "x1", "order_id", "limit_value"}

func genOperand(rng *RNG, numeric bool) []lx {
	switch rng.Intn(10) {
	case 0, 1:
		return []lx{V(strconv.Itoa(rng.Intn(50)))}
	case 2:
		return []lx{V(fmt.Sprintf("%d.5", rng.Intn(9)))}
	case 3:
		if !numeric {
			return []lx{V(pickQid(rng))}
		}
	case 4:
		return []lx{V(fmt.Sprintf("-%d", 1+rng.Intn(9)))}
	}
	return []lx{V(rng.Pick(identPool))}
}

func genCond(rng *RNG, idents []string, depth int) []lx {
	pick := func() string {
		if idents != nil {
			return rng.Pick(idents)
		}
		return rng.Pick(identPool)
	}
	var atom func() []lx
	atom = func() []lx {
		switch rng.Intn(9) {
		case 0:
			return []lx{V(pick()), K("LIKE"), V(pickStr(rng))}
		case 1:
			return []lx{V(pick()), K("IS"), K("NULL")}
		case 2:
			return []lx{V(pick()), K("IS"), K("NOT"), K("NULL")}
		case 3:
			return []lx{V(pick()), V(rng.Pick([]string{"=", "!=", "=="})), V(pickStr(rng))}
		case 4:
			if idents == nil {
				return []lx{V(pickQid(rng)), V(rng.Pick([]string{"=", ">", "<"})), V(strconv.Itoa(rng.Intn(20)))}
			}
		}
		l := []lx{V(pick()), V(rng.Pick([]string{"=", ">", "<", ">=", "<=", "!=", "=="}))}
		if rng.Intn(4) == 0 {
			l = append(l, V(pick()), V(rng.Pick([]string{"+", "-", "*"})), V(strconv.Itoa(1+rng.Intn(9))))
		} else {
			l = append(l, V(strconv.Itoa(rng.Intn(60)-5)))
		}
		return l
	}
	out := atom()
	n := rng.Intn(3)
	for i := 0; i < n; i++ {
		op := K(rng.Pick([]string{"AND", "OR"}))
		nx := atom()
		if depth > 0 && rng.Intn(3) == 0 {
			nx = append(append([]lx{V("(")}, genCond(rng, idents, depth-1)...), V(")"))
		}
		out = append(append(out, op), nx...)
	}
	if rng.Intn(6) == 0 {
		out = append(append([]lx{V("(")}, out...), V(")"))
	}
	return out
}

func genStmt(rng *RNG) *gStmt {
	g := &gStmt{src: rng.Pick([]string{"stream", "s1", "orders", "from_stream", "limits"})}
	aliasN := 0
	newAlias := func() string { aliasN++; return fmt.Sprintf("%s%d", rng.Pick([]string{"al", "order_", "lim", "c"}), aliasN) }
	used := map[string]bool{}
	uniq := func(f func() string) string {
		for i := 0; i < 50; i++ {
			s := f()
			if !used[s] {
				used[s] = true
				return s
			}
		}
		aliasN++
		s := fmt.Sprintf("u%d", aliasN)
		used[s] = true
		return s
	}
	if rng.Intn(3) == 0 { // aggregate family
		ng := rng.Intn(3)
		for i := 0; i < ng; i++ {
			c := uniq(func() string { return rng.Pick(identPool) })
			g.group = append(g.group, c)
			if rng.Intn(3) > 0 {
				it := gItem{expr: []lx{V(c)}}
				g.items = append(g.items, it)
			}
		}
		na := 1 + rng.Intn(3)
		var aliases []string
		for i := 0; i < na; i++ {
			fn := rng.Pick([]string{"avg", "sum", "count", "min", "max", "AVG", "Count"})
			arg := rng.Pick([]string{"temp", "a", "x1", "limit_value", "order_id"})
			e := []lx{V(fn), V("("), V(arg), V(")")}
			if strings.ToLower(fn) == "count" && rng.Bool() {
				e = []lx{V(fn), V("("), V("*"), V(")")}
			}
			al := newAlias()
			aliases = append(aliases, al)
			g.items = append(g.items, gItem{expr: e, alias: al})
		}
		switch rng.Intn(4) {
		case 0:
			n := 1 + rng.Intn(9)
			g.winKind, g.winName = "T", "TumblingWindow"
			g.winParams, g.winEnc = []string{fmt.Sprintf("'%ds'", n)}, []string{durEnc(time.Duration(n) * time.Second)}
		case 1:
			n, m := 2+rng.Intn(9), 1+rng.Intn(2)
			g.winKind, g.winName = "S", "SlidingWindow"
			g.winParams = []string{fmt.Sprintf("'%ds'", n), fmt.Sprintf("'%ds'", m)}
			g.winEnc = []string{durEnc(time.Duration(n) * time.Second), durEnc(time.Duration(m) * time.Second)}
		case 2:
			n := 1 + rng.Intn(5)
			g.winKind, g.winName = "C", "CountingWindow"
			g.winParams, g.winEnc = []string{strconv.Itoa(n)}, []string{"i" + strconv.Itoa(n)}
		default:
			n := 1 + rng.Intn(9)
			g.winKind, g.winName = "E", "SessionWindow"
			g.winParams, g.winEnc = []string{fmt.Sprintf("'%dm'", n)}, []string{durEnc(time.Duration(n) * time.Minute)}
		}
		g.winPos = rng.Intn(len(g.group) + 1)
		if rng.Intn(3) > 0 {
			g.winPos = len(g.group)
		}
		if rng.Intn(2) == 0 {
			g.having = genCond(rng, aliases, 0)
		}
		if g.winKind != "C" && rng.Intn(2) == 0 {
			opts := []gOpt{
				{34, "TIMESTAMP", "'" + rng.Pick([]string{"ts", "order_ts", "limit"}) + "'", ""},
				{35, "TIMEUNIT", "'" + rng.Pick([]string{"ss", "ms", "mi"}) + "'", ""},
				{36, "MAXOUTOFORDERNESS", fmt.Sprintf("'%ds'", 1+rng.Intn(5)), ""},
				{37, "ALLOWEDLATENESS", fmt.Sprintf("'%dms'", 100*(1+rng.Intn(5))), ""},
				{38, "IDLETIMEOUT", fmt.Sprintf("'%ds'", 5+rng.Intn(5)), ""},
			}
			for i := range opts {
				v := strings.Trim(opts[i].lit, "'")
				switch opts[i].code {
				case 34:
					opts[i].enc = hxo(v)
				case 35:
					opts[i].enc = durEnc(map[string]time.Duration{"ss": time.Second, "ms": time.Millisecond, "mi": time.Minute}[v])
				default:
					d, _ := time.ParseDuration(v)
					opts[i].enc = durEnc(d)
				}
			}
			g.with = append(g.with, opts[0])
			for _, o := range opts[1:] {
				if rng.Intn(3) == 0 {
					g.with = append(g.with, o)
				}
			}
			if rng.Bool() { // written order is free
				for i := len(g.with) - 1; i > 0; i-- {
					j := rng.Intn(i + 1)
					g.with[i], g.with[j] = g.with[j], g.with[i]
				}
			}
		}
		if rng.Intn(3) == 0 {
			g.order = append(g.order, gKey{col: rng.Pick(aliases), desc: rng.Bool(), asc: rng.Intn(4) == 0})
		}
	} else { // row-by-row family
		g.runnable = true
		g.distinct = rng.Intn(5) == 0
		if rng.Intn(12) == 0 {
			g.items = []gItem{{expr: []lx{V("*")}}}
		} else {
			ni := 1 + rng.Intn(4)
			for i := 0; i < ni; i++ {
				var it gItem
				switch rng.Intn(9) {
				case 0:
					it = gItem{expr: []lx{V(pickStr(rng))}, alias: newAlias()}
				case 1:
					it = gItem{expr: []lx{V(rng.Pick([]string{"upper", "lower"})), V("("), V(rng.Pick(identPool)), V(")")}, alias: newAlias()}
				case 2:
					it = gItem{expr: append(append(genOperand(rng, true), V(rng.Pick([]string{"+", "-", "*", "/"}))), genOperand(rng, true)...), alias: newAlias()}
				case 3:
					it = gItem{expr: []lx{K("CASE"), K("WHEN"), V(rng.Pick(rowFields)), V(">"), V(strconv.Itoa(rng.Intn(30))), K("THEN"), V(pickStr(rng)), K("ELSE"), V(pickStr(rng)), K("END")}, alias: newAlias()}
				case 4:
					it = gItem{expr: []lx{V("concat"), V("("), V(rng.Pick(identPool)), V(","), V(pickStr(rng)), V(")")}, alias: newAlias()}
				case 5:
					it = gItem{expr: []lx{V(pickQid(rng))}, alias: newAlias()}
					g.runnable = false
				default:
					c := uniq(func() string { return rng.Pick(identPool) })
					it = gItem{expr: []lx{V(c)}}
					if rng.Intn(3) == 0 {
						it.alias = newAlias()
					}
				}
				g.items = append(g.items, it)
			}
		}
		if rng.Intn(5) == 0 {
			g.alias = rng.Pick([]string{"s", "src", "o"})
			g.bareAlias = rng.Bool()
			g.runnable = false
		}
		if rng.Intn(6) == 0 {
			nj := 1 + rng.Intn(2)
			for i := 0; i < nj; i++ {
				j := gJoin{left: rng.Bool(), table: rng.Pick([]string{"meta", "devices", "order_table"}) + strconv.Itoa(i)}
				if rng.Bool() {
					j.alias = fmt.Sprintf("m%d", i)
				}
				np := 1 + rng.Intn(2)
				for k := 0; k < np; k++ {
					l, r := rng.Pick([]string{"id", "deviceId", "order_id"}), rng.Pick([]string{"id", "dev", "limit_id"})
					if g.alias != "" && rng.Bool() {
						l = g.alias + "." + l
					}
					if rng.Bool() {
						q := j.alias
						if q == "" {
							q = j.table
						}
						r = q + "." + r
					}
					j.on = append(j.on, [2]string{l, r})
				}
				g.joins = append(g.joins, j)
			}
			g.runnable = false
		}
		if rng.Intn(3) > 0 {
			if g.runnable {
				g.where = genCond(rng, rowFields, 1)
			} else {
				g.where = genCond(rng, nil, 1)
			}
		}
		if rng.Intn(5) == 0 {
			nk := 1 + rng.Intn(2)
			for i := 0; i < nk; i++ {
				g.order = append(g.order, gKey{col: rng.Pick(identPool), desc: rng.Bool(), asc: rng.Intn(4) == 0})
			}
		}
	}
	if rng.Intn(3) == 0 {
		g.limit = 1 + rng.Intn(20)
	}
	// types.Config keys aliases by expression text (SelectAlias): keep expression texts distinct
	seen := map[string]bool{}
	var items []gItem
	for _, it := range g.items {
		if t := lxText(it.expr); !seen[t] {
			seen[t] = true
			items = append(items, it)
		}
	}
	g.items = items
	return g
}

// ---------------------------------------------------------------- running a statement
func parseGuard(sql string, limit time.Duration) (outcome string, cfg *types.Config, cond string, err error) {
	type res struct {
		cfg  *types.Config
		cond string
		err  error
		pan  any
	}
	ch := make(chan res, 1)
	go func() {
		var r res
		defer func() {
			if p := recover(); p != nil {
				r.pan = p
			}
			ch <- r
		}()
		r.cfg, r.cond, r.err = rsql.Parse(sql)
	}()
	select {
	case r := <-ch:
		if r.pan != nil {
			return "panic", nil, "", fmt.Errorf("%v", r.pan)
		}
		if r.err != nil {
			return "err", nil, "", r.err
		}
		return "ok", r.cfg, r.cond, nil
	case <-time.After(limit):
		return "timeout", nil, "", nil
	}
}

func c11Rows(rng *RNG, n int) []map[string]any {
	rows := make([]map[string]any, n)
	strs := []string{"x1", "xy", "LIMIT 5", "WHERE", "it's", "", "a,b"}
	for i := range rows {
		r := map[string]any{}
		for _, f := range rowFields {
			switch rng.Intn(5) {
			case 0:
				r[f] = rng.Pick(strs)
			case 1: // absent
			default:
				r[f] = float64(rng.Intn(40))
			}
		}
		rows[i] = r
	}
	return rows
}

// runRows executes a row-by-row statement and returns a canonical rendering of every result.
func runRows(sql string, rows []map[string]any) (out []string, err error) {
	defer func() {
		if p := recover(); p != nil {
			err = fmt.Errorf("panic: %v", p)
		}
	}()
	s := streamsql.New(streamsql.WithDiscardLog())
	defer s.Stop()
	if e := s.Execute(sql); e != nil {
		return nil, fmt.Errorf("execute: %v", e)
	}
	for _, r := range rows {
		cp := map[string]any{}
		for k, v := range r {
			cp[k] = v
		}
		res, e := s.EmitSync(cp)
		switch {
		case e != nil:
			out = append(out, "E")
		case res == nil:
			out = append(out, "-")
		default:
			ks := make([]string, 0, len(res))
			for k := range res {
				ks = append(ks, k)
			}
			sort.Strings(ks)
			var sb strings.Builder
			for _, k := range ks {
				fmt.Fprintf(&sb, "%s=%v;", k, res[k])
			}
			out = append(out, sb.String())
		}
	}
	return out, nil
}

// runCounting executes an aggregate statement over CountingWindow and returns the sorted results.
func runCounting(sql string, rows []map[string]any) (out []string, err error) {
	defer func() {
		if p := recover(); p != nil {
			err = fmt.Errorf("panic: %v", p)
		}
	}()
	s := streamsql.New(streamsql.WithDiscardLog())
	defer s.Stop()
	if e := s.Execute(sql); e != nil {
		return nil, fmt.Errorf("execute: %v", e)
	}
	var mu sync.Mutex
	s.AddSyncSink(func(rs []map[string]any) {
		mu.Lock()
		defer mu.Unlock()
		for _, r := range rs {
			ks := make([]string, 0, len(r))
			for k := range r {
				ks = append(ks, k)
			}
			sort.Strings(ks)
			var sb strings.Builder
			for _, k := range ks {
				if strings.HasPrefix(k, "window_") {
					continue // window_id / window_start / window_end carry wall-clock times
				}
				fmt.Fprintf(&sb, "%s=%v;", k, r[k])
			}
			out = append(out, sb.String())
		}
	})
	for _, r := range rows {
		cp := map[string]any{}
		for k, v := range r {
			cp[k] = v
		}
		s.Emit(cp)
	}
	waitQuiet(func() int { mu.Lock(); defer mu.Unlock(); return len(out) })
	mu.Lock()
	defer mu.Unlock()
	res := append([]string(nil), out...)
	sort.Strings(res)
	return res, nil
}

// ---------------------------------------------------------------- lexer lines
func lexLine(o *Out, in string) {
	toks, eof, reached := rsql.VerifLexTokens(in, 4*len(in)+16)
	var sb strings.Builder
	if !reached {
		eof = -1
	}
	fmt.Fprintf(&sb, "C11 L %s %d %d", hx(in), eof, len(toks))
	for _, t := range toks {
		fmt.Fprintf(&sb, " %d %s %d", t.Type, hx(t.Value), t.Pos)
	}
	o.Line("%s", sb.String())
}

var lexemePool = []string{"SELECT", "select", "From", "WHERE", "group", "BY", "as", "Or", "AND", "TumblingWindow", "slidingwindow",
	"COUNTINGWINDOW", "SessionWindow", "GLOBAL", "window", "TRIGGER", "with", "timestamp", "TIMEUNIT", "MaxOutOfOrderness",
	"allowedlateness", "IDLETIMEOUT", "statettl", "order", "DISTINCT", "limit", "having", "like", "IS", "null", "NOT", "case",
	"WHEN", "then", "ELSE", "end", "over", "PARTITION", "selec", "limits", "a", "b1", "_x", "a.b", "t.limit", "x.", "join", "ON",
	"0", "12", "3.14", "1.2.3", "7.", "-5", "-", "--3", "-.5", ".", "..", ",", "(", ")", "[", "]", "+", "*", "/", "=", "==", "===", "!=", "!", "!!=",
	">", ">=", "<", "<=", "<>", "=>", "?", "|", "{", "}", "'abc'", "'LIMIT 1'", "\"ORDER BY\"", "`from`", "''", "\"\"", "``", "'it", "\"open", "`open",
	"'a\"b'", "\"a'b\"", "#", "@", "$", ";", "&&", "%", "\\", "~", "^", ":", "\x00", "\x01", "\x7f", "\x80", "\xc3\xa9", "\xff", "\v", "\f"}

func genLexInput(rng *RNG) string {
	var sb strings.Builder
	n := rng.Intn(14)
	for i := 0; i < n; i++ {
		switch rng.Intn(4) {
		case 0:
			sb.WriteString(rng.Pick(wsPool))
		case 1:
		default:
			sb.WriteString(" ")
		}
		sb.WriteString(rng.Pick(lexemePool))
	}
	if rng.Bool() {
		sb.WriteString(rng.Pick(wsPool))
	}
	return sb.String()
}

func mutate(rng *RNG, s string) string {
	b := []byte(s)
	k := 1 + rng.Intn(3)
	for i := 0; i < k; i++ {
		if len(b) == 0 {
			b = append(b, byte(rng.Intn(256)))
			continue
		}
		p := rng.Intn(len(b))
		switch rng.Intn(7) {
		case 0:
			b[p] = byte(rng.Intn(256))
		case 1:
			b = append(b[:p], b[p+1:]...)
		case 2:
			const ins = "'\"`(),=<>!-.* \n\t\x00;"
			c := ins[rng.Intn(len(ins))]
			b = append(b[:p], append([]byte{c}, b[p:]...)...)
		case 3:
			b = b[:p] // truncation
		case 4:
			q := rng.Intn(len(b))
			b[p], b[q] = b[q], b[p]
		case 5:
			w := rng.Pick(lexemePool)
			b = append(b[:p], append([]byte(" "+w+" "), b[p:]...)...)
		default:
			q := p + rng.Intn(len(b)-p)
			b = append(b[:p], append(append([]byte{}, b[p:q]...), b[p:]...)...) // duplicate a slice
		}
	}
	return string(b)
}

var enumNames = []rsql.TokenType{rsql.TokenEOF, rsql.TokenIdent, rsql.TokenNumber, rsql.TokenString, rsql.TokenQuotedIdent,
	rsql.TokenComma, rsql.TokenLParen, rsql.TokenRParen, rsql.TokenPlus, rsql.TokenMinus, rsql.TokenAsterisk, rsql.TokenSlash,
	rsql.TokenEQ, rsql.TokenNE, rsql.TokenGT, rsql.TokenLT, rsql.TokenGE, rsql.TokenLE, rsql.TokenAND, rsql.TokenOR,
	rsql.TokenSELECT, rsql.TokenFROM, rsql.TokenWHERE, rsql.TokenGROUP, rsql.TokenBY, rsql.TokenAS, rsql.TokenTumbling,
	rsql.TokenSliding, rsql.TokenCounting, rsql.TokenSession, rsql.TokenGlobal, rsql.TokenWindow, rsql.TokenTrigger,
	rsql.TokenWITH, rsql.TokenTimestamp, rsql.TokenTimeUnit, rsql.TokenMaxOutOfOrderness, rsql.TokenAllowedLateness,
	rsql.TokenIdleTimeout, rsql.TokenStateTTL, rsql.TokenOrder, rsql.TokenDISTINCT, rsql.TokenLIMIT, rsql.TokenHAVING,
	rsql.TokenLIKE, rsql.TokenIS, rsql.TokenNULL, rsql.TokenNOT, rsql.TokenCASE, rsql.TokenWHEN, rsql.TokenTHEN,
	rsql.TokenELSE, rsql.TokenEND, rsql.TokenLBracket, rsql.TokenRBracket, rsql.TokenOVER, rsql.TokenPARTITION,
	rsql.TokenDot, rsql.TokenQuestion, rsql.TokenPipe, rsql.TokenLBrace, rsql.TokenRBrace}

// ---------------------------------------------------------------- the run
func runC11(tier string, seed uint64, o *Out) error {
	rng := NewRNG(seed)
	rng.s = rng.Next() ^ 0xC11C11C11C11 // consecutive seeds of the shared splitmix state are shifted copies of one stream: re-key
	logger.SetDefault(logger.NewDiscardLogger())
	nStmt, nLex, nMal, nRun := 450, 4000, 2500, 60
	if tier == "thorough" {
		nStmt, nLex, nMal, nRun = 6000, 60000, 40000, 500
	}
	// (0) the TokenType constants
	{
		var sb strings.Builder
		sb.WriteString("C11 E")
		for _, t := range enumNames {
			fmt.Fprintf(&sb, " %d", int(t))
		}
		o.Line("%s", sb.String())
	}
	// corpus: boundary inputs for the lexer
	for _, s := range []string{"", " ", "\n", "a", "a ", " a", "a.b.c", "1.2.3", "-1", "- 1", "a-1", "a - 1", "a -1", "!", "!=", "! =", "= =", "==", "===",
		"'", "''", "'a", "\"", "`", "`a`b`", "a\x00b", "'a\x00b'", "\x00", "SELECT\x00FROM", "#a#", "a,b", "limit", "LIMIT", "LiMiT", "x.limit", "limit.x", "é", "a\xffb",
		"'LIMIT' LIMIT `LIMIT` \"LIMIT\" limit_ _limit limit1", "<=>", ">==", "<>", "-", "-a", "--1", "1-", "1-1", "1 -1", ".5", "5.", "5.a", "a.5", "a1", "1a", "_", "__a__1.2"} {
		lexLine(o, s)
		o.Count("lex_corpus")
	}
	// (1) lexer: generated lexeme soups, mutated statements
	var sqls []string
	for i := 0; i < nLex; i++ {
		var in string
		switch rng.Intn(3) {
		case 0:
			in = genLexInput(rng)
			o.Count("lex_soup")
		case 1:
			g := genStmt(rng)
			in = render(rng, g.lexemes(), rng.Intn(6), rng.Intn(4))
			o.Count("lex_statement")
		default:
			g := genStmt(rng)
			in = mutate(rng, render(rng, g.lexemes(), rng.Intn(6), rng.Intn(4)))
			o.Count("lex_mutated_statement")
		}
		lexLine(o, in)
	}
	// (2) statements x layouts x casings -> types.Config projection
	type runCase struct {
		g    *gStmt
		sqls []string
	}
	var runnable []runCase
	nQuote := 0
	for i := 0; i < nStmt+nStmt/3; i++ {
		g := genStmt(rng)
		if i%4 == 3 { // family (Q), c11_quotes.go: a forced-shape literal at every literal site in turn
			g = genQuoteStmt(rng, nQuote%nQuoteSites)
			nQuote++
			o.Count("stmt_literal_with_other_quotes_and_call_shape")
		}
		ls := g.lexemes()
		exp := g.encode()
		var variants []string
		variants = append(variants, render(rng, ls, 0, 0))
		variants = append(variants, render(rng, ls, 1, 1))
		variants = append(variants, render(rng, ls, 2, 0))
		for k := 0; k < 3; k++ {
			variants = append(variants, render(rng, ls, 3+rng.Intn(3), rng.Intn(4)))
		}
		for _, sql := range variants {
			out, cfg, cond, err := parseGuard(sql, 2*time.Second)
			obs := ""
			switch out {
			case "ok":
				obs = projectConfig(cfg, cond)
			case "err":
				obs = "ERR " + hx(firstLine(err.Error()))
			default:
				obs = "ERR " + hx(out)
			}
			o.Line("C11 P %s # %s # %s # %s", hx(sql), exp, obs, callNamesIn(sql))
			sqls = append(sqls, sql)
		}
		literalIsDataLine(rng, o, g)
		fam := "rows"
		if g.winKind != "" {
			fam = "aggregate"
		}
		o.Count("stmt_" + fam)
		if len(g.joins) > 0 {
			o.Count("stmt_with_join")
		}
		if g.runnable || g.winKind == "C" {
			runnable = append(runnable, runCase{g, variants})
		}
	}
	// (3) same rows under two layouts: same results
	nr := 0
	for _, rc := range runnable {
		if nr >= nRun {
			break
		}
		if rc.g.winKind == "C" && nr%4 != 0 {
			continue
		}
		nr++
		rows := c11Rows(rng, 12)
		a, b := rc.sqls[0], rc.sqls[1+rng.Intn(len(rc.sqls)-1)]
		var ra, rb []string
		var ea, eb error
		if rc.g.winKind == "C" {
			ra, ea = runCounting(a, rows)
			rb, eb = runCounting(b, rows)
			o.Count("run_counting")
		} else {
			ra, ea = runRows(a, rows)
			rb, eb = runRows(b, rows)
			o.Count("run_rows")
		}
		same := reflect.DeepEqual(ra, rb) && (ea == nil) == (eb == nil)
		detail := "-"
		if !same {
			detail = hx(fmt.Sprintf("%v|%v || %v|%v", ra, ea, rb, eb))
		} else if ea != nil {
			detail = hx("both:" + firstLine(ea.Error()))
		}
		nres := 0
		for _, r := range ra {
			if r != "-" && r != "E" {
				nres++
			}
		}
		o.Line("C11 R %s %s %s %d %s", hx(a), hx(b), b01(same), nres, detail)
	}
	// (4) totality of rsql.Parse on a malformed stream
	deep := func(n int) string {
		return "SELECT " + strings.Repeat("(", n) + "a" + strings.Repeat(")", n) + " FROM s WHERE " + strings.Repeat("(", n) + "a > 1" + strings.Repeat(")", n)
	}
	mal := []string{"", "SELECT", "SELECT ", "SELECT FROM", "SELECT , FROM", "SELECT a FROM", "SELECT a FROM s WHERE", "SELECT a FROM s GROUP", "SELECT a FROM s GROUP BY",
		"SELECT a FROM s LIMIT", "SELECT a FROM s LIMIT -1", "SELECT a FROM s LIMIT x", "SELECT a FROM s ORDER", "SELECT a FROM s ORDER BY", "SELECT a FROM s WITH", "SELECT a FROM s WITH (",
		"SELECT a FROM s WITH (TIMESTAMP", "SELECT a FROM s WITH (TIMESTAMP=", "SELECT a FROM s GROUP BY TumblingWindow(", "SELECT a FROM s GROUP BY TumblingWindow", "SELECT a FROM s JOIN", "SELECT a FROM s JOIN t ON",
		"SELECT a FROM s LEFT", "SELECT a AS FROM s", "SELECT a AS", "SELECT (", "SELECT )", "SELECT ((((", "SELECT a FROM s WHERE (((", "SELECT a FROM s HAVING", "SELECT CASE", "SELECT CASE WHEN",
		"SELECT a OVER", "SELECT a OVER (", "SELECT lag(a) OVER (PARTITION", "SELECT lag(a) OVER (PARTITION BY", "SELECT a FROM s GROUP BY GLOBAL", "SELECT a FROM s GROUP BY GLOBAL WINDOW TRIGGER",
		"SELECT a FROM s MATCH_RECOGNIZE", "SELECT a FROM s MATCH_RECOGNIZE (", "SELECT a FROM s MATCH_RECOGNIZE ( PATTERN (", "SELECT a FROM s MATCH_RECOGNIZE ( PATTERN ( A B+ C{", "SELECT * FROM s MATCH_RECOGNIZE (ORDER BY ts MEASURES A.x AS ax PATTERN (A | (B C)*) DEFINE A AS",
		deep(10), deep(50), deep(200), strings.Repeat("(", 200), strings.Repeat("SELECT ", 300), strings.Repeat("a,", 400), "SELECT " + strings.Repeat("a,", 400) + "a FROM s",
		"SELECT a FROM s WHERE " + strings.Repeat("a > 1 AND ", 150) + "a > 1", "SELECT a FROM s GROUP BY " + strings.Repeat("a,", 150) + "a", "SELECT a FROM s ORDER BY " + strings.Repeat("a,", 300) + "a",
		"SELECT a FROM s WITH (" + strings.Repeat("x=1,", 150) + ")", "SELECT '", "SELECT a FROM s WHERE x = '", "SELECT a FROM s WHERE x = \"", "SELECT `", "\x00", "SELECT\x00", "SELECT a FROM s WHERE \xff\xfe",
		"SELECT a FROM s MATCH_RECOGNIZE (PATTERN (" + strings.Repeat("(", 200) + "A" + strings.Repeat(")", 200) + "))"}
	for i := 0; i < nMal; i++ {
		switch rng.Intn(4) {
		case 0:
			mal = append(mal, genLexInput(rng))
			o.Count("total_token_soup")
		case 1:
			s := sqls[rng.Intn(len(sqls))]
			mal = append(mal, s[:rng.Intn(len(s)+1)])
			o.Count("total_truncation")
		case 2:
			mal = append(mal, mutate(rng, sqls[rng.Intn(len(sqls))]))
			o.Count("total_mutation")
		default:
			mal = append(mal, mutate(rng, mutate(rng, mal[rng.Intn(len(mal))])))
			o.Count("total_mutation_of_malformed")
		}
	}
	mal = append(mal, c11PrefixInputs(rng, o, tier, sqls)...)
	mal = append(mal, c11UnknownFnInputs(rng, o, tier)...)
	for _, s := range mal {
		out, _, _, _ := parseGuard(s, 2*time.Second)
		o.Line("C11 T %s %s", hx(s), out)
		lexLine(o, s)
	}
	// (5) MATCH_RECOGNIZE as written, WITHIN in every written form (c11_within.go, M lines)
	c11WithinFamily(seed, o, tier)
	return nil
}

func firstLine(s string) string {
	if i := strings.IndexByte(s, '\n'); i >= 0 {
		s = s[:i]
	}
	if len(s) > 160 {
		s = s[:160]
	}
	return s
}
