package main

// C18, family I (see also c18.go): Stop issued IMMEDIATELY after Execute.
//
//   C18 I <kind> <strategy> <procs> <sinks> <rows> <post> # <event trace>
//       one goroutine does New, Execute, registers <sinks> (<a|s><beh> as in S lines, "-" = none), emits <rows> rows and
//       calls Stop with no yield, sleep or channel operation of its own in between, so that Stop can run before the
//       goroutines that Execute started (data processor, window-output consumer, sink workers, the window's own
//       goroutines, the MATCH_RECOGNIZE sweeper) were ever scheduled. procs = 1: the whole case runs under
//       runtime.GOMAXPROCS(1), which makes that order the rule instead of a rare race (a goroutine created by `go` does
//       not run before its creator yields); procs = 0: GOMAXPROCS untouched. Every query kind and strategy.
//       Then <post> = a string of calls made after Stop returned (e Emit, x Stop again, t TriggerWindow, g GetStats,
//       a AddSink), then the goroutine count (before New / after the last call, polled for up to 2 s).
//       Nothing is in flight that could hold Stop back (sinks, if any, return at once), so the Stop call must return
//       through the join, far below its 5 s grace (sr:<j>:<ms> with ms >= 4500 is the monitor's stop_grace_expired),
//       and every goroutine of the instance must be gone afterwards (goroutine_leak); the barrier clauses apply as usual.
//       The driver replays the same script on the extracted model (Start's critical section, the producers, then the
//       Stop caller first and the pipeline goroutines only when Stop cannot move) and requires what the model shows:
//       Stop returns through the join and no tracked goroutine is left.

import (
	"fmt"
	"runtime"
	"strings"
	"time"
)

type c18Immediate struct {
	kind, strat string
	procs       int
	sinks       []string
	rows        int
	post        string
}

func runC18Immediate(c c18Immediate) (string, error) {
	if c.procs > 0 {
		old := runtime.GOMAXPROCS(c.procs)
		defer runtime.GOMAXPROCS(old)
	}
	// let goroutines of earlier cases that are on their way out finish, so that they are not counted in the base
	time.Sleep(time.Millisecond)
	base := runtime.NumGoroutine()
	t := newC18Trace()
	var cerr error
	body := func() {
		s, err := c18New(c.kind, c.strat, 16, 4, 2, 0) // New + Execute
		if err != nil {
			cerr = err
			return
		}
		for _, sk := range c.sinks {
			t.addSink(s, sk[0] == 's', sk[1], 0)
		}
		for i := 0; i < c.rows; i++ {
			s.Emit(c18Row(i, i))
		}
		t.stop(s, 1)
		for i, p := range c.post {
			switch p {
			case 'e':
				s.Emit(c18Row(50+i, 1))
			case 'x':
				t.stop(s, 2+i)
			case 't':
				s.TriggerWindow()
			case 'g':
				_ = s.GetStats()
			case 'a':
				t.addSink(s, false, 'p', 0)
			}
		}
	}
	if !callWithin(12*time.Second, body) {
		t.add("to")
	}
	if cerr != nil {
		return "", cerr
	}
	time.Sleep(2 * time.Millisecond) // an invocation that outlives Stop shows up as kb / ke after sr
	t.add(fmt.Sprintf("gr:%d:%d", base, waitGoroutines(base, 2*time.Second)))
	t.mu.Lock()
	defer t.mu.Unlock()
	return fmt.Sprintf("C18 I %s %s %d %s %d %s # %s", c.kind, c.strat, c.procs, c18Join(c.sinks), c.rows, c.post,
		strings.Join(t.ev, " ")), nil
}

// c18ImmediateKinds = every query kind of the property (c18Kinds), in a fixed order.
var c18ImmediateKinds = []string{"direct", "analytic", "cep", "cepopen", "cepdef", "cepmeas", "tumbling", "sliding", "session",
	"tumblingE", "slidingE", "sessionE", "counting", "counting1", "global", "global1"}

func genC18Immediate(rng *RNG, kind, strat string, procs int) c18Immediate {
	c := c18Immediate{kind: kind, strat: strat, procs: procs}
	if rng.Intn(3) > 0 { // one third: the bare shape Execute; Stop
		for i, n := 0, rng.Intn(3); i < n; i++ {
			c.sinks = append(c.sinks, string("as"[rng.Intn(2)])+string("pppxg"[rng.Intn(5)]))
		}
		c.rows = rng.Intn(4)
	}
	for i, n := 0, 1+rng.Intn(3); i < n; i++ {
		c.post += string("eextga"[rng.Intn(6)])
	}
	return c
}

// runC18ImmediateFamily: per (kind, strategy) n cases under GOMAXPROCS(1) and n with GOMAXPROCS untouched, one at a
// time. Returns the number of cases in which a call did not return or Stop left through its grace.
func runC18ImmediateFamily(tier string, rng *RNG, o *Out) (int, error) {
	n := 1
	if tier == "thorough" {
		n = 5
	}
	stuck := 0
	for _, procs := range []int{1, 0} {
		for _, st := range []string{"drop", "block", "expand"} {
			for _, k := range c18ImmediateKinds {
				for i := 0; i < n; i++ {
					c := genC18Immediate(rng, k, st, procs)
					if i == 0 && st == "drop" {
						c.sinks, c.rows = nil, 0 // the bare shape is always present for every kind
					}
					l, err := runC18Immediate(c)
					if err != nil {
						return stuck, err
					}
					o.Line("%s", l)
					o.Count(fmt.Sprintf("immediate_stop/%s/procs%d", k, procs))
					if c18IsStuck(l) || c18SlowStop(l) {
						stuck++
					}
					if stuck >= c18MaxStuck {
						return stuck, nil
					}
				}
			}
		}
	}
	return stuck, nil
}

// c18SlowStop: some Stop call of the trace took 4.5 s or more.
func c18SlowStop(line string) bool {
	for _, tok := range strings.Fields(line) {
		if strings.HasPrefix(tok, "sr:") {
			var j, ms int
			if _, err := fmt.Sscanf(tok, "sr:%d:%d", &j, &ms); err == nil && ms >= 4500 {
				return true
			}
		}
	}
	return false
}
