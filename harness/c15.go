package main

// C15 — MATCH_RECOGNIZE. Generated (pattern, DEFINE set, SKIP mode, WITHIN, interleaved partitions)
// cases are run through the public SQL API (Execute, sync sink, Stop = flush); events are handed to
// the stream one by one with the verif hook VerifCepFeed (the data goroutine's own processItem,
// called synchronously). One line per case:
//
//	C15 <skip P|N|F|L|V> <skipvar> <within> # <pattern, prefix tokens> # <nvars> {mask cmp}* #
//	    {part cls v ts}*  # {part mn first_id last_id count}*        (matches in emission order)
//
// family S (sparse rows, c15s.go): "C15 S <bare 0|1> <skip> ..", class code 5 = column c absent / NULL,
// v = n = column v absent / NULL; with bare = 1 every output record is "part mn f l n bc bv".
//
// pattern tokens: L v | S p q | U p q | R min max p (max -1 = unbounded) | M k p1..pk (PERMUTE)
import (
	"fmt"
	"strconv"
	"strings"
	"sync"

	"github.com/rulego/streamsql"
)

func init() { runners["C15"] = runC15 }

type c15pat struct {
	kind   byte // 'L' literal, 'S' sequence, 'U' alternation, 'R' repetition, 'M' permute
	v      int
	kids   []*c15pat
	mn, mx int
}

var c15vars = []string{"A", "B", "C", "D"}

func (p *c15pat) lits() int {
	if p.kind == 'L' {
		return 1
	}
	n := 0
	for _, k := range p.kids {
		n += k.lits()
	}
	switch p.kind {
	case 'R':
		m := p.mx
		if m < 0 {
			m = p.mn + 1
		}
		if m == 0 {
			m = 1
		}
		return n * m
	case 'M':
		f := 1
		for i := 2; i <= len(p.kids); i++ {
			f *= i
		}
		return n * f
	}
	return n
}

func c15gen(r *RNG, depth, nv int) *c15pat {
	if depth == 0 || r.Intn(100) < 28 {
		return &c15pat{kind: 'L', v: r.Intn(nv)}
	}
	x := r.Intn(100)
	switch {
	case x < 36:
		n := r.Range(2, 3)
		p := &c15pat{kind: 'S'}
		for i := 0; i < n; i++ {
			p.kids = append(p.kids, c15gen(r, depth-1, nv))
		}
		return p
	case x < 56:
		n := r.Range(2, 3)
		p := &c15pat{kind: 'U'}
		for i := 0; i < n; i++ {
			p.kids = append(p.kids, c15gen(r, depth-1, nv))
		}
		return p
	case x < 94:
		p := &c15pat{kind: 'R', kids: []*c15pat{c15gen(r, depth-1, nv)}}
		switch r.Intn(7) {
		case 0:
			p.mn, p.mx = 0, 1 // ?
		case 1:
			p.mn, p.mx = 0, -1 // *
		case 2, 3:
			p.mn, p.mx = 1, -1 // +
		case 4:
			p.mn = r.Range(1, 3) // {n}
			p.mx = p.mn
		case 5:
			p.mn = r.Range(0, 2) // {n,m}
			p.mx = p.mn + r.Range(1, 2)
		default:
			p.mn, p.mx = r.Range(0, 2), -1 // {n,}
		}
		return p
	default:
		n := r.Range(2, 3)
		p := &c15pat{kind: 'M'}
		for i := 0; i < n; i++ {
			p.kids = append(p.kids, c15gen(r, 0, nv))
		}
		return p
	}
}

// SQL text; every composite operand is parenthesised (groups are transparent in the compiler).
func (p *c15pat) sql(top bool) string {
	switch p.kind {
	case 'L':
		return c15vars[p.v]
	case 'S', 'U':
		sep := " "
		if p.kind == 'U' {
			sep = " | "
		}
		var parts []string
		for _, k := range p.kids {
			parts = append(parts, k.sql(false))
		}
		s := strings.Join(parts, sep)
		if top {
			return s
		}
		return "(" + s + ")"
	case 'R':
		a := p.kids[0].sql(false)
		if p.kids[0].kind == 'R' || p.kids[0].kind == 'M' {
			a = "(" + a + ")"
		}
		var q string
		switch {
		case p.mn == 0 && p.mx == 1:
			q = "?"
		case p.mn == 0 && p.mx == -1:
			q = "*"
		case p.mn == 1 && p.mx == -1:
			q = "+"
		case p.mx == -1:
			q = fmt.Sprintf("{%d,}", p.mn)
		case p.mn == p.mx:
			q = fmt.Sprintf("{%d}", p.mn)
		default:
			q = fmt.Sprintf("{%d,%d}", p.mn, p.mx)
		}
		return a + q
	case 'M':
		var parts []string
		for _, k := range p.kids {
			parts = append(parts, k.sql(true))
		}
		return "PERMUTE(" + strings.Join(parts, ", ") + ")"
	}
	return "?"
}

func (p *c15pat) toks() string {
	switch p.kind {
	case 'L':
		return fmt.Sprintf("L %d", p.v)
	case 'S', 'U':
		s := p.kids[0].toks()
		for _, k := range p.kids[1:] {
			s = fmt.Sprintf("%c %s %s", p.kind, s, k.toks())
		}
		return s
	case 'R':
		return fmt.Sprintf("R %d %d %s", p.mn, p.mx, p.kids[0].toks())
	case 'M':
		s := fmt.Sprintf("M %d", len(p.kids))
		for _, k := range p.kids {
			s += " " + k.toks()
		}
		return s
	}
	return "?"
}

func (p *c15pat) uses(m map[int]bool) {
	if p.kind == 'L' {
		m[p.v] = true
	}
	for _, k := range p.kids {
		k.uses(m)
	}
}

type c15def struct{ mask, cmp int }

// nc / nvl: column c / v of the event: 0 = present, 1 = the key is absent, 2 = explicit nil (both NULL)
type c15row struct{ part, cls, v, ts, nc, nvl int }

// the event handed to the engine (sparse rows: family S, see c15s.go)
func (r c15row) event(id int) map[string]any {
	m := map[string]any{"id": id, "p": fmt.Sprintf("p%d", r.part), "ts": r.ts}
	switch r.nc {
	case 0:
		m["c"] = string(c15classes[r.cls])
	case 2:
		m["c"] = nil
	}
	switch r.nvl {
	case 0:
		m["v"] = r.v
	case 2:
		m["v"] = nil
	}
	return m
}

// the row as the driver reads it: class code 5 = column c NULL, v = n = column v NULL
func (r c15row) toks() string {
	cls, v := strconv.Itoa(r.cls), strconv.Itoa(r.v)
	if r.nc != 0 {
		cls = "5"
	}
	if r.nvl != 0 {
		v = "n"
	}
	return fmt.Sprintf("%d %s %s %d", r.part, cls, v, r.ts)
}

type c15case struct {
	pat     *c15pat
	nv      int
	defs    []c15def
	skip    string // P (explicit), p (clause omitted = PAST LAST ROW), N, F, L, V
	skipVar int
	within  int // 0 = no WITHIN clause
	rows    []c15row
	noPart  bool // single partition and no PARTITION BY clause
	allRows bool // ALL ROWS PER MATCH: the output rows carry the input columns (id) and MATCH_NUMBER
	sparse  bool // family S: rows without column c / v (line prefix "C15 S <bare>")
	bare    bool // family S, ONE ROW PER MATCH: MEASURES also c AS bc, v AS bv (bare columns of the last row)
	tag     string
	// families T / W (c15w.go)
	fam        string // line prefix after "C15 " ("T <values> " / "" ..)
	pvals      []any  // T: the value of the partition column per partition index (c15absent = no key / nil)
	nilSeed    uint64 // T: which events of the NULL partition carry an explicit nil instead of no key
	wall       bool   // W: real pauses between events
	withinText string // W: the WITHIN clause as written (WITHIN '100ms'), c.within = the same in ns
	pauseMs    int    // W: length of one pause (> the sweep interval)
	pauseEmits int    // W: pause after each of the first k events that reported a match
	pauseAt    int    // W: pause after this event id as well (0 = none)
	paused     []int  // W: the event ids after which run() slept
}

const c15classes = "abcde"

func (d c15def) sql() string {
	var alts []string
	for c := 0; c < 5; c++ {
		if d.mask&(1<<c) != 0 {
			alts = append(alts, fmt.Sprintf("c = '%c'", c15classes[c]))
		}
	}
	s := ""
	if d.mask != 31 {
		s = strings.Join(alts, " OR ")
		if len(alts) > 1 {
			s = "(" + s + ")"
		}
	}
	cmp := ""
	switch d.cmp {
	case 1:
		cmp = "v > PREV(v)"
	case 2:
		cmp = "v < PREV(v)"
	}
	if s != "" && cmp != "" {
		return s + " AND " + cmp
	}
	return s + cmp
}

func (c *c15case) sql() string {
	var sb strings.Builder
	sb.WriteString("SELECT * FROM stream MATCH_RECOGNIZE ( ")
	if !c.noPart {
		sb.WriteString("PARTITION BY p ")
	}
	if c.allRows {
		sb.WriteString("ORDER BY ts MEASURES MATCH_NUMBER() AS mn ALL ROWS PER MATCH ")
	} else {
		sb.WriteString("ORDER BY ts MEASURES MATCH_NUMBER() AS mn, FIRST(id) AS f, LAST(id) AS l, COUNT(*) AS n")
		if c.bare {
			sb.WriteString(", c AS bc, v AS bv")
		}
		sb.WriteString(" ONE ROW PER MATCH ")
	}
	switch c.skip {
	case "P":
		sb.WriteString("AFTER MATCH SKIP PAST LAST ROW ")
	case "N":
		sb.WriteString("AFTER MATCH SKIP TO NEXT ROW ")
	case "F":
		sb.WriteString("AFTER MATCH SKIP TO FIRST " + c15vars[c.skipVar] + " ")
	case "L":
		sb.WriteString("AFTER MATCH SKIP TO LAST " + c15vars[c.skipVar] + " ")
	case "V":
		sb.WriteString("AFTER MATCH SKIP TO " + c15vars[c.skipVar] + " ")
	}
	sb.WriteString("PATTERN (" + c.pat.sql(true) + ") ")
	if c.withinText != "" {
		sb.WriteString(c.withinText)
	} else if c.within > 0 {
		sb.WriteString(fmt.Sprintf("WITHIN %d NS ", c.within))
	}
	var ds []string
	for i, d := range c.defs {
		if s := d.sql(); s != "" {
			ds = append(ds, c15vars[i]+" AS "+s)
		}
	}
	if len(ds) > 0 {
		sb.WriteString("DEFINE " + strings.Join(ds, ", ") + " ")
	}
	sb.WriteString(")")
	return sb.String()
}

func c15int(v any) (int, bool) {
	switch x := v.(type) {
	case int:
		return x, true
	case int64:
		return int(x), true
	case float64:
		return int(x), float64(int(x)) == x
	case float32:
		return int(x), true
	}
	f, err := strconv.ParseFloat(fmt.Sprint(v), 64)
	return int(f), err == nil
}

// run one case on the real engine; returns the output section of the line
func (c *c15case) run() (string, error) {
	s := streamsql.New()
	q := c.sql()
	if err := s.Execute(q); err != nil {
		return "", fmt.Errorf("Execute(%s): %v", q, err)
	}
	var mu sync.Mutex
	var outs []string
	bad := ""
	emits := 0 // sink calls so far (family W pauses after an event that reported a match)
	// ALL ROWS PER MATCH: one sink call carries the rows of the matches emitted by one event; the rows
	// of a match are adjacent and share MATCH_NUMBER and partition. They are folded into the same
	// observable (mn, first id, last id, count); count is forced to 0 (= not a run) when the ids are
	// not increasing or leave the partition.
	type acc struct{ part, mn, f, l, n int }
	var cur *acc
	flush := func() {
		if cur != nil {
			if cur.n < 0 {
				cur.n = 0
			}
			outs = append(outs, fmt.Sprintf("%d %d %d %d %d", cur.part, cur.mn, cur.f, cur.l, cur.n))
			cur = nil
		}
	}
	s.AddSyncSink(func(rs []map[string]any) {
		mu.Lock()
		defer mu.Unlock()
		if len(rs) > 0 {
			emits++
		}
		for _, r := range rs {
			mn, ok1 := c15int(r["mn"])
			if c.allRows {
				id, ok2 := c15int(r["id"])
				if !(ok1 && ok2) || id < 1 || id > len(c.rows) {
					bad = fmt.Sprint(r)
					continue
				}
				part := c.rows[id-1].part
				if cur != nil && cur.part == part && cur.mn == mn {
					if id <= cur.l {
						cur.n = -1 << 30
					}
					cur.l = id
					cur.n++
				} else {
					flush()
					cur = &acc{part, mn, id, id, 1}
				}
				continue
			}
			f, ok2 := c15int(r["f"])
			l, ok3 := c15int(r["l"])
			n, ok4 := c15int(r["n"])
			if !(ok1 && ok2 && ok3 && ok4) || f < 1 || f > len(c.rows) {
				bad = fmt.Sprint(r)
				continue
			}
			o := fmt.Sprintf("%d %d %d %d %d", c.rows[f-1].part, mn, f, l, n)
			if c.bare { // class code (5 = NULL, ? = anything else) and v (n = NULL)
				bc, bv := "?", "?"
				switch x := r["bc"].(type) {
				case nil:
					bc = "5"
				case string:
					if len(x) == 1 && strings.Contains(c15classes, x) {
						bc = strconv.Itoa(strings.Index(c15classes, x))
					}
				}
				if r["bv"] == nil {
					bv = "n"
				} else if x, ok := c15int(r["bv"]); ok {
					bv = strconv.Itoa(x)
				}
				o += " " + bc + " " + bv
			}
			outs = append(outs, o)
		}
		flush()
	})
	st := s.Stream()
	st.VerifCepLiftGuards()
	c.paused = nil
	seenEmits, left := 0, c.pauseEmits
	nilRng := NewRNG(c.nilSeed)
	for i, r := range c.rows {
		ev := r.event(i + 1)
		if c.pvals != nil { // family T: typed partition values
			switch v := c.pvals[r.part].(type) {
			case c15absent:
				delete(ev, "p")
				if nilRng.Intn(3) == 0 {
					ev["p"] = nil
				}
			default:
				ev["p"] = v
			}
		}
		st.VerifCepFeed(ev)
		if c.wall && i+1 < len(c.rows) { // family W: a real pause, longer than the sweep interval
			mu.Lock()
			e := emits
			mu.Unlock()
			if (e > seenEmits && left > 0) || c.pauseAt == i+1 {
				if e > seenEmits {
					left--
				}
				c.paused = append(c.paused, i+1)
				c.pause()
			}
			seenEmits = e
		}
	}
	s.Stop()
	mu.Lock()
	defer mu.Unlock()
	if bad != "" {
		return "", fmt.Errorf("unreadable output row %s for %s", bad, q)
	}
	return strings.Join(outs, " "), nil
}

func (c *c15case) line(out string) string {
	var sb strings.Builder
	sk := c.skip
	if sk == "p" {
		sk = "P"
	}
	w := c.within
	if w == 0 {
		w = 3600000000000 // types.DefaultMatchWithin in ns
	}
	fam := c.fam
	if c.wall {
		at := "-"
		if len(c.paused) > 0 {
			at = strings.Trim(strings.Join(strings.Fields(fmt.Sprint(c.paused)), ","), "[]")
		}
		fam = fmt.Sprintf("W %dms@%s ", c.pauseMs, at)
	}
	if c.sparse {
		fam = "S 0 "
		if c.bare && !c.allRows {
			fam = "S 1 "
		}
	}
	fmt.Fprintf(&sb, "C15 %s%s %d %d # %s # %d", fam, sk, c.skipVar, w, c.pat.toks(), c.nv)
	for _, d := range c.defs {
		fmt.Fprintf(&sb, " %d %d", d.mask, d.cmp)
	}
	sb.WriteString(" #")
	for _, r := range c.rows {
		sb.WriteString(" " + r.toks())
	}
	sb.WriteString(" #")
	if out != "" {
		sb.WriteString(" " + out)
	}
	return sb.String()
}

func c15random(r *RNG, maxRows int) *c15case {
	c := &c15case{}
	c.nv = r.Range(1, 4)
	depth := r.Range(1, 3)
	for {
		c.pat = c15gen(r, depth, c.nv)
		if c.pat.lits() <= 9 {
			break
		}
	}
	used := map[int]bool{}
	c.pat.uses(used)
	// DEFINE: exclusive (disjoint class sets) or overlapping
	exclusive := r.Intn(100) < 60
	c.defs = make([]c15def, c.nv)
	if exclusive {
		perm := []int{0, 1, 2, 3, 4}
		for i := 4; i > 0; i-- {
			j := r.Intn(i + 1)
			perm[i], perm[j] = perm[j], perm[i]
		}
		for i := 0; i < c.nv; i++ {
			c.defs[i].mask = 1 << perm[i]
		}
		if c.nv < 4 && r.Intn(3) == 0 { // one variable owns two classes
			c.defs[r.Intn(c.nv)].mask |= 1 << perm[4]
		}
		c.tag = "def_exclusive"
	} else {
		for i := 0; i < c.nv; i++ {
			switch r.Intn(6) {
			case 0:
				c.defs[i].mask = 31 // no class test (no DEFINE at all when there is no PREV test either)
			default:
				c.defs[i].mask = 1 + r.Intn(30)
			}
		}
		c.tag = "def_overlapping"
	}
	for i := 0; i < c.nv; i++ {
		if r.Intn(6) == 0 {
			c.defs[i].cmp = 1 + r.Intn(2)
		}
	}
	// SKIP
	switch x := r.Intn(100); {
	case x < 25:
		c.skip = "P"
	case x < 45:
		c.skip = "p"
	case x < 70:
		c.skip = "N"
	default:
		if exclusive {
			c.skip = []string{"F", "L", "V"}[r.Intn(3)]
			c.skipVar = r.Intn(c.nv)
		} else {
			c.skip = "P"
		}
	}
	if r.Intn(100) < 30 {
		c.within = r.Range(1, 6)
	}
	np := 1
	switch x := r.Intn(100); {
	case x < 30:
		np = 1
	case x < 70:
		np = 2
	default:
		np = 3
	}
	if np == 1 && r.Intn(3) == 0 {
		c.noPart = true
	}
	c.allRows = r.Intn(4) == 0
	n := r.Range(1, maxRows)
	ts := r.Range(1, 3)
	// classes that some variable accepts are more frequent than the others
	var hot []int
	for cl := 0; cl < 5; cl++ {
		for v := range used {
			if v < c.nv && c.defs[v].mask&(1<<cl) != 0 {
				hot = append(hot, cl)
				break
			}
		}
	}
	perPart := make([]int, np)
	for i := 0; i < n; i++ {
		p := r.Intn(np)
		if perPart[p] >= 9 {
			continue
		}
		perPart[p]++
		cl := r.Intn(5)
		if len(hot) > 0 && r.Intn(100) < 75 {
			cl = hot[r.Intn(len(hot))]
		}
		if c.within > 0 {
			ts += r.Intn(4)
		} else {
			ts += r.Intn(2)
		}
		t := ts
		if r.Intn(40) == 0 && t > 2 {
			t -= 2 // an out-of-order timestamp now and then
		}
		c.rows = append(c.rows, c15row{part: p, cls: cl, v: r.Intn(5), ts: t})
	}
	c.tag += fmt.Sprintf(" skip_%s parts_%d", c.skip, np)
	if c.within > 0 {
		c.tag += " within"
	}
	if c.allRows {
		c.tag += " all_rows_per_match"
	} else {
		c.tag += " one_row_per_match"
	}
	return c
}

func c15lit(v int) *c15pat        { return &c15pat{kind: 'L', v: v} }
func c15seq(k ...*c15pat) *c15pat { return &c15pat{kind: 'S', kids: k} }
func c15alt(k ...*c15pat) *c15pat { return &c15pat{kind: 'U', kids: k} }
func c15rep(mn, mx int, k *c15pat) *c15pat {
	return &c15pat{kind: 'R', mn: mn, mx: mx, kids: []*c15pat{k}}
}

// boundary cases: the witnesses of the repaired defects and a few documented scenarios
func c15corpus() []*c15case {
	ex := []c15def{{1, 0}, {2, 0}, {4, 0}, {8, 0}}
	rows := func(part []int, cls string, ts []int) []c15row {
		var out []c15row
		for i := range part {
			out = append(out, c15row{part: part[i], cls: strings.IndexByte(c15classes, cls[i]), v: i % 3, ts: ts[i]})
		}
		return out
	}
	return []*c15case{
		// F5: another partition's rows interleaved, PATTERN (A B), SKIP PAST LAST ROW
		{pat: c15seq(c15lit(0), c15lit(1)), nv: 2, defs: []c15def{{31, 0}, {31, 0}}, skip: "P",
			rows: rows([]int{0, 1, 0, 1, 0, 0}, "aeaeaa", []int{1, 2, 3, 4, 5, 6}), tag: "corpus"},
		// an accepting run extends into a dead end: A (B C)? on a b d
		{pat: c15seq(c15lit(0), c15rep(0, 1, c15seq(c15lit(1), c15lit(2)))), nv: 4, defs: ex, skip: "P",
			rows: rows([]int{0, 0, 0}, "abd", []int{1, 2, 3}), tag: "corpus"},
		// a later start completes while an earlier one is still extending: A B C | B on a b c
		{pat: c15alt(c15seq(c15lit(0), c15lit(1), c15lit(2)), c15lit(1)), nv: 4, defs: ex, skip: "P",
			rows: rows([]int{0, 0, 0}, "abc", []int{1, 2, 3}), tag: "corpus"},
		// WITHIN ends an accepting run: A+ WITHIN 5 on ts 1 2 10 11
		{pat: c15rep(1, -1, c15lit(0)), nv: 4, defs: ex, skip: "P", within: 5,
			rows: rows([]int{0, 0, 0, 0}, "aaad", []int{1, 2, 10, 11}), tag: "corpus"},
		// unfinished accepting run flushed at Stop: A B+ on a b b
		{pat: c15seq(c15lit(0), c15rep(1, -1, c15lit(1))), nv: 2, defs: ex[:2], skip: "N",
			rows: rows([]int{0, 0, 0}, "abb", []int{1, 1, 2}), tag: "corpus"},
	}
}

func runC15(tier string, seed uint64, o *Out) error {
	rng := NewRNG(seed)
	ncases, maxRows := 12000, 14
	nk, maxPer, np3, np4 := 3000, 13, 40, 12
	ns := 4000
	nt, nw := 1500, 160
	if tier == "thorough" {
		nt, nw = 15000, 1200
		ncases, maxRows = 150000, 16
		nk, maxPer, np3, np4 = 20000, 14, 400, 100
		ns = 40000
	}
	type tagged interface {
		c15runner
		tags() string
	}
	var cases []tagged
	for _, c := range c15corpus() {
		cases = append(cases, c)
	}
	for i := 0; i < ncases; i++ {
		cases = append(cases, c15random(rng, maxRows))
	}
	// K: classification of every row of every match, late forks, DEFINE over the classification
	krng := NewRNG(seed)
	krng.s = krng.Next() ^ 0xC15C1A55
	for _, c := range c15kcorpus() {
		cases = append(cases, c)
	}
	for i := 0; i < nk; i++ {
		cases = append(cases, c15krandom(krng, maxPer))
	}
	// P: PERMUTE of 3 / 4 variables over every arrival order
	for i := 0; i < np3; i++ {
		cases = append(cases, c15permute(krng, 3))
	}
	for i := 0; i < np4; i++ {
		cases = append(cases, c15permute(krng, 4))
	}
	// S: sparse rows (columns of DEFINE / MEASURES absent or NULL in some events)
	srng := NewRNG(seed)
	srng.s = srng.Next() ^ 0xC155BA25E
	for _, c := range c15scorpus() {
		cases = append(cases, c)
	}
	for i := 0; i < ns; i++ {
		cases = append(cases, c15sparse(srng, maxRows))
	}
	// T: one PARTITION BY column, values of different Go types with the same printed form
	trng := NewRNG(seed)
	trng.s = trng.Next() ^ 0xC157F9ED
	for _, c := range c15tcorpus() {
		cases = append(cases, c)
	}
	for i := 0; i < nt; i++ {
		cases = append(cases, c15typed(trng, maxRows))
	}
	// W: real pauses longer than the sweep interval of the WITHIN sweeper (the cases sleep: own pool)
	nwall := len(cases)
	for _, c := range c15wcorpus() {
		cases = append(cases, c)
	}
	for i := 0; i < nw; i++ {
		cases = append(cases, c15wallclock(trng, maxRows))
	}
	lines := make([]string, len(cases))
	errs := make([]error, len(cases))
	var wg sync.WaitGroup
	sem := make(chan struct{}, 8)
	wsem := make(chan struct{}, 64)
	for i := nwall; i < len(cases); i++ {
		i := i
		wg.Add(1)
		go func() {
			defer wg.Done()
			wsem <- struct{}{}
			defer func() { <-wsem }()
			out, err := cases[i].run()
			errs[i] = err
			lines[i] = cases[i].line(out)
		}()
	}
	for i := range cases[:nwall] {
		i := i
		wg.Add(1)
		sem <- struct{}{}
		go func() {
			defer wg.Done()
			defer func() { <-sem }()
			out, err := cases[i].run()
			errs[i] = err
			lines[i] = cases[i].line(out)
		}()
	}
	wg.Wait()
	for i := range cases {
		if errs[i] != nil {
			return errs[i]
		}
		o.Line("%s", lines[i])
		for _, t := range strings.Fields(cases[i].tags()) {
			o.Count(t)
		}
	}
	return nil
}
