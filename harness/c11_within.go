package main

// C11, family (M) "MATCH_RECOGNIZE as written": grammar-driven MATCH_RECOGNIZE statements -- PARTITION BY,
// ORDER BY, then MEASURES / ONE|ALL ROW(S) PER MATCH / AFTER MATCH SKIP ... / PATTERN / SUBSET / WITHIN /
// DEFINE in a random order -- whose WITHIN bound is drawn in EVERY written form the parser accepts:
//   absent
//   a quoted Go duration ('500ms', "1h30m", '1.5s', '.5s', '2µs', '+3s'; 1-3 components, all 8 unit texts)
//   <integer> <unit>          (all 30 unit spellings of durationUnit, any letter case; leading zeros)
//   <fraction> <unit>         (dyadic fractions 1.5 / 0.25 / 2.375 / 1.50 / 007.5 : float64 arithmetic is exact)
//   <decimal fraction> <unit> (0.1, 1.001, 0.29: the count is NOT a binary fraction)
//   sub-nanosecond grain      (0.5 NS, 2.75 NANOS: rounded towards zero)
// each under 6 layouts x keyword casings.  The expected bound is computed here with math/big rationals,
// and independently by the extracted reference reading of the clause (Model/MatchWithin.v mr_ref on the
// model lexer's tokens: exact floor (count * unit)); types.Config.MatchRecognize is projected to the same
// fields and must equal both.
//
//   C11 M <hex sql> # <expected fields> # <observed fields | ERR hex(message)>
//   fields: MK=<exec mode> MP=<partition cols> MO=<order cols> MR=<all rows 0/1> MS=<skip kind>,<symbol>
//           MW=<within ns> MM=<measure aliases> MD=<define symbols> MU=<subset name:sym+sym> MT=<pattern symbols>
//           MQ=<pattern tree with quantifier bounds, see c11_pattern.go>
import (
	"fmt"
	"math/big"
	"strings"
	"time"

	"github.com/rulego/streamsql/types"
)

var c11UnitWords = []struct {
	word string
	ns   int64
}{
	{"NS", 1}, {"NANO", 1}, {"NANOS", 1}, {"NANOSECOND", 1}, {"NANOSECONDS", 1},
	{"US", 1e3}, {"MICRO", 1e3}, {"MICROS", 1e3}, {"MICROSECOND", 1e3}, {"MICROSECONDS", 1e3},
	{"MS", 1e6}, {"MILLI", 1e6}, {"MILLIS", 1e6}, {"MILLISECOND", 1e6}, {"MILLISECONDS", 1e6},
	{"S", 1e9}, {"SEC", 1e9}, {"SECS", 1e9}, {"SECOND", 1e9}, {"SECONDS", 1e9},
	{"M", 60e9}, {"MIN", 60e9}, {"MINS", 60e9}, {"MINUTE", 60e9}, {"MINUTES", 60e9},
	{"H", 3600e9}, {"HR", 3600e9}, {"HRS", 3600e9}, {"HOUR", 3600e9}, {"HOURS", 3600e9},
}

var c11GoUnits = []struct {
	text   string
	ns     int64
	digits int // 10^digits divides the unit: a fraction with at most that many digits is a whole number of ns
}{
	{"h", 3600e9, 11}, {"m", 60e9, 10}, {"s", 1e9, 9}, {"ms", 1e6, 6}, {"us", 1e3, 3}, {"µs", 1e3, 3}, {"μs", 1e3, 3}, {"ns", 1, 0},
}

// floor(count * unit) for a count written as digits[.digits] (either part may be empty)
func exactNs(count string, unit int64) *big.Int {
	ip, fp := count, ""
	if i := strings.IndexByte(count, '.'); i >= 0 {
		ip, fp = count[:i], count[i+1:]
	}
	m, ok := new(big.Int).SetString("0"+ip+fp, 10)
	if !ok {
		panic("bad count " + count)
	}
	den := new(big.Int).Exp(big.NewInt(10), big.NewInt(int64(len(fp))), nil)
	m.Mul(m, big.NewInt(unit))
	return m.Quo(m, den)
}

var dyadicFracs = []string{"5", "25", "75", "125", "375", "625", "875", "0625", "50", "500", "250", "0", "00", "5000"}
var decimalFracs = []string{"1", "2", "3", "7", "9", "01", "29", "57", "58", "99", "001", "003", "005", "157", "999", "0157", "0163", "0314", "1001"}

// decimal counts x unit class (0 ns .. 5 h); for all but the last two float64(count) * float64(unit) < count * unit
var floatWitnesses = []struct {
	count string
	class int
}{{"0.29", 5}, {"0.57", 4}, {"0.57", 5}, {"0.58", 5}, {"1.001", 1}, {"1.003", 1}, {"1.005", 1}, {"0.0157", 2}, {"0.0157", 3}, {"0.0163", 3},
	{"0.0314", 2}, {"0.071", 4}, {"0.141", 4}, {"4.35", 3}, {"1.1", 3}}

func wholePart(rng *RNG) string {
	var s string
	switch rng.Intn(8) {
	case 0:
		s = "0"
	case 1:
		s = fmt.Sprint(rng.Range(100, 99999))
	case 2:
		s = "0" + fmt.Sprint(rng.Range(0, 99)) // leading zero
	case 3:
		s = "00" + fmt.Sprint(rng.Range(1, 9))
	default:
		s = fmt.Sprint(rng.Range(1, 99))
	}
	return s
}

type withinDraw struct {
	lex  []lx
	ns   *big.Int
	form string
}

// drawWithin: form k of the written WITHIN clause, unit spelling u (index into c11UnitWords / c11GoUnits).
func drawWithin(rng *RNG, form, u int) withinDraw {
	W := K("WITHIN")
	switch form {
	case 0:
		return withinDraw{nil, big.NewInt(0), "absent"}
	case 1: // quoted Go duration
		n := 1 + rng.Intn(3)
		start := u % len(c11GoUnits)
		var sb strings.Builder
		total := new(big.Int)
		if rng.Intn(8) == 0 {
			sb.WriteString("+")
		}
		idx := start
		for i := 0; i < n && idx < len(c11GoUnits); i++ {
			gu := c11GoUnits[idx]
			cnt := fmt.Sprint(rng.Range(0, 90))
			switch rng.Intn(6) {
			case 0, 1: // a fraction that is a whole number of nanoseconds in this unit
				if gu.digits > 0 {
					f := rng.Pick(append(append([]string{}, dyadicFracs...), decimalFracs...))
					if len(f) > gu.digits {
						f = f[:gu.digits]
					}
					cnt += "." + f
				} else if rng.Bool() {
					cnt += ".5" // half a nanosecond: rounded towards zero
				}
			case 2:
				if gu.digits > 0 && rng.Bool() {
					cnt = ".5" // no whole part
				} else if rng.Bool() {
					cnt += "." // no fraction digits
				}
			}
			sb.WriteString(cnt + gu.text)
			total.Add(total, exactNs(cnt, gu.ns))
			idx += 1 + rng.Intn(3)
		}
		q := "'"
		if rng.Intn(3) == 0 {
			q = "\""
		}
		return withinDraw{[]lx{W, V(q + sb.String() + q)}, total, "quoted_go_duration"}
	case 2: // integer count
		uw := c11UnitWords[u%len(c11UnitWords)]
		cnt := wholePart(rng)
		if rng.Intn(6) == 0 {
			cnt = fmt.Sprint([]int{1500, 86400, 1000000, 90061, 250}[rng.Intn(5)])
		}
		return withinDraw{[]lx{W, V(cnt), K(uw.word)}, exactNs(cnt, uw.ns), "integer_unit"}
	case 3: // dyadic fraction: count and product exactly representable in float64
		uw := c11UnitWords[u%len(c11UnitWords)]
		cnt := wholePart(rng) + "." + rng.Pick(dyadicFracs) // ("3." is refused by the lexer: INVALID_NUMBER)
		return withinDraw{[]lx{W, V(cnt), K(uw.word)}, exactNs(cnt, uw.ns), "fraction_unit"}
	case 4: // decimal fraction that is not a binary fraction
		uw := c11UnitWords[u%len(c11UnitWords)]
		cnt := fmt.Sprint(rng.Range(0, 99)) + "." + rng.Pick(decimalFracs)
		if u%4 == 3 { // counts whose float64 product with the unit is known to land below the exact product
			wit := floatWitnesses[rng.Intn(len(floatWitnesses))]
			cnt, uw = wit.count, c11UnitWords[wit.class*5+rng.Intn(5)]
		}
		return withinDraw{[]lx{W, V(cnt), K(uw.word)}, exactNs(cnt, uw.ns), "decimal_fraction_unit"}
	default: // below the grain of the unit: rounded towards zero
		uw := c11UnitWords[u%5] // the nanosecond spellings
		cnt := fmt.Sprint(rng.Range(0, 40)) + "." + rng.Pick([]string{"5", "25", "75", "125", "875"})
		return withinDraw{[]lx{W, V(cnt), K(uw.word)}, exactNs(cnt, uw.ns), "sub_nanosecond_fraction"}
	}
}

type mrPattern struct {
	lex   []lx     // "(" ... ")"
	syms  []string // the pattern variables in the order written
	shape string   // the pattern tree as written (c11_pattern.go)
	tag   string   // which quantifier form was forced (input distribution)
}

var mrCols = []string{"ts", "seq", "deviceId", "region", "`device id`", "`order`", "`within`", "v", "_k", "site.id"}

func bare(s string) string {
	if len(s) >= 2 && s[0] == '`' && s[len(s)-1] == '`' {
		return s[1 : len(s)-1]
	}
	return s
}

type gMR struct {
	lex []lx
	exp []string
	tag string
}

func hexList(xs []string) string {
	if len(xs) == 0 {
		return "-"
	}
	h := make([]string, len(xs))
	for i, x := range xs {
		h[i] = hx(x)
	}
	return strings.Join(h, ";")
}

// genMR: one MATCH_RECOGNIZE statement with the given WITHIN clause.
func genMR(rng *RNG, w withinDraw, i int) gMR {
	p := genPattern(rng, i)
	var l []lx
	l = append(l, K("SELECT"), V("*"), K("FROM"), V(rng.Pick([]string{"stream", "s1", "events"})), K("MATCH_RECOGNIZE"), V("("))
	// PARTITION BY
	var part []string
	if rng.Intn(3) > 0 {
		l = append(l, K("PARTITION"), K("BY"))
		n := 1 + rng.Intn(2)
		for i := 0; i < n; i++ {
			c := mrCols[2+rng.Intn(len(mrCols)-2)]
			if i > 0 {
				l = append(l, V(","))
			}
			l = append(l, V(c))
			part = append(part, bare(c))
		}
	}
	// ORDER BY (required; DESC is refused for MATCH_RECOGNIZE)
	var ord []string
	l = append(l, K("ORDER"), K("BY"))
	for i, n := 0, 1+rng.Intn(2); i < n; i++ {
		c := mrCols[rng.Intn(len(mrCols))]
		if i == 0 && rng.Intn(3) > 0 {
			c = "ts"
		}
		if i > 0 {
			l = append(l, V(","))
		}
		l = append(l, V(c))
		if rng.Intn(4) == 0 {
			l = append(l, K("ASC"))
		}
		ord = append(ord, bare(c))
	}
	// the other clauses in a random order
	type clause struct {
		lex []lx
	}
	var cls []clause
	var measures, defines, subsets []string
	allRows, skipKind, skipSym := false, 0, ""
	if rng.Intn(4) > 0 { // MEASURES
		cl := []lx{K("MEASURES")}
		for i, n := 0, 1+rng.Intn(3); i < n; i++ {
			if i > 0 {
				cl = append(cl, V(","))
			}
			s := p.syms[rng.Intn(len(p.syms))]
			switch rng.Intn(4) {
			case 0:
				cl = append(cl, V(s+".v"))
			case 1:
				cl = append(cl, K("LAST"), V("("), V(s+".v"), V(")"))
			case 2:
				cl = append(cl, V(s+".v"), V("-"), K("FIRST"), V("("), V(s+".v"), V(")"))
			default:
				cl = append(cl, K("COUNT"), V("("), V("*"), V(")"))
			}
			al := []string{"av", "`first v`", "m_1", "`within`", "total", "lv"}[rng.Intn(6)] + ""
			if strings.HasPrefix(al, "`") {
				al = al[:len(al)-1] + fmt.Sprint(i) + "`"
			} else {
				al += fmt.Sprint(i)
			}
			cl = append(cl, K("AS"), V(al))
			measures = append(measures, bare(al))
		}
		cls = append(cls, clause{cl})
	}
	switch rng.Intn(3) { // ROWS PER MATCH
	case 1:
		cls = append(cls, clause{[]lx{K("ONE"), K("ROW"), K("PER"), K("MATCH")}})
	case 2:
		cls = append(cls, clause{[]lx{K("ALL"), K("ROWS"), K("PER"), K("MATCH")}})
		allRows = true
	}
	if rng.Intn(3) > 0 { // AFTER MATCH SKIP
		cl := []lx{K("AFTER"), K("MATCH"), K("SKIP")}
		sym := p.syms[rng.Intn(len(p.syms))]
		switch rng.Intn(5) {
		case 0:
			cl = append(cl, K("PAST"), K("LAST"), K("ROW"))
		case 1:
			cl = append(cl, K("TO"), K("NEXT"), K("ROW"))
			skipKind = 1
		case 2:
			cl = append(cl, K("TO"), K("FIRST"), V(sym))
			skipKind, skipSym = 2, sym
		case 3:
			cl = append(cl, K("TO"), K("LAST"), V(sym))
			skipKind, skipSym = 3, sym
		default:
			cl = append(cl, K("TO"), V(sym))
			skipKind, skipSym = 4, sym
		}
		cls = append(cls, clause{cl})
	}
	cls = append(cls, clause{append([]lx{K("PATTERN")}, p.lex...)})
	if rng.Intn(4) == 0 && len(p.syms) >= 2 { // SUBSET
		cl := []lx{K("SUBSET")}
		for i, n := 0, 1+rng.Intn(2); i < n; i++ {
			if i > 0 {
				cl = append(cl, V(","))
			}
			name := []string{"S", "T", "Sub_1"}[i+rng.Intn(2)]
			a, b := p.syms[0], p.syms[1+rng.Intn(len(p.syms)-1)]
			cl = append(cl, V(name), V("="), V("("), V(a), V(","), V(b), V(")"))
			subsets = append(subsets, hx(name)+":"+hx(a)+"+"+hx(b))
		}
		cls = append(cls, clause{cl})
	}
	if w.lex != nil {
		cls = append(cls, clause{w.lex})
	}
	if rng.Intn(6) > 0 { // DEFINE
		cl := []lx{K("DEFINE")}
		n := 1 + rng.Intn(len(p.syms))
		for i := 0; i < n; i++ {
			if i > 0 {
				cl = append(cl, V(","))
			}
			s := p.syms[i]
			cl = append(cl, V(s), K("AS"))
			switch rng.Intn(6) {
			case 0:
				cl = append(cl, V(s+".v"), V(">"), V("0"))
			case 1:
				cl = append(cl, V("v"), V("<"), V("10"), K("AND"), V("v"), V(">="), V("-1.5"))
			case 2: // a literal that spells a WITHIN clause is data
				cl = append(cl, V("note"), V("="), V(rng.Pick([]string{"'WITHIN 9 HOURS'", "\"within '1s'\"", "'PATTERN (A) DEFINE'", "'x) WITHIN 5 S'"})))
			case 3:
				cl = append(cl, V("("), V(s+".v"), V(">"), K("LAST"), V("("), V(p.syms[0]+".v"), V(")"), V(")"))
			case 4:
				cl = append(cl, V("`within`"), V("!="), V("2"))
			default:
				cl = append(cl, V("v"), V(">"), V("1.5"))
			}
			defines = append(defines, s)
		}
		cls = append(cls, clause{cl})
	}
	for i := len(cls) - 1; i > 0; i-- { // shuffle
		j := rng.Intn(i + 1)
		cls[i], cls[j] = cls[j], cls[i]
	}
	for _, c := range cls {
		l = append(l, c.lex...)
	}
	l = append(l, V(")"))
	if rng.Intn(5) == 0 {
		l = append(l, K("WHERE"), V("m_1"), V(">"), V("1"))
	}
	sk := "-"
	if skipSym != "" {
		sk = hx(skipSym)
	}
	exp := []string{"MK=2", "MP=" + hexList(part), "MO=" + hexList(ord), "MR=" + b01(allRows), fmt.Sprintf("MS=%d,%s", skipKind, sk),
		"MW=" + w.ns.String(), "MM=" + hexList(measures), "MD=" + hexList(defines), "MU=" + joinOrDash(subsets), "MT=" + hexList(p.syms), "MQ=" + p.shape}
	return gMR{l, exp, p.tag}
}

func joinOrDash(xs []string) string {
	if len(xs) == 0 {
		return "-"
	}
	return strings.Join(xs, ";")
}

func patternSymbols(n *types.PatternNode, acc *[]string) {
	if n == nil {
		return
	}
	if n.Kind == types.PatternLiteral {
		*acc = append(*acc, n.Symbol)
	}
	for _, c := range n.Children {
		patternSymbols(c, acc)
	}
}

func projectMR(cfg *types.Config) string {
	mr := cfg.MatchRecognize
	if mr == nil {
		return fmt.Sprintf("MK=%d MX=no_match_recognize_in_config", int(cfg.Mode))
	}
	var ord, ms, ds, us, ps []string
	for _, o := range mr.OrderBy {
		c := o.Expression
		if o.Direction == types.SortDesc {
			c += " DESC"
		}
		ord = append(ord, c)
	}
	for _, m := range mr.Measures {
		ms = append(ms, m.Alias)
	}
	for _, d := range mr.Defines {
		ds = append(ds, d.Symbol)
	}
	for _, u := range mr.Subsets {
		var hs []string
		for _, s := range u.Symbols {
			hs = append(hs, hx(s))
		}
		us = append(us, hx(u.Name)+":"+strings.Join(hs, "+"))
	}
	patternSymbols(mr.Pattern, &ps)
	sk := "-"
	if mr.SkipSymbol != "" {
		sk = hx(mr.SkipSymbol)
	}
	return strings.Join([]string{fmt.Sprintf("MK=%d", int(cfg.Mode)), "MP=" + hexList(mr.PartitionBy), "MO=" + hexList(ord), "MR=" + b01(mr.RowsPerMatch == types.RowsPerMatchAll),
		fmt.Sprintf("MS=%d,%s", int(mr.Skip), sk), fmt.Sprintf("MW=%d", int64(mr.Within)), "MM=" + hexList(ms), "MD=" + hexList(ds), "MU=" + joinOrDash(us), "MT=" + hexList(ps), "MQ=" + patShape(mr.Pattern)}, " ")
}

// c11WithinFamily writes the M lines.  Every form x every unit spelling is drawn at least once per run.
func c11WithinFamily(seed uint64, o *Out, tier string) {
	rng := NewRNG(seed ^ 0x5717411)
	rng.s = rng.Next() ^ 0xC11AAAA
	n := 240
	if tier == "thorough" {
		n = 2400
	}
	forms := []int{2, 3, 1, 3, 4, 2, 3, 1, 5, 3, 0, 3, 4, 1, 3} // fractions with a unit word weigh most
	drawn := map[int]int{}
	for i := 0; i < n; i++ {
		form := forms[i%len(forms)]
		w := drawWithin(rng, form, drawn[form]) // walks through all 30 / 8 unit spellings of each form
		drawn[form]++
		g := genMR(rng, w, i)
		exp := strings.Join(g.exp, " ")
		variants := []string{render(rng, g.lex, 0, 0), render(rng, g.lex, 1, 1), render(rng, g.lex, 2, 0)}
		for k := 0; k < 3; k++ {
			variants = append(variants, render(rng, g.lex, 3+rng.Intn(3), rng.Intn(4)))
		}
		for _, sql := range variants {
			out, cfg, _, err := parseGuard(sql, 2*time.Second)
			obs := ""
			switch out {
			case "ok":
				obs = projectMR(cfg)
			case "err":
				obs = "ERR " + hx(firstLine(err.Error()))
			default:
				obs = "ERR " + hx(out)
			}
			o.Line("C11 M %s # %s # %s", hx(sql), exp, obs)
		}
		o.Count("mr_within_" + w.form)
		o.Count("mr_pattern_" + g.tag)
	}
}
