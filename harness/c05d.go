package main

// C05, fourth part.
//
// R lines — "a single producer's results reach ... the CHANNEL in emission order": the result channel
//   (GetResultsChan / ToChannel) of a direct query under backpressure.  sendResultNonBlocking offers every
//   result batch to a bounded channel (ResultChannelSize, default 100); when it is full the OLDEST batch
//   is taken out and dropped.  A generated star-free query whose first item is the row's id runs on a
//   stream with a result channel of 1-8 slots (or the default 100); ONE producer emits the rows.
//     stepped: the harness owns the schedule.  Phases "emit k rows and wait until the synchronous sink
//              (which runs after the channel send, on the same goroutine) has seen all their results"
//              alternate with phases "take j batches from the channel without blocking"; k is below, at
//              and far above the capacity; at the end the channel is drained.  With no read phase before
//              the drain the run is "quiet" (a reader that is arbitrarily far behind).
//     free:    a reader goroutine takes batches with small pauses while the producer emits a few hundred
//              rows as fast as it can; afterwards it drains.
//   Judged by the extracted model and checkers (Model/ResultChan.v, Spec/ResultChanSpec.v):
//     the sink sequence must be the model's delivered (map (direct q) rows)        (as in the X lines),
//     every row read from the channel must be the result the sink got for that id  (result_channel_row),
//     the ids read must be a subsequence of the emission order: rc_check          (result_channel_order),
//     quiet: they must be the newest min(cap, n) ids: rc_suffix                    (result_channel_eviction),
//     stepped: the batches read in every phase must be those of rc_step replayed on the same schedule
//              (diff result_channel).
//
// W lines — "a result is produced iff the WHERE predicate is true for the row", for the WHERE shapes
//   that have an evaluator of their own: a flat, parenthesis-free chain of 2-3 `column OP literal`
//   comparisons joined by AND only or OR only, on rows in which referenced columns are absent or NULL.
//   The same rows go through the same chain with every comparison parenthesised (general evaluator);
//   the two decisions must agree (where_spelling_dependent: implementation-level differential, the
//   meaning of a condition does not depend on redundant parentheses), and the flat one is judged
//   against the model like a Q line.

import (
	"fmt"
	"runtime"
	"strings"
	"sync"
	"sync/atomic"
	"time"

	"github.com/rulego/streamsql"
	"github.com/rulego/streamsql/stream"
	"github.com/rulego/streamsql/types"
)

type c05Batch struct {
	phase int
	rows  []map[string]any
}

func c05RchanStream(sql string, rcap int) (*streamsql.Streamsql, error) {
	var s *streamsql.Streamsql
	if rcap <= 0 {
		s = streamsql.New(streamsql.WithDiscardLog()) // default options: ResultChannelSize 100
	} else {
		pc := types.DefaultPerformanceConfig()
		pc.BufferConfig.ResultChannelSize = rcap
		s = streamsql.New(streamsql.WithDiscardLog(), streamsql.WithCustomPerformance(pc))
	}
	if err := s.Execute(sql); err != nil {
		s.Stop()
		return nil, err
	}
	return s, nil
}

func c05Passes(ref *streamsql.Streamsql, row rowT) bool {
	return guard(func() string {
		res, err := ref.EmitSync(c05WithID(row, 0).goMap())
		if err != nil || res == nil {
			return "0"
		}
		return "1"
	}) == "1"
}

func c05WaitCount(count func() int, want int, d time.Duration) bool {
	deadline := time.Now().Add(d)
	for count() < want {
		if time.Now().After(deadline) {
			return false
		}
		time.Sleep(200 * time.Microsecond)
	}
	return true
}

func c05RLine(o *Out, mode, sql string, q *query, rows []rowT, dropped int64, rcap int, script []string, sink []map[string]any, got []c05Batch) {
	var sb strings.Builder
	fmt.Fprintf(&sb, "C05 R %s %s # %s # %d %d %d %d # %s", mode, hx(sql), q.c06_enc(), len(rows), dropped, rcap, len(sink), strings.Join(script, " "))
	for _, row := range rows {
		sb.WriteString(" # " + row.c06_enc())
	}
	for _, res := range sink {
		sb.WriteString(" # " + resEnc(res, nil))
	}
	for bi, b := range got {
		for _, res := range b.rows {
			fmt.Fprintf(&sb, " # B %d %d %s", b.phase, bi, resEnc(res, nil))
		}
		if len(b.rows) == 0 {
			fmt.Fprintf(&sb, " # B %d %d empty", b.phase, bi)
		}
	}
	o.Line("%s", sb.String())
}

// the counts of one emission phase relative to the capacity: below, at, just above, far above
func c05EmitCount(r *RNG, rcap int) int {
	var k int
	switch r.Intn(7) {
	case 0:
		k = 1
	case 1:
		k = rcap - 1
	case 2:
		k = rcap
	case 3:
		k = rcap + 1
	case 4:
		k = 2*rcap + 1 + r.Intn(3)
	case 5:
		k = 3*rcap + r.Intn(2*rcap+2)
	default:
		k = 1 + r.Intn(2*rcap+2)
	}
	if k < 1 {
		k = 1
	}
	return k
}

// ---------------------------------------------------------------- R stepped
func c05RchanStepped(r *RNG, o *Out, deflt bool) {
	q := c05IdQuery(r, nil)
	sql := q.sql()
	ref := streamsql.New(streamsql.WithDiscardLog())
	if err := ref.Execute(sql); err != nil {
		ref.Stop()
		o.Count("rchan/rejected")
		return
	}
	defer ref.Stop()
	rcap, capArg := 100, 0
	if !deflt {
		rcap = []int{1, 1, 2, 2, 3, 4, 5, 8}[r.Intn(8)]
		capArg = rcap
	}
	// the schedule: e<k> r<j> e<k> ... d
	type phase struct {
		emit bool
		n    int
	}
	var phases []phase
	quiet := r.Intn(5) < 2
	if deflt {
		n := []int{60, 100, 101, 150, 230, 300}[r.Intn(6)]
		if quiet {
			phases = append(phases, phase{true, n})
		} else {
			phases = append(phases, phase{true, n}, phase{false, 1 + r.Intn(120)}, phase{true, 1 + r.Intn(130)})
		}
	} else {
		np := 1
		if !quiet {
			np = 2 + r.Intn(3)
		}
		for i := 0; i < np; i++ {
			k := c05EmitCount(r, rcap)
			if quiet && r.Bool() {
				k = rcap + 1 + r.Intn(4*rcap+3) // a reader that is far behind
			}
			phases = append(phases, phase{true, k})
			if i+1 < np {
				phases = append(phases, phase{false, []int{1, 1, 2, (rcap + 1) / 2, rcap, rcap + 2}[r.Intn(6)]})
			}
		}
	}
	pool := make([]rowT, 6)
	pass := make([]bool, 6)
	for i := range pool {
		pool[i] = c05PickRow(r, ref, i < 4)
		pass[i] = c05Passes(ref, pool[i])
	}
	s, err := c05RchanStream(sql, capArg)
	if err != nil {
		o.Count("rchan/rejected")
		return
	}
	sink := newC05Sink()
	s.AddSyncSink(sink.fn)
	ch := s.ToChannel()
	var rows []rowT
	var got []c05Batch
	var script []string
	want, ok := 0, true
	recv := func(ph, n int) {
		for i := 0; n < 0 || i < n; i++ {
			select {
			case b := <-ch:
				cp := make([]map[string]any, len(b))
				for j, x := range b {
					cp[j] = copyMap(x)
				}
				got = append(got, c05Batch{ph, cp})
			default:
				return
			}
		}
	}
	for pi, p := range phases {
		if p.emit {
			script = append(script, fmt.Sprintf("e%d", p.n))
			for i := 0; i < p.n; i++ {
				k := r.Intn(len(pool))
				// the last row of a phase produces a result, so that the wait below is also a barrier for the
				// filtered rows before it
				if i == p.n-1 && !pass[k] {
					for j := range pool {
						if pass[j] {
							k = j
						}
					}
				}
				row := c05WithID(pool[k], len(rows))
				rows = append(rows, row)
				if pass[k] {
					want++
				}
				s.Emit(row.goMap())
			}
			if !c05WaitCount(sink.n, want, 20*time.Second) {
				ok = false
				break
			}
		} else {
			script = append(script, fmt.Sprintf("r%d", p.n))
			recv(pi, p.n)
		}
	}
	if ok {
		script = append(script, "d")
		recv(len(phases), -1)
	}
	st := s.GetStats()
	c05StopWithin(s, 8*time.Second)
	if !ok {
		o.Count("rchan/sink-did-not-see-the-rows-in-time")
		return
	}
	if int(st[stream.ResultChanCap]) != rcap {
		o.Count("rchan/capacity-not-applied")
		return
	}
	mode := "stepped"
	if quiet {
		mode = "quiet"
	}
	c05RLine(o, mode, sql, q, rows, st[stream.InputDroppedCount], rcap, script, sink.results(), got)
	o.Count("rchan/" + mode)
	if len(sink.results()) > rcap {
		o.Count("rchan/" + mode + "-overflowed")
	}
}

// ---------------------------------------------------------------- R free
func c05RchanFree(r *RNG, o *Out, n int) {
	q := c05IdQuery(r, nil)
	sql := q.sql()
	ref := streamsql.New(streamsql.WithDiscardLog())
	if err := ref.Execute(sql); err != nil {
		ref.Stop()
		o.Count("rchan/rejected")
		return
	}
	defer ref.Stop()
	rcap := []int{1, 2, 3, 5, 8}[r.Intn(5)]
	pool := make([]rowT, 6)
	pass := make([]bool, 6)
	for i := range pool {
		pool[i] = c05PickRow(r, ref, i < 4)
		pass[i] = c05Passes(ref, pool[i])
	}
	s, err := c05RchanStream(sql, rcap)
	if err != nil {
		o.Count("rchan/rejected")
		return
	}
	sink := newC05Sink()
	s.AddSyncSink(sink.fn)
	ch := s.ToChannel()
	var mu sync.Mutex
	var got []c05Batch
	var stop int32
	done := make(chan struct{})
	pause := 1 + r.Intn(4)
	go func() {
		defer close(done)
		k := 0
		for {
			select {
			case b := <-ch:
				cp := make([]map[string]any, len(b))
				for j, x := range b {
					cp[j] = copyMap(x)
				}
				mu.Lock()
				got = append(got, c05Batch{0, cp})
				mu.Unlock()
				k++
				if k%pause == 0 {
					time.Sleep(30 * time.Microsecond)
				} else {
					runtime.Gosched()
				}
			default:
				if atomic.LoadInt32(&stop) == 1 {
					return
				}
				runtime.Gosched()
			}
		}
	}()
	var rows []rowT
	want := 0
	for i := 0; i < n; i++ {
		k := r.Intn(len(pool))
		if i == n-1 && !pass[k] {
			for j := range pool {
				if pass[j] {
					k = j
				}
			}
		}
		row := c05WithID(pool[k], i)
		rows = append(rows, row)
		if pass[k] {
			want++
		}
		s.Emit(row.goMap())
	}
	ok := c05WaitCount(sink.n, want, 20*time.Second)
	atomic.StoreInt32(&stop, 1) // the reader drains what is left and returns
	<-done
	st := s.GetStats()
	c05StopWithin(s, 8*time.Second)
	if !ok {
		o.Count("rchan/sink-did-not-see-the-rows-in-time")
		return
	}
	c05RLine(o, "free", sql, q, rows, st[stream.InputDroppedCount], rcap, []string{"free"}, sink.results(), got)
	o.Count("rchan/free")
	if len(got) < len(sink.results()) {
		o.Count("rchan/free-lost-some")
	}
}

// ---------------------------------------------------------------- W: flat chains over sparse rows
func c05FlatChains(r *RNG, o *Out, nq int) {
	numCols := []string{"a", "b", "m", "id"}
	txtCols := []string{"s", "t", "m"}
	for i := 0; i < nq; i++ {
		np := 2 + r.Intn(2)
		conn := "and"
		if r.Bool() {
			conn = "or"
		}
		var flat, par *ex
		var used []string
		for k := 0; k < np; k++ {
			var part *ex
			if r.Intn(3) == 0 {
				c := r.Pick(txtCols)
				used = append(used, c)
				part = cmp(r.Pick([]string{"eq", "ne", "ne"}), col(c), str(r.Pick([]string{"ab", "b", "abc", "zz", "off"})))
			} else {
				c := r.Pick(numCols)
				used = append(used, c)
				p := [][2]int64{{0, 1}, {1, 1}, {2, 1}, {3, 1}, {5, 1}, {1, 2}, {5, 2}, {10, 1}}[r.Intn(8)]
				part = cmp(r.Pick([]string{"eq", "ne", "ne", "lt", "le", "gt", "ge"}), col(c), num(p[0], p[1]))
			}
			pp := &ex{k: "par", l: part}
			if flat == nil {
				flat, par = part, pp
			} else {
				flat, par = &ex{k: conn, l: flat, r: part}, &ex{k: conn, l: par, r: pp}
			}
		}
		mk := func(w *ex) *query {
			return &query{items: []qitem{{kind: "col", src: "id", out: "id"}, {kind: "col", src: "a", out: "a"}}, where: w}
		}
		qf, qp := mk(flat), mk(par)
		sf := streamsql.New(streamsql.WithDiscardLog())
		sp := streamsql.New(streamsql.WithDiscardLog())
		if err1, err2 := sf.Execute(qf.sql()), sp.Execute(qp.sql()); err1 != nil || err2 != nil {
			sf.Stop()
			sp.Stop()
			o.Count("flat/rejected")
			continue
		}
		for k := 0; k < 6; k++ {
			row := c05WithID(typedRow(r), 1+r.Intn(9))
			for _, c := range used {
				switch r.Intn(6) {
				case 0, 1:
					delete(row, c)
				case 2:
					row[c] = cell{kind: "N"}
				}
			}
			m := row.goMap()
			get := func(s *streamsql.Streamsql) string {
				return guard(func() string { res, err := s.EmitSync(copyMap(m)); return resEnc(res, err) })
			}
			o.Line("C05 W %s %s # %s # %s # %s # %s", hx(qf.sql()), hx(qp.sql()), qf.c06_enc(), row.c06_enc(), get(sf), get(sp))
			o.Count("flat/rows")
		}
		sf.Stop()
		sp.Stop()
	}
}

func c05Output(tier string, seed uint64, o *Out) {
	nStep, nDef, nFree, nRows, nFlat := 26, 4, 4, 300, 40
	if tier == "thorough" {
		nStep, nDef, nFree, nRows, nFlat = 200, 20, 30, 1000, 400
	}
	r := NewRNG(seed*1000003 + 525)
	for i := 0; i < nStep; i++ {
		c05RchanStepped(r, o, false)
	}
	for i := 0; i < nDef; i++ {
		c05RchanStepped(r, o, true)
	}
	for i := 0; i < nFree; i++ {
		c05RchanFree(r, o, nRows)
	}
	c05FlatChains(NewRNG(seed*1000003+535), o, nFlat)
}
