package main

// C07 — post-aggregation clauses. Four families of case lines (the M family lives in c07b.go):
//   C07 Q ...  a generated aggregation query run on ONE batch of generated rows, either through the
//              verif batch runner (mode h: the real aggregator + processAggregationResults, no window,
//              1-6 groups) or through the public API on CountingWindow(N) (mode p: one group);
//   C07 S ...  stream.NewSorter(keys).Sort(rows) directly, incl. missing keys and mixed column types;
//   C07 V ...  compareOrderValues on a pair of values.
// Family T (c07c.go) writes Q lines with mode t: DISTINCT over groups whose keys differ only in their Go type.
// Numbers travel as exact rationals of the float64/int the engine delivered.

import (
	"encoding/hex"
	"fmt"
	"math/big"
	"sort"
	"strings"
	"sync"

	"github.com/rulego/streamsql"
	"github.com/rulego/streamsql/rsql"
	"github.com/rulego/streamsql/stream"
	"github.com/rulego/streamsql/types"
)

func init() { runners["C07"] = runC07 }

// ---------------------------------------------------------------- ASTs
type c7aexp struct {
	kind byte // 'f' field, 'l' literal, 'b' binary, '*' star
	f    int
	lit  int
	op   byte
	x, y *c7aexp
}

var c7fields = []string{"t", "u", "w"}

func c7prec(op byte) int {
	if op == '+' || op == '-' {
		return 1
	}
	return 2
}

func (a *c7aexp) sql() string {
	switch a.kind {
	case 'f':
		return c7fields[a.f]
	case 'l':
		return fmt.Sprint(a.lit)
	case '*':
		return "*"
	}
	l, r := a.x.sql(), a.y.sql()
	if a.x.kind == 'b' && c7prec(a.x.op) < c7prec(a.op) {
		l = "(" + l + ")"
	}
	if a.y.kind == 'b' && c7prec(a.y.op) <= c7prec(a.op) {
		r = "(" + r + ")"
	}
	return l + " " + string(a.op) + " " + r
}
func (a *c7aexp) tok() string {
	switch a.kind {
	case 'f':
		return fmt.Sprintf("f %d", a.f)
	case 'l':
		return fmt.Sprintf("l %d", a.lit)
	case '*':
		return "st"
	}
	return fmt.Sprintf("b %c %s %s", a.op, a.x.tok(), a.y.tok())
}

type c7pexp struct {
	kind     byte // 'A' aggregate call, 'L' literal num/den, 'B' binary, 'P' parenthesis
	agg      string
	arg      *c7aexp
	num, den int64
	op       byte
	x, y     *c7pexp
	upper    bool
}

func c7lit(num, den int64) string {
	r := new(big.Rat).SetFrac64(num, den)
	if r.IsInt() {
		return r.Num().String()
	}
	return strings.TrimRight(r.FloatString(3), "0")
}
func (p *c7pexp) sql() string {
	switch p.kind {
	case 'A':
		n := p.agg
		if p.upper {
			n = strings.ToUpper(n)
		}
		return n + "(" + p.arg.sql() + ")"
	case 'L':
		return c7lit(p.num, p.den)
	case 'P':
		return "(" + p.x.sql() + ")"
	}
	return p.x.sql() + " " + string(p.op) + " " + p.y.sql()
}
func (p *c7pexp) tok() string {
	switch p.kind {
	case 'A':
		return fmt.Sprintf("A %s %s", p.agg, p.arg.tok())
	case 'L':
		return fmt.Sprintf("L %d %d", p.num, p.den)
	case 'P':
		return "P " + p.x.tok()
	}
	return fmt.Sprintf("B %c %s %s", p.op, p.x.tok(), p.y.tok())
}
func (p *c7pexp) usesDiv() bool {
	switch p.kind {
	case 'A':
		return p.agg == "avg"
	case 'L':
		return false
	case 'P':
		return p.x.usesDiv()
	}
	return p.op == '/' || p.x.usesDiv() || p.y.usesDiv()
}

type c7hexp struct {
	kind byte // 'c' column, 'A' aggregate call, 'L' literal, 'B' binary
	col  string
	name string
	call *c7pexp
	lit  int
	op   byte
	x, y *c7hexp
}

func (h *c7hexp) sql() string {
	switch h.kind {
	case 'c':
		return h.name
	case 'A':
		return h.call.sql()
	case 'L':
		return fmt.Sprint(h.lit)
	}
	l, r := h.x.sql(), h.y.sql()
	if h.x.kind == 'B' && c7prec(h.x.op) < c7prec(h.op) {
		l = "(" + l + ")"
	}
	if h.y.kind == 'B' && c7prec(h.y.op) <= c7prec(h.op) {
		r = "(" + r + ")"
	}
	return l + " " + string(h.op) + " " + r
}
func (h *c7hexp) tok() string {
	switch h.kind {
	case 'c':
		return "c " + h.col
	case 'A':
		return h.call.tok()
	case 'L':
		return fmt.Sprintf("L %d 1", h.lit)
	}
	return fmt.Sprintf("B %c %s %s", h.op, h.x.tok(), h.y.tok())
}
func (h *c7hexp) usesDiv() bool {
	switch h.kind {
	case 'A':
		return h.call.usesDiv()
	case 'B':
		return h.x.usesDiv() || h.y.usesDiv()
	}
	return false
}

type c7hpred struct {
	kind byte // '?' comparison, '&', '|', 'C' searched CASE as the condition, 'K' searched CASE cmp z (c07b.go)
	cmp  string
	x, y *c7hexp
	p, q *c7hpred
	// 'C' / 'K'
	whens []c7when
	els   *c7hexp
	z     *c7hexp
}

func (h *c7hpred) sql() string {
	switch h.kind {
	case '?':
		return h.x.sql() + " " + h.cmp + " " + h.y.sql()
	case 'C':
		return h.caseSQL()
	case 'K':
		return h.caseSQL() + " " + h.cmp + " " + h.z.sql()
	case '&':
		return h.p.sql() + " AND " + h.q.sql()
	}
	return "(" + h.p.sql() + " OR " + h.q.sql() + ")"
}

var c7cmpTok = map[string]string{">": "gt", ">=": "ge", "<": "lt", "<=": "le", "=": "eq", "==": "eq", "!=": "ne"}

func (h *c7hpred) tok() string {
	switch h.kind {
	case '?':
		return fmt.Sprintf("? %s %s %s", c7cmpTok[h.cmp], h.x.tok(), h.y.tok())
	case 'C':
		return "C " + h.caseTok()
	case 'K':
		return "K " + c7cmpTok[h.cmp] + " " + h.caseTok() + " " + h.z.tok()
	case '&':
		return "& " + h.p.tok() + " " + h.q.tok()
	}
	return "| " + h.p.tok() + " " + h.q.tok()
}
func (h *c7hpred) usesDiv() bool {
	switch h.kind {
	case '?':
		return h.x.usesDiv() || h.y.usesDiv()
	case 'C', 'K':
		return h.caseUsesDiv()
	}
	return h.p.usesDiv() || h.q.usesDiv()
}

// ---------------------------------------------------------------- generators
func c7genAexp(rng *RNG, depth int) *c7aexp {
	if depth == 0 || rng.Intn(3) > 0 {
		return &c7aexp{kind: 'f', f: rng.Intn(3)}
	}
	ops := "+-*"
	x := c7genAexp(rng, depth-1)
	var y *c7aexp
	if rng.Bool() {
		y = &c7aexp{kind: 'l', lit: rng.Range(1, 4)}
	} else {
		y = c7genAexp(rng, depth-1)
	}
	return &c7aexp{kind: 'b', op: ops[rng.Intn(3)], x: x, y: y}
}

var c7aggs = []string{"sum", "avg", "min", "max", "count"}

func c7genCall(rng *RNG, argDepth int) *c7pexp {
	agg := c7aggs[rng.Intn(len(c7aggs))]
	var arg *c7aexp
	if agg == "count" && rng.Bool() {
		arg = &c7aexp{kind: '*'}
	} else {
		arg = c7genAexp(rng, argDepth)
	}
	return &c7pexp{kind: 'A', agg: agg, arg: arg, upper: rng.Bool()}
}

var c7lits = [][2]int64{{0, 1}, {1, 1}, {2, 1}, {3, 1}, {4, 1}, {5, 1}, {10, 1}, {32, 1}, {1, 2}, {3, 2}, {1, 4}, {5, 2}}

func c7wrap(p *c7pexp) *c7pexp { return &c7pexp{kind: 'P', x: p} }

// a divisor that is never zero: COUNT(*) / COUNT(f) / 2 / 4 / 0.5
func c7genDivisor(rng *RNG) *c7pexp {
	switch rng.Intn(4) {
	case 0:
		return &c7pexp{kind: 'A', agg: "count", arg: &c7aexp{kind: '*'}, upper: rng.Bool()}
	case 1:
		return &c7pexp{kind: 'A', agg: "count", arg: &c7aexp{kind: 'f', f: rng.Intn(3)}, upper: rng.Bool()}
	case 2:
		return &c7pexp{kind: 'L', num: int64(2 << uint(rng.Intn(2))), den: 1}
	}
	return &c7pexp{kind: 'L', num: 1, den: 2}
}

func c7genPexp(rng *RNG, depth int, argDepth int) *c7pexp {
	if depth == 0 {
		if rng.Intn(4) == 0 {
			l := c7lits[rng.Intn(len(c7lits))]
			return &c7pexp{kind: 'L', num: l[0], den: l[1]}
		}
		return c7genCall(rng, argDepth)
	}
	ops := "+-*/"
	op := ops[rng.Intn(4)]
	x := c7genPexp(rng, rng.Intn(depth), argDepth)
	var y *c7pexp
	if op == '/' {
		y = c7genDivisor(rng)
	} else {
		y = c7genPexp(rng, rng.Intn(depth), argDepth)
	}
	if x.kind == 'B' && (c7prec(x.op) < c7prec(op) || rng.Intn(5) == 0) {
		x = c7wrap(x)
	}
	if y.kind == 'B' && (c7prec(y.op) <= c7prec(op) || rng.Intn(5) == 0) {
		y = c7wrap(y)
	}
	return &c7pexp{kind: 'B', op: op, x: x, y: y}
}

func (p *c7pexp) hasAgg() bool {
	switch p.kind {
	case 'A':
		return true
	case 'L':
		return false
	case 'P':
		return p.x.hasAgg()
	}
	return p.x.hasAgg() || p.y.hasAgg()
}

// one SELECT item; the shapes named in the property's quantifier are all frequent
func c7genItem(rng *RNG) *c7pexp {
	for {
		var p *c7pexp
		switch rng.Intn(10) {
		case 0, 1: // agg(x)
			p = c7genCall(rng, 0)
		case 2: // agg(expression)
			p = c7genCall(rng, 2)
		case 3, 4: // agg(x) op literal [op literal]   (the F10 shape)
			l := c7lits[1+rng.Intn(len(c7lits)-1)]
			ops := "+-*/"
			op := ops[rng.Intn(4)]
			var y *c7pexp
			if op == '/' {
				y = c7genDivisor(rng)
			} else {
				y = &c7pexp{kind: 'L', num: l[0], den: l[1]}
			}
			p = &c7pexp{kind: 'B', op: op, x: c7genCall(rng, rng.Intn(2)), y: y}
			if rng.Bool() {
				l2 := c7lits[rng.Intn(len(c7lits))]
				p = &c7pexp{kind: 'B', op: "+-"[rng.Intn(2)], x: p, y: &c7pexp{kind: 'L', num: l2[0], den: l2[1]}}
			}
		case 5: // literal op agg(x)
			l := c7lits[rng.Intn(len(c7lits))]
			p = &c7pexp{kind: 'B', op: "+-*"[rng.Intn(3)], x: &c7pexp{kind: 'L', num: l[0], den: l[1]}, y: c7genCall(rng, rng.Intn(2))}
		case 6: // agg(x) op agg(y)
			op := "+-*/"[rng.Intn(4)]
			y := c7genCall(rng, rng.Intn(3))
			if op == '/' {
				y = c7genDivisor(rng)
			}
			p = &c7pexp{kind: 'B', op: op, x: c7genCall(rng, rng.Intn(3)), y: y}
		case 7: // parenthesised aggregate / sum of aggregates times something
			if rng.Intn(3) == 0 {
				p = c7wrap(c7genCall(rng, rng.Intn(2)))
			} else {
				in := &c7pexp{kind: 'B', op: "+-"[rng.Intn(2)], x: c7genCall(rng, rng.Intn(2)), y: c7genCall(rng, rng.Intn(2))}
				l := c7lits[1+rng.Intn(len(c7lits)-1)]
				p = &c7pexp{kind: 'B', op: "*/"[rng.Intn(2)], x: c7wrap(in), y: &c7pexp{kind: 'L', num: l[0], den: l[1]}}
				if p.op == '/' {
					p.y = c7genDivisor(rng)
				}
			}
		default:
			p = c7genPexp(rng, 1+rng.Intn(3), rng.Intn(3))
		}
		if p.hasAgg() {
			return p
		}
	}
}

type c7query struct {
	ngroup   int
	gnum     bool // group column 0 is numeric
	items    []*c7pexp
	aliased  []bool
	distinct bool
	having   *c7hpred
	order    [][2]string // column token, direction
	orderSQL []string
	hasLimit bool
	limit    int
	selGroup []bool // group column j is in the SELECT list
}

func (q *c7query) itemName(i int) string {
	if q.aliased[i] {
		return fmt.Sprintf("a%d", i)
	}
	return q.items[i].sql()
}

var c7gcols = []string{"g", "h"}

func c7genHexp(rng *RNG, q *c7query, depth int) *c7hexp {
	if depth > 0 && rng.Intn(3) == 0 {
		return &c7hexp{kind: 'B', op: "+-*"[rng.Intn(3)], x: c7genHexp(rng, q, depth-1), y: c7genHexp(rng, q, depth-1)}
	}
	switch rng.Intn(6) {
	case 0, 1: // alias of a selected item
		var al []int
		for i := range q.items {
			if q.aliased[i] {
				al = append(al, i)
			}
		}
		if len(al) > 0 {
			i := al[rng.Intn(len(al))]
			return &c7hexp{kind: 'c', col: fmt.Sprintf("i%d", i), name: fmt.Sprintf("a%d", i)}
		}
	case 2: // a selected plain aggregate, written again
		for i, it := range q.items {
			if it.kind == 'A' && rng.Bool() {
				_ = i
				return &c7hexp{kind: 'A', call: it}
			}
		}
	case 3:
		return &c7hexp{kind: 'L', lit: rng.Range(-5, 60)}
	case 4:
		if q.gnum && q.ngroup > 0 {
			return &c7hexp{kind: 'c', col: "g0", name: "g"}
		}
	}
	return &c7hexp{kind: 'A', call: c7genCall(rng, rng.Intn(2)*rng.Intn(3))} // usually unselected
}

func c7genHpred(rng *RNG, q *c7query, depth int) *c7hpred {
	if depth > 0 && rng.Intn(3) == 0 {
		k := byte('&')
		if rng.Bool() {
			k = '|'
		}
		return &c7hpred{kind: k, p: c7genHpred(rng, q, depth-1), q: c7genHpred(rng, q, depth-1)}
	}
	cmps := []string{">", ">=", "<", "<=", "=", "!=", ">", "<"}
	if rng.Intn(7) == 0 {
		// sibling calls: two (usually unselected) aggregates with the same function and the same first column whose
		// arguments differ - each needs its own hidden aggregate
		agg := []string{"sum", "avg", "min", "max"}[rng.Intn(4)]
		f := rng.Intn(3)
		a1 := &c7aexp{kind: 'f', f: f}
		var a2 *c7aexp
		if rng.Bool() {
			a2 = &c7aexp{kind: 'b', op: "+-*"[rng.Intn(3)], x: &c7aexp{kind: 'f', f: f}, y: &c7aexp{kind: 'f', f: rng.Intn(3)}}
		} else {
			a2 = &c7aexp{kind: 'b', op: "+*"[rng.Intn(2)], x: &c7aexp{kind: 'f', f: f}, y: &c7aexp{kind: 'l', lit: rng.Range(2, 4)}}
		}
		x := &c7hexp{kind: 'A', call: &c7pexp{kind: 'A', agg: agg, arg: a1, upper: rng.Bool()}}
		y := &c7hexp{kind: 'A', call: &c7pexp{kind: 'A', agg: agg, arg: a2, upper: rng.Bool()}}
		if rng.Bool() {
			x, y = y, x
		}
		return &c7hpred{kind: '?', cmp: cmps[rng.Intn(len(cmps))], x: x, y: y}
	}
	x := c7genHexp(rng, q, 1)
	var y *c7hexp
	if rng.Intn(3) > 0 {
		y = &c7hexp{kind: 'L', lit: rng.Range(-5, 80)}
	} else {
		y = c7genHexp(rng, q, 1)
	}
	return &c7hpred{kind: '?', cmp: cmps[rng.Intn(len(cmps))], x: x, y: y}
}

func c7genQuery(rng *RNG, ngroup int) *c7query {
	q := &c7query{ngroup: ngroup, gnum: rng.Bool()}
	n := rng.Range(1, 4)
	seenUnaliased := map[string]bool{}
	for i := 0; i < n; i++ {
		it := c7genItem(rng)
		al := true
		if it.kind == 'A' && it.arg.kind != 'b' && rng.Intn(5) == 0 && !seenUnaliased[it.sql()] {
			al = false
			seenUnaliased[it.sql()] = true
		}
		q.items = append(q.items, it)
		q.aliased = append(q.aliased, al)
	}
	for j := 0; j < ngroup; j++ {
		q.selGroup = append(q.selGroup, rng.Intn(4) > 0)
	}
	q.distinct = rng.Intn(4) == 0
	if rng.Intn(3) > 0 {
		if rng.Intn(3) == 0 {
			q.having = c7genCaseHaving(rng, q) // CASE forms: the other evaluation path of applyHavingFilter
		} else {
			q.having = c7genHpred(rng, q, 2)
		}
	}
	nk := rng.Intn(4)
	used := map[string]bool{}
	for k := 0; k < nk; k++ {
		var tok, name string
		switch {
		case ngroup > 0 && rng.Intn(3) == 0:
			j := rng.Intn(ngroup)
			tok, name = fmt.Sprintf("g%d", j), c7gcols[j]
		case rng.Intn(25) == 0:
			tok, name = "x7", "nosuch"
		default:
			i := rng.Intn(len(q.items))
			if !q.aliased[i] {
				continue
			}
			tok, name = fmt.Sprintf("i%d", i), fmt.Sprintf("a%d", i)
		}
		if used[tok] {
			continue
		}
		used[tok] = true
		dir, dsql := "a", ""
		switch rng.Intn(3) {
		case 0:
			dir, dsql = "d", " DESC"
		case 1:
			dsql = " ASC"
		}
		q.order = append(q.order, [2]string{tok, dir})
		q.orderSQL = append(q.orderSQL, name+dsql)
	}
	if rng.Intn(2) == 0 {
		q.hasLimit = true
		q.limit = rng.Intn(8) // 0..7 with up to 6 groups: 0, below, equal, above
	}
	return q
}

func (q *c7query) sql(window string) string {
	var sel []string
	for j := 0; j < q.ngroup; j++ {
		if q.selGroup[j] {
			sel = append(sel, c7gcols[j])
		}
	}
	for i, it := range q.items {
		s := it.sql()
		if q.aliased[i] {
			s += fmt.Sprintf(" AS a%d", i)
		}
		sel = append(sel, s)
	}
	s := "SELECT "
	if q.distinct {
		s += "DISTINCT "
	}
	s += strings.Join(sel, ", ") + " FROM stream GROUP BY "
	for j := 0; j < q.ngroup; j++ {
		s += c7gcols[j] + ", "
	}
	s += window
	if q.having != nil {
		s += " HAVING " + q.having.sql()
	}
	if len(q.orderSQL) > 0 {
		s += " ORDER BY " + strings.Join(q.orderSQL, ", ")
	}
	if q.hasLimit {
		s += fmt.Sprintf(" LIMIT %d", q.limit)
	}
	return s
}

func (q *c7query) usesDiv() bool {
	for _, it := range q.items {
		if it.usesDiv() {
			return true
		}
	}
	return q.having != nil && q.having.usesDiv()
}

// ---------------------------------------------------------------- values
func c7val(v any) string {
	rat := func(f float64) string {
		r := new(big.Rat)
		if r.SetFloat64(f) == nil {
			return "e"
		}
		return "q" + r.Num().String() + "_" + r.Denom().String()
	}
	switch x := v.(type) {
	case nil:
		return "z"
	case float64:
		return rat(x)
	case float32:
		return rat(float64(x))
	case int:
		return fmt.Sprintf("q%d_1", x)
	case int64:
		return fmt.Sprintf("q%d_1", x)
	case bool:
		if x {
			return "b1"
		}
		return "b0"
	case string:
		if x == "" {
			return "s-"
		}
		return "s" + hex.EncodeToString([]byte(x))
	}
	return "e"
}

func (q *c7query) colTok(name string) string {
	for j := 0; j < q.ngroup; j++ {
		if name == c7gcols[j] {
			return fmt.Sprintf("g%d", j)
		}
	}
	for i := range q.items {
		if name == q.itemName(i) {
			return fmt.Sprintf("i%d", i)
		}
	}
	var n int
	if _, err := fmt.Sscanf(name, "__having_%d__", &n); err == nil && strings.HasPrefix(name, "__having_") {
		return fmt.Sprintf("h%d", n)
	}
	if strings.HasPrefix(name, "__") {
		return "x1"
	}
	return "x0"
}

func (q *c7query) rowToks(r map[string]any) string {
	keys := make([]string, 0, len(r))
	for k := range r {
		if k == "window_id" { // stamped by time/counting windows; outside this property
			continue
		}
		keys = append(keys, k)
	}
	sort.Strings(keys)
	var sb strings.Builder
	fmt.Fprintf(&sb, "%d", len(keys))
	for _, k := range keys {
		fmt.Fprintf(&sb, " %s %s", q.colTok(k), c7val(r[k]))
	}
	return sb.String()
}

type c7in struct {
	key  []any
	vals [3]int
}

func c7genInput(rng *RNG, q *c7query, ngroups int, exact bool) []c7in {
	var rows []c7in
	usedKeys := map[string]bool{}
	for g := 0; g < ngroups; g++ {
		var key []any
		for {
			key = key[:0]
			for j := 0; j < q.ngroup; j++ {
				if j == 0 && q.gnum {
					key = append(key, rng.Range(-3, 12))
				} else {
					key = append(key, fmt.Sprintf("k%d", rng.Intn(12)))
				}
			}
			if !usedKeys[fmt.Sprint(key...)] {
				break
			}
		}
		usedKeys[fmt.Sprint(key...)] = true
		size := []int{1, 2, 4}[rng.Intn(3)]
		if !exact {
			size = rng.Range(1, 5)
		}
		// values: small ranges make ties between groups frequent (stability, HAVING boundaries)
		span := []int{3, 8, 40}[rng.Intn(3)]
		for k := 0; k < size; k++ {
			rows = append(rows, c7in{key: append([]any(nil), key...), vals: [3]int{rng.Range(-2, span), rng.Range(0, span), rng.Range(1, 5)}})
		}
		if q.ngroup == 0 {
			break
		}
	}
	// interleave
	for i := len(rows) - 1; i > 0; i-- {
		j := rng.Intn(i + 1)
		rows[i], rows[j] = rows[j], rows[i]
	}
	return rows
}

func (q *c7query) line(mode string, in []c7in, batches [][]map[string]any) string {
	var sb strings.Builder
	fmt.Fprintf(&sb, "C07 Q %s %d %s %s %d # %d", mode, q.ngroup, b01(q.distinct), b01(q.hasLimit), q.limit, len(q.items))
	for _, it := range q.items {
		sb.WriteString(" " + it.tok())
	}
	sb.WriteString(" # ")
	if q.having == nil {
		sb.WriteString("-")
	} else {
		sb.WriteString(q.having.tok())
	}
	sb.WriteString(" #")
	for _, o := range q.order {
		sb.WriteString(" " + o[0] + " " + o[1])
	}
	fmt.Fprintf(&sb, " # %d", len(in))
	for _, r := range in {
		for _, k := range r.key {
			sb.WriteString(" " + c7val(k))
		}
		fmt.Fprintf(&sb, " %d %d %d", r.vals[0], r.vals[1], r.vals[2])
	}
	fmt.Fprintf(&sb, " # %d", len(batches))
	for _, b := range batches {
		fmt.Fprintf(&sb, " %d", len(b))
		for _, r := range b {
			sb.WriteString(" " + q.rowToks(r))
		}
	}
	return sb.String()
}

func c7rowMap(q *c7query, r c7in) map[string]any {
	m := map[string]any{"t": r.vals[0], "u": r.vals[1], "w": r.vals[2]}
	for j, k := range r.key {
		m[c7gcols[j]] = k
	}
	return m
}

// mode h: the real aggregation path on one batch, no goroutines
func c7runHook(q *c7query, in []c7in) ([][]map[string]any, error) {
	sqlText := q.sql("CountingWindow(1000)")
	cfg, cond, err := rsql.Parse(sqlText)
	if err != nil {
		return nil, fmt.Errorf("parse %q: %v", sqlText, err)
	}
	st, err := stream.NewStream(*cfg)
	if err != nil {
		return nil, fmt.Errorf("stream %q: %v", sqlText, err)
	}
	defer st.Stop()
	if err := st.RegisterFilter(cond); err != nil {
		return nil, err
	}
	var got [][]map[string]any
	st.AddSyncSink(func(rs []map[string]any) {
		cp := make([]map[string]any, len(rs))
		for i, r := range rs {
			m := make(map[string]any, len(r))
			for k, v := range r {
				m[k] = v
			}
			cp[i] = m
		}
		got = append(got, cp)
	})
	run := stream.VerifNewBatchRunner(st)
	rows := make([]map[string]any, len(in))
	for i, r := range in {
		rows[i] = c7rowMap(q, r)
	}
	run.Run(rows)
	return got, nil
}

// mode p: public API, CountingWindow(N) with N = number of rows of the (single) group
func c7runPublic(q *c7query, in []c7in) ([][]map[string]any, error) {
	sqlText := q.sql(fmt.Sprintf("CountingWindow(%d)", len(in)))
	s := streamsql.New(streamsql.WithDiscardLog())
	if err := s.Execute(sqlText); err != nil {
		s.Stop()
		return nil, fmt.Errorf("execute %q: %v", sqlText, err)
	}
	var mu sync.Mutex
	var got [][]map[string]any
	s.AddSyncSink(func(rs []map[string]any) {
		mu.Lock()
		cp := make([]map[string]any, len(rs))
		for i, r := range rs {
			m := make(map[string]any, len(r))
			for k, v := range r {
				m[k] = v
			}
			cp[i] = m
		}
		got = append(got, cp)
		mu.Unlock()
	})
	for _, r := range in {
		s.Emit(c7rowMap(q, r))
	}
	waitQuiet(func() int { mu.Lock(); defer mu.Unlock(); return len(got) })
	s.Stop()
	return got, nil
}

// ---------------------------------------------------------------- Sorter.Sort directly
type c7cell struct {
	present bool
	v       any
}

func c7genCell(rng *RNG, kind int) c7cell {
	switch kind {
	case 0: // numeric: ints and float64 (quarters)
		if rng.Bool() {
			return c7cell{true, rng.Range(-4, 9)}
		}
		return c7cell{true, float64(rng.Range(-16, 36)) / 4}
	case 1: // strings
		pool := []string{"", "a", "b", "ab", "aa", "B", "10", "9", "1a", "<nil>", "k3", "k10", "\xc3\xa9"}
		return c7cell{true, pool[rng.Intn(len(pool))]}
	case 2: // numeric with missing keys
		if rng.Intn(4) == 0 {
			return c7cell{}
		}
		return c7cell{true, rng.Range(0, 4)}
	case 3: // mixed: integers (both Go kinds), strings, nil, missing
		switch rng.Intn(6) {
		case 0:
			return c7cell{}
		case 1:
			return c7cell{true, nil}
		case 2:
			return c7cell{true, float64(rng.Range(-3, 12))}
		case 3:
			return c7cell{true, rng.Range(-3, 120)}
		}
		pool := []string{"1a", "10", "9", "-1", "a", "<nil>", "", "k"}
		return c7cell{true, pool[rng.Intn(len(pool))]}
	}
	if kind == 5 { // tiny magnitudes: distinct values closer than 1e-9 must still be ordered
		return c7cell{true, float64(rng.Range(-6, 12)) / float64(int64(1)<<40)}
	}
	return c7cell{true, rng.Range(0, 2)} // heavy ties
}

func c7sortCase(rng *RNG, o *Out, nrows int, mixed bool) {
	ncols := rng.Range(1, 3)
	kinds := make([]int, ncols)
	for c := range kinds {
		kinds[c] = []int{0, 1, 2, 4, 4, 5}[rng.Intn(6)]
		if mixed && rng.Bool() {
			kinds[c] = 3
		}
	}
	nkeys := rng.Range(1, ncols)
	var keys []types.OrderByField
	var sb strings.Builder
	sb.WriteString("C07 S #")
	for k := 0; k < nkeys; k++ {
		dir := types.SortAsc
		d := "a"
		if rng.Bool() {
			dir, d = types.SortDesc, "d"
		}
		keys = append(keys, types.OrderByField{Expression: fmt.Sprintf("c%d", k), Direction: dir})
		fmt.Fprintf(&sb, " x%d %s", k, d)
	}
	rows := make([]map[string]any, nrows)
	fmt.Fprintf(&sb, " # %d", nrows)
	for i := range rows {
		m := map[string]any{"__id": i}
		n := 0
		var cells []string
		for c := 0; c < ncols; c++ {
			cell := c7genCell(rng, kinds[c])
			if cell.present {
				m[fmt.Sprintf("c%d", c)] = cell.v
				n++
				cells = append(cells, fmt.Sprintf("x%d %s", c, c7val(cell.v)))
			}
		}
		rows[i] = m
		fmt.Fprintf(&sb, " %d", n)
		for _, c := range cells {
			sb.WriteString(" " + c)
		}
	}
	stream.NewSorter(keys).Sort(rows)
	sb.WriteString(" #")
	for _, r := range rows {
		fmt.Fprintf(&sb, " %d", r["__id"].(int))
	}
	o.Line("%s", sb.String())
}

// ---------------------------------------------------------------- runner
func runC07(tier string, seed uint64, o *Out) error {
	rng := NewRNG(seed)
	rng.s = rng.Next() ^ 0xC07C07C07C07 // consecutive seeds of the shared splitmix state are shifted copies of one stream: re-key
	nq, npub, nsort := 1500, 36, 1200
	if tier == "thorough" {
		nq, npub, nsort = 40000, 300, 30000
	}
	// (1) generated queries on one batch, real aggregation path
	for i := 0; i < nq; i++ {
		ngroup := []int{1, 1, 1, 2, 0}[rng.Intn(5)]
		q := c7genQuery(rng, ngroup)
		ngroups := rng.Range(1, 6)
		in := c7genInput(rng, q, ngroups, q.usesDiv() || rng.Intn(3) > 0)
		got, err := c7runHook(q, in)
		if err != nil {
			return err
		}
		o.Line("%s", q.line("h", in, got))
		o.Count(fmt.Sprintf("hook_groupcols_%d", ngroup))
		if q.having != nil {
			o.Count("with_having")
			if k := q.having.caseKind(); k != "" {
				o.Count("having_" + k)
			}
		}
		if len(q.order) > 0 {
			o.Count(fmt.Sprintf("order_keys_%d", len(q.order)))
		}
		if q.hasLimit {
			o.Count("with_limit")
		}
		if q.distinct {
			o.Count("with_distinct")
		}
	}
	// (1b) K consecutive batches through one stream; the consumers keep every delivered batch and look
	// at them only at the end (c07b.go)
	if err := c7runMultiFamily(rng, tier, o); err != nil {
		return err
	}
	// (2) public API: CountingWindow(N), one group
	type job struct {
		q  *c7query
		in []c7in
	}
	var jobs []job
	for i := 0; i < npub; i++ {
		q := c7genQuery(rng, rng.Intn(2))
		in := c7genInput(rng, q, 1, true)
		jobs = append(jobs, job{q, in})
	}
	lines := make([]string, len(jobs))
	var wg sync.WaitGroup
	var mu sync.Mutex
	var firstErr error
	sem := make(chan struct{}, 12)
	for i, j := range jobs {
		i, j := i, j
		wg.Add(1)
		sem <- struct{}{}
		go func() {
			defer wg.Done()
			defer func() { <-sem }()
			got, err := c7runPublic(j.q, j.in)
			if err != nil {
				mu.Lock()
				if firstErr == nil {
					firstErr = err
				}
				mu.Unlock()
				return
			}
			lines[i] = j.q.line("p", j.in, got)
		}()
	}
	wg.Wait()
	if firstErr != nil {
		return firstErr
	}
	for _, l := range lines {
		o.Line("%s", l)
		o.Count("public_api_counting_window")
	}
	// (3) Sorter.Sort directly
	for i := 0; i < nsort; i++ {
		switch {
		case i%10 == 0:
			c7sortCase(rng, o, rng.Range(21, 60), false) // beyond the insertion-sort block: homogeneous only
			o.Count("sorter_homogeneous_21_60_rows")
		case i%3 == 0:
			c7sortCase(rng, o, rng.Range(0, 20), true)
			o.Count("sorter_mixed_types_le20_rows")
		default:
			c7sortCase(rng, o, rng.Range(0, 20), false)
			o.Count("sorter_homogeneous_le20_rows")
		}
	}
	// (4) compareOrderValues on pairs of a value pool (exhaustive)
	// non-integer numbers are only paired with numbers and missing keys (fmt's %v rendering of a
	// non-integer float64 is not modelled)
	pool := []c7cell{{}, {true, 2.5}, {true, 2.25}, {true, -0.5}, {true, nil}, {true, 0}, {true, 9}, {true, 10}, {true, -1}, {true, float64(10)},
		{true, ""}, {true, "10"}, {true, "9"}, {true, "1a"}, {true, "a"}, {true, "<nil>"}, {true, "-1"}, {true, "ab"}, {true, "b"}}
	frac := func(c c7cell) bool { f, ok := c.v.(float64); return ok && f != float64(int(f)) }
	numeric := func(c c7cell) bool {
		if !c.present {
			return true
		}
		switch c.v.(type) {
		case int, float64:
			return true
		}
		return false
	}
	for _, a := range pool {
		for _, b := range pool {
			if (frac(a) && !numeric(b)) || (frac(b) && !numeric(a)) {
				continue
			}
			c := stream.VerifCompareOrderValues(a.v, a.present, b.v, b.present)
			ta, tb := "m", "m"
			if a.present {
				ta = c7val(a.v)
			}
			if b.present {
				tb = c7val(b.v)
			}
			o.Line("C07 V %s %s %d", ta, tb, c)
		}
	}
	o.Count("compare_pairs_exhaustive_pool")
	// (5) family T: DISTINCT over result rows that differ only in the Go type of a value (c07c.go); last, so
	// that the case streams of the other families stay what they were
	return c7runTwinFamily(rng, tier, o)
}
