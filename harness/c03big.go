package main

// C03 — the large-offset value pool: numbers whose MAGNITUDE is large relative to their SPREAD (|x| from 1e8 up to
// 2^52 with a spread of a few units or a few hundred): monotonically growing counters, epoch milliseconds, 2^31 / 2^32
// neighbourhoods, large negative offsets; as Go int, as float64 (integer-valued or with eighths), mixed, as decimal
// strings, with NULLs / missing cells / an ordinary small number in between.
//
// Every aggregate is still judged by the definition over exact rationals (ocaml/c03.ml), so the pool keeps float64
// arithmetic of the exactly compared aggregates exact: all values of a list are multiples of 2^-fb (fb = 0 or 3),
// and n * max|x| * 2^fb * (the head room the caller asks for: literals and fraction bits of an arithmetic argument)
// stays below 2^53, so that every running sum (sum, avg, the first pass of the variance family) and the median's
// (a+b)/2 is exactly representable. What is NOT exact on such values is the variance family: x - mean and its
// square are rounded, and the spread sits in the low-order bits of the values. The definition is compared there
// with the derived error bound of the two-pass algorithm (Spec/AggSpec.v fl_slack: second order in 2^-52 max|x|;
// Welford: first order); an algorithm that forms sum x^2 (one-pass "textbook" variance) loses the spread once x^2
// passes 2^53 and falls far outside that bound.
import (
	"fmt"
	"math"
	"strconv"
)

// c3offAnchors: the magnitudes that occur in practice.
var c3offAnchors = []float64{1e8, 1e9, 2147483647, 4294967296, 1e10, 1e11, 1e12, 1700000000000, 1e13, 1e14, 1e15, 4503599627370496}

type c3offOpt struct {
	maxInt   float64 // largest magnitude of an integer-valued list of n values
	maxFrac  float64 // largest magnitude of a list with eighths
	floats   bool    // float64 values allowed (not for aggregates that render their input with %v)
	strs     bool    // decimal strings of the integers allowed
	missing  bool
	ordinary bool // an ordinary small number may be mixed in (the spread becomes the magnitude)
}

// c3offBase picks a base of magnitude in [1e8, max] (max >= 1e8), integer-valued.
func c3offBase(r *RNG, max float64) int64 {
	var b float64
	if r.Intn(2) == 0 {
		var ok []float64
		for _, a := range c3offAnchors {
			if a <= max {
				ok = append(ok, a)
			}
		}
		b = ok[r.Intn(len(ok))]
	} else { // log-uniform, random digits
		lo, hi := 8.0, math.Log10(max)
		e := lo + (hi-lo)*float64(r.Intn(1000))/1000
		b = math.Floor(math.Pow(10, e))
		if b > max {
			b = max
		}
	}
	if r.Intn(3) == 0 {
		b = -b
	}
	return int64(b)
}

// c3genOffsetVals: n cells around one large base.
func c3genOffsetVals(r *RNG, n int, opt c3offOpt) []c3val {
	if n == 0 {
		return nil
	}
	// form: 0 ints, 1 integer-valued float64, 2 float64 with eighths, 3 int / float64 per value
	form := 0
	if opt.floats {
		form = r.Intn(4)
	}
	max := opt.maxInt
	if form == 2 {
		max = opt.maxFrac
	}
	// room for the spread (<= 1000 + n*5) below the cap
	max -= 2000
	if max < 1e8 {
		max, form = 1e8, 0
	}
	base := c3offBase(r, max)
	spread := r.Intn(5)
	step := int64(r.Range(1, 5))
	out := make([]c3val, n)
	for i := range out {
		var d int64
		switch spread {
		case 0: // a few units around the base
			d = int64(r.Range(-4, 4))
		case 1: // a few hundred
			d = int64(r.Range(0, 1000))
		case 2: // nearly constant (all equal: variance exactly 0)
			d = int64(r.Intn(2))
			if r.Intn(3) == 0 {
				d = 0
			}
		case 3: // a counter: base, base+step, base+2*step, ...
			d = int64(i) * step
		default: // 1 .. n in some order (distinct)
			d = int64((i*7+3)%n) + 1
		}
		x := base + d
		asFloat := form == 1 || form == 2 || (form == 3 && r.Bool())
		switch {
		case asFloat:
			f := float64(x)
			if form == 2 {
				f += float64(r.Range(-7, 7)) / 8
			}
			out[i] = c3val{tok: c3rat(f), v: f}
		case opt.strs && r.Intn(12) == 0:
			s := strconv.FormatInt(x, 10)
			out[i] = c3val{tok: c3str(s), v: s}
		default:
			out[i] = c3val{tok: fmt.Sprintf("i%d", x), v: int(x)}
		}
		switch k := r.Intn(40); {
		case k < 3:
			out[i] = c3val{tok: "n", v: nil}
		case k < 5 && opt.missing:
			out[i] = c3val{tok: "m", missing: true}
		case k == 5 && opt.ordinary:
			v := r.Range(-12, 12)
			out[i] = c3val{tok: fmt.Sprintf("i%d", v), v: v}
		}
	}
	return out
}

// c3rendersInput: aggregates whose result depends on the %v rendering of their input (the model renders float64 as a
// plain decimal, fmt prints 1e9 as 1e+09): such cases get integers only.
func c3rendersInput(agg string) bool { return agg == "deduplicate" || agg == "merge_agg" }

// c3offDirect: the pool for one aggregator object fed with n values.
func c3offDirect(agg string, n int) c3offOpt {
	if n < 1 {
		n = 1
	}
	maxInt := math.Floor(9007199254740992 / float64(n) / 1.01)
	if maxInt > 4503599627370496 {
		maxInt = 4503599627370496
	}
	return c3offOpt{maxInt: maxInt, maxFrac: maxInt / 8, floats: !c3rendersInput(agg), strs: true, ordinary: true}
}
