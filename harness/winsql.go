package main

import (
	"fmt"
	"sort"
	"strings"
	"sync"
	"time"

	"github.com/rulego/streamsql"
)

// SQL-level (public API, real goroutines, real timers) runs of the time windows. The schedule is not
// controlled; the quiescent checker judges the result rows delivered to a synchronous sink.

type qEvent struct{ id, ts, key, val int64 }

func durStr(ms int64) string { return fmt.Sprintf("%dms", ms) }

func asInt(v any) (int64, bool) {
	switch x := v.(type) {
	case int:
		return int64(x), true
	case int64:
		return x, true
	case int32:
		return int64(x), true
	case float64:
		return int64(x), float64(int64(x)) == x
	}
	return 0, false
}

// runWinSQL executes one query and returns the result lines "key ws we count sum n ids.." (ms), sorted.
func runWinSQL(window string, oooMs int64, evs []qEvent) ([]string, error) {
	ssql := streamsql.New(streamsql.WithDiscardLog())
	defer ssql.Stop()
	sql := fmt.Sprintf("SELECT k, collect(id) AS ids, count(*) AS c, sum(v) AS sv, window_start() AS ws, window_end() AS we FROM stream GROUP BY k, %s WITH (TIMESTAMP='ts', TIMEUNIT='ms', MAXOUTOFORDERNESS='%s')", window, durStr(oooMs))
	if err := ssql.Execute(sql); err != nil {
		return nil, fmt.Errorf("%s: %v", sql, err)
	}
	var mu sync.Mutex
	var out []string
	var bad error
	ssql.AddSyncSink(func(rs []map[string]any) {
		mu.Lock()
		defer mu.Unlock()
		for _, r := range rs {
			k, ok1 := asInt(r["k"])
			ws, ok2 := asInt(r["ws"])
			we, ok3 := asInt(r["we"])
			c, ok4 := asInt(r["c"])
			sv, ok5 := asInt(r["sv"])
			ids, ok6 := r["ids"].([]any)
			if !(ok1 && ok2 && ok3 && ok4 && ok5 && ok6) {
				bad = fmt.Errorf("unexpected result row %v", r)
				continue
			}
			if wid, ok := r["window_id"].(string); !ok || wid != fmt.Sprintf("%d_%d", ws, we) {
				bad = fmt.Errorf("window_id %v does not carry the interval [%d,%d)", r["window_id"], ws, we)
			}
			var sb strings.Builder
			fmt.Fprintf(&sb, "%d %d %d %d %d %d", k, ws/1000000, we/1000000, c, sv, len(ids))
			for _, x := range ids {
				i, _ := asInt(x)
				fmt.Fprintf(&sb, " %d", i)
			}
			out = append(out, sb.String())
		}
	})
	for _, e := range evs {
		ssql.Emit(map[string]any{"id": e.id, "ts": e.ts, "k": e.key, "v": e.val})
	}
	// quiescence: no new result for 800 ms (watermark tick = 200 ms), at most 8 s
	last, stable := -1, 0
	for i := 0; i < 80 && stable < 8; i++ {
		time.Sleep(100 * time.Millisecond)
		mu.Lock()
		n := len(out)
		mu.Unlock()
		if n == last {
			stable++
		} else {
			last, stable = n, 0
		}
	}
	mu.Lock()
	defer mu.Unlock()
	sort.Strings(out)
	return out, bad
}

func genQEvents(rng *RNG, period, size, ooo int64, n int) ([]qEvent, int64) {
	base := int64(1700000000000)
	t := base + int64(rng.Intn(int(2*period)))
	maxTs := t
	var evs []qEvent
	for i := 0; i < n; i++ {
		var ts int64
		switch rng.Intn(10) {
		case 0:
			ts = (t/period + int64(rng.Intn(3))) * period
		case 1:
			ts = (t/period+1)*period - 1
		case 2:
			ts = maxTs
		case 3:
			ts = maxTs - int64(rng.Intn(int(ooo)+1))
		case 4:
			ts = maxTs - ooo - 1 - int64(rng.Intn(int(period)+1))
		case 5:
			t += period * int64(rng.Intn(3)+1)
			ts = t
		default:
			t += int64(rng.Intn(int(period)/2 + 2))
			ts = t
		}
		if i == 1 && rng.Intn(3) == 0 { // on time but older than the first event's window
			ts = evs[0].ts - int64(rng.Intn(int(ooo)+1))
		}
		if ts > maxTs {
			maxTs = ts
		}
		evs = append(evs, qEvent{id: int64(i + 1), ts: ts, key: int64(1 + rng.Intn(2)), val: int64(rng.Intn(50) - 10)})
	}
	fin := qEvent{id: int64(n + 1), ts: maxTs + ooo + 5*size, key: 99, val: 0}
	evs = append(evs, fin)
	return evs, fin.ts - ooo
}

// winSQLCases runs ncases queries concurrently and writes one "Q" line each.
func winSQLCases(o *Out, prop string, rng *RNG, ncases int, sliding bool) error {
	type job struct {
		size, slide, ooo, wmk int64
		evs                   []qEvent
		res                   []string
		err                   error
	}
	jobs := make([]*job, ncases)
	for i := range jobs {
		j := &job{}
		if sliding {
			p := [][2]int64{{1000, 500}, {1000, 250}, {900, 300}, {500, 1000}}[rng.Intn(4)]
			j.size, j.slide = p[0], p[1]
		} else {
			j.size = []int64{200, 1000, 2000}[rng.Intn(3)]
			j.slide = j.size
		}
		j.ooo = []int64{0, j.size / 2, 2 * j.size}[rng.Intn(3)]
		j.evs, j.wmk = genQEvents(rng, j.slide, j.size, j.ooo, 8+rng.Intn(25))
		jobs[i] = j
	}
	var wg sync.WaitGroup
	sem := make(chan struct{}, 16)
	for _, j := range jobs {
		j := j
		wg.Add(1)
		sem <- struct{}{}
		go func() {
			defer wg.Done()
			defer func() { <-sem }()
			w := fmt.Sprintf("TumblingWindow('%s')", durStr(j.size))
			if sliding {
				w = fmt.Sprintf("SlidingWindow('%s','%s')", durStr(j.size), durStr(j.slide))
			}
			j.res, j.err = runWinSQL(w, j.ooo, j.evs)
		}()
	}
	wg.Wait()
	for _, j := range jobs {
		if j.err != nil {
			return j.err
		}
		var sb strings.Builder
		for _, e := range j.evs {
			fmt.Fprintf(&sb, " %d %d %d %d", e.id, e.ts, e.key, e.val)
		}
		o.Line("%s Q %d %d %d %d #%s # %s", prop, j.size, j.slide, j.ooo, j.wmk, sb.String(), strings.Join(j.res, " ; "))
		o.Count("sql-level")
	}
	return nil
}
