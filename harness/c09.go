package main

import (
	"fmt"
	"math"
	"sort"
	"strconv"
	"strings"
	"sync"
	"time"

	"github.com/rulego/streamsql"
	"github.com/rulego/streamsql/types"
	"github.com/rulego/streamsql/utils/cast"
	"github.com/rulego/streamsql/window"
)

func init() { runners["C09"] = runC09 }

// countingAPI drives the real CountingWindow through its public API. The window has one
// consumer goroutine fed by a FIFO channel and writes its batches to OutputChan in order, so the
// batch sequence is a function of the Add sequence; a sentinel key (or, without GROUP BY keys, the
// expected number of batches plus a grace period) tells when everything has been processed.
func countingAPI(n, ncols int, rows []grow) ([][]int64, error) {
	cw, err := window.NewCountingWindow(types.WindowConfig{Type: "counting", Params: []any{n}, GroupByKeys: keyNames(ncols)})
	if err != nil {
		return nil, err
	}
	cw.Start()
	defer cw.Stop()
	var out [][]int64
	ch := cw.OutputChan()
	read := func(d time.Duration) bool {
		long := d >= time.Second
		if long {
			d = waitLimit(d)
		}
		select {
		case b := <-ch:
			ids := make([]int64, len(b))
			for i, r := range b {
				ids[i] = rowID(r)
			}
			out = append(out, ids)
			return true
		case <-time.After(d):
			if long {
				chargeWait(d)
			}
			return false
		}
	}
	for i, r := range rows {
		cw.Add(r.toMap())
		if i%200 == 199 { // keep the output buffer (1000) far from full
			for len(ch) > 0 {
				read(time.Millisecond)
			}
		}
	}
	if ncols > 0 {
		for _, m := range sentinelRows(n, ncols) {
			cw.Add(m)
		}
		for {
			if !read(3 * time.Second) {
				break
			}
			last := out[len(out)-1]
			if len(last) > 0 && last[0] >= sentinelBase {
				out = out[:len(out)-1]
				break
			}
		}
		return out, nil
	}
	want := expectedBatches(rows, n)
	for len(out) < want {
		if !read(3 * time.Second) {
			break
		}
	}
	for read(3 * time.Millisecond) { // anything beyond the expected batches is an error the checker reports
	}
	return out, nil
}

func batchesTok(bs [][]int64) string {
	var parts []string
	for _, b := range bs {
		parts = append(parts, strconv.Itoa(len(b)))
		for _, id := range b {
			parts = append(parts, strconv.FormatInt(id, 10))
		}
	}
	return strings.Join(parts, " ")
}

// countingStalled: the window goroutine is held inside the callback of its first batch while the
// producer keeps adding far more rows than the trigger channel holds (capacity 4), then released.
// Add must hand the rows over in order whatever the consumer's speed ("all schedules of the ingest and
// window goroutines"): the batch sequence must still be the model's.
func countingStalled(n, ncols int, rows []grow) ([][]int64, error) {
	release := make(chan struct{})
	first := true
	var out [][]int64
	var mu sync.Mutex
	cfg := types.WindowConfig{Type: "counting", Params: []any{n}, GroupByKeys: keyNames(ncols),
		PerformanceConfig: types.PerformanceConfig{BufferConfig: types.BufferConfig{WindowOutputSize: 4}}}
	cfg.Callback = func(b []types.Row) {
		if first {
			first = false
			<-release
		}
		ids := make([]int64, len(b))
		for i, r := range b {
			ids[i] = rowID(r)
		}
		mu.Lock()
		out = append(out, ids)
		mu.Unlock()
	}
	cw, err := window.NewCountingWindow(cfg)
	if err != nil {
		return nil, err
	}
	cw.Start()
	defer cw.Stop()
	go func() { // drain the output channel so that sendResult never has to drop
		for range cw.OutputChan() {
		}
	}()
	done := make(chan struct{})
	go func() {
		for _, r := range rows {
			cw.Add(r.toMap())
		}
		close(done)
	}()
	time.Sleep(30 * time.Millisecond)
	close(release)
	select {
	case <-done:
	case <-time.After(waitLimit(5 * time.Second)):
	}
	want := expectedBatches(rows, n)
	for i := 0; i < 300; i++ {
		mu.Lock()
		got := len(out)
		mu.Unlock()
		if got >= want {
			break
		}
		time.Sleep(10 * time.Millisecond)
	}
	time.Sleep(20 * time.Millisecond)
	mu.Lock()
	defer mu.Unlock()
	return out, nil
}

func runC09(tier string, seed uint64, o *Out) error {
	rng := NewRNG(seed)
	nAPI, nSQL := 1500, 400
	if tier == "thorough" {
		nAPI, nSQL = 30000, 6000
	}
	S := func(s string) gval { return gval{kind: 's', s: s} }
	// corpus: F2 witness for the counting window (two tuples that shared one buffer), N = 2 and 3
	for _, n := range []int{2, 3} {
		a, b := []gval{S("x|y"), S("z")}, []gval{S("x"), S("y|z")}
		rows := []grow{{id: 1, vals: a}, {id: 2, vals: b}, {id: 3, vals: a}, {id: 4, vals: b}, {id: 5, vals: a}, {id: 6, vals: b}, {id: 7, vals: a}}
		bs, err := countingAPI(n, 2, rows)
		if err != nil {
			return err
		}
		o.Line("C09 W %d 2 %d %s # %s", n, len(rows), rowsTok(rows), batchesTok(bs))
		res, err := countingSQL(rng, "counting", n, 2, rows)
		if err != nil {
			return err
		}
		o.Line("C09 S sql %d 2 %d %s # %s", n, len(rows), rowsTok(rows), resultsTok(res, true))
		o.Count("corpus")
	}
	for i := 0; i < nAPI; i++ {
		n, ncols, rows := genCountingRows(rng)
		bs, err := countingAPI(n, ncols, rows)
		if err != nil {
			return err
		}
		o.Line("C09 W %d %d %d %s # %s", n, ncols, len(rows), rowsTok(rows), batchesTok(bs))
		o.Count(fmt.Sprintf("api N=%d cols=%d", n, ncols))
	}
	nStall := 12
	if tier == "thorough" {
		nStall = 120
	}
	for i := 0; i < nStall; i++ {
		n, ncols, rows := genCountingRows(rng)
		for len(rows) < 40 { // far more rows than the trigger channel (4) holds
			rows = append(rows, rows...)
			for j := range rows {
				rows[j].id = int64(j + 1)
			}
			if len(rows) == 0 {
				break
			}
		}
		if len(rows) == 0 {
			continue
		}
		bs, err := countingStalled(n, ncols, rows)
		if err != nil {
			return err
		}
		o.Line("C09 W %d %d %d %s # %s", n, ncols, len(rows), rowsTok(rows), batchesTok(bs))
		o.Count("api stalled consumer")
	}
	for i := 0; i < nSQL; i++ {
		n, ncols, rows := genCountingRows(rng)
		res, err := countingSQL(rng, "counting", n, ncols, rows)
		if err != nil {
			return err
		}
		o.Line("C09 S sql %d %d %d %s # %s", n, ncols, len(rows), rowsTok(rows), resultsTok(res, true))
		o.Count(fmt.Sprintf("sql N=%d cols=%d", n, ncols))
	}
	if err := carrierFamily(tier, seed, o); err != nil {
		return err
	}
	if err := lagFamily(tier, seed, o); err != nil {
		return err
	}
	if err := fnKeyFamily(tier, seed, o); err != nil { // c09fn.go: function-valued grouping keys
		return err
	}
	if err := panicFamily(tier, seed, o); err != nil { // c09panic.go: a batch that fails half-way (user function panics)
		return err
	}
	return blockFamily(tier, seed, o) // c09block.go: the "block" overflow strategy in real time
}

// ---- the Go carriers of one number -------------------------------------------------------------
// A numeric grouping value reaches the stream in whatever Go type its producer uses (JSON: float64;
// Go-native producers: int, int32, uint8, float32, ...). The counting window keys its buffers by
// cast.ToString of the value, the aggregator groups the rows of a batch by cast.GroupKeyPart: for
// "the i-th result of a key aggregates that key's rows (i-1)N+1..iN" both sides must give one key
// to one NUMBER whatever its carrier. The family below draws the carrier per row for the same value.
var carrierNames = []string{"int", "i8", "i16", "i32", "i64", "uint", "u8", "u16", "u32", "u64", "f32", "f64"}

const (
	carF32 = 10
	carF64 = 11
)

// carryInt: the integer z in Go type ty (ok=false: the type cannot hold exactly z). The float
// carriers are used where every integer is exact (2^24, 2^53); uint below 2^63.
func carryInt(ty int, z int64) (any, bool) {
	in := func(lo, hi int64) bool { return z >= lo && z <= hi }
	switch ty {
	case 0:
		return int(z), true
	case 1:
		return int8(z), in(math.MinInt8, math.MaxInt8)
	case 2:
		return int16(z), in(math.MinInt16, math.MaxInt16)
	case 3:
		return int32(z), in(math.MinInt32, math.MaxInt32)
	case 4:
		return z, true
	case 5:
		return uint(z), z >= 0
	case 6:
		return uint8(z), in(0, math.MaxUint8)
	case 7:
		return uint16(z), in(0, math.MaxUint16)
	case 8:
		return uint32(z), in(0, math.MaxUint32)
	case 9:
		return uint64(z), z >= 0
	case carF32:
		return float32(z), in(-(1 << 24), 1<<24)
	case carF64:
		return float64(z), in(-(1 << 53), 1<<53)
	}
	return nil, false
}

// carryFrac: the non-integral number f (a float64) as float32 (only if float32 holds exactly f) or float64
func carryFrac(ty int, f float64) (any, bool) {
	switch ty {
	case carF32:
		return float32(f), float64(float32(f)) == f
	case carF64:
		return f, true
	}
	return nil, false
}

func text64(f float64) string { return strconv.FormatFloat(f, 'g', -1, 64) }

// text32: the shortest decimal that identifies f among the float32s ("-" if f is no float32)
func text32(f float64) string {
	if float64(float32(f)) != f {
		return "-"
	}
	return strconv.FormatFloat(f, 'f', -1, 32)
}

// trow: a row whose numeric grouping values travel in a chosen Go type (tys[j] < 0: not a carried number)
type trow struct {
	grow
	tys []int
}

// value tokens of a carried number:  I<type>:<decimal>   F<type>:<hex of the float64 text>:<hex of the float32 text | ->
func carriedTok(v gval, ty int) string {
	if ty < 0 {
		return v.tok()
	}
	if v.kind == 'i' {
		if v.s != "" { // a uint beyond int64: the decimal text
			return "I" + carrierNames[ty] + ":" + v.s
		}
		return "I" + carrierNames[ty] + ":" + strconv.FormatInt(v.i, 10)
	}
	t32 := text32(v.f)
	if t32 != "-" {
		t32 = hexTok(t32)
	}
	return "F" + carrierNames[ty] + ":" + hexTok(text64(v.f)) + ":" + t32
}

func trowsTok(rows []trow) string {
	parts := make([]string, 0, len(rows))
	for _, r := range rows {
		p := []string{strconv.FormatInt(r.id, 10)}
		for j, v := range r.vals {
			p = append(p, carriedTok(v, r.tys[j]))
		}
		parts = append(parts, strings.Join(p, " "))
	}
	return strings.Join(parts, " ")
}

func plainRows(rows []trow) []grow {
	g := make([]grow, len(rows))
	for i, r := range rows {
		g[i] = r.grow
	}
	return g
}

// normNum: the number a reported value IS (the Go type of a reported group column is the carrier of the
// group's first row; the property speaks about the value)
func normNum(x any) any {
	switch t := x.(type) {
	case int8:
		return int64(t)
	case int16:
		return int64(t)
	case uint:
		if uint64(t) > math.MaxInt64 {
			return uint64(t)
		}
		return int64(t)
	case uint8:
		return int64(t)
	case uint16:
		return int64(t)
	case uint32:
		return int64(t)
	case uint64:
		if t > math.MaxInt64 {
			return t
		}
		return int64(t)
	case float32:
		return float64(t)
	}
	return x
}

// the numbers of the family. small: every carrier (or every signed one) holds them; edge: type limits,
// where only some carriers remain; fractions: short ones (dyadic, the float32 and the float64 print the
// same digits) and float64-only ones.
var (
	carSmall   = []int64{0, 1, 7, 7, 12, 100, 127, -1, -7, -128}
	carEdge    = []int64{128, 255, 256, -129, 32767, 32768, 65535, 65536, 100000000, 1 << 24, 1<<24 + 1, -(1 << 24), math.MaxInt32, 1 << 31, math.MaxUint32, 1 << 32, 1 << 53, 1<<53 + 1, -(1 << 53), 1 << 61}
	carShort   = []float64{1.5, -0.25, 0.5, 2.75, 7.5, 1024.5, 0.0078125, -3.125}
	carF64only = []float64{1.1, 0.1, -2.3, 1e-3}
	// float32 numbers whose float32 text ("1.1") is shorter than their float64 text ("1.100000023841858")
	carWide = []float64{float64(float32(1.1)), float64(float32(0.1)), float64(float32(-2.3))}
)

func pickCarrier(rng *RNG, fits func(ty int) bool) int {
	var ok []int
	for ty := range carrierNames {
		if fits(ty) {
			ok = append(ok, ty)
		}
	}
	if fits(carF32) && rng.Intn(3) == 0 { // the carrier no JSON producer uses must be frequent
		return carF32
	}
	return ok[rng.Intn(len(ok))]
}

// genCarried: counting-window rows over 1..3 grouping columns, at least one of them numeric; a pool of
// 1..4 key tuples; every row draws its tuple from the pool and, per numeric value, a fresh carrier.
// wide = the float32-text family (see carWide); otherwise every fraction prints alike in all its carriers.
func genCarried(rng *RNG, wide bool) (n, ncols int, rows []trow) {
	n = []int{1, 2, 2, 3, 3, 4, 7}[rng.Intn(7)]
	ncols = 1 + rng.Intn(3)
	numeric := make([]bool, ncols)
	numeric[rng.Intn(ncols)] = true
	for j := range numeric {
		if rng.Intn(2) == 0 {
			numeric[j] = true
		}
	}
	number := func() gval {
		if wide {
			switch rng.Intn(4) {
			case 0:
				return gval{kind: 'f', f: carF64only[rng.Intn(3)]}
			case 1:
				return gval{kind: 'i', i: carSmall[rng.Intn(len(carSmall))]}
			}
			return gval{kind: 'f', f: carWide[rng.Intn(len(carWide))]}
		}
		switch r := rng.Intn(10); {
		case r < 5:
			return gval{kind: 'i', i: carSmall[rng.Intn(len(carSmall))]}
		case r < 7:
			return gval{kind: 'i', i: carEdge[rng.Intn(len(carEdge))]}
		case r < 9:
			return gval{kind: 'f', f: carShort[rng.Intn(len(carShort))]}
		}
		return gval{kind: 'f', f: carF64only[rng.Intn(len(carF64only))]}
	}
	pool := make([][]gval, 1+rng.Intn(4))
	for i := range pool {
		t := make([]gval, ncols)
		for j := range t {
			switch {
			case rng.Intn(14) == 0:
				t[j] = gval{kind: 'n'}
			case numeric[j]:
				t[j] = number()
			default:
				t[j] = gval{kind: 's', s: rng.Pick([]string{"a", "b", "a|b", ""})}
			}
		}
		pool[i] = t
	}
	l := rng.Intn(6 * n)
	if rng.Intn(3) == 0 {
		l = n * (1 + rng.Intn(5))
	}
	rows = make([]trow, l)
	for i := range rows {
		t := pool[rng.Intn(len(pool))]
		r := trow{grow: grow{id: int64(i + 1), vals: append([]gval(nil), t...), raw: map[int]any{}}, tys: make([]int, ncols)}
		for j, v := range r.vals {
			r.tys[j] = -1
			switch v.kind {
			case 'i':
				r.tys[j] = pickCarrier(rng, func(ty int) bool { _, ok := carryInt(ty, v.i); return ok })
				r.raw[j], _ = carryInt(r.tys[j], v.i)
			case 'f':
				r.tys[j] = pickCarrier(rng, func(ty int) bool { _, ok := carryFrac(ty, v.f); return ok })
				r.raw[j], _ = carryFrac(r.tys[j], v.f)
			case 'n':
				if rng.Intn(3) == 0 {
					r.vals[j].kind = 'm'
				}
			}
		}
		rows[i] = r
	}
	return
}

// carriedSQL: the counting query of countingSQL on carried rows; the reported group columns are read as numbers
func carriedSQL(n, ncols int, rows []trow) ([]gresult, error) {
	sql := fmt.Sprintf("SELECT %s, count(*) AS c, collect(id) AS ids, first_value(id) AS fi, last_value(id) AS la FROM stream GROUP BY %s, CountingWindow(%d)",
		groupCols(ncols), groupCols(ncols), n)
	s := streamsql.New()
	defer s.Stop()
	if err := s.Execute(sql); err != nil {
		return nil, fmt.Errorf("%s: %w", sql, err)
	}
	var mu sync.Mutex
	var out []gresult
	s.AddSyncSink(func(res []map[string]any) {
		mu.Lock()
		defer mu.Unlock()
		batch := make([]gresult, 0, len(res))
		for _, r := range res {
			m := make(map[string]any, len(r))
			for k, v := range r {
				m[k] = v
			}
			for j := 0; j < ncols; j++ {
				if v, ok := m[colName(j)]; ok {
					m[colName(j)] = normNum(v)
				}
			}
			batch = append(batch, parseResult(m, ncols))
		}
		sort.SliceStable(batch, func(i, j int) bool { // one delivery ranges over a Go map
			a, b := int64(-1), int64(-1)
			if len(batch[i].ids) > 0 {
				a = batch[i].ids[0]
			}
			if len(batch[j].ids) > 0 {
				b = batch[j].ids[0]
			}
			return a < b
		})
		out = append(out, batch...)
	})
	for _, r := range rows {
		s.Emit(r.toMap())
	}
	for _, m := range sentinelRows(n, ncols) {
		s.Emit(m)
	}
	lim := waitLimit(3 * time.Second)
	deadline := time.Now().Add(lim)
	for {
		mu.Lock()
		ok := sawSentinel(out)
		mu.Unlock()
		if ok {
			break
		}
		if time.Now().After(deadline) {
			chargeWait(lim)
			break
		}
		time.Sleep(200 * time.Microsecond)
	}
	mu.Lock()
	defer mu.Unlock()
	return dropSentinel(append([]gresult(nil), out...)), nil
}

// carrierFamily: lines
//
//	V <tag> <N> <ncols> <nrows> {id v..} # {nids ids..}                          window API, carried rows
//	Y <tag> <N> <ncols> <nrows> {id v..} # {v.. count first last nids ids..}     SQL, carried rows
//	N <carried value> <hex of cast.GroupKeyPart> <hex of CountingWindow.getKey>  the two key sites on one carrier
func carrierFamily(tier string, seed uint64, o *Out) error {
	rng := NewRNG(seed)
	rng.s = rng.Next() ^ 0xC09CA221E2
	nSQL, nAPI, nWide := 260, 260, 40
	if tier == "thorough" {
		nSQL, nAPI, nWide = 6000, 6000, 600
	}
	for i := 0; i < nSQL+nWide; i++ {
		wide, tag := i >= nSQL, "sql-carriers"
		if wide {
			tag = "sql-f32text"
		}
		n, ncols, rows := genCarried(rng, wide)
		res, err := carriedSQL(n, ncols, rows)
		if err != nil {
			return err
		}
		o.Line("C09 Y %s %d %d %d %s # %s", tag, n, ncols, len(rows), trowsTok(rows), resultsTok(res, true))
		o.Count(tag)
	}
	for i := 0; i < nAPI+nWide; i++ {
		wide, tag := i >= nAPI, "api-carriers"
		if wide {
			tag = "api-f32text"
		}
		n, ncols, rows := genCarried(rng, wide)
		bs, err := countingAPI(n, ncols, plainRows(rows))
		if err != nil {
			return err
		}
		o.Line("C09 V %s %d %d %d %s # %s", tag, n, ncols, len(rows), trowsTok(rows), batchesTok(bs))
		o.Count(tag)
	}
	// corpus: a uint at or above 2^63 next to the int64 its int() conversion wraps to (2^64-5 and -5; N = 2)
	{
		big := gval{kind: 'i', s: "18446744073709551611"}
		small := gval{kind: 'i', i: -5}
		var rows []trow
		for i := 0; i < 4; i++ {
			v, ty, x := big, 5, any(uint(math.MaxUint64-4))
			if i%2 == 1 {
				v, ty, x = small, 4, any(int64(-5))
			}
			rows = append(rows, trow{grow: grow{id: int64(i + 1), vals: []gval{v}, raw: map[int]any{0: x}}, tys: []int{ty}})
		}
		bs, err := countingAPI(2, 1, plainRows(rows))
		if err != nil {
			return err
		}
		o.Line("C09 V api-uintwrap 2 1 %d %s # %s", len(rows), trowsTok(rows), batchesTok(bs))
		res, err := carriedSQL(2, 1, rows)
		if err != nil {
			return err
		}
		o.Line("C09 Y sql-uintwrap 2 1 %d %s # %s", len(rows), trowsTok(rows), resultsTok(res, true))
		o.Count("corpus uint wrap")
	}
	// the two key sites, carrier by carrier
	cw, err := window.NewCountingWindow(types.WindowConfig{Params: []any{2}, GroupByKeys: keyNames(1)})
	if err != nil {
		return err
	}
	defer cw.Stop()
	site := func(v gval, ty int, x any) {
		o.Line("C09 N %s %s %s", carriedTok(v, ty), hexTok(cast.GroupKeyPart(x)), hexTok(cw.VerifGetKey(map[string]any{colName(0): x})))
		o.Count("key sites per carrier")
	}
	for _, u := range []uint64{1 << 63, 1<<63 + 5, math.MaxUint64 - 4, math.MaxUint64} {
		site(gval{kind: 'i', s: strconv.FormatUint(u, 10)}, 5, uint(u))
		site(gval{kind: 'i', s: strconv.FormatUint(u, 10)}, 9, u)
	}
	site(gval{kind: 'i', i: math.MinInt64}, 4, int64(math.MinInt64))
	for _, f := range append(append(append([]float64(nil), carShort...), carF64only...), carWide...) {
		if text64(f) != strconv.FormatFloat(f, 'f', -1, 64) { // the model takes ONE float64 text: keep to magnitudes where 'g' = 'f'
			return fmt.Errorf("C09 carrier family: %v prints differently under 'g' and 'f'", f)
		}
	}
	for ty := range carrierNames {
		for _, z := range append(append([]int64(nil), carSmall...), carEdge...) {
			if x, ok := carryInt(ty, z); ok {
				site(gval{kind: 'i', i: z}, ty, x)
			}
		}
		for _, f := range append(append(append([]float64(nil), carShort...), carF64only...), carWide...) {
			if x, ok := carryFrac(ty, f); ok {
				site(gval{kind: 'f', f: f}, ty, x)
			}
		}
	}
	return nil
}
