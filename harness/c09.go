package main

import (
	"sync"
	"fmt"
	"strconv"
	"strings"
	"time"

	"github.com/rulego/streamsql/types"
	"github.com/rulego/streamsql/window"
)

func init() { runners["C09"] = runC09 }

// countingAPI drives the real CountingWindow through its public API. The window has one
// consumer goroutine fed by a FIFO channel and writes its batches to OutputChan in order, so the
// batch sequence is a function of the Add sequence; a sentinel key (or, without GROUP BY keys, the
// expected number of batches plus a grace period) tells when everything has been processed.
func countingAPI(n, ncols int, rows []grow) ([][]int64, error) {
	cw, err := window.NewCountingWindow(types.WindowConfig{Type: "counting", Params: []any{n}, GroupByKeys: keyNames(ncols)})
	if err != nil {
		return nil, err
	}
	cw.Start()
	defer cw.Stop()
	var out [][]int64
	ch := cw.OutputChan()
	read := func(d time.Duration) bool {
		long := d >= time.Second
		if long {
			d = waitLimit(d)
		}
		select {
		case b := <-ch:
			ids := make([]int64, len(b))
			for i, r := range b {
				ids[i] = rowID(r)
			}
			out = append(out, ids)
			return true
		case <-time.After(d):
			if long {
				chargeWait(d)
			}
			return false
		}
	}
	for i, r := range rows {
		cw.Add(r.toMap())
		if i%200 == 199 { // keep the output buffer (1000) far from full
			for len(ch) > 0 {
				read(time.Millisecond)
			}
		}
	}
	if ncols > 0 {
		for _, m := range sentinelRows(n, ncols) {
			cw.Add(m)
		}
		for {
			if !read(3 * time.Second) {
				break
			}
			last := out[len(out)-1]
			if len(last) > 0 && last[0] >= sentinelBase {
				out = out[:len(out)-1]
				break
			}
		}
		return out, nil
	}
	want := expectedBatches(rows, n)
	for len(out) < want {
		if !read(3 * time.Second) {
			break
		}
	}
	for read(3 * time.Millisecond) { // anything beyond the expected batches is an error the checker reports
	}
	return out, nil
}

func batchesTok(bs [][]int64) string {
	var parts []string
	for _, b := range bs {
		parts = append(parts, strconv.Itoa(len(b)))
		for _, id := range b {
			parts = append(parts, strconv.FormatInt(id, 10))
		}
	}
	return strings.Join(parts, " ")
}

// countingStalled: the window goroutine is held inside the callback of its first batch while the
// producer keeps adding far more rows than the trigger channel holds (capacity 4), then released.
// Add must hand the rows over in order whatever the consumer's speed ("all schedules of the ingest and
// window goroutines"): the batch sequence must still be the model's.
func countingStalled(n, ncols int, rows []grow) ([][]int64, error) {
	release := make(chan struct{})
	first := true
	var out [][]int64
	var mu sync.Mutex
	cfg := types.WindowConfig{Type: "counting", Params: []any{n}, GroupByKeys: keyNames(ncols),
		PerformanceConfig: types.PerformanceConfig{BufferConfig: types.BufferConfig{WindowOutputSize: 4}}}
	cfg.Callback = func(b []types.Row) {
		if first {
			first = false
			<-release
		}
		ids := make([]int64, len(b))
		for i, r := range b {
			ids[i] = rowID(r)
		}
		mu.Lock()
		out = append(out, ids)
		mu.Unlock()
	}
	cw, err := window.NewCountingWindow(cfg)
	if err != nil {
		return nil, err
	}
	cw.Start()
	defer cw.Stop()
	go func() { // drain the output channel so that sendResult never has to drop
		for range cw.OutputChan() {
		}
	}()
	done := make(chan struct{})
	go func() {
		for _, r := range rows {
			cw.Add(r.toMap())
		}
		close(done)
	}()
	time.Sleep(30 * time.Millisecond)
	close(release)
	select {
	case <-done:
	case <-time.After(waitLimit(5 * time.Second)):
	}
	want := expectedBatches(rows, n)
	for i := 0; i < 300; i++ {
		mu.Lock()
		got := len(out)
		mu.Unlock()
		if got >= want {
			break
		}
		time.Sleep(10 * time.Millisecond)
	}
	time.Sleep(20 * time.Millisecond)
	mu.Lock()
	defer mu.Unlock()
	return out, nil
}

func runC09(tier string, seed uint64, o *Out) error {
	rng := NewRNG(seed)
	nAPI, nSQL := 1500, 400
	if tier == "thorough" {
		nAPI, nSQL = 30000, 6000
	}
	S := func(s string) gval { return gval{kind: 's', s: s} }
	// corpus: F2 witness for the counting window (two tuples that shared one buffer), N = 2 and 3
	for _, n := range []int{2, 3} {
		a, b := []gval{S("x|y"), S("z")}, []gval{S("x"), S("y|z")}
		rows := []grow{{id: 1, vals: a}, {id: 2, vals: b}, {id: 3, vals: a}, {id: 4, vals: b}, {id: 5, vals: a}, {id: 6, vals: b}, {id: 7, vals: a}}
		bs, err := countingAPI(n, 2, rows)
		if err != nil {
			return err
		}
		o.Line("C09 W %d 2 %d %s # %s", n, len(rows), rowsTok(rows), batchesTok(bs))
		res, err := countingSQL(rng, "counting", n, 2, rows)
		if err != nil {
			return err
		}
		o.Line("C09 S sql %d 2 %d %s # %s", n, len(rows), rowsTok(rows), resultsTok(res, true))
		o.Count("corpus")
	}
	for i := 0; i < nAPI; i++ {
		n, ncols, rows := genCountingRows(rng)
		bs, err := countingAPI(n, ncols, rows)
		if err != nil {
			return err
		}
		o.Line("C09 W %d %d %d %s # %s", n, ncols, len(rows), rowsTok(rows), batchesTok(bs))
		o.Count(fmt.Sprintf("api N=%d cols=%d", n, ncols))
	}
	nStall := 12
	if tier == "thorough" {
		nStall = 120
	}
	for i := 0; i < nStall; i++ {
		n, ncols, rows := genCountingRows(rng)
		for len(rows) < 40 { // far more rows than the trigger channel (4) holds
			rows = append(rows, rows...)
			for j := range rows {
				rows[j].id = int64(j + 1)
			}
			if len(rows) == 0 {
				break
			}
		}
		if len(rows) == 0 {
			continue
		}
		bs, err := countingStalled(n, ncols, rows)
		if err != nil {
			return err
		}
		o.Line("C09 W %d %d %d %s # %s", n, ncols, len(rows), rowsTok(rows), batchesTok(bs))
		o.Count("api stalled consumer")
	}
	for i := 0; i < nSQL; i++ {
		n, ncols, rows := genCountingRows(rng)
		res, err := countingSQL(rng, "counting", n, ncols, rows)
		if err != nil {
			return err
		}
		o.Line("C09 S sql %d %d %d %s # %s", n, ncols, len(rows), rowsTok(rows), resultsTok(res, true))
		o.Count(fmt.Sprintf("sql N=%d cols=%d", n, ncols))
	}
	return nil
}
