package main

// C18 -- lifecycle safety and the Stop barrier, on the real code through the public API.
//
// Line formats (tokens separated by blanks):
//   C18 S <kind> <strategy> <workers> <poolcap> <sinks> # <ops> # <obs>
//       a sequential script with a settle after every call. sinks = list of <a|s><beh> (a = AddSink, s = AddSyncSink;
//       beh p plain, x panics, a calls AddSink, s calls AddSyncSink, g calls GetStats). ops: e<v> Emit row with value v
//       (v >= 0 passes WHERE, -1 is filtered, -7 makes a user function panic), y<v> EmitSync, A AddSink(plain),
//       B AddSyncSink(plain), G GetStats, T TriggerWindow, X Stop. obs: per op <sink-begins>:<r> with r = 1 returned /
//       0 refused ("stream is stopped") / - not applicable; an X op adds :<async>/<sync> = one digit per sink registered
//       before that Stop (registration order): how often the Stop itself made it run (the MATCH_RECOGNIZE flush);
//       then gr:<base>:<final>. kind cepopen = PATTERN (A+): v >= 0 extends the open match, v < 0 closes and reports it.
//       kinds cepdef / cepmeas = the same pattern with the user function c18boom inside DEFINE / MEASURES, i.e. a row
//       that panics INSIDE the MATCH_RECOGNIZE engine (v = -7): later rows must still be matched, Stop must return and
//       deliver the flushed match. An X op whose Stop let a panic escape into its caller has r = 2.
//   C18 R <kind> <strategy> <seed> # <event trace>
//       concurrent Emit/EmitSync/AddSink/GetStats/TriggerWindow/Stop from a seeded plan; events sb:j sr:j:ms kb:f ke yb:j ye:j:r
//       to gr:base:final (see Spec/LifecycleSpec.v).
//   C18 P <strategy> <workers> <poolcap> <rows> # <event trace>
//       saturated sink pool: every worker is inside a (harness-gated) sink and the task queue is full, so further results
//       take submitSinkTask's overflow branch; Stop is called while these invocations are in progress and they are released
//       one by one in the order in which they began. Same events and monitor as R.
//   C18 L # <event trace>   two overlapping Stop calls (documents F18c).
//   C18 D ...               a second Stop (concurrent / re-entrant from the held sink / repeated) while the first is in
//       progress, see c18e.go; sx:<j> = that call had not returned after 2 s.
//   C18 I ...               Execute immediately followed by Stop (no yield in between), see c18c.go.
//   C18 K ...               producers parked inside Emit on a full data channel while Stop runs, see c18d.go.
//   C18 W ... / C18 B ...   calls in flight while sinks are registered and Stop is called / user code blocked or
//       re-entering on a pipeline goroutine while Stop or an expansion arrives: see c18b.go.

import (
	"bufio"
	"bytes"
	"fmt"
	"os"
	"os/exec"
	"path/filepath"
	"runtime"
	"strconv"
	"strings"
	"sync"
	"sync/atomic"
	"time"

	"github.com/rulego/streamsql"
	"github.com/rulego/streamsql/functions"
	"github.com/rulego/streamsql/logger"
	"github.com/rulego/streamsql/types"
)

func init() { runners["C18"] = runC18 }

var c18Once sync.Once

func c18Register() {
	c18Once.Do(func() {
		_ = functions.RegisterCustomFunction("c18boom", functions.TypeMath, "verif", "panics on -7", 1, 1,
			func(ctx *functions.FunctionContext, args []any) (any, error) {
				if fmt.Sprint(args[0]) == "-7" {
					panic("c18boom")
				}
				return args[0], nil
			})
	})
}

func gid() uint64 {
	var buf [64]byte
	n := runtime.Stack(buf[:], false)
	f := bytes.Fields(buf[:n])
	if len(f) < 2 {
		return 0
	}
	id, _ := strconv.ParseUint(string(f[1]), 10, 64)
	return id
}

// c18Trace is the event recorder; the order of events is the order in which the recorder's lock was taken.
type c18Trace struct {
	mu     sync.Mutex
	ev     []string
	inStop map[uint64]bool
	begins int64
	ends   int64
	// per-sink accounting (scripts): invocation count of every sink built by mkSink, and the ids of the sinks
	// registered through addSink in registration order (= the order of s.sinks / s.syncSinks)
	cnt      []int64
	asyncIDs []int
	syncIDs  []int
}

func newC18Trace() *c18Trace { return &c18Trace{inStop: map[uint64]bool{}} }
func (t *c18Trace) add(s string) {
	t.mu.Lock()
	t.ev = append(t.ev, s)
	t.mu.Unlock()
}
func (t *c18Trace) sinkBegin(id int) {
	g := gid()
	t.mu.Lock()
	t.cnt[id]++
	f := 0
	if t.inStop[g] {
		f = 1
	}
	t.ev = append(t.ev, fmt.Sprintf("kb:%d", f))
	t.mu.Unlock()
	atomic.AddInt64(&t.begins, 1)
}
func (t *c18Trace) sinkEnd() {
	t.add("ke")
	atomic.AddInt64(&t.ends, 1)
}
func (t *c18Trace) stop(s *streamsql.Streamsql, j int) (panicked bool) {
	g := gid()
	t.mu.Lock()
	t.inStop[g] = true
	t.ev = append(t.ev, fmt.Sprintf("sb:%d", j))
	t.mu.Unlock()
	t0 := time.Now()
	panicked = false
	func() {
		defer func() {
			if e := recover(); e != nil {
				panicked = true // a panic escaped Stop into its caller
			}
		}()
		s.Stop()
	}()
	ms := time.Since(t0).Milliseconds()
	t.mu.Lock()
	delete(t.inStop, g)
	if panicked {
		t.ev = append(t.ev, fmt.Sprintf("sp:%d", j))
	}
	t.ev = append(t.ev, fmt.Sprintf("sr:%d:%d", j, ms))
	t.mu.Unlock()
	return panicked
}
func (t *c18Trace) emitSync(s *streamsql.Streamsql, j int, row map[string]any) {
	t.add(fmt.Sprintf("yb:%d", j))
	r := 1
	func() {
		defer func() {
			if e := recover(); e != nil {
				r = 2 // a panic escaped EmitSync
			}
		}()
		_, err := s.EmitSync(row)
		if err != nil && strings.Contains(err.Error(), "stopped") {
			r = 0
		}
	}()
	t.add(fmt.Sprintf("ye:%d:%d", j, r))
}

// mkSink builds a user sink with the given behaviour.
func (t *c18Trace) mkSink(s *streamsql.Streamsql, beh byte, slow time.Duration) func([]map[string]any) {
	f, _ := t.mkSinkID(s, beh, slow)
	return f
}

// addSink registers a sink and remembers its position in the instance's sink list.
func (t *c18Trace) addSink(s *streamsql.Streamsql, isSync bool, beh byte, slow time.Duration) {
	f, id := t.mkSinkID(s, beh, slow)
	t.mu.Lock()
	if isSync {
		t.syncIDs = append(t.syncIDs, id)
	} else {
		t.asyncIDs = append(t.asyncIDs, id)
	}
	t.mu.Unlock()
	if isSync {
		s.AddSyncSink(f)
	} else {
		s.AddSink(f)
	}
}

// perSink returns the current invocation counts of the registered sinks, async list then sync list.
func (t *c18Trace) perSink() (a, b []int64) {
	t.mu.Lock()
	defer t.mu.Unlock()
	for _, id := range t.asyncIDs {
		a = append(a, t.cnt[id])
	}
	for _, id := range t.syncIDs {
		b = append(b, t.cnt[id])
	}
	return
}

func (t *c18Trace) mkSinkID(s *streamsql.Streamsql, beh byte, slow time.Duration) (func([]map[string]any), int) {
	t.mu.Lock()
	id := len(t.cnt)
	t.cnt = append(t.cnt, 0)
	t.mu.Unlock()
	return func(rows []map[string]any) {
		t.sinkBegin(id)
		defer t.sinkEnd()
		if slow > 0 {
			time.Sleep(slow)
		}
		switch beh {
		case 'x':
			panic("c18 sink panic")
		case 'a':
			t.addSink(s, false, 'p', 0)
		case 's':
			t.addSink(s, true, 'p', 0)
		case 'g':
			_ = s.GetStats()
		}
	}, id
}

var c18Kinds = map[string]string{
	"direct":    "SELECT id, v FROM stream WHERE c18boom(v) >= 0",
	"analytic":  "SELECT id, lag(v) AS pv FROM stream WHERE c18boom(v) >= 0",
	"cep":       "SELECT * FROM stream MATCH_RECOGNIZE (ORDER BY ts MEASURES A.id AS aid ONE ROW PER MATCH PATTERN (A B+) DEFINE A AS v >= 0, B AS v >= 0)",
	// an unclosed greedy A+: rows with v >= 0 extend the open match, a row with v < 0 closes and reports it, Stop flushes it
	"cepopen": "SELECT * FROM stream MATCH_RECOGNIZE (ORDER BY ts MEASURES COUNT(*) AS n ONE ROW PER MATCH PATTERN (A+) DEFINE A AS v >= 0)",
	// the same open match, but user code runs INSIDE the engine (under its mutex): cepdef = DEFINE calls c18boom, so a row
	// with v = -7 panics while the engine decides whether it extends the match (the row is lost, the match stays as it
	// was); cepmeas = MEASURES calls c18boom on the last row of the match and rows with v = -7 belong to A, so closing
	// (or flushing) a match whose last row is -7 panics while the match is projected (the engine keeps the match open).
	// WITHIN starts the engine's sweeper goroutine, which Stop has to join as well.
	"cepdef":  "SELECT * FROM stream MATCH_RECOGNIZE (ORDER BY ts MEASURES COUNT(*) AS n ONE ROW PER MATCH PATTERN (A+) WITHIN '1h' DEFINE A AS c18boom(v) >= 0)",
	"cepmeas": "SELECT * FROM stream MATCH_RECOGNIZE (ORDER BY ts MEASURES COUNT(*) AS n, c18boom(LAST(A.v)) AS m ONE ROW PER MATCH PATTERN (A+) DEFINE A AS v >= 0 OR v < -5)",
	"tumbling":  "SELECT count(*) AS c, max(c18boom(v)) AS m FROM stream WHERE v >= 0 OR v < -5 GROUP BY TumblingWindow('20ms')",
	"sliding":   "SELECT count(*) AS c, max(c18boom(v)) AS m FROM stream WHERE v >= 0 OR v < -5 GROUP BY SlidingWindow('40ms','20ms')",
	"session":   "SELECT count(*) AS c, max(c18boom(v)) AS m FROM stream WHERE v >= 0 OR v < -5 GROUP BY SessionWindow('20ms')",
	"tumblingE": "SELECT count(*) AS c, max(c18boom(v)) AS m FROM stream WHERE v >= 0 OR v < -5 GROUP BY TumblingWindow('20ms') WITH (TIMESTAMP='ts', TIMEUNIT='ms')",
	"slidingE":  "SELECT count(*) AS c, max(c18boom(v)) AS m FROM stream WHERE v >= 0 OR v < -5 GROUP BY SlidingWindow('40ms','20ms') WITH (TIMESTAMP='ts', TIMEUNIT='ms')",
	"sessionE":  "SELECT count(*) AS c, max(c18boom(v)) AS m FROM stream WHERE v >= 0 OR v < -5 GROUP BY SessionWindow('20ms') WITH (TIMESTAMP='ts', TIMEUNIT='ms')",
	"counting":  "SELECT count(*) AS c, max(c18boom(v)) AS m FROM stream WHERE v >= 0 OR v < -5 GROUP BY CountingWindow(3)",
	"counting1": "SELECT count(*) AS c, max(c18boom(v)) AS m FROM stream WHERE v >= 0 OR v < -5 GROUP BY CountingWindow(1)",
	"global":    "SELECT count(*) AS c FROM stream WHERE c18boom(v) >= 0 GROUP BY GLOBAL WINDOW TRIGGER WHEN COUNT(*) >= 3",
	"global1":   "SELECT count(*) AS c FROM stream WHERE c18boom(v) >= 0 GROUP BY GLOBAL WINDOW TRIGGER WHEN COUNT(*) >= 1",
}

func c18IsDirect(kind string) bool { return kind == "direct" || kind == "analytic" }

func c18New(kind, strat string, chanSize, poolCap, workers int, blockTimeout time.Duration) (*streamsql.Streamsql, error) {
	c18Register()
	pc := types.DefaultPerformanceConfig()
	pc.BufferConfig.DataChannelSize = chanSize
	pc.BufferConfig.MaxBufferSize = chanSize * 4
	pc.OverflowConfig.Strategy = strat
	pc.OverflowConfig.BlockTimeout = blockTimeout
	pc.OverflowConfig.AllowDataLoss = strat == "drop"
	pc.OverflowConfig.ExpansionConfig.MinIncrement = 2
	pc.OverflowConfig.ExpansionConfig.TriggerThreshold = 0.5
	pc.WorkerConfig.SinkPoolSize = poolCap
	pc.WorkerConfig.SinkWorkerCount = workers
	// per-instance discard logger: WithDiscardLog() writes the package-global default logger without synchronisation,
	// which the race detector reports as soon as two instances are constructed concurrently (not C18's subject)
	s := streamsql.New(streamsql.WithLogger(logger.NewDiscardLogger()), streamsql.WithCustomPerformance(pc))
	if err := s.Execute(c18Kinds[kind]); err != nil {
		return nil, fmt.Errorf("%s: %v", kind, err)
	}
	return s, nil
}

func c18Row(id, v int) map[string]any {
	return map[string]any{"id": id, "v": v, "ts": time.Now().UnixMilli()}
}

// waitGoroutines polls until the goroutine count is back to base (or patience runs out).
func waitGoroutines(base int, patience time.Duration) int {
	deadline := time.Now().Add(patience)
	n := runtime.NumGoroutine()
	for n > base && time.Now().Before(deadline) {
		time.Sleep(2 * time.Millisecond)
		n = runtime.NumGoroutine()
	}
	return n
}

// callWithin runs f on a goroutine and reports whether it returned within d.
func callWithin(d time.Duration, f func()) bool {
	done := make(chan struct{})
	go func() { f(); close(done) }()
	select {
	case <-done:
		return true
	case <-time.After(d):
		return false
	}
}

// ------------------------------------------------------------------ sequential scripts

type c18Script struct {
	kind, strat      string
	workers, poolCap int
	sinks            []string // "ap", "sx", ...
	ops              []string
}

func (t *c18Trace) settle(s *streamsql.Streamsql) {
	stable := 0
	last := int64(-1)
	for i := 0; i < 400 && stable < 8; i++ {
		time.Sleep(3 * time.Millisecond)
		b, e := atomic.LoadInt64(&t.begins), atomic.LoadInt64(&t.ends)
		if b == e && b == last && s.GetStats()["data_chan_len"] == 0 {
			stable++
		} else {
			stable = 0
		}
		last = b
	}
}

func runC18Script(sc c18Script, countGoroutines bool) (string, error) {
	base := runtime.NumGoroutine()
	s, err := c18New(sc.kind, sc.strat, 16, sc.poolCap, sc.workers, 0)
	if err != nil {
		return "", err
	}
	t := newC18Trace()
	for _, sk := range sc.sinks {
		t.addSink(s, sk[0] == 's', sk[1], 0)
	}
	digits := func(before, after []int64) string {
		if len(before) == 0 {
			return "-"
		}
		var sb strings.Builder
		for k := range before { // sinks registered before the call began
			d := after[k] - before[k]
			if d > 9 {
				d = 9
			}
			sb.WriteByte(byte('0' + d))
		}
		return sb.String()
	}
	var obs []string
	for i, op := range sc.ops {
		b0 := atomic.LoadInt64(&t.begins)
		a0, s0 := t.perSink()
		r := "-"
		ok := callWithin(8*time.Second, func() {
			switch op[0] {
			case 'e':
				v, _ := strconv.Atoi(op[1:])
				s.Emit(c18Row(i, v))
			case 'y':
				v, _ := strconv.Atoi(op[1:])
				t.emitSync(s, i, c18Row(i, v))
				t.mu.Lock()
				last := t.ev[len(t.ev)-1]
				t.mu.Unlock()
				r = last[strings.LastIndex(last, ":")+1:]
			case 'A':
				t.addSink(s, false, 'p', 0)
			case 'B':
				t.addSink(s, true, 'p', 0)
			case 'G':
				_ = s.GetStats()
			case 'T':
				s.TriggerWindow()
			case 'X':
				r = "1"
				if t.stop(s, i) {
					r = "2" // a panic escaped Stop
				}
			}
		})
		if !ok {
			obs = append(obs, "to")
			break
		}
		t.settle(s)
		if op == "X" {
			// which of the sinks registered before this Stop were invoked because of it (the CEP flush), and how often
			a1, s1 := t.perSink()
			r += ":" + digits(a0, a1) + "/" + digits(s0, s1)
		}
		obs = append(obs, fmt.Sprintf("%d:%s", atomic.LoadInt64(&t.begins)-b0, r))
	}
	callWithin(8*time.Second, func() { s.Stop() })
	if countGoroutines {
		obs = append(obs, fmt.Sprintf("gr:%d:%d", base, waitGoroutines(base, 2*time.Second)))
	} else {
		obs = append(obs, "gr:0:0")
	}
	return fmt.Sprintf("C18 S %s %s %d %d %s # %s # %s", sc.kind, sc.strat, sc.workers, sc.poolCap,
		c18Join(sc.sinks), strings.Join(sc.ops, " "), strings.Join(obs, " ")), nil
}

func genC18Script(rng *RNG, kind, strat string) c18Script {
	sc := c18Script{kind: kind, strat: strat, workers: 1 + rng.Intn(3), poolCap: []int{1, 4}[rng.Intn(2)]}
	behs := "ppxasg"
	for i, n := 0, rng.Intn(4); i < n; i++ {
		sc.sinks = append(sc.sinks, string("as"[rng.Intn(2)])+string(behs[rng.Intn(len(behs))]))
	}
	direct := c18IsDirect(kind)
	if kind == "cepopen" {
		// the flush at Stop calls every sink inline, in registration order: make lists of 2-5 sinks in which a
		// panicking or re-entrant one sits at a random position (often first)
		sc.sinks = nil
		for i, n := 0, 2+rng.Intn(4); i < n; i++ {
			b := "pppxxasg"[rng.Intn(8)]
			if i == 0 && rng.Bool() {
				b = 'x'
			}
			sc.sinks = append(sc.sinks, string("as"[rng.Intn(2)])+string(b))
		}
	}
	boom := kind == "cepdef" || kind == "cepmeas"
	if boom {
		sc.sinks = nil
		for i, n := 0, 1+rng.Intn(3); i < n; i++ {
			sc.sinks = append(sc.sinks, string("as"[rng.Intn(2)])+string("ppppxg"[rng.Intn(6)]))
		}
	}
	val := func() string {
		if boom { // v >= 0 extends the open match, -7 panics inside the engine, -1 closes the match
			switch k := rng.Intn(8); {
			case k < 2:
				return "-7"
			case k < 4:
				return "-1"
			}
			return strconv.Itoa(rng.Intn(50))
		}
		switch rng.Intn(8) {
		case 0:
			return "-1"
		case 1:
			if kind != "global1" && kind != "cepopen" {
				return "-7"
			}
		}
		if kind == "cepopen" && rng.Intn(5) == 0 {
			return "-1"
		}
		return strconv.Itoa(rng.Intn(50))
	}
	op := func(stopped bool) string {
		k := rng.Intn(10)
		switch {
		case k < 4:
			return "e" + val()
		case k < 6 && direct:
			return "y" + val()
		case k == 6:
			return "A"
		case k == 7:
			return "B"
		case k == 8:
			return "G"
		case k == 9 && (direct || stopped):
			return "T"
		}
		return "e" + val()
	}
	for i, n := 0, 2+rng.Intn(6); i < n; i++ {
		sc.ops = append(sc.ops, op(false))
	}
	if boom {
		// the family's shape is always present: a row that panics inside the engine, FOLLOWED by rows that extend the
		// match and (two thirds) by the row that closes and reports it; then Stop
		tail := []string{"e-7", "e" + strconv.Itoa(rng.Intn(50))}
		if kind == "cepmeas" {
			tail = []string{"e" + strconv.Itoa(rng.Intn(50)), "e-7", "e-1", "e" + strconv.Itoa(rng.Intn(50))}
		}
		if rng.Intn(3) > 0 {
			tail = append(tail, "e-1")
		}
		if rng.Intn(3) == 0 {
			tail = append(tail, "e"+val()) // whatever comes last decides what Stop has to flush
		}
		at := rng.Intn(len(sc.ops) + 1)
		sc.ops = append(sc.ops[:at:at], append(tail, sc.ops[at:]...)...)
	}
	sc.ops = append(sc.ops, "X")
	for i, n := 0, 1+rng.Intn(4); i < n; i++ {
		if rng.Intn(4) == 0 {
			sc.ops = append(sc.ops, "X")
		} else {
			sc.ops = append(sc.ops, op(true))
		}
	}
	return sc
}

// ------------------------------------------------------------------ concurrent runs

func runC18Random(kind, strat string, seed uint64) (string, error) {
	rng := NewRNG(seed)
	base := runtime.NumGoroutine()
	chanSize := []int{1, 4, 64}[rng.Intn(3)]
	var bt time.Duration
	if rng.Bool() {
		bt = 2 * time.Millisecond
	}
	s, err := c18New(kind, strat, chanSize, []int{1, 8}[rng.Intn(2)], 1+rng.Intn(3), bt)
	if err != nil {
		return "", err
	}
	t := newC18Trace()
	behs := "ppxasgww"
	addSink := func() {
		b := behs[rng.Intn(len(behs))]
		var slow time.Duration
		if b == 'w' {
			slow = time.Duration(200+rng.Intn(3000)) * time.Microsecond
			b = 'p'
		}
		if rng.Bool() {
			s.AddSink(t.mkSink(s, b, slow))
		} else {
			s.AddSyncSink(t.mkSink(s, b, slow))
		}
	}
	for i, n := 0, 1+rng.Intn(3); i < n; i++ {
		addSink()
	}
	var wg sync.WaitGroup
	var idc int64
	spawn := func(f func(r *RNG)) {
		r := NewRNG(rng.Next())
		wg.Add(1)
		go func() { defer wg.Done(); f(r) }()
	}
	pause := func(r *RNG, maxUs int) {
		if us := r.Intn(maxUs + 1); us > 0 {
			time.Sleep(time.Duration(us) * time.Microsecond)
		}
	}
	val := func(r *RNG) int {
		switch r.Intn(12) {
		case 0:
			return -1
		case 1:
			if !strings.HasPrefix(kind, "global") {
				return -7
			}
		}
		return r.Intn(100)
	}
	horizon := 30 + rng.Intn(60) // ms of activity
	for p, np := 0, 1+rng.Intn(3); p < np; p++ {
		n := 5 + rng.Intn(40)
		spawn(func(r *RNG) {
			for i := 0; i < n; i++ {
				s.Emit(c18Row(int(atomic.AddInt64(&idc, 1)), val(r)))
				pause(r, horizon*1000/n*2)
			}
		})
	}
	if c18IsDirect(kind) {
		for p, np := 0, rng.Intn(3); p < np; p++ {
			n := 3 + rng.Intn(15)
			spawn(func(r *RNG) {
				for i := 0; i < n; i++ {
					t.emitSync(s, int(atomic.AddInt64(&idc, 1)), c18Row(0, val(r)))
					pause(r, horizon*1000/n*2)
				}
			})
		}
	}
	if n := rng.Intn(4); n > 0 {
		spawn(func(r *RNG) {
			for i := 0; i < n; i++ {
				pause(r, horizon*1000/n)
				b := "pxasg"[r.Intn(5)]
				if r.Bool() {
					s.AddSink(t.mkSink(s, b, 0))
				} else {
					s.AddSyncSink(t.mkSink(s, b, 0))
				}
			}
		})
	}
	spawn(func(r *RNG) {
		for i, n := 0, 2+r.Intn(8); i < n; i++ {
			_ = s.GetStats()
			if r.Intn(3) == 0 {
				s.TriggerWindow()
			}
			pause(r, horizon*1000/n)
		}
	})
	nstop := 1 + rng.Intn(2)
	for j := 0; j < nstop; j++ {
		j := j
		delay := rng.Intn(horizon + 10)
		spawn(func(r *RNG) {
			time.Sleep(time.Duration(delay) * time.Millisecond)
			t.stop(s, j+1)
		})
	}
	if !callWithin(8*time.Second, wg.Wait) {
		t.add("to")
	} else {
		// after every Stop returned: the instance must stay inert
		post := func() {
			s.Emit(c18Row(0, 1))
			if c18IsDirect(kind) {
				t.emitSync(s, int(atomic.AddInt64(&idc, 1)), c18Row(0, 1))
			}
			s.TriggerWindow()
			s.AddSink(t.mkSink(s, 'p', 0))
			_ = s.GetStats()
			s.Emit(c18Row(0, 2))
			t.stop(s, 9)
			time.Sleep(time.Duration(rng.Intn(3)) * time.Millisecond)
		}
		if !callWithin(8*time.Second, post) {
			t.add("to")
		}
	}
	t.add(fmt.Sprintf("gr:%d:%d", base, waitGoroutines(base, 2*time.Second)))
	t.mu.Lock()
	defer t.mu.Unlock()
	return fmt.Sprintf("C18 R %s %s %d # %s", kind, strat, seed, strings.Join(t.ev, " ")), nil
}

// c18Gate lets the harness decide when each invocation of a sink returns.
type c18Gate struct {
	mu      sync.Mutex
	entered []chan struct{}
	open    bool
}

func (g *c18Gate) enter() chan struct{} {
	ch := make(chan struct{})
	g.mu.Lock()
	if g.open {
		close(ch)
	} else {
		g.entered = append(g.entered, ch)
	}
	g.mu.Unlock()
	return ch
}

// releaseInOrder lets the invocations return one by one in the order in which they began (also those that begin while
// it is at work), then opens the gate for good.
func (g *c18Gate) releaseInOrder(gap time.Duration) {
	for i := 0; ; i++ {
		g.mu.Lock()
		if i >= len(g.entered) {
			g.open = true
			g.mu.Unlock()
			return
		}
		ch := g.entered[i]
		g.mu.Unlock()
		close(ch)
		time.Sleep(gap)
	}
}

// saturated sink pool + Stop while the overflow invocations are still running
func runC18Saturated(rng *RNG, strat string) (string, error) {
	workers, poolCap := 1+rng.Intn(2), 1+rng.Intn(2)
	rows := workers + poolCap + 1 + rng.Intn(3)
	base := runtime.NumGoroutine()
	s, err := c18New("direct", strat, 16, poolCap, workers, 0)
	if err != nil {
		return "", err
	}
	t := newC18Trace()
	g := &c18Gate{}
	t.cnt = append(t.cnt, 0)
	gated := func(r []map[string]any) {
		t.sinkBegin(0)
		defer t.sinkEnd()
		<-g.enter()
	}
	s.AddSink(gated)
	if rng.Bool() {
		s.AddSink(t.mkSink(s, "px"[rng.Intn(2)], 0))
	}
	if rng.Bool() {
		t.addSink(s, true, 'p', 0)
	}
	for i := 0; i < rows; i++ {
		s.Emit(c18Row(i, i))
		time.Sleep(3 * time.Millisecond)
	}
	// wait until no further invocation begins: workers blocked, queue full, overflow invocation(s) blocked
	last, stable := int64(-1), 0
	for i := 0; i < 200 && stable < 6; i++ {
		time.Sleep(3 * time.Millisecond)
		if b := atomic.LoadInt64(&t.begins); b == last {
			stable++
		} else {
			last, stable = b, 0
		}
	}
	var wg sync.WaitGroup
	wg.Add(1)
	go func() { defer wg.Done(); t.stop(s, 1) }()
	time.Sleep(10 * time.Millisecond)
	g.releaseInOrder(time.Duration(8+rng.Intn(8)) * time.Millisecond)
	if !callWithin(8*time.Second, wg.Wait) {
		t.add("to")
	}
	time.Sleep(20 * time.Millisecond) // invocations that outlive Stop show up as ke (or kb) after sr
	t.add(fmt.Sprintf("gr:%d:%d", base, waitGoroutines(base, 2*time.Second)))
	t.mu.Lock()
	defer t.mu.Unlock()
	return fmt.Sprintf("C18 P %s %d %d %d # %s", strat, workers, poolCap, rows, strings.Join(t.ev, " ")), nil
}

// two overlapping Stop calls: the second returns at once although the first is still waiting for a sink
func runC18Loser() (string, error) {
	s, err := c18New("direct", "drop", 16, 4, 2, 0)
	if err != nil {
		return "", err
	}
	t := newC18Trace()
	entered := make(chan struct{}, 1)
	release := make(chan struct{})
	t.cnt = append(t.cnt, 0)
	s.AddSyncSink(func(rows []map[string]any) {
		t.sinkBegin(0)
		defer t.sinkEnd()
		entered <- struct{}{}
		<-release
	})
	s.AddSyncSink(t.mkSink(s, 'p', 0))
	s.Emit(c18Row(1, 1))
	select {
	case <-entered:
	case <-time.After(5 * time.Second):
		return "", fmt.Errorf("loser scenario: sink never entered")
	}
	var wg sync.WaitGroup
	wg.Add(1)
	go func() { defer wg.Done(); t.stop(s, 1) }()
	time.Sleep(20 * time.Millisecond)
	// the second call is a no-op that returns at once; it is never awaited without a bound (sx:2 = still running after
	// 2 s = second_stop_blocked; the call is then left behind on its own goroutine)
	wg.Add(1)
	second := func() { defer wg.Done(); t.stopWatched(s, 2, c18SecondStopBound) }
	callWithin(c18SecondStopBound+500*time.Millisecond, second)
	close(release)
	if !callWithin(8*time.Second, wg.Wait) {
		t.add("to")
	}
	t.mu.Lock()
	defer t.mu.Unlock()
	return "C18 L # " + strings.Join(t.ev, " "), nil
}

// after this many cases in which a call did not return the run stops generating cases: every further one would
// again wait for the harness's patience, and the failing inputs are already on record
const c18MaxStuck = 3

func c18IsStuck(line string) bool {
	return strings.Contains(line, " to ") || strings.HasSuffix(line, " to")
}

func runC18(tier string, seed uint64, o *Out) error {
	// NewRNG(seed+1) is NewRNG(seed) advanced by one draw (the state is seed*gamma + c and a draw adds gamma), so
	// consecutive seeds would replay almost the same cases: hash the seed first
	rng := NewRNG(NewRNG(seed).Next())
	stuck := 0
	// family M (c18m.go) runs a second time under the race detector: the -race build of this harness is started now
	// (a child process, no goroutine of ours) and awaited when that family's turn comes
	raceBin := func() string { return "" }
	if tier != "race" {
		wait := c18RaceBuild()
		var once sync.Once
		bin := ""
		raceBin = func() string { once.Do(func() { bin = wait() }); return bin }
		defer raceBin()
	}
	strategies := []string{"drop", "block", "expand"}
	scriptKinds := []string{"direct", "analytic", "counting1", "global1", "cepopen", "cepdef", "cepmeas"}
	randKinds := []string{"direct", "analytic", "cep", "cepdef", "tumbling", "sliding", "session", "tumblingE", "slidingE", "sessionE", "counting", "global"}
	nScript, nRand := 8, 5
	if tier == "thorough" {
		nScript, nRand = 40, 30
	}
	if tier == "race" { // internal tier: this binary was built with -race by the thorough tier (see c18RaceRun)
		nScript, nRand = 2, 6
	}
	// (00) family I: Execute immediately followed by Stop, one case at a time and before anything else runs (the cases
	// set GOMAXPROCS and count goroutines), see c18c.go
	if n, err := runC18ImmediateFamily(tier, rng, o); err != nil {
		return err
	} else if stuck += n; stuck >= c18MaxStuck {
		o.Count("aborted_after_stuck_cases")
		return nil
	}
	// (0) families B (blocked / re-entrant user code while Stop or an expansion arrives) and W (calls in flight while
	// sinks are registered and Stop is called), see c18b.go
	if n, err := runC18Families(tier, rng, o); err != nil {
		return err
	} else if stuck += n; stuck >= c18MaxStuck {
		o.Count("aborted_after_stuck_cases")
		return nil
	}
	// (1) scripts, several at a time (their goroutine accounting is switched off; the sequential cases below do it)
	var scripts []c18Script
	for _, k := range scriptKinds {
		for _, st := range strategies {
			for i := 0; i < nScript; i++ {
				scripts = append(scripts, genC18Script(rng, k, st))
			}
		}
	}
	lines := make([]string, len(scripts))
	errs := make([]error, len(scripts))
	sem := make(chan struct{}, 12)
	var wg sync.WaitGroup
	var stuckPar int64
	for i := range scripts {
		i := i
		if atomic.LoadInt64(&stuckPar) >= c18MaxStuck {
			break
		}
		wg.Add(1)
		sem <- struct{}{}
		go func() {
			defer wg.Done()
			defer func() { <-sem }()
			lines[i], errs[i] = runC18Script(scripts[i], false)
			if c18IsStuck(lines[i]) {
				atomic.AddInt64(&stuckPar, 1)
			}
		}()
	}
	wg.Wait()
	for i := range scripts {
		if errs[i] != nil {
			return errs[i]
		}
		if lines[i] == "" {
			continue
		}
		o.Line("%s", lines[i])
		o.Count("script/" + scripts[i].kind + "/" + scripts[i].strat)
	}
	stuck += int(stuckPar)
	if stuck >= c18MaxStuck {
		o.Count("aborted_after_stuck_cases")
		return nil
	}
	time.Sleep(50 * time.Millisecond)
	// (2) a few scripts alone, with goroutine accounting
	for i := 0; i < len(scriptKinds); i++ {
		sc := genC18Script(rng, scriptKinds[i%len(scriptKinds)], strategies[i%3])
		l, err := runC18Script(sc, true)
		if err != nil {
			return err
		}
		o.Line("%s", l)
		o.Count("script_gr/" + sc.kind)
		if c18IsStuck(l) {
			stuck++
		}
		if stuck >= c18MaxStuck {
			o.Count("aborted_after_stuck_cases")
			return nil
		}
	}
	// (3) concurrent runs, one at a time (goroutine accounting is global)
	for _, k := range randKinds {
		for _, st := range strategies {
			for i := 0; i < nRand; i++ {
				l, err := runC18Random(k, st, rng.Next()%1000000)
				if err != nil {
					return err
				}
				o.Line("%s", l)
				o.Count("concurrent/" + k + "/" + st)
				if c18IsStuck(l) || strings.Contains(l, ":5000") || strings.Contains(l, ":5001") || strings.Contains(l, ":5002") {
					stuck++
				}
				if stuck >= c18MaxStuck {
					o.Count("aborted_after_stuck_cases")
					return nil
				}
			}
		}
	}
	// (3b) saturated sink pool, Stop during the overflow invocations
	nSat := 4
	if tier == "thorough" {
		nSat = 20
	}
	for _, st := range strategies {
		for i := 0; i < nSat; i++ {
			l, err := runC18Saturated(rng, st)
			if err != nil {
				return err
			}
			o.Line("%s", l)
			o.Count("saturated_pool/" + st)
			if c18IsStuck(l) {
				stuck++
			}
			if stuck >= c18MaxStuck {
				o.Count("aborted_after_stuck_cases")
				return nil
			}
		}
	}
	// (4) overlapping Stop calls
	l, err := runC18Loser()
	if err != nil {
		return err
	}
	o.Line("%s", l)
	o.Count("overlapping_stop")
	// (5) family M: EmitSync / Emit callers hammering one instance (child process; plain, then under the race detector)
	if err := runC18Memory(tier, seed, raceBin, o); err != nil {
		return err
	}
	if tier == "thorough" {
		return c18RaceRun(seed, o)
	}
	return nil
}

// c18RaceRun (thorough tier): data races are not expressible in the model, so the same harness is rebuilt with the
// race detector and run again on fresh seeds; a reported race makes that process exit with status 66, which fails
// this run with the detector's report and the seed. This is testing, and is reported as such.
func c18RaceRun(seed uint64, o *Out) error {
	exe, err := os.Executable()
	if err != nil {
		return err
	}
	src := filepath.Join(filepath.Dir(filepath.Dir(exe)), "harness")
	bin := filepath.Join(filepath.Dir(exe), "harness_race")
	build := exec.Command("go", "build", "-race", "-tags", "verif", "-o", bin, ".")
	build.Dir = src
	build.Env = append(os.Environ(), "CGO_ENABLED=1")
	if out, err := build.CombinedOutput(); err != nil {
		o.Count("race_detector_unavailable")
		fmt.Fprintf(os.Stderr, "C18: go build -race failed, race tier skipped: %v\n%s\n", err, out)
		return nil
	}
	tmp := bin + ".cases"
	run := exec.Command(bin, "C18", "race", strconv.FormatUint(seed+1000003, 10), tmp)
	run.Env = append(os.Environ(), "GORACE=halt_on_error=1 exitcode=66")
	out, err := run.CombinedOutput()
	if err != nil {
		return fmt.Errorf("race-detector run (seed %d) failed: %v\n%s", seed+1000003, err, out)
	}
	f, err := os.Open(tmp)
	if err != nil {
		return err
	}
	defer f.Close()
	sc := bufio.NewScanner(f)
	sc.Buffer(make([]byte, 1<<20), 1<<24)
	for sc.Scan() {
		o.Line("%s", sc.Text())
		o.Count("under_race_detector")
	}
	return sc.Err()
}

func c18Join(s []string) string {
	if len(s) == 0 {
		return "-"
	}
	return strings.Join(s, ",")
}
