package main

// C07 family T ("typed twins"): SELECT DISTINCT on a grouped batch whose result rows differ ONLY in the
// Go type of a value. GROUP BY keeps the number 7 and the string "7" apart (cast.GroupKeyPart is
// type-tagged), so they are two groups with two result rows; when both groups aggregate the same
// multiset of input rows, the two result rows print identically (fmt's %v: 7 / 7, 1.5 / 1.5, true / true) and are
// still not duplicates: their serialisations (7 / "7") differ, as do the typed model values
// PaNum / PaStr. DISTINCT has to deliver both.
//
// Lines are ordinary `C07 Q t ...` lines (mode t = batch runner, like h); the relational checker
// judges them: a dropped twin is a surviving group that is missing (distinct_lost / limit_prefix /
// having_lost), two equal delivered rows are distinct_nodup.
//
// Kept out of this family on purpose (documented limits of the model, see bin/props.d/C07.json):
// ORDER BY over the group columns (a number against a string is ordered by fmt's rendering, which is
// not modelled for non-integers) and HAVING over the group column (strings in arithmetic).

import "fmt"

// twin pools: the same printed text as a number and as a string
var c7twinInts = []int{7, 0, -3, 12, 1, 10}
var c7twinFloats = []float64{1.5, 2.25, -0.5, 0.125, 10.5}

func c7genTwinQuery(rng *RNG, ngroup int) *c7query {
	var q *c7query
	for {
		q = c7genQuery(rng, ngroup)
		if !q.gnum { // HAVING never names the group column
			break
		}
	}
	q.distinct = true
	for j := range q.selGroup { // the twin column is in the SELECT list most of the time (it is delivered anyway)
		q.selGroup[j] = rng.Intn(6) > 0
	}
	var order [][2]string
	var orderSQL []string
	for k, o := range q.order {
		if o[0][0] == 'g' {
			continue
		}
		order = append(order, o)
		orderSQL = append(orderSQL, q.orderSQL[k])
	}
	q.order, q.orderSQL = order, orderSQL
	if q.hasLimit && rng.Bool() { // LIMIT would hide most of the batch half of the time
		q.hasLimit, q.limit = false, 0
	}
	return q
}

// 1-3 twin pairs (number, string of its text) + 0-2 ordinary groups. Both groups of a pair get the same
// input values (equal aggregates -> rows equal as printed) in 3 of 4 pairs; otherwise different values
// (rows that differ in a printed value as well).
func c7genTwinInput(rng *RNG, q *c7query) []c7in {
	var rows []c7in
	used := map[string]bool{}
	npairs := rng.Range(1, 3)
	nplain := rng.Intn(3)
	tcol := rng.Intn(q.ngroup) // the column that carries the twin values
	other := func() any { return fmt.Sprintf("k%d", rng.Intn(4)) }
	addGroup := func(key []any, vals [][3]int) {
		for _, v := range vals {
			rows = append(rows, c7in{key: append([]any(nil), key...), vals: v})
		}
	}
	genVals := func() [][3]int {
		size := []int{1, 2, 4}[rng.Intn(3)]
		span := []int{3, 8, 40}[rng.Intn(3)]
		vals := make([][3]int, size)
		for k := range vals {
			vals[k] = [3]int{rng.Range(-2, span), rng.Range(0, span), rng.Range(1, 5)}
		}
		return vals
	}
	for p := 0; p < npairs; p++ {
		var num any
		var text string
		if k := rng.Intn(7); k == 0 { // a Go bool against the string "true" / "false"
			b := rng.Bool()
			num, text = b, fmt.Sprint(b)
		} else if k <= 2 {
			f := c7twinFloats[rng.Intn(len(c7twinFloats))]
			num, text = f, fmt.Sprint(f)
		} else {
			i := c7twinInts[rng.Intn(len(c7twinInts))]
			num, text = i, fmt.Sprint(i)
			if rng.Intn(4) == 0 { // the same integer as a float64: one group with the int (numeric equality)
				num = float64(i)
			}
		}
		rest := make([]any, q.ngroup)
		for j := range rest {
			rest[j] = other()
		}
		rest[tcol] = ""
		tag := text + "|" + fmt.Sprint(rest...)
		if used[tag] {
			continue
		}
		used[tag] = true
		k1 := append([]any(nil), rest...)
		k2 := append([]any(nil), rest...)
		k1[tcol], k2[tcol] = num, text
		vals := genVals()
		if rng.Bool() {
			addGroup(k1, vals)
		} else {
			addGroup(k2, vals)
			k2 = k1
		}
		if rng.Intn(4) == 0 {
			vals = genVals()
		} else { // same multiset, another arrival order
			vals = append([][3]int(nil), vals...)
			for i := len(vals) - 1; i > 0; i-- {
				j := rng.Intn(i + 1)
				vals[i], vals[j] = vals[j], vals[i]
			}
		}
		addGroup(k2, vals)
	}
	for g := 0; g < nplain; g++ {
		key := make([]any, q.ngroup)
		for j := range key {
			key[j] = other()
		}
		key[tcol] = fmt.Sprintf("p%d", rng.Intn(6))
		tag := fmt.Sprint(key...)
		if used[tag] {
			continue
		}
		used[tag] = true
		addGroup(key, genVals())
	}
	for i := len(rows) - 1; i > 0; i-- {
		j := rng.Intn(i + 1)
		rows[i], rows[j] = rows[j], rows[i]
	}
	return rows
}

func c7runTwinFamily(rng *RNG, tier string, o *Out) error {
	n := 400
	if tier == "thorough" {
		n = 8000
	}
	for i := 0; i < n; i++ {
		q := c7genTwinQuery(rng, 1+rng.Intn(2))
		in := c7genTwinInput(rng, q)
		got, err := c7runHook(q, in)
		if err != nil {
			return err
		}
		o.Line("%s", q.line("t", in, got))
		o.Count("distinct_typed_twin_groups")
	}
	return nil
}
