package main

import (
	"encoding/hex"
	"fmt"
	"strings"
	"sync"
	"time"

	"github.com/rulego/streamsql"
	"github.com/rulego/streamsql/condition"
	"github.com/rulego/streamsql/expr"
	"github.com/rulego/streamsql/functions"
)

func init() { runners["C13"] = runC13 }

func hx(s string) string {
	if s == "" {
		return "-"
	}
	return hex.EncodeToString([]byte(s))
}
func b01(b bool) string {
	if b {
		return "1"
	}
	return "0"
}

// all strings over alpha of length <= n
func allStrings(alpha string, n int) []string {
	out := []string{""}
	prev := []string{""}
	for l := 1; l <= n; l++ {
		var cur []string
		for _, p := range prev {
			for i := 0; i < len(alpha); i++ {
				cur = append(cur, p+string(alpha[i]))
			}
		}
		out = append(out, cur...)
		prev = cur
	}
	return out
}

func parseRewrite(s string) (int, string, bool) {
	cut := func(pre string) (string, bool) {
		if strings.HasPrefix(s, pre) && strings.HasSuffix(s, "'") {
			return s[len(pre) : len(s)-1], true
		}
		return "", false
	}
	if s == "x != nil" {
		return 1, "", true
	}
	if strings.HasPrefix(s, "like_match(x, '") && strings.HasSuffix(s, "')") {
		return 5, s[len("like_match(x, '") : len(s)-2], true
	}
	if a, ok := cut("x == '"); ok {
		return 0, a, true
	}
	if a, ok := cut("x contains '"); ok {
		return 2, a, true
	}
	if a, ok := cut("x endsWith '"); ok {
		return 3, a, true
	}
	if a, ok := cut("x startsWith '"); ok {
		return 4, a, true
	}
	return -1, "", false
}

func runC13(tier string, seed uint64, o *Out) error {
	rng := NewRNG(seed)
	alpha := "%_ab."
	n := 4
	if tier == "thorough" {
		n = 5
	}
	strs := allStrings(alpha, n)
	// (1) matchers, exhaustive over the small scope
	for _, t := range strs {
		for _, p := range strs {
			r1 := condition.VerifMatchesLikePattern(t, p)
			r2 := expr.VerifMatchLikePattern(t, p)
			r3 := functions.VerifBridgeMatchesLike(t, p)
			o.Line("C13 M %s %s %s%s%s", hx(t), hx(p), b01(r1), b01(r2), b01(r3))
		}
	}
	o.Count(fmt.Sprintf("matcher_exhaustive_len<=%d", n))
	// (2) random longer pairs, wildcard heavy, incl. regex metacharacters and high bytes
	big := "%%__aab.*+?()[]\\^$|\xc3\xa9"
	nrand := 20000
	if tier == "thorough" {
		nrand = 300000
	}
	gen := func(maxlen int) string {
		l := rng.Intn(maxlen + 1)
		b := make([]byte, l)
		for i := range b {
			b[i] = big[rng.Intn(len(big))]
		}
		return string(b)
	}
	for i := 0; i < nrand; i++ {
		t, p := gen(14), gen(9)
		if rng.Intn(3) == 0 { // derive the pattern from the text so that matches are frequent
			bs := []byte(t)
			for j := range bs {
				switch rng.Intn(6) {
				case 0:
					bs[j] = '_'
				case 1:
					bs[j] = '%'
				}
			}
			p = string(bs)
			if rng.Bool() && len(p) > 2 {
				k := rng.Intn(len(p) - 1)
				p = p[:k] + "%" + p[k+1+rng.Intn(len(p)-k-1):]
			}
		}
		r1 := condition.VerifMatchesLikePattern(t, p)
		r2 := expr.VerifMatchLikePattern(t, p)
		r3 := functions.VerifBridgeMatchesLike(t, p)
		o.Line("C13 M %s %s %s%s%s", hx(t), hx(p), b01(r1), b01(r2), b01(r3))
	}
	o.Count("matcher_random")
	// (3) the rewriting, exhaustive over patterns of the small scope (+1 length)
	pats := allStrings(alpha, n+1)
	for _, p := range pats {
		s := functions.VerifConvertLikeToFunction("x", p)
		tag, arg, ok := parseRewrite(s)
		if !ok {
			o.Line("C13 R %s 9 %s", hx(p), hx(s))
			continue
		}
		o.Line("C13 R %s %d %s", hx(p), tag, hx(arg))
	}
	o.Count("rewrite_exhaustive")
	// (4) SQL level: WHERE, CASE, HAVING; texts incl. NULL and absent
	sqlPats := []string{"", "%", "%%", "a", "a%", "%a", "%a%", "a_", "_a", "a%b", "%a_", "%%a", "a%%", "%%a%%", "_", "__", "%_%", "a.b", ".", "%.%", "%b%a", "b_%a", "%a%b%"}
	nextra := 12
	if tier == "thorough" {
		nextra = 120
	}
	small := allStrings(alpha, 4)
	for i := 0; i < nextra; i++ {
		sqlPats = append(sqlPats, small[rng.Intn(len(small))])
	}
	texts := []string{"", "a", "b", "ab", "ba", "aab", "a.b", "%", "_", "a%", "%a", "%bab", "a_", "bab", "axb", "xab"}
	for i := 0; i < 8; i++ {
		texts = append(texts, small[rng.Intn(len(small))])
	}
	var mu sync.Mutex
	var lines []string
	var wg sync.WaitGroup
	sem := make(chan struct{}, 12)
	var firstErr error
	for _, p := range sqlPats {
		p := p
		wg.Add(1)
		sem <- struct{}{}
		go func() {
			defer wg.Done()
			defer func() { <-sem }()
			ls, err := sqlLike(p, texts)
			mu.Lock()
			lines = append(lines, ls...)
			if err != nil && firstErr == nil {
				firstErr = err
			}
			mu.Unlock()
		}()
	}
	wg.Wait()
	if firstErr != nil {
		return firstErr
	}
	for _, l := range lines {
		o.Line("%s", l)
	}
	o.Count("sql_patterns_" + fmt.Sprint(len(sqlPats)))
	// (4b) LIKE combined with IS [NOT] NULL in one predicate (the rewriting steps must compose)
	cl, err := sqlCombined()
	if err != nil {
		return err
	}
	for _, l := range cl {
		o.Line("%s", l)
	}
	o.Count("sql_combined")
	// (5) IS NULL / IS NOT NULL
	ls, err := sqlIsNull()
	if err != nil {
		return err
	}
	for _, l := range ls {
		o.Line("%s", l)
	}
	// (6) IS [NOT] NULL on columns whose NAME contains keyword fragments (note, isnull, android, ...)
	nl, nnames, err := sqlNamedNull(rng, tier)
	if err != nil {
		return err
	}
	for _, l := range nl {
		o.Line("%s", l)
	}
	o.Count("sql_named_null_names_" + fmt.Sprint(nnames))
	// (7) IS [NOT] NULL / LIKE inside a CASE that is the argument of an aggregate of a window query
	gl, nscn, err := sqlAggCase(rng, tier)
	if err != nil {
		return err
	}
	for _, l := range gl {
		o.Line("%s", l)
	}
	o.Count("sql_agg_case_windows_" + fmt.Sprint(nscn))
	return nil
}

type sqlRow struct {
	pres string // P present, N null, A absent
	text string
}

func mkRow(id int, r sqlRow) map[string]any {
	m := map[string]any{"id": id}
	switch r.pres {
	case "P":
		m["x"] = r.text
	case "N":
		m["x"] = nil
	}
	return m
}

func truthy(v any) string {
	switch x := v.(type) {
	case nil:
		return "n"
	case bool:
		return b01(x)
	case int:
		return b01(x != 0)
	case int64:
		return b01(x != 0)
	case float64:
		return b01(x != 0)
	}
	return "e"
}

func sqlLike(p string, texts []string) ([]string, error) {
	var out []string
	rows := []sqlRow{{"N", ""}, {"A", ""}}
	for _, t := range texts {
		rows = append(rows, sqlRow{"P", t})
	}
	// WHERE
	{
		s := streamsql.New(streamsql.WithDiscardLog())
		if err := s.Execute("SELECT id FROM stream WHERE x LIKE '" + p + "'"); err != nil {
			s.Stop()
			return nil, fmt.Errorf("where %q: %v", p, err)
		}
		for i, r := range rows {
			res, err := s.EmitSync(mkRow(i, r))
			v := "0"
			if err != nil {
				v = "e"
			} else if res != nil && len(res) > 0 {
				v = "1"
			}
			out = append(out, fmt.Sprintf("C13 S where %s %s %s %s", r.pres, hx(r.text), hx(p), v))
		}
		s.Stop()
	}
	// CASE in SELECT
	{
		s := streamsql.New(streamsql.WithDiscardLog())
		if err := s.Execute("SELECT id, CASE WHEN x LIKE '" + p + "' THEN 1 ELSE 0 END AS c FROM stream"); err != nil {
			s.Stop()
			return nil, fmt.Errorf("case %q: %v", p, err)
		}
		for i, r := range rows {
			res, err := s.EmitSync(mkRow(i, r))
			v := "e"
			if err == nil && res != nil {
				v = truthy(res["c"])
			}
			out = append(out, fmt.Sprintf("C13 S case %s %s %s %s", r.pres, hx(r.text), hx(p), v))
		}
		s.Stop()
	}
	// HAVING over CountingWindow(1): one batch per row; results identified by lid
	{
		s := streamsql.New(streamsql.WithDiscardLog())
		if err := s.Execute("SELECT last_value(x) AS lx, last_value(id) AS lid FROM stream GROUP BY CountingWindow(1) HAVING lx LIKE '" + p + "'"); err != nil {
			s.Stop()
			return nil, fmt.Errorf("having %q: %v", p, err)
		}
		var mu sync.Mutex
		seen := map[int]bool{}
		s.AddSyncSink(func(rs []map[string]any) {
			mu.Lock()
			for _, r := range rs {
				seen[toInt(r["lid"])] = true
			}
			mu.Unlock()
		})
		for i, r := range rows {
			s.Emit(mkRow(i, r))
		}
		waitQuiet(func() int { mu.Lock(); defer mu.Unlock(); return len(seen) })
		s.Stop()
		for i, r := range rows {
			out = append(out, fmt.Sprintf("C13 S having %s %s %s %s", r.pres, hx(r.text), hx(p), b01(seen[i])))
		}
	}
	return out, nil
}

func toInt(v any) int {
	switch x := v.(type) {
	case int:
		return x
	case int64:
		return int(x)
	case float64:
		return int(x)
	}
	return -1
}

// waitQuiet waits until the observed counter has been stable for 120ms (max 3s).
func waitQuiet(count func() int) {
	last, stable := -1, 0
	for i := 0; i < 150; i++ {
		time.Sleep(20 * time.Millisecond)
		c := count()
		if c == last {
			stable++
			if stable >= 6 {
				return
			}
		} else {
			last, stable = c, 0
		}
	}
}

func sqlIsNull() ([]string, error) {
	var out []string
	rows := []sqlRow{{"N", ""}, {"A", ""}, {"P", ""}, {"P", "a"}, {"P", "NULL"}, {"P", "nil"}}
	for _, neg := range []bool{false, true} {
		op, tag := "IS NULL", "isnull"
		if neg {
			op, tag = "IS NOT NULL", "isnotnull"
		}
		s := streamsql.New(streamsql.WithDiscardLog())
		if err := s.Execute("SELECT id FROM stream WHERE x " + op); err != nil {
			return nil, err
		}
		for i, r := range rows {
			res, err := s.EmitSync(mkRow(i, r))
			v := "0"
			if err != nil {
				v = "e"
			} else if res != nil && len(res) > 0 {
				v = "1"
			}
			out = append(out, fmt.Sprintf("C13 N where %s %s %s", tag, r.pres, v))
		}
		s.Stop()
		s = streamsql.New(streamsql.WithDiscardLog())
		if err := s.Execute("SELECT id, CASE WHEN x " + op + " THEN 1 ELSE 0 END AS c FROM stream"); err != nil {
			return nil, err
		}
		for i, r := range rows {
			res, err := s.EmitSync(mkRow(i, r))
			v := "e"
			if err == nil && res != nil {
				v = truthy(res["c"])
			}
			out = append(out, fmt.Sprintf("C13 N case %s %s %s", tag, r.pres, v))
		}
		s.Stop()
		s = streamsql.New(streamsql.WithDiscardLog())
		if err := s.Execute("SELECT last_value(x) AS lx, last_value(id) AS lid FROM stream GROUP BY CountingWindow(1) HAVING lx " + op); err != nil {
			return nil, err
		}
		var mu sync.Mutex
		seen := map[int]bool{}
		s.AddSyncSink(func(rs []map[string]any) {
			mu.Lock()
			for _, r := range rs {
				seen[toInt(r["lid"])] = true
			}
			mu.Unlock()
		})
		for i, r := range rows {
			s.Emit(mkRow(i, r))
		}
		waitQuiet(func() int { mu.Lock(); defer mu.Unlock(); return len(seen) })
		s.Stop()
		for i, r := range rows {
			out = append(out, fmt.Sprintf("C13 N having %s %s %s", tag, r.pres, b01(seen[i])))
		}
	}
	return out, nil
}

// sqlCombined: predicates "x LIKE p AND y IS NOT NULL", "x LIKE p OR y IS NULL", "y IS NULL OR x LIKE p",
// "x IS NOT NULL AND x LIKE p" in WHERE, CASE and HAVING. Line: C13 K <ctx> <form> <presX> <hex x> <presY> <hex pat> <result>
func sqlCombined() ([]string, error) {
	var out []string
	type row struct{ px, x, py string }
	rows := []row{{"P", "abc", "P"}, {"P", "abc", "N"}, {"P", "abc", "A"}, {"P", "zbc", "P"}, {"P", "zbc", "N"}, {"N", "", "P"}, {"A", "", "N"}, {"P", "a%c", "A"}, {"P", "", "P"}}
	pats := []string{"a%", "%b_", "a_c", "%", "abc", "%c"}
	forms := []struct{ name, tmpl string }{
		{"like_and_notnull", "%s LIKE '%s' AND %s IS NOT NULL"},
		{"like_or_null", "%s LIKE '%s' OR %s IS NULL"},
		{"null_or_like", "%[3]s IS NULL OR %[1]s LIKE '%[2]s'"},
		{"notnull_and_like_same", "%[1]s IS NOT NULL AND %[1]s LIKE '%[2]s'"},
	}
	mk := func(id int, r row, xname, yname string) map[string]any {
		m := map[string]any{"id": id}
		switch r.px {
		case "P":
			m[xname] = r.x
		case "N":
			m[xname] = nil
		}
		switch r.py {
		case "P":
			m[yname] = int64(7)
		case "N":
			m[yname] = nil
		}
		return m
	}
	for _, p := range pats {
		for _, f := range forms {
			pred := fmt.Sprintf(f.tmpl, "x", p, "y")
			// WHERE
			s := streamsql.New(streamsql.WithDiscardLog())
			if err := s.Execute("SELECT id FROM stream WHERE " + pred); err != nil {
				s.Stop()
				return nil, fmt.Errorf("where %q: %v", pred, err)
			}
			for i, r := range rows {
				res, err := s.EmitSync(mk(i, r, "x", "y"))
				v := "0"
				if err != nil {
					v = "e"
				} else if res != nil && len(res) > 0 {
					v = "1"
				}
				out = append(out, fmt.Sprintf("C13 K where %s %s %s %s %s %s", f.name, r.px, hx(r.x), r.py, hx(p), v))
			}
			s.Stop()
			// CASE
			s = streamsql.New(streamsql.WithDiscardLog())
			if err := s.Execute("SELECT id, CASE WHEN " + pred + " THEN 1 ELSE 0 END AS c FROM stream"); err != nil {
				s.Stop()
				return nil, fmt.Errorf("case %q: %v", pred, err)
			}
			for i, r := range rows {
				res, err := s.EmitSync(mk(i, r, "x", "y"))
				v := "e"
				if err == nil && res != nil {
					v = truthy(res["c"])
				}
				out = append(out, fmt.Sprintf("C13 K case %s %s %s %s %s %s", f.name, r.px, hx(r.x), r.py, hx(p), v))
			}
			s.Stop()
			// HAVING over CountingWindow(1)
			hpred := fmt.Sprintf(f.tmpl, "lx", p, "ly")
			s = streamsql.New(streamsql.WithDiscardLog())
			if err := s.Execute("SELECT last_value(x) AS lx, last_value(y) AS ly, last_value(id) AS lid FROM stream GROUP BY CountingWindow(1) HAVING " + hpred); err != nil {
				s.Stop()
				return nil, fmt.Errorf("having %q: %v", hpred, err)
			}
			var mu sync.Mutex
			seen := map[int]bool{}
			s.AddSyncSink(func(rs []map[string]any) {
				mu.Lock()
				for _, r := range rs {
					seen[toInt(r["lid"])] = true
				}
				mu.Unlock()
			})
			for i, r := range rows {
				s.Emit(mk(i, r, "x", "y"))
			}
			waitQuiet(func() int { mu.Lock(); defer mu.Unlock(); return len(seen) })
			s.Stop()
			for i, r := range rows {
				out = append(out, fmt.Sprintf("C13 K having %s %s %s %s %s %s", f.name, r.px, hx(r.x), r.py, hx(p), b01(seen[i])))
			}
		}
	}
	return out, nil
}

// ---- (6) IS [NOT] NULL where the operand's name contains keyword fragments -------------------------
//
// The IS [NOT] NULL rewrite (functions/expr_bridge.go PreprocessIsNullExpression) and the keyword probes
// around it work on the TEXT of the predicate, so the answer must not depend on how the column is
// spelled: names containing not / null / is / and / or / like / in / nil ... in lower, UPPER and Mixed
// case. Every name is used in WHERE (alone, backtick-quoted and in a conjunction), in a CASE condition, in a SELECT
// expression evaluated through the expression bridge, in HAVING (as the alias of an aggregate) and as
// the argument of a function-call operand. The row carries a second column with another pool name and
// the opposite presence, so answering for the wrong column is visible too.
// Line: C13 I <ctx> <op> <hex name> <pres> <hex other name> <other pres> <result>

var c13NameCore = []string{
	"note", "notes", "notify_at", "annotation", "nothing", "knot", "cannot", "not_v",
	"isnull", "is_not", "isnotnull", "is_null_flag", "nullable", "null_count", "nonnull", "nil_v", "vnil",
	"android", "band", "and_v", "order_id", "oreo", "floor_no", "or_v",
	"like_count", "unlike", "in_stock", "inner_id", "login", "isle", "this",
	"x", "val",
}

// words of the SQL / expression grammar: not usable as a column name without quoting
var c13Reserved = map[string]bool{"not": true, "null": true, "is": true, "and": true, "or": true, "like": true, "in": true,
	"nil": true, "as": true, "by": true, "end": true, "case": true, "when": true, "then": true, "else": true, "true": true, "false": true}

var c13NameFrags = []string{"not", "null", "is", "and", "or", "like", "in", "nil", "isnot", "notnull", "isnull"}

func c13CaseVariants(n string) []string {
	up := strings.ToUpper(n)
	mixed := []byte(n)
	for i := range mixed {
		if i%2 == 0 && mixed[i] >= 'a' && mixed[i] <= 'z' {
			mixed[i] -= 32
		}
	}
	out := []string{n}
	for _, v := range []string{up, string(mixed)} {
		dup := false
		for _, w := range out {
			if w == v {
				dup = true
			}
		}
		if !dup {
			out = append(out, v)
		}
	}
	return out
}

// c13RandName: [a-z]{0,2} fragment ( "" | _[a-z]{1,2} | [a-z] | digit ), letter case varied per byte
func c13RandName(rng *RNG) string {
	letters := "abcdefghklmpqrstuvwxyz"
	var b []byte
	for i, k := 0, rng.Intn(3); i < k; i++ {
		b = append(b, letters[rng.Intn(len(letters))])
	}
	b = append(b, c13NameFrags[rng.Intn(len(c13NameFrags))]...)
	switch rng.Intn(4) {
	case 1:
		b = append(b, '_')
		for i, k := 0, 1+rng.Intn(2); i < k; i++ {
			b = append(b, letters[rng.Intn(len(letters))])
		}
	case 2:
		b = append(b, letters[rng.Intn(len(letters))])
	case 3:
		b = append(b, byte('0'+rng.Intn(10)))
	}
	switch rng.Intn(3) {
	case 1:
		b = []byte(strings.ToUpper(string(b)))
	case 2:
		for i := range b {
			if rng.Bool() && b[i] >= 'a' && b[i] <= 'z' {
				b[i] -= 32
			}
		}
	}
	return string(b)
}

// presence tokens: N null, A absent, Pe "", Ps "hello", Pz 0, Pf false
func c13NVal(pres string) (any, bool) {
	switch pres {
	case "N":
		return nil, true
	case "Pe":
		return "", true
	case "Ps":
		return "hello", true
	case "Pz":
		return int64(0), true
	case "Pf":
		return false, true
	}
	return nil, false // absent
}

func sqlNamedNull(rng *RNG, tier string) ([]string, int, error) {
	var names []string
	seenName := map[string]bool{}
	add := func(n string) {
		// two spellings that differ only in letter case may not share one run: keep them all, the
		// queries are per name
		if !seenName[n] {
			seenName[n] = true
			names = append(names, n)
		}
	}
	for _, n := range c13NameCore {
		for _, v := range c13CaseVariants(n) {
			add(v)
		}
	}
	nrand := 12
	if tier == "thorough" {
		nrand = 150
	}
	// own stream for the names: the streams of consecutive seeds are shifted copies of each other
	nrng := &RNG{s: rng.Next() ^ 0x6331336e616d6573}
	for i := 0; i < nrand; i++ {
		n := c13RandName(nrng)
		for c13Reserved[strings.ToLower(n)] { // a bare keyword is not an identifier
			n = c13RandName(nrng)
		}
		add(n)
	}
	type job struct{ name, other string }
	var jobs []job
	for _, n := range names {
		o := names[nrng.Intn(len(names))]
		for strings.EqualFold(o, n) {
			o = names[nrng.Intn(len(names))]
		}
		jobs = append(jobs, job{n, o})
	}
	// nested paths: the operand is a path into a nested map (parent names with and without keyword fragments)
	for _, n := range []string{"d.v", "dev.isnull", "nullable.x", "Meta.NotSet", "a.b"} {
		jobs = append(jobs, job{n, names[nrng.Intn(len(names))]})
	}
	var mu sync.Mutex
	var wg sync.WaitGroup
	sem := make(chan struct{}, 12)
	res := make([][]string, len(jobs))
	var firstErr error
	for i, j := range jobs {
		i, j := i, j
		wg.Add(1)
		sem <- struct{}{}
		go func() {
			defer wg.Done()
			defer func() { <-sem }()
			ls, err := sqlNamedNullOne(j.name, j.other)
			mu.Lock()
			res[i] = ls
			if err != nil && firstErr == nil {
				firstErr = err
			}
			mu.Unlock()
		}()
	}
	wg.Wait()
	if firstErr != nil {
		return nil, 0, firstErr
	}
	var out []string
	for _, ls := range res {
		out = append(out, ls...)
	}
	return out, len(names), nil
}

func sqlNamedNullOne(name, other string) ([]string, error) {
	var out []string
	// (presence of the column under test, presence of the other column)
	rows := [][2]string{{"N", "Ps"}, {"A", "Ps"}, {"Pe", "N"}, {"Ps", "A"}, {"Pz", "N"}, {"Pf", "A"}, {"N", "N"}, {"Ps", "Ps"}}
	nested := strings.Contains(name, ".")
	mk := func(id int, r [2]string, col, ocol string) map[string]any {
		m := map[string]any{"id": id}
		if i := strings.IndexByte(col, '.'); i > 0 {
			// a dotted name is a path into a nested map: the leaf present (also with an explicit NULL), the leaf
			// missing from the parent map, the parent missing
			if v, ok := c13NVal(r[0]); ok {
				m[col[:i]] = map[string]any{col[i+1:]: v}
			} else if id%2 == 1 {
				m[col[:i]] = map[string]any{"zz": int64(1)}
			}
		} else if v, ok := c13NVal(r[0]); ok {
			m[col] = v
		}
		if v, ok := c13NVal(r[1]); ok {
			m[ocol] = v
		}
		return m
	}
	line := func(ctx, tag string, r [2]string, v string) {
		out = append(out, fmt.Sprintf("C13 I %s %s %s %s %s %s %s", ctx, tag, hx(name), r[0], hx(other), r[1], v))
	}
	for _, neg := range []bool{false, true} {
		op, tag := "IS NULL", "isnull"
		if neg {
			op, tag = "IS NOT NULL", "isnotnull"
		}
		// filters: WHERE alone, in a conjunction, function-call operand
		for _, f := range []struct{ ctx, pred string }{
			{"where", name + " " + op},
			{"whereand", name + " " + op + " AND id >= 0"},
			{"wherefn", "coalesce(" + name + ", " + name + ") " + op},
			{"wherebt", "`" + name + "` " + op},
		} {
			if nested && f.ctx == "wherebt" {
				continue // a back-quoted dotted text is one flat column name, not a path
			}
			s := streamsql.New(streamsql.WithDiscardLog())
			if err := s.Execute("SELECT id FROM stream WHERE " + f.pred); err != nil {
				s.Stop()
				return nil, fmt.Errorf("named %s %q: %v", f.ctx, f.pred, err)
			}
			for i, r := range rows {
				res, err := s.EmitSync(mk(i, r, name, other))
				v := "0"
				if err != nil {
					v = "e"
				} else if res != nil && len(res) > 0 {
					v = "1"
				}
				line(f.ctx, tag, r, v)
			}
			s.Stop()
		}
		// projections: CASE condition (own evaluator) and a SELECT expression (expression bridge)
		for _, f := range []struct{ ctx, item string }{
			{"case", "CASE WHEN " + name + " " + op + " THEN 1 ELSE 0 END AS c"},
			{"selexpr", name + " " + op + " == true AS c"},
		} {
			s := streamsql.New(streamsql.WithDiscardLog())
			if err := s.Execute("SELECT id, " + f.item + " FROM stream"); err != nil {
				s.Stop()
				return nil, fmt.Errorf("named %s %q: %v", f.ctx, f.item, err)
			}
			for i, r := range rows {
				res, err := s.EmitSync(mk(i, r, name, other))
				v := "e"
				if err == nil && res != nil {
					v = truthy(res["c"])
				}
				line(f.ctx, tag, r, v)
			}
			s.Stop()
		}
		// HAVING: the name is the alias of an aggregate over CountingWindow(1) (a path cannot be an alias)
		if !nested {
			s := streamsql.New(streamsql.WithDiscardLog())
			q := "SELECT last_value(x) AS " + name + ", last_value(y) AS " + other + ", last_value(id) AS lid FROM stream GROUP BY CountingWindow(1) HAVING " + name + " " + op
			if err := s.Execute(q); err != nil {
				s.Stop()
				return nil, fmt.Errorf("named having %q: %v", q, err)
			}
			var mu sync.Mutex
			seen := map[int]bool{}
			s.AddSyncSink(func(rs []map[string]any) {
				mu.Lock()
				for _, r := range rs {
					seen[toInt(r["lid"])] = true
				}
				mu.Unlock()
			})
			for i, r := range rows {
				s.Emit(mk(i, r, "x", "y"))
			}
			waitQuiet(func() int { mu.Lock(); defer mu.Unlock(); return len(seen) })
			s.Stop()
			for i, r := range rows {
				line("having", tag, r, b01(seen[i]))
			}
		}
	}
	return out, nil
}

// ---- (7) IS [NOT] NULL / LIKE inside a CASE that is the ARGUMENT of an aggregate (window query) ----
//
// GroupAggregator.Add evaluates the aggregate's argument expression on every row of the window; the
// predicate must have its SQL meaning there too: a row WITHOUT the column is a NULL row, so
// sum(CASE WHEN c IS NULL THEN 1 ELSE 0 END) counts it, and the IS NULL / IS NOT NULL sums partition
// the N rows of a CountingWindow(N) (deterministic: the window fires on the N-th row).
// Rows: the tested column present (text), explicit NULL, or ABSENT; bystander modes: "ki" the row
// also has k (group key) and id, "k" only the group key, "i" no GROUP BY key, only id, "0" nothing
// else at all (an absent row is the empty map).
// Lines: C13 G <agg> <op> <hex name> <hex pat> <mode> <result> <row>...      row = A | N | P:<hex text>
//        C13 GP <hex name> <mode> <nulls> <notnulls> <count(*)> <row>...
func c13Num(v any, ok bool) string {
	if !ok {
		return "m" // key missing in the result
	}
	switch x := v.(type) {
	case nil:
		return "n"
	case float64:
		if x == float64(int64(x)) {
			return fmt.Sprint(int64(x))
		}
	case int:
		return fmt.Sprint(x)
	case int64:
		return fmt.Sprint(x)
	}
	return "e"
}

type c13AggScn struct {
	name, pat, mode string
	rows            []sqlRow
}

func sqlAggCase(rng *RNG, tier string) ([]string, int, error) {
	texts := []string{"", "a", "ab", "ba", "a.b", "cd", "%", "axb", "NULL", "nil"}
	pats := []string{"a%", "%b", "a%b", "%", "_b", "ab", "%a%"}
	names := []string{"s", "x", "note", "is_null_flag", "nullable", "val"}
	modes := []string{"ki", "k", "i", "0"}
	fixed := [][]sqlRow{
		{{"P", "ab"}, {"N", ""}, {"A", ""}, {"P", "cd"}},
		{{"A", ""}},
		{{"N", ""}},
		{{"P", "a"}},
		{{"A", ""}, {"A", ""}, {"N", ""}},
		{{"A", ""}, {"P", "ab"}},
		{{"P", ""}, {"A", ""}, {"N", ""}, {"P", "ab"}, {"A", ""}},
		{{"P", "ab"}, {"P", "a.b"}, {"A", ""}},
	}
	var scns []c13AggScn
	for i, rows := range fixed {
		for _, m := range modes {
			scns = append(scns, c13AggScn{names[i%2], pats[i%len(pats)], m, rows})
		}
	}
	nrand := 16
	if tier == "thorough" {
		nrand = 200
	}
	grng := &RNG{s: rng.Next() ^ 0x633133616763617e}
	for i := 0; i < nrand; i++ {
		n := 1 + grng.Intn(6)
		rows := make([]sqlRow, n)
		for j := range rows {
			switch k := grng.Intn(20); {
			case k < 7:
				rows[j] = sqlRow{"A", ""}
			case k < 11:
				rows[j] = sqlRow{"N", ""}
			default:
				rows[j] = sqlRow{"P", texts[grng.Intn(len(texts))]}
			}
		}
		name := names[grng.Intn(len(names))]
		if grng.Intn(3) == 0 {
			name = c13NameCore[grng.Intn(len(c13NameCore))]
		}
		scns = append(scns, c13AggScn{name, pats[grng.Intn(len(pats))], modes[grng.Intn(len(modes))], rows})
	}
	var mu sync.Mutex
	var wg sync.WaitGroup
	sem := make(chan struct{}, 12)
	res := make([][]string, len(scns))
	var firstErr error
	for i, sc := range scns {
		i, sc := i, sc
		wg.Add(1)
		sem <- struct{}{}
		go func() {
			defer wg.Done()
			defer func() { <-sem }()
			ls, err := sqlAggCaseOne(sc)
			mu.Lock()
			res[i] = ls
			if err != nil && firstErr == nil {
				firstErr = err
			}
			mu.Unlock()
		}()
	}
	wg.Wait()
	if firstErr != nil {
		return nil, 0, firstErr
	}
	var out []string
	for _, ls := range res {
		out = append(out, ls...)
	}
	return out, len(scns), nil
}

func sqlAggCaseOne(sc c13AggScn) ([]string, error) {
	c := sc.name
	flag := func(op string) string { return "CASE WHEN " + c + " " + op + " THEN 1 ELSE 0 END" }
	type item struct{ agg, op, pat, alias, expr string }
	items := []item{
		{"sum", "isnull", "", "a1", "sum(" + flag("IS NULL") + ")"},
		{"sum", "isnotnull", "", "a2", "sum(" + flag("IS NOT NULL") + ")"},
		{"max", "isnull", "", "a3", "max(" + flag("IS NULL") + ")"},
		{"min", "isnotnull", "", "a4", "min(" + flag("IS NOT NULL") + ")"},
		{"max", "isnotnull", "", "a5", "max(" + flag("IS NOT NULL") + ")"},
		{"min", "isnull", "", "a6", "min(" + flag("IS NULL") + ")"},
		{"sum", "like", sc.pat, "a7", "sum(" + flag("LIKE '"+sc.pat+"'") + ")"},
	}
	grouped := sc.mode == "ki" || sc.mode == "k"
	q := "SELECT "
	if grouped {
		q += "k, "
	}
	for _, it := range items {
		q += it.expr + " AS " + it.alias + ", "
	}
	q += "count(*) AS cnt FROM stream GROUP BY "
	if grouped {
		q += "k, "
	}
	q += fmt.Sprintf("CountingWindow(%d)", len(sc.rows))
	s := streamsql.New(streamsql.WithDiscardLog())
	defer s.Stop()
	if err := s.Execute(q); err != nil {
		return nil, fmt.Errorf("aggcase %q: %v", q, err)
	}
	ch := make(chan []map[string]any, 8)
	s.AddSink(func(rs []map[string]any) {
		select {
		case ch <- rs:
		default:
		}
	})
	rowToks := ""
	for i, r := range sc.rows {
		m := map[string]any{}
		if grouped {
			m["k"] = "g"
		}
		if sc.mode == "ki" || sc.mode == "i" {
			m["id"] = i
		}
		switch r.pres {
		case "P":
			m[c] = r.text
			rowToks += " P:" + hx(r.text)
		case "N":
			m[c] = nil
			rowToks += " N"
		default:
			rowToks += " A"
		}
		s.Emit(m)
	}
	var got map[string]any
	select {
	case rs := <-ch:
		if len(rs) == 1 {
			got = rs[0]
		}
	case <-time.After(10 * time.Second):
	}
	val := func(alias string) string {
		if got == nil {
			return "t" // no (single) window result
		}
		v, ok := got[alias]
		return c13Num(v, ok)
	}
	var out []string
	for _, it := range items {
		out = append(out, fmt.Sprintf("C13 G %s %s %s %s %s %s%s", it.agg, it.op, hx(c), hx(it.pat), sc.mode, val(it.alias), rowToks))
	}
	out = append(out, fmt.Sprintf("C13 GP %s %s %s %s %s%s", hx(c), sc.mode, val("a1"), val("a2"), val("cnt"), rowToks))
	return out, nil
}
