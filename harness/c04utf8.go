package main

// C04, invalid-UTF-8 family: a grouping value is a Go string, i.e. ANY byte sequence. A key encoder that
// decodes the text as UTF-8 on its way (for _, r := range s ... WriteRune(r); []rune(s); strings.Map;
// strings.ToValidUTF8; a JSON round trip) maps every byte that is not valid UTF-8 to U+FFFD, so values
// that differ only in such bytes share a key. The escaping encoders of the keyed windows only walk the
// text when it holds a '|' or a backslash (fast path otherwise), so the family puts the invalid bytes
// NEXT TO those characters (before, after, between two of them, in another column).
//
// The pools go through every grouping family (genTuples family 6) and through the K / P encoder lines;
// the neighbourhood search (utf8Neighbours, called from neighbours) replaces every invalid byte by its
// lossy images and by other invalid bytes. Judged by the model, whose escape k_esc is byte-wise
// (Model/GroupKey.v): K lines byte-for-byte, P lines by ktuple_eqb (chk key_collision), grouping lines
// by chk_C04 / chk_C04_win (merged / split).

import (
	"strings"
	"unicode/utf8"
)

// invalidSeqs: byte sequences that are not valid UTF-8, and U+FFFD itself (valid: what the others decay to).
var invalidSeqs = []string{
	"\xff", "\xfe", // never valid in UTF-8
	"\xc0\x80", "\xc1\xbf", // overlong two-byte forms
	"\xe2\x82", "\xf0\x9f\x98", "\xc3", // truncated multi-byte sequences (of U+20AC, U+1F600, U+00E9)
	"\x80", "\xbf", "\x80\x80", // lone continuation bytes
	"\xed\xa0\x80",     // a UTF-16 surrogate, encoded
	"\xf4\x90\x80\x80", // beyond U+10FFFF
	"\xf8\x88\x80\x80\x80",
	"�",
}

// utf8Shapes: where the invalid sequence (%) sits relative to the characters the escaping looks for.
var utf8Shapes = []string{
	"a|%", "%|a", "a\\%", "%\\a", "|%|", "a|%|b", "%|", "|%", "\\%", "%\\", "\\N%", "a\\|%", "x|y%z", "%a|b%",
	"é|%", "%", "a%", // the last two: no separator (the fast path of the escaping)
}

func utf8Fill(shape, seq string) string { return strings.ReplaceAll(shape, "%", seq) }

// utf8Tuples: 2-5 tuples that differ only in the invalid bytes of ONE column (same shape, different
// sequences, among them the U+FFFD image now and then); the other columns are constant and hold a separator,
// plain text, an invalid sequence of their own, or NULL.
func utf8Tuples(rng *RNG, ncols int) [][]gval {
	S := func(s string) gval { return gval{kind: 's', s: s} }
	shape := utf8Shapes[rng.Intn(len(utf8Shapes))]
	col := rng.Intn(ncols)
	rest := make([]gval, ncols)
	for j := range rest {
		switch rng.Intn(5) {
		case 0:
			rest[j] = S("p|q")
		case 1:
			rest[j] = S("p")
		case 2:
			rest[j] = S(utf8Fill(utf8Shapes[rng.Intn(len(utf8Shapes))], invalidSeqs[rng.Intn(len(invalidSeqs))]))
		case 3:
			rest[j] = gval{kind: 'n'}
		default:
			rest[j] = S("")
		}
	}
	n := 2 + rng.Intn(4)
	seen := map[string]bool{}
	var pool [][]gval
	for i := 0; i < 4*n && len(pool) < n; i++ {
		seq := invalidSeqs[rng.Intn(len(invalidSeqs))]
		if rng.Intn(4) == 0 && len(pool) > 0 { // the lossy image of a value already in the pool
			seq = strings.Repeat("�", 1+rng.Intn(2))
		}
		v := utf8Fill(shape, seq)
		if seen[v] {
			continue
		}
		seen[v] = true
		t := append([]gval(nil), rest...)
		t[col] = S(v)
		pool = append(pool, t)
	}
	if rng.Intn(3) == 0 { // the same invalid bytes on the other side of a column boundary
		if ncols >= 2 {
			t := append([]gval(nil), rest...)
			a, b := col, (col+1)%ncols
			t[a], t[b] = S("a|\xff"), S("\xfe")
			u := append([]gval(nil), rest...)
			u[a], u[b] = S("a"), S("\xff|\xfe")
			pool = append(pool, t, u)
		}
	}
	return pool
}

func isUTF8Pool(pool [][]gval) bool {
	for _, t := range pool {
		for _, v := range t {
			if v.kind == 's' && !utf8.ValidString(v.s) {
				return true
			}
		}
	}
	return false
}

func rowsInvalidUTF8(rows []grow) bool {
	for _, r := range rows {
		if isUTF8Pool([][]gval{r.vals}) {
			return true
		}
	}
	return false
}

// utf8Neighbours: for a text with bytes that are not valid UTF-8: its lossy images (every invalid byte ->
// U+FFFD as `range` / []rune do; every invalid run -> one U+FFFD as strings.ToValidUTF8 does; invalid bytes
// dropped; bytes read as Latin-1) and the texts that differ from it in ONE invalid byte only. For any
// text: an invalid byte inserted after / before every '|' and backslash.
func utf8Neighbours(s string) []string {
	var out []string
	seen := map[string]bool{s: true}
	add := func(x string) {
		if !seen[x] {
			seen[x] = true
			out = append(out, x)
		}
	}
	for i := 0; i < len(s) && i < 48; i++ {
		if s[i] == '|' || s[i] == '\\' {
			add(s[:i+1] + "\xff" + s[i+1:])
			add(s[:i] + "\x80" + s[i:])
		}
	}
	if utf8.ValidString(s) {
		if strings.Contains(s, "�") { // the pre-images of U+FFFD
			add(strings.Replace(s, "�", "\xff", 1))
			add(strings.Replace(s, "�", "\xc0", 1))
			add(strings.ReplaceAll(s, "�", "\x80"))
		}
		return out
	}
	add(string([]rune(s)))
	add(strings.ToValidUTF8(s, "�"))
	add(strings.ToValidUTF8(s, ""))
	add(strings.ToValidUTF8(s, "?"))
	var latin strings.Builder
	for i := 0; i < len(s); i++ {
		latin.WriteRune(rune(s[i]))
	}
	add(latin.String())
	n := 0
	for i := 0; i < len(s) && n < 6; {
		r, w := utf8.DecodeRuneInString(s[i:])
		if r == utf8.RuneError && w == 1 { // s[i] is an invalid byte: other invalid bytes in its place
			n++
			for _, b := range []byte{0xff, 0xfe, 0x80, 0xbf, 0xc0, 0xf8} {
				if b != s[i] {
					add(s[:i] + string([]byte{b}) + s[i+1:])
				}
			}
			add(s[:i] + "�" + s[i+1:])
			add(s[:i] + s[i+1:])
		}
		i += w
	}
	return out
}
