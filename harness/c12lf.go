package main

// C12 — comparisons written literal-first: `20 <= x`, `'a' == status` (T / E / Q lines of c12.go).
// Such a text is not of the shortcut shape (both regexes of tryFastCompare start with the column; model:
// C12_literal_first_never_shortcut), so the general evaluator decides it, alone and inside a flat AND/OR
// chain, and its decision is that of the comparison with the operands swapped (`x >= 20`; model:
// parse_cmp_lf / mirror_op, C12_mirror_op_swaps_operands). A shortcut that recognises this order must
// mirror the operator exactly: the only rows that tell `>=` from `>` (or `<=` from `<`, `==` from anything)
// are those whose value EQUALS the literal, and its nearest neighbours on both sides. The rows here are
// built from the literals of the text: the value equal to each literal, just below and just above it, in
// every Go type that can hold it, next to NULL / missing / other kinds (which make a shortcut decline).

import (
	"fmt"
	"math"
	"sort"
	"strconv"
	"strings"
	"sync"
)

var c12lfNumLits = []string{"20", "5", "0", "-5", "1", "255", "-128", "2147483647", "-2.5", "0.5", "1.5", "20.0", "-0.25", "1000000",
	"9007199254740992", "9007199254740993"}
var c12lfStrLits = []string{"'m'", "'a'", "''", "'ab'", "'A'", "'caf\xc3\xa9'", "'a b'", "'20'"}

// values equal to the literal, just below and just above it, in every Go type that holds them
func c12lfNear(lit string) []any {
	var vs []any
	if strings.HasPrefix(lit, "'") {
		s := lit[1 : len(lit)-1]
		vs = append(vs, s, s+"\x00", s+"a", s+s)
		if len(s) > 0 {
			b := []byte(s)
			last := b[len(b)-1]
			vs = append(vs, s[:len(s)-1])
			if last > 0 {
				b[len(b)-1] = last - 1
				vs = append(vs, string(b), string(b)+"\xff")
			}
			if last < 255 {
				b[len(b)-1] = last + 1
				vs = append(vs, string(b))
			}
			vs = append(vs, strings.ToUpper(s), strings.ToLower(s))
		}
		return vs
	}
	f, _ := strconv.ParseFloat(lit, 64)
	vs = append(vs, f, math.Nextafter(f, math.Inf(-1)), math.Nextafter(f, math.Inf(1)), f-0.5, f+0.5, f-1, f+1, -f)
	if float64(float32(f)) == f {
		vs = append(vs, float32(f), math.Float32frombits(math.Float32bits(float32(f))+1), float32(f-1), float32(f+1))
		if f != 0 {
			vs = append(vs, math.Float32frombits(math.Float32bits(float32(f))-1))
		}
	}
	addInt := func(z int64) {
		vs = append(vs, z, int(z))
		if z >= math.MinInt8 && z <= math.MaxInt8 {
			vs = append(vs, int8(z))
		}
		if z >= math.MinInt16 && z <= math.MaxInt16 {
			vs = append(vs, int16(z))
		}
		if z >= math.MinInt32 && z <= math.MaxInt32 {
			vs = append(vs, int32(z))
		}
		if z >= 0 {
			vs = append(vs, uint64(z), uint(z))
			if z <= math.MaxUint8 {
				vs = append(vs, uint8(z))
			}
			if z <= math.MaxUint16 {
				vs = append(vs, uint16(z))
			}
			if z <= math.MaxUint32 {
				vs = append(vs, uint32(z))
			}
		}
	}
	if z, err := strconv.ParseInt(lit, 10, 64); err == nil {
		for d := int64(-1); d <= 1; d++ {
			addInt(z + d)
		}
	} else { // fractional literal: the integers around it (trunc, floor, ceil)
		fl, ce := int64(math.Floor(f)), int64(math.Ceil(f))
		addInt(fl)
		addInt(ce)
		addInt(fl - 1)
		addInt(ce + 1)
	}
	return vs
}

// values of other kinds: a shortcut declines them, the general evaluator rejects / errors
func c12lfOther(lit string) []any {
	o := []any{nil, true, math.NaN(), math.Inf(1), math.Inf(-1), []int{1}}
	if strings.HasPrefix(lit, "'") {
		return append(o, 7, 0.5)
	}
	return append(o, lit, "", "m")
}

type c12lfPart struct {
	field, lit, text string
}

func runC12LF(tier string, seed uint64, o *Out) error {
	rng := NewRNG(seed ^ 0x1f1f1f1f)
	emitE := func(text string, c c12Cond, row map[string]any) {
		o.Line("C12 E %s%s # %s", hx(text), c12Row(row), c12Eval(c, row))
	}
	spaces := []string{"", " ", " ", "  ", "\t", "\n"}
	sp := func() string { return spaces[rng.Intn(len(spaces))] }
	lits := append(append([]string{}, c12lfNumLits...), c12lfStrLits...)
	// (a) systematic: every operator spelling x every literal, alone (three layouts) and inside flat chains
	//     (first / last part, AND / OR, both parts literal-first), on the rows around the literal
	for _, op := range c12Ops {
		for _, lit := range lits {
			near := c12lfNear(lit)
			other := c12lfOther(lit)
			single := []string{lit + " " + op + " x", lit + op + "x", sp() + lit + sp() + op + sp() + "x" + sp()}
			for _, text := range single {
				o.Line("C12 T %s # %s", hx(text), c12Shape(text))
				c := c12Compile(text)
				if c.plain == nil && c.paren == nil {
					emitE(text, c, map[string]any{"x": 5})
					o.Count("lf_compile_error")
					continue
				}
				emitE(text, c, map[string]any{})
				for _, v := range near {
					emitE(text, c, map[string]any{"x": v})
				}
				for _, v := range other {
					emitE(text, c, map[string]any{"x": v, "y": 1})
				}
				o.Count("lf_single_" + c12OpName[op])
			}
			lit2 := lits[rng.Intn(len(lits))]
			op2 := c12Ops[rng.Intn(6)]
			chains := []string{
				"y > 0 && " + lit + " " + op + " x",
				lit + " " + op + " x && y > 0",
				lit + " " + op + " x || y > 0",
				"y > 0 ||" + sp() + lit + sp() + op + sp() + "x",
				lit + " " + op + " x && " + lit2 + " " + op2 + " z",
				"y >= 1 && " + lit + op + "x && z != 'q'",
			}
			near2 := c12lfNear(lit2)
			for _, text := range chains {
				o.Line("C12 T %s # %s", hx(text), c12Shape(text))
				c := c12Compile(text)
				if c.plain == nil && c.paren == nil {
					emitE(text, c, map[string]any{"x": 5})
					o.Count("lf_compile_error")
					continue
				}
				for _, v := range near {
					// the other parts let the literal-first part decide: y > 0 holds (AND) / fails (OR)
					emitE(text, c, map[string]any{"x": v, "y": 1, "z": near2[0]})
					emitE(text, c, map[string]any{"x": v, "y": 0, "z": near2[rng.Intn(len(near2))]})
				}
				for _, v := range other {
					emitE(text, c, map[string]any{"x": v, "y": rng.Intn(2), "z": near2[0]})
				}
				emitE(text, c, map[string]any{"x": near[0]})
				o.Count("lf_chain_" + c12OpName[op])
			}
		}
	}
	// (b) random flat chains of 1-4 parts, each part literal-first (2/3) or column-first, random blanks;
	//     every row gives each compared column a value around the literal it is compared with
	nrand := 400
	if tier == "thorough" {
		nrand = 6000
	}
	fields := []string{"x", "y", "z", "_f1"}
	for i := 0; i < nrand; i++ {
		n := 1 + rng.Intn(4)
		join := "&&"
		if rng.Bool() {
			join = "||"
		}
		var parts []c12lfPart
		var sb strings.Builder
		nlf := 0
		for j := 0; j < n; j++ {
			if j > 0 {
				sb.WriteString(join)
			}
			f := fields[rng.Intn(len(fields))]
			op := c12Ops[rng.Intn(6)]
			if rng.Intn(30) == 0 {
				op = c12Ops[rng.Intn(8)]
			}
			lit := lits[rng.Intn(len(lits))]
			var t string
			if rng.Intn(3) != 0 {
				t = sp() + lit + sp() + op + sp() + f + sp()
				nlf++
			} else {
				t = sp() + f + sp() + op + sp() + lit + sp()
			}
			sb.WriteString(t)
			parts = append(parts, c12lfPart{f, lit, t})
		}
		text := sb.String()
		o.Line("C12 T %s # %s", hx(text), c12Shape(text))
		c := c12Compile(text)
		for k := 0; k < 8; k++ {
			row := map[string]any{}
			for _, p := range parts {
				if _, done := row[p.field]; done && rng.Bool() {
					continue
				}
				near := c12lfNear(p.lit)
				switch rng.Intn(10) {
				case 0:
					oth := c12lfOther(p.lit)
					row[p.field] = oth[rng.Intn(len(oth))]
				case 1:
					delete(row, p.field)
				case 2, 3, 4:
					row[p.field] = near[0] // the literal's own value
				default:
					row[p.field] = near[rng.Intn(len(near))]
				}
			}
			emitE(text, c, row)
		}
		o.Count(fmt.Sprintf("lf_random_chain_len_%d_lf_%d", n, nlf))
	}
	// (c) the same through SQL WHERE and HAVING
	preds := []sqlPredLF{
		{"5 <= x", "5 <= x"}, {"5 < x", "5 < x"}, {"5 >= x", "5 >= x"}, {"5 > x", "5 > x"}, {"5 == x", "5 == x"}, {"5 != x", "5 != x"},
		{"-1.5 <= x", "-1.5 <= x"}, {"1.5 >= x", "1.5 >= x"}, {"'a' <= x", "'a' <= x"}, {"'b' > x", "'b' > x"}, {"'a' == x", "'a' == x"},
		{"4 < x AND 6 >= x", "4 < x && 6 >= x"}, {"5 >= x OR 6 <= x", "5 >= x || 6 <= x"}, {"x > 1 AND 5 <= x", "x > 1 && 5 <= x"},
	}
	sqlVals := []any{nil, 4, 5, 6, int64(5), uint8(5), 5.0, 4.5, 5.5, float32(5), 1.5, -1.5, math.NaN(), "a", "b", "", "a\x00", true}
	var mu sync.Mutex
	var lines []string
	var wg sync.WaitGroup
	var firstErr error
	sem := make(chan struct{}, 12)
	for _, p := range preds {
		p := p
		wg.Add(1)
		sem <- struct{}{}
		go func() {
			defer wg.Done()
			defer func() { <-sem }()
			ls, err := c12SQL(p.sql, p.model, sqlVals)
			mu.Lock()
			lines = append(lines, ls...)
			if err != nil && firstErr == nil {
				firstErr = err
			}
			mu.Unlock()
		}()
	}
	wg.Wait()
	if firstErr != nil {
		return firstErr
	}
	sort.Strings(lines)
	for _, l := range lines {
		o.Line("%s", l)
	}
	o.Count(fmt.Sprintf("lf_sql_predicates_%d", len(preds)))
	return nil
}

type sqlPredLF struct{ sql, model string }
