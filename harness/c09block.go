package main

import (
	"fmt"
	"os"
	"strings"
	"sync"
	"time"

	"github.com/rulego/streamsql"
	"github.com/rulego/streamsql/types"
	"github.com/rulego/streamsql/window"
)

// ---- the "block" overflow strategy of the window's output channel ------------------------------------
// window/counting_window.go sendResult, strategy "block":
//
//	select { case outputChan <- data: sentCount++
//	         case <-time.After(BlockTimeout): droppedCount++ }          // the NEW batch is dropped
//
// A batch may be lost ONLY when the channel is full for a whole BlockTimeout. Model: Model/CountingBlock.v
// (blk_send: room -> enqueue; full -> the new batch is dropped and counted), theorems C09_block_*.
// The timeout is a timer, so the behaviour may depend on real time; the family therefore drives the window
// through its public API (NewCountingWindow / Start / Add / OutputChan / GetStats) with a SMALL BlockTimeout
// (10-30 ms) and three kinds of real-time histories:
//
//	idle-drain  a consumer goroutine takes every batch at once (the channel always has room); 20+ completed
//	            windows per case, separated by idle gaps LONGER than BlockTimeout (1.5-2.5 x), a quarter of them
//	            back to back; 1-3 keys interleaved
//	idle-hold   the same histories, nobody reads until the end; the channel holds more batches than the case cuts
//	full        a channel of 2-5 slots, nobody reads while a chunk of rows is added: the batches beyond the free
//	            slots run into the timeout and are dropped (counted); then the harness takes some batches; 2-3
//	            such episodes, the last one drains
//
// In the first two every batch must be delivered, in order (chk_C09: the i-th batch of a key = its rows
// (i-1)N+1..iN), with droppedCount = 0; in the third the delivered batches must be N-blocks of their key in
// order (chk_C09_lossy) and exactly those the model keeps. All three: batches = the model's lg_taken, sentCount
// / droppedCount = the model's.
//
//	B <tag> <BlockTimeout ms> <cap> <sentCount> <droppedCount> <E> {<rows added> <batches taken>}xE <N> <ncols> <nrows> {id v..} # {nids ids..}
//
// Timer semantics: a time.Timer / time.After channel behaves differently under GODEBUG asynctimerchan=1 (Go <
// 1.23 semantics: buffered channel, a stale tick survives Reset) and =0. Which one a program gets is decided by
// the go directive of its MAIN module; the repository's own go.mod says 1.18 (its tests and every consumer
// below go 1.23 run with asynctimerchan=1), this harness is built as go 1.23. The timer kind is fixed when a
// timer is created and the runtime re-reads GODEBUG on os.Setenv, so the idle families run half of their cases
// under each setting (tag suffix -t118 / -t123); the setting is restored afterwards.
//
// The SQL variant (S lines, tag sql-block-idle-*): streamsql.New(WithOverflowStrategy("block", BlockTimeout)),
// the same idle histories through Emit and a synchronous sink.

type blkEpisode struct {
	rows  int // rows added
	takes int // batches the harness takes afterwards (capped by what waits)
}

// blkHistory: rows of 1-3 keys interleaved; gapBefore[i] = idle time before row i is added
func blkIdleRows(rng *RNG, timeout time.Duration) (n, ncols int, rows []grow, gaps []time.Duration, cuts int) {
	n = []int{1, 2, 2, 3}[rng.Intn(4)]
	ncols = []int{0, 1, 1, 1, 2}[rng.Intn(5)]
	pool := genTuples(rng, ncols, false)
	if len(pool) > 3 {
		pool = pool[:3]
	}
	windows := 20 + rng.Intn(7)
	cnt := map[string]int{}
	id := int64(1)
	pending := time.Duration(0)
	for cuts < windows && len(rows) < 150 {
		r := genRows(rng, pool, 1, id)[0]
		id++
		rows = append(rows, r)
		gaps = append(gaps, pending)
		pending = 0
		k := lagKey(r)
		cnt[k]++
		if cnt[k]%n == 0 { // this row completes a window: the stream then stays idle for longer than BlockTimeout
			cuts++
			if rng.Intn(4) != 0 {
				pending = timeout*3/2 + time.Duration(rng.Intn(int(timeout)))
			}
		}
	}
	return
}

func blkWindow(n, ncols, capacity int, timeout time.Duration) (*window.CountingWindow, error) {
	return window.NewCountingWindow(types.WindowConfig{Type: "counting", Params: []any{n}, GroupByKeys: keyNames(ncols),
		PerformanceConfig: types.PerformanceConfig{
			BufferConfig:   types.BufferConfig{WindowOutputSize: capacity},
			OverflowConfig: types.OverflowConfig{Strategy: types.OverflowStrategyBlock, BlockTimeout: timeout, AllowDataLoss: true},
		}})
}

func blkIDs(b []types.Row) []int64 {
	ids := make([]int64, len(b))
	for i, r := range b {
		ids[i] = rowID(r)
	}
	return ids
}

// blkWaitHandled: until the window goroutine has handed over (sent or dropped) `cuts` batches
func blkWaitHandled(cw *window.CountingWindow, cuts int) {
	lim := waitLimit(3 * time.Second)
	deadline := time.Now().Add(lim)
	for {
		st := cw.GetStats()
		if st["sentCount"]+st["droppedCount"] >= int64(cuts) {
			return
		}
		if time.Now().After(deadline) {
			chargeWait(lim)
			return
		}
		time.Sleep(300 * time.Microsecond)
	}
}

func blkLine(tag string, timeout time.Duration, capacity int, st map[string]int64, eps []blkEpisode, n, ncols int, rows []grow, out [][]int64) string {
	var shape []string
	for _, e := range eps {
		shape = append(shape, fmt.Sprintf("%d %d", e.rows, e.takes))
	}
	return fmt.Sprintf("C09 B %s %d %d %d %d %d %s %d %d %d %s # %s", tag, timeout.Milliseconds(), capacity, st["sentCount"], st["droppedCount"],
		len(eps), strings.Join(shape, " "), n, ncols, len(rows), rowsTok(rows), batchesTok(out))
}

// blkIdleCase: idle-drain (drain = true) / idle-hold
func blkIdleCase(rng *RNG, drain bool, suffix string) (string, string, error) {
	timeout := time.Duration(10+rng.Intn(21)) * time.Millisecond
	n, ncols, rows, gaps, cuts := blkIdleRows(rng, timeout)
	capacity := cuts + 1 + rng.Intn(64)
	cw, err := blkWindow(n, ncols, capacity, timeout)
	if err != nil {
		return "", "", err
	}
	cw.Start()
	defer cw.Stop()
	var mu sync.Mutex
	var out [][]int64
	stop := make(chan struct{})
	var wg sync.WaitGroup
	if drain {
		wg.Add(1)
		go func() {
			defer wg.Done()
			for {
				select {
				case b := <-cw.OutputChan():
					mu.Lock()
					out = append(out, blkIDs(b))
					mu.Unlock()
				case <-stop:
					return
				}
			}
		}()
	}
	for i, r := range rows {
		if gaps[i] > 0 {
			time.Sleep(gaps[i])
		}
		cw.Add(r.toMap())
	}
	blkWaitHandled(cw, cuts)
	if drain {
		lim := waitLimit(3 * time.Second)
		deadline := time.Now().Add(lim)
		for {
			mu.Lock()
			got := len(out)
			mu.Unlock()
			if int64(got) >= cw.GetStats()["sentCount"] {
				break
			}
			if time.Now().After(deadline) {
				chargeWait(lim)
				break
			}
			time.Sleep(300 * time.Microsecond)
		}
		time.Sleep(2 * time.Millisecond)
	} else {
		time.Sleep(2 * time.Millisecond)
		for more := true; more; {
			select {
			case b := <-cw.OutputChan():
				out = append(out, blkIDs(b))
			default:
				more = false
			}
		}
	}
	close(stop)
	wg.Wait()
	tag := "idle-hold" + suffix
	if drain {
		tag = "idle-drain" + suffix
	}
	mu.Lock()
	defer mu.Unlock()
	return blkLine(tag, timeout, capacity, cw.GetStats(), []blkEpisode{{len(rows), capacity + 1}}, n, ncols, rows, out), "window API block strategy, " + tag, nil
}

// blkFullCase: a small channel that nobody reads while a chunk is added
func blkFullCase(rng *RNG) (string, string, error) {
	timeout := time.Duration(10+rng.Intn(6)) * time.Millisecond
	n := []int{1, 2, 2, 3}[rng.Intn(4)]
	ncols := []int{0, 1, 1, 2}[rng.Intn(4)]
	pool := genTuples(rng, ncols, false)
	if len(pool) > 3 {
		pool = pool[:3]
	}
	capacity := 2 + rng.Intn(4)
	cw, err := blkWindow(n, ncols, capacity, timeout)
	if err != nil {
		return "", "", err
	}
	cw.Start()
	defer cw.Stop()
	var rows []grow
	var out [][]int64
	var eps []blkEpisode
	cnt := map[string]int{}
	id, cuts, waiting := int64(1), 0, 0
	E := 2 + rng.Intn(2)
	for e := 0; e < E; e++ {
		free := capacity - waiting
		target := 1 + rng.Intn(free+3) // up to 3 batches more than there are free slots
		added, own := 0, 0
		for own < target && added < 60 {
			r := genRows(rng, pool, 1, id)[0]
			id++
			rows = append(rows, r)
			added++
			cw.Add(r.toMap())
			k := lagKey(r)
			cnt[k]++
			if cnt[k]%n == 0 {
				own++
			}
		}
		cuts += own
		blkWaitHandled(cw, cuts)
		waiting += own
		if waiting > capacity {
			waiting = capacity
		}
		takes := rng.Intn(capacity + 1)
		if e == E-1 {
			takes = capacity + 1
		}
		for t := 0; t < takes; t++ {
			select {
			case b := <-cw.OutputChan():
				out = append(out, blkIDs(b))
				waiting--
			default:
			}
		}
		eps = append(eps, blkEpisode{added, takes})
	}
	return blkLine("full", timeout, capacity, cw.GetStats(), eps, n, ncols, rows, out), "window API block strategy, full channel (timeout drops)", nil
}

// blkSQLCase: the idle histories through SQL under WithOverflowStrategy("block", BlockTimeout)
func blkSQLCase(rng *RNG, suffix string) (string, string, error) {
	timeout := time.Duration(10+rng.Intn(21)) * time.Millisecond
	n, ncols, rows, gaps, cuts := blkIdleRows(rng, timeout)
	sel := "count(*) AS c, collect(id) AS ids, first_value(id) AS fi, last_value(id) AS la"
	gb := ""
	if ncols > 0 {
		sel = groupCols(ncols) + ", " + sel
		gb = groupCols(ncols) + ", "
	}
	sql := fmt.Sprintf("SELECT %s FROM stream GROUP BY %sCountingWindow(%d)", sel, gb, n)
	maps := make([]map[string]any, len(rows))
	for i, r := range rows {
		maps[i] = r.toMap()
	}
	res, err := c09SQLRun([]streamsql.Option{streamsql.WithOverflowStrategy("block", timeout)}, sql, maps,
		func(i int) time.Duration { return gaps[i] }, ncols, func(r []gresult) bool { return len(r) >= cuts }, 3*time.Second)
	if err != nil {
		return "", "", err
	}
	tag := "sql-block-idle" + suffix
	return fmt.Sprintf("C09 S %s %d %d %d %s # %s", tag, n, ncols, len(rows), rowsTok(rows), resultsTok(res, true)), tag, nil
}

func blockFamily(tier string, seed uint64, o *Out) error {
	nIdle, nSQL, nFull := 10, 4, 16 // per timer setting: nIdle drain + nIdle hold + nSQL
	if tier == "thorough" {
		nIdle, nSQL, nFull = 60, 24, 200
	}
	emit := func(lines, tags []string) {
		for i, l := range lines {
			o.Line("%s", l)
			o.Count(tags[i])
		}
	}
	old, had := os.LookupEnv("GODEBUG")
	restore := func() {
		if had {
			os.Setenv("GODEBUG", old)
		} else {
			os.Unsetenv("GODEBUG")
		}
	}
	defer restore()
	for phase, mode := range []struct{ env, suffix string }{{"asynctimerchan=1", "-t118"}, {"asynctimerchan=0", "-t123"}} {
		env := mode.env
		if had && old != "" {
			env = old + "," + env
		}
		os.Setenv("GODEBUG", env)
		total := 2*nIdle + nSQL
		tags := make([]string, total)
		lines, err := parallel(total, 16, func(i int) (string, error) {
			rng := NewRNG(seed*9000011 + uint64(phase)*100003 + uint64(i) + 41)
			var l, t string
			var err error
			switch {
			case i < nIdle:
				l, t, err = blkIdleCase(rng, true, mode.suffix)
			case i < 2*nIdle:
				l, t, err = blkIdleCase(rng, false, mode.suffix)
			default:
				l, t, err = blkSQLCase(rng, mode.suffix)
			}
			tags[i] = t
			return l, err
		})
		if err != nil {
			return err
		}
		emit(lines, tags)
	}
	restore()
	tags := make([]string, nFull)
	lines, err := parallel(nFull, 16, func(i int) (string, error) {
		l, t, err := blkFullCase(NewRNG(seed*9000011 + 700001 + uint64(i)))
		tags[i] = t
		return l, err
	})
	if err != nil {
		return err
	}
	emit(lines, tags)
	return nil
}
