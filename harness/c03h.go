package main

// C03 family H — consecutive batches of one query instance WITH a HAVING clause.
//   C03 H <N> <k> (<agg> <param> <arg>)*k # <h> (<agg> <param> <arg>)*h # <pred> # <cells of all rows> # <batch 1> # ...
// The k selected calls are those of family M (every call with its own argument over x / d.x). HAVING is a condition
// over 1-3 comparisons <ref> <cmp> <literal>, joined by AND / OR without parentheses (AND binds tighter); <ref> is
//   the alias of a selected numeric call (a3), the text of a selected numeric call written again (sum(x * 2)), or a call
//   that is NOT in the select list (its own, hidden aggregation field: the h calls of the second section).
// <pred> is the condition in prefix form over field indices (0..k-1 selected, k..k+h-1 hidden):
//   and P Q | or P Q | cmp <gt|ge|lt|le> <field> <num/den>
// <batch b> = E when nothing was delivered for the rows b*N .. b*N+N-1, else the k delivered values.
// The rows come in per-batch regimes (small numbers / large numbers / mostly NULL or missing / mixed) and the literals
// lie between the regimes, so that in most runs HAVING rejects some batches ENTIRELY and delivers later ones: what a
// delivered batch reports must be the definition over exactly its own rows, however many batches before it left
// without a row.
import (
	"fmt"
	"strconv"
	"strings"
	"sync"
	"time"

	"github.com/rulego/streamsql"
)

var c3havingAggs = []string{"sum", "avg", "min", "max", "count", "median", "count_star"}

func c3isHavingAgg(a string) bool {
	for _, x := range c3havingAggs {
		if x == a {
			return true
		}
	}
	return false
}

type c3hterm struct {
	field    int    // index into selected ++ hidden
	sql      string // the reference as written
	cmp      string // gt ge lt le
	num, den int
	kind     string // alias same new
}

type c3hjob struct {
	n       int
	calls   []c3call
	hidden  []c3call
	terms   []c3hterm
	form    string // t | and | or | andor | orand
	cells   []c3val
	regimes string
	bare    bool // missing cells are events without any column (c03e.go)
	result  string
	err     error
}

func c3callSQL(c c3call, upper bool) string {
	name := c.agg
	if upper {
		name = strings.ToUpper(name)
	}
	switch c.agg {
	case "count_star":
		if upper {
			return "COUNT(*)"
		}
		return "count(*)"
	case "percentile":
		return fmt.Sprintf("%s(%s, %v)", name, c.arg.sql(), c3paramVal(c.agg, c.param))
	case "nth_value":
		return fmt.Sprintf("%s(%s, %s)", name, c.arg.sql(), c.param)
	}
	return fmt.Sprintf("%s(%s)", name, c.arg.sql())
}

func c3litSQL(num, den int) string {
	if den == 1 {
		return strconv.Itoa(num)
	}
	return strconv.FormatFloat(float64(num)/float64(den), 'f', -1, 64)
}

// c3genHterm: one comparison. The literal is chosen for the aggregate: counts are compared with 0..N, the others with
// numbers between the value regimes of the rows.
func c3genHterm(r *RNG, j *c3hjob) c3hterm {
	var numeric []int
	for i, c := range j.calls {
		if c3isHavingAgg(c.agg) {
			numeric = append(numeric, i)
		}
	}
	t := c3hterm{cmp: []string{"gt", "ge", "lt", "le", "gt", "ge"}[r.Intn(6)], den: 1}
	var call c3call
	kind := r.Intn(5)
	switch {
	case kind <= 1 && len(numeric) > 0: // alias of a selected call
		i := numeric[r.Intn(len(numeric))]
		call, t.field, t.sql, t.kind = j.calls[i], i, fmt.Sprintf("a%d", i), "alias"
	case kind == 2 && len(numeric) > 0: // a selected call written again
		i := numeric[r.Intn(len(numeric))]
		call, t.field, t.sql, t.kind = j.calls[i], i, c3callSQL(j.calls[i], false), "same"
	default: // a call of its own
		agg := c3havingAggs[r.Intn(len(c3havingAggs))]
		nested := r.Intn(3) == 0
		call = c3call{agg: agg, param: "-", arg: c3genArg(r, nested)}
		if agg == "count_star" {
			call.arg = c3arg{op: "id", den: 1}
		}
		j.hidden = append(j.hidden, call)
		t.field, t.sql, t.kind = len(j.calls)+len(j.hidden)-1, c3callSQL(call, r.Intn(4) == 0), "new"
	}
	switch call.agg {
	case "count", "count_star":
		t.num = r.Range(0, j.n)
		if r.Intn(3) == 0 {
			t.num = j.n
		}
	default:
		switch r.Intn(6) {
		case 0:
			t.num = r.Range(-6, 3)
		case 1:
			l := [][2]int{{5, 2}, {15, 2}, {1, 2}, {-3, 2}, {25, 2}}[r.Intn(5)]
			t.num, t.den = l[0], l[1]
		case 2:
			t.num = r.Range(4, 9) * j.n // between the sums of the regimes
		default:
			t.num = r.Range(3, 12)
		}
	}
	return t
}

// c3regimeCells: the rows of one batch.
func c3regimeCells(r *RNG, n int, regime byte, calls []c3call) []c3val {
	if regime == 'o' { // large-offset numbers (c03big.go): every numeric condition over small literals is decided by the sign
		return c3genOffsetVals(r, n, c3offMixed(calls))
	}
	out := make([]c3val, n)
	for i := range out {
		switch regime {
		case 'l': // small numbers
			if r.Intn(3) == 0 {
				f := float64(r.Range(-12, 12)) / 4
				out[i] = c3val{tok: c3rat(f), v: f}
			} else {
				v := r.Range(-3, 3)
				out[i] = c3val{tok: fmt.Sprintf("i%d", v), v: v}
			}
			if r.Intn(8) == 0 {
				out[i] = c3val{tok: "n", v: nil}
			}
		case 'h': // large numbers
			if r.Intn(3) == 0 {
				f := float64(r.Range(40, 160)) / 4
				out[i] = c3val{tok: c3rat(f), v: f}
			} else {
				v := r.Range(10, 40)
				out[i] = c3val{tok: fmt.Sprintf("i%d", v), v: v}
			}
			if r.Intn(10) == 0 {
				out[i] = c3val{tok: "m", missing: true}
			}
		case 'z': // mostly NULL / missing
			switch r.Intn(4) {
			case 0:
				v := r.Range(-2, 20)
				out[i] = c3val{tok: fmt.Sprintf("i%d", v), v: v}
			case 1:
				out[i] = c3val{tok: "m", missing: true}
			default:
				out[i] = c3val{tok: "n", v: nil}
			}
		default: // mixed
			out[i] = c3genVal(r, 1, true)
			switch out[i].v.(type) {
			case string, bool:
				out[i] = c3val{tok: "i1", v: 1}
			}
		}
	}
	return out
}

func c3genHaving(r *RNG) *c3hjob { return c3genHavingOpt(r, false) }

// c3genHavingBare: the missing cells of the run are events without any column, whole batches of them included
// (c03e.go); count(*) is usually selected, so that conditions over it decide such batches.
func c3genHavingBare(r *RNG) *c3hjob { return c3genHavingOpt(r, true) }

func c3genHavingOpt(r *RNG, bare bool) *c3hjob {
	m := c3genMixed(r) // the select list (its rows are replaced below)
	j := &c3hjob{n: r.Range(1, 5), calls: m.calls, bare: bare}
	if bare && r.Intn(3) > 0 {
		has := false
		for _, c := range j.calls {
			has = has || c.agg == "count_star"
		}
		if !has {
			j.calls = append(j.calls, c3call{agg: "count_star", param: "-", arg: c3arg{op: "id", den: 1}})
		}
	}
	// make a numeric call likely to be in the list: aliases and repeated calls need one
	if r.Intn(3) > 0 {
		agg := c3havingAggs[r.Intn(len(c3havingAggs)-1)]
		j.calls = append(j.calls, c3call{agg: agg, param: "-", arg: c3genArg(r, r.Intn(3) == 0)})
	}
	j.form = []string{"t", "t", "t", "and", "or", "or", "andor", "orand"}[r.Intn(8)]
	nt := map[string]int{"t": 1, "and": 2, "or": 2, "andor": 3, "orand": 3}[j.form]
	for i := 0; i < nt; i++ {
		j.terms = append(j.terms, c3genHterm(r, j))
	}
	nb := r.Range(3, 7)
	offset := r.Intn(5) == 0 // a fifth of the runs have batches of large-offset numbers among the others
	var reg []byte
	// runs of regimes: a rejected stretch of 1-3 batches followed by passing ones is the common picture
	for len(reg) < nb {
		g := "lhzx"[r.Intn(4)]
		if r.Intn(2) == 0 {
			g = "lh"[r.Intn(2)]
		}
		if offset && r.Intn(3) == 0 {
			g = 'o'
		}
		for c := r.Range(1, 3); c > 0 && len(reg) < nb; c-- {
			reg = append(reg, g)
		}
	}
	// both value regimes in most runs, so that a condition between them splits the run
	if r.Intn(5) > 0 {
		hasL, hasH := strings.ContainsRune(string(reg), 'l'), strings.ContainsRune(string(reg), 'h')
		if !hasL {
			reg[r.Intn(len(reg)-1)] = 'l' // not the last batch: something follows the rejected one
		}
		if !hasH {
			p := r.Intn(len(reg))
			for reg[p] == 'l' && strings.Count(string(reg), "l") == 1 {
				p = r.Intn(len(reg))
			}
			reg[p] = 'h'
		}
	}
	j.regimes = string(reg)
	for _, g := range reg {
		j.cells = append(j.cells, c3regimeCells(r, j.n, g, append(append([]c3call{}, j.calls...), j.hidden...))...)
	}
	if bare {
		j.cells = c3sprinkleEmptyBatches(r, j.cells, j.n)
	}
	return j
}

func (j *c3hjob) havingSQL() string {
	cmp := map[string]string{"gt": ">", "ge": ">=", "lt": "<", "le": "<="}
	var ts []string
	for _, t := range j.terms {
		ts = append(ts, fmt.Sprintf("%s %s %s", t.sql, cmp[t.cmp], c3litSQL(t.num, t.den)))
	}
	switch j.form {
	case "and":
		return ts[0] + " AND " + ts[1]
	case "or":
		return ts[0] + " OR " + ts[1]
	case "andor":
		return ts[0] + " AND " + ts[1] + " OR " + ts[2]
	case "orand":
		return ts[0] + " OR " + ts[1] + " AND " + ts[2]
	}
	return ts[0]
}

func (j *c3hjob) predTok() string {
	tt := func(t c3hterm) string { return fmt.Sprintf("cmp %s %d %d/%d", t.cmp, t.field, t.num, t.den) }
	switch j.form {
	case "and":
		return "and " + tt(j.terms[0]) + " " + tt(j.terms[1])
	case "or":
		return "or " + tt(j.terms[0]) + " " + tt(j.terms[1])
	case "andor":
		return "or and " + tt(j.terms[0]) + " " + tt(j.terms[1]) + " " + tt(j.terms[2])
	case "orand":
		return "or " + tt(j.terms[0]) + " and " + tt(j.terms[1]) + " " + tt(j.terms[2])
	}
	return tt(j.terms[0])
}

func (j *c3hjob) query() string {
	var sel []string
	for i, c := range j.calls {
		sel = append(sel, fmt.Sprintf("%s AS a%d", c3callSQL(c, false), i))
	}
	return "SELECT " + strings.Join(sel, ", ") + ", max(rid) AS lid FROM stream GROUP BY CountingWindow(" + fmt.Sprint(j.n) +
		") HAVING " + j.havingSQL()
}

func c3callSpec(cs []c3call) string {
	var spec []string
	for _, c := range cs {
		spec = append(spec, c.agg, c.param, c.arg.tok())
	}
	return strings.Join(spec, " ")
}

func c3having(rng *RNG, tier string, o *Out) error {
	nH, nHe := 200, 50
	if tier == "thorough" {
		nH, nHe = 2000, 500
	}
	jobs := make([]*c3hjob, nH+nHe)
	for i := range jobs {
		if i >= nH {
			jobs[i] = c3genHavingBare(rng)
			continue
		}
		jobs[i] = c3genHaving(rng)
	}
	var wg sync.WaitGroup
	sem := make(chan struct{}, 12)
	for _, j := range jobs {
		j := j
		wg.Add(1)
		sem <- struct{}{}
		go func() {
			defer wg.Done()
			defer func() { <-sem }()
			j.result, j.err = c3sqlRunB(j.query(), j.n, len(j.calls), j.cells, c3mixedRowOf(j.bare), true, j.bare)
		}()
	}
	wg.Wait()
	for _, j := range jobs {
		if j.err != nil {
			return j.err
		}
		fam := "H"
		if j.bare {
			fam = "HE"
			o.Count("sqlhaving_empty_events")
			if c3hasEmptyBatch(j.cells, j.n) {
				o.Count("sqlhaving_batch_of_empty_events_only")
			}
		}
		o.Line("C03 %s %d %d %s # %d %s # %s # %s # %s", fam, j.n, len(j.calls), c3callSpec(j.calls), len(j.hidden), c3callSpec(j.hidden),
			j.predTok(), c3toks(j.cells), j.result)
		o.Count("sqlhaving_" + j.form)
		if strings.ContainsRune(j.regimes, 'o') {
			o.Count("sqlhaving_offset_batches")
		}
		for _, t := range j.terms {
			o.Count("sqlhaving_ref_" + t.kind)
		}
		// the picture the family is about, read off the observed run: a batch without a row, then a delivered one
		secs := strings.Split(j.result, " # ")
		rej, del, pattern := 0, 0, false
		for i, s := range secs {
			if s == "E" {
				rej++
			} else {
				del++
				if i > 0 && secs[i-1] == "E" {
					pattern = true
				}
			}
		}
		switch {
		case pattern:
			o.Count("sqlhaving_rejected_then_delivered")
		case rej == 0:
			o.Count("sqlhaving_all_delivered")
		case del == 0:
			o.Count("sqlhaving_none_delivered")
		default:
			o.Count("sqlhaving_delivered_then_rejected_only")
		}
	}
	return c3analytic(rng, tier, o)
}

// ---- family A: a window's result row suppressed by the analytic step (the other way a batch leaves without a row) ----
//   C03 A <N> <k> (<agg> <param> <arg>)*k # <cells of all rows> # <row 1> # <row 2> # ...
// SELECT changed_col(true, <call 0>) AS a0 [, changed_col(true, <call 1>) AS a1] FROM stream GROUP BY CountingWindow(N):
// a select list of change-detection items only delivers a row for a window only if some item's aggregate differs
// from its value for the previous window, and the row holds the changed items only (<row r> = k tokens, "-" = absent).
// Many batches repeat the rows of the batch before them (shuffled), so their windows leave without a row; the rows
// that do come out must carry the definition over the rows of their own window. The delivered rows carry no window
// number (a max(rid) item would change every time and switch the suppression off): they are matched with the windows
// in order of arrival (one processing goroutine, synchronous sink).
type c3ajob struct {
	n      int
	calls  []c3call
	cells  []c3val
	repeat int
	result string
	err    error
}

func c3genAnalytic(r *RNG) *c3ajob {
	j := &c3ajob{n: r.Range(1, 4)}
	aggs := []string{"sum", "min", "max", "count", "median", "avg", "count_star", "sum", "max"}
	k := r.Range(1, 2)
	for c := 0; c < k; c++ {
		agg := aggs[r.Intn(len(aggs))]
		call := c3call{agg: agg, param: "-", arg: c3genArg(r, r.Intn(3) == 0)}
		if r.Intn(4) > 0 { // mostly the bare column / the bare path: an arithmetic argument meets finding F60
			call.arg = c3arg{nested: call.arg.nested, op: "id", den: 1}
		}
		if agg == "count_star" {
			if c == 0 && k == 1 { // count(*) alone never changes after the first window: keep it as a second item only
				call.agg = "sum"
			} else {
				call.arg = c3arg{op: "id", den: 1}
			}
		}
		j.calls = append(j.calls, call)
	}
	nb := r.Range(4, 8)
	var prev []c3val
	for b := 0; b < nb; b++ {
		var cur []c3val
		if b > 0 && r.Intn(2) == 0 { // the rows of the previous batch again, shuffled: every aggregate keeps its value
			cur = append([]c3val{}, prev...)
			for i := len(cur) - 1; i > 0; i-- {
				k := r.Intn(i + 1)
				cur[i], cur[k] = cur[k], cur[i]
			}
			j.repeat++
		} else {
			for i := 0; i < j.n; i++ {
				if r.Intn(4) == 0 {
					f := float64(r.Range(-8, 24)) / 4
					cur = append(cur, c3val{tok: c3rat(f), v: f})
				} else {
					v := r.Range(-2, 6)
					cur = append(cur, c3val{tok: fmt.Sprintf("i%d", v), v: v})
				}
			}
		}
		j.cells = append(j.cells, cur...)
		prev = cur
	}
	return j
}

func (j *c3ajob) query() string {
	var sel []string
	for i, c := range j.calls {
		sel = append(sel, fmt.Sprintf("changed_col(true, %s) AS a%d", c3callSQL(c, false), i))
	}
	return "SELECT " + strings.Join(sel, ", ") + " FROM stream GROUP BY CountingWindow(" + fmt.Sprint(j.n) + ")"
}

func c3analyticRun(j *c3ajob) (string, error) {
	s := streamsql.New(streamsql.WithDiscardLog())
	if err := s.Execute(j.query()); err != nil {
		s.Stop()
		return "", fmt.Errorf("%s: %v", j.query(), err)
	}
	var mu sync.Mutex
	var got []string
	s.AddSyncSink(func(rs []map[string]any) {
		mu.Lock()
		defer mu.Unlock()
		for _, r := range rs {
			var parts []string
			for i := range j.calls {
				if v, ok := r[fmt.Sprintf("a%d", i)]; ok {
					parts = append(parts, c3enc(v))
				} else {
					parts = append(parts, "-")
				}
			}
			got = append(got, strings.Join(parts, " "))
		}
	})
	for i, c := range j.cells {
		s.Emit(c3mixedRow(i, c))
	}
	nb := len(j.cells) / j.n
	for i := 0; i < 500; i++ {
		st := s.GetStats()
		if st["sentCount"] >= int64(nb) && st["bufferUsed"] == 0 && st["data_chan_len"] == 0 {
			break
		}
		time.Sleep(10 * time.Millisecond)
	}
	waitQuiet(func() int { mu.Lock(); defer mu.Unlock(); return len(got) })
	s.Stop()
	mu.Lock()
	defer mu.Unlock()
	if len(got) == 0 {
		return "E", nil
	}
	return strings.Join(got, " # "), nil
}

func c3analytic(rng *RNG, tier string, o *Out) error {
	nA := 60
	if tier == "thorough" {
		nA = 600
	}
	jobs := make([]*c3ajob, nA)
	for i := range jobs {
		jobs[i] = c3genAnalytic(rng)
	}
	var wg sync.WaitGroup
	sem := make(chan struct{}, 12)
	for _, j := range jobs {
		j := j
		wg.Add(1)
		sem <- struct{}{}
		go func() {
			defer wg.Done()
			defer func() { <-sem }()
			j.result, j.err = c3analyticRun(j)
		}()
	}
	wg.Wait()
	for _, j := range jobs {
		if j.err != nil {
			return j.err
		}
		o.Line("C03 A %d %d %s # %s # %s", j.n, len(j.calls), c3callSpec(j.calls), c3toks(j.cells), j.result)
		o.Count(fmt.Sprintf("sqlsuppressed_items_%d", len(j.calls)))
		if j.repeat > 0 {
			o.Count("sqlsuppressed_with_repeated_batches")
		}
	}
	return nil
}
