package main

import (
	"fmt"
	"sort"
	"strings"
	"sync"
	"time"

	"github.com/rulego/streamsql"
	"github.com/rulego/streamsql/stream"
)

// ---- the lagging consumer -----------------------------------------------------------------------
// "All schedules of the ingest and window goroutines" includes the schedule in which the goroutine that
// CONSUMES the window's output channel (stream/processor_data.go startWindowProcessing: aggregate one
// batch, HAVING / ORDER BY / LIMIT, result channel, sinks) runs far behind the window goroutine: a slow
// synchronous sink, a long HAVING, a descheduled goroutine under a burst. The batches cut meanwhile wait in
// the output channel; the batch boundary has to survive the wait: every delivered result still aggregates
// exactly the N rows (i-1)N+1..iN of its key, one result per batch, floor(rows/N) results per key.
//
// The family realises that schedule deterministically through the public API only. One case = one or two
// episodes on one stream. An episode: the consumer is free for its first k deliveries (k = 0 mostly) and is
// then held inside a synchronous sink on delivery k+1 (the gate); the rows up to the one that completes batch
// k+1 are emitted first ("free" rows), the harness waits for the gate, emits the other rows ("held" rows, the
// last N of them a sentinel key when there are grouping columns), waits (bounded) until the window has sent
// all the batches (GetStats: sentCount, bufferUsed) and opens the gate; the episode ends when the sentinel's
// result (without grouping columns: the expected number of results) has been delivered, so the next episode
// starts on an empty channel. The number of batches that wait is drawn relative to the channel's capacity:
// mostly close to full or exactly full (nothing may be lost, every result is judged by chk_C09_sql), and, for
// the "drop" overflow strategy, beyond it: the documented policy then evicts the OLDEST waiting batches, whole
// -- the results that are delivered must still be N-blocks of their key in order (chk_C09_lossy_sql), and
// exactly those the model of the channel (Model/CountingLag.v, run on the same schedule) predicts.
//
//	L <cfg> <cap> <sentCount> <window droppedCount> <input dropped> <E> {<free rows> <held rows> <batches seen waiting>}xE
//	  <N> <ncols> <nrows> {id v..} # {v.. count first last nids ids..}
//
// The sentinel rows are ordinary rows of the case (ids from 1000000).

type lagCfg struct {
	name     string
	opts     func() []streamsql.Option
	maxN     int  // keeps the row count of one episode well below the data channel's size
	overflow bool // sendResult uses the drop-oldest policy (not "block", whose timeout would cost a second per batch)
}

var lagCfgs = []lagCfg{
	{"default", func() []streamsql.Option { return nil }, 7, true},                                                        // output channel 50
	{"default", func() []streamsql.Option { return nil }, 7, true},                                                        // (weight)
	{"lowlatency", func() []streamsql.Option { return []streamsql.Option{streamsql.WithLowLatency()} }, 3, false},         // 20, block strategy, data channel 100
	{"highperf", func() []streamsql.Option { return []streamsql.Option{streamsql.WithHighPerformance()} }, 3, true},       // 200, "expand" (= drop-oldest for the window)
	{"buf8", func() []streamsql.Option { return []streamsql.Option{streamsql.WithBufferSizes(1000, 100, 8)} }, 7, true},   // custom sizes
	{"buf13", func() []streamsql.Option { return []streamsql.Option{streamsql.WithBufferSizes(1000, 100, 13)} }, 7, true}, //
	{"buf32", func() []streamsql.Option { return []streamsql.Option{streamsql.WithBufferSizes(1000, 100, 32)} }, 7, true}, //
}

// lagKey: the identity under which the harness counts a row's tuple (value tokens; missing = NULL), as expectedBatches
func lagKey(r grow) string {
	parts := make([]string, len(r.vals))
	for i, v := range r.vals {
		parts[i] = v.tok()
		if parts[i] == "m" {
			parts[i] = "n"
		}
	}
	return strings.Join(parts, " ")
}

// genLagChunk: rows drawn from the pool (one tuple is "hot": half of the rows, so that several waiting batches
// belong to one key) until exactly `batches` further batches are complete, plus a few rows that complete none.
// ends[j] = index of the row that completes the j-th of them.
func genLagChunk(rng *RNG, pool [][]gval, hot, n, batches int, cnt map[string]int, nextID *int64) (rows []grow, ends []int) {
	draw := func() grow {
		sub := pool
		if rng.Bool() {
			sub = pool[hot : hot+1]
		}
		return genRows(rng, sub, 1, *nextID)[0]
	}
	for len(ends) < batches {
		r := draw()
		k := lagKey(r)
		cnt[k]++
		if cnt[k]%n == 0 {
			ends = append(ends, len(rows))
		}
		rows = append(rows, r)
		*nextID++
	}
	for i := rng.Intn(n + 1); i > 0; i-- { // trailing rows that stay buffered in the window
		r := draw()
		k := lagKey(r)
		if (cnt[k]+1)%n == 0 {
			continue
		}
		cnt[k]++
		rows = append(rows, r)
		*nextID++
	}
	return
}

// pickFill: how many batches are sent while the consumer is held, for a channel of `capacity` slots: mostly
// close to full (the consumer is FAR behind) or exactly full, lower marks, and (over = true) beyond capacity.
func pickFill(rng *RNG, capacity int, over bool) int {
	var q int
	switch r := rng.Intn(10); {
	case r == 0:
		q = capacity
	case r == 1:
		q = capacity - 1
	case r == 2:
		q = capacity - 2
	case r == 3:
		q = capacity - rng.Intn(1+capacity/10)
	case r == 4:
		q = capacity*9/10 + rng.Intn(1+capacity/10)
	case r == 5:
		q = capacity/2 + rng.Intn(1+capacity/2)
	case r == 6:
		q = 2 + rng.Intn(4)
	case r == 7 && over:
		q = capacity + 1 + rng.Intn(3)
	case r == 8 && over:
		q = capacity + 1 + rng.Intn(3+capacity/2)
	default:
		q = capacity - rng.Intn(1+capacity/20)
	}
	if q > capacity && !over {
		q = capacity
	}
	if q < 2 {
		q = 2
	}
	return q
}

func lagCase(rng *RNG, o *Out) error {
	cfg := lagCfgs[rng.Intn(len(lagCfgs))]
	n := []int{1, 2, 2, 3, 3, 4, 7}[rng.Intn(7)]
	if n > cfg.maxN {
		n = 1 + rng.Intn(cfg.maxN)
	}
	ncols := []int{0, 1, 1, 1, 2, 2, 3}[rng.Intn(7)]
	var pool [][]gval
	switch rng.Intn(3) {
	case 0: // one key only
		pool = genTuples(rng, ncols, false)[:1]
	default:
		pool = genTuples(rng, ncols, false)
	}
	return lagRun(rng, o, cfg, n, ncols, pool, 1+rng.Intn(2),
		func(capacity int) (int, int) {
			return []int{0, 0, 0, 0, 1, 2, 5}[rng.Intn(7)], pickFill(rng, capacity, cfg.overflow)
		})
}

// lagRun: one case. plan(capacity) = per episode: the number of deliveries the consumer makes before it is held,
// and the number of batches sent while it is held.
func lagRun(rng *RNG, o *Out, cfg lagCfg, n, ncols int, pool [][]gval, episodes int, plan func(capacity int) (skip, fill int)) error {
	hot := rng.Intn(len(pool))

	sel := "count(*) AS c, collect(id) AS ids, first_value(id) AS fi, last_value(id) AS la"
	gb := ""
	if ncols > 0 {
		sel = groupCols(ncols) + ", " + sel
		gb = groupCols(ncols) + ", "
	}
	sql := fmt.Sprintf("SELECT %s FROM stream GROUP BY %sCountingWindow(%d)", sel, gb, n)
	s := streamsql.New(cfg.opts()...)
	defer s.Stop()
	if err := s.Execute(sql); err != nil {
		return fmt.Errorf("%s: %w", sql, err)
	}
	win := s.Stream().Window
	capacity := int(win.GetStats()["bufferSize"])
	if capacity < 4 {
		return fmt.Errorf("C09 lag family: window output capacity %d", capacity)
	}

	var (
		mu       sync.Mutex
		out      []gresult
		armed    bool
		skipLeft int
		hit      chan struct{}
		release  chan struct{}
	)
	s.AddSyncSink(func(res []map[string]any) {
		batch := make([]gresult, 0, len(res))
		for _, r := range res {
			batch = append(batch, parseResult(r, ncols))
		}
		sort.SliceStable(batch, func(i, j int) bool { // one delivery ranges over a Go map
			a, b := int64(-1), int64(-1)
			if len(batch[i].ids) > 0 {
				a = batch[i].ids[0]
			}
			if len(batch[j].ids) > 0 {
				b = batch[j].ids[0]
			}
			return a < b
		})
		mu.Lock()
		out = append(out, batch...)
		var h, rel chan struct{}
		if armed {
			if skipLeft > 0 {
				skipLeft--
			} else {
				armed, h, rel = false, hit, release
			}
		}
		mu.Unlock()
		if h != nil { // the consumer goroutine is busy with this delivery until the harness lets go
			close(h)
			<-rel
		}
	})
	var open []chan struct{} // never leave the consumer parked (Stop joins it)
	defer func() {
		for _, c := range open {
			close(c)
		}
	}()

	wait := func(d time.Duration, cond func() bool) bool {
		lim := waitLimit(d)
		deadline := time.Now().Add(lim)
		for !cond() {
			if time.Now().After(deadline) {
				chargeWait(lim)
				return false
			}
			time.Sleep(200 * time.Microsecond)
		}
		return true
	}

	cnt := map[string]int{}
	nextID := int64(1)
	var all []grow
	var shape []string
	sent, results := 0, 0 // batches the window must have sent / results expected, so far
	for e := 0; e < episodes; e++ {
		skip, q := plan(capacity)
		own := skip + 1 + q // batches cut in this episode: skip+1 received before the gate closes, q sent behind it
		if ncols > 0 {
			own-- // the last of them is the sentinel's
		}
		chunk, ends := genLagChunk(rng, pool, hot, n, own, cnt, &nextID)
		nfree := ends[skip] + 1
		if ncols > 0 {
			for i := 0; i < n; i++ {
				vals := make([]gval, ncols)
				for c := range vals {
					vals[c] = gval{kind: 's', s: "\xffsentinel"}
				}
				chunk = append(chunk, grow{id: sentinelBase + int64(1000*e+i), vals: vals})
			}
		}
		all = append(all, chunk...)

		h, rel := make(chan struct{}), make(chan struct{})
		mu.Lock()
		armed, skipLeft, hit, release = true, skip, h, rel
		mu.Unlock()
		open = append(open, rel)

		for _, r := range chunk[:nfree] {
			s.Emit(r.toMap())
		}
		wait(3*time.Second, func() bool {
			select {
			case <-h:
				return true
			default:
				return false
			}
		})
		for _, r := range chunk[nfree:] {
			s.Emit(r.toMap())
		}
		sent += skip + 1 + q
		wantSent, wantUsed := int64(sent), q
		if wantUsed > capacity {
			wantUsed = capacity
		}
		wait(3*time.Second, func() bool {
			st := win.GetStats()
			return st["sentCount"] >= wantSent && int(st["bufferUsed"]) >= wantUsed
		})
		seen := int(win.GetStats()["bufferUsed"])
		close(rel)
		open = open[:len(open)-1]
		shape = append(shape, fmt.Sprintf("%d %d %d", nfree, len(chunk)-nfree, seen))

		// the episode is over when its sentinel has been delivered (without grouping columns: when the
		// expected number of results has)
		results += skip + 1 + wantUsed
		want, sentinelFirst := results, sentinelBase+int64(1000*e)
		wait(3*time.Second, func() bool {
			mu.Lock()
			defer mu.Unlock()
			if ncols > 0 {
				for _, g := range out {
					if len(g.ids) > 0 && g.ids[0] >= sentinelFirst {
						return true
					}
				}
				return false
			}
			return len(out) >= want
		})
	}
	time.Sleep(2 * time.Millisecond) // anything delivered beyond the expected results is for the checker to see
	wst := win.GetStats()
	inDropped := s.Stream().GetStats()[stream.InputDroppedCount]
	mu.Lock()
	res := append([]gresult(nil), out...)
	mu.Unlock()
	o.Line("C09 L %s %d %d %d %d %d %s %d %d %d %s # %s", cfg.name, capacity, wst["sentCount"], wst["droppedCount"], inDropped,
		episodes, strings.Join(shape, " "), n, ncols, len(all), rowsTok(all), resultsTok(res, true))
	keys := "several keys"
	if len(pool) == 1 {
		keys = "one key"
	}
	fill := "within capacity"
	if sent-results > 0 {
		fill = "beyond capacity (drop-oldest)"
	}
	o.Count(fmt.Sprintf("sql lagging consumer, %s, %s", keys, fill))
	return nil
}

func lagFamily(tier string, seed uint64, o *Out) error {
	rng := NewRNG(seed)
	rng.s = rng.Next() ^ 0xC091A66ED
	nLag := 48
	if tier == "thorough" {
		nLag = 600
	}
	// corpus: one key, N = 2, default configuration, the queue two short of full; N = 3, three keys, full, twice;
	// one key, N = 2, five batches more than the channel holds
	A, B, C := []gval{{kind: 's', s: "A"}}, []gval{{kind: 's', s: "B"}}, []gval{{kind: 's', s: "C"}}
	if err := lagRun(rng, o, lagCfgs[0], 2, 1, [][]gval{A}, 1, func(c int) (int, int) { return 0, c - 2 }); err != nil {
		return err
	}
	if err := lagRun(rng, o, lagCfgs[0], 3, 1, [][]gval{A, B, C}, 2, func(c int) (int, int) { return 0, c }); err != nil {
		return err
	}
	if err := lagRun(rng, o, lagCfgs[0], 2, 1, [][]gval{A}, 1, func(c int) (int, int) { return 0, c + 5 }); err != nil {
		return err
	}
	for i := 0; i < nLag; i++ {
		if err := lagCase(rng, o); err != nil {
			return err
		}
	}
	return nil
}
