package main

import "fmt"

func init() { runners["C02"] = runC02 }

// C02 reuses the stepping harness of the time windows with generators that stress the watermark
// discipline: allowed lateness, far-future timestamps, rows without timestamp, channel overflow.
func runC02(tier string, seed uint64, o *Out) error {
	rng := NewRNG(seed ^ 0xC02)
	ncases := 1500
	if tier == "thorough" {
		ncases = 30000
	}
	sizes := []int64{5, 7, 10, 13, 1000}
	nestLate = true // a watermark delivery inside the late-update callback of some late rows
	defer func() { nestLate = false }()
	for i := 0; i < ncases; i++ {
		size := sizes[rng.Intn(len(sizes))]
		c := twCfg{size: size}
		c.ooo = []int64{0, size / 2, 2 * size}[rng.Intn(3)]
		c.late = []int64{0, size / 2, size, 3 * size}[rng.Intn(4)]
		n := 5 + rng.Intn(40)
		ops := genTimeOps(rng, size, c.ooo, n, nil, rng.Intn(2) == 0)
		if rng.Intn(10) == 0 { // burst that overflows the 100-slot watermark channel
			var burst []wop
			t := int64(2000)
			for j := int64(0); j < 110+int64(rng.Intn(30)); j++ {
				t += 1 + int64(rng.Intn(int(size)))
				burst = append(burst, wop{kind: 'A', id: 1000 + j, ts: t})
			}
			burst = append(burst, wop{kind: 'X'}, wop{kind: 'K'}, wop{kind: 'X'})
			ops = append(burst, ops...)
			for k := range ops { // keep ids unique
				if ops[k].kind == 'A' || ops[k].kind == 'N' {
					ops[k].id = int64(k + 1)
				}
				for a := range ops[k].inj {
					for b := range ops[k].inj[a] {
						ops[k].inj[a][b].id = int64(100000 + k*100 + a*10 + b)
					}
				}
			}
		}
		w, err := newTumbling(c, true)
		if err != nil {
			return err
		}
		obs := runWin(w, ops, false)
		if obs == skipObs {
			o.Count("not compared: several late updates around a nested delivery")
			continue
		}
		o.Line("C02 T %d %d %d %d # %s # %s", c.size, c.ooo, c.late, harnessBase, opsString(ops), obs)
		o.Count(fmt.Sprintf("tumbling late=%d", c.late/size))
	}
	// sliding windows: overlapping fired windows, late rows inside several of them
	pairs := [][2]int64{{10, 5}, {10, 3}, {10, 10}, {5, 10}, {1000, 250}}
	for i := 0; i < ncases/2; i++ {
		p := pairs[rng.Intn(len(pairs))]
		c := swCfg{size: p[0], slide: p[1]}
		c.ooo = []int64{0, c.size / 2, 2 * c.size}[rng.Intn(3)]
		c.late = []int64{0, c.slide, c.size, 3 * c.size}[rng.Intn(4)]
		n := 5 + rng.Intn(36)
		ops := genTimeOps(rng, c.slide, c.ooo, n, nil, rng.Intn(3) == 0)
		if i%25 == 3 {
			ops = overflowThenQuiet(rng, c.slide, nil)
		}
		if err := slidingLine(o, "C02", c, ops, fmt.Sprintf("sliding late=%d", c.late/c.slide)); err != nil {
			return err
		}
	}
	// session windows: late rows absorbed by the still-open triggered session of their key
	cross := []wop{{kind: 'A', id: 1, ts: 1000, key: "1"}, {kind: 'A', id: 2, ts: 1005, key: "2"}, {kind: 'A', id: 3, ts: 1100, key: "3"}, {kind: 'X'},
		{kind: 'A', id: 4, ts: 1003, key: "2"}, {kind: 'A', id: 5, ts: 1002, key: "1"}, {kind: 'X'}}
	if err := sessionLine(o, "C02", nwCfg{10, 0, 500}, cross, "corpus"); err != nil {
		return err
	}
	for i := 0; i < ncases/2; i++ {
		c := nwCfg{timeout: []int64{2, 10, 1000}[rng.Intn(3)]}
		c.ooo = []int64{0, c.timeout / 2, 2 * c.timeout}[rng.Intn(3)]
		c.late = []int64{0, c.timeout, 5 * c.timeout}[rng.Intn(3)]
		n := 5 + rng.Intn(36)
		ops := genSessionOps(rng, c, n, 1+rng.Intn(3), rng.Intn(3) == 0)
		if i%25 == 3 {
			ops = overflowThenQuiet(rng, c.timeout, []string{"1", "2", "3"})
		}
		if err := sessionLine(o, "C02", c, ops, fmt.Sprintf("session late=%d", c.late/c.timeout)); err != nil {
			return err
		}
	}
	// the two writers of the watermark (events, idle advance): stepped through VerifAgeSource
	nmono := 150
	if tier == "thorough" {
		nmono = 3000
	}
	if err := monoCases(o, NewRNG(seed*0x9E3779B97F4A7C15+0xC02), nmono); err != nil {
		return err
	}
	// idle timeout (reads the wall clock, cannot be stepped): SQL level, judged on observable facts
	nidle := 3
	if tier == "thorough" {
		nidle = 12
	}
	nlate := 9
	if tier == "thorough" {
		nlate = 60
	}
	lateSQLCases(o, rng, nlate)
	if err := idleCases(o, nidle); err != nil {
		return err
	}
	return nil
}
