package main

// C15 — family S (sparse rows). Event streams are heterogeneous: a heartbeat without the reading
// next to a reading. A column that a DEFINE condition (c = 'x' .., v > PREV(v)) or a MEASURES item
// (c AS bc, v AS bv) reads as a BARE column is absent from some events (the key is missing; now and
// then an explicit nil), right after events - of the same and of the other partitions - in which it
// was present and made the condition true. The reference semantics (Model/Cep.v cls_ok, cmp_ok,
// bare_obs): an absent column is NULL in that evaluation, a condition over it is not true; a
// variable without a class test (mask 31) still accepts the row; PREV(v) of a row without v is NULL.
//
//	C15 S <bare 0|1> <skip> <skipvar> <within> # <pattern> # <nvars> {mask cmp}* #
//	    {part cls|5 v|n ts}* # {part mn first_id last_id count [bc bv]}*
//
// The cases are those of the random family (every pattern shape, SKIP mode, WITHIN, 1-3 interleaved
// partitions, ONE ROW / ALL ROWS PER MATCH) with more PREV comparisons, then thinned out.
import "strings"

func c15sparse(r *RNG, maxRows int) *c15case {
	var c *c15case
	for {
		c = c15random(r, maxRows)
		if len(c.rows) >= 3 {
			break
		}
	}
	c.sparse = true
	// more comparisons with PREV (they read the bare column v and, through PREV, the previous row)
	moreCmp := r.Intn(100) < 50
	for i := range c.defs {
		if moreCmp && c.defs[i].cmp == 0 && r.Intn(3) == 0 {
			c.defs[i].cmp = 1 + r.Intn(2)
		}
	}
	anyCmp := false
	for _, d := range c.defs {
		if d.cmp != 0 {
			anyCmp = true
		}
	}
	rates := []int{0, 20, 35, 50}
	pc, pv := rates[r.Intn(4)], rates[r.Intn(4)]
	if !anyCmp && r.Intn(3) != 0 {
		pv = 0 // v is read by MEASURES only
	}
	if pc == 0 && pv == 0 {
		pc = 30
	}
	for i := range c.rows {
		if r.Intn(100) < pc {
			c.rows[i].nc = 1
			if r.Intn(5) == 0 {
				c.rows[i].nc = 2
			}
		}
		if r.Intn(100) < pv {
			c.rows[i].nvl = 1
			if r.Intn(5) == 0 {
				c.rows[i].nvl = 2
			}
		}
	}
	c.bare = !c.allRows && r.Intn(100) < 65
	c.tag = "S_sparse_rows S_" + strings.ReplaceAll(c.tag, " ", " S_")
	if pc > 0 {
		c.tag += " S_class_column_absent"
	}
	if pv > 0 {
		c.tag += " S_v_column_absent"
	}
	if anyCmp {
		c.tag += " S_prev_comparison"
	}
	if c.bare {
		c.tag += " S_bare_measures"
	}
	return c
}

// documented scenarios of the class
func c15scorpus() []*c15case {
	mk := func(part []int, cls string, v []int, ts []int) []c15row {
		var out []c15row
		for i := range part {
			r := c15row{part: part[i], v: v[i], ts: ts[i]}
			if cls[i] == '-' {
				r.nc = 1
			} else {
				r.cls = strings.IndexByte(c15classes, cls[i])
			}
			if v[i] < 0 {
				r.nvl, r.v = 1, 0
			}
			out = append(out, r)
		}
		return out
	}
	a2 := c15rep(2, 2, c15lit(0))
	return []*c15case{
		// a reading, a heartbeat without the column, another reading: PATTERN (A{2}), A AS c = 'a'
		{pat: a2, nv: 1, defs: []c15def{{1, 0}}, skip: "P", sparse: true, bare: true,
			rows: mk([]int{0, 0, 0}, "a-b", []int{3, -1, 1}, []int{1, 2, 3}), tag: "S_corpus"},
		// the other device's reading is evaluated right before two heartbeats of this one
		{pat: a2, nv: 1, defs: []c15def{{1, 0}}, skip: "P", sparse: true, bare: true,
			rows: mk([]int{0, 0, 1, 0, 0, 0, 1}, "abe--be", []int{3, 1, 4, -1, -1, 2, 1}, []int{1, 2, 2, 3, 4, 5, 6}), tag: "S_corpus"},
		{pat: a2, nv: 1, defs: []c15def{{1, 0}}, skip: "P", sparse: true,
			rows: mk([]int{0, 0, 1, 0, 0, 0, 1}, "aba--ba", []int{3, 1, 4, -1, -1, 2, 1}, []int{1, 2, 2, 3, 4, 5, 6}), tag: "S_corpus"},
		// A B+, B AS v > PREV(v): a row without v neither rises nor can be risen from
		{pat: c15seq(c15lit(0), c15rep(1, -1, c15lit(1))), nv: 2, defs: []c15def{{31, 0}, {31, 1}}, skip: "P", sparse: true, bare: true,
			rows: mk([]int{0, 0, 0, 0, 0, 0}, "aaa-aa", []int{1, 2, -1, 3, 4, -1}, []int{1, 2, 3, 4, 5, 6}), tag: "S_corpus"},
		// MEASURES c AS bc, v AS bv on a match whose last row carries neither, after one whose last row did
		{pat: c15seq(c15lit(0), c15lit(1)), nv: 2, defs: []c15def{{31, 0}, {31, 0}}, skip: "P", sparse: true, bare: true,
			rows: mk([]int{0, 0, 0, 0}, "ab--", []int{1, 2, -1, -1}, []int{1, 2, 3, 4}), tag: "S_corpus"},
	}
}
