package main

// C17: GLOBAL WINDOW ... TRIGGER WHEN. Every case is one SQL statement (parsed by the real rsql
// parser) plus a row sequence. The real GlobalWindow built from the parsed configuration is stepped
// row by row (verif hook = what its goroutine does with one row of the FIFO) and drained after every
// row; a subset of the cases is additionally run through the public API (Execute/Emit/sync sink).
//
// line:  C17 <mode> # <ncols> <nfields> <column name of field 0> .. # <out refs> # <pred, prefix form> # <binding> # <rows> # <stepped obs> [# <e2e obs>]
//   ref   = c* | c<f> | s<f> | a<f> | m<f> | x<f>      (count, sum, avg, min, max; f = field index)
//   pred  = & p q | "|" p q | <ref> <op> <lit>          op in gt ge lt le eq ne ; lit = n/d
//   bind  = one token per aggregate call of the predicate in document order: b<j> (the placeholder reads SELECT aggregate j,
//           as buildTrigger decided) | t (trigger only)
//   row   = <key> v0 .. v(nfields-1)    key = comma separated ids or "-" ; value = n/d | N (NULL) | A (absent)
//           family nested (dotted column names, values in nested maps of the row): an absent value is also written
//           Ap (the parent section exists, without the leaf), A=n/d / Ap=n/d (the path is absent and the row carries a
//           TOP-LEVEL key named like the leaf of the path, with value n/d: another column, not the aggregate's input).
//           For the model every A.. token is a missing value.
//   column names: the model knows fields by index only; the names (lower-case, mixed-case such as deviceTemp /
//           loadKw / X1, or two columns that differ in letter case only) are what the SQL and the rows use.
//           Column names are case sensitive in a row, so fn(deviceTemp) is the aggregate of exactly that column,
//           however the function is spelled (MAX/max/Max) and whether or not the call is bound to a SELECT output.
//   bind  : besides b<j> / t the harness writes wrong:<fn>:<field> when the i-th call extracted from the predicate is
//           not the i-th call written; the driver classifies every b<j> (same aggregate | the same function over a
//           column whose name differs in letter case only | anything else) and judges the outputs by the predicate as
//           written.
//   obs   = list of: <rowindex> <key> val..  (one val per out ref; val = round(x*2^40) | N) ; e2e obs has rowindex "?"

import (
	"fmt"
	"math"
	"strconv"
	"strings"
	"sync"
	"time"

	"github.com/rulego/streamsql"
	"github.com/rulego/streamsql/rsql"
	"github.com/rulego/streamsql/types"
	"github.com/rulego/streamsql/window"
)

func init() { runners["C17"] = runC17 }

var c17Fields = []string{"v", "w", "x"}

// column names with upper-case letters (and a few without); pairwise distinct when case is ignored
var c17MixedNames = []string{"deviceTemp", "loadKw", "X1", "Temp", "RPM", "kWh", "sensorA", "Pressure", "outTempC",
	"vBat", "Q", "humidity", "v", "flowRate2", "t2", "W"}

// two columns of one row that differ in letter case only
var c17TwinNames = [][2]string{{"temp", "Temp"}, {"X1", "x1"}, {"loadKw", "loadkw"}, {"deviceTemp", "DeviceTemp"}, {"RPM", "rpm"}, {"v", "V"}}

// c17GenNames: the column names of the nf numeric fields and the name of the family.
func c17GenNames(rng *RNG, nf int) ([]string, string) {
	k := rng.Intn(20)
	switch {
	case k < 4:
		return append([]string(nil), c17Fields[:nf]...), "lower"
	case k < 7 && nf >= 2:
		tw := c17TwinNames[rng.Intn(len(c17TwinNames))]
		names := []string{tw[0], tw[1]}
		if rng.Bool() {
			names[0], names[1] = names[1], names[0]
		}
		for len(names) < nf {
			n := c17MixedNames[rng.Intn(len(c17MixedNames))]
			if !strings.EqualFold(n, names[0]) {
				names = append(names, n)
			}
		}
		// the pair is not always fields 0 and 1
		j := rng.Intn(nf)
		names[0], names[j] = names[j], names[0]
		return names, "twin"
	}
	var names []string
	for len(names) < nf {
		n := c17MixedNames[rng.Intn(len(c17MixedNames))]
		dup := false
		for _, m := range names {
			dup = dup || strings.EqualFold(m, n)
		}
		if !dup {
			names = append(names, n)
		}
	}
	return names, "mixed"
}

// nested (dotted) column names: the value of field "cpu.load" is row["cpu"]["load"]. Pairwise distinct as paths;
// several share a parent (cpu.load / cpu.t) or a leaf (cpu.load / m.load); flat names that are the leaf of a
// nested one (load, t, Temp) stand next to them as columns of their own.
var c17NestedNames = []string{"cpu.load", "cpu.t", "m.load", "m.v", "dev.Temp", "dev.stat.rpm", "env.stat.t", "s.x", "stream.v", "io.kWh"}
var c17NestedFlat = []string{"load", "t", "v", "Temp", "rpm", "x", "kWh", "w"}

func c17Leaf(name string) string { return name[strings.LastIndexByte(name, '.')+1:] }

// c17GenNestedNames: at least one dotted name; the others dotted (2/3) or flat (1/3; a flat one is often the leaf
// name of a dotted one of the same case).
func c17GenNestedNames(rng *RNG, nf int) []string {
	names := []string{c17NestedNames[rng.Intn(len(c17NestedNames))]}
	for len(names) < nf {
		var n string
		switch rng.Intn(6) {
		case 0:
			n = c17Leaf(names[rng.Intn(len(names))])
		case 1:
			n = c17NestedFlat[rng.Intn(len(c17NestedFlat))]
		default:
			n = c17NestedNames[rng.Intn(len(c17NestedNames))]
		}
		dup := false
		for _, m := range names {
			dup = dup || strings.EqualFold(m, n)
		}
		if !dup {
			names = append(names, n)
		}
	}
	j := rng.Intn(nf)
	names[0], names[j] = names[j], names[0]
	return names
}

// c17SetPath stores v at the dotted path (intermediate maps are created, an existing one is extended).
func c17SetPath(data map[string]any, path string, v any) {
	seg := strings.Split(path, ".")
	cur := data
	for _, k := range seg[:len(seg)-1] {
		nx, ok := cur[k].(map[string]any)
		if !ok {
			nx = map[string]any{}
			cur[k] = nx
		}
		cur = nx
	}
	cur[seg[len(seg)-1]] = v
}

// c17EnsureParent: the path is absent, but its parent sections exist (without the leaf).
func c17EnsureParent(data map[string]any, path string) {
	seg := strings.Split(path, ".")
	cur := data
	for _, k := range seg[:len(seg)-1] {
		nx, ok := cur[k].(map[string]any)
		if !ok {
			nx = map[string]any{}
			cur[k] = nx
		}
		cur = nx
	}
}

func c17HasUpper(s string) bool { return strings.ToLower(s) != s }
var c17Cols = []string{"ga", "gb"}
var c17FnTok = []string{"c", "s", "a", "m", "x"}
var c17FnSQL = []string{"count", "sum", "avg", "min", "max"}
var c17OpTok = []string{"gt", "ge", "lt", "le", "eq", "ne"}
var c17OpSQL = []string{">", ">=", "<", "<=", "=", "!="}

type c17Ref struct {
	fn  int
	fld int // -1 = *
}

func (r c17Ref) tok() string {
	if r.fld < 0 {
		return c17FnTok[r.fn] + "*"
	}
	return c17FnTok[r.fn] + strconv.Itoa(r.fld)
}

func c17Case(rng *RNG, s string) string {
	b := []byte(s)
	switch rng.Intn(3) {
	case 0:
		return strings.ToUpper(s)
	case 1:
		for i := range b {
			if rng.Bool() && b[i] >= 'a' && b[i] <= 'z' {
				b[i] -= 32
			}
		}
		return string(b)
	}
	return s
}

func (r c17Ref) sql(rng *RNG, names []string) string {
	f := "*"
	if r.fld >= 0 {
		f = names[r.fld]
	}
	sp := []string{"", " "}
	return c17Case(rng, c17FnSQL[r.fn]) + sp[rng.Intn(2)] + "(" + sp[rng.Intn(2)] + f + sp[rng.Intn(2)] + ")"
}

// quarter-step rational q/4
type c17Q int

func (q c17Q) tok() string { return fmt.Sprintf("%d/4", int(q)) }
func (q c17Q) sql() string {
	if int(q)%4 == 0 {
		return strconv.Itoa(int(q) / 4)
	}
	return strconv.FormatFloat(float64(q)/4, 'f', -1, 64)
}

type c17Pred struct {
	kind byte // 'a' atom, '&', '|'
	l, r *c17Pred
	ref  c17Ref
	op   int
	lit  c17Q
}

func (p *c17Pred) toks() string {
	if p.kind == 'a' {
		return p.ref.tok() + " " + c17OpTok[p.op] + " " + p.lit.tok()
	}
	return string(p.kind) + " " + p.l.toks() + " " + p.r.toks()
}

// SQL text: AND binds tighter than OR; a right operand of the same operator is parenthesised at
// random (both forms denote the same left-to-right evaluation).
func (p *c17Pred) sql(rng *RNG, names []string) string {
	if p.kind == 'a' {
		return p.ref.sql(rng, names) + " " + c17OpSQL[p.op] + " " + p.lit.sql()
	}
	wrap := func(c *c17Pred, right bool) string {
		s := c.sql(rng, names)
		if c.kind == 'a' {
			return s
		}
		paren := true // OR under AND
		if c.kind == p.kind {
			paren = right && rng.Intn(3) == 0
		} else if c.kind == '&' {
			paren = rng.Bool()
		}
		if paren {
			return "(" + s + ")"
		}
		return s
	}
	op := " AND "
	if p.kind == '|' {
		op = " OR "
	}
	return wrap(p.l, false) + c17Case(rng, op) + wrap(p.r, true)
}

func (p *c17Pred) refs(acc []c17Ref) []c17Ref {
	if p.kind == 'a' {
		return append(acc, p.ref)
	}
	return p.r.refs(p.l.refs(acc))
}

func c17GenRef(rng *RNG, nf int) c17Ref {
	fn := rng.Intn(5)
	if fn == 0 && rng.Intn(3) != 0 {
		return c17Ref{0, -1}
	}
	return c17Ref{fn, rng.Intn(nf)}
}

func c17GenLit(rng *RNG, r c17Ref) c17Q {
	switch r.fn {
	case 0:
		return c17Q(4 * rng.Range(1, 5))
	case 1:
		if rng.Intn(3) == 0 {
			return c17Q(rng.Range(-16, 60))
		}
		return c17Q(4 * rng.Range(-4, 14))
	}
	if rng.Intn(3) == 0 {
		return c17Q(rng.Range(-12, 28))
	}
	return c17Q(4 * rng.Range(-3, 7))
}

func c17GenPred(rng *RNG, depth int, outs []c17Ref, nf int) *c17Pred {
	if depth == 0 || rng.Intn(3) == 0 {
		var r c17Ref
		if rng.Bool() {
			r = outs[rng.Intn(len(outs))]
		} else {
			r = c17GenRef(rng, nf)
		}
		op := rng.Intn(6)
		if op >= 4 && rng.Bool() { // eq/ne less often
			op = rng.Intn(4)
		}
		return &c17Pred{kind: 'a', ref: r, op: op, lit: c17GenLit(rng, r)}
	}
	k := byte('&')
	if rng.Bool() {
		k = '|'
	}
	return &c17Pred{kind: k, l: c17GenPred(rng, depth-1, outs, nf), r: c17GenPred(rng, depth-1, outs, nf)}
}

type c17Row struct {
	key  []int
	vals []string // n/d | N | A
	data map[string]any
}

func c17KeyTok(k []int) string {
	if len(k) == 0 {
		return "-"
	}
	s := make([]string, len(k))
	for i, x := range k {
		s[i] = strconv.Itoa(x)
	}
	return strings.Join(s, ",")
}

// group column values: ga = "k<id>" (string, no '|', never empty), gb = id (int)
func c17KeyOfResult(m map[string]any, ncols int, special bool) string {
	k := make([]string, 0, ncols)
	for c := 0; c < ncols; c++ {
		v, ok := m[c17Cols[c]]
		if special && c == 0 {
			switch {
			case !ok || v == nil:
				k = append(k, "0")
			case v == `\N`:
				k = append(k, "1")
			case v == "":
				k = append(k, "2")
			case v == `k|3\`:
				k = append(k, "3")
			default:
				k = append(k, "bad")
			}
			continue
		}
		if !ok {
			k = append(k, "missing")
			continue
		}
		switch x := v.(type) {
		case string:
			if c == 0 && strings.HasPrefix(x, "k") {
				k = append(k, x[1:])
			} else {
				k = append(k, "bad")
			}
		case int:
			k = append(k, strconv.Itoa(x))
		case int64:
			k = append(k, strconv.FormatInt(x, 10))
		case float64:
			k = append(k, strconv.FormatInt(int64(x), 10))
		default:
			k = append(k, "bad")
		}
	}
	if ncols == 0 {
		return "-"
	}
	return strings.Join(k, ",")
}

func c17ValTok(v any) string {
	var f float64
	switch x := v.(type) {
	case nil:
		return "N"
	case float64:
		f = x
	case float32:
		f = float64(x)
	case int:
		f = float64(x)
	case int64:
		f = float64(x)
	default:
		return "bad"
	}
	if math.IsNaN(f) || math.IsInf(f, 0) || math.Abs(f) > 1e6 {
		return "bad"
	}
	return strconv.FormatInt(int64(math.Round(f*float64(int64(1)<<40))), 10)
}

func c17ResultTok(idx string, m map[string]any, ncols, nouts int, special bool) string {
	var sb strings.Builder
	sb.WriteString(idx + " " + c17KeyOfResult(m, ncols, special))
	for j := 0; j < nouts; j++ {
		v, ok := m["o"+strconv.Itoa(j)]
		if !ok {
			sb.WriteString(" missing")
		} else {
			sb.WriteString(" " + c17ValTok(v))
		}
	}
	return sb.String()
}

type c17Spec struct {
	ncols, nf int
	fnames    []string // column name of field i
	family    string   // lower | mixed | twin | nested
	decoys    int      // nested: rows*fields with an absent path and a top-level key named like its leaf
	outs      []c17Ref
	pred      *c17Pred
	sql       string
	rows      []c17Row
	// WITH(STATETTL): ttl in ms (0 = no option); before row i, age[i] ms pass and, if reap[i], the reaper ticks
	ttl  int
	age  []int
	reap []bool
	// special: the values of the first group column are, by group id, NULL (nil / missing column alternating),
	// the text \N (the NULL marker of the key encoding), the empty string, a text with '|' and a trailing backslash
	special bool
}

var c17SpecialVals = []string{"", `\N`, "", `k|3\`}

// c17MakeSpecial rewrites the first group column of every row (group ids are 0..3)
func c17MakeSpecial(s *c17Spec) {
	if s.ncols == 0 {
		return
	}
	s.special = true
	for i := range s.rows {
		g := s.rows[i].key[0]
		switch g {
		case 0:
			if i%2 == 0 {
				s.rows[i].data[c17Cols[0]] = nil
			} else {
				delete(s.rows[i].data, c17Cols[0])
			}
		case 2:
			s.rows[i].data[c17Cols[0]] = ""
		default:
			s.rows[i].data[c17Cols[0]] = c17SpecialVals[g%4]
		}
	}
}

func c17Gen(rng *RNG, maxRows int) c17Spec { return c17GenFam(rng, maxRows, false) }

// c17GenNested: the family `nested`. Some column names are dotted paths (cpu.load), their values sit in nested
// maps of the row. An absent value ('A') of a dotted column means the PATH is absent (the section is missing, or
// present without the leaf); such a row often carries a top-level key named like the leaf (load) - an unrelated
// column as far as the statement is concerned - whose value (incl. +-100) would change aggregates and decisions if
// it were read instead. The model is the same: the field is missing in that row.
func c17GenNested(rng *RNG, maxRows int) c17Spec { return c17GenFam(rng, maxRows, true) }

func c17GenFam(rng *RNG, maxRows int, nested bool) c17Spec {
	var s c17Spec
	s.ncols = []int{0, 1, 1, 1, 2, 2}[rng.Intn(6)]
	s.nf = rng.Range(1, 3)
	if nested {
		s.fnames, s.family = c17GenNestedNames(rng, s.nf), "nested"
	} else {
		s.fnames, s.family = c17GenNames(rng, s.nf)
	}
	nouts := rng.Range(1, 4)
	for i := 0; i < nouts; i++ {
		s.outs = append(s.outs, c17GenRef(rng, s.nf))
	}
	s.pred = c17GenPred(rng, rng.Range(0, 3), s.outs, s.nf)
	// SQL
	var sel []string
	for c := 0; c < s.ncols; c++ {
		sel = append(sel, c17Cols[c])
	}
	for i, r := range s.outs {
		sel = append(sel, r.sql(rng, s.fnames)+" AS o"+strconv.Itoa(i))
	}
	s.sql = "SELECT " + strings.Join(sel, ", ") + " FROM stream "
	if s.ncols > 0 {
		s.sql += "GROUP BY " + strings.Join(c17Cols[:s.ncols], ", ") + ", "
	}
	s.sql += "GLOBAL WINDOW TRIGGER WHEN " + s.pred.sql(rng, s.fnames)
	// groups
	ng := 1
	if s.ncols > 0 {
		ng = rng.Range(1, 4)
	}
	groups := make([][]int, ng)
	for g := range groups {
		k := make([]int, s.ncols)
		for c := range k {
			k[c] = rng.Intn(3)
		}
		if s.ncols > 0 {
			k[0] = g // distinct tuples
		}
		groups[g] = k
	}
	nullPct := []int{0, 0, 10, 25, 60}[rng.Intn(5)]
	if nested {
		nullPct = []int{15, 30, 45, 60}[rng.Intn(4)]
	}
	flat := map[string]bool{}
	for _, n := range s.fnames {
		if !strings.Contains(n, ".") {
			flat[n] = true
		}
	}
	n := rng.Range(3, maxRows)
	for i := 0; i < n; i++ {
		g := groups[rng.Intn(ng)]
		row := c17Row{key: g, data: map[string]any{}}
		var decoys []int
		for c := 0; c < s.ncols; c++ {
			if c == 0 {
				row.data[c17Cols[c]] = "k" + strconv.Itoa(g[c])
			} else {
				row.data[c17Cols[c]] = g[c]
			}
		}
		for f := 0; f < s.nf; f++ {
			name := s.fnames[f]
			dotted := nested && strings.Contains(name, ".")
			set := func(v any) {
				if dotted {
					c17SetPath(row.data, name, v)
				} else {
					row.data[name] = v
				}
			}
			if rng.Intn(100) < nullPct {
				if dotted {
					if rng.Intn(4) == 0 {
						row.vals = append(row.vals, "N") // the path resolves to an explicit NULL
						set(nil)
						continue
					}
					if rng.Bool() {
						row.vals = append(row.vals, "Ap")
						c17EnsureParent(row.data, name)
					} else {
						row.vals = append(row.vals, "A")
					}
					decoys = append(decoys, f)
					continue
				}
				if rng.Bool() {
					row.vals = append(row.vals, "N")
					set(nil)
				} else {
					row.vals = append(row.vals, "A")
				}
				continue
			}
			if rng.Intn(3) == 0 {
				q := rng.Range(-12, 32)
				row.vals = append(row.vals, c17Q(q).tok())
				set(float64(q) / 4)
			} else {
				z := rng.Range(-3, 8)
				row.vals = append(row.vals, c17Q(4*z).tok())
				if rng.Intn(4) == 0 {
					set(int64(z))
				} else {
					set(z)
				}
			}
		}
		// a top-level key named like the leaf of an absent path (never a column of the statement, never a group column)
		for _, f := range decoys {
			d := c17Leaf(s.fnames[f])
			if flat[d] || rng.Intn(10) >= 7 {
				continue
			}
			if _, ok := row.data[d]; ok {
				continue
			}
			q := rng.Range(-12, 32)
			switch rng.Intn(4) {
			case 0:
				q = 400
				row.data[d] = 100
			case 1:
				q = -400
				row.data[d] = -100.0
			default:
				row.data[d] = float64(q) / 4
			}
			row.vals[f] += "=" + c17Q(q).tok()
			s.decoys++
		}
		s.rows = append(s.rows, row)
	}
	return s
}

// c17GenTTL: a generated case run WITH(STATETTL='10500ms'). The TTL is not a multiple of any age step, so the
// real clock's microseconds between the hook calls never decide a comparison.
func c17GenTTL(rng *RNG, maxRows int) c17Spec {
	s := c17Gen(rng, maxRows)
	s.ttl = 10500
	s.sql += " WITH(STATETTL='10500ms')"
	style := rng.Intn(4)
	if style == 0 && rng.Intn(3) > 0 {
		// one group only: every row of the history keeps it active
		for i := range s.rows {
			s.rows[i].key = s.rows[0].key
			for c := 0; c < s.ncols; c++ {
				s.rows[i].data[c17Cols[c]] = s.rows[0].data[c17Cols[c]]
			}
		}
	}
	for range s.rows {
		var a int
		switch style {
		case 0: // every gap below the TTL: with one group the reaper must stay invisible however long a cycle lasts
			a = []int{1000, 3000, 6000, 9000}[rng.Intn(4)]
		case 1: // mostly short gaps, now and then one beyond the TTL
			a = []int{0, 1000, 3000, 6000, 12000}[rng.Intn(5)]
		case 2:
			a = []int{0, 6000, 6000, 11000}[rng.Intn(4)]
		default:
			a = rng.Intn(5) * 4000
		}
		s.age = append(s.age, a)
		s.reap = append(s.reap, rng.Intn(100) < 55)
	}
	return s
}

func c17CopyRow(m map[string]any) map[string]any {
	c := make(map[string]any, len(m))
	for k, v := range m {
		if sub, ok := v.(map[string]any); ok {
			v = c17CopyRow(sub)
		}
		c[k] = v
	}
	return c
}

// stepped run on the real GlobalWindow built from the parsed SQL
func c17Stepped(s c17Spec) (bind string, obs string, nres int, err error) {
	stmt, err := rsql.NewParser(s.sql).Parse()
	if err != nil {
		return "", "", 0, fmt.Errorf("parse %q: %v", s.sql, err)
	}
	cfg, _, err := stmt.ToStreamConfig()
	if err != nil {
		return "", "", 0, fmt.Errorf("config %q: %v", s.sql, err)
	}
	gw, err := window.VerifNewGlobal(cfg.WindowConfig)
	if err != nil {
		return "", "", 0, fmt.Errorf("window %q: %v", s.sql, err)
	}
	defer gw.Stop()
	ts, _ := gw.VerifTriggerSpecs()
	want := s.pred.refs(nil)
	var bs []string
	for i, t := range ts {
		tag := "t"
		if t.OutputAlias != "" {
			// bound: the placeholder reads the SELECT aggregate with this alias (aliases are o0, o1, ..)
			tag = "b?" + t.OutputAlias
			if j, err := strconv.Atoi(strings.TrimPrefix(t.OutputAlias, "o")); err == nil && j >= 0 && j < len(s.outs) {
				tag = "b" + strconv.Itoa(j)
			}
		}
		// the call must be the i-th call of the predicate: same function, same column (names are case
		// sensitive: InputField is the key the row is read with)
		if i < len(want) {
			f := "*"
			if want[i].fld >= 0 {
				f = s.fnames[want[i].fld]
			}
			if t.AggType != c17FnSQL[want[i].fn] || t.InputField != f {
				tag = "wrong:" + t.AggType + ":" + t.InputField
			}
		}
		bs = append(bs, tag)
	}
	if len(ts) != len(want) {
		bs = append(bs, fmt.Sprintf("ncalls:%d", len(ts)))
	}
	var ob []string
	for i, r := range s.rows {
		if s.ttl > 0 {
			gw.VerifAge(time.Duration(s.age[i]) * time.Millisecond)
			if s.reap[i] {
				gw.VerifReapTick()
			}
		}
		gw.VerifProcessRow(c17CopyRow(r.data))
		for _, batch := range gw.VerifDrain() {
			for _, x := range batch {
				m, ok := x.Data.(map[string]any)
				if !ok {
					ob = append(ob, strconv.Itoa(i)+" notamap")
					continue
				}
				ob = append(ob, c17ResultTok(strconv.Itoa(i), m, s.ncols, len(s.outs), s.special))
				nres++
			}
		}
	}
	return strings.Join(bs, " "), strings.Join(ob, " "), nres, nil
}

// end-to-end run through the public API with a synchronous sink
func c17E2E(s c17Spec, expect int) (string, error) {
	// Output buffers larger than any generated row sequence: with the default configuration
	// (WindowOutputSize 50, strategy "drop") the window discards its oldest undelivered result when
	// the consumer goroutine lags by more than 50 results; that loss is counted (droppedCount) and is
	// C19's subject. C17 assumes no overflow.
	ss := streamsql.New(streamsql.WithDiscardLog(), streamsql.WithBufferSizes(1000, 1000, 1000))
	if err := ss.Execute(s.sql); err != nil {
		ss.Stop()
		return "", fmt.Errorf("execute %q: %v", s.sql, err)
	}
	var mu sync.Mutex
	var ob []string
	ss.AddSyncSink(func(rs []map[string]any) {
		mu.Lock()
		for _, m := range rs {
			ob = append(ob, c17ResultTok("?", m, s.ncols, len(s.outs), s.special))
		}
		mu.Unlock()
	})
	for _, r := range s.rows {
		ss.Emit(c17CopyRow(r.data))
	}
	count := func() int { mu.Lock(); defer mu.Unlock(); return len(ob) }
	// wait for the expected number of results (max 10 s), then a quiet period to see extras
	for i := 0; i < 5000 && count() < expect; i++ {
		time.Sleep(2 * time.Millisecond)
	}
	last, stable := count(), 0
	for i := 0; i < 100 && stable < 3; i++ {
		time.Sleep(15 * time.Millisecond)
		if c := count(); c == last {
			stable++
		} else {
			last, stable = c, 0
		}
	}
	ss.Stop()
	mu.Lock()
	defer mu.Unlock()
	return strings.Join(ob, " "), nil
}

// c17Slow: the started window behind its public entry points (Add, Start, SetCallback) with an intake queue of two
// rows and a consumer that holds the first result for 130 ms while the producer keeps adding: Add has to wait for the
// worker, every row since the last fire still counts and every result arrives, in order.
func c17Slow(s c17Spec, expect int) (string, error) {
	stmt, err := rsql.NewParser(s.sql).Parse()
	if err != nil {
		return "", err
	}
	cfg, _, err := stmt.ToStreamConfig()
	if err != nil {
		return "", err
	}
	wc := cfg.WindowConfig
	wc.PerformanceConfig.BufferConfig.WindowOutputSize = 2
	gw, err := window.VerifNewGlobal(wc)
	if err != nil {
		return "", err
	}
	var mu sync.Mutex
	var ob []string
	first := true
	gw.SetCallback(func(rows []types.Row) {
		mu.Lock()
		for _, x := range rows {
			if m, ok := x.Data.(map[string]any); ok {
				ob = append(ob, c17ResultTok("?", m, s.ncols, len(s.outs), s.special))
			} else {
				ob = append(ob, "? notamap")
			}
		}
		hold := first
		first = false
		mu.Unlock()
		if hold {
			time.Sleep(130 * time.Millisecond)
		}
		gw.VerifDrain()
	})
	gw.Start()
	for _, r := range s.rows {
		gw.Add(c17CopyRow(r.data))
	}
	count := func() int { mu.Lock(); defer mu.Unlock(); return len(ob) }
	for i := 0; i < 3000 && count() < expect; i++ {
		time.Sleep(2 * time.Millisecond)
	}
	last, stable := count(), 0
	for i := 0; i < 100 && stable < 3; i++ {
		time.Sleep(15 * time.Millisecond)
		if c := count(); c == last {
			stable++
		} else {
			last, stable = c, 0
		}
	}
	gw.Stop()
	mu.Lock()
	defer mu.Unlock()
	return strings.Join(ob, " "), nil
}

func c17Line(s c17Spec, mode, bind, obs, e2e string) string {
	outs := make([]string, len(s.outs))
	for i, r := range s.outs {
		outs[i] = r.tok()
	}
	var rows []string
	for _, r := range s.rows {
		rows = append(rows, c17KeyTok(r.key)+" "+strings.Join(r.vals, " "))
	}
	l := fmt.Sprintf("C17 %s # %d %d %s # %s # %s # %s # %s # %s", mode, s.ncols, s.nf, strings.Join(s.fnames, " "), strings.Join(outs, " "),
		s.pred.toks(), bind, strings.Join(rows, " "), obs)
	if mode == "E" {
		l += " # " + e2e
	}
	if mode == "T" {
		l += " # " + strconv.Itoa(s.ttl)
		for i := range s.rows {
			b := "0"
			if s.reap[i] {
				b = "1"
			}
			l += " " + strconv.Itoa(s.age[i]) + " " + b
		}
	}
	return l
}

// hand-written boundary cases (always run first)
func c17Corpus() []c17Spec {
	mkN := func(names []string, family string, ncols int, outs []c17Ref, p *c17Pred, sql string, rows [][]any) c17Spec {
		nf := len(names)
		s := c17Spec{ncols: ncols, nf: nf, outs: outs, pred: p, sql: sql, fnames: names, family: family}
		for _, r := range rows {
			g := r[0].(int)
			row := c17Row{data: map[string]any{}}
			if ncols > 0 {
				row.key = []int{g}
				row.data["ga"] = "k" + strconv.Itoa(g)
			}
			for f := 0; f < nf; f++ {
				switch x := r[1+f].(type) {
				case nil:
					row.vals = append(row.vals, "N")
					row.data[names[f]] = nil
				case string:
					row.vals = append(row.vals, "A")
				case int:
					row.vals = append(row.vals, c17Q(4*x).tok())
					row.data[names[f]] = x
				}
			}
			s.rows = append(s.rows, row)
		}
		return s
	}
	mk := func(ncols, nf int, outs []c17Ref, p *c17Pred, sql string, rows [][]any) c17Spec {
		return mkN(c17Fields[:nf], "lower", ncols, outs, p, sql, rows)
	}
	atom := func(r c17Ref, op int, lit int) *c17Pred { return &c17Pred{kind: 'a', ref: r, op: op, lit: c17Q(4 * lit)} }
	cs, sv, mx, mn := c17Ref{0, -1}, c17Ref{1, 0}, c17Ref{4, 0}, c17Ref{3, 0}
	return []c17Spec{
		// the documented pattern
		mk(1, 1, []c17Ref{cs}, atom(cs, 1, 3), "SELECT ga, COUNT(*) AS o0 FROM stream GROUP BY ga, GLOBAL WINDOW TRIGGER WHEN COUNT(*) >= 3",
			[][]any{{0, 1}, {0, 2}, {1, 1}, {0, 3}, {0, 4}, {0, 5}, {1, 2}, {0, 6}, {1, 3}}),
		// NULL aggregate left of OR: the engine aborts the evaluation (no fire although count(*) >= 3)
		mk(1, 1, []c17Ref{cs, sv}, &c17Pred{kind: '|', l: atom(mx, 0, 50), r: atom(cs, 1, 3)},
			"SELECT ga, count(*) AS o0, sum(v) AS o1 FROM stream GROUP BY ga, GLOBAL WINDOW TRIGGER WHEN max(v) > 50 OR count(*) >= 3",
			[][]any{{0, nil}, {0, nil}, {0, nil}, {0, 60}, {1, 1}}),
		// same predicate, operands swapped: fires at the third row
		mk(1, 1, []c17Ref{cs, sv}, &c17Pred{kind: '|', l: atom(cs, 1, 3), r: atom(mx, 0, 50)},
			"SELECT ga, count(*) AS o0, sum(v) AS o1 FROM stream GROUP BY ga, GLOBAL WINDOW TRIGGER WHEN count(*) >= 3 OR max(v) > 50",
			[][]any{{0, nil}, {0, nil}, {0, nil}, {0, 60}, {1, 1}}),
		// NULL != literal is true for the engine
		mk(1, 1, []c17Ref{cs, mn}, atom(mn, 5, 5), "SELECT ga, count(*) AS o0, min(v) AS o1 FROM stream GROUP BY ga, GLOBAL WINDOW TRIGGER WHEN min(v) != 5",
			[][]any{{0, nil}, {0, 5}, {0, 4}, {0, "A"}}),
		// mixed-case column names, upper-case function names (no call is bound): max over column 0, sum over column 1
		mkN([]string{"deviceTemp", "loadKw"}, "mixed", 1, []c17Ref{cs},
			&c17Pred{kind: '|', l: atom(mx, 0, 50), r: atom(c17Ref{1, 1}, 1, 10)},
			"SELECT ga, COUNT(*) AS o0 FROM stream GROUP BY ga, GLOBAL WINDOW TRIGGER WHEN MAX(deviceTemp) > 50 OR SUM(loadKw) >= 10",
			[][]any{{0, 40, 1}, {1, 20, 6}, {0, 55, 1}, {1, 21, 3}, {1, 22, 2}, {0, 30, 1}}),
		// the same columns, lower-case function names in SELECT and mixed in TRIGGER WHEN (both calls bound)
		mkN([]string{"deviceTemp", "loadKw"}, "mixed", 1, []c17Ref{cs, mx, {1, 1}},
			&c17Pred{kind: '|', l: atom(mx, 0, 50), r: atom(c17Ref{1, 1}, 1, 10)},
			"SELECT ga, count(*) AS o0, max(deviceTemp) AS o1, sum(loadKw) AS o2 FROM stream GROUP BY ga, GLOBAL WINDOW TRIGGER WHEN Max(deviceTemp) > 50 OR SUM(loadKw) >= 10",
			[][]any{{0, 40, 1}, {1, 20, 6}, {0, 55, 1}, {1, 21, 3}, {1, 22, 2}, {0, 30, 1}}),
		// two columns that differ in letter case only; the SELECT aggregate is over the other one
		mkN([]string{"temp", "Temp"}, "twin", 1, []c17Ref{cs, mx}, atom(c17Ref{4, 1}, 0, 5),
			"SELECT ga, count(*) AS o0, max(temp) AS o1 FROM stream GROUP BY ga, GLOBAL WINDOW TRIGGER WHEN max(Temp) > 5",
			[][]any{{0, 9, 1}, {0, 1, 2}, {0, 2, 7}, {0, 1, 1}}),
		// no GROUP BY: one global group
		mk(0, 1, []c17Ref{cs, sv}, atom(sv, 1, 10), "SELECT COUNT(*) AS o0, SUM(v) AS o1 FROM stream GLOBAL WINDOW TRIGGER WHEN SUM(v) >= 10",
			[][]any{{0, 4}, {0, 5}, {0, 1}, {0, 20}, {0, nil}, {0, 9}, {0, 1}}),
	}
}

// nested column names, hand-written: a row without the path but with a top-level key named like the leaf.
// row = group, then per field: int value | nil (explicit NULL at the path) | "A" (path absent) | "A:<n>" (path
// absent, the row carries the top-level key <leaf> = n) | "P:<n>" (the same, and the parent section exists)
func c17NestedCorpus() []c17Spec {
	mk := func(names []string, outs []c17Ref, p *c17Pred, sql string, rows [][]any) c17Spec {
		s := c17Spec{ncols: 1, nf: len(names), outs: outs, pred: p, sql: sql, fnames: names, family: "nested"}
		for _, r := range rows {
			g := r[0].(int)
			row := c17Row{key: []int{g}, data: map[string]any{"ga": "k" + strconv.Itoa(g)}}
			for f, name := range names {
				switch x := r[1+f].(type) {
				case nil:
					row.vals = append(row.vals, "N")
					c17SetPath(row.data, name, nil)
				case int:
					row.vals = append(row.vals, c17Q(4*x).tok())
					c17SetPath(row.data, name, x)
				case string:
					tok := "A"
					if x[0] == 'P' {
						tok = "Ap"
						c17EnsureParent(row.data, name)
					}
					if len(x) > 2 {
						n, _ := strconv.Atoi(x[2:])
						row.data[c17Leaf(name)] = float64(n)
						tok += "=" + c17Q(4*n).tok()
						s.decoys++
					}
					row.vals = append(row.vals, tok)
				}
			}
			s.rows = append(s.rows, row)
		}
		return s
	}
	atom := func(r c17Ref, op int, lit int) *c17Pred { return &c17Pred{kind: 'a', ref: r, op: op, lit: c17Q(4 * lit)} }
	cs, mx, sm := c17Ref{0, -1}, c17Ref{4, 0}, c17Ref{1, 1}
	return []c17Spec{
		// max over a nested column, selected (upper case: trigger-only as well)
		mk([]string{"cpu.load"}, []c17Ref{cs, mx}, atom(mx, 0, 50),
			"SELECT ga, COUNT(*) AS o0, MAX(cpu.load) AS o1 FROM stream GROUP BY ga, GLOBAL WINDOW TRIGGER WHEN MAX(cpu.load) > 50",
			[][]any{{0, 10}, {0, "A:95"}, {1, "P:70"}, {0, 51}, {0, 20}, {1, nil}, {1, 60}, {0, "A"}}),
		// bound call (lower-case SELECT spelling) and a trigger-only sum over a column with the same leaf elsewhere
		mk([]string{"cpu.load", "m.load"}, []c17Ref{cs, mx}, &c17Pred{kind: '|', l: atom(mx, 0, 50), r: atom(sm, 1, 10)},
			"SELECT ga, count(*) AS o0, max(cpu.load) AS o1 FROM stream GROUP BY ga, GLOBAL WINDOW TRIGGER WHEN max(cpu.load) > 50 OR sum(m.load) >= 10",
			[][]any{{0, 10, 1}, {0, "A:60", 2}, {0, 5, "P:30"}, {0, 2, 3}, {0, 1, 4}, {0, 55, 1}, {0, "A:99", "A"}}),
	}
}

// WITH(STATETTL) boundary cases: the documented pattern under a reaper
func c17TTLCorpus() []c17Spec {
	base := c17Corpus()[0] // COUNT(*) >= 3 per ga
	mk := func(rows [][2]int, age []int, reap []bool) c17Spec {
		s := base
		s.sql += " WITH(STATETTL='10500ms')"
		s.ttl = 10500
		s.rows = nil
		for _, r := range rows {
			s.rows = append(s.rows, c17Row{key: []int{r[0]}, vals: []string{c17Q(4 * r[1]).tok()}, data: map[string]any{"ga": "k" + strconv.Itoa(r[0]), "v": r[1]}})
		}
		s.age, s.reap = age, reap
		return s
	}
	T, F := true, false
	return []c17Spec{
		// one group, a row every 6 s, a tick before every row: the cycle is older than the TTL, the group never idle
		mk([][2]int{{0, 1}, {0, 2}, {0, 3}, {0, 4}, {0, 5}, {0, 6}}, []int{0, 6000, 6000, 6000, 6000, 6000}, []bool{F, T, T, T, T, T}),
		// an active group next to an idle one (the idle one loses its two rows, the active one fires with three)
		mk([][2]int{{0, 1}, {1, 1}, {1, 2}, {0, 2}, {0, 3}, {1, 3}}, []int{0, 0, 1000, 9000, 6000, 1000}, []bool{F, F, F, F, T, T}),
		// a gap exactly one step above the TTL and one below
		mk([][2]int{{0, 1}, {0, 2}, {0, 3}, {0, 4}, {0, 5}}, []int{0, 10000, 11000, 10000, 10000}, []bool{F, T, T, T, T}),
	}
}

func runC17(tier string, seed uint64, o *Out) error {
	// NewRNG(k+1) is the stream of NewRNG(k) advanced by one draw: spread the seeds far apart so that
	// different seeds give different case sets
	rng := NewRNG(seed * 0x100000001B3)
	nStep, nE2E, maxRows := 2500, 240, 40
	if tier == "thorough" {
		nStep, nE2E, maxRows = 40000, 2500, 60
	}
	var specs []c17Spec
	specs = append(specs, c17Corpus()...)
	ncorpus := len(specs)
	for i := 0; i < nStep; i++ {
		sp := c17Gen(rng, maxRows)
		if i%5 == 2 {
			c17MakeSpecial(&sp)
		}
		specs = append(specs, sp)
	}
	// WITH(STATETTL): an own random stream, so that the cases above are what they were before this family existed
	trng := NewRNG(seed*0x100000001B3 + 0x5151)
	nTTL := nStep / 5
	for _, t := range c17TTLCorpus() {
		specs = append(specs, t)
	}
	for i := 0; i < nTTL; i++ {
		specs = append(specs, c17GenTTL(trng, maxRows))
	}
	// nested column names: an own random stream again; the first nNestedE2E of them also through the public API
	nrng := NewRNG(seed*0x100000001B3 + 0x17F2)
	nNested, nNestedE2E := nStep/5, nE2E/6
	nestedFrom := len(specs)
	specs = append(specs, c17NestedCorpus()...)
	for i := 0; i < nNested; i++ {
		specs = append(specs, c17GenNested(nrng, maxRows))
	}
	type res struct {
		line  string
		extra string // the same case behind a two-row intake queue and a consumer that stalls (c17Slow)
		bind  string
		err   error
	}
	out := make([]res, len(specs))
	var wg sync.WaitGroup
	sem := make(chan struct{}, 12)
	for i := range specs {
		i := i
		e2e := i < ncorpus || i-ncorpus < nE2E || (i >= nestedFrom && i-nestedFrom < nNestedE2E)
		wg.Add(1)
		sem <- struct{}{}
		go func() {
			defer wg.Done()
			defer func() { <-sem }()
			s := specs[i]
			bind, obs, nres, err := c17Stepped(s)
			if err != nil {
				out[i] = res{err: err}
				return
			}
			if s.ttl > 0 {
				out[i] = res{line: c17Line(s, "T", bind, obs, ""), bind: bind}
				return
			}
			if !e2e {
				out[i] = res{line: c17Line(s, "S", bind, obs, ""), bind: bind}
				return
			}
			eo, err := c17E2E(s, nres)
			if err != nil {
				out[i] = res{err: err}
				return
			}
			out[i] = res{line: c17Line(s, "E", bind, obs, eo), bind: bind}
			if nres >= 2 && len(s.rows) >= 6 && !s.special {
				so, err := c17Slow(s, nres)
				if err != nil {
					out[i] = res{err: err}
					return
				}
				out[i].extra = c17Line(s, "E", bind, obs, so)
			}
		}()
	}
	wg.Wait()
	for i, r := range out {
		if r.err != nil {
			return r.err
		}
		o.Line("%s", r.line)
		if r.extra != "" {
			o.Line("%s", r.extra)
			o.Count("stalled_consumer_two_row_intake_queue")
		}
		s := specs[i]
		o.Count(fmt.Sprintf("groupcols_%d", s.ncols))
		o.Count(fmt.Sprintf("pred_calls_%d", len(s.pred.refs(nil))))
		o.Count("colnames_" + s.family)
		if s.special {
			o.Count("group_values_null_marker_empty_pipe_backslash")
		}
		if s.decoys > 0 {
			o.Count("nested_case_with_absent_path_and_toplevel_leaf_key")
		}
		// predicate calls over a column whose name has an upper-case letter, by binding
		bs := strings.Fields(r.bind)
		for j, c := range s.pred.refs(nil) {
			if c.fld >= 0 && c17HasUpper(s.fnames[c.fld]) && j < len(bs) {
				switch {
				case strings.HasPrefix(bs[j], "b"):
					o.Count("call_uppercase_column_bound")
				case bs[j] == "t":
					o.Count("call_uppercase_column_trigger_only")
				}
			}
		}
		if strings.HasPrefix(r.line, "C17 T") {
			o.Count("statettl_stepped")
			idle := false
			acc := map[string]int{}
			for j, row := range s.rows {
				for k := range acc {
					acc[k] += s.age[j]
				}
				if s.reap[j] {
					for _, v := range acc {
						if v > s.ttl {
							idle = true
						}
					}
				}
				acc[c17KeyTok(row.key)] = 0
			}
			if idle {
				o.Count("statettl_history_with_idle_group_at_tick")
			} else {
				o.Count("statettl_history_all_groups_active")
			}
		} else if strings.HasPrefix(r.line, "C17 E") {
			o.Count("e2e_public_api")
		} else {
			o.Count("stepped_only")
		}
	}
	o.Count("corpus_" + strconv.Itoa(ncorpus))
	return nil
}
