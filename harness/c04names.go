package main

// C04, output naming of the grouping columns ("every emitted row reports its tuple under the selected
// column names, NULL forming its own group"): SQL-level families whose grouping columns are selected
// under an AS alias, as function-valued keys with / without alias, source-qualified (s.k1) and
// join-qualified (m.loc1, value supplied by a LEFT JOIN: matched, matched with a NULL / absent column,
// unmatched), with NULL and missing grouping values in most batches. Every column of every result row
// is written out; the driver computes the output names with the extracted model (kn_outs), judges the
// exact SET of column names of each row (chk_row_names), reads the tuple under the output names and
// passes it through the grouping judgement of the T / G lines.
//
//   C04 N <tag> <T|G> <N> <ncols> <nrows> {id v..}
//       # <nquals> {qual} <ncols> {gf} <nsel> {expr alias} <naggs> {agg} <nsys> {sys}
//       # { <nnames> {name} <ngv> {name v} count first last nids ids.. }

import (
	"fmt"
	"sort"
	"strconv"
	"strings"
	"sync"
	"time"

	"github.com/rulego/streamsql"
)

type nameCol struct {
	shape string // plain | upper | sqrt | src | join
	gf    string // GROUP BY text
	sel   string // SELECT text (= gf; "" = the column is not selected)
	alias string // AS alias ("" = none)
	field string // the stream field (plain / upper / sqrt / src) or the table column (join)
}

type nameQuery struct {
	cols     []nameCol
	srcAlias string // FROM stream <srcAlias>
	srcAS    bool   // written with AS
	join     bool   // LEFT JOIN meta m ON dev = m.dev
	window   string // counting | global | tumbling | session
	n        int
	tag      string
}

var (
	nameAggsT = []string{"c", "ids", "fi", "la"}
	nameAggsG = []string{"c", "ids"}
	nameSys   = []string{"window_id", "window_start", "window_end"}
)

func (q nameQuery) mode() string {
	if q.window == "counting" || q.window == "global" {
		return "T"
	}
	return "G"
}

func (q nameQuery) aggs() []string {
	if q.mode() == "T" {
		return nameAggsT
	}
	return nameAggsG
}

func (q nameQuery) sql(rng *RNG) string {
	var items []string
	for _, c := range q.cols {
		if c.sel == "" {
			continue
		}
		it := c.sel
		if c.alias != "" {
			it += " AS " + c.alias
		}
		items = append(items, it)
	}
	aggs := []string{"count(*) AS c", "collect(id) AS ids"}
	if q.mode() == "T" {
		aggs = append(aggs, "first_value(id) AS fi", "last_value(id) AS la")
	}
	// the aggregates before, after or between the grouping columns
	switch rng.Intn(3) {
	case 0:
		items = append(items, aggs...)
	case 1:
		items = append(append([]string{}, aggs...), items...)
	default:
		items = append(append([]string{aggs[0]}, items...), aggs[1:]...)
	}
	from := "stream"
	if q.srcAlias != "" {
		if q.srcAS {
			from += " AS " + q.srcAlias
		} else {
			from += " " + q.srcAlias
		}
	}
	if q.join {
		on := "dev = m.dev"
		if q.srcAlias != "" && rng.Bool() {
			on = q.srcAlias + ".dev = m.dev"
		}
		from += " LEFT JOIN meta m ON " + on
	}
	gfs := make([]string, len(q.cols))
	for i, c := range q.cols {
		gfs[i] = c.gf
	}
	var win string
	switch q.window {
	case "counting":
		win = fmt.Sprintf("CountingWindow(%d)", q.n)
	case "global":
		win = fmt.Sprintf("GLOBAL WINDOW TRIGGER WHEN COUNT(*) >= %d", q.n)
	case "tumbling":
		win = "TumblingWindow('150ms')"
	default:
		win = "SessionWindow('120ms')"
	}
	return fmt.Sprintf("SELECT %s FROM %s GROUP BY %s, %s", strings.Join(items, ", "), from, strings.Join(gfs, ", "), win)
}

// naming section of the line: what the model's naming function needs
func (q nameQuery) namingTok() string {
	var parts []string
	var quals []string
	if q.srcAlias != "" {
		quals = append(quals, q.srcAlias)
	}
	if q.join {
		quals = append(quals, "m")
	}
	parts = append(parts, strconv.Itoa(len(quals)))
	for _, x := range quals {
		parts = append(parts, hexTok(x))
	}
	parts = append(parts, strconv.Itoa(len(q.cols)))
	for _, c := range q.cols {
		parts = append(parts, hexTok(c.gf))
	}
	nsel := 0
	var sel []string
	for _, c := range q.cols {
		if c.sel != "" {
			nsel++
			sel = append(sel, hexTok(c.sel), hexTok(c.alias))
		}
	}
	parts = append(parts, strconv.Itoa(nsel))
	parts = append(parts, sel...)
	parts = append(parts, strconv.Itoa(len(q.aggs())))
	for _, a := range q.aggs() {
		parts = append(parts, hexTok(a))
	}
	parts = append(parts, strconv.Itoa(len(nameSys)))
	for _, a := range nameSys {
		parts = append(parts, hexTok(a))
	}
	return strings.Join(parts, " ")
}

// one emitted result row, every column
type nameResult struct {
	names       []string // all column names, sorted
	gv          [][2]string
	count       int64
	first, last int64
	ids         []int64
	windowID    string
}

func isIn(x string, l []string) bool {
	for _, y := range l {
		if x == y {
			return true
		}
	}
	return false
}

func parseNameResult(m map[string]any, aggs []string) nameResult {
	r := nameResult{first: -1, last: -1, count: -1}
	for k := range m {
		r.names = append(r.names, k)
	}
	sort.Strings(r.names)
	for _, k := range r.names {
		if isIn(k, aggs) || isIn(k, nameSys) {
			continue
		}
		r.gv = append(r.gv, [2]string{k, anyTok(m[k])})
	}
	if v, ok := m["c"]; ok {
		r.count = anyInt(v)
	}
	if l, ok := m["ids"].([]any); ok {
		for _, x := range l {
			r.ids = append(r.ids, anyInt(x))
		}
	}
	if v, ok := m["fi"]; ok {
		r.first = anyInt(v)
	}
	if v, ok := m["la"]; ok {
		r.last = anyInt(v)
	}
	if w, ok := m["window_id"].(string); ok {
		r.windowID = w
	}
	return r
}

func (r nameResult) gvKey() string {
	parts := make([]string, len(r.gv))
	for i, p := range r.gv {
		parts[i] = hexTok(p[0]) + "=" + p[1]
	}
	return strings.Join(r.names, "\x00") + "\x01" + strings.Join(parts, " ")
}

func (r nameResult) tok() string {
	parts := []string{strconv.Itoa(len(r.names))}
	for _, n := range r.names {
		parts = append(parts, hexTok(n))
	}
	parts = append(parts, strconv.Itoa(len(r.gv)))
	for _, p := range r.gv {
		parts = append(parts, hexTok(p[0]), p[1])
	}
	parts = append(parts, strconv.FormatInt(r.count, 10), strconv.FormatInt(r.first, 10), strconv.FormatInt(r.last, 10), strconv.Itoa(len(r.ids)))
	for _, id := range r.ids {
		parts = append(parts, strconv.FormatInt(id, 10))
	}
	return strings.Join(parts, " ")
}

// ---- generation ---------------------------------------------------------------------------------
var nameAliases = []string{"dev", "a1", "Loc", "place", "grp_x", "z9", "u", "second"}

// a value domain of a column: what the stream (or the table) holds (raw) and the grouping value
type nameVal struct {
	raw any  // value stored; nil + has=true: explicit NULL; has=false: field absent
	has bool
	val gval // the grouping value (function keys: the function's value)
}

// nameDomain: the non-NULL values of a column and its two NULL carriers (explicit nil, field absent);
// no NULL carriers for a column that must not hold NULL.
func nameDomain(rng *RNG, shape string) (d []nameVal, null []nameVal) {
	null = []nameVal{{raw: nil, has: true, val: gval{kind: 'n'}}, {has: false, val: gval{kind: 'm'}}}
	switch shape {
	case "upperjoin", "uppersrc":
		// (function over a qualified column: the NULL semantics of the function are not the subject)
		null = nil
		for _, raw := range []string{"a", "A", "b", "ab", "c", "Cd"} {
			if rng.Intn(2) == 0 {
				d = append(d, nameVal{raw: raw, has: true, val: gval{kind: 's', s: strings.ToUpper(raw)}})
			}
		}
		if len(d) == 0 {
			d = append(d, nameVal{raw: "q", has: true, val: gval{kind: 's', s: "Q"}})
		}
	case "upper":
		// upper(NULL) and upper(missing) evaluate to "" (the function's value defines the group)
		null = []nameVal{{raw: nil, has: true, val: gval{kind: 's', s: ""}}, {has: false, val: gval{kind: 's', s: ""}}}
		for _, raw := range []string{"a", "A", "b", "a|b", "A|b", "x\x1fy", "", "ab", "\\N"} {
			if rng.Intn(3) == 0 {
				d = append(d, nameVal{raw: raw, has: true, val: gval{kind: 's', s: strings.ToUpper(raw)}})
			}
		}
	case "sqrt":
		// sqrt of NULL / missing fails to evaluate: the key is not materialised = the NULL group
		for _, p := range [][2]int64{{4, 2}, {9, 3}, {16, 4}, {0, 0}} {
			if rng.Intn(2) == 0 {
				d = append(d, nameVal{raw: int(p[0]), has: true, val: gval{kind: 'i', i: p[1]}})
			}
		}
	default:
		kind := []int{0, 0, 0, 1, 2, 3}[rng.Intn(6)]
		for i := 0; i < 1+rng.Intn(3); i++ {
			v := genVal(rng, kind)
			if v.kind == 'n' || v.kind == 'm' {
				continue
			}
			if kind == 0 && rng.Intn(3) == 0 {
				v = gval{kind: 's', s: rng.Pick([]string{"", "nil", "NULL", "\\N", "<nil>", "null"})}
			}
			x, _ := v.goValue()
			d = append(d, nameVal{raw: x, has: true, val: v})
		}
	}
	return d, null
}

func genNameQuery(rng *RNG, window string, join bool, sub string) nameQuery {
	q := nameQuery{window: window, join: join, n: 1 + rng.Intn(3)}
	if join {
		if rng.Intn(3) > 0 || sub == "fndot" {
			q.srcAlias = "s"
			q.srcAS = rng.Bool()
		}
	}
	if sub == "srcnojoin" { // a FROM alias without any JOIN
		q.srcAlias = "s"
		q.srcAS = rng.Bool()
	}
	ncols := 1 + rng.Intn(3)
	aliases := append([]string{}, nameAliases...)
	for i := len(aliases) - 1; i > 0; i-- {
		j := rng.Intn(i + 1)
		aliases[i], aliases[j] = aliases[j], aliases[i]
	}
	renamed := false
	for i := 0; i < ncols; i++ {
		var c nameCol
		f := colName(i)
		shapes := []string{"plain", "plain", "upper", "sqrt"}
		if join {
			shapes = append(shapes, "join", "join")
			if q.srcAlias != "" {
				shapes = append(shapes, "src", "src")
			}
		}
		if sub == "srcnojoin" {
			shapes = []string{"plain", "src", "src"}
			if i == 0 {
				shapes = []string{"src"}
			}
		}
		c.shape = shapes[rng.Intn(len(shapes))]
		if sub == "fndot" && i == 0 { // a function-valued key whose text holds a '.'
			c.shape = []string{"upperjoin", "uppersrc"}[rng.Intn(2)]
		}
		c.field = f
		switch c.shape {
		case "plain":
			c.gf = f
		case "upper":
			c.gf = "upper(" + f + ")"
		case "sqrt":
			c.gf = "sqrt(" + f + ")"
		case "src":
			c.gf = q.srcAlias + "." + f
		case "join":
			c.field = "loc" + strconv.Itoa(i+1)
			c.gf = "m." + c.field
		case "uppersrc":
			c.gf = "upper(" + q.srcAlias + "." + f + ")"
		case "upperjoin":
			c.field = "loc" + strconv.Itoa(i+1)
			c.gf = "upper(m." + c.field + ")"
		}
		c.sel = c.gf
		switch r := rng.Intn(10); {
		case r < 6:
			c.alias = aliases[i]
		case r < 7 && c.shape == "plain":
			c.sel = "" // grouped by, not selected: still reported (under its own name)
		}
		if c.alias != "" || c.shape == "src" || c.shape == "join" {
			renamed = true
		}
		q.cols = append(q.cols, c)
	}
	if !renamed { // the family is about renamed columns
		q.cols[0].sel = q.cols[0].gf
		q.cols[0].alias = aliases[0]
	}
	q.tag = "sql-names-" + window
	if join {
		q.tag = "sql-names-join-" + window
	}
	if sub == "srcnojoin" || sub == "fndot" {
		q.tag = "sql-names-" + sub + "-" + window
	}
	if sub == "clash" && !join {
		// an alias that is the GROUP BY text of ANOTHER column (which is itself renamed away, otherwise the
		// query is rejected as ambiguous): forward (earlier column takes the later column's text) or backward
		if ncols < 2 {
			q.cols = append(q.cols, nameCol{shape: "plain", gf: colName(1), sel: colName(1), field: colName(1)})
		}
		for i := range q.cols { // plain texts only, so that the alias is an identifier
			if q.cols[i].shape != "plain" {
				q.cols[i] = nameCol{shape: "plain", gf: colName(i), sel: colName(i), field: colName(i)}
			}
		}
		a, b := 0, 1
		if rng.Bool() {
			a, b = 1, 0
		}
		q.cols[a].sel, q.cols[a].alias = q.cols[a].gf, q.cols[b].gf
		q.cols[b].sel, q.cols[b].alias = q.cols[b].gf, aliases[len(aliases)-1]
		q.tag = "sql-names-clash-" + window
	}
	return q
}

type nameRow struct {
	id   int64
	vals []nameVal
}

// genNameRows: a pool of 2-5 tuples over the column domains with NULL / missing in about a third of the
// positions (and at least one NULL in a renamed column), rows drawn from it, interleaved.
func genNameRows(rng *RNG, q nameQuery, l int) []nameRow {
	doms := make([][]nameVal, len(q.cols))
	nulls := make([][]nameVal, len(q.cols))
	for i, c := range q.cols {
		doms[i], nulls[i] = nameDomain(rng, c.shape)
	}
	pick := func(i int) nameVal {
		if len(nulls[i]) > 0 && (rng.Intn(3) == 0 || len(doms[i]) == 0) {
			return nulls[i][rng.Intn(len(nulls[i]))]
		}
		return doms[i][rng.Intn(len(doms[i]))]
	}
	npool := 2 + rng.Intn(4)
	pool := make([][]nameVal, npool)
	for p := range pool {
		t := make([]nameVal, len(q.cols))
		for i := range t {
			t[i] = pick(i)
		}
		pool[p] = t
	}
	// the NULL group of a renamed column is in the pool
	for i, c := range q.cols {
		if (c.alias != "" || c.shape == "src" || c.shape == "join") && len(nulls[i]) > 0 {
			t := append([]nameVal{}, pool[rng.Intn(npool)]...)
			t[i] = nulls[i][rng.Intn(len(nulls[i]))]
			pool = append(pool, t)
			break
		}
	}
	rows := make([]nameRow, l)
	for r := range rows {
		t := append([]nameVal{}, pool[rng.Intn(len(pool))]...)
		for i := range t { // NULL and missing are one group: vary the carrier
			if len(nulls[i]) > 0 && (!t[i].has || t[i].raw == nil) && rng.Intn(3) == 0 {
				t[i] = nulls[i][rng.Intn(len(nulls[i]))]
			}
		}
		rows[r] = nameRow{id: int64(r + 1), vals: t}
	}
	return rows
}

// emitMaps: the stream rows and (join) the table. A joined column gets its value from the table row of
// the stream row's dev; a row whose joined columns are all NULL/missing may also be left unmatched.
func emitMaps(rng *RNG, q nameQuery, rows []nameRow) (stream []map[string]any, table []map[string]any) {
	devOf := map[string]string{}
	for _, r := range rows {
		m := map[string]any{"id": r.id}
		var jparts []string
		allNull := true
		trow := map[string]any{}
		for i, c := range q.cols {
			v := r.vals[i]
			if c.shape == "join" || c.shape == "upperjoin" {
				if v.has {
					trow[c.field] = v.raw
				}
				jparts = append(jparts, fmt.Sprintf("%v/%T/%v", v.has, v.raw, v.raw))
				if v.has && v.raw != nil {
					allNull = false
				}
				continue
			}
			if v.has {
				m[c.field] = v.raw
			}
		}
		if q.join {
			switch {
			case allNull && rng.Intn(3) == 0:
				m["dev"] = "unmatched" // LEFT JOIN without a match
			case allNull && rng.Intn(4) == 0:
				// no dev at all
			default:
				key := strings.Join(jparts, "\x00")
				dev, ok := devOf[key]
				if !ok {
					dev = "d" + strconv.Itoa(len(devOf))
					devOf[key] = dev
					trow["dev"] = dev
					table = append(table, trow)
				}
				m["dev"] = dev
			}
		}
		stream = append(stream, m)
	}
	if q.join && len(table) == 0 {
		table = append(table, map[string]any{"dev": "nobody"})
	}
	return
}

func nameRowsTok(rows []nameRow) string {
	parts := make([]string, 0, len(rows))
	for _, r := range rows {
		p := []string{strconv.FormatInt(r.id, 10)}
		for _, v := range r.vals {
			p = append(p, v.val.tok())
		}
		parts = append(parts, strings.Join(p, " "))
	}
	return strings.Join(parts, " ")
}

func runNameSQL(sql string, q nameQuery, stream, table []map[string]any, done func([]nameResult) bool, maxWait time.Duration) ([]nameResult, error) {
	s := streamsql.New()
	defer s.Stop()
	if err := s.Execute(sql); err != nil {
		return nil, fmt.Errorf("%s: %w", sql, err)
	}
	if q.join {
		if _, err := s.RegisterTable("meta", table); err != nil {
			return nil, fmt.Errorf("%s: table: %w", sql, err)
		}
	}
	var mu sync.Mutex
	var out []nameResult
	s.AddSyncSink(func(res []map[string]any) {
		mu.Lock()
		defer mu.Unlock()
		batch := make([]nameResult, 0, len(res))
		for _, r := range res {
			batch = append(batch, parseNameResult(r, q.aggs()))
		}
		sort.SliceStable(batch, func(i, j int) bool {
			a, b := int64(-1), int64(-1)
			if len(batch[i].ids) > 0 {
				a = batch[i].ids[0]
			}
			if len(batch[j].ids) > 0 {
				b = batch[j].ids[0]
			}
			return a < b
		})
		out = append(out, batch...)
	})
	for _, m := range stream {
		s.Emit(m)
	}
	maxWait = waitLimit(maxWait)
	deadline := time.Now().Add(maxWait)
	for {
		mu.Lock()
		ok := done(out)
		mu.Unlock()
		if ok {
			break
		}
		if time.Now().After(deadline) {
			chargeWait(maxWait)
			break
		}
		time.Sleep(200 * time.Microsecond)
	}
	mu.Lock()
	defer mu.Unlock()
	return append([]nameResult(nil), out...), nil
}

// mergeNameResults: a batch of a time window may be cut by the clock: results with the same columns and
// the same values in DIFFERENT windows are merged; results of one window stay separate.
func mergeNameResults(res []nameResult) []nameResult {
	var out []nameResult
	for _, g := range res {
		merged := false
		for i := range out {
			if out[i].gvKey() == g.gvKey() && !strings.Contains(" "+out[i].windowID+" ", " "+g.windowID+" ") {
				out[i].ids = append(out[i].ids, g.ids...)
				out[i].count += g.count
				out[i].windowID += " " + g.windowID
				merged = true
				break
			}
		}
		if !merged {
			out = append(out, g)
		}
	}
	for i := range out {
		sort.Slice(out[i].ids, func(a, b int) bool { return out[i].ids[a] < out[i].ids[b] })
	}
	sort.SliceStable(out, func(i, j int) bool { return len(out[i].ids) > 0 && len(out[j].ids) > 0 && out[i].ids[0] < out[j].ids[0] })
	return out
}

// namesCase runs one query of the family and returns its case line.
func namesCase(rng *RNG, window string, join bool, sub string) (string, string, error) {
	q := genNameQuery(rng, window, join, sub)
	l := rng.Intn(6*q.n + 1)
	if q.mode() == "G" {
		l = 2 + rng.Intn(12)
	} else if rng.Intn(3) == 0 {
		l = q.n * (1 + rng.Intn(5))
	}
	rows := genNameRows(rng, q, l)
	stream, table := emitMaps(rng, q, rows)
	sql := q.sql(rng)
	var done func([]nameResult) bool
	if q.mode() == "T" {
		cnt := map[string]int{}
		for _, r := range rows {
			parts := make([]string, len(r.vals))
			for i, v := range r.vals {
				parts[i] = v.val.tok()
				if parts[i] == "m" {
					parts[i] = "n"
				}
			}
			cnt[strings.Join(parts, " ")]++
		}
		want := 0
		for _, c := range cnt {
			want += c / q.n
		}
		done = func(r []nameResult) bool { return len(r) >= want }
	} else {
		done = func(res []nameResult) bool {
			n := 0
			for _, g := range res {
				n += len(g.ids)
			}
			return n >= len(rows)
		}
	}
	res, err := runNameSQL(sql, q, stream, table, done, 3*time.Second)
	if err != nil {
		return "", "", err
	}
	if q.mode() == "G" {
		res = mergeNameResults(res)
	}
	parts := make([]string, len(res))
	for i, r := range res {
		parts[i] = r.tok()
	}
	n := q.n
	if q.mode() == "G" {
		n = 0
	}
	line := fmt.Sprintf("C04 N %s %s %d %d %d %s # %s # %s", q.tag, q.mode(), n, len(q.cols), len(rows), nameRowsTok(rows), q.namingTok(), strings.Join(parts, " "))
	return strings.TrimRight(line, " "), q.tag, nil
}

// namesCases: the untimed (counting / global) queries sequentially, the timed ones concurrently.
func namesCases(rng *RNG, seed uint64, o *Out, nT, nG int) error {
	for i := 0; i < nT; i++ {
		window, join, sub := "counting", false, ""
		switch i % 4 {
		case 1:
			window = "global"
		case 2:
			window, join = "global", true
		case 3:
			switch i % 32 {
			case 3, 19:
				window, sub = "global", "clash"
			case 7:
				window, sub = "counting", "srcnojoin"
			case 23:
				window, sub = "global", "srcnojoin"
			case 11, 27:
				window, join, sub = "global", true, "fndot"
			}
		}
		line, tag, err := namesCase(rng, window, join, sub)
		if err != nil {
			return err
		}
		o.Line("%s", line)
		o.Count(tag)
	}
	var mu sync.Mutex
	tags := make([]string, nG)
	lines, err := parallel(nG, 12, func(i int) (string, error) {
		window := "tumbling"
		if i%2 == 1 {
			window = "session"
		}
		line, tag, err := namesCase(NewRNG(seed*9000011+uint64(i)+41), window, i%3 == 2, "")
		mu.Lock()
		tags[i] = tag
		mu.Unlock()
		return line, err
	})
	if err != nil {
		return err
	}
	for i, l := range lines {
		o.Line("%s", l)
		o.Count(tags[i])
	}
	return nil
}
