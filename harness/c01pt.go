package main

import (
	"fmt"
	"sort"
	"strings"
	"sync"
	"time"

	"github.com/rulego/streamsql"
)

// SQL-level processing-time tumbling windows (public API, the real ticker): rows are emitted at random wall-clock
// moments; every row must be reported exactly once, in a size-aligned interval that does not end before the moment its
// Emit began (the row's clock is read after that), no (group, interval) twice. Judged here on the implementation's
// own rows; line: C01 R <size ms> ok|viol ...
func ptSQLCase(rng *RNG) (int64, string) {
	sizeMs := []int64{150, 200, 400}[rng.Intn(3)]
	s := streamsql.New(streamsql.WithDiscardLog())
	defer s.Stop()
	sql := fmt.Sprintf("SELECT k, collect(id) AS ids, count(*) AS c, window_start() AS ws, window_end() AS we FROM stream GROUP BY k, TumblingWindow('%dms')", sizeMs)
	if err := s.Execute(sql); err != nil {
		return sizeMs, "viol execute " + err.Error()
	}
	type res struct {
		key, ws, we, c int64
		ids            []int64
	}
	var mu sync.Mutex
	var got []res
	var malformed string
	s.AddSyncSink(func(rs []map[string]any) {
		mu.Lock()
		defer mu.Unlock()
		for _, r := range rs {
			k, ok1 := asInt(r["k"])
			ws, ok2 := asInt(r["ws"])
			we, ok3 := asInt(r["we"])
			c, ok4 := asInt(r["c"])
			l, ok5 := r["ids"].([]any)
			if !(ok1 && ok2 && ok3 && ok4 && ok5) {
				malformed = fmt.Sprintf("malformed result %v", r)
				continue
			}
			x := res{key: k, ws: ws, we: we, c: c}
			for _, v := range l {
				i, _ := asInt(v)
				x.ids = append(x.ids, i)
			}
			got = append(got, x)
		}
	})
	n := 10 + rng.Intn(25)
	before := make(map[int64]int64, n)
	keyOf := make(map[int64]int64, n)
	for i := 1; i <= n; i++ {
		// pauses around the window size: rows just before / after a boundary, bursts, gaps of several windows
		switch rng.Intn(6) {
		case 0:
			time.Sleep(time.Duration(sizeMs+int64(rng.Intn(int(sizeMs)))) * time.Millisecond)
		case 1:
			now := time.Now().UnixMilli()
			time.Sleep(time.Duration((now/sizeMs+1)*sizeMs-now) * time.Millisecond) // right at a boundary
		case 2, 3:
			time.Sleep(time.Duration(rng.Intn(int(sizeMs)/2+1)) * time.Millisecond)
		}
		k := int64(1 + rng.Intn(2))
		before[int64(i)] = time.Now().UnixNano()
		keyOf[int64(i)] = k
		s.Emit(map[string]any{"id": int64(i), "k": k})
	}
	deadline := time.Now().Add(time.Duration(4*sizeMs+5000) * time.Millisecond)
	for time.Now().Before(deadline) {
		mu.Lock()
		seen := 0
		for _, r := range got {
			seen += len(r.ids)
		}
		mu.Unlock()
		if seen >= n {
			break
		}
		time.Sleep(50 * time.Millisecond)
	}
	time.Sleep(time.Duration(sizeMs+100) * time.Millisecond) // anything delivered twice shows up now
	mu.Lock()
	defer mu.Unlock()
	var viol []string
	size := sizeMs * int64(time.Millisecond)
	count := map[int64]int{}
	slots := map[string]bool{}
	for _, r := range got {
		if r.we != r.ws+size || r.ws%size != 0 {
			viol = append(viol, fmt.Sprintf("result interval [%d,%d) is not a %d ms aligned interval", r.ws, r.we, sizeMs))
		}
		sk := fmt.Sprintf("%d/%d", r.key, r.ws)
		if slots[sk] {
			viol = append(viol, fmt.Sprintf("group %d interval starting %d reported twice", r.key, r.ws))
		}
		slots[sk] = true
		if r.c != int64(len(r.ids)) {
			viol = append(viol, fmt.Sprintf("count %d but %d ids", r.c, len(r.ids)))
		}
		for _, id := range r.ids {
			count[id]++
			if keyOf[id] != r.key {
				viol = append(viol, fmt.Sprintf("row %d of group %d reported in group %d", id, keyOf[id], r.key))
			}
			if b, ok := before[id]; ok && r.we <= b {
				viol = append(viol, fmt.Sprintf("row %d was emitted after its reported interval had ended (%d ns after)", id, b-r.we))
			}
		}
	}
	var lost, dup []string
	for i := int64(1); i <= int64(n); i++ {
		switch c := count[i]; {
		case c == 0:
			lost = append(lost, fmt.Sprint(i))
		case c > 1:
			dup = append(dup, fmt.Sprint(i))
		}
	}
	if len(lost) > 0 {
		viol = append(viol, fmt.Sprintf("rows never reported: %s of %d", strings.Join(lost, ","), n))
	}
	if len(dup) > 0 {
		viol = append(viol, "rows reported twice: "+strings.Join(dup, ","))
	}
	if malformed != "" {
		viol = append(viol, malformed)
	}
	if len(viol) > 0 {
		sort.Strings(viol)
		if len(viol) > 6 {
			viol = viol[:6]
		}
		return sizeMs, "viol " + strings.Join(viol, "; ")
	}
	return sizeMs, "ok"
}

func ptSQLCases(o *Out, rng *RNG, ncases int) {
	type job struct {
		size int64
		res  string
	}
	jobs := make([]job, ncases)
	seeds := make([]uint64, ncases)
	for i := range seeds {
		seeds[i] = rng.Next()
	}
	var wg sync.WaitGroup
	for i := range jobs {
		i := i
		wg.Add(1)
		go func() {
			defer wg.Done()
			jobs[i].size, jobs[i].res = ptSQLCase(&RNG{s: seeds[i]})
		}()
	}
	wg.Wait()
	for _, j := range jobs {
		o.Line("C01 R %d %s", j.size, j.res)
		o.Count("sql-level processing time (real ticker)")
	}
}
