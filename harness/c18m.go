package main

// C18 M -- "concurrent Emit / EmitSync ... never race on memory, for every query kind": the state a query keeps per
// instance (analytic state machines, their partitions and the last result a row that fails OVER (WHEN ...) re-reads,
// the MATCH_RECOGNIZE engine, window buffers, group tables, sink lists, statistics) is shared by the pipeline goroutine
// (Emit) and by EVERY EmitSync caller, which evaluates on its own goroutine. The families R / W / B / K use a handful of
// paced calls and judge the lifecycle; this family makes several goroutines call EmitSync / Emit on ONE instance as fast
// as they can, with rows whose gate outcomes differ between and within goroutines.
//
// Data races are not expressible in the protocol model (see level_note); the family is an implementation-level test
// with two judges: the Go runtime (a fault it does not let anybody recover from, e.g. `fatal error: concurrent map read
// and map write`, ends the process) and the race detector (the family is run a second time in a binary built with
// -race, also in the quick tier), plus a differential: when every goroutine owns its partition, the answers a
// goroutine gets are a function of ITS rows alone, so they must equal what a private instance of the same query, used
// by one goroutine only, answers for the same rows (memory_race_wrong_result).
//
// Because the runtime's fatal errors cannot be recovered, the family runs in a CHILD PROCESS of the same binary (runner
// "C18Mchild", as C12 K does); the parent turns a dead child into a case line:
//   C18 M <mode> <kind> <strategy> <nsync> <nemit> <ops> <gates> <extras> # done <calls> <mismatches> <panics> <leak> [<w>:<i>:<row>:<want>:<got>]
//   C18 M ... # to                     a call of the hammer (or the Stop after it) did not return
//   C18 MX <mode> <kind> <strategy> <nsync> <nemit> <ops> <gates> <extras> # <what> <diagnostics, hex>
//       what = crashed (the process died while this case was running; diagnostics = the runtime's `fatal error:` /
//       `panic:` line), race (the race detector stopped it; diagnostics = the two conflicting accesses), timeout
//   mode   p = plain build, r = built with the race detector
//   gates  per EmitSync goroutine (then per Emit goroutine) the percentage of its rows that pass the gate v > 0
//   extras letters: g GetStats reader, a AddSink caller, t TriggerWindow caller, x a Stop that overlaps the hammer
// On a correct implementation the M lines are a function of the seed.

import (
	"bufio"
	"context"
	"fmt"
	"os"
	"os/exec"
	"path/filepath"
	"runtime"
	"strconv"
	"strings"
	"sync"
	"sync/atomic"
	"time"
)

type c18mKind struct {
	name, sql string
	sync      bool // EmitSync is available (direct path); otherwise producers only
	part      bool // every goroutine owns its partition: its answers are a function of its own rows
}

// query kinds with state shared between the callers of one instance. v > 0 is the gate everywhere (WHERE or WHEN).
var c18mKinds = []c18mKind{
	{"direct", "SELECT id, g, v FROM stream WHERE v > 0", true, true},
	{"anone", "SELECT id, lag(v) AS p, latest(v) AS l FROM stream", true, false},
	{"awhen", "SELECT id, lag(v) OVER (WHEN v > 0) AS p FROM stream", true, false},
	{"awhen2", "SELECT id, acc_sum(v) OVER (WHEN v > 0) AS t, lag(w) OVER (WHEN w > 0) AS q FROM stream WHERE v > -2", true, false},
	{"apart", "SELECT id, g, lag(v) OVER (PARTITION BY g) AS p, acc_count(v) OVER (PARTITION BY g) AS c FROM stream", true, true},
	{"apwhen", "SELECT id, g, lag(v) OVER (PARTITION BY g WHEN v > 0) AS p, acc_sum(v) OVER (PARTITION BY g WHEN v > 0) AS t FROM stream", true, true},
	{"awrap", "SELECT id, g, v - lag(v) OVER (PARTITION BY g WHEN v > 0) AS d FROM stream", true, true},
	{"awhere", "SELECT id, g, v FROM stream WHERE lag(v) OVER (PARTITION BY g WHEN v > 0) < v", true, true},
	{"ahad", "SELECT id, g, lag(v) OVER (WHEN had_changed(true, w)) AS p FROM stream", true, false},
	{"acols", "SELECT id, changed_cols(\"c_\", true, v, w) FROM stream", true, false},
	{"cep", c18Kinds["cep"], false, false},
	{"cepopen", c18Kinds["cepopen"], false, false},
	{"ceppart", "SELECT * FROM stream MATCH_RECOGNIZE (PARTITION BY g ORDER BY ts MEASURES COUNT(*) AS n ONE ROW PER MATCH PATTERN (A+ B) DEFINE A AS v > 0, B AS v <= 0)", false, false},
	{"tumbling", "SELECT g, count(*) AS c, max(v) AS m FROM stream WHERE v > -3 GROUP BY g, TumblingWindow('20ms')", false, false},
	{"sliding", "SELECT g, count(*) AS c, max(v) AS m FROM stream WHERE v > -3 GROUP BY g, SlidingWindow('40ms','20ms')", false, false},
	{"session", "SELECT g, count(*) AS c FROM stream WHERE v > -3 GROUP BY g, SessionWindow('20ms')", false, false},
	{"tumblingE", c18Kinds["tumblingE"], false, false},
	{"sessionE", c18Kinds["sessionE"], false, false},
	{"counting", "SELECT g, count(*) AS c, max(v) AS m FROM stream WHERE v > -3 GROUP BY g, CountingWindow(3)", false, false},
	{"global", "SELECT count(*) AS c FROM stream WHERE v > -3 GROUP BY GLOBAL WINDOW TRIGGER WHEN COUNT(*) >= 3", false, false},
}

type c18mCase struct {
	mode   string
	k      c18mKind
	strat  string
	nsync  int
	nemit  int
	ops    int
	gates  []int
	extras string
	seed   uint64
}

func (c c18mCase) desc() string {
	g := make([]string, len(c.gates))
	for i, p := range c.gates {
		g[i] = strconv.Itoa(p)
	}
	ex := c.extras
	if ex == "" {
		ex = "-"
	}
	return fmt.Sprintf("%s %s %s %d %d %d %s %s", c.mode, c.k.name, c.strat, c.nsync, c.nemit, c.ops, strings.Join(g, ","), ex)
}

func c18mRow(r *RNG, lab string, i, pass int) map[string]any {
	v := 1 + r.Intn(50)
	if r.Intn(100) >= pass {
		v = -r.Intn(4)
	}
	return map[string]any{"id": i, "g": lab, "v": v, "w": r.Intn(3) - 1}
}

func c18mCopy(row map[string]any) map[string]any {
	m := make(map[string]any, len(row)+1)
	for k, v := range row {
		m[k] = v
	}
	return m
}

func c18mCanon(res map[string]any, err error) string {
	if err != nil {
		return "E:" + err.Error()
	}
	if res == nil {
		return "nil"
	}
	return fmt.Sprint(res) // maps print with sorted keys
}

// c18mGates: the gate percentages of n goroutines; with two or more, one mostly passes and one mostly fails, so that
// rows which update the shared state and rows which only read it meet.
func c18mGates(r *RNG, n int) []int {
	pool := []int{100, 0, 50, 90, 10, 100, 0}
	g := make([]int, n)
	for i := range g {
		g[i] = pool[r.Intn(len(pool))]
	}
	if n >= 2 {
		a := r.Intn(n)
		b := (a + 1 + r.Intn(n-1)) % n
		g[a], g[b] = []int{100, 90}[r.Intn(2)], []int{0, 10}[r.Intn(2)]
	}
	return g
}

func genC18M(rng *RNG, mode string, k c18mKind, strat string, ops int) c18mCase {
	c := c18mCase{mode: mode, k: k, strat: strat, ops: ops, seed: rng.Next() % 1000000}
	if k.sync {
		c.nsync = 2 + rng.Intn(5)
		c.nemit = rng.Intn(3)
	} else {
		c.nemit = 2 + rng.Intn(3)
		c.ops = ops / 4 // every row goes through the data channel and the window / engine
		if c.ops < 20 {
			c.ops = 20
		}
	}
	c.gates = c18mGates(rng, c.nsync+c.nemit)
	if rng.Intn(3) > 0 {
		c.extras += "g"
	}
	if rng.Intn(3) == 0 {
		c.extras += "a"
	}
	if !k.sync && rng.Bool() {
		c.extras += "t"
	}
	if !k.part && rng.Intn(3) == 0 {
		c.extras += "x"
	}
	return c
}

func runC18M(c c18mCase) (string, error) {
	rng := NewRNG(c.seed)
	base := runtime.NumGoroutine()
	chanSize := []int{4, 64, 1024}[rng.Intn(3)]
	s, err := c18NewCfg(c.k.sql, c.strat, chanSize, 8, 2, 0)
	if err != nil {
		return "", err
	}
	var sunk int64
	sink := func(rows []map[string]any) { atomic.AddInt64(&sunk, int64(len(rows))) }
	if rng.Bool() {
		s.AddSink(sink)
	} else {
		s.AddSyncSink(sink)
	}
	// the rows of the EmitSync goroutines, and (partitioned kinds) what a private instance answers for them
	rows := make([][]map[string]any, c.nsync)
	want := make([][]string, c.nsync)
	for w := range rows {
		r := NewRNG(rng.Next())
		for i := 0; i < c.ops; i++ {
			rows[w] = append(rows[w], c18mRow(r, "s"+strconv.Itoa(w), i, c.gates[w]))
		}
	}
	if c.k.part {
		priv, err := c18NewCfg(c.k.sql, c.strat, chanSize, 8, 2, 0)
		if err != nil {
			s.Stop()
			return "", err
		}
		for w := range rows {
			for _, row := range rows[w] {
				want[w] = append(want[w], c18mCanon(priv.EmitSync(c18mCopy(row))))
			}
		}
		priv.Stop()
	}
	var wg, aux sync.WaitGroup
	start := make(chan struct{})
	var over atomic.Bool
	var mism, panics, calls int64
	var firstMu sync.Mutex
	first := ""
	for w := 0; w < c.nsync; w++ {
		w := w
		wg.Add(1)
		go func() {
			defer wg.Done()
			<-start
			for i, row := range rows[w] {
				got := "P"
				func() {
					defer func() {
						if e := recover(); e != nil {
							atomic.AddInt64(&panics, 1) // a panic escaped EmitSync into its caller
						}
					}()
					got = c18mCanon(s.EmitSync(c18mCopy(row)))
				}()
				atomic.AddInt64(&calls, 1)
				if c.k.part && got != want[w][i] && got != "P" {
					if atomic.AddInt64(&mism, 1) == 1 {
						firstMu.Lock()
						first = fmt.Sprintf("%d:%d:%s:%s:%s", w, i, hx(fmt.Sprint(row)), hx(want[w][i]), hx(got))
						firstMu.Unlock()
					}
				}
			}
		}()
	}
	for e := 0; e < c.nemit; e++ {
		e := e
		r := NewRNG(rng.Next())
		wg.Add(1)
		go func() {
			defer wg.Done()
			<-start
			lab := "e" + strconv.Itoa(e)
			for i := 0; i < c.ops; i++ {
				row := c18mRow(r, lab, i, c.gates[c.nsync+e])
				row["ts"] = time.Now().UnixMilli()
				func() {
					defer func() {
						if e := recover(); e != nil {
							atomic.AddInt64(&panics, 1)
						}
					}()
					s.Emit(row)
				}()
				if i%32 == 31 {
					runtime.Gosched()
				}
			}
		}()
	}
	side := func(every time.Duration, f func()) {
		aux.Add(1)
		go func() {
			defer aux.Done()
			<-start
			for !over.Load() {
				f()
				time.Sleep(every)
			}
		}()
	}
	if strings.Contains(c.extras, "g") {
		side(40*time.Microsecond, func() { _ = s.GetStats() })
	}
	if strings.Contains(c.extras, "t") {
		side(700*time.Microsecond, func() { s.TriggerWindow() })
	}
	if strings.Contains(c.extras, "a") {
		n := 0
		side(900*time.Microsecond, func() {
			if n++; n <= 3 {
				if n%2 == 0 {
					s.AddSink(sink)
				} else {
					s.AddSyncSink(sink)
				}
			}
		})
	}
	if strings.Contains(c.extras, "x") {
		d := time.Duration(200+rng.Intn(3000)) * time.Microsecond
		aux.Add(1)
		go func() {
			defer aux.Done()
			<-start
			time.Sleep(d)
			s.Stop()
		}()
	}
	close(start)
	ok := callWithin(30*time.Second, wg.Wait)
	over.Store(true)
	ok = ok && callWithin(10*time.Second, aux.Wait)
	ok = ok && callWithin(10*time.Second, func() {
		if !c.k.sync {
			time.Sleep(3 * time.Millisecond) // let a window fire while nothing else runs
		}
		s.Stop()
		s.Emit(map[string]any{"id": -1, "g": "z", "v": 1, "w": 1, "ts": time.Now().UnixMilli()})
		_ = s.GetStats()
	})
	if !ok {
		return fmt.Sprintf("C18 M %s # to", c.desc()), nil
	}
	leak := 0
	if waitGoroutines(base, 3*time.Second) > base {
		leak = 1
	}
	l := fmt.Sprintf("C18 M %s # done %d %d %d %d", c.desc(), atomic.LoadInt64(&calls), atomic.LoadInt64(&mism), atomic.LoadInt64(&panics), leak)
	firstMu.Lock()
	defer firstMu.Unlock()
	if first != "" {
		l += " " + first
	}
	return l, nil
}

func init() { runners["C18Mchild"] = runC18MChild }

// runC18MChild: `harness C18Mchild <tier> <seed> <outfile>`; tier race = this binary was built with -race.
func runC18MChild(tier string, seed uint64, o *Out) error {
	rng := &RNG{s: seed}
	if prev := runtime.GOMAXPROCS(0); prev < 4 {
		runtime.GOMAXPROCS(4)
		defer runtime.GOMAXPROCS(prev)
	}
	mode, ops, per := "p", 6000, 1
	switch tier {
	case "thorough":
		ops, per = 20000, 3
	case "race":
		mode, ops = "r", 300
	case "racethorough":
		mode, ops, per = "r", 1500, 3
	}
	strategies := []string{"drop", "block", "expand"}
	var cases []c18mCase
	for _, k := range c18mKinds {
		for i := 0; i < per; i++ {
			cases = append(cases, genC18M(rng, mode, k, strategies[rng.Intn(3)], ops))
		}
	}
	// the kinds with an OVER (WHEN ...) gate once more, EmitSync callers only / with producers
	for _, k := range c18mKinds {
		if k.sync && strings.Contains(k.sql, "WHEN") {
			c := genC18M(rng, mode, k, strategies[rng.Intn(3)], ops)
			c.nemit = 1 - c.nemit%2
			c.extras = strings.ReplaceAll(c.extras, "x", "")
			c.gates = c18mGates(rng, c.nsync+c.nemit)
			cases = append(cases, c)
		}
	}
	for _, c := range cases {
		o.Line("#B %s", c.desc())
		o.w.Flush()
		l, err := runC18M(c)
		if err != nil {
			return err
		}
		o.Line("%s", l)
		o.Line("#E %s", c.k.name)
		o.w.Flush()
		if strings.HasSuffix(l, "# to") {
			break
		}
	}
	return nil
}

// c18RaceBuild starts `go build -race` of this harness (no goroutine is created: the output goes to a file) and
// returns a function that waits for it and gives the path of the binary ("" = the detector is not available here).
func c18RaceBuild() func() string {
	exe, err := os.Executable()
	if err != nil {
		return func() string { return "" }
	}
	src := filepath.Join(filepath.Dir(filepath.Dir(exe)), "harness")
	bin := filepath.Join(filepath.Dir(exe), "harness_race")
	logf, err := os.CreateTemp("", "c18race*.log")
	if err != nil {
		return func() string { return "" }
	}
	build := exec.Command("go", "build", "-race", "-tags", "verif", "-o", bin, ".")
	build.Dir = src
	build.Env = append(os.Environ(), "CGO_ENABLED=1")
	build.Stdout, build.Stderr = logf, logf
	if err := build.Start(); err != nil {
		logf.Close()
		os.Remove(logf.Name())
		return func() string { return "" }
	}
	return func() string {
		err := build.Wait()
		logf.Close()
		defer os.Remove(logf.Name())
		if err != nil {
			out, _ := os.ReadFile(logf.Name())
			fmt.Fprintf(os.Stderr, "C18: go build -race failed, family M runs without the race detector: %v\n%s\n", err, out)
			return ""
		}
		return bin
	}
}

// c18mRaceSummary: the two conflicting accesses of the detector's first report: kind of access and the first frame
// outside the Go runtime, e.g. "Read stream.(*analyticFieldEngine).evaluate analytic.go:146 / Previous write ...".
func c18mRaceSummary(diag string) (string, bool) {
	var parts []string
	harnessOnly := true
	lines := strings.Split(diag, "\n")
	for i := 0; i < len(lines) && len(parts) < 2; i++ {
		l := strings.TrimSpace(lines[i])
		isAcc := (strings.HasPrefix(l, "Read at") || strings.HasPrefix(l, "Write at") || strings.HasPrefix(l, "Previous read at") ||
			strings.HasPrefix(l, "Previous write at") || strings.HasPrefix(l, "Atomic") || strings.HasPrefix(l, "Previous atomic")) && strings.Contains(l, " by ")
		if !isAcc {
			continue
		}
		what := l[:strings.Index(l, " at ")]
		frame := "?"
		for j := i + 1; j+1 < len(lines) && strings.TrimSpace(lines[j]) != ""; j += 2 {
			fn := strings.TrimSpace(lines[j])
			if strings.HasPrefix(fn, "runtime.") || strings.HasPrefix(fn, "sync.") || strings.HasPrefix(fn, "sync/atomic.") || strings.HasPrefix(fn, "internal/") {
				continue
			}
			loc := strings.Fields(strings.TrimSpace(lines[j+1]))
			at := ""
			if len(loc) > 0 {
				at = " " + filepath.Base(loc[0])
			}
			fn = strings.TrimSuffix(fn, "()")
			if !strings.HasPrefix(fn, "main.") {
				harnessOnly = false
			}
			frame = strings.TrimPrefix(fn, "github.com/rulego/streamsql/") + at
			break
		}
		parts = append(parts, what+" "+frame)
	}
	return strings.Join(parts, " / "), harnessOnly && len(parts) > 0
}

// runC18MFamily (parent): one child of exe with the given child tier; copies its lines, turns its death into a line.
func runC18MFamily(exe, childTier string, seed uint64, limit time.Duration, o *Out) error {
	f, err := os.CreateTemp("", "c18m*.txt")
	if err != nil {
		return err
	}
	f.Close()
	defer os.Remove(f.Name())
	ctx, cancel := context.WithTimeout(context.Background(), limit)
	defer cancel()
	cmd := exec.CommandContext(ctx, exe, "C18Mchild", childTier, strconv.FormatUint(seed, 10), f.Name())
	cmd.Env = append(os.Environ(), "GOTRACEBACK=single", "GORACE=halt_on_error=1 exitcode=66")
	diag, runErr := cmd.CombinedOutput()
	data, err := os.ReadFile(f.Name())
	if err != nil {
		return err
	}
	tag := "memory/"
	if strings.HasPrefix(childTier, "race") {
		tag = "memory_race_detector/"
	}
	open := ""
	sc := bufio.NewScanner(strings.NewReader(string(data)))
	sc.Buffer(make([]byte, 1<<20), 1<<26)
	for sc.Scan() {
		l := sc.Text()
		switch {
		case strings.HasPrefix(l, "#B "):
			open = strings.TrimPrefix(l, "#B ")
		case strings.HasPrefix(l, "#E "):
			o.Count(tag + strings.TrimPrefix(l, "#E "))
			open = ""
		case strings.HasPrefix(l, "C18 M ") && strings.Contains(l, " # "):
			o.Line("%s", l)
		}
	}
	if runErr == nil {
		return nil
	}
	what, first := "crashed", ""
	sdiag := string(diag)
	switch {
	case ctx.Err() != nil:
		what = "timeout"
	case strings.Contains(sdiag, "WARNING: DATA RACE"):
		var harnessOnly bool
		what = "race"
		if first, harnessOnly = c18mRaceSummary(sdiag); harnessOnly {
			return fmt.Errorf("C18 M child: data race inside the harness itself: %s", first)
		}
	}
	if first == "" {
		for _, l := range strings.Split(sdiag, "\n") {
			if l = strings.TrimSpace(l); l != "" && first == "" {
				first = l
			}
			if strings.HasPrefix(l, "fatal error:") || strings.HasPrefix(l, "panic:") || strings.HasPrefix(l, "harness error:") {
				first = l
				break
			}
		}
	}
	if open == "" || strings.HasPrefix(first, "harness error:") { // not while a case was running: a defect of the harness itself
		return fmt.Errorf("C18 M child (%s): %v: %s", childTier, runErr, first)
	}
	if len(first) > 300 {
		first = first[:300]
	}
	o.Line("C18 MX %s # %s %s", open, what, hx(first))
	o.Count(tag + "child_" + what)
	return nil
}

// runC18Memory: family M in a plain child, then in a child built with the race detector (raceBin: "" = not available;
// tier race = this process itself is the race build).
func runC18Memory(tier string, seed uint64, raceBin func() string, o *Out) error {
	exe, err := os.Executable()
	if err != nil {
		return err
	}
	limit := 90 * time.Second
	if tier == "thorough" {
		limit = 15 * time.Minute
	}
	cseed := NewRNG(seed^0x4d18).Next() ^ 0xC18C18C18
	if tier == "race" {
		return runC18MFamily(exe, "race", cseed, limit, o)
	}
	if err := runC18MFamily(exe, tier, cseed, limit, o); err != nil {
		return err
	}
	bin := raceBin()
	if bin == "" {
		o.Count("race_detector_unavailable")
		return nil
	}
	rt := "race"
	if tier == "thorough" {
		rt = "racethorough"
	}
	return runC18MFamily(bin, rt, cseed+1, limit, o)
}
