package main

// C04: float grouping keys that are close together, and the collision search over the real encoders.
//
//  1. nearFloats / floatTuples: grouping columns whose values are DISTINCT non-integral float64 that agree in
//     their leading 7-8 significant digits and differ later (31.2304001 / 31.2304002), sums against their
//     decimal literal (0.1+0.2 / 0.3), neighbours a few ulps apart, values equal as float32, large magnitudes
//     with small differences (1700000000.25 / .75), denormals and values beyond the int64 range. They feed the
//     grouping families (G / T / B lines), so a key that renders a float with less than its full precision
//     shows up in the grouping judgement itself (chk merged).
//  2. pairCases (P lines): for every tuple that goes through the real encoders (the K lines), its
//     neighbourhood -- every column replaced in turn by values of the same kind that a lossy rendering would
//     confuse with it -- is pushed through the same real encoder; the harness keeps the pairs whose keys
//     coincide while the tuples differ (or differ while the tuples are equal) plus a sample of the others,
//     and the driver judges every emitted pair with the model's tuple equality:
//     chk key_collision / chk key_split. An encoder whose bytes differ from the model's (a K disagreement)
//     is therefore always accompanied by a search for two values it confuses, around the very values of the
//     K lines.

import (
	"fmt"
	"math"
	"strconv"
	"strings"
	"unicode/utf8"

	"github.com/rulego/streamsql/aggregator"
	"github.com/rulego/streamsql/types"
	"github.com/rulego/streamsql/utils/cast"
	"github.com/rulego/streamsql/window"
)

// floatKeyOK: the value is a float key in the token language ('f'): finite, and non-integral or beyond the
// range in which a float is the integer it equals (the harness stays away from [2^62, 2^64)).
func floatKeyOK(f float64) bool {
	if math.IsNaN(f) || math.IsInf(f, 0) {
		return false
	}
	if f != math.Trunc(f) {
		return true
	}
	return math.Abs(f) >= 18446744073709551616.0
}

// numVal: the grouping value a float64 is: an integral float in the int64 range is the integer it equals.
func numVal(f float64) (gval, bool) {
	if floatKeyOK(f) {
		return gval{kind: 'f', f: f}, true
	}
	if f == math.Trunc(f) && math.Abs(f) < 1<<62 {
		return gval{kind: 'i', i: int64(f), goTy: 2}, true
	}
	return gval{}, false
}

func dedupFloats(l []float64) []float64 {
	seen := map[uint64]bool{}
	var out []float64
	for _, f := range l {
		if f == 0 { // -0.0 is 0
			f = 0
		}
		if !floatKeyOK(f) || seen[math.Float64bits(f)] {
			continue
		}
		seen[math.Float64bits(f)] = true
		out = append(out, f)
	}
	return out
}

func ulps(f float64, n int) float64 {
	dir := math.Inf(1)
	if n < 0 {
		dir, n = math.Inf(-1), -n
	}
	for i := 0; i < n; i++ {
		f = math.Nextafter(f, dir)
	}
	return f
}

func randDigits(rng *RNG, n int) string {
	var sb strings.Builder
	for i := 0; i < n; i++ {
		sb.WriteByte(byte('0' + rng.Intn(10)))
	}
	return sb.String()
}

// nearFloats: 2-4 distinct float keys that a rendering with less than full precision would confuse.
func nearFloats(rng *RNG) []float64 {
	var l []float64
	switch rng.Intn(7) {
	case 0: // decimal literals that share 6-9 significant digits and differ in the following ones
		ip := []string{"0", "3", "31", "121", "-73", "1700000000", "48151", "-0"}[rng.Intn(8)]
		fd := 6 + rng.Intn(4) - len(strings.TrimLeft(ip, "-0"))
		if fd < 1 {
			fd = 1
		}
		stem := ip + "." + randDigits(rng, fd-1) + strconv.Itoa(1+rng.Intn(9))
		for _, tail := range []string{"", "01", "02", "1", "2", "15", "9", "001", "5"} {
			if rng.Intn(2) == 0 || len(l) < 2 {
				f, err := strconv.ParseFloat(stem+tail, 64)
				if err == nil {
					l = append(l, f)
				}
			}
		}
	case 1: // a sum against its decimal literal: 0.1+0.2 / 0.3
		a, b := 1+rng.Intn(9), 1+rng.Intn(9)
		d := []float64{10, 100, 1000}[rng.Intn(3)]
		l = append(l, float64(a)/d+float64(b)/d, float64(a+b)/d, float64(a)/d*3, float64(3*a)/d)
		if dd := dedupFloats(l); len(dd) < 2 && len(dd) > 0 {
			l = append(l, ulps(dd[0], 1))
		}
	case 2: // neighbours a few ulps apart
		base := (float64(rng.Intn(1<<30)) + 0.5) / float64(int64(1)<<uint(rng.Intn(40))) * float64(int64(1)<<uint(rng.Intn(20)))
		if rng.Bool() {
			base = -base
		}
		l = append(l, base, ulps(base, 1), ulps(base, -1), ulps(base, 1+rng.Intn(8)))
	case 3: // equal as float32, distinct as float64
		x := float64(float32((float64(rng.Intn(1<<24)) + 0.37) / float64(int64(1)<<uint(rng.Intn(24)))))
		l = append(l, x, x*(1+math.Ldexp(1, -30)), x*(1-math.Ldexp(1, -28)), ulps(x, 1+rng.Intn(1000)))
	case 4: // large magnitude, small difference (fractional epoch seconds, ...)
		n := []float64{1700000000, 1700000001, 1 << 40, 1 << 51, 1e15, 4503599627370495, -1700000000}[rng.Intn(7)]
		for _, fr := range []float64{0.25, 0.5, 0.75, 0.125, 0.0625, 0.001, 1e-6} {
			if rng.Intn(2) == 0 || len(l) < 2 {
				l = append(l, n+fr)
			}
		}
	case 5: // tiny values, denormals
		t := []float64{1e-7, 1e-10, 2.5e-5, 1e-300, 5e-324}[rng.Intn(5)]
		l = append(l, t, t*(1+math.Ldexp(1, -40)), ulps(t, 1), ulps(t, 2), t*1.0000001)
	default: // beyond the int64 range (the float branch of an integral value), the largest floats
		h := []float64{1e300, 1.5e300, 1e19 * 4, 1e25, math.MaxFloat64, 3.5e38, 1e39}[rng.Intn(7)]
		l = append(l, h, ulps(h, -1), ulps(h, -3), h*(1-math.Ldexp(1, -30)), h/3)
	}
	l = dedupFloats(l)
	if len(l) < 2 {
		l = dedupFloats(append(l, 31.2304001+float64(rng.Intn(100)), 0.7, ulps(0.7, 1)))
	}
	// 2-4 members, random choice
	for len(l) > 4 {
		i := rng.Intn(len(l))
		l = append(l[:i], l[i+1:]...)
	}
	return l
}

// floatTuples: a pool of tuples in which at least one column holds a cluster of near floats; the first two
// tuples differ in a float column only. Other columns: a constant or one of two typed values.
func floatTuples(rng *RNG, ncols int) [][]gval {
	type col struct {
		cluster []float64
		cands   []gval
	}
	cols := make([]col, ncols)
	fcol := rng.Intn(ncols)
	for j := range cols {
		if j == fcol || rng.Intn(3) == 0 {
			cols[j].cluster = nearFloats(rng)
			continue
		}
		kind := []int{0, 0, 1, 2, 3}[rng.Intn(5)]
		for k := 0; k < 1+rng.Intn(2); k++ {
			cols[j].cands = append(cols[j].cands, genVal(rng, kind))
		}
	}
	pick := func(j int) gval {
		c := cols[j]
		if c.cluster != nil {
			if rng.Intn(12) == 0 {
				return gval{kind: 'n'}
			}
			return gval{kind: 'f', f: c.cluster[rng.Intn(len(c.cluster))]}
		}
		return c.cands[rng.Intn(len(c.cands))]
	}
	n := 2 + rng.Intn(4)
	pool := make([][]gval, 0, n)
	first := make([]gval, ncols)
	for j := range first {
		first[j] = pick(j)
	}
	first[fcol] = gval{kind: 'f', f: cols[fcol].cluster[0]}
	second := append([]gval(nil), first...)
	second[fcol] = gval{kind: 'f', f: cols[fcol].cluster[1]}
	pool = append(pool, first, second)
	for len(pool) < n {
		t := make([]gval, ncols)
		for j := range t {
			t[j] = pick(j)
		}
		pool = append(pool, t)
	}
	return pool
}

// genTuplesF: the tuple pools of the C04 grouping families: one in oneIn is a near-float pool.
func genTuplesF(rng *RNG, ncols int, agg bool, oneIn int) [][]gval {
	if ncols == 0 || rng.Intn(oneIn) != 0 {
		return genTuples(rng, ncols, agg)
	}
	return floatTuples(rng, ncols)
}

func isFloatPool(pool [][]gval) bool {
	for _, t := range pool {
		for _, v := range t {
			if v.kind == 'f' && v.f != 1.5 && v.f != -0.25 && v.f != 0.5 && v.f != 2.75 && v.f != 1e-7 && v.f != 1.5e300 {
				return true
			}
		}
	}
	return false
}

// ---- neighbourhoods ------------------------------------------------------------------------------
// neighbours: values of the same column kind (NULL-or-string, NULL-or-number, NULL-or-bool) that a lossy key
// would confuse with v: fewer digits, float32, truncation to an integer, 32-bit wrap-around, trimmed / case-folded /
// unescaped / re-encoded text, the texts NULL is printed as. agg: the aggregator's key is typed, so the text
// of a number (and the number of a text) is a neighbour as well.
func neighbours(v gval, agg bool) []gval {
	var out []gval
	S := func(s string) { out = append(out, gval{kind: 's', s: s}) }
	F := func(f float64) {
		if f == 0 {
			f = 0
		}
		if g, ok := numVal(f); ok {
			out = append(out, g)
		}
	}
	I := func(i int64, ty int) { out = append(out, gval{kind: 'i', i: i, goTy: ty}) }
	switch v.kind {
	case 'f':
		f := v.f
		for _, n := range []int{1, -1, 2, -2, 3, 5, 17, 1000} {
			F(ulps(f, n))
		}
		for _, k := range []int{48, 44, 40, 36, 32, 30, 28, 26, 25, 24, 23, 22, 20, 16} {
			F(f * (1 + math.Ldexp(1, -k)))
			F(f * (1 - math.Ldexp(1, -k)))
		}
		F(float64(float32(f)))
		for p := 5; p <= 16; p++ {
			if g, err := strconv.ParseFloat(strconv.FormatFloat(f, 'g', p, 64), 64); err == nil {
				F(g)
			}
		}
		for _, p := range []int{0, 2, 3, 6, 9} {
			if g, err := strconv.ParseFloat(strconv.FormatFloat(f, 'f', p, 64), 64); err == nil && math.Abs(f) < 1e18 {
				F(g)
			}
		}
		F(math.Trunc(f))
		F(math.Round(f))
		F(math.Floor(f))
		F(-f)
		F(f + 1)
		if agg {
			S(strconv.FormatFloat(f, 'g', -1, 64))
			S(strconv.FormatFloat(f, 'f', -1, 64))
		}
	case 'i':
		i := v.i
		for ty := 0; ty < 4; ty++ { // the same number in another Go type: an equal tuple
			if ty != v.goTy%4 {
				I(i, ty)
			}
		}
		for _, d := range []int64{1, -1, 2, -2, 10} {
			if (d > 0 && i <= math.MaxInt64-d) || (d < 0 && i >= math.MinInt64-d) {
				I(i+d, v.goTy)
			}
		}
		if fl := float64(i); math.Abs(fl) < 1<<62 {
			I(int64(fl), v.goTy) // the number after a round trip through float64
		}
		if f32 := float64(float32(i)); math.Abs(f32) < 1<<62 {
			I(int64(f32), v.goTy)
		}
		I(int64(int32(i)), v.goTy)
		if i > math.MinInt64 {
			I(-i, v.goTy)
		}
		if i < 1<<62 && i > -(1<<62) {
			I(i^(1<<32), v.goTy)
		}
		if i > -(1<<50) && i < 1<<50 {
			F(float64(i) + 0.5)
			F(float64(i) + 1e-4)
			F(float64(i) - 0.25)
		}
		if agg {
			S(strconv.FormatInt(i, 10))
		}
	case 's':
		s := v.s
		S(s + " ")
		S(" " + s)
		S(s + "\x00")
		S(s + "|")
		S(s + "\\")
		S("\\" + s)
		S(s + "\\N")
		S(strings.ToLower(s))
		S(strings.ToUpper(s))
		S(strings.TrimSpace(s))
		S(strings.ReplaceAll(s, "|", "\\|"))
		S(strings.ReplaceAll(s, "\\", "\\\\"))
		S(strings.ReplaceAll(s, "\\", ""))
		S(strings.ReplaceAll(s, "\x00", ""))
		S(strings.ToValidUTF8(s+"\xff", "\uFFFD"))
		S(s + "\xff")
		S(s + "\xfe")
		for _, x := range utf8Neighbours(s) { // c04utf8.go
			S(x)
		}
		if len(s) > 0 {
			S(s[:len(s)-1])
			S(s[1:])
			_, w := utf8.DecodeRuneInString(s)
			S(s[w:])
		}
		if len(s) > 64 {
			S(s[:64])
		}
		if x, err := strconv.ParseFloat(s, 64); err == nil { // a numeric text: its other spellings
			S("0" + s)
			S(s + ".0")
			S("+" + s)
			S(strconv.FormatFloat(x, 'g', -1, 64))
			S(strconv.FormatFloat(x, 'f', -1, 64))
			if agg {
				F(x)
			}
		}
		if s == "" || s == "nil" || s == "<nil>" || s == "NULL" || s == "\\N" || s == "\x00NULL" || s == "null" {
			out = append(out, gval{kind: 'n'}, gval{kind: 'm'})
		}
		if agg {
			switch s {
			case "true":
				out = append(out, gval{kind: 'b', b: true})
			case "false":
				out = append(out, gval{kind: 'b', b: false})
			}
		}
	case 'b':
		out = append(out, gval{kind: 'b', b: !v.b})
		if agg {
			S(strconv.FormatBool(v.b))
			if v.b {
				I(1, 0)
			} else {
				I(0, 0)
			}
		}
	case 'n', 'm':
		if v.kind == 'n' {
			out = append(out, gval{kind: 'm'})
		} else {
			out = append(out, gval{kind: 'n'})
		}
		for _, s := range []string{"", "nil", "<nil>", "NULL", "null", "\\N", "\\\\N", "\x00NULL", "\x00", " "} {
			S(s)
		}
		if agg {
			I(0, 0)
			out = append(out, gval{kind: 'b', b: false})
		}
	}
	return out
}

// normTok: the token of a value with missing read as NULL (the two are one group).
func normTok(v gval) string {
	if v.kind == 'm' {
		return "n"
	}
	return v.tok()
}

func tupleToks(t []gval, norm bool) string {
	ts := make([]string, len(t))
	for j, v := range t {
		if norm {
			ts[j] = normTok(v)
		} else {
			ts[j] = v.tok()
		}
	}
	return strings.Join(ts, " ")
}

// pairSites: the real encoders as functions of a tuple.
type pairSite struct {
	name string
	agg  bool
	key  func(t []gval) (string, error)
}

func pairSites(ncols int) ([]pairSite, func(), error) {
	names := keyNames(ncols)
	cw, err := window.NewCountingWindow(types.WindowConfig{Params: []any{2}, GroupByKeys: names})
	if err != nil {
		return nil, nil, err
	}
	gw, err := window.NewGlobalWindow(types.WindowConfig{Type: window.TypeGlobal, GroupByKeys: names, TriggerCondition: "COUNT(*) >= 2"})
	if err != nil {
		cw.Stop()
		return nil, nil, err
	}
	sites := []pairSite{
		{"agg", true, func(t []gval) (string, error) {
			ga := aggregator.NewGroupAggregator(names, []aggregator.AggregationField{{InputField: "*", AggregateType: aggregator.Count, OutputAlias: "c"}})
			if err := ga.Add(grow{id: 1, vals: t}.toMapMode(true)); err != nil {
				return "", err
			}
			for k := range ga.VerifGroupKeys() {
				return k, nil
			}
			return "", fmt.Errorf("aggregator holds no group after Add")
		}},
		{"cnt", false, func(t []gval) (string, error) { return cw.VerifGetKey(grow{id: 1, vals: t}.toMap()), nil }},
		{"ses", false, func(t []gval) (string, error) {
			return window.VerifSessionKey(grow{id: 1, vals: t}.toMap(), names), nil
		}},
		{"glb", false, func(t []gval) (string, error) { return gw.VerifGetKey(grow{id: 1, vals: t}.toMap()), nil }},
	}
	if ncols == 1 {
		sites = append(sites, pairSite{"part", true, func(t []gval) (string, error) {
			x, ok := t[0].goValueMode(true)
			if !ok {
				x = nil
			}
			return cast.GroupKeyPart(x), nil
		}})
	}
	return sites, func() { cw.Stop(); gw.Stop() }, nil
}

// pairBudget bounds the number of suspicious pairs written per site (a broken encoder confuses thousands).
const pairBudget = 40

// pairCases: the neighbourhood search around one tuple t (ncols >= 1) at every site.
func pairCases(rng *RNG, o *Out, sites []pairSite, t []gval, budget map[string]int) error {
	ncols := len(t)
	base := tupleToks(t, true)
	for _, st := range sites {
		k0, err := st.key(t)
		if err != nil {
			return err
		}
		type cand struct {
			u   []gval
			key string
		}
		var plain []cand
		for j := 0; j < ncols; j++ {
			for _, nb := range neighbours(t[j], st.agg) {
				u := append([]gval(nil), t...)
				u[j] = nb
				k1, err := st.key(u)
				if err != nil {
					return err
				}
				same := tupleToks(u, true) == base
				if same == (k1 == k0) {
					plain = append(plain, cand{u, k1})
					continue
				}
				if budget[st.name] >= pairBudget {
					continue
				}
				budget[st.name]++
				o.Line("C04 P %s %d %s # %s # %s %s", st.name, ncols, tupleToks(t, false), tupleToks(u, false), hexTok(k0), hexTok(k1))
				o.Count("encoder pair (suspicious)")
			}
		}
		// a sample of the pairs the harness holds to be in order: the driver judges them all the same
		for n := 0; n < 1 && len(plain) > 0; n++ {
			c := plain[rng.Intn(len(plain))]
			o.Line("C04 P %s %d %s # %s # %s %s", st.name, ncols, tupleToks(t, false), tupleToks(c.u, false), hexTok(k0), hexTok(c.key))
			o.Count("encoder pair")
		}
	}
	return nil
}
