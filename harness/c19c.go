package main

// C19, family "the expander loses the race for the slots it has just added" (+ the crowd runs at the end).
//
// ExpansionStrategy.ProcessData is: send (fails) -> expandDataChannel -> send again -> three timed retries ->
// input_dropped_count. "Expand" and "send again" are two critical sections: once expandDataChannel has released
// the write lock, every other producer may send before the expanding producer does. When the expansion adds no
// more slots than there are competing Emit calls at that moment (MinIncrement 1-2, or a ceiling that leaves room
// for a single step), the expander's second send finds the channel full again; its row must then go through the
// retry path and be processed or counted like any other (model: IgSw leaves the expander at `IgTry 1`, and
// `IgSd` at stage 1 on a full channel continues with IgWait 0, it does not return).
//
// Forced schedule (expand strategy, 2-3 producers, consumer parked in the sync sink holding the first row):
//
//   fill the channel; producer e: Emit -> send fails -> CAS -> snapshot -> write lock -> migration -> swap,
//                     unlock -> PARKED before its own second send
//   the other producers: j whole Emit calls, j = the free slots of the new channel (or one less)
//   producer e continues alone until its Emit returns (j = free: three retries, then counted as dropped;
//                     j = free-1: its send takes the last slot)
//   (rounds 2, 3: the channel is full again, the next producer is the expander)
//   the consumer drains everything
//
// How the expander is parked between its unlock and its send without touching the repository: expandDataChannel
// writes the debug line "Channel expansion completed: migrated %d items" after dataChanMux.Unlock() and before it
// returns, through the instance's logger, which is a public extension point (streamsql.WithLogger). The harness
// passes a logger whose Debug parks the calling goroutine on exactly that line. No lock of the data path is held
// there (s.expanding is still set, which is why j never exceeds the free slots: the model step IgSw resets the
// flag together with the unlock).
//
// The line is an ordinary `C19 F` line: the extracted model replays the steps (including the `=` observations
// after the swap, after the competitors and after the expander's Emit returned) and chk_C19 judges the end state
// (conservation: processed + dropped + still queued = Emit calls issued; order; no duplicate; ceiling).

import (
	"fmt"
	"strings"
	"sync/atomic"
	"time"

	"github.com/rulego/streamsql/logger"
	"github.com/rulego/streamsql/stream"
)

// c19GateLog is a logger.Logger that discards everything; while armed, the goroutine that writes a debug line
// whose format starts with prefix is parked until Release/Open.
type c19GateLog struct {
	prefix  string
	armed   int32
	opened  int32
	arrived chan struct{}
	release chan struct{}
}

func newC19GateLog(prefix string) *c19GateLog {
	return &c19GateLog{prefix: prefix, arrived: make(chan struct{}, 1<<12), release: make(chan struct{}, 1<<12)}
}

func (l *c19GateLog) Debug(format string, args ...any) {
	if atomic.LoadInt32(&l.armed) == 1 && atomic.LoadInt32(&l.opened) == 0 && strings.HasPrefix(format, l.prefix) {
		l.arrived <- struct{}{}
		<-l.release
	}
}
func (l *c19GateLog) Info(format string, args ...any)  {}
func (l *c19GateLog) Warn(format string, args ...any)  {}
func (l *c19GateLog) Error(format string, args ...any) {}
func (l *c19GateLog) SetLevel(level logger.Level)      {}

func (l *c19GateLog) Arm() { atomic.StoreInt32(&l.armed, 1) }
func (l *c19GateLog) WaitArrived(d time.Duration) bool {
	t := time.NewTimer(d)
	defer t.Stop()
	select {
	case <-l.arrived:
		return true
	case <-t.C:
		return false
	}
}

// Release lets exactly one parked goroutine continue
func (l *c19GateLog) Release() {
	if atomic.LoadInt32(&l.opened) == 0 {
		l.release <- struct{}{}
	}
}

// Open disarms the gate for good
func (l *c19GateLog) Open() {
	if atomic.CompareAndSwapInt32(&l.opened, 0, 1) {
		close(l.release)
	}
}

const c19ExpansionDoneLog = "Channel expansion completed"

// short = 1: the competitors leave one slot free (the expander's send succeeds); 0: they take all of them
func c19ExpanderLosesRace(c c19Cfg, P, short, rounds int, o *Out) error {
	stream.VerifYieldReset(false)
	lg := newC19GateLog(c19ExpansionDoneLog)
	w, err := newC19WorldLog(c, true, 0, lg)
	if err != nil {
		return err
	}
	defer w.close()
	var steps []string
	nextK := make([]int, P)
	emitAlone := func(p int, what string, pend ...chan struct{}) (bool, error) {
		k := nextK[p]
		nextK[p]++
		if ch, returned := w.emitWait(p, k, c19Long); !returned {
			return false, w.unexpected(c, append(steps, fmt.Sprintf("em %d", p)), what, append([]chan struct{}{ch}, pend...), o)
		}
		steps = append(steps, fmt.Sprintf("E %d", p))
		return true, nil
	}
	// first row: the idle consumer takes it and parks in the sink
	if ok, err := emitAlone(0, "T4: Emit on the empty channel did not return"); !ok {
		return err
	}
	if !w.waitSink(c19Long) {
		return w.unexpected(c, steps, "T4: idle consumer did not pick up the first row", nil, o)
	}
	steps = append(steps, "ld rc")
	for i := 0; i < c.cap; i++ {
		if ok, err := emitAlone(i%P, "T4: Emit with room in the channel did not return"); !ok {
			return err
		}
	}
	steps = append(steps, w.obs())
	lg.Arm()
	lost := 0 // rounds in which the expander found no room
	for r := 0; r < rounds; r++ {
		e := r % P
		st := w.s.GetStats()
		queued := int(st[stream.DataChanLen])
		done := make(chan struct{})
		ke := nextK[e]
		nextK[e]++
		go func() { w.emit(e, ke); close(done) }()
		if !lg.WaitArrived(c19Long) {
			return w.unexpected(c, append(steps, fmt.Sprintf("em %d", e)), "T4: the Emit on the full channel never finished an expansion", []chan struct{}{done}, o)
		}
		// the expander has migrated every queued row, published the new channel and released the write lock
		steps = append(steps, fmt.Sprintf("em %d sd %d xb %d xr %d xl %d", e, e, e, e, e))
		for i := 0; i < queued; i++ {
			steps = append(steps, fmt.Sprintf("mg %d", e))
		}
		steps = append(steps, fmt.Sprintf("sw %d", e), w.obs())
		st = w.s.GetStats()
		free := int(st[stream.DataChanCap] - st[stream.DataChanLen])
		j := free - short
		for i, q := 0, e; i < j; i++ {
			q = (q + 1) % P
			if q == e {
				q = (q + 1) % P
			}
			if ok, err := emitAlone(q, "T4: a competitor's Emit with room in the new channel did not return", done); !ok {
				return err
			}
		}
		steps = append(steps, w.obs())
		if j >= free {
			lost++
		}
		lg.Release()
		select {
		case <-done:
		case <-time.After(c19Long):
			return w.unexpected(c, steps, "T4: the expanding Emit did not return", []chan struct{}{done}, o)
		}
		steps = append(steps, fmt.Sprintf("FIN %d", e), w.obs())
	}
	lg.Open()
	// the consumer drains the current channel, one row per token
	for i := 0; i < 256; i++ {
		if w.s.GetStats()[stream.DataChanLen] == 0 {
			break
		}
		w.sinkTok <- struct{}{}
		if !w.waitSink(c19Long) {
			return w.unexpected(c, steps, "T4: consumer stopped receiving while rows are queued", nil, o)
		}
	}
	steps = append(steps, "DRAIN")
	o.Line("C19 F %s # %s", c, w.final(steps))
	o.Count("forced/expander-loses-race")
	o.Count(fmt.Sprintf("forced/expander-loses-race/P%d/lost%d-of-%d", P, lost, rounds))
	return nil
}

func c19ExpanderLosesRaceFamily(tier string, rng *RNG, o *Out) error {
	type shape struct {
		c                 c19Cfg
		P, short, rounds_ int
	}
	var all []shape
	for _, cp := range []int{1, 2, 3} {
		for _, inc := range []int{1, 2} {
			for _, mx := range []int{0, 64, cp + 1} {
				for _, g := range [][2]int{{1, 1}, {4097, 4096}} { // 1 selects the default 1.5; 1+2^-12: the increment decides
					for _, P := range []int{2, 3} {
						for _, short := range []int{0, 1} {
							for _, rounds := range []int{1, 2, 3} {
								if mx == cp+1 && rounds > 1 {
									continue // the ceiling is reached by the first expansion
								}
								all = append(all, shape{c19Cfg{strat: 3, cap: cp, max: mx, minInc: inc, gnum: g[0], gden: g[1], tnum: 4, tden: 5}, P, short, rounds})
							}
						}
					}
				}
			}
		}
	}
	run := func(s shape) error { return c19ExpanderLosesRace(s.c, s.P, s.short, s.rounds_, o) }
	if tier == "thorough" {
		for _, s := range all {
			if err := run(s); err != nil {
				return err
			}
		}
		return nil
	}
	// quick: the smallest shape (buffer 1, increment 1, two producers, one round) and a random sample
	if err := run(shape{c19Cfg{strat: 3, cap: 1, max: 0, minInc: 1, gnum: 1, gden: 1, tnum: 4, tden: 5}, 2, 0, 1}); err != nil {
		return err
	}
	used := map[string]bool{}
	for i := 0; i < 11; i++ {
		s := all[rng.Intn(len(all))]
		if i < 6 {
			s.short = 0
		}
		key := fmt.Sprintf("%s/%d/%d/%d", s.c, s.P, s.short, s.rounds_)
		if used[key] {
			i--
			continue
		}
		used[key] = true
		if err := run(s); err != nil {
			return err
		}
	}
	return nil
}

// Crowd runs: 8 producers emitting without pause into a buffer of 1-2 slots that grows by MinIncrement 1-2 per
// expansion (growth factor 1+2^-12: int(cap*growth) == cap below 4096, so the increment decides every step),
// no ceiling in reach, a slow consumer. Every expansion frees one or two slots for which all producers compete:
// expansions, CAS losers, retries and drops happen hundreds of times per run. Judged by the end-state oracle.
func c19Crowd(rng *RNG, n int, o *Out) error {
	c := c19Cfg{strat: 3, cap: 1 + rng.Intn(2), max: []int{0, 100000}[rng.Intn(2)], minInc: 1 + rng.Intn(2),
		gnum: 4097, gden: 4096, tnum: 4, tden: 5}
	if rng.Intn(4) == 0 {
		c.cap, c.minInc = 1, 1
	}
	const P = 8
	ns := make([]int, P)
	for p := range ns {
		ns[p] = n + rng.Intn(n/4+1)
	}
	delay := []time.Duration{50, 200, 400}[rng.Intn(3)] * time.Microsecond
	return c19Concurrent(c, ns, make([]int, P), delay, rng, fmt.Sprintf("crowd/cap%d/inc%d/P%d", c.cap, c.minInc, P), o)
}
