package main

// C06, third part: the CASE-PAIR family (CP lines).
// The process-wide caches of the bridge (preprocessCache, programCache) are keyed by expression TEXT.
// Two different expressions whose texts are equal modulo letter case must stay different: the case of
// a quoted literal and of a column name (map keys are case-sensitive) is part of the meaning.
// Each pair (e1, e2) is evaluated in the order e1, e2, e1 in ONE process, through
// ExprBridge.EvaluateExpression and through SELECT <e> AS x / EmitSync (a new stream per member), and
// EVERY evaluation is judged on its own by the reference semantics / the model (ocaml/c06.ml, "CP").

import (
	"strings"

	"github.com/rulego/streamsql"
)

// random mixed-case word and a different spelling of the same letters
func c06Word(r *RNG) (string, string) {
	n := 3 + r.Intn(4)
	b := make([]byte, n)
	for i := range b {
		b[i] = byte('a' + r.Intn(26))
		if r.Bool() {
			b[i] -= 32
		}
	}
	c := append([]byte(nil), b...)
	k := r.Intn(n)
	for i := range c {
		if i == k || r.Intn(3) == 0 {
			c[i] ^= 0x20 // flip the case of this letter
		}
	}
	return string(b), string(c)
}

func c06Call(name string, args ...*ex) *ex { return &ex{k: "call", s: name, args: args} }

// one pair of expressions that differ only in letter case + the extra cells their row needs
func c06CasePair(r *RNG) (e1, e2 *ex, extra rowT) {
	extra = rowT{}
	w1, w2 := c06Word(r)
	// two columns whose names differ only in case, bound to different numbers
	c1, c2 := c06Word(r)
	c1, c2 = "k"+c1, "k"+c2
	extra[c1] = cell{kind: "i", i: int64(1 + r.Intn(9))}
	extra[c2] = cell{kind: "f", f: float64(20+r.Intn(9)) + 0.5}
	lit := func() *ex { p := litPool[r.Intn(len(litPool))]; return num(p[0], p[1]) }
	switch r.Intn(8) {
	case 0: // function call with a quoted literal
		return c06Call("concat", col("s"), str(w1)), c06Call("concat", col("s"), str(w2)), extra
	case 1:
		return c06Call("concat", str(w1), col("t")), c06Call("concat", str(w2), col("t")), extra
	case 2: // quoted literal, no parentheses: bridge first, hand-written engine second
		extra["s"] = cell{kind: "s", s: w1}
		return cmp("eq2", col("s"), str(w1)), cmp("eq2", col("s"), str(w2)), extra
	case 3:
		extra["s"] = cell{kind: "s", s: w2}
		return cmp("ne", col("s"), str(w1)), cmp("ne", col("s"), str(w2)), extra
	case 4: // column-name case inside a call
		n := lit()
		return c06Call("abs", bin("sub", col(c1), n)), c06Call("abs", bin("sub", col(c2), n)), extra
	case 5: // ... inside parentheses
		n, m := lit(), lit()
		return bin("mul", bin("add", col(c1), n), m), bin("mul", bin("add", col(c2), n), m), extra
	case 6:
		n := lit()
		return c06Call("coalesce", col(c1), n), c06Call("coalesce", col(c2), n), extra
	default: // both at once
		return c06Call("greatest", col(c1), c06Call("length", str(w1+"x"))), c06Call("greatest", col(c2), c06Call("length", str(w2+"x"))), extra
	}
}

func c06CasePairs(tier string, r *RNG, o *Out) {
	n := 40
	if tier == "thorough" {
		n = 400
	}
	for i := 0; i < n; i++ {
		e1, e2, extra := c06CasePair(r)
		row := typedRow(r)
		for k, c := range extra {
			row[k] = c
		}
		m := row.goMap()
		for step, e := range []*ex{e1, e2, e1} {
			t := &etop{e: e}
			text := c06Render(0, e)
			// (1) the bridge
			o.Line("C06 CP bridge %d %s # %s # %s # %s", step, hx(text), encTop(t), row.c06_enc(), bridgeObs(text, copyMap(m)))
			// (2) SELECT item through EmitSync, a new stream per member
			obs := guard(func() string {
				s := streamsql.New(streamsql.WithDiscardLog())
				defer s.Stop()
				if err := s.Execute("SELECT " + text + " AS x FROM stream"); err != nil {
					return "rejected"
				}
				res, err := s.EmitSync(copyMap(m))
				return sqlValue(res, err, "x")
			})
			o.Line("C06 CP select %d %s # %s # %s # %s", step, hx(text), encTop(t), row.c06_enc(), obs)
			o.Count("casepair/evals")
		}
		if strings.EqualFold(c06Render(0, e1), c06Render(0, e2)) {
			o.Count("casepair/equal_modulo_case")
		}
	}
}
