package main

// C20 — caller data is never modified; instances do not influence each other.
//
// Line kinds (first token after the property id):
//   D  <join> <where> <star> <items> # <rows> # <res after>*      direct path, model-compared
//   W  <join> <where> <gkeys> <analytic> # <rows> # <gvals after>*  window path up to Window.Add
//   U  <kind> <mode> <sqlhex> <before> <after>                    deep snapshot of the caller's map
//   S  <kind> <sqlhex> <at-delivery> <later>                      a row given to a sink, later
//   P  <kind> <mode> <sqlAhex> <sqlBhex> <soloA> <pairedA> <soloB> <pairedB>
// Values are single tokens: n | i<dec> | s<hex> | b0/b1 | l[v,..] | m{key:v,..} (keys sorted) |
// x<hex of %v> for anything else.

import (
	"encoding/hex"
	"fmt"
	"os"
	"reflect"
	"sort"
	"strings"
	"sync"
	"time"

	"github.com/rulego/streamsql"
	"github.com/rulego/streamsql/functions"
)

func init() { runners["C20"] = runC20 }

// ---------------------------------------------------------------- canonical values
func encKey(k string) string {
	ok := k != ""
	for i := 0; i < len(k); i++ {
		c := k[i]
		if !(c >= 'a' && c <= 'z' || c >= 'A' && c <= 'Z' || c >= '0' && c <= '9' || c == '_' || c == '(' || c == ')' || c == '.') {
			ok = false
		}
	}
	if ok {
		return k
	}
	return "~" + hex.EncodeToString([]byte(k))
}

// enc: canonical token of a value.  A value that contains itself (an engine that stores a column of the
// row into a map nested in that column builds one) is cut where the path re-enters a map or slice it is
// already inside, with a marker, instead of overflowing the stack.
func enc(v any) string { return encd(v, map[uintptr]bool{}) }

var encCyclic = "x" + hex.EncodeToString([]byte("cyclic"))

func encEnter(v any, d map[uintptr]bool) (uintptr, bool) {
	rv := reflect.ValueOf(v)
	if (rv.Kind() == reflect.Slice && rv.Len() == 0) || rv.IsNil() {
		return 0, true
	}
	p := rv.Pointer()
	if d[p] {
		return p, false
	}
	d[p] = true
	return p, true
}

func encd(v any, d map[uintptr]bool) string {
	if len(d) > 64 {
		return encCyclic
	}
	if v != nil {
		if k := reflect.TypeOf(v).Kind(); k == reflect.Map || k == reflect.Slice {
			p, ok := encEnter(v, d)
			if !ok {
				return encCyclic
			}
			if p != 0 {
				defer delete(d, p)
			}
		}
	}
	switch x := v.(type) {
	case nil:
		return "n"
	case bool:
		if x {
			return "b1"
		}
		return "b0"
	case int:
		return fmt.Sprintf("i%d", x)
	case int64:
		return fmt.Sprintf("i%d", x)
	case int32:
		return fmt.Sprintf("i%d", x)
	case float64:
		if x == float64(int64(x)) && x > -1e15 && x < 1e15 {
			return fmt.Sprintf("i%d", int64(x))
		}
		return "x" + hex.EncodeToString([]byte(fmt.Sprintf("%v", x)))
	case string:
		if x == "" {
			return "s-"
		}
		return "s" + hex.EncodeToString([]byte(x))
	case map[string]any:
		ks := make([]string, 0, len(x))
		for k := range x {
			ks = append(ks, k)
		}
		sort.Strings(ks)
		var b strings.Builder
		b.WriteString("m{")
		for i, k := range ks {
			if i > 0 {
				b.WriteByte(',')
			}
			b.WriteString(encKey(k))
			b.WriteByte(':')
			b.WriteString(encd(x[k], d))
		}
		b.WriteByte('}')
		return b.String()
	case []any:
		var b strings.Builder
		b.WriteString("l[")
		for i, e := range x {
			if i > 0 {
				b.WriteByte(',')
			}
			b.WriteString(encd(e, d))
		}
		b.WriteByte(']')
		return b.String()
	}
	rv := reflect.ValueOf(v)
	switch rv.Kind() {
	case reflect.Slice, reflect.Array:
		var b strings.Builder
		b.WriteString("l[")
		for i := 0; i < rv.Len(); i++ {
			if i > 0 {
				b.WriteByte(',')
			}
			b.WriteString(encd(rv.Index(i).Interface(), d))
		}
		b.WriteByte(']')
		return b.String()
	case reflect.Map:
		type kv struct{ k, v string }
		var kvs []kv
		it := rv.MapRange()
		for it.Next() {
			kvs = append(kvs, kv{encKey(fmt.Sprint(it.Key().Interface())), encd(it.Value().Interface(), d)})
		}
		sort.Slice(kvs, func(i, j int) bool { return kvs[i].k < kvs[j].k })
		var b strings.Builder
		b.WriteString("m{")
		for i, e := range kvs {
			if i > 0 {
				b.WriteByte(',')
			}
			b.WriteString(e.k + ":" + e.v)
		}
		b.WriteByte('}')
		return b.String()
	case reflect.Int, reflect.Int8, reflect.Int16, reflect.Int32, reflect.Int64:
		return fmt.Sprintf("i%d", rv.Int())
	case reflect.Uint, reflect.Uint8, reflect.Uint16, reflect.Uint32, reflect.Uint64:
		return fmt.Sprintf("i%d", rv.Uint())
	case reflect.Float32:
		return encd(rv.Float(), d)
	}
	return "x" + hex.EncodeToString([]byte(fmt.Sprintf("%v", v)))
}

// encRows encodes a batch of result rows order-free
func encRowsSorted(rs []map[string]any, drop ...string) string {
	var xs []string
	for _, r := range rs {
		c := make(map[string]any, len(r))
		for k, v := range r {
			c[k] = v
		}
		for _, d := range drop {
			delete(c, d)
		}
		xs = append(xs, enc(c))
	}
	sort.Strings(xs)
	return "l[" + strings.Join(xs, ",") + "]"
}

func deepCopy(v any) any { return deepCopyD(v, 0) }

func deepCopyD(v any, d int) any {
	if d > 24 {
		return nil
	}
	switch x := v.(type) {
	case map[string]any:
		m := make(map[string]any, len(x))
		for k, vv := range x {
			m[k] = deepCopyD(vv, d+1)
		}
		return m
	case []any:
		s := make([]any, len(x))
		for i, vv := range x {
			s[i] = deepCopyD(vv, d+1)
		}
		return s
	case []map[string]any:
		s := make([]map[string]any, len(x))
		for i, vv := range x {
			s[i] = deepCopyD(vv, d+1).(map[string]any)
		}
		return s
	}
	return v
}

func hxs(s string) string { return hex.EncodeToString([]byte(s)) }

// ---------------------------------------------------------------- the modelled query family
type c20Item struct {
	kind       string // F P L E
	a, b, out  string // F: a=field; P: a.b; L: a=field out=alias; E: a=fn b=field
}
type c20Query struct {
	join  string // "-", "I", "L"
	wkind string // "-", "F", "L"
	wf    string
	wc    int
	star  bool
	items []c20Item
}

func (q *c20Query) sql() string {
	var sel []string
	if q.star {
		sel = append(sel, "*")
	}
	for _, it := range q.items {
		var e string
		switch it.kind {
		case "F":
			e = it.a
		case "P":
			e = it.a + "." + it.b
		case "L":
			e = "lag(" + it.a + ")"
		case "E":
			e = it.a + "(" + it.b + ")"
		}
		if it.kind == "F" && it.out == it.a {
			sel = append(sel, e)
		} else {
			sel = append(sel, e+" AS "+it.out)
		}
	}
	s := "SELECT " + strings.Join(sel, ", ") + " FROM stream"
	switch q.join {
	case "I":
		s += " JOIN meta m ON k = m.k"
	case "L":
		s += " LEFT JOIN meta m ON k = m.k"
	}
	switch q.wkind {
	case "F":
		s += fmt.Sprintf(" WHERE %s > %d", q.wf, q.wc)
	case "L":
		s += fmt.Sprintf(" WHERE lag(%s) > %d", q.wf, q.wc)
	}
	return s
}

func (q *c20Query) desc() string {
	j := "J" + q.join
	w := "W-"
	if q.wkind != "-" {
		w = fmt.Sprintf("W%s,%s,%d", q.wkind, q.wf, q.wc)
	}
	st := "S0"
	if q.star {
		st = "S1"
	}
	var its []string
	for _, it := range q.items {
		switch it.kind {
		case "F":
			its = append(its, "F,"+it.a+","+it.out)
		case "P":
			its = append(its, "P,"+it.a+","+it.b+","+it.out)
		case "L":
			its = append(its, "L,"+it.a+","+it.out)
		case "E":
			its = append(its, "E,"+it.a+","+it.b+","+it.out)
		}
	}
	is := "-"
	if len(its) > 0 {
		is = strings.Join(its, ";")
	}
	return j + " " + w + " " + st + " " + is
}

func (q *c20Query) writes() bool {
	if q.wkind == "L" {
		return true
	}
	for _, it := range q.items {
		if it.kind == "L" {
			return true
		}
	}
	return false
}

const c20Sent = 900000

func c20GenQuery(rng *RNG, needA bool) *c20Query {
	q := &c20Query{join: "-", wkind: "-"}
	switch rng.Intn(5) {
	case 0:
		q.join = "I"
	case 1:
		q.join = "L"
	}
	switch rng.Intn(4) {
	case 0:
		q.wkind, q.wf, q.wc = "F", rng.Pick([]string{"a", "b"}), rng.Intn(12)
	case 1:
		q.wkind, q.wf, q.wc = "L", rng.Pick([]string{"a", "b"}), rng.Intn(12)
	}
	used := map[string]bool{}
	add := func(it c20Item) {
		if used[it.out] {
			return
		}
		used[it.out] = true
		q.items = append(q.items, it)
	}
	if rng.Intn(5) == 0 {
		q.star = true
		n := rng.Intn(3)
		for i := 0; i < n; i++ {
			add(c20Item{kind: "L", a: rng.Pick([]string{"a", "b"}), out: rng.Pick([]string{"p1", "p2", "p3"})})
		}
		return q
	}
	if needA || rng.Intn(2) == 0 {
		add(c20Item{kind: "F", a: "a", out: "a"})
	}
	n := 1 + rng.Intn(5)
	for i := 0; i < n; i++ {
		switch rng.Intn(6) {
		case 0, 1:
			f := rng.Pick([]string{"a", "b", "s", "n", "l", "k", "zz"})
			out := f
			if rng.Intn(3) == 0 {
				out = rng.Pick([]string{"o1", "o2", "o3"})
			}
			add(c20Item{kind: "F", a: f, out: out})
		case 2:
			if q.join != "-" {
				c := rng.Pick([]string{"c", "d", "k", "zz"})
				add(c20Item{kind: "P", a: "m", b: c, out: rng.Pick([]string{c, "o4", "o5"})})
			}
		case 3, 4:
			// alias sometimes collides with a field of the input row (overwrites it in the working map)
			al := rng.Pick([]string{"p1", "p2", "p3", "p1", "p2", "n", "b", "l"})
			add(c20Item{kind: "L", a: rng.Pick([]string{"a", "b"}), out: al})
		case 5:
			add(c20Item{kind: "E", a: rng.Pick([]string{"upper", "lower"}), b: rng.Pick([]string{"s", "s", "t", "S", "T"}), out: rng.Pick([]string{"u1", "u2"})})
		}
	}
	if len(q.items) == 0 {
		add(c20Item{kind: "F", a: "a", out: "a"})
	}
	return q
}

var c20Words = []string{"xY", "abc", "Q", "hello", "ZZtop", "a1B2", "", "mIx"}

// a row of the modelled family; id is the unique value of column a
func c20GenRow(rng *RNG, id int) map[string]any {
	r := map[string]any{"a": id}
	switch rng.Intn(8) {
	case 0: // missing
	case 1:
		r["b"] = nil
	default:
		r["b"] = rng.Intn(16)
	}
	if rng.Intn(8) != 0 {
		r["k"] = rng.Intn(4)
	}
	switch rng.Intn(6) {
	case 0:
	case 1:
		r["s"] = nil
	default:
		r["s"] = rng.Pick(c20Words)
	}
	if rng.Intn(3) == 0 {
		r["t"] = rng.Pick(c20Words)
	}
	// the same names in the other letter case, with other values (row keys are case-sensitive)
	if rng.Intn(2) == 0 {
		r["S"] = rng.Pick(c20Words) + "S"
	}
	if rng.Intn(3) == 0 {
		r["T"] = rng.Pick(c20Words) + "T"
	}
	if rng.Intn(2) == 0 {
		r["n"] = map[string]any{"x": rng.Intn(9), "y": []any{rng.Intn(9), "q", map[string]any{"z": nil}}}
	}
	if rng.Intn(2) == 0 {
		r["l"] = []any{rng.Intn(5), []any{"in", rng.Intn(5)}, map[string]any{"d": "e"}}
	}
	return r
}

func c20Sentinel(i int) map[string]any {
	return map[string]any{"a": c20Sent + i, "b": c20Sent + i, "k": 0, "s": "zz", "t": "zz", "S": "ZZ", "T": "ZZ"}
}

func c20Table() []map[string]any {
	return []map[string]any{
		{"k": 0, "c": "c0", "d": 0},
		{"k": 1, "c": "c1", "d": 100},
		{"k": 2, "c": "c2", "d": 200},
	}
}

func c20Open(sql string, join bool) (*streamsql.Streamsql, error) {
	s := streamsql.New(streamsql.WithDiscardLog())
	if err := s.Execute(sql); err != nil {
		s.Stop()
		return nil, fmt.Errorf("execute %q: %v", sql, err)
	}
	if join {
		if _, err := s.RegisterTable("meta", c20Table()); err != nil {
			s.Stop()
			return nil, fmt.Errorf("register table for %q: %v", sql, err)
		}
	}
	return s, nil
}

// collector: a synchronous sink that keeps the delivered maps and a snapshot taken at delivery
type c20Coll struct {
	mu    sync.Mutex
	rows  []map[string]any
	snaps []string
	batch [][]map[string]any
}

func (c *c20Coll) sink(rs []map[string]any) {
	c.mu.Lock()
	for _, r := range rs {
		c.rows = append(c.rows, r)
		c.snaps = append(c.snaps, enc(r))
	}
	c.batch = append(c.batch, rs)
	c.mu.Unlock()
}
func (c *c20Coll) n() int { c.mu.Lock(); defer c.mu.Unlock(); return len(c.rows) }
func (c *c20Coll) has(col string, val int) bool {
	c.mu.Lock()
	defer c.mu.Unlock()
	for _, r := range c.rows {
		if toInt(r[col]) == val {
			return true
		}
	}
	return false
}

func waitFor(cond func() bool, max time.Duration) bool {
	dl := time.Now().Add(max)
	for time.Now().Before(dl) {
		if cond() {
			return true
		}
		time.Sleep(200 * time.Microsecond)
	}
	return cond()
}

// one instance of the modelled family, driven row by row; obs = "res after" per row
type c20Inst struct {
	q     *c20Query
	s     *streamsql.Streamsql
	async bool
	coll  *c20Coll
	rows  []map[string]any
	toks  []string // input tokens (snapshot before the call)
	res   []string // sync: result token per row
}

func c20NewInst(q *c20Query, async bool) (*c20Inst, error) {
	s, err := c20Open(q.sql(), q.join != "-")
	if err != nil {
		return nil, err
	}
	in := &c20Inst{q: q, s: s, async: async, coll: &c20Coll{}}
	if async {
		s.AddSyncSink(in.coll.sink)
	}
	return in, nil
}

func (in *c20Inst) emit(r map[string]any) error {
	in.rows = append(in.rows, r)
	in.toks = append(in.toks, enc(r))
	if in.async {
		in.s.Emit(r)
		return nil
	}
	res, err := in.s.EmitSync(r)
	if err != nil {
		return fmt.Errorf("EmitSync %q: %v", in.q.sql(), err)
	}
	if res == nil {
		in.res = append(in.res, "-")
	} else {
		in.res = append(in.res, enc(res))
	}
	return nil
}

// finish: (async) push two sentinels through, wait for the second, then read everything
func (in *c20Inst) finish() (string, error) {
	defer in.s.Stop()
	if in.async {
		in.s.Emit(c20Sentinel(0))
		in.s.Emit(c20Sentinel(1))
		if !waitFor(func() bool { return in.coll.has("a", c20Sent+1) }, 3*time.Second) {
			return "", fmt.Errorf("async run of %q: sentinel did not come out", in.q.sql())
		}
		byA := map[int]string{}
		in.coll.mu.Lock()
		for i, r := range in.coll.rows {
			byA[toInt(r["a"])] = in.coll.snaps[i]
		}
		in.coll.mu.Unlock()
		for _, r := range in.rows {
			if t, ok := byA[toInt(r["a"])]; ok {
				in.res = append(in.res, t)
			} else {
				in.res = append(in.res, "-")
			}
		}
	}
	var obs []string
	for i, r := range in.rows {
		obs = append(obs, in.res[i], enc(r))
	}
	return "C20 D " + in.q.desc() + " # " + strings.Join(in.toks, " ") + " # " + strings.Join(obs, " "), nil
}

// ---------------------------------------------------------------- window family (CountingWindow(1))
type c20WQuery struct {
	wkind string
	wf    string
	wc    int
	gkeys []string
	join  string // "-", "I", "L": stream-table JOIN in front of the window
	an    string // "-", or an analytic function over an aggregate in SELECT (evaluated on the result rows)
}

func (q *c20WQuery) sql() string {
	var sel []string
	for i, g := range q.gkeys {
		sel = append(sel, fmt.Sprintf("%s AS g%d", g, i))
	}
	sel = append(sel, "last_value(a) AS la")
	switch q.an {
	case "lag":
		sel = append(sel, "lag(last_value(a)) AS pl")
	case "acc_sum":
		sel = append(sel, "acc_sum(count(*)) AS pl")
	case "had_changed":
		sel = append(sel, "had_changed(true, last_value(a)) AS pl")
	}
	s := "SELECT " + strings.Join(sel, ", ") + " FROM stream"
	switch q.join {
	case "I":
		s += " JOIN meta m ON k = m.k"
	case "L":
		s += " LEFT JOIN meta m ON k = m.k"
	}
	if q.wkind == "F" {
		s += fmt.Sprintf(" WHERE %s > %d", q.wf, q.wc)
	}
	return s + " GROUP BY " + strings.Join(q.gkeys, ", ") + ", CountingWindow(1)"
}
func (q *c20WQuery) desc() string {
	w := "W-"
	if q.wkind == "F" {
		w = fmt.Sprintf("WF,%s,%d", q.wf, q.wc)
	}
	a := "A-"
	if q.an != "-" {
		a = "A," + q.an
	}
	return "J" + q.join + " " + w + " " + strings.Join(q.gkeys, ";") + " " + a
}

func c20RunW(rng *RNG, o *Out) error {
	q := &c20WQuery{wkind: "-", join: "-", an: "-"}
	if rng.Intn(3) == 0 {
		q.wkind, q.wf, q.wc = "F", rng.Pick([]string{"a", "b"}), rng.Intn(10)
	}
	// features of the window path are COMBINED: function group keys x analytic in SELECT x JOIN x WHERE
	if rng.Intn(2) == 0 {
		q.an = rng.Pick([]string{"lag", "acc_sum", "had_changed"})
	}
	switch rng.Intn(6) {
	case 0:
		q.join = "I"
	case 1:
		q.join = "L"
	}
	switch rng.Intn(5) {
	case 0:
		q.gkeys = []string{"k"}
	case 1:
		q.gkeys = []string{"upper(s)"}
	case 2:
		q.gkeys = []string{"lower(s)", "k"}
	case 3:
		q.gkeys = []string{"k", "upper(t)"}
	case 4:
		q.gkeys = []string{"upper(s)", "lower(t)"}
	}
	functions.VerifResetBridgeCaches()
	s, err := c20Open(q.sql(), q.join != "-")
	if err != nil {
		return err
	}
	defer s.Stop()
	coll := &c20Coll{}
	s.AddSyncSink(coll.sink)
	n := 2 + rng.Intn(6)
	var rows []map[string]any
	var toks []string
	for i := 0; i < n; i++ {
		r := c20GenRow(rng, i+1)
		if _, ok := r["k"]; !ok {
			r["k"] = rng.Intn(4)
		}
		rows = append(rows, r)
		toks = append(toks, enc(r))
		s.Emit(r)
	}
	s.Emit(c20Sentinel(0))
	if !waitFor(func() bool { return coll.has("la", c20Sent) }, 3*time.Second) {
		return fmt.Errorf("window run of %q: sentinel did not come out", q.sql())
	}
	byA := map[int]map[string]any{}
	coll.mu.Lock()
	for _, r := range coll.rows {
		byA[toInt(r["la"])] = r
	}
	coll.mu.Unlock()
	var obs []string
	for i, r := range rows {
		g := "-"
		if out, ok := byA[i+1]; ok {
			var gs []string
			for j := range q.gkeys {
				gs = append(gs, enc(out[fmt.Sprintf("g%d", j)]))
			}
			g = strings.Join(gs, ";")
		}
		obs = append(obs, g, enc(r))
	}
	o.Line("C20 W %s # %s # %s", q.desc(), strings.Join(toks, " "), strings.Join(obs, " "))
	o.Count("W_window_path")
	if q.an != "-" {
		o.Count("W_window_path_with_analytic")
	}
	if q.join != "-" {
		o.Count("W_window_path_with_join")
	}
	return nil
}

// ---------------------------------------------------------------- deep snapshots for every query kind
type c20Kind struct {
	kind  string
	sql   string
	sync  bool // EmitSync possible
	join  bool
	write bool // a query kind whose evaluation injects values into the working row
}

func c20Kinds() []c20Kind {
	ks := []c20Kind{
		{"projection", "SELECT id, v, nest, tags FROM stream", true, false, false},
		{"projection_star", "SELECT * FROM stream WHERE v > 10", true, false, false},
		{"projection_expr", "SELECT id, v * 2 AS w, upper(dev) AS u, nest.p AS p, nest.q AS q FROM stream", true, false, false},
		{"analytic_select", "SELECT id, lag(v) AS prev FROM stream", true, false, true},
		{"analytic_select_partition", "SELECT id, lag(v) OVER (PARTITION BY dev) AS prev, lag(nest) AS pn FROM stream", true, false, true},
		{"analytic_select_alias_collides", "SELECT id, lag(v) AS dev, lag(id) AS nest FROM stream", true, false, true},
		{"analytic_where", "SELECT id FROM stream WHERE lag(v) > 10", true, false, true},
		{"analytic_where_expr", "SELECT id, v FROM stream WHERE v - lag(v) >= 10", true, false, true},
		{"analytic_where_and_select", "SELECT *, lag(id) AS pid FROM stream WHERE lag(v) >= 0", true, false, true},
		{"analytic_had_changed", "SELECT id, had_changed(true, dev) AS c FROM stream", true, false, true},
		{"analytic_changed_col", "SELECT id, changed_col(true, v) AS c FROM stream", true, false, true},
		{"array_function", "SELECT id, array_distinct(tags) AS t, array_length(tags) AS n FROM stream", true, false, false},
		{"unnest", "SELECT id, unnest(tags) AS t FROM stream", false, false, false},
		{"join_inner", "SELECT id, m.c AS c, m.d AS d FROM stream JOIN meta m ON k = m.k", true, true, false},
		{"join_left_star", "SELECT * FROM stream LEFT JOIN meta m ON k = m.k", true, true, false},
		{"join_analytic", "SELECT id, m.c AS c, lag(v) AS prev FROM stream LEFT JOIN meta m ON k = m.k WHERE lag(id) >= 0", true, true, true},
		{"counting_window", "SELECT dev, count(*) AS c, sum(v) AS sv FROM stream GROUP BY dev, CountingWindow(2)", false, false, false},
		{"counting_window_fn_key", "SELECT upper(dev) AS u, count(*) AS c FROM stream GROUP BY upper(dev), CountingWindow(2)", false, false, true},
		{"counting_window_collect", "SELECT dev, collect(tags) AS c, last_value(nest) AS ln, sum(v * 2) AS s FROM stream GROUP BY dev, CountingWindow(2)", false, false, false},
		{"counting_window_join", "SELECT m.c AS c, count(*) AS n FROM stream JOIN meta m ON k = m.k GROUP BY m.c, CountingWindow(2)", false, true, false},
		{"tumbling_window", "SELECT dev, sum(v) AS sv FROM stream GROUP BY dev, TumblingWindow('40ms')", false, false, false},
		{"tumbling_window_fn_key", "SELECT upper(dev) AS u, sum(v) AS sv FROM stream GROUP BY upper(dev), TumblingWindow('40ms')", false, false, true},
		{"tumbling_window_event_time", "SELECT lower(dev) AS u, sum(v) AS sv FROM stream GROUP BY lower(dev), TumblingWindow('40ms') WITH (TIMESTAMP='ts', TIMEUNIT='ms')", false, false, true},
		{"session_window", "SELECT dev, sum(v) AS sv FROM stream GROUP BY dev, SessionWindow('30ms')", false, false, false},
		{"session_window_fn_key", "SELECT lower(dev) AS u, sum(v) AS sv FROM stream GROUP BY lower(dev), SessionWindow('30ms')", false, false, true},
		{"sliding_window_fn_key", "SELECT upper(dev) AS u, sum(v) AS sv FROM stream GROUP BY upper(dev), SlidingWindow('60ms','30ms')", false, false, true},
		{"window_analytic", "SELECT dev, sum(v) AS sv, lag(sum(v)) AS psv FROM stream GROUP BY dev, CountingWindow(2)", false, false, false},
		{"window_having_order", "SELECT dev, sum(v) AS sv FROM stream GROUP BY dev, CountingWindow(2) HAVING sv >= 0 ORDER BY sv DESC", false, false, false},
	}
	return ks
}

func c20URow(rng *RNG, i int) map[string]any {
	return map[string]any{
		"id": i, "v": i * 10, "dev": []string{"a", "b", "Cc"}[rng.Intn(3)], "k": rng.Intn(4),
		"ts":   time.Now().UnixMilli(),
		"tags": []any{"z", "a", "m", "a", rng.Intn(3)},
		"nest": map[string]any{"p": rng.Intn(5), "q": []any{3, 1, 2, map[string]any{"deep": []any{"x"}}}, "r": map[string]any{"s": "t"}},
	}
}

// Generated COMBINATIONS of features (the fixed kinds above exercise one feature at a time): on the
// window path  window type x plain/function-expression group keys x analytic function over an
// aggregate in SELECT x JOIN x WHERE x HAVING;  on the direct path  JOIN x analytic in SELECT x analytic
// in WHERE x expression columns x SELECT *.  Whatever the combination, the caller's map must come back
// as it went in and delivered rows must stay as delivered.
func c20ComboWindow(rng *RNG) c20Kind {
	join := "-"
	switch rng.Intn(5) {
	case 0:
		join = "I"
	case 1:
		join = "L"
	}
	win := rng.Pick([]string{"CountingWindow(2)", "CountingWindow(3)", "CountingWindow(2)", "TumblingWindow('40ms')", "SessionWindow('30ms')", "SlidingWindow('60ms','30ms')"})
	pool := []string{"dev", "upper(dev)", "lower(dev)", "k", "concat(dev, '_x')", "upper(dev)", "lower(dev)"}
	if join != "-" {
		pool = append(pool, "m.c", "upper(m.c)")
	}
	var gks []string
	seen := map[string]bool{}
	for n := 1 + rng.Intn(2); len(gks) < n; {
		g := rng.Pick(pool)
		if !seen[g] {
			seen[g] = true
			gks = append(gks, g)
		}
	}
	var sel, tags []string
	fn := false
	for i, g := range gks {
		sel = append(sel, fmt.Sprintf("%s AS g%d", g, i))
		if strings.Contains(g, "(") {
			fn = true
		}
	}
	if fn {
		tags = append(tags, "fnkey")
	} else {
		tags = append(tags, "plainkey")
	}
	agg := rng.Pick([]string{"sum(v)", "avg(v)", "count(*)", "max(v)"})
	sel = append(sel, "sum(v) AS sv")
	if agg != "sum(v)" {
		sel = append(sel, agg+" AS ag")
	}
	switch rng.Intn(7) {
	case 0:
		sel = append(sel, "lag("+agg+") AS an")
		tags = append(tags, "lag")
	case 1:
		sel = append(sel, "acc_sum("+agg+") AS an")
		tags = append(tags, "accsum")
	case 2:
		sel = append(sel, "had_changed(true, "+agg+") AS an")
		tags = append(tags, "hadchanged")
	case 3:
		sel = append(sel, "changed_col(true, "+agg+") AS an")
		tags = append(tags, "changedcol")
	case 4:
		sel = append(sel, "lag("+agg+") AS an", "acc_sum(count(*)) AS an2")
		tags = append(tags, "lag2")
	}
	sql := "SELECT " + strings.Join(sel, ", ") + " FROM stream"
	switch join {
	case "I":
		sql += " JOIN meta m ON k = m.k"
		tags = append(tags, "join")
	case "L":
		sql += " LEFT JOIN meta m ON k = m.k"
		tags = append(tags, "leftjoin")
	}
	if rng.Intn(3) == 0 {
		sql += " WHERE " + rng.Pick([]string{"v >= 0", "id >= 1", "v < 1000"})
		tags = append(tags, "where")
	}
	sql += " GROUP BY " + strings.Join(gks, ", ") + ", " + win
	if rng.Intn(4) == 0 {
		sql += " HAVING sv >= 0"
		tags = append(tags, "having")
	}
	tags = append(tags, strings.ToLower(win[:strings.Index(win, "W")]))
	return c20Kind{"combo_window_" + strings.Join(tags, "_"), sql, false, join != "-", fn}
}

func c20ComboDirect(rng *RNG) c20Kind {
	join := "-"
	switch rng.Intn(4) {
	case 0:
		join = "I"
	case 1:
		join = "L"
	}
	var sel, tags []string
	if rng.Intn(4) == 0 {
		sel = append(sel, "*")
		tags = append(tags, "star")
	} else {
		sel = append(sel, "id")
		if rng.Intn(2) == 0 {
			sel = append(sel, "nest.p AS np", "tags")
		}
	}
	write := false
	na := rng.Intn(3)
	for i := 0; i < na; i++ {
		f := rng.Pick([]string{"lag(v)", "lag(nest)", "had_changed(true, dev)", "changed_col(true, v)", "lag(v) OVER (PARTITION BY dev)", "acc_sum(v)"})
		// the alias sometimes collides with an input column
		al := rng.Pick([]string{"a1", "a2", "a3", "dev", "nest", "tags"})
		if !strings.Contains(strings.Join(sel, ","), " AS "+al) {
			sel = append(sel, f+" AS "+al)
			write = true
		}
	}
	if write {
		tags = append(tags, "analytic")
	}
	if sel[0] != "*" && rng.Intn(2) == 0 {
		sel = append(sel, rng.Pick([]string{"upper(dev) AS e1", "v * 2 AS e1", "concat(dev, '_y') AS e1", "array_length(tags) AS e1"}))
		tags = append(tags, "expr")
	}
	if join != "-" && sel[0] != "*" {
		sel = append(sel, "m.c AS mc")
	}
	sql := "SELECT " + strings.Join(sel, ", ") + " FROM stream"
	switch join {
	case "I":
		sql += " JOIN meta m ON k = m.k"
		tags = append(tags, "join")
	case "L":
		sql += " LEFT JOIN meta m ON k = m.k"
		tags = append(tags, "leftjoin")
	}
	switch rng.Intn(4) {
	case 0:
		sql += " WHERE lag(v) >= 0"
		tags = append(tags, "wherelag")
		write = true
	case 1:
		sql += " WHERE v - lag(v) >= 10 AND id >= 0"
		tags = append(tags, "wherelagexpr")
		write = true
	case 2:
		sql += " WHERE v >= 10"
		tags = append(tags, "where")
	}
	if len(tags) == 0 {
		tags = append(tags, "plain")
	}
	return c20Kind{"combo_direct_" + strings.Join(tags, "_"), sql, true, join != "-", write}
}

// every registered function applied to a nested argument must leave the argument alone
func c20FunctionKinds() []c20Kind {
	var names []string
	for n := range functions.ListAll() {
		names = append(names, n)
	}
	sort.Strings(names)
	var ks []c20Kind
	for _, n := range names {
		for _, args := range []string{"tags", "nest", "tags, 1", "tags, 'a'", "nest, 'p'", "dev", "tags, tags"} {
			ks = append(ks, c20Kind{"fn_" + n, "SELECT id, " + n + "(" + args + ") AS r FROM stream", true, false, false})
		}
	}
	return ks
}

func c20RunU(rng *RNG, k c20Kind, mode string, o *Out, quiet bool) (bool, error) {
	return c20RunUG(rng, k, mode, o, quiet, c20URow, nil)
}

// c20RunUG: rowfn builds the caller's rows; want (optional) tells how many result rows the sink has to
// see before the caller's maps are compared (direct queries: no fixed sleeps then).  Besides the U and S
// lines it writes the A lines: once everything is over, every row map the engine delivered (to the sink,
// or as the result of EmitSync) is overwritten at its top level; none of the caller's maps may notice,
// i.e. a delivered row is never one of the caller's own (nested) maps.
func c20RunUG(rng *RNG, k c20Kind, mode string, o *Out, quiet bool, rowfn func(*RNG, int) map[string]any,
	want func([]map[string]any) int) (bool, error) {
	s, err := c20Open(k.sql, k.join)
	if err != nil {
		if quiet {
			return false, nil
		}
		return false, err
	}
	coll := &c20Coll{}
	s.AddSyncSink(coll.sink)
	type pr struct {
		m    map[string]any
		snap string
	}
	var rows []pr
	var raw, syncRes []map[string]any
	n := 5
	for i := 0; i < n; i++ {
		r := rowfn(rng, i)
		snap := enc(deepCopy(r))
		rows = append(rows, pr{r, snap})
		raw = append(raw, r)
		if mode == "sync" {
			res, err := c20SafeEmitSync(s, r)
			if err != nil {
				s.Stop()
				if quiet {
					return false, nil
				}
				return false, fmt.Errorf("EmitSync %q: %v", k.sql, err)
			}
			if res != nil {
				syncRes = append(syncRes, res)
			}
		} else {
			s.Emit(r)
			if want == nil && i%2 == 1 {
				time.Sleep(12 * time.Millisecond)
			}
		}
	}
	if mode != "sync" {
		if want != nil {
			w := want(raw)
			waitFor(func() bool { return coll.n() >= w }, 1500*time.Millisecond)
			time.Sleep(2 * time.Millisecond)
		} else {
			time.Sleep(90 * time.Millisecond)
		}
	}
	s.Stop()
	w := "r"
	if k.write {
		w = "w"
	}
	for _, r := range rows {
		o.Line("C20 U %s %s %s %s %s %s", k.kind, mode, w, hxs(k.sql), r.snap, enc(r.m))
	}
	// rows given to the sink: snapshot at delivery vs now (after all further processing and Stop)
	coll.mu.Lock()
	for i, r := range coll.rows {
		if i >= 6 {
			break
		}
		o.Line("C20 S %s %s %s %s", k.kind, hxs(k.sql), coll.snaps[i], enc(r))
	}
	// overwrite the delivered row maps (top level only: nested values may be shared by design)
	poke := func(r map[string]any) {
		ks := make([]string, 0, len(r))
		for key := range r {
			ks = append(ks, key)
		}
		for _, key := range ks {
			r[key] = "__poked__"
		}
		r["__poke__"] = 1
	}
	for _, r := range coll.rows {
		poke(r)
	}
	coll.mu.Unlock()
	for _, r := range syncRes {
		poke(r)
	}
	for _, r := range rows {
		o.Line("C20 A %s %s %s %s %s", k.kind, mode, hxs(k.sql), r.snap, enc(r.m))
	}
	return true, nil
}

// EmitSync has no recover of its own: a function that panics on an odd argument list (the sweep over
// all registered functions finds some) must not kill the harness
func c20SafeEmitSync(s *streamsql.Streamsql, r map[string]any) (res map[string]any, err error) {
	defer func() {
		if p := recover(); p != nil {
			err = fmt.Errorf("panic: %v", p)
		}
	}()
	return s.EmitSync(r)
}

// ---------------------------------------------------------------- paired vs solo
type c20PSpec struct {
	kind string
	sqlA string
	sqlB string
	rows func(rng *RNG, inst int, i int) map[string]any
	sync bool
	n    int
}

func c20PRowNum(rng *RNG, inst, i int) map[string]any {
	return map[string]any{"id": i, "x": rng.Intn(7), "y": rng.Intn(5) + 1, "dev": rng.Pick([]string{"a", "B", "cc"})}
}

// instance 0 sends numbers in x, instance 1 strings / lists / nil: the first use of an expression text
// (which fixes the static types of the compiled program) happens on differently typed rows
func c20PRowTyped(rng *RNG, inst, i int) map[string]any {
	r := map[string]any{"id": i, "y": rng.Intn(5) + 1, "dev": rng.Pick([]string{"a", "B", "cc"})}
	if inst == 0 {
		switch rng.Intn(3) {
		case 0:
			r["x"] = rng.Intn(7)
		case 1:
			r["x"] = float64(rng.Intn(7)) + 0.5
		case 2:
			r["x"] = int64(rng.Intn(7))
		}
	} else {
		switch rng.Intn(5) {
		case 0:
			r["x"] = rng.Pick([]string{"ab", "1", "Zz", ""})
		case 1:
			r["x"] = nil
		case 2:
			r["x"] = []any{1, "a"}
		case 3:
			r["x"] = map[string]any{"a": 1}
		case 4:
			r["x"] = true
		}
	}
	return r
}

func c20PSpecs(rng *RNG) []c20PSpec {
	fexprs := []string{"upper(x)", "abs(x)", "len(x)", "concat(x, 'k')", "round(x)", "abs(y) + x * 2", "x + 1 + abs(y)",
		"upper('a') + x", "lower(x) + 'z'", "coalesce(x, 5)", "abs(y) + len(x)", "abs(y) + -x", "sqrt(x)", "length(x)", "upper(string(x))",
		"abs(y) + int(x)", "abs(y) + x / 2", "md5(x)", "ceil(x)", "floor(x)", "trim(x)", "abs(y) + float(x)"}
	var ps []c20PSpec
	for _, e := range fexprs {
		sql := "SELECT id, " + e + " AS r FROM stream"
		ps = append(ps, c20PSpec{"same_sql_typed", sql, sql, c20PRowTyped, true, 8})
	}
	for i := 0; i < 6; i++ {
		e1, e2 := rng.Pick(fexprs), rng.Pick(fexprs)
		ps = append(ps, c20PSpec{"diff_sql_typed", "SELECT id, " + e1 + " AS r, " + e2 + " AS r2 FROM stream", "SELECT id, " + e2 + " AS r FROM stream WHERE id >= 0", c20PRowTyped, true, 8})
	}
	ps = append(ps,
		c20PSpec{"same_sql_analytic", "SELECT id, lag(x) AS p, had_changed(true, dev) AS c FROM stream", "SELECT id, lag(x) AS p, had_changed(true, dev) AS c FROM stream", c20PRowNum, true, 10},
		c20PSpec{"same_sql_analytic_where", "SELECT id FROM stream WHERE lag(x) > 2", "SELECT id FROM stream WHERE lag(x) > 2", c20PRowNum, true, 10},
		c20PSpec{"diff_sql_analytic", "SELECT id, lag(x) OVER (PARTITION BY dev) AS p FROM stream", "SELECT id, lag(y) AS p FROM stream WHERE lag(x) >= 1", c20PRowNum, true, 10},
		c20PSpec{"same_sql_async", "SELECT id, x + y AS z, upper(dev) AS u FROM stream WHERE x > 1", "SELECT id, x + y AS z, upper(dev) AS u FROM stream WHERE x > 1", c20PRowNum, false, 10},
		c20PSpec{"same_sql_counting_fn_key", "SELECT upper(dev) AS u, count(*) AS c, sum(x) AS sx FROM stream GROUP BY upper(dev), CountingWindow(2)", "SELECT upper(dev) AS u, count(*) AS c, sum(x) AS sx FROM stream GROUP BY upper(dev), CountingWindow(2)", c20PRowNum, false, 12},
		c20PSpec{"diff_sql_counting", "SELECT dev, count(*) AS c, avg(x) AS ax FROM stream GROUP BY dev, CountingWindow(3)", "SELECT lower(dev) AS u, max(y) AS my FROM stream GROUP BY lower(dev), CountingWindow(2)", c20PRowNum, false, 12},
		c20PSpec{"same_sql_counting_typed_key", "SELECT upper(x) AS u, count(*) AS c FROM stream GROUP BY upper(x), CountingWindow(1)", "SELECT upper(x) AS u, count(*) AS c FROM stream GROUP BY upper(x), CountingWindow(1)", c20PRowTyped, false, 8},
		c20PSpec{"same_sql_counting_analytic", "SELECT dev, sum(x) AS sx, lag(sum(x)) AS psx FROM stream GROUP BY dev, CountingWindow(2)", "SELECT dev, sum(x) AS sx, lag(sum(x)) AS psx FROM stream GROUP BY dev, CountingWindow(2)", c20PRowNum, false, 12},
	)
	return ps
}

// "Near-text" pairs: the two instances evaluate expressions whose texts are equal up to a lossy
// normalisation (letter case, runs of blanks, a trailing blank) at a place where it matters - inside a
// quoted literal, or in a column name while the rows carry both spellings.  Any process-wide memo table
// whose key identifies such texts hands one instance the other's program.
func c20PRowNear(rng *RNG, inst, i int) map[string]any {
	w := rng.Pick([]string{"ab", "Cd", "xY z", "q"})
	n := rng.Intn(9) + 1
	return map[string]any{"id": i,
		"dev": w, "Dev": w + "2", "DEV": w + "3",
		"val": n, "Val": 100 + n, "VAL": 10000 + n,
		"txt": "t" + w, "Txt": "u" + w, "TXT": "v" + w}
}

func c20SwapCase(s string) string {
	b := []byte(s)
	for i, c := range b {
		switch {
		case c >= 'a' && c <= 'z':
			b[i] = c - 32
		case c >= 'A' && c <= 'Z':
			b[i] = c + 32
		}
	}
	return string(b)
}

func c20NearSpecs(rng *RNG, n int) []c20PSpec {
	letters := "abcdefghkmnpqrstuvwxyzABCDEFGHKMNPQRSTUVWXYZ"
	word := func() string {
		l := 3 + rng.Intn(5)
		b := make([]byte, l)
		for i := range b {
			b[i] = letters[rng.Intn(len(letters))]
		}
		if rng.Intn(2) == 0 { // an inner blank, so that blank-normalisation has something to bite on
			b[1+rng.Intn(l-2)] = ' '
		}
		return "-" + string(b)
	}
	litT := []string{"concat(dev, '%s')", "concat('%s', dev)", "coalesce(zz, '%s')", "concat(upper(dev), '%s')", "replace(dev, dev, '%s')", "length('%s') + val"}
	colNum := []string{"round(%s * 2)", "abs(%s) + 1", "coalesce(%s, 0)", "sqrt(%s * %s)", "floor(%s / 2)"}
	colStr := []string{"upper(%s)", "concat(%s, '-k')", "length(%s)", "lower(%s) + 'z'"}
	numCols := [][2]string{{"val", "VAL"}, {"val", "Val"}, {"Val", "VAL"}}
	strCols := [][2]string{{"dev", "DEV"}, {"dev", "Dev"}, {"txt", "TXT"}, {"Txt", "txt"}}
	wrap := func(e string, ctx int) (string, bool) {
		switch ctx {
		case 0:
			return "SELECT id, " + e + " AS r FROM stream", true
		case 1:
			return "SELECT id, " + e + " AS r, upper(dev) AS u FROM stream WHERE id >= 0", true
		default:
			return "SELECT " + e + " AS g, count(*) AS c, last_value(id) AS lid FROM stream GROUP BY " + e + ", CountingWindow(1)", false
		}
	}
	var ps []c20PSpec
	for len(ps) < n {
		var ea, eb, kind string
		switch rng.Intn(6) {
		case 0, 1: // literal: letter case
			t := rng.Pick(litT)
			w := word()
			var v string
			switch rng.Intn(3) {
			case 0:
				v = strings.ToUpper(w)
			case 1:
				v = strings.ToLower(w)
			default:
				v = c20SwapCase(w)
			}
			ea, eb, kind = strings.ReplaceAll(t, "%s", w), strings.ReplaceAll(t, "%s", v), "near_text_literal_case"
		case 2: // literal: blanks
			t := rng.Pick(litT)
			w := word()
			v := w + " "
			if strings.Contains(w, " ") && rng.Intn(2) == 0 {
				v = strings.Replace(w, " ", "  ", 1)
			}
			ea, eb, kind = strings.ReplaceAll(t, "%s", w), strings.ReplaceAll(t, "%s", v), "near_text_literal_blanks"
		case 3: // numeric column: letter case
			t := rng.Pick(colNum)
			c := numCols[rng.Intn(len(numCols))]
			ea, eb, kind = strings.ReplaceAll(t, "%s", c[0]), strings.ReplaceAll(t, "%s", c[1]), "near_text_column_case"
		case 4: // string column: letter case
			t := rng.Pick(colStr)
			c := strCols[rng.Intn(len(strCols))]
			ea, eb, kind = strings.ReplaceAll(t, "%s", c[0]), strings.ReplaceAll(t, "%s", c[1]), "near_text_column_case"
		case 5: // function name only: same meaning, may legitimately share anything
			t := rng.Pick([]string{"%s(dev)", "concat(%s(dev), 'k')"})
			ea, eb, kind = strings.ReplaceAll(t, "%s", "upper"), strings.ReplaceAll(t, "%s", "UPPER"), "near_text_function_case"
		}
		if ea == eb {
			continue
		}
		if rng.Bool() {
			ea, eb = eb, ea
		}
		ctx := rng.Intn(3)
		if strings.Contains(ea, ",") || !strings.HasSuffix(ea, ")") || strings.Count(ea, "(") != 1 {
			ctx = rng.Intn(2) // the GROUP BY parser takes a single one-argument function call only
		}
		sa, syncA := wrap(ea, ctx)
		sb, _ := wrap(eb, ctx)
		nrows := 6
		ps = append(ps, c20PSpec{kind, sa, sb, c20PRowNear, syncA, nrows})
	}
	return ps
}

// run one instance (solo) or two (paired, inputs interleaved by ord: 0/1 = whose next row);
// returns the canonical output of every instance
func c20PRun(sqls []string, rows [][]map[string]any, ord []int, syncMode bool, concurrent bool) ([]string, error) {
	functions.VerifResetBridgeCaches()
	n := len(sqls)
	ss := make([]*streamsql.Streamsql, n)
	colls := make([]*c20Coll, n)
	outs := make([][]string, n)
	for i := range sqls {
		s, err := c20Open(sqls[i], false)
		if err != nil {
			for j := 0; j < i; j++ {
				ss[j].Stop()
			}
			return nil, err
		}
		ss[i] = s
		colls[i] = &c20Coll{}
		if !syncMode {
			s.AddSyncSink(colls[i].sink)
		}
	}
	defer func() {
		for _, s := range ss {
			s.Stop()
		}
	}()
	one := func(i int, r map[string]any) {
		c := deepCopy(r).(map[string]any)
		if syncMode {
			res, err := ss[i].EmitSync(c)
			switch {
			case err != nil:
				outs[i] = append(outs[i], "e")
			case res == nil:
				outs[i] = append(outs[i], "-")
			default:
				outs[i] = append(outs[i], enc(res))
			}
		} else {
			ss[i].Emit(c)
		}
	}
	if concurrent {
		var wg sync.WaitGroup
		for i := range sqls {
			i := i
			wg.Add(1)
			go func() {
				defer wg.Done()
				for _, r := range rows[i] {
					one(i, r)
				}
			}()
		}
		wg.Wait()
	} else {
		pos := make([]int, n)
		for _, w := range ord {
			if w < n && pos[w] < len(rows[w]) {
				one(w, rows[w][pos[w]])
				pos[w]++
			}
		}
		for i := 0; i < n; i++ {
			for ; pos[i] < len(rows[i]); pos[i]++ {
				one(i, rows[i][pos[i]])
			}
		}
	}
	res := make([]string, n)
	for i := range sqls {
		if syncMode {
			res[i] = "l[" + strings.Join(outs[i], ",") + "]"
			continue
		}
		// quiescence: the number of delivered rows is stable for 25 ms
		last, stable := -1, 0
		for t := 0; t < 400 && stable < 5; t++ {
			time.Sleep(5 * time.Millisecond)
			if c := colls[i].n(); c == last {
				stable++
			} else {
				last, stable = c, 0
			}
		}
		colls[i].mu.Lock()
		var bs []string
		for _, b := range colls[i].batch {
			bs = append(bs, encRowsSorted(b, "window_id"))
		}
		colls[i].mu.Unlock()
		if strings.Contains(strings.ToLower(sqls[i]), "group by") {
			sort.Strings(bs) // batches of different keys may be delivered in any order
		}
		res[i] = "l[" + strings.Join(bs, ",") + "]"
	}
	return res, nil
}

func c20RunP(rng *RNG, p c20PSpec, mode string, o *Out) error {
	rowsA := make([]map[string]any, p.n)
	rowsB := make([]map[string]any, p.n)
	for i := 0; i < p.n; i++ {
		rowsA[i] = p.rows(rng, 0, i)
		rowsB[i] = p.rows(rng, 1, i)
	}
	ord := make([]int, 2*p.n)
	for i := range ord {
		switch mode {
		case "a_first":
			ord[i] = 0
		case "b_first":
			ord[i] = 1
		default:
			ord[i] = rng.Intn(2)
		}
	}
	soloA, err := c20PRun([]string{p.sqlA}, [][]map[string]any{rowsA}, nil, p.sync, false)
	if err != nil {
		return err
	}
	soloB, err := c20PRun([]string{p.sqlB}, [][]map[string]any{rowsB}, nil, p.sync, false)
	if err != nil {
		return err
	}
	paired, err := c20PRun([]string{p.sqlA, p.sqlB}, [][]map[string]any{rowsA, rowsB}, ord, p.sync, mode == "concurrent")
	if err != nil {
		return err
	}
	o.Line("C20 P %s %s %s %s %s %s %s %s", p.kind, mode, hxs(p.sqlA), hxs(p.sqlB), soloA[0], paired[0], soloB[0], paired[1])
	o.Count("P_" + p.kind)
	return nil
}

// ---------------------------------------------------------------- driver
func runC20(tier string, seed uint64, o *Out) error {
	// NewRNG(seed) and NewRNG(seed+1) produce the same stream shifted by one draw; hash the seed first so
	// that different seeds explore unrelated cases
	rng := NewRNG((seed ^ 0x5851F42D4C957F2D) * 0xD1342543DE82EF95)
	t0 := time.Now()
	phase := func(name string) { // VERIF_C20_TIMING=1: where the wall time goes (stderr)
		if os.Getenv("VERIF_C20_TIMING") != "" {
			fmt.Fprintf(os.Stderr, "c20 phase %-28s %6d ms\n", name, time.Since(t0).Milliseconds())
		}
		t0 = time.Now()
	}
	nD, nDA, nDP, nW, rounds := 260, 40, 40, 50, 1
	if tier == "thorough" {
		nD, nDA, nDP, nW, rounds = 4000, 400, 600, 500, 4
	}
	// (1) direct path, EmitSync, one instance alone
	for i := 0; i < nD; i++ {
		q := c20GenQuery(rng, false)
		functions.VerifResetBridgeCaches()
		in, err := c20NewInst(q, false)
		if err != nil {
			return err
		}
		n := 1 + rng.Intn(7)
		for j := 0; j < n; j++ {
			if err := in.emit(c20GenRow(rng, j+1)); err != nil {
				in.s.Stop()
				return err
			}
		}
		l, err := in.finish()
		if err != nil {
			return err
		}
		o.Line("%s", l)
		o.Count("D_sync_solo")
	}
	// (2) direct path through Emit (the data goroutine) with a synchronous sink
	for i := 0; i < nDA; i++ {
		q := c20GenQuery(rng, true)
		if q.star && q.join == "L" {
			q.join = "-" // keep the sentinel test simple
		}
		functions.VerifResetBridgeCaches()
		in, err := c20NewInst(q, true)
		if err != nil {
			return err
		}
		n := 1 + rng.Intn(7)
		for j := 0; j < n; j++ {
			in.emit(c20GenRow(rng, j+1))
		}
		l, err := in.finish()
		if err != nil {
			return err
		}
		o.Line("%s", l)
		o.Count("D_async_solo")
	}
	// (3) two instances of the modelled family in one process, seeded interleaving; each instance's
	//     observations are judged against the model of that instance ALONE
	for i := 0; i < nDP; i++ {
		qa := c20GenQuery(rng, false)
		qb := qa
		switch rng.Intn(3) {
		case 0:
			qb = c20GenQuery(rng, false)
		case 1:
			// the same query with the column of every expression item in the other letter case: the two
			// instances' expression texts differ only in case
			cp := *qa
			cp.items = append([]c20Item(nil), qa.items...)
			has := false
			for j := range cp.items {
				if cp.items[j].kind == "E" {
					cp.items[j].b = c20SwapCase(cp.items[j].b)
					has = true
				}
			}
			if !has {
				f := rng.Pick([]string{"s", "t"})
				qa = &c20Query{join: qa.join, wkind: qa.wkind, wf: qa.wf, wc: qa.wc, star: false,
					items: append(append([]c20Item(nil), qa.items...), c20Item{kind: "E", a: "upper", b: f, out: "u9"})}
				cp = *qa
				cp.items = append([]c20Item(nil), qa.items...)
				cp.items[len(cp.items)-1].b = c20SwapCase(f)
			}
			qb = &cp
			o.Count("D_sync_paired_case_variant")
		}
		functions.VerifResetBridgeCaches()
		ia, err := c20NewInst(qa, false)
		if err != nil {
			return err
		}
		ib, err := c20NewInst(qb, false)
		if err != nil {
			ia.s.Stop()
			return err
		}
		na, nb := 1+rng.Intn(6), 1+rng.Intn(6)
		ja, jb := 0, 0
		for ja < na || jb < nb {
			if jb >= nb || (ja < na && rng.Bool()) {
				ja++
				if err := ia.emit(c20GenRow(rng, ja)); err != nil {
					return err
				}
			} else {
				jb++
				if err := ib.emit(c20GenRow(rng, jb)); err != nil {
					return err
				}
			}
		}
		la, err := ia.finish()
		if err != nil {
			return err
		}
		lb, err := ib.finish()
		if err != nil {
			return err
		}
		o.Line("%s", la)
		o.Line("%s", lb)
		o.Count("D_sync_paired")
	}
	phase("D direct")
	// (4) window path
	for i := 0; i < nW; i++ {
		if err := c20RunW(rng, o); err != nil {
			return err
		}
	}
	phase("W window")
	// (5) deep snapshots + sink rows, every query kind
	for r := 0; r < rounds; r++ {
		for _, k := range c20Kinds() {
			if k.sync {
				if _, err := c20RunU(rng, k, "sync", o, false); err != nil {
					return err
				}
			}
			if _, err := c20RunU(rng, k, "async", o, false); err != nil {
				return err
			}
			o.Count("U_" + k.kind)
		}
	}
	phase("U fixed kinds")
	// (5b) generated feature combinations
	nCW, nCD := 30, 14
	if tier == "thorough" {
		nCW, nCD = 240, 120
	}
	okc := 0
	for i := 0; i < nCW; i++ {
		k := c20ComboWindow(rng)
		ok, _ := c20RunU(rng, k, "async", o, true)
		if ok {
			okc++
			o.Count("U_combo_window")
			if k.write && strings.Contains(k.kind, "_lag") || k.write && strings.Contains(k.kind, "_acc") || k.write && strings.Contains(k.kind, "changed") {
				o.Count("U_combo_window_fnkey_and_analytic")
			}
		} else {
			o.Count("U_combo_window_rejected_sql")
		}
	}
	for i := 0; i < nCD; i++ {
		k := c20ComboDirect(rng)
		ok1, _ := c20RunU(rng, k, "sync", o, true)
		ok2, _ := c20RunU(rng, k, "async", o, true)
		if ok1 && ok2 {
			okc++
			o.Count("U_combo_direct")
		} else {
			o.Count("U_combo_direct_rejected_sql")
		}
	}
	if okc < (nCW+nCD)/2 {
		return fmt.Errorf("feature-combination family: only %d of %d generated queries were accepted by the engine", okc, nCW+nCD)
	}
	phase("U combos")
	nfn := 0
	for _, k := range c20FunctionKinds() {
		if tier != "thorough" && rng.Intn(6) != 0 {
			continue
		}
		ok, _ := c20RunU(rng, k, "sync", o, true)
		if ok {
			nfn++
		}
	}
	o.Dist["U_registered_function_calls"] = nfn
	// (5b') every registered function x every argument list of a shape table that fits its arity, nested
	//      columns with spare capacity, EmitSync and Emit, direct / JOIN / window path (c20c.go)
	phase("U function sample")
	if err := c20RunNestedFnFamily(rng, tier, o); err != nil {
		return err
	}
	phase("U nested-argument functions")
	// (5c) unnest() over arrays of objects / scalars / mixed next to other projected columns (c20b.go)
	if err := c20RunUnnestFamily(rng, tier, o); err != nil {
		return err
	}
	phase("U unnest")
	// (6) paired vs solo
	modes := []string{"random", "a_first", "b_first", "concurrent"}
	nNear := 24
	if tier == "thorough" {
		nNear = 60
	}
	for r := 0; r < rounds; r++ {
		for _, p := range append(c20PSpecs(rng), c20NearSpecs(rng, nNear)...) {
			for _, m := range modes {
				if tier != "thorough" && m != "random" && rng.Intn(3) != 0 {
					continue
				}
				if err := c20RunP(rng, p, m, o); err != nil {
					return err
				}
			}
		}
	}
	// (7) the function registry: parameterised / plain aggregates in default- and explicit-parameter
	//     forms, instances created after the other one ran, every solo run in a fresh process (c20b.go)
	phase("P in-process pairs")
	if err := c20RunRegistryFamily(rng, tier, o); err != nil {
		return err
	}
	phase("P registry")
	// (8b) the same registry, scalar functions over UNHASHABLE elements (arrays of arrays / maps), c20e.go
	if err := c20RunUnhashableFamily(rng, tier, o); err != nil {
		return err
	}
	phase("P registry unhashable")
	// (8) the same expression text over differently typed rows at every site that reaches the expression
	//     bridge, every solo run in a fresh process (c20c.go)
	if err := c20RunTypedBridgeFamily(rng, tier, o); err != nil {
		return err
	}
	phase("P typed bridge")
	// (9) sink-row stability on the window result pipeline: HAVING over unselected aggregates, ORDER BY,
	//     LIMIT, DISTINCT, post-aggregation expressions; every delivered batch is encoded at delivery,
	//     when the next batch arrives and after Stop (c20d.go)
	err := c20RunStableFamily(rng, tier, o)
	phase("S sink-row stability")
	return err
}
