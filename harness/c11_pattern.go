package main

// C11, family (M): the PATTERN of a MATCH_RECOGNIZE statement as a TREE.  Patterns are built from a small
// grammar -- pattern variables, sequence, alternation, parenthesised group, PERMUTE, exclusion {- -} -- and
// every quantifier form is drawn on variables and on groups:
//     ?   *   +   {n}   {n,}   {n,m} with n < m   {n,n}   {0,m}   {0,0}   {0}
// each greedy or reluctant (a '?' after the quantifier), bounds sometimes written with a leading zero.
// One quantifier of every statement is FORCED to walk through all forms x greedy/reluctant x variable/group,
// so every form is drawn in every run.  The tree is the generator's own statement of what was written
// (shape()); the lexemes are derived from it (emit()); the extracted reference reading (Model/MatchWithin.v
// p_pattern, field mr_tree) reads the lexer model's tokens back into a tree, and types.Config.MatchRecognize.
// Pattern is projected by patShape -- the three must agree (field MQ of the M lines).
//
//   shape:  v<hex symbol> | S(x;y;..) sequence | A(x;y;..) alternation | G(x) group | P(x;y;..) PERMUTE
//           | X(x) exclusion | R(x;<min>;<max or inf>;g|r) repetition, greedy / reluctant
import (
	"fmt"
	"strings"

	"github.com/rulego/streamsql/types"
)

type pn struct {
	k      byte // v S A G P X R
	sym    string
	kids   []*pn
	lo, hi int // R: bounds, hi = -1: unbounded
	greedy bool
	form   int    // R: how the quantifier is written (qForm*)
	pad    string // R: zeros written before the bounds ("" or "0")
}

const (
	qOpt      = iota // ?
	qStar            // *
	qPlus            // +
	qExact           // {n}
	qAtLeast         // {n,}
	qBetween         // {n,m}  n < m, n >= 1
	qEqual           // {n,n}  n >= 1
	qZeroTo          // {0,m}
	qZeroZero        // {0,0}
	qZero            // {0}
	qForms
)

var qFormNames = []string{"opt", "star", "plus", "exact_n", "at_least_n", "n_to_m", "n_to_n", "zero_to_m", "zero_to_zero", "exact_zero"}

func pv(s string) *pn { return &pn{k: 'v', sym: s} }
func pseq(kids ...*pn) *pn {
	if len(kids) == 1 {
		return kids[0]
	}
	return &pn{k: 'S', kids: kids}
}
func palt(kids ...*pn) *pn {
	if len(kids) == 1 {
		return kids[0]
	}
	return &pn{k: 'A', kids: kids}
}
func pgrp(x *pn) *pn        { return &pn{k: 'G', kids: []*pn{x}} }
func pperm(kids ...*pn) *pn { return &pn{k: 'P', kids: kids} }
func pexcl(x *pn) *pn       { return &pn{k: 'X', kids: []*pn{x}} }

// prep: x with a quantifier of the given written form; a, b are the bounds the form needs
func prep(x *pn, form, a, b int, greedy bool) *pn {
	r := &pn{k: 'R', kids: []*pn{x}, form: form, greedy: greedy}
	switch form {
	case qOpt:
		r.lo, r.hi = 0, 1
	case qStar:
		r.lo, r.hi = 0, -1
	case qPlus:
		r.lo, r.hi = 1, -1
	case qExact:
		r.lo, r.hi = a, a
	case qAtLeast:
		r.lo, r.hi = a, -1
	case qBetween, qZeroTo:
		r.lo, r.hi = a, b
	case qEqual:
		r.lo, r.hi = a, a
	case qZeroZero, qZero:
		r.lo, r.hi = 0, 0
	}
	return r
}

func (n *pn) shape() string {
	ks := make([]string, len(n.kids))
	for i, c := range n.kids {
		ks[i] = c.shape()
	}
	switch n.k {
	case 'v':
		return "v" + hx(n.sym)
	case 'R':
		hi := "inf"
		if n.hi >= 0 {
			hi = fmt.Sprint(n.hi)
		}
		g := "r"
		if n.greedy {
			g = "g"
		}
		return fmt.Sprintf("R(%s;%d;%s;%s)", ks[0], n.lo, hi, g)
	}
	return string(n.k) + "(" + strings.Join(ks, ";") + ")"
}

func (n *pn) emit(l *[]lx, syms *[]string) {
	switch n.k {
	case 'v':
		*l = append(*l, V(n.sym))
		*syms = append(*syms, n.sym)
	case 'S':
		for _, c := range n.kids {
			c.emit(l, syms)
		}
	case 'A':
		for i, c := range n.kids {
			if i > 0 {
				*l = append(*l, V("|"))
			}
			c.emit(l, syms)
		}
	case 'G':
		*l = append(*l, V("("))
		n.kids[0].emit(l, syms)
		*l = append(*l, V(")"))
	case 'P':
		*l = append(*l, K("PERMUTE"), V("("))
		for i, c := range n.kids {
			if i > 0 {
				*l = append(*l, V(","))
			}
			c.emit(l, syms)
		}
		*l = append(*l, V(")"))
	case 'X':
		*l = append(*l, V("{"), V("-"))
		n.kids[0].emit(l, syms)
		*l = append(*l, V("-"), V("}"))
	case 'R':
		n.kids[0].emit(l, syms)
		num := func(x int) lx { return V(n.pad + fmt.Sprint(x)) }
		switch n.form {
		case qOpt:
			*l = append(*l, V("?"))
		case qStar:
			*l = append(*l, V("*"))
		case qPlus:
			*l = append(*l, V("+"))
		case qExact, qZero:
			*l = append(*l, V("{"), num(n.lo), V("}"))
		case qAtLeast:
			*l = append(*l, V("{"), num(n.lo), V(","), V("}"))
		default: // {n,m}: qBetween, qEqual, qZeroTo, qZeroZero
			*l = append(*l, V("{"), num(n.lo), V(","), num(n.hi), V("}"))
		}
		if !n.greedy {
			*l = append(*l, V("?"))
		}
	}
}

// the hand-written shapes of the family (kept from the first version; now with their trees)
func fixedPatterns() []*pn {
	A, B, C, D := pv("A"), pv("B"), pv("C"), pv("D")
	g := true
	return []*pn{
		pseq(A, prep(B, qPlus, 0, 0, g)),
		pseq(A, prep(B, qStar, 0, 0, g), C),
		pseq(A, prep(B, qPlus, 0, 0, g), prep(C, qOpt, 0, 0, g)),
		pseq(pgrp(palt(A, B)), C),
		pseq(prep(A, qExact, 2, 0, g), B),
		pseq(A, prep(B, qBetween, 1, 3, g), C),
		pseq(prep(A, qPlus, 0, 0, g), prep(B, qPlus, 0, 0, g)),
		pseq(pperm(A, B), C),
		pseq(prep(A, qStar, 0, 0, g), pexcl(B), C),
		pseq(A, pexcl(B), C), // an exclusion right after an unquantified variable (F69, repaired)
		pseq(pv("Up"), prep(pv("Down"), qPlus, 0, 0, g), prep(pv("Flat_1"), qStar, 0, 0, g)),
		pseq(A, prep(pgrp(pseq(B, C)), qAtLeast, 2, 0, g), prep(D, qOpt, 0, 0, g)),
	}
}

var patVarPool = []string{"A", "B", "C", "D", "E", "F", "Up", "Down", "Flat_1", "X1", "_u", "strt", "Peak", "lo2"}

type patGen struct {
	rng    *RNG
	names  []string
	budget int
}

func newPatGen(rng *RNG) *patGen {
	names := append([]string{}, patVarPool...)
	for i := len(names) - 1; i > 0; i-- {
		j := rng.Intn(i + 1)
		names[i], names[j] = names[j], names[i]
	}
	// the first variables are mostly the short classic ones
	if rng.Intn(3) > 0 {
		names = append([]string{"A", "B"}, without(names, "A", "B")...)
	}
	return &patGen{rng: rng, names: names, budget: 7}
}

func without(xs []string, drop ...string) []string {
	var out []string
	for _, x := range xs {
		keep := true
		for _, d := range drop {
			if x == d {
				keep = false
			}
		}
		if keep {
			out = append(out, x)
		}
	}
	return out
}

func (g *patGen) variable() *pn {
	g.budget--
	if len(g.names) == 0 {
		g.names = append(g.names, fmt.Sprintf("V%d", 100-g.budget))
	}
	s := g.names[0]
	g.names = g.names[1:]
	return pv(s)
}

// quantifier of a given form with random bounds
func (g *patGen) quantify(x *pn, form int, greedy bool) *pn {
	rng := g.rng
	a, b := 0, 0
	switch form {
	case qExact, qEqual:
		a = rng.Range(1, 5)
	case qAtLeast:
		a = rng.Range(0, 4)
	case qBetween:
		a = rng.Range(1, 4)
		b = a + rng.Range(1, 4)
	case qZeroTo:
		b = rng.Range(1, 5)
	}
	r := prep(x, form, a, b, greedy)
	if form >= qExact && rng.Intn(8) == 0 {
		r.pad = "0"
	}
	return r
}

func (g *patGen) alt(depth int) *pn {
	n := 1
	if g.budget >= 2 {
		switch g.rng.Intn(7) {
		case 0:
			n = 2
		case 1:
			if depth > 0 {
				n = 3
			}
		}
	}
	var ks []*pn
	for i := 0; i < n && (i == 0 || g.budget > 0); i++ {
		ks = append(ks, g.seq(depth))
	}
	return palt(ks...)
}

func (g *patGen) seq(depth int) *pn {
	n := 1 + g.rng.Intn(3)
	var ks []*pn
	for i := 0; i < n && (i == 0 || g.budget > 0); i++ {
		ks = append(ks, g.quantified(depth))
	}
	return pseq(ks...)
}

func (g *patGen) quantified(depth int) *pn {
	rng := g.rng
	kind := 0 // variable
	if g.budget >= 2 && depth < 2 {
		switch rng.Intn(10) {
		case 0, 1:
			kind = 1 // group
		case 2:
			kind = 2 // PERMUTE
		case 3:
			kind = 3 // exclusion
		}
	}
	switch kind {
	case 1:
		x := pgrp(g.alt(depth + 1))
		if rng.Intn(3) > 0 {
			return g.quantify(x, rng.Intn(qForms), rng.Intn(4) > 0)
		}
		return x
	case 2:
		ks := []*pn{g.alt(depth + 2)}
		for i := 0; i < 2 && g.budget > 0; i++ {
			ks = append(ks, g.alt(depth+2))
			if rng.Bool() {
				break
			}
		}
		return pperm(ks...)
	case 3:
		return pexcl(g.alt(depth + 2))
	}
	x := g.variable()
	if rng.Intn(2) == 0 {
		return g.quantify(x, rng.Intn(qForms), rng.Intn(4) > 0)
	}
	return x
}

// genPattern: statement number i of the family; i selects the forced quantifier (form, greedy, on a group?)
// and, for the first draws of a run, one of the hand-written shapes.
func genPattern(rng *RNG, i int) mrPattern {
	var root *pn
	tag := "hand_written_shape"
	fixed := fixedPatterns()
	if i%5 == 4 && i/5 < len(fixed) {
		root = fixed[i/5]
	} else {
		g := newPatGen(rng)
		form := i % qForms
		greedy := (i/qForms)%2 == 0
		onGroup := (i/(2*qForms))%2 == 1
		tag = "forced_" + qFormNames[form]
		if !greedy {
			tag += "_reluctant"
		}
		if onGroup {
			tag += "_on_group"
		}
		var forced *pn
		if onGroup {
			g.budget -= 2
			inner := g.alt(1)
			g.budget += 2
			forced = g.quantify(pgrp(inner), form, greedy)
		} else {
			forced = g.quantify(g.variable(), form, greedy)
		}
		var items []*pn
		for k, n := 0, rng.Intn(4); k < n && g.budget > 0; k++ {
			items = append(items, g.quantified(0))
		}
		at := rng.Intn(len(items) + 1)
		items = append(items[:at], append([]*pn{forced}, items[at:]...)...)
		root = pseq(items...)
		if rng.Intn(6) == 0 && g.budget > 0 { // a top-level alternation
			other := g.seq(1)
			if rng.Bool() {
				root = palt(root, other)
			} else {
				root = palt(other, root)
			}
		}
	}
	p := mrPattern{shape: root.shape(), tag: tag}
	p.lex = append(p.lex, V("("))
	root.emit(&p.lex, &p.syms)
	p.lex = append(p.lex, V(")"))
	return p
}

// patShape: types.PatternNode in the notation of pn.shape
func patShape(n *types.PatternNode) string {
	if n == nil {
		return "nil"
	}
	ks := make([]string, len(n.Children))
	for i, c := range n.Children {
		ks[i] = patShape(c)
	}
	body := strings.Join(ks, ";")
	extra := ""
	if n.Kind != types.PatternLiteral && n.Symbol != "" {
		extra += "!symbol=" + hx(n.Symbol)
	}
	if n.Kind != types.PatternRepetition && n.Quant != nil {
		extra += fmt.Sprintf("!quant=%d,%d,%v", n.Quant.Min, n.Quant.Max, n.Quant.Greedy)
	}
	switch n.Kind {
	case types.PatternLiteral:
		if len(ks) > 0 {
			extra += "!children=" + body
		}
		return "v" + hx(n.Symbol) + extra
	case types.PatternSequence:
		return "S(" + body + ")" + extra
	case types.PatternAlternation:
		return "A(" + body + ")" + extra
	case types.PatternGroup:
		return "G(" + body + ")" + extra
	case types.PatternPermute:
		return "P(" + body + ")" + extra
	case types.PatternExclusion:
		return "X(" + body + ")" + extra
	case types.PatternRepetition:
		if n.Quant == nil {
			return "R(" + body + ";noquant)" + extra
		}
		hi := "inf"
		if n.Quant.Max >= 0 {
			hi = fmt.Sprint(n.Quant.Max)
		} else if n.Quant.Max != -1 {
			hi = fmt.Sprint(n.Quant.Max)
		}
		g := "r"
		if n.Quant.Greedy {
			g = "g"
		}
		return fmt.Sprintf("R(%s;%d;%s;%s)", body, n.Quant.Min, hi, g) + extra
	}
	return fmt.Sprintf("?kind%d(%s)", int(n.Kind), body) + extra
}
