package main

// C05 — nested field paths judged by the extracted resolver (coq/Model/NestedPath.v).
//   P  lines: utils/fieldpath on generated nested values x path texts (walks of the value with
//             perturbations, bracket spellings, damaged texts): ParseFieldPath's parts and
//             GetNestedField's result against np_parse / nested_field.
//   NQ lines: SELECT id, <path> [AS alias], ... FROM stream [WHERE id OP k] on generated nested rows:
//             the row's result on a fresh stream, on a long-lived stream (after rows of other shapes)
//             and through Emit + synchronous sink, each against ndirect (output names included).

import (
	"fmt"
	"math/big"
	"sort"
	"strings"
	"sync"

	"github.com/rulego/streamsql"
	"github.com/rulego/streamsql/utils/fieldpath"
)

// ---------------------------------------------------------------- encoding of nested values
func jEnc(v any) string {
	switch x := v.(type) {
	case []any:
		parts := []string{fmt.Sprintf("A%d", len(x))}
		for _, e := range x {
			parts = append(parts, jEnc(e))
		}
		return strings.Join(parts, " ")
	case map[string]any:
		keys := make([]string, 0, len(x))
		for k := range x {
			keys = append(keys, k)
		}
		sort.Strings(keys)
		parts := []string{fmt.Sprintf("M%d", len(x))}
		for _, k := range keys {
			parts = append(parts, hx(k), jEnc(x[k]))
		}
		return strings.Join(parts, " ")
	}
	return valEnc(v)
}

// ---------------------------------------------------------------- value generator
var c05Keys = []string{"x", "y", "items", "tags", "v", "k", "0", "1", "2", "-1", "a b", "k.l", "", "b[0", "x]", "'", "order"}

func c05jVal(r *RNG, depth int) any {
	if depth > 0 {
		switch x := r.Intn(10); {
		case x < 4:
			n := r.Intn(4)
			m := map[string]any{}
			for i := 0; i < n; i++ {
				m[c05Keys[r.Intn(len(c05Keys))]] = c05jVal(r, depth-1)
			}
			return m
		case x < 7:
			n := r.Intn(4)
			a := make([]any, n)
			for i := range a {
				a[i] = c05jVal(r, depth-1)
			}
			return a
		}
	}
	return c05Leaf(r)
}

// ---------------------------------------------------------------- structured paths
type pseg struct {
	kind string // name idx key
	name string // name / key text
	idx  int
	raw  string // bracket content as spelled
}

func (s pseg) enc() string {
	if s.kind == "name" {
		return "n" + hx(s.name)
	}
	return "r" + hx(s.raw)
}

func c05Render(segs []pseg) string {
	var sb strings.Builder
	for i, s := range segs {
		if s.kind == "name" {
			if i > 0 {
				sb.WriteString(".")
			}
			sb.WriteString(s.name)
		} else {
			sb.WriteString("[" + s.raw + "]")
		}
	}
	return sb.String()
}

func c05IdxSeg(r *RNG, i int, fancy bool) pseg {
	raw := fmt.Sprint(i)
	if fancy {
		switch r.Intn(8) {
		case 0:
			raw = " " + raw + " "
		case 1:
			if i >= 0 {
				raw = "+" + raw
			}
		case 2:
			if i >= 0 {
				raw = "0" + raw
			}
		}
	}
	return pseg{kind: "idx", idx: i, raw: raw}
}
func c05KeySeg(r *RNG, k string, fancy bool) pseg {
	q := "'"
	if r.Intn(3) == 0 {
		q = "\""
	}
	raw := q + k + q
	if fancy && r.Intn(8) == 0 {
		raw = " " + raw + " "
	}
	return pseg{kind: "key", name: k, raw: raw}
}

// a walk of the value: mostly steps that exist, sometimes a step that does not fit the container
func c05Walk(r *RNG, v any, fancy bool) []pseg {
	var segs []pseg
	cur := v
	n := 1 + r.Intn(4)
	for i := 0; i < n; i++ {
		wrong := r.Intn(6) == 0
		switch x := cur.(type) {
		case map[string]any:
			keys := make([]string, 0, len(x))
			for k := range x {
				keys = append(keys, k)
			}
			sort.Strings(keys)
			if len(keys) == 0 || wrong {
				switch r.Intn(3) {
				case 0:
					segs = append(segs, pseg{kind: "name", name: r.Pick([]string{"x", "nope", "items"})})
				case 1:
					segs = append(segs, c05IdxSeg(r, r.Intn(4)-1, fancy))
				default:
					segs = append(segs, c05KeySeg(r, r.Pick([]string{"x", "nope", "0"}), fancy))
				}
				cur = nil
				continue
			}
			k := keys[r.Intn(len(keys))]
			isNum := k == "0" || k == "1" || k == "2" || k == "-1"
			identLike := k != "" && !strings.ContainsAny(k, " .[]'")
			switch {
			case isNum && r.Intn(3) != 0:
				j := 0
				fmt.Sscan(k, &j)
				segs = append(segs, c05IdxSeg(r, j, fancy))
			case identLike && (i == 0 || r.Intn(3) != 0):
				segs = append(segs, pseg{kind: "name", name: k})
			case i == 0:
				segs = append(segs, pseg{kind: "name", name: k}) // a path starts with a name
			default:
				segs = append(segs, c05KeySeg(r, k, fancy))
			}
			cur = x[k]
		case []any:
			if wrong {
				if r.Bool() {
					segs = append(segs, pseg{kind: "name", name: "x"})
				} else {
					segs = append(segs, c05KeySeg(r, "0", fancy))
				}
				cur = nil
				continue
			}
			j := r.Intn(len(x)+2) - 1 // -1 .. len
			if r.Intn(4) == 0 {
				j = -r.Intn(len(x) + 2)
			}
			segs = append(segs, c05IdxSeg(r, j, fancy))
			if j < 0 {
				j += len(x)
			}
			if j >= 0 && j < len(x) {
				cur = x[j]
			} else {
				cur = nil
			}
		default: // scalar or nil: any further step is a broken path
			if i > 0 && r.Intn(3) != 0 {
				return segs
			}
			switch r.Intn(3) {
			case 0:
				segs = append(segs, pseg{kind: "name", name: "x"})
			case 1:
				segs = append(segs, c05IdxSeg(r, 0, fancy))
			default:
				segs = append(segs, c05KeySeg(r, "x", fancy))
			}
		}
	}
	return segs
}

func c05Damage(r *RNG, s string) string {
	alphabet := []string{".", "[", "]", "'", "\"", "x", "0", "1", "-", "+", " ", "a"}
	n := 1 + r.Intn(2)
	for i := 0; i < n; i++ {
		p := 0
		if len(s) > 0 {
			p = r.Intn(len(s) + 1)
		}
		switch r.Intn(3) {
		case 0:
			if p < len(s) {
				s = s[:p] + s[p+1:]
			}
		case 1:
			s = s[:p] + r.Pick(alphabet) + s[p:]
		default:
			if p < len(s) {
				s = s[:p] + r.Pick(alphabet) + s[p+1:]
			}
		}
	}
	return s
}

func c05PartsEnc(acc *fieldpath.FieldAccessor, err error) string {
	if err != nil {
		return "err"
	}
	if acc == nil {
		return "nil"
	}
	out := []string{"ok", fmt.Sprint(len(acc.Parts))}
	for _, p := range acc.Parts {
		switch p.Type {
		case "field":
			out = append(out, "f"+hx(p.Name))
		case "array_index":
			out = append(out, fmt.Sprintf("i%d", p.Index))
		case "map_key":
			out = append(out, "k"+hx(p.Key))
		default:
			out = append(out, "?"+p.Type)
		}
	}
	return strings.Join(out, " ")
}

func c05PathLevel(tier string, r *RNG, o *Out) {
	nv := 120
	if tier == "thorough" {
		nv = 1500
	}
	fixed := []string{"a[']", "a[\"]", "a.b[9223372036854775807]", "a.b[9223372036854775808]", "a.b[-9223372036854775808]",
		"a.b[-9223372036854775809]", ".", "..", "a.", ".a", "a..b", "a[0]x[1]", "a[0]x", "[0]", "a.[0]", "a[]", "a[", "a]", "a[ ]", "a[+]", "a[-]",
		"a['k.l']", "a.b[0.x]", "a[1_0]", "a[0x1]", "a['x\"]", "a[ 'x' ]", "a[' x']", "a[\t0\n]", "a[- 1]", "a[-0]", "a['']", "a[''']", "a[\"'\"]"}
	for vi := 0; vi < nv; vi++ {
		data := map[string]any{}
		for _, k := range []string{"a", "d", "arr"} {
			if r.Intn(6) != 0 {
				data[k] = c05jVal(r, 3)
			}
		}
		if vi%4 == 0 {
			data["a"] = map[string]any{"b": []any{1, "two", map[string]any{"c": "x", "x": 2.5}}, "": "emptykey", "0": "zero", "-1": "minus", "k.l": 7,
				"b[0": map[string]any{"x]": 9, "x": 8}, "x": nil, "'": "q", "x\"": 4, " x": 5}
		}
		enc := jEnc(data)
		var paths []string
		for i := 0; i < 6; i++ {
			t := c05Render(c05Walk(r, data, true))
			kind := "walk"
			if r.Intn(4) == 0 {
				t = c05Damage(r, t)
				kind = "damaged"
			}
			if t == "" {
				continue
			}
			paths = append(paths, t)
			o.Count("path/" + kind)
		}
		if vi%4 == 0 {
			paths = append(paths, fixed[(vi/4)%len(fixed)], fixed[(vi/4+7)%len(fixed)])
			o.Count("path/fixed")
			o.Count("path/fixed")
		}
		for _, t := range paths {
			pobs := guard(func() string { return c05PartsEnc(fieldpath.ParseFieldPath(t)) })
			if pobs == "PANIC" {
				pobs = "panic"
			}
			gobs := guard(func() string {
				v, ok := fieldpath.GetNestedField(data, t)
				if !ok {
					return "missing"
				}
				return "found " + jEnc(v)
			})
			if gobs == "PANIC" {
				gobs = "panic"
			}
			o.Line("C05 P %s # %s # %s # %s", hx(t), enc, pobs, gobs)
			o.Count("path/cases")
		}
	}
}

// ---------------------------------------------------------------- SQL level
// the identifiers of a path the SQL lexer accepts; "sensor", "order", "band", "cases" contain OR / AND /
// start with CASE: rsql sends such an item to the expression engines (np_route = RExpr)
var c05Roots = []string{"d", "e", "meta", "arr", "sensor", "cases"}
var c05Names = []string{"x", "y", "items", "tags", "v", "order", "band"}
var c05BrKeys = []string{"x", "k", "a b", "k.l", "0", "it-em"}

func c05SqlPath(r *RNG) []pseg {
	segs := []pseg{{kind: "name", name: r.Pick(c05Roots)}}
	n := 1 + r.Intn(3)
	for i := 0; i < n; i++ {
		switch x := r.Intn(10); {
		case x < 4:
			segs = append(segs, pseg{kind: "name", name: r.Pick(c05Names)})
		case x < 8:
			j := r.Intn(3)
			if r.Intn(5) == 0 {
				j = -1 - r.Intn(2)
			}
			segs = append(segs, pseg{kind: "idx", idx: j, raw: fmt.Sprint(j)})
		default:
			k := r.Pick(c05BrKeys)
			q := "'"
			if r.Intn(4) == 0 {
				q = "\""
			}
			segs = append(segs, pseg{kind: "key", name: k, raw: q + k + q})
		}
	}
	return segs
}

// a value under which the remaining segments may or may not resolve; the container at every position
// is drawn independently for every row
func c05ShapeFor(r *RNG, segs []pseg) any {
	if len(segs) == 0 {
		switch r.Intn(6) {
		case 0:
			return map[string]any{"x": c05Leaf(r)}
		case 1:
			return []any{c05Leaf(r), c05Leaf(r)}
		}
		return c05Leaf(r)
	}
	sg := segs[0]
	switch r.Intn(12) {
	case 0:
		return nil
	case 1:
		return c05Leaf(r)
	case 2:
		return map[string]any{"other": 1}
	}
	switch sg.kind {
	case "name", "key":
		if r.Intn(8) == 0 {
			return []any{c05ShapeFor(r, segs[1:])} // an array where a map is expected
		}
		return map[string]any{sg.name: c05ShapeFor(r, segs[1:]), "z": c05Leaf(r)}
	}
	if r.Intn(3) == 0 { // map with numeric keys
		m := map[string]any{}
		for i := -2; i < 3; i++ {
			if r.Intn(4) != 0 {
				if i == sg.idx {
					m[fmt.Sprint(i)] = c05ShapeFor(r, segs[1:])
				} else {
					m[fmt.Sprint(i)] = c05Leaf(r)
				}
			}
		}
		return m
	}
	n := r.Intn(4)
	arr := make([]any, n)
	at := sg.idx
	if at < 0 {
		at += n
	}
	for i := range arr {
		if i == at {
			arr[i] = c05ShapeFor(r, segs[1:])
		} else {
			arr[i] = c05Leaf(r)
		}
	}
	return arr
}

type c05Item struct {
	segs  []pseg
	text  string
	alias string
}

func c05SqlLevel(tier string, r *RNG, o *Out) {
	nq := 40
	if tier == "thorough" {
		nq = 400
	}
	const nrows = 6
	for qi := 0; qi < nq; qi++ {
		ni := 1 + r.Intn(3)
		items := []c05Item{{segs: []pseg{{kind: "name", name: "id"}}, text: "id"}}
		for i := 0; i < ni; i++ {
			segs := c05SqlPath(r)
			if r.Intn(12) == 0 {
				segs = segs[:1] // a plain column holding a nested value
			}
			it := c05Item{segs: segs, text: c05Render(segs)}
			switch x := r.Intn(10); {
			case x < 5:
				it.alias = fmt.Sprintf("p%d", i)
			case x == 5:
				it.alias = "p0" // may repeat an earlier output name: the later item wins
			}
			items = append(items, it)
		}
		var sel, enc []string
		for _, it := range items {
			a := "~"
			if it.alias != "" {
				sel = append(sel, it.text+" AS "+it.alias)
				a = hx(it.alias)
			} else {
				sel = append(sel, it.text)
			}
			e := []string{hx(it.text), a, fmt.Sprint(len(it.segs))}
			for _, s := range it.segs {
				e = append(e, s.enc())
			}
			enc = append(enc, strings.Join(e, " "))
		}
		q := "SELECT " + strings.Join(sel, ", ") + " FROM stream"
		wenc := "w0"
		if r.Intn(3) == 0 {
			op := r.Pick([]string{"ge", "lt", "ne", "gt"})
			w := &ex{k: "cmp", op: op, l: &ex{k: "col", s: "id"}, r: &ex{k: "num", q: big.NewRat(int64(r.Intn(nrows)), 1)}}
			q += " WHERE " + c06Render(0, w)
			wenc = "w1 " + c06_enc(w)
		}
		qenc := fmt.Sprintf("%d %s %s", len(items), strings.Join(enc, " "), wenc)
		mkRow := func(i int) map[string]any {
			row := map[string]any{"id": i}
			for _, it := range items[1:] {
				if r.Intn(8) == 0 {
					continue // root absent
				}
				if _, ok := row[it.segs[0].name]; ok && r.Bool() {
					continue // two paths under one root: keep the first shape half of the time
				}
				row[it.segs[0].name] = c05ShapeFor(r, it.segs[1:])
			}
			return row
		}
		run := func(s *streamsql.Streamsql, row map[string]any) string {
			v := guard(func() string {
				res, err := s.EmitSync(row)
				if err != nil {
					return "e"
				}
				if res == nil {
					return "none"
				}
				return jEnc(res)
			})
			if v == "PANIC" {
				return "panic"
			}
			return v
		}
		used := streamsql.New(streamsql.WithDiscardLog())
		if err := used.Execute(q); err != nil {
			used.Stop()
			o.Count("nq/rejected")
			continue
		}
		o.Count("nq/queries")
		async := streamsql.New(streamsql.WithDiscardLog())
		_ = async.Execute(q)
		var mu sync.Mutex
		var got []map[string]any
		async.AddSyncSink(func(rs []map[string]any) {
			mu.Lock()
			got = append(got, rs...)
			mu.Unlock()
		})
		var rows []map[string]any
		var fresh, usedRes []string
		for i := 0; i < nrows; i++ {
			row := mkRow(i)
			rows = append(rows, row)
			f := streamsql.New(streamsql.WithDiscardLog())
			if f.Execute(q) != nil {
				fresh = append(fresh, "execerr")
			} else {
				fresh = append(fresh, run(f, row))
			}
			f.Stop()
			usedRes = append(usedRes, run(used, row))
			async.Emit(row)
		}
		waitQuiet(func() int { mu.Lock(); defer mu.Unlock(); return len(got) })
		used.Stop()
		async.Stop()
		mu.Lock()
		sink := append([]map[string]any(nil), got...)
		mu.Unlock()
		want := 0
		for _, u := range usedRes {
			if u != "none" {
				want++
			}
		}
		for i := 0; i < nrows; i++ {
			a := "none"
			for pos, res := range sink {
				if id, ok := res["id"].(int); ok && id == i {
					a = jEnc(res)
					if pos > 0 {
						if prev, ok := sink[pos-1]["id"].(int); ok && prev > id {
							a = "outoforder"
						}
					}
				}
			}
			if len(sink) != want {
				a = fmt.Sprintf("count%d/%d", len(sink), want)
			}
			o.Line("C05 NQ %s # %s # %s # %s # %s # %s", hx(q), qenc, jEnc(rows[i]), fresh[i], usedRes[i], a)
			o.Count("nq/rows")
		}
	}
}

func c05Paths(tier string, seed uint64, o *Out) {
	c05PathLevel(tier, NewRNG(seed*1000003+525), o)
	c05SqlLevel(tier, NewRNG(seed*1000003+535), o)
}
